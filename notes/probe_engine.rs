use inputlayer::{IQLEngine, Tuple, Value, OptimizationConfig};
use std::io::BufRead;
fn main() {
    let stdin = std::io::stdin();
    let mut facts: Vec<(String, Vec<Tuple>)> = vec![];
    let mut cfg = OptimizationConfig::default();
    let mut workers = 1usize; let mut limit = 0usize;
    for line in stdin.lock().lines() {
        let line = line.unwrap(); let line = line.trim();
        if line.is_empty() || line.starts_with('#') { continue; }
        let (cmd, rest) = line.split_once(' ').unwrap_or((line, ""));
        match cmd {
            "fact" => { let mut it = rest.split_whitespace(); let r = it.next().unwrap().to_string();
                let t = Tuple::new(it.map(|x| if let Ok(i)=x.parse::<i64>() {Value::Int64(i)} else if let Ok(f)=x.parse::<f64>() {Value::Float64(f)} else {Value::string(x)}).collect());
                if let Some(e) = facts.iter_mut().find(|e| e.0==r) { e.1.push(t) } else { facts.push((r, vec![t])) } }
            "clear" => facts.clear(),
            "cfg" => { let b: Vec<bool> = rest.split_whitespace().map(|x| x=="1").collect();
                cfg = OptimizationConfig{enable_join_planning:b[0],enable_sip_rewriting:b[1],enable_subplan_sharing:b[2],enable_boolean_specialization:b[3],enable_magic_sets:b[4]}; }
            "workers" => workers = rest.parse().unwrap(),
            "limit" => limit = rest.parse().unwrap(),
            "run" => { let prog = rest.replace(';', "\n");
                let mut e = IQLEngine::with_config(cfg.clone()); e.set_num_workers(workers); e.set_max_result_rows(limit);
                for (r,t) in &facts { e.add_tuples(r, t.clone()); }
                let mut res = e.execute_tuples(&prog).map(|mut v| { v.sort(); v.iter().map(|t| format!("{:?}", t.values())).collect::<Vec<_>>() });
                println!("{} => {:?}", rest, res); }
            _ => println!("?? {line}"),
        }
    }
}
