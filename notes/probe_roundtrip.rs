use inputlayer::parser::parse_rule;
use std::io::BufRead;
fn main(){
  for line in std::io::stdin().lock().lines(){ let l=line.unwrap(); if l.trim().is_empty(){continue;}
    match parse_rule(&l){
      Ok(r)=>{ let s=r.to_string(); match parse_rule(&s){ Ok(r2)=>{ println!("{} | {} | same={}", l, s, format!("{:?}",r)==format!("{:?}",r2)); if format!("{:?}",r)!=format!("{:?}",r2){println!("   A={:?}\n   B={:?}",r,r2);} }, Err(e)=>println!("{} | {} | REPARSE-ERR {}", l,s,e)} }
      Err(e)=>println!("{} | PARSE-ERR {}", l, e) } } }
