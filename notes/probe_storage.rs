use inputlayer::{Config, StorageEngine, Tuple, Value};
use inputlayer::index_manager::{DistanceMetric, HnswConfig, Index};
use inputlayer::hnsw_index::HnswIndex;
fn cfg(d: &std::path::Path) -> Config { let mut c = Config::default(); c.storage.data_dir = d.to_path_buf(); c.storage.performance.num_threads = 1; c }
fn t(v: Vec<Value>) -> Tuple { Tuple::new(v) }
fn show(s: &StorageEngine, kg: &str, q: &str) -> String { match s.execute_query_tuples_on(kg, q) { Ok(mut v) => { v.sort(); format!("{:?}", v.iter().map(|t| format!("{:?}", t.values())).collect::<Vec<_>>()) }, Err(e) => format!("ERR {e}") } }
fn main() {
    // C11: duplicate insert then delete
    let d = tempfile::TempDir::new().unwrap();
    { let s = StorageEngine::new(cfg(d.path())).unwrap();
      let a = t(vec![Value::Int64(1), Value::Int64(2)]);
      println!("ins {:?}", s.insert_tuples_into("default", "r", vec![a.clone()]));
      println!("ins {:?}", s.insert_tuples_into("default", "r", vec![a.clone()]));
      println!("del {:?}", s.delete_tuples_from("default", "r", vec![a.clone()]));
      println!("live: {}", show(&s, "default", "q(X,Y) <- r(X,Y)"));
      // absent delete then insert
      let b = t(vec![Value::Int64(7), Value::Int64(8)]);
      println!("del {:?}", s.delete_tuples_from("default", "s", vec![b.clone()]));
      println!("ins {:?}", s.insert_tuples_into("default", "s", vec![b.clone()]));
      println!("live s: {}", show(&s, "default", "q(X,Y) <- s(X,Y)"));
      s.save_all().unwrap(); }
    { let s = StorageEngine::new(cfg(d.path())).unwrap();
      println!("after restart r: {}", show(&s, "default", "q(X,Y) <- r(X,Y)"));
      println!("after restart s: {}", show(&s, "default", "q(X,Y) <- s(X,Y)")); }
    // C12: heterogeneous column types
    let d = tempfile::TempDir::new().unwrap();
    { let s = StorageEngine::new(cfg(d.path())).unwrap();
      println!("ins {:?}", s.insert_tuples_into("default", "m", vec![t(vec![Value::Int64(1)])]));
      println!("ins {:?}", s.insert_tuples_into("default", "m", vec![t(vec![Value::string("x")])]));
      println!("ins {:?}", s.insert_tuples_into("default", "m", vec![t(vec![Value::Float64(-0.0)]), t(vec![Value::Float64(f64::NAN)]), t(vec![Value::Int32(5)]), t(vec![Value::Null]), t(vec![Value::Timestamp(9)]), t(vec![Value::Bool(true)])]));
      println!("live m: {}", show(&s, "default", "q(X) <- m(X)"));
      println!("save {:?}", s.save_all()); }
    match StorageEngine::new(cfg(d.path())) { Ok(s) => println!("after restart m: {}", show(&s, "default", "q(X) <- m(X)")), Err(e) => println!("REOPEN ERR {e}") }
    // C24: delete then search
    let mut ix = HnswIndex::new(HnswConfig{m:8, ef_construction:100, ef_search:32, metric: DistanceMetric::Euclidean});
    for i in 0..10 { ix.insert(i, &[i as f32, 0.0]).unwrap(); }
    ix.delete(0);
    println!("search after delete(0): {:?} tomb={}", ix.search(&[0.0,0.0], 3, None), ix.tombstone_count());
    ix.insert(0, &[0.5, 0.0]).unwrap();
    println!("search after reinsert(0): {:?} tomb={} len={}", ix.search(&[0.0,0.0], 3, None), ix.tombstone_count(), ix.len());
}
