#!/usr/bin/env python3
"""Adds the cfg(inputlayer_verif) yield points used by C15/C17/C19/C20/C10 (add-only).
usage: conc_hooks_patch.py <repo root>   (refuses to run twice)
Each edit = (text ending in a newline, text that follows it, label): the yield point is inserted
between the two, indented like the first line of the second text."""
import sys, re
root = sys.argv[1]

def yp(label, indent):
    return f'{indent}#[cfg(inputlayer_verif)]\n{indent}crate::verif_hooks::yield_point("{label}");\n'

def patch(path, edits):
    p = f"{root}/{path}"
    s = open(p).read()
    for (pre, post, label) in edits:
        if f'yield_point("{label}")' in s:
            raise SystemExit(f"already patched: {label}")
        assert pre.endswith("\n"), label
        n = s.count(pre + post)
        if n != 1:
            raise SystemExit(f"anchor for {label} found {n} times in {path}")
        i = s.index(pre + post) + len(pre)
        indent = re.match(r"[ \t]*", post).group(0)
        s = s[:i] + yp(label, indent) + s[i:]
    open(p, "w").write(s)

patch("src/storage/persist/mod.rs", [
    # append: WAL section done, shard-map section not yet entered
    ("            }\n        }\n\n", "        // Add to buffer\n        let should_flush = {", "persist.append.after_wal"),
    # append: buffer section left; flush / wal-size check not yet entered
    ("        };\n\n", "        // Flush if buffer is full\n        if should_flush {", "persist.append.after_buffer"),
    # flush: batch + meta durable, still holding shards.write(); WAL rewrite not yet done
    ("        }\n\n", "        // Step 3: Remove WAL entries LAST (safe - metadata already points to batch)", "persist.flush.before_wal"),
    # compact: flush section left, compaction section not yet entered
    ("        self.flush(shard)?;\n\n", "        let mut shards = self.shards.write();\n        let state = shards\n            .get_mut(shard)\n            .ok_or_else(|| StorageError::Other(format!(\"Shard not found: {shard}\")))?;\n\n        // Read all updates", "persist.compact.after_flush"),
    # delete_shard: removed from the map (lock released), files still there
    ("        }; // write lock released - other shards unblocked\n\n", "        // Step 2: Delete batch files FIRST (crash-safe ordering)", "persist.delete_shard.after_unmap"),
    # delete_shard: WAL filtered, meta file still there
    ("        }\n\n", "        // Step 4: Delete metadata file LAST (crash-safe ordering)", "persist.delete_shard.after_wal"),
])

patch("src/storage_engine/mod.rs", [
    # create: tombstone check passed, DashMap entry not yet taken
    ("        }\n\n", "        // Atomic check-and-insert to prevent TOCTOU race\n        use dashmap::mapref::entry::Entry;", "se.create.after_dropping_check"),
    # create: KG in the map, metadata file not yet rewritten
    ("        }\n\n", "        // Update system metadata\n        self.save_knowledge_graphs_metadata()?;\n\n        let elapsed_ms = start.elapsed().as_millis() as u64;\n        info!(kg = %name, elapsed_ms, \"kg_create_complete\");", "se.create.after_insert"),
    # drop phase 1: tombstone set, KG still in the map
    ("        self.dropping_kgs.write().insert(name.to_string());\n\n", "        // Remove from in-memory DashMap (instant)", "se.drop.after_tombstone"),
    # drop phase 1: KG removed from the map, metadata file not yet rewritten
    ("        self.knowledge_graphs.remove(name);\n\n", "        // Save metadata JSON (small file write, fast)", "se.drop.after_remove"),
    # drop phase 2: shards deleted, data dir still there
    ("            }\n        }\n", "        if cleanup.data_dir.exists() {\n            let _ = fs::remove_dir_all(&cleanup.data_dir);", "se.drop.after_shards"),
    # drop phase 2: everything deleted, tombstone still set
    ("        }\n", "        // Remove tombstone - name is now safe to reuse", "se.drop.before_untombstone"),
    # drop (convenience): between phase 1 and phase 2
    ("        let cleanup = self.prepare_drop_knowledge_graph(name)?;\n", "        self.finish_drop_knowledge_graph(cleanup);\n        Ok(())", "se.drop.after_prepare"),
    # insert: view/arity checks done (KG read locks released), tombstone guard not yet taken
    ("        }\n\n", "        // Hold dropping_kgs read guard across the entire persist operation\n        // to prevent a TOCTOU race where a KG drop starts between the check\n        // and the persist call.", "se.insert.after_checks"),
    # insert: logical time taken, nothing persisted yet
    ("        let time = self.logical_time.fetch_add(1, Ordering::SeqCst);\n\n", "        // Create DD-style updates (+1 diff for insert)", "se.insert.after_time"),
    # insert: shard ensured (own critical section), append not yet started
    ("        self.persist.ensure_shard(&shard)?;\n", "        self.persist.append(&shard, &updates)?;\n        let persist_ms", "se.insert.after_ensure_shard"),
    # insert: persisted, tombstone guard released, KG write lock not yet taken
    ("        drop(dropping_guard);\n\n", "        // Update in-memory state\n        let db = self\n            .knowledge_graphs\n            .get(kg)\n            .ok_or_else(|| StorageError::KnowledgeGraphNotFound(kg.to_string()))?;\n\n        let mut db = db.write();\n        db.insert_in_memory(relation, tuples, time)", "se.insert.after_persist"),
    # delete: same three boundaries
    ("        let time = self.logical_time.fetch_add(1, Ordering::SeqCst);\n\n", "        // Create DD-style updates (-1 diff for delete)", "se.delete.after_time"),
    ("        self.persist.ensure_shard(&shard)?;\n", "        self.persist.append(&shard, &updates)?;\n\n        // Release dropping_kgs guard before acquiring KG write lock", "se.delete.after_ensure_shard"),
    ("        drop(dropping_guard);\n\n", "        // Update in-memory state\n        let db = self\n            .knowledge_graphs\n            .get(kg)\n            .ok_or_else(|| StorageError::KnowledgeGraphNotFound(kg.to_string()))?;\n\n        let mut db = db.write();\n        db.delete_in_memory(relation, &tuples, time)", "se.delete.after_persist"),
    # save_knowledge_graphs_metadata: list collected from the map, file not yet written
    ("        };\n\n", "        metadata.save(&metadata_dir.join(\"knowledge_graphs.json\"))?;", "se.save_meta.before_write"),
])

patch("src/incremental.rs", [
    ("        let target = max_time + 1;\n", "        self.advance_time(target)?;\n        self.wait_until_caught_up(target)?;\n        self.read_relation(relation)", "inc.read.after_max"),
    ("        self.advance_time(target)?;\n", "        self.wait_until_caught_up(target)?;\n        self.read_relation(relation)", "inc.read.after_advance"),
])

patch("src/protocol/handler.rs", [
    # session query: clean flag + kg read, session facts not yet copied
    ("        }\n\n", "        // Slow path: combine ephemeral + persistent data\n        // Get ephemeral facts and rules from session\n        let session_facts = self.sessions.get_session_facts(session_id)?;", "handler.session_query.after_clean_check"),
    # session query: facts copied, rule texts not yet copied (two separate lock acquisitions)
    ("        let session_facts = self.sessions.get_session_facts(session_id)?;\n", "        let rule_texts: Vec<String> = self\n            .sessions\n            .with_session(session_id, |session| session.rule_texts().to_vec())?;\n\n        // Apply same preprocessing as the fast path", "handler.session_query.between_reads"),
    # session query: session state copied, snapshot pointer not yet loaded
    ("        let start = Instant::now();\n\n", "        // Get snapshot under read lock, then RELEASE lock immediately.\n        // This prevents lock convoys: holding the lock during DD computation\n        // would block all mutations (the exact bug fixed in PR #12 for regular queries).\n        let (snapshot, schema_col_names) = {\n            let storage = self.storage.read();\n            storage\n                .ensure_knowledge_graph(&kg)", "handler.session_query.before_snapshot"),
])
print("patched")
