use inputlayer::{Config, StorageEngine, Tuple, Value, IQLEngine, OptimizationConfig};
use inputlayer::protocol::handler::Handler;
use inputlayer::auth::{AuthIdentity, Role};
fn cfg(d: &std::path::Path) -> Config { let mut c = Config::default(); c.storage.data_dir = d.to_path_buf(); c.storage.performance.num_threads = 1; c }
fn rows(r: &Result<inputlayer::protocol::wire::QueryResult, String>) -> String { match r { Ok(q) => format!("OK total={} rows={:?}", q.total_count, q.rows.iter().map(|t| format!("{:?}", t.values)).collect::<Vec<_>>()), Err(e) => format!("ERR {e}") } }
#[tokio::main]
async fn main() {
    // (a) SIP + aggregate with wildcard core atom
    for sip in [false, true] {
        let mut e = IQLEngine::with_config(OptimizationConfig{enable_join_planning:false,enable_sip_rewriting:sip,enable_subplan_sharing:false,enable_boolean_specialization:false,enable_magic_sets:false});
        e.add_tuples("r", vec![Tuple::new(vec![Value::Int64(1),Value::Int64(10),Value::Int64(100)]), Tuple::new(vec![Value::Int64(1),Value::Int64(10),Value::Int64(200)])]);
        e.add_tuples("s", vec![Tuple::new(vec![Value::Int64(10),Value::Int64(7)])]);
        println!("(a) sip={sip}: {:?}", e.execute_tuples("c(X, count<Z>) <- r(X,Y,_), s(Y,Z)\nq(X,C) <- c(X,C)").map(|v| v.iter().map(|t| format!("{:?}", t.values())).collect::<Vec<_>>()));
    }
    // (b) KG name collisions
    { let d = tempfile::TempDir::new().unwrap();
      { let s = StorageEngine::new(cfg(d.path())).unwrap();
        println!("(b) create a_b {:?}, a {:?}, x:y {:?}", s.create_knowledge_graph("a_b").is_ok(), s.create_knowledge_graph("a").is_ok(), s.create_knowledge_graph("x:y").is_ok());
        println!("(b) ins a_b/c {:?}", s.insert_tuples_into("a_b", "c", vec![Tuple::new(vec![Value::Int64(1)])]));
        println!("(b) ins a/b_c {:?}", s.insert_tuples_into("a", "b_c", vec![Tuple::new(vec![Value::Int64(2)])]));
        println!("(b) ins x:y/r {:?}", s.insert_tuples_into("x:y", "r", vec![Tuple::new(vec![Value::Int64(3)])]));
        s.save_all().unwrap(); }
      match StorageEngine::new(cfg(d.path())) { Ok(s) => { println!("(b) kgs after restart {:?}", s.list_knowledge_graphs());
        println!("(b) a_b/c = {:?}", s.execute_query_tuples_on("a_b", "q(X) <- c(X)").map(|v| v.len()));
        println!("(b) a/b_c = {:?}", s.execute_query_tuples_on("a", "q(X) <- b_c(X)").map(|v| v.len()));
        println!("(b) x:y/r = {:?}", s.execute_query_tuples_on("x:y", "q(X) <- r(X)").map(|v| v.len())); }, Err(e) => println!("(b) REOPEN ERR {e}") } }
    // handler-based probes
    let d = tempfile::TempDir::new().unwrap();
    let h = Handler::from_config(cfg(d.path())).unwrap();
    h.bootstrap_auth();
    println!("user create: {}", rows(&h.handle_user_create("bob", "pw12345678", "viewer")));
    println!("acl grant: {:?}", h.handle_kg_acl_grant("default", "bob", "viewer"));
    let bob = AuthIdentity{ username: "bob".into(), role: Role::Viewer };
    let kg = Some("default".to_string());
    println!("(h) admin insert: {}", rows(&h.execute_program(None, kg.clone(), "+r[(1,), (2,)]".into(), None).await));
    println!("(h) bob single insert: {}", rows(&h.execute_program(None, kg.clone(), "+r[(5,)]".into(), Some(&bob)).await));
    println!("(h) bob comment trick: {}", rows(&h.execute_program(None, kg.clone(), "?r(X) // hi\n+r[(6,)]".into(), Some(&bob)).await));
    println!("(h) bob multiline: {}", rows(&h.execute_program(None, kg.clone(), "+r[(7,)]\n?r(X)".into(), Some(&bob)).await));
    println!("(h) r now: {}", rows(&h.execute_program(None, kg.clone(), "?r(X)".into(), None).await));
    println!("(h) bob internal: {}", rows(&h.execute_program(None, kg.clone(), "?r(X)\n.kg use _internal\n?users(U,H,R)".into(), Some(&bob)).await));
    // (c) duplicate session fact under count
    println!("(c) {}", rows(&h.execute_program(None, kg.clone(), "r(1)\nc(count<X>) <- r(X)\n?c(N)".into(), None).await));
    println!("(c) base {}", rows(&h.execute_program(None, kg.clone(), "c(count<X>) <- r(X)\n?c(N)".into(), None).await));
    // (f) mutual negation: persistent + session
    println!("(f) {}", rows(&h.execute_program(None, kg.clone(), "+n[(1,), (2,)]".into(), None).await));
    println!("(f) persistent a: {}", rows(&h.execute_program(None, kg.clone(), "+a(X) <- n(X), !b(X)".into(), None).await));
    println!("(f) session b + query: {}", rows(&h.execute_program(None, kg.clone(), "b(X) <- n(X), !a(X)\n?a(X)".into(), None).await));
    println!("(f) persistent b: {}", rows(&h.execute_program(None, kg.clone(), "+b(X) <- n(X), !a(X)".into(), None).await));
    // (d) why with negation over derived
    println!("{}", rows(&h.execute_program(None, kg.clone(), "+e[(1,2), (1,3)]\n+base[(2,)]\n+dr(Y) <- base(Y)\n+p(X) <- e(X,Y), !dr(Y)".into(), None).await));
    let w = h.execute_program(None, kg.clone(), ".why ?p(1)".into(), None).await;
    println!("(d) why p(1): {}", rows(&w));
    // (e2) why_not greedy
    println!("{}", rows(&h.execute_program(None, kg.clone(), "+f[(3,)]\n+g(X) <- e(X,Y), f(Y)".into(), None).await));
    println!("(e2) g: {}", rows(&h.execute_program(None, kg.clone(), "?g(X)".into(), None).await));
    println!("(e2) why_not g(1): {}", rows(&h.execute_program(None, kg.clone(), ".why_not g(1)".into(), None).await));
    // (g) NaN sort
    println!("{}", rows(&h.execute_program(None, kg.clone(), "+v[(1, 2.0), (2, 1.0), (3, 9007199254740992.0)]\n+w[(9007199254740992,), (9007199254740993,), (5,)]".into(), None).await));
    println!("(g) sort: {}", rows(&h.execute_program(None, kg.clone(), "z(Y) <- v(_, Y)\nz(Y) <- w(Y)\n?z(Y:asc)".into(), None).await));
    // (e) torn catalog
    drop(h);
    let cat = d.path().join("default/rules/catalog.json");
    let bytes = std::fs::read(&cat).unwrap(); std::fs::write(&cat, &bytes[..bytes.len()/2]).unwrap();
    match StorageEngine::new(cfg(d.path())) { Ok(s) => println!("(e) reopen ok, rules={:?}", s.list_rules_in("default")), Err(e) => println!("(e) REOPEN ERR {e}") }
}
