/-
  C35 helper: `i64 as f64` (model `i64AsF64`) is weakly monotone in the sign-magnitude key order of
  doubles, and its result is a finite non-NaN double.
-/
import ILV.Model.WireSort
namespace ILV

theorem bitLenAux_zero (f : Nat) : bitLenAux f 0 = 0 := by cases f <;> simp [bitLenAux]

theorem bitLenAux_le (f : Nat) : ∀ m, bitLenAux f m ≤ f := by
  induction f with
  | zero => intro m; simp [bitLenAux]
  | succ f ih =>
    intro m
    simp only [bitLenAux]
    split
    · omega
    · have := ih (m / 2); omega

theorem bitLenAux_spec (f : Nat) : ∀ m, 0 < m → m < 2 ^ f →
    1 ≤ bitLenAux f m ∧ 2 ^ (bitLenAux f m - 1) ≤ m ∧ m < 2 ^ (bitLenAux f m) := by
  induction f with
  | zero => intro m h0 h1; simp at h1; omega
  | succ f ih =>
    intro m h0 h1
    have hm : m ≠ 0 := by omega
    simp only [bitLenAux, hm, if_false]
    by_cases h2 : m / 2 = 0
    · have : m = 1 := by omega
      subst this
      simp [bitLenAux_zero]
    · have hlt : m / 2 < 2 ^ f := by
        rw [Nat.pow_succ] at h1; omega
      obtain ⟨k1, k2, k3⟩ := ih (m / 2) (by omega) hlt
      generalize bitLenAux f (m / 2) = k at k1 k2 k3
      refine ⟨by omega, ?_, ?_⟩
      · have : 1 + k - 1 = (k - 1) + 1 := by omega
        rw [this, Nat.pow_succ]; omega
      · have : 1 + k = k + 1 := by omega
        rw [this, Nat.pow_succ]; omega

/-- exponent of `m`: 2^e ≤ m < 2^(e+1). -/
def expOf (m : Nat) : Nat := bitLen m - 1

theorem expOf_spec (m : Nat) (h0 : 0 < m) (h1 : m < 2 ^ 64) : 2 ^ expOf m ≤ m ∧ m < 2 ^ (expOf m + 1) ∧ expOf m ≤ 63 := by
  obtain ⟨k1, k2, k3⟩ := bitLenAux_spec 64 m h0 h1
  have kle := bitLenAux_le 64 m
  unfold expOf bitLen
  generalize bitLenAux 64 m = k at k1 k2 k3 kle
  have : k - 1 + 1 = k := by omega
  rw [this]
  exact ⟨k2, k3, by omega⟩

theorem expOf_mono (m m' : Nat) (h0 : 0 < m) (hle : m ≤ m') (h1 : m' < 2 ^ 64) : expOf m ≤ expOf m' := by
  obtain ⟨a1, _, _⟩ := expOf_spec m h0 (by omega)
  obtain ⟨_, b2, _⟩ := expOf_spec m' (by omega) h1
  by_cases h : expOf m ≤ expOf m'
  · exact h
  · exfalso
    have : expOf m' + 1 ≤ expOf m := by omega
    have := Nat.pow_le_pow_right (n := 2) (by decide) this
    omega

theorem rhe_bounds (m sh : Nat) : m / 2 ^ sh ≤ rhe m sh ∧ rhe m sh ≤ m / 2 ^ sh + 1 := by
  unfold rhe
  simp only
  split <;> omega

theorem rhe_mono (m m' sh : Nat) (hle : m ≤ m') : rhe m sh ≤ rhe m' sh := by
  have hd : 0 < 2 ^ sh := Nat.two_pow_pos _
  have hq : m / 2 ^ sh ≤ m' / 2 ^ sh := Nat.div_le_div_right hle
  by_cases hlt : m / 2 ^ sh < m' / 2 ^ sh
  · have := (rhe_bounds m sh).2
    have := (rhe_bounds m' sh).1
    omega
  · have heq : m / 2 ^ sh = m' / 2 ^ sh := by omega
    have hr : m % 2 ^ sh ≤ m' % 2 ^ sh := by
      have e1 := Nat.div_add_mod m (2 ^ sh)
      have e2 := Nat.div_add_mod m' (2 ^ sh)
      rw [heq] at e1
      omega
    unfold rhe
    simp only [heq]
    generalize m % 2 ^ sh = r at hr
    generalize m' % 2 ^ sh = r' at hr
    generalize 2 ^ (sh - 1) = hf
    generalize m' / 2 ^ sh = q
    by_cases c1 : (decide (r > hf) || (r == hf && q % 2 == 1)) = true
    · have c2 : (decide (r' > hf) || (r' == hf && q % 2 == 1)) = true := by
        simp only [Bool.or_eq_true, decide_eq_true_eq, Bool.and_eq_true, beq_iff_eq] at c1 ⊢
        rcases c1 with c | ⟨c, d⟩
        · left; omega
        · by_cases e : r' = hf
          · right; exact ⟨e, d⟩
          · left; omega
      simp [c1, c2]
    · have c1' : (decide (r > hf) || (r == hf && q % 2 == 1)) = false := by
        cases h : (decide (r > hf) || (r == hf && q % 2 == 1)) with
        | true => exact absurd h c1
        | false => rfl
      simp only [c1', Bool.false_eq_true, if_false]
      split <;> omega

theorem sigOf_bounds (m e : Nat) (h1 : 2 ^ e ≤ m) (h2 : m < 2 ^ (e + 1)) : 2 ^ 52 ≤ sigOf m e ∧ sigOf m e ≤ 2 ^ 53 := by
  unfold sigOf
  split
  · rename_i he
    have e1 : 2 ^ 52 = 2 ^ e * 2 ^ (52 - e) := by rw [← Nat.pow_add]; congr 1; omega
    have e2 : 2 ^ 53 = 2 ^ (e + 1) * 2 ^ (52 - e) := by rw [← Nat.pow_add]; congr 1; omega
    have hp : 0 < 2 ^ (52 - e) := Nat.two_pow_pos _
    constructor
    · rw [e1]; exact Nat.mul_le_mul_right _ h1
    · rw [e2]; exact Nat.le_of_lt (Nat.mul_lt_mul_of_pos_right h2 hp)
  · rename_i he
    have hd : 0 < 2 ^ (e - 52) := Nat.two_pow_pos _
    have e1 : 2 ^ e = 2 ^ 52 * 2 ^ (e - 52) := by rw [← Nat.pow_add]; congr 1; omega
    have e2 : 2 ^ (e + 1) = 2 ^ 53 * 2 ^ (e - 52) := by rw [← Nat.pow_add]; congr 1; omega
    have q1 : 2 ^ 52 ≤ m / 2 ^ (e - 52) := (Nat.le_div_iff_mul_le hd).2 (by rw [← e1]; exact h1)
    have q2 : m / 2 ^ (e - 52) < 2 ^ 53 := (Nat.div_lt_iff_lt_mul hd).2 (by rw [← e2]; exact h2)
    have := rhe_bounds m (e - 52)
    omega

theorem sigOf_mono (m m' e : Nat) (hle : m ≤ m') : sigOf m e ≤ sigOf m' e := by
  unfold sigOf
  split
  · exact Nat.mul_le_mul_right _ hle
  · exact rhe_mono m m' _ hle

theorem bits_step_gen (P e e' x y : Nat) (hlt : e + 1 ≤ e') (hx : x ≤ P + P) (hy : P ≤ y) :
    (e + 1022) * P + x ≤ (e' + 1022) * P + y := by
  calc (e + 1022) * P + x ≤ (e + 1022) * P + (P + P) := Nat.add_le_add_left hx _
    _ = (e + 1 + 1022) * P + P := by simp only [Nat.add_mul, Nat.one_mul]; ac_rfl
    _ ≤ (e' + 1022) * P + P := Nat.add_le_add_right (Nat.mul_le_mul_right _ (by omega)) _
    _ ≤ (e' + 1022) * P + y := Nat.add_le_add_left hy _

theorem pow53 : (2 : Nat) ^ 53 = 2 ^ 52 + 2 ^ 52 := by
  show (2 : Nat) ^ (52 + 1) = 2 ^ 52 + 2 ^ 52
  rw [Nat.pow_succ, Nat.mul_two]

theorem bits_step (e e' x y : Nat) (hlt : e + 1 ≤ e') (hx : x ≤ 2 ^ 53) (hy : 2 ^ 52 ≤ y) :
    (e + 1022) * 2 ^ 52 + x ≤ (e' + 1022) * 2 ^ 52 + y :=
  bits_step_gen (2 ^ 52) e e' x y hlt (by rw [← pow53]; exact hx) hy

theorem natToF64Bits_mono (m m' : Nat) (hle : m ≤ m') (h1 : m' < 2 ^ 64) : natToF64Bits m ≤ natToF64Bits m' := by
  unfold natToF64Bits
  by_cases h0 : m = 0
  · simp [h0]
  · have h0' : m' ≠ 0 := by omega
    simp only [h0, h0', if_false]
    obtain ⟨a1, a2, _⟩ := expOf_spec m (by omega) (by omega)
    obtain ⟨b1, b2, _⟩ := expOf_spec m' (by omega) h1
    have hmono := expOf_mono m m' (by omega) hle h1
    have sa := sigOf_bounds m (expOf m) a1 a2
    have sb := sigOf_bounds m' (expOf m') b1 b2
    show (expOf m + 1022) * 2 ^ 52 + sigOf m (expOf m) ≤ (expOf m' + 1022) * 2 ^ 52 + sigOf m' (expOf m')
    by_cases he : expOf m = expOf m'
    · rw [he]
      exact Nat.add_le_add_left (sigOf_mono m m' (expOf m') hle) _
    · have hlt : expOf m + 1 ≤ expOf m' := by omega
      exact bits_step _ _ _ _ hlt sa.2 sb.1

theorem pow63 : (2 : Nat) ^ 63 = 2048 * 2 ^ 52 := by
  show (2 : Nat) ^ (11 + 52) = 2048 * 2 ^ 52
  rw [Nat.pow_add]

theorem natToF64Bits_lt (m : Nat) (h1 : m < 2 ^ 64) : natToF64Bits m < 2 ^ 63 := by
  unfold natToF64Bits
  by_cases h0 : m = 0
  · simp only [h0, if_true]; exact Nat.two_pow_pos _
  · simp only [h0, if_false]
    obtain ⟨a1, a2, a3⟩ := expOf_spec m (by omega) h1
    have sa := sigOf_bounds m (expOf m) a1 a2
    show (expOf m + 1022) * 2 ^ 52 + sigOf m (expOf m) < 2 ^ 63
    have hP : 0 < 2 ^ 52 := Nat.two_pow_pos _
    -- strict: sig ≤ 2^53 and e ≤ 63 give (e+1022)*P + sig ≤ 1085 P + 2P = 1087 P < 2048 P
    rw [pow63]
    have : (expOf m + 1022) * 2 ^ 52 ≤ 1085 * 2 ^ 52 := Nat.mul_le_mul_right _ (by omega)
    have e1 : 2048 * 2 ^ 52 = 1085 * 2 ^ 52 + (2 ^ 52 + 2 ^ 52) + 961 * 2 ^ 52 := by
      have : 2048 = 1085 + 1 + 1 + 961 := by decide
      rw [this]
    have hx : sigOf m (expOf m) ≤ 2 ^ 52 + 2 ^ 52 := by rw [← pow53]; exact sa.2
    generalize (2:Nat) ^ 52 = P at *
    generalize sigOf m (expOf m) = x at *
    generalize (expOf m + 1022) * P = y at *
    omega

/-- key of the rounded integer. -/
def rkey (a : Int) : Int := f64Key (i64AsF64 a)

theorem rkey_eq (a : Int) (h : a.natAbs < 2 ^ 64) :
    rkey a = if a < 0 then - (natToF64Bits a.natAbs : Int) else (natToF64Bits a.natAbs : Int) := by
  have hb := natToF64Bits_lt a.natAbs h
  unfold rkey i64AsF64 f64Key
  generalize natToF64Bits a.natAbs = b at hb
  by_cases hn : a < 0
  · simp only [hn, if_true]
    have h1 : (2 ^ 63 + b) / 2 ^ 63 % 2 = 1 := by omega
    have h2 : (2 ^ 63 + b) % 2 ^ 63 = b := by omega
    rw [h1, h2]; simp
  · simp only [hn, if_false]
    have h1 : b / 2 ^ 63 % 2 = 0 := by omega
    have h2 : b % 2 ^ 63 = b := by omega
    rw [h1, h2]; simp

/-- `i64 as f64` is weakly monotone. -/
theorem rkey_mono (a a' : Int) (ha : a.natAbs < 2 ^ 64) (ha' : a'.natAbs < 2 ^ 64) (hle : a ≤ a') : rkey a ≤ rkey a' := by
  rw [rkey_eq a ha, rkey_eq a' ha']
  by_cases h1 : a < 0 <;> by_cases h2 : a' < 0 <;> simp only [h1, h2, if_true, if_false]
  · have := natToF64Bits_mono a'.natAbs a.natAbs (by omega) ha
    omega
  · omega
  · omega
  · have := natToF64Bits_mono a.natAbs a'.natAbs (by omega) ha'
    omega

end ILV
