/-
  C18, recursive fragment: in a program whose clause bodies mention only non-head relations and the
  clause's own head ("self-level"), the table of a head evolves by a step function that depends on
  nothing but its own clauses and the non-head inputs. Two converged evaluations that share that step
  function therefore produce the same table (no fuel bound is needed: convergence is a decidable
  side condition, checked where it is used).
-/
import ILV.Lemmas.Incr
namespace ILV.C18

theorem evalProg_eq (prog : List Clause) (inputs : List (Name × List Tup)) :
    evalProg prog inputs = look inputs (res prog inputs) := rfl

def tpow (prog : List Clause) (inputs : List (Name × List Tup)) : Nat → List (Name × List Tup) → List (Name × List Tup)
  | 0, d => d
  | j + 1, d => tpow prog inputs j (tstep prog inputs d)

theorem iter_is_pow (prog : List Clause) (inputs : List (Name × List Tup)) (k : Nat) (d : List (Name × List Tup)) :
    ∃ j, iter prog inputs k d = tpow prog inputs j d := by
  induction k generalizing d with
  | zero => exact ⟨0, rfl⟩
  | succ k ih =>
    rw [iter_succ]
    split
    · exact ⟨0, rfl⟩
    · obtain ⟨j, hj⟩ := ih (tstep prog inputs d)
      exact ⟨j + 1, hj⟩

def SelfLevel (prog : List Clause) : Prop :=
  ∀ c ∈ prog, ∀ r ∈ bodyRels c, r ∉ heads prog ∨ r = c.head.rel

/-- one round for the table of `n`, given only its own clauses and the non-head inputs. -/
def nstep (cls : List Clause) (inputs : List (Name × List Tup)) (n : Name) (tbl : List Tup) : List Tup :=
  addNew tbl (consequences cls (fun r => if r = n then tbl else inDb inputs r) n)

def npow (cls : List Clause) (inputs : List (Name × List Tup)) (n : Name) : Nat → List Tup → List Tup
  | 0, t => t
  | j + 1, t => npow cls inputs n j (nstep cls inputs n t)

theorem akeys_tstep (prog : List Clause) (inputs d : List (Name × List Tup)) : akeys (tstep prog inputs d) = akeys d := by
  unfold tstep akeys
  rw [List.map_map]
  rfl

theorem akeys_tpow (prog : List Clause) (inputs : List (Name × List Tup)) (j : Nat) (d : List (Name × List Tup)) :
    akeys (tpow prog inputs j d) = akeys d := by
  induction j generalizing d with
  | zero => rfl
  | succ j ih => simp only [tpow]; rw [ih, akeys_tstep]

theorem akeys_d0 (prog : List Clause) : akeys (d0 prog) = heads prog := by
  unfold d0 akeys
  rw [List.map_map]
  simp [Function.comp_def]

theorem akeys_res (prog : List Clause) (inputs : List (Name × List Tup)) : akeys (res prog inputs) = heads prog := by
  unfold res
  obtain ⟨j, hj⟩ := iter_is_pow prog inputs (evalFuel prog inputs) (d0 prog)
  rw [hj, akeys_tpow, akeys_d0]

theorem clausesOf_idem (prog : List Clause) (n : Name) : clausesOf (clausesOf prog n) n = clausesOf prog n := by
  unfold clausesOf
  rw [List.filter_filter]
  simp

theorem consequences_own (prog : List Clause) (db : Name → List Tup) (n : Name) :
    consequences prog db n = consequences (clausesOf prog n) db n := by
  unfold consequences
  rw [clausesOf_idem]

theorem tstep_table (prog : List Clause) (inputs d : List (Name × List Tup)) (hs : SelfLevel prog)
    (hk : akeys d = heads prog) (n : Name) (hn : n ∈ heads prog) (tbl : List Tup) (hd : aget d n = some tbl) :
    aget (tstep prog inputs d) n = some (nstep (clausesOf prog n) inputs n tbl) := by
  unfold tstep
  rw [aget_map_val d (fun k v => addNew v (consequences prog (look inputs d) k)) n, hd]
  simp only [Option.map_some, nstep]
  congr 2
  rw [consequences_own prog]
  apply consequences_congr
  intro c hc hcn r hr
  have hcp : c ∈ prog := (List.mem_filter.mp hc).1
  rcases hs c hcp r hr with h | h
  · have hne : r ≠ n := fun e => h (e ▸ hn)
    simp only [hne, if_false]
    unfold look inDb
    rw [aget_none_of_not_key (by rw [hk]; exact h)]
  · rw [hcn] at h
    subst h
    simp only [if_true]
    unfold look
    rw [hd]

theorem tpow_table (prog : List Clause) (inputs : List (Name × List Tup)) (hs : SelfLevel prog)
    (n : Name) (hn : n ∈ heads prog) (j : Nat) (d : List (Name × List Tup)) (hk : akeys d = heads prog)
    (tbl : List Tup) (hd : aget d n = some tbl) :
    aget (tpow prog inputs j d) n = some (npow (clausesOf prog n) inputs n j tbl) := by
  induction j generalizing d tbl with
  | zero => exact hd
  | succ j ih =>
    simp only [tpow, npow]
    exact ih (tstep prog inputs d) (by rw [akeys_tstep, hk]) _ (tstep_table prog inputs d hs hk n hn tbl hd)

theorem npow_add (cls : List Clause) (inputs : List (Name × List Tup)) (n : Name) (a b : Nat) (t : List Tup) :
    npow cls inputs n (a + b) t = npow cls inputs n b (npow cls inputs n a t) := by
  induction a generalizing t with
  | zero => simp [npow]
  | succ a ih =>
    have : a + 1 + b = (a + b) + 1 := by omega
    rw [this]
    simp only [npow]
    exact ih _

theorem npow_stable (cls : List Clause) (inputs : List (Name × List Tup)) (n : Name) (j : Nat) (t : List Tup)
    (h : nstep cls inputs n t = t) : npow cls inputs n j t = t := by
  induction j with
  | zero => rfl
  | succ j ih => simp only [npow]; rw [h]; exact ih

theorem npow_congr (cls : List Clause) (i1 i2 : List (Name × List Tup)) (n : Name)
    (h : ∀ t, nstep cls i1 n t = nstep cls i2 n t) (j : Nat) (t : List Tup) :
    npow cls i1 n j t = npow cls i2 n j t := by
  induction j generalizing t with
  | zero => rfl
  | succ j ih => simp only [npow]; rw [h t]; exact ih _

/-- the table of a head of a converged self-level evaluation: a stable point of its own step function. -/
theorem res_table (prog : List Clause) (inputs : List (Name × List Tup)) (hs : SelfLevel prog)
    (hc : conv prog inputs = true) (n : Name) (hn : n ∈ heads prog) :
    ∃ j, aget (res prog inputs) n = some (npow (clausesOf prog n) inputs n j []) ∧
      nstep (clausesOf prog n) inputs n (npow (clausesOf prog n) inputs n j []) = npow (clausesOf prog n) inputs n j [] := by
  obtain ⟨j, hj⟩ := iter_is_pow prog inputs (evalFuel prog inputs) (d0 prog)
  have h0 : aget (d0 prog) n = some [] := by
    unfold d0; rw [aget_mapNames]; simp [hn]
  have ht := tpow_table prog inputs hs n hn j (d0 prog) (akeys_d0 prog) [] h0
  have hr : res prog inputs = tpow prog inputs j (d0 prog) := hj
  refine ⟨j, by rw [hr]; exact ht, ?_⟩
  have hst : tstep prog inputs (res prog inputs) = res prog inputs := by
    simpa [conv] using hc
  have h1 := tstep_table prog inputs (res prog inputs) hs (akeys_res prog inputs) n hn _ (by rw [hr]; exact ht)
  rw [hst, hr, ht] at h1
  exact (Option.some.inj h1).symm

theorem evalProg_nonhead (prog : List Clause) (inputs : List (Name × List Tup)) (n : Name) (hn : n ∉ heads prog) :
    evalProg prog inputs n = inDb inputs n := by
  rw [evalProg_eq]
  unfold look inDb
  rw [aget_none_of_not_key (by rw [akeys_res]; exact hn)]

/-- **Locality.** -/
theorem evalProg_local (p1 p2 : List Clause) (i1 i2 : List (Name × List Tup))
    (hs1 : SelfLevel p1) (hs2 : SelfLevel p2) (hc1 : conv p1 i1 = true) (hc2 : conv p2 i2 = true)
    (n : Name) (hn1 : n ∈ heads p1) (hn2 : n ∈ heads p2)
    (hcl : clausesOf p1 n = clausesOf p2 n)
    (hst : ∀ t, nstep (clausesOf p1 n) i1 n t = nstep (clausesOf p1 n) i2 n t) :
    evalProg p1 i1 n = evalProg p2 i2 n := by
  obtain ⟨j1, ht1, hs1'⟩ := res_table p1 i1 hs1 hc1 n hn1
  obtain ⟨j2, ht2, hs2'⟩ := res_table p2 i2 hs2 hc2 n hn2
  rw [← hcl] at ht2 hs2'
  rw [← npow_congr _ i1 i2 n hst] at ht2 hs2'
  rw [← hst] at hs2'
  rw [evalProg_eq, evalProg_eq]
  unfold look
  rw [ht1, ht2]
  simp only
  rcases Nat.le_total j1 j2 with h | h
  · obtain ⟨d, rfl⟩ := Nat.exists_eq_add_of_le h
    rw [npow_add, npow_stable _ _ _ _ _ hs1']
  · obtain ⟨d, rfl⟩ := Nat.exists_eq_add_of_le h
    rw [npow_add, npow_stable _ _ _ _ _ hs2']

theorem nstep_congr (cls : List Clause) (i1 i2 : List (Name × List Tup)) (n : Name)
    (h : ∀ c ∈ cls, ∀ r ∈ bodyRels c, r ≠ n → inDb i1 r = inDb i2 r) (t : List Tup) :
    nstep cls i1 n t = nstep cls i2 n t := by
  unfold nstep
  congr 1
  apply consequences_congr
  intro c hc _ r hr
  by_cases e : r = n
  · simp [e]
  · simp only [e, if_false]; exact h c hc r hr e

/-- one-level programs always converge (so `conv` is not an extra assumption there). -/
theorem conv_oneLevel (prog : List Clause) (inputs : List (Name × List Tup)) (hp : OneLevel prog) :
    conv prog inputs = true := by
  have h1 : res prog inputs = (heads prog).map fun n => (n, addNew [] (consequences prog (inDb inputs) n)) := by
    unfold res evalFuel d0
    exact iter_oneLevel prog inputs hp _
  have hB := tstep_names prog inputs hp (fun n => addNew [] (consequences prog (inDb inputs) n))
  simp only [addNew_idem] at hB
  simp only [conv, decide_eq_true_eq]
  rw [h1]; exact hB

end ILV.C18
