/-
  C13 lemmas, part 2: from update multisets to the Spec's sets.  `positive us` (what `consolidate_to_current` +
  `to_tuples` serve) against `specApply` (set semantics), for update lists whose per-tuple sums are 0 or 1 — the
  situation outside the C11 shapes.
-/
import ILV.Lemmas.PersistFS
namespace ILV.Persist
open ILV.Spec.C13

abbrev SSorted (l : List Nat) : Prop := l.Pairwise (· < ·)

theorem mem_insertNat (n x : Nat) (l : List Nat) : x ∈ insertNat n l ↔ x = n ∨ x ∈ l := by
  induction l with
  | nil => simp [insertNat]
  | cons m ms ih =>
    simp only [insertNat]
    split
    · simp
    · split
      · rename_i h1 h2; subst h2; simp
      · simp [ih, or_left_comm]

theorem insertNat_sorted (n : Nat) (l : List Nat) (h : SSorted l) : SSorted (insertNat n l) := by
  induction l with
  | nil => simp [insertNat]
  | cons m ms ih =>
    simp only [insertNat]
    have hm := List.pairwise_cons.1 h
    split
    · rename_i hlt
      refine List.pairwise_cons.2 ⟨?_, h⟩
      intro x hx
      rcases List.mem_cons.1 hx with hx | hx
      · omega
      · have := hm.1 x hx; omega
    · split
      · exact h
      · rename_i h1 h2
        refine List.pairwise_cons.2 ⟨?_, ih hm.2⟩
        intro x hx
        rcases (mem_insertNat n x ms).1 hx with hx | hx
        · omega
        · exact hm.1 x hx

theorem sorted_ext : ∀ (a b : List Nat), SSorted a → SSorted b → (∀ x, x ∈ a ↔ x ∈ b) → a = b
  | [], [], _, _, _ => rfl
  | [], y :: ys, _, _, h => by have := (h y).2 (by simp); simp at this
  | x :: xs, [], _, _, h => by have := (h x).1 (by simp); simp at this
  | x :: xs, y :: ys, ha, hb, h => by
    have hax := List.pairwise_cons.1 ha
    have hby := List.pairwise_cons.1 hb
    have hxy : x = y := by
      have h1 : x ∈ y :: ys := (h x).1 (by simp)
      have h2 : y ∈ x :: xs := (h y).2 (by simp)
      rcases List.mem_cons.1 h1 with h1 | h1
      · exact h1
      · rcases List.mem_cons.1 h2 with h2 | h2
        · exact h2.symm
        · have := hby.1 x h1; have := hax.1 y h2; omega
    subst hxy
    congr 1
    apply sorted_ext xs ys hax.2 hby.2
    intro z
    constructor
    · intro hz
      have : z ∈ x :: ys := (h z).1 (by simp [hz])
      rcases List.mem_cons.1 this with e | e
      · have := hax.1 z hz; omega
      · exact e
    · intro hz
      have : z ∈ x :: xs := (h z).2 (by simp [hz])
      rcases List.mem_cons.1 this with e | e
      · have := hby.1 z hz; omega
      · exact e

theorem foldr_insertNat_sorted (ts base : List Nat) (h : SSorted base) : SSorted (ts.foldr insertNat base) := by
  induction ts with
  | nil => exact h
  | cons t ts ih => exact insertNat_sorted t _ ih

theorem mem_foldr_insertNat (ts base : List Nat) (x : Nat) : x ∈ ts.foldr insertNat base ↔ x ∈ ts ∨ x ∈ base := by
  induction ts with
  | nil => simp
  | cons t ts ih => simp [mem_insertNat, ih, or_assoc]

/-! sums -/

theorem foldl_diff (l : List Update) (a : Int) :
    l.foldl (fun a u => a + u.diff) a = a + l.foldl (fun a u => a + u.diff) 0 := by
  induction l generalizing a with
  | nil => simp
  | cons u us ih => simp only [List.foldl_cons]; rw [ih, ih (0 + u.diff)]; omega

theorem sumOf_nil (x : Nat) : sumOf [] x = 0 := rfl

theorem sumOf_cons (u : Update) (us : List Update) (x : Nat) :
    sumOf (u :: us) x = (if u.t = x then u.diff else 0) + sumOf us x := by
  simp only [sumOf, List.filter_cons]
  by_cases h : u.t = x
  · simp only [h, decide_true, if_true, List.foldl_cons]; rw [foldl_diff]; omega
  · simp [h]

theorem sumOf_append (a b : List Update) (x : Nat) : sumOf (a ++ b) x = sumOf a x + sumOf b x := by
  induction a with
  | nil => simp [sumOf_nil]
  | cons u us ih => simp only [List.cons_append, sumOf_cons, ih]; omega

theorem sumOf_zero_of_not_mem (us : List Update) (x : Nat) (h : x ∉ us.map (·.t)) : sumOf us x = 0 := by
  induction us with
  | nil => rfl
  | cons u us ih =>
    simp only [List.map_cons, List.mem_cons, not_or] at h
    have : ¬ u.t = x := fun e => h.1 e.symm
    simp [sumOf_cons, this, ih h.2]

/-- the updates of one request: tuples `ts`, one time, one sign -/
def req (ts : List Nat) (time : Nat) (diff : Int) : List Update := ts.map (fun t => { t := t, time := time, diff := diff })

theorem sumOf_req (ts : List Nat) (time : Nat) (diff : Int) (x : Nat) (hnd : hasDup ts = false) :
    sumOf (req ts time diff) x = if x ∈ ts then diff else 0 := by
  induction ts with
  | nil => simp [req, sumOf_nil]
  | cons t ts ih =>
    simp only [hasDup, Bool.or_eq_false_iff, decide_eq_false_iff_not] at hnd
    have ih' := ih hnd.2
    simp only [req, List.map_cons] at ih' ⊢
    rw [sumOf_cons, ih']
    by_cases hx : t = x
    · subst hx; simp [hnd.1]
    · have : ¬ x = t := fun e => hx e.symm
      simp [hx, this]

theorem mem_positive (us : List Update) (x : Nat) : x ∈ positive us ↔ sumOf us x > 0 := by
  simp only [positive, List.mem_filter, mem_foldr_insertNat, List.not_mem_nil, or_false, decide_eq_true_eq]
  constructor
  · exact fun h => h.2
  · intro h
    refine ⟨?_, h⟩
    by_cases hn : x ∈ us.map (·.t)
    · exact hn
    · have := sumOf_zero_of_not_mem us x hn
      omega

theorem positive_sorted (us : List Update) : SSorted (positive us) :=
  List.Pairwise.filter _ (foldr_insertNat_sorted _ [] List.Pairwise.nil)

/-- per-tuple sums are 0 or 1: the log and the live set agree (no C11 shape so far). -/
def Bin (us : List Update) : Prop := ∀ x, sumOf us x = 0 ∨ sumOf us x = 1

/-- the state the reopened engine serves for the single shard `s`. -/
def visOf (s : Name) (us : List Update) : SpecSt := if positive us = [] then [] else [(s, positive us)]

theorem specGet_visOf (s : Name) (us : List Update) : specGet (visOf s us) s = positive us := by
  simp only [visOf]
  split
  · rename_i h; simp [specGet, h]
  · simp [specGet]

theorem specPut_visOf (s : Name) (us : List Update) (l : List Nat) :
    specPut (visOf s us) s l = if l = [] then [] else [(s, l)] := by
  simp only [visOf, specPut]
  split <;> split <;> simp [insertRel]

theorem ins_ok (s : Name) (us : List Update) (ts : List Nat) (time : Nat) (hb : Bin us)
    (hc : c11Shape (visOf s us) (.ins s ts) = false) :
    specApply (visOf s us) (.ins s ts) = visOf s (us ++ req ts time 1) ∧ Bin (us ++ req ts time 1) := by
  simp only [c11Shape, specGet_visOf, Bool.or_eq_false_iff, List.any_eq_false, decide_eq_true_eq] at hc
  obtain ⟨hfresh, hnd⟩ := hc
  have hsum : ∀ x, sumOf (us ++ req ts time 1) x = sumOf us x + (if x ∈ ts then 1 else 0) := by
    intro x; rw [sumOf_append, sumOf_req ts time 1 x hnd]
  have hzero : ∀ x, x ∈ ts → sumOf us x = 0 := by
    intro x hx
    have := hfresh x hx
    rw [mem_positive] at this
    rcases hb x with h | h <;> omega
  have hbin : Bin (us ++ req ts time 1) := by
    intro x
    rw [hsum]
    by_cases hx : x ∈ ts
    · simp [hx, hzero x hx]
    · simpa [hx] using hb x
  refine ⟨?_, hbin⟩
  have hl : ts.foldr insertNat (positive us) = positive (us ++ req ts time 1) := by
    apply sorted_ext _ _ (foldr_insertNat_sorted _ _ (positive_sorted us)) (positive_sorted _)
    intro x
    rw [mem_foldr_insertNat, mem_positive, mem_positive, hsum]
    by_cases hx : x ∈ ts
    · simp [hx, hzero x hx]
    · simp [hx]
  simp only [specApply]
  rw [specGet_visOf, specPut_visOf, hl]
  simp only [visOf]

theorem del_ok (s : Name) (us : List Update) (ts : List Nat) (time : Nat) (hb : Bin us)
    (hc : c11Shape (visOf s us) (.del s ts) = false) :
    specApply (visOf s us) (.del s ts) = visOf s (us ++ req ts time (-1)) ∧ Bin (us ++ req ts time (-1)) := by
  simp only [c11Shape, specGet_visOf, Bool.or_eq_false_iff, List.any_eq_false, decide_eq_true_eq, Decidable.not_not] at hc
  obtain ⟨hpresent, hnd⟩ := hc
  have hsum : ∀ x, sumOf (us ++ req ts time (-1)) x = sumOf us x + (if x ∈ ts then -1 else 0) := by
    intro x; rw [sumOf_append, sumOf_req ts time (-1) x hnd]
  have hone : ∀ x, x ∈ ts → sumOf us x = 1 := by
    intro x hx
    have := hpresent x hx
    rw [mem_positive] at this
    rcases hb x with h | h <;> omega
  have hbin : Bin (us ++ req ts time (-1)) := by
    intro x
    rw [hsum]
    by_cases hx : x ∈ ts
    · simp [hx, hone x hx]
    · simpa [hx] using hb x
  refine ⟨?_, hbin⟩
  have hl : (positive us).filter (fun t => decide (t ∉ ts)) = positive (us ++ req ts time (-1)) := by
    apply sorted_ext _ _ (List.Pairwise.filter _ (positive_sorted us)) (positive_sorted _)
    intro x
    rw [List.mem_filter, mem_positive, mem_positive, hsum]
    by_cases hx : x ∈ ts
    · simp [hx, hone x hx]
    · simp [hx]
  simp only [specApply]
  rw [specGet_visOf, specPut_visOf, hl]
  simp only [visOf]

end ILV.Persist
