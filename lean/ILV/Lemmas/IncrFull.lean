/-
  C18 (after the repair): the invariant "every valid materialisation equals the fresh evaluation, the
  dependency edges of every catalogued rule are registered, the snapshot is current", its
  consequence for query answers, and the generic frame lemma used by every step.
-/
import ILV.Lemmas.IncrMgr
namespace ILV.C18

/-! ### the catalogue as a program -/

theorem mem_allRules (cat : List (Name × List Clause)) (c : Clause) :
    c ∈ allRules cat ↔ ∃ k cs, (k, cs) ∈ cat ∧ c ∈ cs := by
  simp [allRules, List.mem_flatMap]

theorem clausesOf_append (l1 l2 : List Clause) (n : Name) : clausesOf (l1 ++ l2) n = clausesOf l1 n ++ clausesOf l2 n := by
  simp [clausesOf, List.filter_append]

theorem clausesOf_all {cs : List Clause} {n : Name} (h : ∀ c ∈ cs, c.head.rel = n) : clausesOf cs n = cs := by
  unfold clausesOf
  exact List.filter_eq_self.mpr (fun c hc => by simp [h c hc])

theorem clausesOf_none {cs : List Clause} {k n : Name} (h : ∀ c ∈ cs, c.head.rel = k) (hne : k ≠ n) : clausesOf cs n = [] := by
  unfold clausesOf
  apply List.filter_eq_nil_iff.mpr
  intro c hc
  simp [h c hc, hne]

theorem clausesOf_allRules_gen (cat : List (Name × List Clause))
    (hh : ∀ k cs, (k, cs) ∈ cat → ∀ c ∈ cs, c.head.rel = k) (hn : (akeys cat).Nodup) (n : Name) :
    clausesOf (allRules cat) n = (aget cat n).getD [] := by
  induction cat with
  | nil => rfl
  | cons p l ih =>
    obtain ⟨k, cs⟩ := p
    simp only [akeys, List.map_cons, List.nodup_cons] at hn
    have ih' := ih (fun k' cs' hm => hh k' cs' (List.mem_cons_of_mem _ hm)) hn.2
    have hcs := hh k cs (by simp)
    have : allRules ((k, cs) :: l) = cs ++ allRules l := by simp [allRules]
    rw [this, clausesOf_append, ih']
    by_cases e : k = n
    · subst e
      rw [clausesOf_all hcs, aget_none_of_not_key hn.1]
      simp [aget]
    · rw [clausesOf_none hcs e]
      simp [aget, e]

/-- catalogue well-formedness (keys unique, every clause filed under its head). -/
structure CatOk (s : St) : Prop where
  heads : ∀ k cs, (k, cs) ∈ s.catalog → ∀ c ∈ cs, c.head.rel = k
  nodup : (akeys s.catalog).Nodup

theorem clausesOf_cat {s : St} (h : CatOk s) (n : Name) : clausesOf (allRules s.catalog) n = clausesNow s n :=
  clausesOf_allRules_gen s.catalog h.heads h.nodup n

theorem heads_cat {s : St} (h : CatOk s) (n : Name) : n ∈ heads (allRules s.catalog) ↔ clausesNow s n ≠ [] := by
  rw [mem_heads_clausesOf, clausesOf_cat h]

theorem mem_clausesNow {s : St} (h : CatOk s) {c : Clause} (hc : c ∈ allRules s.catalog) :
    c ∈ clausesNow s c.head.rel := by
  rw [← clausesOf_cat h]
  exact List.mem_filter.mpr ⟨hc, by simp⟩

theorem clausesNow_head {s : St} (h : CatOk s) {n : Name} {c : Clause} (hc : c ∈ clausesNow s n) : c.head.rel = n := by
  rw [← clausesOf_cat h] at hc
  simpa using (List.mem_filter.mp hc).2

/-! ### the invariant -/

structure FCore (s : St) : Prop where
  cat : CatOk s
  headsNoFacts : ∀ n, clausesNow s n ≠ [] → factsDb s n = []
  matsNodup : ∀ i, s.inc = some i → (akeys i.mats).Nodup
  d2d : ∀ i, s.inc = some i → i.d2d = []
  edges : ∀ i, s.inc = some i → ∀ n c, c ∈ clausesNow s n → ∀ r ∈ bodyRels c, r ≠ n → n ∈ b2dOf i r
  mats : ∀ i n m, s.inc = some i → aget i.mats n = some m → m.valid = true →
    clausesNow s n ≠ [] ∧ SetEq m.tuples (fresh s n)

structure FInv (s : St) : Prop where
  core : FCore s
  snap : s.snap = mkSnap s
  conv : convState s = true

theorem conv_fresh {s : St} (h : convState s = true) : conv (allRules s.catalog) s.facts = true := by
  simp only [convState, Bool.and_eq_true] at h; exact h.1

theorem conv_snap {s : St} (h : convState s = true) : conv s.snap.rules s.snap.inputs = true := by
  simp only [convState, Bool.and_eq_true] at h; exact h.2

theorem setEq_trans {a b c : List Tup} (h1 : SetEq a b) (h2 : SetEq b c) : SetEq a c :=
  fun t => (h1 t).trans (h2 t)

/-- the published snapshot answers like the fresh evaluation. -/
theorem fsnap_iff {s : St} (h : FInv s) (n : Name) : SetEq (snapDb s n) (fresh s n) := by
  have hc := h.core
  cases hi : s.inc with
  | none =>
    have : snapDb s = fresh s := by
      unfold snapDb fresh
      rw [h.snap]
      simp [mkSnap, hi]
    rw [this]; exact fun _ => Iff.rfl
  | some i =>
    have hnd := hc.matsNodup i hi
    have hsi : s.snap.inputs = mergeMats s.facts (validMats i) := by
      rw [h.snap]; simp [mkSnap, hi]
    have hsr : s.snap.rules = (allRules s.catalog).filter (fun c => !(isValid i c.head.rel)) := by
      rw [h.snap]; simp [mkSnap, hi]
    have hcs := conv_snap h.conv
    rw [hsi, hsr] at hcs
    unfold snapDb fresh
    rw [hsi, hsr]
    refine evalProg_replace (allRules s.catalog) _ s.facts _ (fun x => isValid i x = true)
      (conv_fresh h.conv) hcs ?_ ?_ ?_ ?_ n
    · intro c
      simp [List.mem_filter]
    · intro x hx
      obtain ⟨m, hm, hv⟩ := (isValid_iff i x).mp hx
      exact (heads_cat hc.cat x).mpr (hc.mats i x m hi hm hv).1
    · intro x hx
      obtain ⟨m, hm, hv⟩ := (isValid_iff i x).mp hx
      have hI := hc.mats i x m hi hm hv
      rw [inDb_mergeMats_key s.facts (validMats i) x m.tuples
        (by rw [validMats_eq]; exact nodup_vmOf _ hnd)
        ((mem_validMats_iff i hnd x m.tuples).mpr ⟨m, hm, hv, rfl⟩)]
      have hst : inDb s.facts x = [] := hc.headsNoFacts x hI.1
      rw [hst, List.nil_append]
      exact hI.2
    · intro x hx
      unfold inDb
      rw [aget_mergeMats_not_key]
      intro hk
      exact hx ((key_validMats_iff i hnd x).mp hk)

theorem fanswers_agree {s : St} (h : FInv s) (q : Atom) :
    SetEq (answer (snapDb s) q) (answer (fresh s) q) := by
  intro t
  rw [mem_answer, mem_answer, fsnap_iff h q.rel t]

/-! ### frame: what a change at the names `X` cannot affect -/

theorem fresh_frame {s s' : St} (h : FCore s) (hcat' : CatOk s')
    (hc : conv (allRules s.catalog) s.facts = true) (hc' : conv (allRules s'.catalog) s'.facts = true)
    (i : Inc) (hi : s.inc = some i) (X D : Name → Prop)
    (hseed : ∀ x y, X x → y ∈ b2dOf i x → X y ∨ D y) (hclo : ∀ x y, D x → y ∈ b2dOf i x → X y ∨ D y)
    (hfacts : ∀ x, ¬ X x → factsDb s' x = factsDb s x)
    (hcl : ∀ x, ¬ X x → clausesNow s' x = clausesNow s x)
    (n : Name) (hnX : ¬ X n) (hnD : ¬ D n) : SetEq (fresh s n) (fresh s' n) := by
  unfold fresh
  refine evalProg_agree _ _ _ _ (fun x => ¬ X x ∧ ¬ D x) hc hc' ?_ ?_ ?_ n ⟨hnX, hnD⟩
  · intro c hcm hu r hr
    by_cases e : r = c.head.rel
    · rw [e]; exact hu
    · have hedge := h.edges i hi c.head.rel c (mem_clausesNow h.cat hcm) r hr e
      refine ⟨fun hx => ?_, fun hd => ?_⟩
      · rcases hseed r _ hx hedge with e' | e'
        · exact hu.1 e'
        · exact hu.2 e'
      · rcases hclo r _ hd hedge with e' | e'
        · exact hu.1 e'
        · exact hu.2 e'
  · intro x hx
    rw [clausesOf_cat h.cat, clausesOf_cat hcat', hcl x hx.1]
  · intro x hx _
    exact (hfacts x hx.1).symm

/-- the generic step: the manager went from `i` to `i'` by an update seeded at `X`, facts and clauses
    changed only at `X`, no materialisation of an `X`-name survives, `X`-names that still have
    clauses got their edges registered. -/
theorem fcore_update {s s' : St} (h : FInv s) (i i' : Inc) (hi : s.inc = some i) (hi' : s'.inc = some i')
    (X : Name → Prop) (hu : Upd i i' X)
    (hcat' : CatOk s') (hnf' : ∀ n, clausesNow s' n ≠ [] → factsDb s' n = [])
    (hc' : conv (allRules s'.catalog) s'.facts = true)
    (hfacts : ∀ x, ¬ X x → factsDb s' x = factsDb s x)
    (hcl : ∀ x, ¬ X x → clausesNow s' x = clausesNow s x)
    (hXmat : ∀ n m, aget i'.mats n = some m → m.valid = true → ¬ X n)
    (hXedges : ∀ n c, X n → c ∈ clausesNow s' n → ∀ r ∈ bodyRels c, r ≠ n → n ∈ b2dOf i' r) :
    FCore s' := by
  obtain ⟨D, hseed, hclo, hvalid⟩ := hu.dirty
  refine ⟨hcat', hnf', ?_, ?_, ?_, ?_⟩
  · intro j hj; rw [hi'] at hj; cases hj
    exact hu.nodup (h.core.matsNodup i hi)
  · intro j hj; rw [hi'] at hj; cases hj
    exact hu.d2d (h.core.d2d i hi)
  · intro j hj n c hc r hr hrn
    rw [hi'] at hj; cases hj
    by_cases hx : X n
    · exact hXedges n c hx hc r hr hrn
    · rw [hcl n hx] at hc
      exact hu.keep n r hx (h.core.edges i hi n c hc r hr hrn)
  · intro j n m hj hm hv
    rw [hi'] at hj; cases hj
    obtain ⟨hold, hnD⟩ := hvalid n m hm hv
    have hnX := hXmat n m hm hv
    obtain ⟨h1, h2⟩ := h.core.mats i n m hi hold hv
    refine ⟨by rw [hcl n hnX]; exact h1, setEq_trans h2 ?_⟩
    exact fresh_frame h.core hcat' (conv_fresh h.conv) hc' i hi X D hseed hclo hfacts hcl n hnX hnD

/-- without an engine there is nothing to maintain. -/
theorem fcore_noinc {s' : St} (hi' : s'.inc = none) (hcat' : CatOk s')
    (hnf' : ∀ n, clausesNow s' n ≠ [] → factsDb s' n = []) : FCore s' := by
  refine ⟨hcat', hnf', ?_, ?_, ?_, ?_⟩ <;> intro j <;> simp [hi']

theorem finv_publish {s : St} (h : FCore s) (hc : convState (publish s) = true) : FInv (publish s) :=
  ⟨⟨⟨h.cat.heads, h.cat.nodup⟩, h.headsNoFacts, h.matsNodup, h.d2d, h.edges, h.mats⟩, rfl, hc⟩

theorem conv_fresh_pub {s : St} (hc : convState (publish s) = true) : conv (allRules s.catalog) s.facts = true :=
  conv_fresh (s := publish s) hc

end ILV.C18
