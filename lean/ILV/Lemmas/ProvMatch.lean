/-
  Lemmas relating the Spec's "instance of an atom under β" (`argsMatch`) with the pattern matcher of
  the code (`matchTuple ∘ substituteAtom`), used by C23 (blocker soundness) and C21/C22.
-/
import ILV.Model.ProvSpec
namespace ILV.Prov
open ILV

/-- a fully bound instance is found by the pattern matcher, whatever was accumulated so far. -/
theorem matchArgs_of_argsMatch (β : Bindings) :
    ∀ (args : List Term) (t : Tuple) (nb : Bindings), argsMatch β args t = true →
      (matchArgs (args.map (resolveTerm β)) t nb).isSome = true
  | [], [], nb, _ => by simp [matchArgs]
  | [], _ :: _, nb, h => by simp [argsMatch] at h
  | _ :: _, [], nb, h => by simp [argsMatch] at h
  | a :: as, v :: vs, nb, h => by
    simp only [argsMatch, Bool.and_eq_true] at h
    obtain ⟨h1, h2⟩ := h
    have ih := matchArgs_of_argsMatch β as vs nb h2
    cases a with
    | var x =>
      simp only [argMatches] at h1
      cases hx : β.lookup x with
      | none => simp [hx] at h1
      | some e =>
        simp only [hx] at h1
        simp [List.map, resolveTerm, hx, matchArgs, h1, ih]
    | wild => simp [List.map, resolveTerm, matchArgs, ih]
    | int n =>
      simp only [argMatches, termToValue] at h1
      simp [List.map, resolveTerm, termToValue, matchArgs, h1, ih]
    | str s =>
      simp only [argMatches, termToValue] at h1
      simp [List.map, resolveTerm, termToValue, matchArgs, h1, ih]
    | bool b =>
      simp only [argMatches, termToValue] at h1
      simp [List.map, resolveTerm, termToValue, matchArgs, h1, ih]
    | flt b =>
      simp only [argMatches, termToValue] at h1
      simp [List.map, resolveTerm, termToValue, matchArgs, h1, ih]
    | other => simp [argMatches, termToValue] at h1

theorem argsMatch_length (β : Bindings) : ∀ (args : List Term) (t : Tuple), argsMatch β args t = true → t.length = args.length
  | [], [], _ => rfl
  | [], _ :: _, h => by simp [argsMatch] at h
  | _ :: _, [], h => by simp [argsMatch] at h
  | a :: as, v :: vs, h => by
    simp only [argsMatch, Bool.and_eq_true] at h
    simp [argsMatch_length β as vs h.2]

/-- an instance of `a` under `β` blocks the negated atom / is a match of the positive atom. -/
theorem negBlockedBy_of_argsMatch (β : Bindings) (a : Atom) (t : Tuple) (h : argsMatch β a.args t = true) :
    negBlockedBy β a t = true := by
  unfold negBlockedBy matchTuple substituteAtom
  have hl := argsMatch_length β a.args t h
  simp only [List.length_map, hl, bne_self_eq_false, Bool.false_eq_true, ↓reduceIte]
  exact matchArgs_of_argsMatch β a.args t [] h

/-- what `SatBody` says about the literal at position `i`. -/
def LitSat (P : String → Tuple → Prop) (W : String → List Tuple) (β : Bindings) : Lit → Prop
  | .pos a => ∃ t, P a.rel t ∧ argsMatch β a.args t = true
  | .neg a => ∀ t ∈ W a.rel, negBlockedBy β a t = false
  | .cmp l op r => evalCmp l op r β = some true
  | .other => False

theorem SatBody_get (P : String → Tuple → Prop) (W : String → List Tuple) (β : Bindings) :
    ∀ (ls : List Lit) (i : Nat) (l : Lit), SatBody P W β ls → ls[i]? = some l → LitSat P W β l
  | [], i, l, _, h => by simp at h
  | .pos a :: ls, 0, l, hs, h => by simp at h; subst h; exact hs.1
  | .neg a :: ls, 0, l, hs, h => by simp at h; subst h; exact hs.1
  | .cmp x op y :: ls, 0, l, hs, h => by simp at h; subst h; exact hs.1
  | .other :: ls, _, l, hs, _ => hs.elim
  | .pos a :: ls, i + 1, l, hs, h => SatBody_get P W β ls i l hs.2 (by simpa using h)
  | .neg a :: ls, i + 1, l, hs, h => SatBody_get P W β ls i l hs.2 (by simpa using h)
  | .cmp x op y :: ls, i + 1, l, hs, h => SatBody_get P W β ls i l hs.2 (by simpa using h)

end ILV.Prov
