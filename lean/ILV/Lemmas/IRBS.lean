/-
  Boolean specialisation (`transform_for_semiring`): with a non-Boolean annotation it only collapses
  `Distinct(Distinct x)` (rows unchanged); with a Boolean annotation it inserts/removes `Distinct`
  around joins, antijoin inputs and scans, which preserves the *set* of rows of aggregate-free trees.
-/
import ILV.Lemmas.IRBasic
namespace ILV.IR
open ILV

theorem dedup_idem (l : List Tuple) : dedup (dedup l) = dedup l := by
  have nodup : ∀ l : List Tuple, ∀ x ∈ dedup l, True := fun _ _ _ => trivial
  -- `dedup l` has no duplicates, so a second pass keeps every element
  have key : ∀ l : List Tuple, (∀ x, x ∈ l → True) → dedup (dedup l) = dedup l := by
    intro l _
    induction l with
    | nil => rfl
    | cons y ys ih =>
      simp only [dedup]
      split
      · exact ih (fun _ _ => trivial)
      · rename_i hy
        simp only [dedup]
        have : y ∉ dedup ys := fun h => hy (mem_dedup.1 h)
        simp [this, ih (fun _ _ => trivial)]
  exact key l (fun _ _ => trivial)

theorem eval_isDistinct {db : Db} {t : Node} (h : isDistinct t = true) : dedup (eval db t) = eval db t := by
  cases t <;> simp [isDistinct] at h
  simp [eval, dedup_idem]

/-! ### non-Boolean annotation: rows unchanged -/

mutual
theorem bs_false_eval (db : Db) : ∀ t, eval db (bsTransform false t) = eval db t
  | .scan .. => by simp [bsTransform]
  | .map i proj s => by simp [bsTransform, eval, bs_false_eval db i]
  | .filter i p => by simp [bsTransform, eval, bs_false_eval db i]
  | .join l r lk rk s => by simp [bsTransform, eval, bs_false_eval db l, bs_false_eval db r]
  | .distinct i => by
    have hi := bs_false_eval db i
    simp only [bsTransform, Bool.and_false, Bool.false_eq_true, ↓reduceIte]
    split
    · rename_i hd
      rw [← eval_isDistinct hd, hi]; simp [eval]
    · simp [eval, hi]
  | .union is => by simp [bsTransform, eval, bs_false_evalL db is]
  | .aggregate i gb aggs s => by simp [bsTransform, eval, bs_false_eval db i]
  | .antijoin l r lk rk s => by simp [bsTransform, eval, bs_false_eval db l, bs_false_eval db r]
  | .compute i es => by simp [bsTransform, eval, bs_false_eval db i]
  | .hnsw .. => by simp [bsTransform]
  | .flatMap i proj fp s => by simp [bsTransform, eval, bs_false_eval db i]
  | .joinFlatMap l r lk rk proj fp s => by simp [bsTransform, eval, bs_false_eval db l, bs_false_eval db r]
theorem bs_false_evalL (db : Db) : ∀ ts, evalList db (bsTransformL false ts) = evalList db ts
  | .nil => by simp [bsTransformL]
  | .cons t ts => by simp [bsTransformL, evalList, bs_false_eval db t, bs_false_evalL db ts]
end

/-! ### any annotation, aggregate-free trees: the set of rows is unchanged -/

theorem SetEq.refl (a : List Tuple) : SetEq a a := fun _ => Iff.rfl

theorem setEq_dedup (a : List Tuple) : SetEq (dedup a) a := fun _ => mem_dedup

theorem SetEq.trans {a b c : List Tuple} (h1 : SetEq a b) (h2 : SetEq b c) : SetEq a c := fun x => (h1 x).trans (h2 x)

theorem setEq_map {a b : List Tuple} (f : Tuple → Tuple) (h : SetEq a b) : SetEq (a.map f) (b.map f) := by
  intro x; simp only [List.mem_map, h _]

theorem setEq_filter {a b : List Tuple} (f : Tuple → Bool) (h : SetEq a b) : SetEq (a.filter f) (b.filter f) := by
  intro x; simp only [List.mem_filter, h x]

theorem setEq_filterMap {a b : List Tuple} (f : Tuple → Option Tuple) (h : SetEq a b) :
    SetEq (a.filterMap f) (b.filterMap f) := by
  intro x; simp only [List.mem_filterMap, h _]

theorem setEq_append {a b c d : List Tuple} (h1 : SetEq a b) (h2 : SetEq c d) : SetEq (a ++ c) (b ++ d) := by
  intro x; simp only [List.mem_append, h1 x, h2 x]

theorem setEq_joinRows {a b c d : List Tuple} (lk rk : List Nat) (h1 : SetEq a b) (h2 : SetEq c d) :
    SetEq (joinRows a c lk rk) (joinRows b d lk rk) := by
  intro x; simp only [joinRows, List.mem_flatMap, List.mem_filterMap, h1 _, h2 _]

theorem setEq_jfmRows {a b c d : List Tuple} (lk rk proj : List Nat) (fp : Option Pred) (h1 : SetEq a b) (h2 : SetEq c d) :
    SetEq (jfmRows a c lk rk proj fp) (jfmRows b d lk rk proj fp) := by
  intro x; simp only [jfmRows, List.mem_flatMap, List.mem_filterMap, h1 _, h2 _]

theorem setEq_antiRows {a b c d : List Tuple} (lk rk : List Nat) (h1 : SetEq a b) (h2 : SetEq c d) :
    SetEq (antiRows a c lk rk) (antiRows b d lk rk) := by
  intro x
  simp only [antiRows, List.mem_filter, h1 x, List.contains_eq_mem, List.mem_map, h2 _]

mutual
theorem bs_setEq (db : Db) (b : Bool) : ∀ t, aggFree t = true → SetEq (eval db (bsTransform b t)) (eval db t)
  | .scan .., _ => by simpa [bsTransform] using SetEq.refl _
  | .map i proj s, h => by
    simpa [bsTransform, eval] using setEq_map _ (bs_setEq db b i (by simpa [aggFree] using h))
  | .filter i p, h => by
    simpa [bsTransform, eval] using setEq_filter _ (bs_setEq db b i (by simpa [aggFree] using h))
  | .join l r lk rk s, h => by
    simp only [aggFree, Bool.and_eq_true] at h
    cases b with
    | true =>
      simp only [bsTransform, ↓reduceIte, eval]
      exact (setEq_dedup _).trans (setEq_joinRows lk rk (bs_setEq db true l h.1) (bs_setEq db true r h.2))
    | false =>
      simp only [bsTransform, Bool.false_eq_true, ↓reduceIte, eval]
      exact setEq_joinRows lk rk (bs_setEq db false l h.1) (bs_setEq db false r h.2)
  | .distinct i, h => by
    have hi := bs_setEq db b i (by simpa [aggFree] using h)
    simp only [bsTransform]
    split
    · exact hi.trans (fun x => (mem_dedup).symm)
    · split
      · exact hi.trans (fun x => (mem_dedup).symm)
      · simp only [eval]
        exact (setEq_dedup _).trans (hi.trans (fun x => (mem_dedup).symm))
  | .union is, h => by
    simpa [bsTransform, eval] using bs_setEqL db b is (by simpa [aggFree] using h)
  | .aggregate .., h => by simp [aggFree] at h
  | .antijoin l r lk rk s, h => by
    simp only [aggFree, Bool.and_eq_true] at h
    cases b with
    | true =>
      simp only [bsTransform, ↓reduceIte]
      split
      · simp only [eval]
        exact setEq_antiRows lk rk (bs_setEq db true l h.1) (bs_setEq db true r h.2)
      · simp only [eval]
        exact setEq_antiRows lk rk ((setEq_dedup _).trans (bs_setEq db true l h.1)) (bs_setEq db true r h.2)
    | false =>
      simp only [bsTransform, Bool.false_eq_true, ↓reduceIte, eval]
      exact setEq_antiRows lk rk (bs_setEq db false l h.1) (bs_setEq db false r h.2)
  | .compute i es, h => by
    simpa [bsTransform, eval] using setEq_map _ (bs_setEq db b i (by simpa [aggFree] using h))
  | .hnsw .., _ => by simpa [bsTransform] using SetEq.refl _
  | .flatMap i proj fp s, h => by
    simpa [bsTransform, eval] using setEq_filterMap _ (bs_setEq db b i (by simpa [aggFree] using h))
  | .joinFlatMap l r lk rk proj fp s, h => by
    simp only [aggFree, Bool.and_eq_true] at h
    cases b with
    | true =>
      simp only [bsTransform, ↓reduceIte, eval]
      exact (setEq_dedup _).trans (setEq_jfmRows lk rk proj fp (bs_setEq db true l h.1) (bs_setEq db true r h.2))
    | false =>
      simp only [bsTransform, Bool.false_eq_true, ↓reduceIte, eval]
      exact setEq_jfmRows lk rk proj fp (bs_setEq db false l h.1) (bs_setEq db false r h.2)
theorem bs_setEqL (db : Db) (b : Bool) : ∀ ts, aggFreeL ts = true → SetEq (evalList db (bsTransformL b ts)) (evalList db ts)
  | .nil, _ => by simpa [bsTransformL] using SetEq.refl _
  | .cons t ts, h => by
    simp only [aggFreeL, Bool.and_eq_true] at h
    simpa [bsTransformL, evalList] using setEq_append (bs_setEq db b t h.1) (bs_setEqL db b ts h.2)
end

end ILV.IR
