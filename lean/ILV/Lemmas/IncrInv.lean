/-
  C18: the materialisation invariant and its consequences for query answers.
-/
import ILV.Lemmas.Incr
namespace ILV.C18

/-! ### merging materialisations into the snapshot's input tuples -/

theorem aget_mergeMats_not_key (f : List (Name × List Tup)) (vm : List (Name × List Tup)) (r : Name)
    (h : r ∉ akeys vm) : aget (mergeMats f vm) r = aget f r := by
  induction vm generalizing f with
  | nil => rfl
  | cons p l ih =>
    obtain ⟨n, ts⟩ := p
    simp only [akeys, List.map_cons, List.mem_cons, not_or] at h
    simp only [mergeMats]
    rw [ih _ (by simpa [akeys] using h.2)]
    exact aget_aset_ne _ _ _ _ (fun e => h.1 e.symm)

theorem inDb_mergeMats_key (f : List (Name × List Tup)) (vm : List (Name × List Tup)) (r : Name) (ts : List Tup)
    (hn : (akeys vm).Nodup) (h : (r, ts) ∈ vm) : inDb (mergeMats f vm) r = inDb f r ++ ts := by
  induction vm generalizing f with
  | nil => simp at h
  | cons p l ih =>
    obtain ⟨n, ts'⟩ := p
    simp only [akeys, List.map_cons, List.nodup_cons] at hn
    simp only [mergeMats]
    rcases List.mem_cons.mp h with h1 | h1
    · cases h1
      unfold inDb
      rw [aget_mergeMats_not_key _ _ _ hn.1, aget_aset_eq]
      rfl
    · have hne : n ≠ r := by
        intro e; subst e
        exact hn.1 (List.mem_map.mpr ⟨(n, ts), h1, rfl⟩)
      rw [ih _ hn.2 h1]
      unfold inDb
      rw [aget_aset_ne _ _ _ _ hne]

/-! ### valid materialisations -/

def vmOf (l : List (Name × Mat)) : List (Name × List Tup) :=
  l.filterMap fun p => if p.2.valid then some (p.1, p.2.tuples) else none

theorem validMats_eq (i : Inc) : validMats i = vmOf i.mats := rfl

theorem mem_vmOf (l : List (Name × Mat)) (n : Name) (ts : List Tup) :
    (n, ts) ∈ vmOf l ↔ ∃ m, (n, m) ∈ l ∧ m.valid = true ∧ m.tuples = ts := by
  unfold vmOf
  simp only [List.mem_filterMap]
  constructor
  · rintro ⟨⟨a, m⟩, hm, h⟩
    by_cases hv : m.valid = true
    · simp [hv] at h
      exact ⟨m, by rw [← h.1]; exact hm, hv, h.2⟩
    · simp [hv] at h
  · rintro ⟨m, hm, hv, ht⟩
    exact ⟨(n, m), hm, by simp [hv, ht]⟩

theorem akeys_vmOf_sub (l : List (Name × Mat)) (n : Name) (h : n ∈ akeys (vmOf l)) : n ∈ akeys l := by
  obtain ⟨⟨a, ts⟩, hm, rfl⟩ := List.mem_map.mp h
  obtain ⟨m, hm', _, _⟩ := (mem_vmOf l a ts).mp hm
  exact List.mem_map.mpr ⟨(a, m), hm', rfl⟩

theorem nodup_vmOf (l : List (Name × Mat)) (h : (akeys l).Nodup) : (akeys (vmOf l)).Nodup := by
  induction l with
  | nil => simp [vmOf, akeys]
  | cons p l ih =>
    obtain ⟨a, m⟩ := p
    simp only [akeys, List.map_cons, List.nodup_cons] at h
    have ih' := ih h.2
    unfold vmOf at *
    by_cases hv : m.valid = true
    · simp only [List.filterMap_cons, hv, if_true, akeys, List.map_cons, List.nodup_cons]
      refine ⟨?_, ih'⟩
      intro hm
      exact h.1 (akeys_vmOf_sub l a hm)
    · simp only [List.filterMap_cons, hv]
      exact ih'

theorem isValid_iff (i : Inc) (n : Name) : isValid i n = true ↔ ∃ m, aget i.mats n = some m ∧ m.valid = true := by
  unfold isValid
  cases h : aget i.mats n with
  | none => simp
  | some m => simp

theorem mem_validMats_iff (i : Inc) (hn : (akeys i.mats).Nodup) (n : Name) (ts : List Tup) :
    (n, ts) ∈ validMats i ↔ ∃ m, aget i.mats n = some m ∧ m.valid = true ∧ m.tuples = ts := by
  rw [validMats_eq, mem_vmOf]
  constructor
  · rintro ⟨m, hm, hv, ht⟩; exact ⟨m, mem_aget_of_nodup hn hm, hv, ht⟩
  · rintro ⟨m, hm, hv, ht⟩; exact ⟨m, aget_some_mem hm, hv, ht⟩

theorem key_validMats_iff (i : Inc) (hn : (akeys i.mats).Nodup) (n : Name) :
    n ∈ akeys (validMats i) ↔ isValid i n = true := by
  rw [isValid_iff]
  constructor
  · intro h
    obtain ⟨⟨a, ts⟩, hm, rfl⟩ := List.mem_map.mp h
    obtain ⟨m, h1, h2, _⟩ := (mem_validMats_iff i hn a ts).mp hm
    exact ⟨m, h1, h2⟩
  · rintro ⟨m, h1, h2⟩
    exact List.mem_map.mpr ⟨(n, m.tuples), (mem_validMats_iff i hn n m.tuples).mpr ⟨m, h1, h2, rfl⟩, rfl⟩

/-! ### the invariant -/

/-- what a one-level rule set derives for `n` from the stored facts. -/
def val (s : St) (n : Name) (t : Tup) : Prop := ∃ c ∈ clausesNow s n, t ∈ fire (factsDb s) c

structure InvCore (B : List Name) (s : St) : Prop where
  stored : ∀ r, r ∉ B → factsDb s r = []
  cat : ∀ k cs, (k, cs) ∈ s.catalog → k ∉ B ∧ ∀ c ∈ cs, c.head.rel = k ∧ ∀ r ∈ bodyRels c, r ∈ B
  catNodup : (akeys s.catalog).Nodup
  matsNodup : ∀ i, s.inc = some i → (akeys i.mats).Nodup
  d2d : ∀ i, s.inc = some i → i.d2d = []
  mats : ∀ i n m, s.inc = some i → aget i.mats n = some m → m.valid = true →
    n ∉ B ∧ (∀ t, t ∈ m.tuples ↔ val s n t) ∧
    (∀ c ∈ clausesNow s n, ∀ r ∈ bodyRels c, n ∈ (aget i.b2d r).getD [])

structure Inv (B : List Name) (s : St) : Prop where
  core : InvCore B s
  snap : s.snap = mkSnap s

theorem inv_publish {B : List Name} {s : St} (h : InvCore B s) : Inv B (publish s) :=
  ⟨⟨h.stored, h.cat, h.catNodup, h.matsNodup, h.d2d, h.mats⟩, rfl⟩

theorem mem_allRules (cat : List (Name × List Clause)) (c : Clause) :
    c ∈ allRules cat ↔ ∃ k cs, (k, cs) ∈ cat ∧ c ∈ cs := by
  simp [allRules, List.mem_flatMap]

theorem clauses_iff {B : List Name} {s : St} (h : InvCore B s) (n : Name) (c : Clause) :
    (c ∈ allRules s.catalog ∧ c.head.rel = n) ↔ c ∈ clausesNow s n := by
  rw [mem_allRules]
  constructor
  · rintro ⟨⟨k, cs, hm, hc⟩, hn⟩
    have hk := ((h.cat k cs hm).2 c hc).1
    rw [hk] at hn; subst hn
    simp [clausesNow, mem_aget_of_nodup h.catNodup hm, hc]
  · intro hc
    unfold clausesNow at hc
    cases hg : aget s.catalog n with
    | none => simp [hg] at hc
    | some cs =>
      simp [hg] at hc
      have hm := aget_some_mem hg
      exact ⟨⟨n, cs, hm, hc⟩, ((h.cat n cs hm).2 c hc).1⟩

theorem heads_iff {B : List Name} {s : St} (h : InvCore B s) (n : Name) :
    n ∈ heads (allRules s.catalog) ↔ clausesNow s n ≠ [] := by
  rw [mem_heads]
  constructor
  · rintro ⟨c, hc, hn⟩ he
    have := (clauses_iff h n c).mp ⟨hc, hn⟩
    rw [he] at this; simp at this
  · intro hne
    obtain ⟨c, hc⟩ := List.exists_mem_of_ne_nil _ hne
    have := (clauses_iff h n c).mpr hc
    exact ⟨c, this.1, this.2⟩

theorem head_not_base {B : List Name} {s : St} (h : InvCore B s) {c : Clause} (hc : c ∈ allRules s.catalog) :
    c.head.rel ∉ B ∧ ∀ r ∈ bodyRels c, r ∈ B := by
  obtain ⟨k, cs, hm, hcs⟩ := (mem_allRules _ _).mp hc
  have := h.cat k cs hm
  rw [(this.2 c hcs).1]
  exact ⟨this.1, (this.2 c hcs).2⟩

theorem oneLevel_of_sub {B : List Name} {s : St} (h : InvCore B s) (prog : List Clause)
    (hsub : ∀ c ∈ prog, c ∈ allRules s.catalog) : OneLevel prog := by
  intro c hc r hr hh
  obtain ⟨c', hc', hrel⟩ := (mem_heads prog r).mp hh
  have h1 := (head_not_base h (hsub c hc)).2 r hr
  have h2 := (head_not_base h (hsub c' hc')).1
  rw [hrel] at h2
  exact h2 h1

/-- the meaning both engines must agree on. -/
def sem (s : St) (n : Name) (t : Tup) : Prop :=
  (clausesNow s n ≠ [] ∧ val s n t) ∨ (clausesNow s n = [] ∧ t ∈ factsDb s n)

theorem fresh_iff {B : List Name} {s : St} (h : InvCore B s) (n : Name) (t : Tup) :
    t ∈ fresh s n ↔ sem s n t := by
  unfold fresh
  rw [evalProg_oneLevel _ _ (oneLevel_of_sub h _ (fun _ hc => hc))]
  by_cases hh : n ∈ heads (allRules s.catalog)
  · have hne := (heads_iff h n).mp hh
    simp only [hh, if_true, mem_addNew, List.not_mem_nil, false_or, mem_consequences, sem, hne,
      ne_eq, not_false_eq_true, true_and, false_and, or_false, val]
    constructor
    · rintro ⟨c, hc, hn, ht⟩; exact ⟨c, (clauses_iff h n c).mp ⟨hc, hn⟩, ht⟩
    · rintro ⟨c, hc, ht⟩
      have := (clauses_iff h n c).mpr hc
      exact ⟨c, this.1, this.2, ht⟩
  · have he : clausesNow s n = [] := by
      by_cases he : clausesNow s n = []
      · exact he
      · exact absurd ((heads_iff h n).mpr he) hh
    simp [hh, sem, he, inDb, factsDb]

theorem snapDb_iff {B : List Name} {s : St} (h : Inv B s) (n : Name) (t : Tup) :
    t ∈ snapDb s n ↔ sem s n t := by
  have hc := h.core
  cases hi : s.inc with
  | none =>
    have : snapDb s = fresh s := by
      unfold snapDb fresh
      rw [h.snap]
      simp [mkSnap, hi]
    rw [this]; exact fresh_iff hc n t
  | some i =>
    have hnd := hc.matsNodup i hi
    have hsi : s.snap.inputs = mergeMats s.facts (validMats i) := by
      rw [h.snap]; simp [mkSnap, hi]
    have hsr : s.snap.rules = (allRules s.catalog).filter (fun c => !(isValid i c.head.rel)) := by
      rw [h.snap]; simp [mkSnap, hi]
    unfold snapDb
    rw [hsi, hsr]
    have hone : OneLevel ((allRules s.catalog).filter fun c => !(isValid i c.head.rel)) :=
      oneLevel_of_sub hc _ (fun c hc' => (List.mem_filter.mp hc').1)
    rw [evalProg_oneLevel _ _ hone]
    -- base relations read the stored tuples unchanged
    have hbase : ∀ r, r ∈ B → inDb (mergeMats s.facts (validMats i)) r = factsDb s r := by
      intro r hr
      unfold inDb factsDb
      rw [aget_mergeMats_not_key]
      intro hk
      obtain ⟨m, hm, hv⟩ := (isValid_iff i r).mp ((key_validMats_iff i hnd r).mp hk)
      exact (hc.mats i r m hi hm hv).1 hr
    by_cases hv : isValid i n = true
    · -- answered from the materialisation
      obtain ⟨m, hm, hmv⟩ := (isValid_iff i n).mp hv
      have hI := hc.mats i n m hi hm hmv
      have hnh : n ∉ heads ((allRules s.catalog).filter fun c => !(isValid i c.head.rel)) := by
        intro hh
        obtain ⟨c, hc', hrel⟩ := (mem_heads _ _).mp hh
        have := (List.mem_filter.mp hc').2
        rw [hrel, hv] at this
        simp at this
      simp only [hnh, if_false]
      rw [inDb_mergeMats_key s.facts (validMats i) n m.tuples
        (by rw [validMats_eq]; exact nodup_vmOf _ hnd)
        ((mem_validMats_iff i hnd n m.tuples).mpr ⟨m, hm, hmv, rfl⟩)]
      have hst : inDb s.facts n = [] := hc.stored n hI.1
      rw [hst, List.nil_append, hI.2.1 t]
      unfold sem
      by_cases he : clausesNow s n = []
      · have hs : factsDb s n = [] := hc.stored n hI.1
        simp [he, val, hs]
      · simp [he]
    · -- evaluated from the rules in the prefix
      have hv' : isValid i n = false := by simpa using hv
      have hnk : n ∉ akeys (validMats i) := fun hk => hv ((key_validMats_iff i hnd n).mp hk)
      have hin : inDb (mergeMats s.facts (validMats i)) n = factsDb s n := by
        unfold inDb factsDb; rw [aget_mergeMats_not_key _ _ _ hnk]
      have hheads : n ∈ heads ((allRules s.catalog).filter fun c => !(isValid i c.head.rel)) ↔ clausesNow s n ≠ [] := by
        rw [← heads_iff hc n, mem_heads, mem_heads]
        constructor
        · rintro ⟨c, hc', hrel⟩; exact ⟨c, (List.mem_filter.mp hc').1, hrel⟩
        · rintro ⟨c, hc', hrel⟩
          exact ⟨c, List.mem_filter.mpr ⟨hc', by rw [hrel, hv']; rfl⟩, hrel⟩
      by_cases he : clausesNow s n = []
      · have hnh : n ∉ heads ((allRules s.catalog).filter fun c => !(isValid i c.head.rel)) :=
          fun hh => (hheads.mp hh) he
        simp only [hnh, if_false, hin, sem, he, ne_eq, not_true_eq_false, false_and, true_and, false_or]
      · have hh := hheads.mpr he
        simp only [hh, if_true, mem_addNew, List.not_mem_nil, false_or, mem_consequences, sem, he,
          ne_eq, not_false_eq_true, true_and, false_and, or_false, val]
        constructor
        · rintro ⟨c, hc', hrel, ht⟩
          have hca := (List.mem_filter.mp hc').1
          refine ⟨c, (clauses_iff hc n c).mp ⟨hca, hrel⟩, ?_⟩
          rw [← fire_congr _ _ c (fun r hr => hbase r ((head_not_base hc hca).2 r hr))]
          exact ht
        · rintro ⟨c, hcn, ht⟩
          have hca := (clauses_iff hc n c).mpr hcn
          refine ⟨c, List.mem_filter.mpr ⟨hca.1, by rw [hca.2, hv']; rfl⟩, hca.2, ?_⟩
          rw [fire_congr _ _ c (fun r hr => hbase r ((head_not_base hc hca.1).2 r hr))]
          exact ht

/-- the two consequences the property is about. -/
theorem answers_agree {B : List Name} {s : St} (h : Inv B s) (q : Atom) :
    SetEq (answer (snapDb s) q) (answer (fresh s) q) := by
  intro t
  rw [mem_answer, mem_answer, snapDb_iff h, fresh_iff h.core]

theorem valid_is_fresh {B : List Name} {s : St} (h : Inv B s) (i : Inc) (n : Name) (m : Mat)
    (hi : s.inc = some i) (hm : aget i.mats n = some m) (hv : m.valid = true) :
    SetEq m.tuples (fresh s n) := by
  intro t
  have hI := h.core.mats i n m hi hm hv
  rw [fresh_iff h.core, hI.2.1 t]
  unfold sem
  by_cases he : clausesNow s n = []
  · have hs : factsDb s n = [] := h.core.stored n hI.1
    simp [he, val, hs]
  · simp [he]

end ILV.C18
