/-
  Exact identities behind `transform_distance` (src/hnsw_index.rs:157): on unit vectors the squared
  L2 distance determines the cosine and the dot product.  Over ℚ (no rounding).
-/
import Mathlib.Tactic.Ring
import Mathlib.Tactic.Linarith
namespace ILV.Hnsw

def dotQ : List ℚ → List ℚ → ℚ
  | x :: xs, y :: ys => x * y + dotQ xs ys
  | _, _ => 0

def sqDistQ : List ℚ → List ℚ → ℚ
  | x :: xs, y :: ys => (x - y) * (x - y) + sqDistQ xs ys
  | _, _ => 0

theorem sqDist_expand : ∀ (a b : List ℚ), a.length = b.length →
    sqDistQ a b = dotQ a a + dotQ b b - 2 * dotQ a b
  | [], [], _ => by simp [sqDistQ, dotQ]
  | [], _ :: _, h => by simp at h
  | _ :: _, [], h => by simp at h
  | x :: xs, y :: ys, h => by
    have ih := sqDist_expand xs ys (by simpa using h)
    simp only [sqDistQ, dotQ, ih]
    ring

/-- cosine distance `1 - a·b` of unit vectors is `L2² / 2`. -/
theorem cosine_of_l2 (a b : List ℚ) (h : a.length = b.length) (ha : dotQ a a = 1) (hb : dotQ b b = 1) :
    sqDistQ a b / 2 = 1 - dotQ a b := by
  rw [sqDist_expand a b h, ha, hb]; ring

/-- negated dot product of unit vectors is `-(1 - L2² / 2)`. -/
theorem dot_of_l2 (a b : List ℚ) (h : a.length = b.length) (ha : dotQ a a = 1) (hb : dotQ b b = 1) :
    -(1 - sqDistQ a b / 2) = -(dotQ a b) := by
  rw [sqDist_expand a b h, ha, hb]; ring

end ILV.Hnsw
