/-
  C18: histories without explicit materialisation (everything the protocol handler can reach on the
  pinned tree, where `auto_materialize_rule` never stores anything): the manager holds no
  materialisation, the published snapshot is the current facts + all rules, so answers are the fresh
  answers for EVERY rule set (no restriction on rule shapes).
-/
import ILV.Lemmas.IncrStep
namespace ILV.C18

def isMat : Step → Bool
  | .mat _ _ => true
  | _ => false

structure NoMatInv (s : St) : Prop where
  snap : s.snap = mkSnap s
  empty : ∀ i, s.inc = some i → i.mats = []

theorem nomat_publish {s : St} (h : ∀ i, s.inc = some i → i.mats = []) : NoMatInv (publish s) :=
  ⟨rfl, h⟩

theorem notify_empty (i : Inc) (r : Name) (h : i.mats = []) : (i.notify r).mats = [] := by
  rw [notify_mats_eq, h]; rfl

theorem foldNotify_empty (rs : List Name) (i : Inc) (h : i.mats = []) : (rs.foldl Inc.notify i).mats = [] := by
  induction rs generalizing i with
  | nil => exact h
  | cons r rs ih => simp only [List.foldl_cons]; exact ih _ (notify_empty i r h)

theorem remove_empty (i : Inc) (n : Name) (h : i.mats = []) : (i.remove n).mats = [] := by
  rw [remove_mats, h]; rfl

theorem foldRemove_empty (ns : List Name) (i : Inc) (h : i.mats = []) : (ns.foldl Inc.remove i).mats = [] := by
  induction ns generalizing i with
  | nil => exact h
  | cons a ns ih => simp only [List.foldl_cons]; exact ih _ (remove_empty i a h)

theorem mapInc_empty {s : St} (f : Inc → Inc) (hf : ∀ i, i.mats = [] → (f i).mats = [])
    (h : ∀ i, s.inc = some i → i.mats = []) : ∀ i, (mapInc s f).inc = some i → i.mats = [] := by
  intro i' hi'
  cases hsi : s.inc with
  | none => simp [mapInc, hsi] at hi'
  | some i =>
    simp only [mapInc, hsi, Option.map_some, Option.some.injEq] at hi'
    subst hi'
    exact hf i (h i hsi)

theorem nomat_step {s : St} (hI : NoMatInv s) (st : Step) (hs : isMat st = false) :
    NoMatInv (step codeAutoMat s st).1 := by
  cases st with
  | ins r ts =>
    simp only [step]
    split
    · exact hI
    split
    · exact hI
    unfold insApply
    simp only
    split
    · exact nomat_publish (mapInc_empty _ (fun i h => notify_empty i r h) hI.empty)
    · exact hI
  | del r ts =>
    simp only [step]
    split
    · exact hI
    · split
      · exact nomat_publish (mapInc_empty _ (fun i h => notify_empty i r h) hI.empty)
      · exact hI
  | reg c =>
    simp only [step]
    split
    · exact hI
    unfold regApply
    simp only
    exact nomat_publish (mapInc_empty _ (fun i h => h) hI.empty)
  | rmc n k =>
    simp only [step]
    split
    · exact hI
    · split
      · exact hI
      · split
        · exact nomat_publish hI.empty
        · exact nomat_publish hI.empty
  | rep n k c =>
    simp only [step]
    split
    · exact hI
    · split
      · exact hI
      · exact nomat_publish hI.empty
  | clr n =>
    simp only [step]
    split
    · exact hI
    · exact nomat_publish hI.empty
  | drop n =>
    simp only [step]
    split
    · exact hI
    · exact nomat_publish (mapInc_empty _ (fun i h => remove_empty i n h) hI.empty)
  | dropp pre =>
    simp only [step]
    split
    · exact hI
    · exact nomat_publish (mapInc_empty _ (fun i h => foldRemove_empty _ i h) hI.empty)
  | drel r =>
    simp only [step]
    split
    · exact hI
    · exact nomat_publish (mapInc_empty _ (fun i h => remove_empty i r h) hI.empty)
  | clrp pre =>
    simp only [step]
    split
    · exact hI
    · exact nomat_publish (mapInc_empty _ (fun i h => foldNotify_empty _ i h) hI.empty)
  | idx =>
    simp only [step]
    split
    · next hnone =>
      refine ⟨?_, ?_⟩
      · show s.snap = _
        rw [hI.snap]
        simp only [mkSnap, hnone, validMats, isValid, aget, mergeMats, List.filterMap_nil, Bool.not_false]
        rw [List.filter_eq_self.mpr (fun _ _ => rfl)]
      · intro i' hi'
        simp only [Option.some.injEq] at hi'; subst hi'; rfl
    · next i hi =>
      split
      · exact hI
      · refine ⟨?_, ?_⟩
        · show s.snap = _
          rw [hI.snap]; simp [mkSnap, hi, validMats, isValid]
        · intro i' hi'
          simp only [Option.some.injEq] at hi'; subst hi'
          exact hI.empty i hi
  | idxdrop =>
    simp only [step]
    split
    · exact hI
    · next i hi =>
      split
      · refine ⟨?_, ?_⟩
        · show s.snap = _
          rw [hI.snap]; simp [mkSnap, hi, validMats, isValid]
        · intro i' hi'
          simp only [Option.some.injEq] at hi'; subst hi'
          exact hI.empty i hi
      · exact hI
  | mat n ar => simp [isMat] at hs
  | q a => exact hI
  | m => exact hI

theorem nomat_runFrom (h : List Step) {s : St} (hI : NoMatInv s) (hs : h.all (fun st => !(isMat st)) = true) :
    NoMatInv (runFrom codeAutoMat s h) := by
  induction h generalizing s with
  | nil => exact hI
  | cons st l ih =>
    simp only [List.all_cons, Bool.and_eq_true, Bool.not_eq_eq_eq_not, Bool.not_true] at hs
    exact ih (nomat_step hI st hs.1) hs.2

theorem nomat_snapDb {s : St} (hI : NoMatInv s) : snapDb s = fresh s := by
  unfold snapDb fresh
  rw [hI.snap]
  cases hi : s.inc with
  | none => simp [mkSnap, hi]
  | some i =>
    have he := hI.empty i hi
    simp only [mkSnap, hi, validMats, isValid, he, aget, mergeMats, List.filterMap_nil, Bool.not_false]
    rw [List.filter_eq_self.mpr (fun _ _ => rfl)]

end ILV.C18
