/-
  C18, recursive fragment: the invariant (rules read base relations and, possibly, their own head) and
  what it implies for query answers.
-/
import ILV.Lemmas.IncrRec
import ILV.Lemmas.IncrStep
namespace ILV.C18

/-- a head evaluated from its own clauses alone over the stored facts. -/
def own (s : St) (n : Name) : List Tup := evalProg (clausesNow s n) s.facts n

structure RCore (B : List Name) (s : St) : Prop where
  stored : ∀ r, r ∉ B → factsDb s r = []
  cat : ∀ k cs, (k, cs) ∈ s.catalog → k ∉ B ∧ ∀ c ∈ cs, c.head.rel = k ∧ ∀ r ∈ bodyRels c, r ∈ B ∨ r = k
  catNodup : (akeys s.catalog).Nodup
  matsNodup : ∀ i, s.inc = some i → (akeys i.mats).Nodup
  d2d : ∀ i, s.inc = some i → i.d2d = []
  mats : ∀ i n m, s.inc = some i → aget i.mats n = some m → m.valid = true →
    n ∉ B ∧ clausesNow s n ≠ [] ∧ (∀ t, t ∈ m.tuples ↔ t ∈ own s n) ∧
    (∀ c ∈ clausesNow s n, ∀ r ∈ bodyRels c, r ≠ n → n ∈ b2dOf i r)

structure RInv (B : List Name) (s : St) : Prop where
  core : RCore B s
  snap : s.snap = mkSnap s
  conv : convState s = true

/-! ### the catalogue as a program -/

theorem clausesOf_append (l1 l2 : List Clause) (n : Name) : clausesOf (l1 ++ l2) n = clausesOf l1 n ++ clausesOf l2 n := by
  simp [clausesOf, List.filter_append]

theorem clausesOf_all {cs : List Clause} {n : Name} (h : ∀ c ∈ cs, c.head.rel = n) : clausesOf cs n = cs := by
  unfold clausesOf
  exact List.filter_eq_self.mpr (fun c hc => by simp [h c hc])

theorem clausesOf_none {cs : List Clause} {k n : Name} (h : ∀ c ∈ cs, c.head.rel = k) (hne : k ≠ n) : clausesOf cs n = [] := by
  unfold clausesOf
  apply List.filter_eq_nil_iff.mpr
  intro c hc
  simp [h c hc, hne]

theorem clausesOf_allRules_gen (cat : List (Name × List Clause))
    (hh : ∀ k cs, (k, cs) ∈ cat → ∀ c ∈ cs, c.head.rel = k) (hn : (akeys cat).Nodup) (n : Name) :
    clausesOf (allRules cat) n = (aget cat n).getD [] := by
  induction cat with
  | nil => rfl
  | cons p l ih =>
    obtain ⟨k, cs⟩ := p
    simp only [akeys, List.map_cons, List.nodup_cons] at hn
    have ih' := ih (fun k' cs' hm => hh k' cs' (List.mem_cons_of_mem _ hm)) hn.2
    have hcs := hh k cs (by simp)
    have : allRules ((k, cs) :: l) = cs ++ allRules l := by simp [allRules]
    rw [this, clausesOf_append, ih']
    by_cases e : k = n
    · subst e
      rw [clausesOf_all hcs, aget_none_of_not_key hn.1]
      simp [aget]
    · rw [clausesOf_none hcs e]
      simp [aget, e]

theorem clausesOf_allRules {B : List Name} {s : St} (h : RCore B s) (n : Name) :
    clausesOf (allRules s.catalog) n = clausesNow s n :=
  clausesOf_allRules_gen s.catalog (fun k cs hm c hc => ((h.cat k cs hm).2 c hc).1) h.catNodup n

theorem mem_heads_clausesOf (prog : List Clause) (n : Name) : n ∈ heads prog ↔ clausesOf prog n ≠ [] := by
  rw [mem_heads]
  constructor
  · rintro ⟨c, hc, hn⟩ he
    have : c ∈ clausesOf prog n := List.mem_filter.mpr ⟨hc, by simp [hn]⟩
    rw [he] at this; simp at this
  · intro hne
    obtain ⟨c, hc⟩ := List.exists_mem_of_ne_nil _ hne
    have := List.mem_filter.mp hc
    exact ⟨c, this.1, by simpa using this.2⟩

theorem rheads_iff {B : List Name} {s : St} (h : RCore B s) (n : Name) :
    n ∈ heads (allRules s.catalog) ↔ clausesNow s n ≠ [] := by
  rw [mem_heads_clausesOf, clausesOf_allRules h]

theorem clausesNow_spec {B : List Name} {s : St} (h : RCore B s) {n : Name} {c : Clause} (hc : c ∈ clausesNow s n) :
    c ∈ allRules s.catalog ∧ c.head.rel = n ∧ n ∉ B ∧ ∀ r ∈ bodyRels c, r ∈ B ∨ r = n := by
  unfold clausesNow at hc
  cases hg : aget s.catalog n with
  | none => simp [hg] at hc
  | some cs =>
    simp only [hg, Option.getD_some] at hc
    have hm := aget_some_mem hg
    have := h.cat n cs hm
    exact ⟨(mem_allRules _ _).mpr ⟨n, cs, hm, hc⟩, (this.2 c hc).1, this.1, (this.2 c hc).2⟩

theorem allRules_spec {B : List Name} {s : St} (h : RCore B s) {c : Clause} (hc : c ∈ allRules s.catalog) :
    c.head.rel ∉ B ∧ ∀ r ∈ bodyRels c, r ∈ B ∨ r = c.head.rel := by
  obtain ⟨k, cs, hm, hcs⟩ := (mem_allRules _ _).mp hc
  have := h.cat k cs hm
  rw [(this.2 c hcs).1]
  exact ⟨this.1, (this.2 c hcs).2⟩

theorem selfLevel_sub {B : List Name} {s : St} (h : RCore B s) (prog : List Clause)
    (hsub : ∀ c ∈ prog, c ∈ allRules s.catalog) : SelfLevel prog := by
  intro c hc r hr
  rcases (allRules_spec h (hsub c hc)).2 r hr with hb | he
  · left
    intro hh
    obtain ⟨c', hc', hrel⟩ := (mem_heads prog r).mp hh
    have := (allRules_spec h (hsub c' hc')).1
    rw [hrel] at this
    exact this hb
  · exact Or.inr he

theorem selfLevel_own {B : List Name} {s : St} (h : RCore B s) (n : Name) : SelfLevel (clausesNow s n) :=
  selfLevel_sub h _ (fun _ hc => (clausesNow_spec h hc).1)

theorem clausesOf_own {B : List Name} {s : St} (h : RCore B s) (n : Name) :
    clausesOf (clausesNow s n) n = clausesNow s n :=
  clausesOf_all (fun _ hc => (clausesNow_spec h hc).2.1)

theorem key_of_clauses {s : St} {n : Name} (hne : clausesNow s n ≠ []) : n ∈ akeys s.catalog := by
  unfold clausesNow at hne
  cases hg : aget s.catalog n with
  | none => simp [hg] at hne
  | some cs => exact aget_isSome_key hg

theorem conv_own {s : St} (hc : convState s = true) {n : Name} (hne : clausesNow s n ≠ []) :
    conv (clausesNow s n) s.facts = true := by
  simp only [convState, Bool.and_eq_true, List.all_eq_true] at hc
  exact hc.2 n (key_of_clauses hne)

theorem conv_all {s : St} (hc : convState s = true) : conv (allRules s.catalog) s.facts = true := by
  simp only [convState, Bool.and_eq_true] at hc
  exact hc.1.1

theorem conv_snap {s : St} (hc : convState s = true) : conv s.snap.rules s.snap.inputs = true := by
  simp only [convState, Bool.and_eq_true] at hc
  exact hc.1.2

/-! ### fresh evaluation and snapshot evaluation -/

theorem rfresh_own {B : List Name} {s : St} (h : RInv B s) (n : Name) (hne : clausesNow s n ≠ []) :
    fresh s n = own s n := by
  unfold fresh own
  have hco := clausesOf_own h.core n
  refine evalProg_local _ _ _ _ (selfLevel_sub h.core _ (fun _ hc => hc)) (selfLevel_own h.core n)
    (conv_all h.conv) (conv_own h.conv hne) n ((rheads_iff h.core n).mpr hne) ?_ ?_ (fun _ => rfl)
  · rw [mem_heads_clausesOf, hco]; exact hne
  · rw [clausesOf_allRules h.core, hco]

theorem rfresh_base {B : List Name} {s : St} (h : RInv B s) (n : Name) (he : clausesNow s n = []) :
    fresh s n = factsDb s n := by
  unfold fresh
  rw [evalProg_nonhead]
  · rfl
  · intro hh
    exact ((rheads_iff h.core n).mp hh) he

theorem rsnap_iff {B : List Name} {s : St} (h : RInv B s) (n : Name) (t : Tup) :
    t ∈ snapDb s n ↔ t ∈ fresh s n := by
  have hc := h.core
  cases hi : s.inc with
  | none =>
    have : snapDb s = fresh s := by
      unfold snapDb fresh
      rw [h.snap]
      simp [mkSnap, hi]
    rw [this]
  | some i =>
    have hnd := hc.matsNodup i hi
    have hsi : s.snap.inputs = mergeMats s.facts (validMats i) := by
      rw [h.snap]; simp [mkSnap, hi]
    have hsr : s.snap.rules = (allRules s.catalog).filter (fun c => !(isValid i c.head.rel)) := by
      rw [h.snap]; simp [mkSnap, hi]
    have hcs := conv_snap h.conv
    rw [hsi, hsr] at hcs
    unfold snapDb
    rw [hsi, hsr]
    have hself : SelfLevel ((allRules s.catalog).filter fun c => !(isValid i c.head.rel)) :=
      selfLevel_sub hc _ (fun c hc' => (List.mem_filter.mp hc').1)
    have hbase : ∀ r, r ∈ B → inDb (mergeMats s.facts (validMats i)) r = factsDb s r := by
      intro r hr
      unfold inDb factsDb
      rw [aget_mergeMats_not_key]
      intro hk
      obtain ⟨m, hm, hv⟩ := (isValid_iff i r).mp ((key_validMats_iff i hnd r).mp hk)
      exact (hc.mats i r m hi hm hv).1 hr
    by_cases hv : isValid i n = true
    · obtain ⟨m, hm, hmv⟩ := (isValid_iff i n).mp hv
      have hI := hc.mats i n m hi hm hmv
      have hnh : n ∉ heads ((allRules s.catalog).filter fun c => !(isValid i c.head.rel)) := by
        intro hh
        obtain ⟨c, hc', hrel⟩ := (mem_heads _ _).mp hh
        have := (List.mem_filter.mp hc').2
        rw [hrel, hv] at this
        simp at this
      rw [evalProg_nonhead _ _ _ hnh]
      rw [inDb_mergeMats_key s.facts (validMats i) n m.tuples
        (by rw [validMats_eq]; exact nodup_vmOf _ hnd)
        ((mem_validMats_iff i hnd n m.tuples).mpr ⟨m, hm, hmv, rfl⟩)]
      have hst : inDb s.facts n = [] := hc.stored n hI.1
      rw [hst, List.nil_append, hI.2.2.1 t, rfresh_own h n hI.2.1]
    · have hv' : isValid i n = false := by simpa using hv
      have hnk : n ∉ akeys (validMats i) := fun hk => hv ((key_validMats_iff i hnd n).mp hk)
      have hin : inDb (mergeMats s.facts (validMats i)) n = factsDb s n := by
        unfold inDb factsDb; rw [aget_mergeMats_not_key _ _ _ hnk]
      have hclf : clausesOf ((allRules s.catalog).filter fun c => !(isValid i c.head.rel)) n = clausesNow s n := by
        rw [← clausesOf_allRules hc n]
        unfold clausesOf
        rw [List.filter_filter]
        apply List.filter_congr
        intro c _
        by_cases e : c.head.rel = n
        · simp [e, hv']
        · simp [e]
      by_cases he : clausesNow s n = []
      · have hnh : n ∉ heads ((allRules s.catalog).filter fun c => !(isValid i c.head.rel)) := by
          rw [mem_heads_clausesOf, hclf]; simp [he]
        rw [evalProg_nonhead _ _ _ hnh, hin, rfresh_base h n he]
      · rw [rfresh_own h n he]
        unfold own
        have hco := clausesOf_own hc n
        have : evalProg ((allRules s.catalog).filter fun c => !(isValid i c.head.rel))
            (mergeMats s.facts (validMats i)) n = evalProg (clausesNow s n) s.facts n := by
          refine evalProg_local _ _ _ _ hself (selfLevel_own hc n) hcs (conv_own h.conv he) n ?_ ?_ ?_ ?_
          · rw [mem_heads_clausesOf, hclf]; exact he
          · rw [mem_heads_clausesOf, hco]; exact he
          · rw [hclf, hco]
          · intro tb
            rw [hclf]
            apply nstep_congr
            intro c hcc r hr hrn
            rcases (clausesNow_spec hc hcc).2.2.2 r hr with hb | e
            · exact hbase r hb
            · exact absurd e hrn
        rw [this]

theorem ranswers_agree {B : List Name} {s : St} (h : RInv B s) (q : Atom) :
    SetEq (answer (snapDb s) q) (answer (fresh s) q) := by
  intro t
  rw [mem_answer, mem_answer, rsnap_iff h]

theorem rvalid_is_fresh {B : List Name} {s : St} (h : RInv B s) (i : Inc) (n : Name) (m : Mat)
    (hi : s.inc = some i) (hm : aget i.mats n = some m) (hv : m.valid = true) :
    SetEq m.tuples (fresh s n) := by
  intro t
  have hI := h.core.mats i n m hi hm hv
  rw [hI.2.2.1 t, rfresh_own h n hI.2.1]

end ILV.C18
