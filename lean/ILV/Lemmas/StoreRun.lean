/-
  Whole histories: the invariants of ILV.Lemmas.StoreInv / StoreWrites along `Store.run`.
-/
import ILV.Lemmas.ArityOk
namespace ILV.Store
open ILV ILV.Batch ILV.Props.C31

/-- the requests of one operation are *effective* in state `e`: an insert names pairwise different
    absent (and admissible) tuples, a delete names pairwise different present tuples. -/
def OpEffective (G : String → Tuple → Prop) (e : Engine) : Op → Prop
  | .ins r ts => ts.Nodup ∧ (∀ t ∈ ts, t ∉ liveOf e r) ∧ (∀ t ∈ ts, G r t)
  | .del r ts => ts.Nodup ∧ (∀ t ∈ ts, t ∈ liveOf e r)
  | _ => True

/-- every operation of the history is effective in the state it is applied to. -/
def Effective (c : Codec) (G : String → Tuple → Prop) : Engine → List Op → Prop
  | _, [] => True
  | e, o :: os => OpEffective G e o ∧ Effective c G (step c e o) os

instance decOpEffective (G : String → Tuple → Prop) [∀ r t, Decidable (G r t)] (e : Engine) (o : Op) :
    Decidable (OpEffective G e o) := by
  cases o <;> simp only [OpEffective] <;> infer_instance

instance decEffective (c : Codec) (G : String → Tuple → Prop) [∀ r t, Decidable (G r t)] :
    ∀ (e : Engine) (h : List Op), Decidable (Effective c G e h)
  | _, [] => isTrue trivial
  | e, o :: os =>
    have := decEffective c G (step c e o) os
    by unfold Effective; infer_instance

structure Inv (G : String → Tuple → Prop) (e : Engine) : Prop where
  p : PInv G e
  l : LInv G e
  a : ArityOk e

/-- an effective delete keeps the invariants: the arity filter passes every named tuple (they are stored). -/
theorem delete_spec {c : Codec} {G} (hc : CodecOk c G) (e : Engine) (rel : String) (ts : List Tuple)
    (hP : PInv G e) (hL : LInv G e) (hA : ArityOk e) (hn : ts.Nodup) (hpr : ∀ t ∈ ts, t ∈ liveOf e rel) :
    PInv G (delete c e rel ts).1 ∧ LInv G (delete c e rel ts).1 ∧ (delete c e rel ts).1.cfg = e.cfg := by
  have hd : deletable e.arity rel ts = ts := by
    cases ts with
    | nil => simp [deletable]; cases aget e.arity rel <;> rfl
    | cons first rest =>
      have ha := hA rel first (hpr first (by simp))
      simp only [deletable, ha]
      apply List.filter_eq_self.2
      intro t ht
      have := hA rel t (hpr t ht)
      rw [ha] at this
      simp only [Option.some.injEq] at this
      simp [this]
  show PInv G (deleteCoreRaw c e rel (deletable e.arity rel ts)).1 ∧ LInv G (deleteCoreRaw c e rel (deletable e.arity rel ts)).1 ∧
    (deleteCoreRaw c e rel (deletable e.arity rel ts)).1.cfg = e.cfg
  rw [hd]
  exact deleteRaw_spec hc e rel ts hP hL hn hpr

theorem aget_filterMap {β γ} (m : List (String × β)) (f : β → Option γ) (k : String) (h : (keys m).Nodup) :
    aget (m.filterMap (fun p => (f p.2).map (fun a => (p.1, a)))) k = (aget m k).bind f := by
  induction m with
  | nil => rfl
  | cons p m ih =>
    obtain ⟨a, b⟩ := p
    simp only [keys, List.map_cons, List.nodup_cons] at h
    by_cases hak : a = k
    · subst hak
      have hn : aget m a = none := aget_none_of_not_mem m a h.1
      cases hf : f b with
      | none => simp [List.filterMap_cons, hf, aget, ih h.2, hn]
      | some x => simp [List.filterMap_cons, hf, aget]
    · cases hf : f b with
      | none => simp [List.filterMap_cons, hf, aget, hak, ih h.2]
      | some x => simp [List.filterMap_cons, hf, aget, hak, ih h.2]

theorem Inv_init (G : String → Tuple → Prop) (cfg : Cfg) : Inv G { cfg := cfg } := by
  refine ⟨⟨rfl, by simp [keys], fun _ => rfl, ?_, ?_, fun _ _ => rfl, fun _ => ⟨rfl, fun _ => rfl⟩⟩, ⟨?_, ?_, ?_⟩,
    fun r t ht => by simp [liveOf, aget] at ht⟩
  · intro r u hu; simp [logOf, shardOf, aget, readShard] at hu
  · intro p hp; simp at hp
  · intro r t; simp [logOf, shardOf, aget, readShard, liveOf]
  · intro r; simp [liveOf, aget]
  · intro r t ht; simp [liveOf, aget] at ht

theorem LInv_of_maint {G} {e e' : Engine} (h : LInv G e) (m : Maint e e') : LInv G e' := by
  have hl : ∀ r, liveOf e' r = liveOf e r := fun r => by simp [liveOf, m.live]
  exact ⟨fun r t => by rw [m.sums, hl]; exact h.sums r t, fun r => by rw [hl]; exact h.nodup r,
    fun r t ht => by rw [hl] at ht; exact h.liveGood r t ht⟩

/-- after a restart the live state is the set of tuples with a positive sum; under `LInv` that is the
    old live state, and `LInv` holds again. -/
theorem restart_inv {c : Codec} {G} (hc : CodecOk c G) (hwf : ∀ r t, G r t → TupleWF t) (e : Engine) (h : Inv G e)
    (hB : ∀ r, walFor (e.wal ++ e.walBuf) r = bufferOf e r) :
    (restart c e).2 = none ∧ Inv G (restart c e).1 ∧ (restart c e).1.cfg = e.cfg ∧
    (∀ r t, t ∈ liveOf (restart c e).1 r ↔ t ∈ liveOf e r) := by
  obtain ⟨r1, r2, r3, r4, r5⟩ := restart_spec hc e h.p hB
  have hmem : ∀ r t, t ∈ liveOf (restart c e).1 r ↔ t ∈ liveOf e r := by
    intro r t
    rw [r5, mem_recover_iff _ (fun u hu => hwf r _ (h.p.good r u hu)), h.l.sums r t]
    by_cases ht : t ∈ liveOf e r <;> simp [ht]
  refine ⟨r1, ⟨r2, ⟨?_, ?_, ?_⟩, ?_⟩, r3, hmem⟩
  rotate_left 3
  · -- arities: the first recovered tuple has the arity of the old relation
    intro r t ht
    have hold : ∀ x ∈ liveOf (restart c e).1 r, aget e.arity r = some x.length :=
      fun x hx => h.a r x ((hmem r x).1 hx)
    obtain ⟨f1, f2, _, f4⟩ := reopenPersist_spec hc e h.p hB
    have hfl : reopenPersist c e = ((reopenPersist c e).1, none) := by rw [← f1]
    have hres : (restart c e).1 = loadKgs (reopenPersist c e).1 := by
      unfold restart; rw [hfl]
    have hlive : ∀ r', liveOf (restart c e).1 r' = recoverRel (shardOf (reopenPersist c e).1 r') := by
      intro r'
      rw [hres, liveOf_loadKgs _ f2.keysNodup]; rfl
    have harity : aget (restart c e).1.arity r = (aget (reopenPersist c e).1.shards r).bind shardArity := by
      rw [hres]; exact aget_filterMap _ shardArity r f2.keysNodup
    rw [harity]
    rw [hlive r] at ht
    cases hg : aget (reopenPersist c e).1.shards r with
    | none =>
      simp only [shardOf, hg, Option.getD_none, recoverRel_default] at ht
      simp at ht
    | some sh =>
      have hsh : shardOf (reopenPersist c e).1 r = sh := by simp [shardOf, hg]
      rw [hsh] at ht
      simp only [Option.bind_some, shardArity]
      cases hrec : recoverRel sh with
      | nil => rw [hrec] at ht; simp at ht
      | cons x xs =>
        have hx : x ∈ liveOf (restart c e).1 r := by rw [hlive r, hsh, hrec]; simp
        have ht' : t ∈ liveOf (restart c e).1 r := by rw [hlive r, hsh]; exact ht
        have e1 := hold x hx
        have e2 := hold t ht'
        rw [e1] at e2
        simp only [Option.some.injEq] at e2
        simp [e2]
  · intro r t
    rw [r4, h.l.sums r t]
    by_cases ht : t ∈ liveOf e r
    · simp [ht, (hmem r t).2 ht]
    · have : t ∉ liveOf (restart c e).1 r := fun hm => ht ((hmem r t).1 hm)
      simp [ht, this]
  · intro r
    rw [r5]
    exact recover_nodup _ (fun u hu => hwf r _ (h.p.good r u hu))
  · intro r t ht
    exact h.l.liveGood r t ((hmem r t).1 ht)

theorem hB_of_immediate {G} {e : Engine} (h : PInv G e) (hm : e.cfg.mode = .immediate) :
    ∀ r, walFor (e.wal ++ e.walBuf) r = bufferOf e r := by
  intro r
  have := h.walImm hm
  rw [this.1, List.append_nil]; exact this.2 r

theorem hB_of_empty {G} {e : Engine} (h : PInv G e) (hb : ∀ r, bufferOf e r = []) :
    ∀ r, walFor (e.wal ++ e.walBuf) r = bufferOf e r := by
  intro r
  rw [hb r]; exact h.walEmpty r (hb r)

/-- one effective step in immediate mode keeps the invariant. -/
theorem step_inv {c : Codec} {G} (hc : CodecOk c G) (hwf : ∀ r t, G r t → TupleWF t) (e : Engine) (o : Op)
    (h : Inv G e) (hm : e.cfg.mode = .immediate) (he : OpEffective G e o) :
    Inv G (step c e o) ∧ (step c e o).cfg = e.cfg := by
  unfold step
  have hd : e.dead = false := h.p.notDead
  simp only [hd, Bool.false_eq_true, if_false]
  cases o with
  | ins r ts =>
    obtain ⟨a, b, d⟩ := insert_spec hc e r ts h.p h.l he.1 he.2.1 he.2.2
    exact ⟨⟨a, b, insertCore_arityOk c e r ts h.a⟩, d⟩
  | del r ts =>
    obtain ⟨a, b, d⟩ := delete_spec hc e r ts h.p h.l h.a he.1 he.2
    exact ⟨⟨a, b, deleteCore_arityOk c e r ts h.a⟩, d⟩
  | save =>
    obtain ⟨_, a, m, _⟩ := saveAll_spec hc e h.p
    exact ⟨⟨a, LInv_of_maint h.l m, ArityOk_of_eq h.a m.live m.arity⟩, m.cfg⟩
  | savekg =>
    obtain ⟨_, a, m, _⟩ := saveAll_spec hc e h.p
    exact ⟨⟨a, LInv_of_maint h.l m, ArityOk_of_eq h.a m.live m.arity⟩, m.cfg⟩
  | compact =>
    obtain ⟨_, a, m⟩ := compactAll_spec hc e h.p
    exact ⟨⟨a, LInv_of_maint h.l m, ArityOk_of_eq h.a m.live m.arity⟩, m.cfg⟩
  | compactIf n =>
    obtain ⟨_, a, m⟩ := compactIf_spec hc e n h.p
    exact ⟨⟨a, LInv_of_maint h.l m, ArityOk_of_eq h.a m.live m.arity⟩, m.cfg⟩
  | restart =>
    obtain ⟨_, a, b, _⟩ := restart_inv hc hwf e h (hB_of_immediate h.p hm)
    exact ⟨a, b⟩
  | shutdown =>
    obtain ⟨_, a, m, hb⟩ := saveAll_spec hc e h.p
    obtain ⟨_, a', b', _⟩ := restart_inv hc hwf (saveAll c e).1 ⟨a, LInv_of_maint h.l m, ArityOk_of_eq h.a m.live m.arity⟩ (hB_of_empty a hb)
    exact ⟨a', b'.trans m.cfg⟩
  | obs => exact ⟨h, rfl⟩
  | files => exact ⟨h, rfl⟩
  | q => exact ⟨h, rfl⟩
  | bad => exact ⟨h, rfl⟩

theorem run_inv_from {c : Codec} {G} (hc : CodecOk c G) (hwf : ∀ r t, G r t → TupleWF t) :
    ∀ (h : List Op) (e : Engine), Inv G e → e.cfg.mode = .immediate → Effective c G e h →
      Inv G (h.foldl (step c) e) ∧ (h.foldl (step c) e).cfg.mode = .immediate := by
  intro h
  induction h with
  | nil => intro e hi hm _; exact ⟨hi, hm⟩
  | cons o os ih =>
    intro e hi hm he
    obtain ⟨a, b⟩ := step_inv hc hwf e o hi hm he.1
    exact ih (step c e o) a (by rw [b]; exact hm) he.2

end ILV.Store
