/-
  Helper lemmas for C34: how the catalog operations change the set of stored clauses, and that
  every operation except `replaceClause` preserves "the stored rule set is stratifiable".
-/
import ILV.Lemmas.Strat
namespace ILV.Strat

theorem mem_graphOf {rs : List Rule} {e : Edge} : e ∈ graphOf rs ↔ ∃ r, r ∈ rs ∧ e ∈ edgesOf r := by
  unfold graphOf; exact List.mem_flatMap

theorem graphOf_subset {rs rs' : List Rule} (h : ∀ r, r ∈ rs → r ∈ rs') :
    ∀ e, e ∈ graphOf rs → e ∈ graphOf rs' := by
  intro e he
  obtain ⟨r, hr, her⟩ := mem_graphOf.mp he
  exact mem_graphOf.mpr ⟨r, h r hr, her⟩

theorem stratRejects_mono {rs rs' : List Rule} (h : ∀ r, r ∈ rs → r ∈ rs')
    (hok : stratRejects rs' = false) : stratRejects rs = false :=
  rejects_mono (graphOf_subset h) hok

theorem mem_catRules {c : Catalog} {r : Rule} : r ∈ catRules c ↔ ∃ e, e ∈ c ∧ r ∈ e.2 := by
  unfold catRules; exact List.mem_flatMap

theorem mem_catRules_filter {c : Catalog} {p : Nat × List Rule → Bool} {r : Rule}
    (h : r ∈ catRules (c.filter p)) : r ∈ catRules c := by
  obtain ⟨e, he, hr⟩ := mem_catRules.mp h
  exact mem_catRules.mpr ⟨e, (List.mem_filter.mp he).1, hr⟩

theorem mem_catRules_catDel {c : Catalog} {n : Nat} {r : Rule} (h : r ∈ catRules (catDel c n)) :
    r ∈ catRules c := mem_catRules_filter h

theorem mem_catRules_catSet {c : Catalog} {n : Nat} {rs : List Rule} {r : Rule}
    (h : r ∈ catRules (catSet c n rs)) : r ∈ rs ∨ r ∈ catRules c := by
  unfold catSet at h
  split at h
  · obtain ⟨e, he, hr⟩ := mem_catRules.mp h
    obtain ⟨e0, he0, hmap⟩ := List.mem_map.mp he
    by_cases hn : (e0.1 == n) = true
    · simp only [hn, if_true] at hmap
      subst hmap
      exact Or.inl hr
    · simp only [hn] at hmap
      subst hmap
      exact Or.inr (mem_catRules.mpr ⟨e0, he0, hr⟩)
  · obtain ⟨e, he, hr⟩ := mem_catRules.mp h
    rcases List.mem_append.mp he with he | he
    · exact Or.inr (mem_catRules.mpr ⟨e, he, hr⟩)
    · have : e = (n, rs) := by simpa using he
      subst this
      exact Or.inl hr

theorem mem_of_catGet {c : Catalog} {n : Nat} {rs : List Rule} (h : catGet c n = some rs) :
    ∀ r, r ∈ rs → r ∈ catRules c := by
  intro r hr
  unfold catGet at h
  cases hf : c.find? (fun x => x.1 == n) with
  | none => simp [hf] at h
  | some e =>
    simp only [hf, Option.map_some, Option.some.injEq] at h
    subst h
    exact mem_catRules.mpr ⟨e, List.mem_of_find?_eq_some hf, hr⟩

/-- "the stored rule set is stratifiable" -/
def CatOK (c : Catalog) : Prop := stratRejects (catRules c) = false

theorem CatOK_of_subset {c c' : Catalog} (h : ∀ r, r ∈ catRules c' → r ∈ catRules c) (hc : CatOK c) : CatOK c' :=
  stratRejects_mono h hc

theorem register_sub {c : Catalog} {r : Rule} :
    ∀ x, x ∈ catRules (register c r).1 → x ∈ catRules c ++ [r] := by
  intro x hx
  have key : ∀ rs', (∀ y, y ∈ rs' → y ∈ catRules c ++ [r]) →
      x ∈ catRules (catSet c r.head.pred rs') → x ∈ catRules c ++ [r] := by
    intro rs' hrs' hx
    rcases mem_catRules_catSet hx with h | h
    · exact hrs' x h
    · exact List.mem_append_left _ h
  have single : ∀ y, y ∈ [r] → y ∈ catRules c ++ [r] := fun y hy => List.mem_append_right _ hy
  unfold register at hx
  split at hx
  · exact List.mem_append_left _ hx
  · split at hx
    · exact List.mem_append_left _ hx
    · dsimp only at hx
      split at hx
      · rename_i rs hget
        have hrs := mem_of_catGet hget
        split at hx
        · split at hx
          · exact List.mem_append_left _ hx
          · apply key _ _ hx
            intro y hy
            split at hy
            · exact List.mem_append_left _ (hrs y hy)
            · rcases List.mem_append.mp hy with hy | hy
              · exact List.mem_append_left _ (hrs y hy)
              · exact List.mem_append_right _ hy
        · exact key _ single hx
      · exact key _ single hx

theorem register_preserves {c : Catalog} {r : Rule} (hc : CatOK c) : CatOK (register c r).1 := by
  by_cases hacc : (register c r).1 = c
  · rw [hacc]; exact hc
  · -- the catalog changed, so the stratification check of `catRules c ++ [r]` passed
    have hchk : stratRejects (catRules c ++ [r]) = false := by
      cases hs : stratRejects (catRules c ++ [r]) with
      | false => rfl
      | true =>
        exfalso; apply hacc
        unfold register
        split
        · rfl
        · simp [hs]
    exact stratRejects_mono register_sub hchk

theorem dropRule_preserves {c : Catalog} {n : Nat} (hc : CatOK c) : CatOK (dropRule c n).1 := by
  unfold dropRule
  split
  · exact CatOK_of_subset (fun _ h => mem_catRules_catDel h) hc
  · exact hc

theorem dropPrefix_preserves {c : Catalog} {d : String} (hc : CatOK c) : CatOK (dropPrefix c d).1 := by
  unfold dropPrefix
  split
  · exact CatOK_of_subset (fun _ h => mem_catRules_filter h) hc
  · exact hc

theorem clearRule_preserves {c : Catalog} {n : Nat} (hc : CatOK c) : CatOK (clearRule c n).1 := by
  unfold clearRule
  split
  · apply CatOK_of_subset _ hc
    intro r h
    rcases mem_catRules_catSet h with h | h
    · cases h
    · exact h
  · exact hc

theorem removeClause_preserves {c : Catalog} {n i : Nat} (hc : CatOK c) : CatOK (removeClause c n i).1 := by
  unfold removeClause
  split
  · exact hc
  · split
    · exact hc
    · rename_i rs hget
      dsimp only
      split
      · exact hc
      · split
        · exact CatOK_of_subset (fun _ h => mem_catRules_catDel h) hc
        · apply CatOK_of_subset _ hc
          intro r h
          rcases mem_catRules_catSet h with h | h
          · exact mem_of_catGet hget r (List.mem_of_mem_eraseIdx h)
          · exact h

theorem replaceClause_preserves {c : Catalog} {n i : Nat} {r : Rule} (hc : CatOK c) :
    CatOK (replaceClause c n i r).1 := by
  unfold replaceClause
  split
  · exact hc
  · split
    · exact hc
    · split
      · exact hc
      · dsimp only
        split
        · exact hc
        · rename_i h
          unfold CatOK
          simpa using h

theorem step_preserves {s : St} {op : Op} (hc : CatOK s.cat) : CatOK (step s op).1.cat := by
  cases op with
  | persist r => exact register_preserves hc
  | registerApi r => exact register_preserves hc
  | replace n i r => exact replaceClause_preserves hc
  | drop n => exact dropRule_preserves hc
  | dropPrefix d => exact dropPrefix_preserves hc
  | clear n => exact clearRule_preserves hc
  | remove n i => exact removeClause_preserves hc
  | sessRule r =>
    simp only [step]
    split
    · exact hc
    · split <;> exact hc
  | sessClear => exact hc
  | querySess n => exact hc
  | queryPlain n => exact hc
  | queryLocal n rs =>
    simp only [step]
    split <;> exact hc
  | restart => exact hc

theorem runSt_cons (s : St) (op : Op) (ops : List Op) : runSt s (op :: ops) = runSt (step s op).1 ops := by
  simp [runSt, run]

theorem runSt_preserves {ops : List Op} : ∀ {s : St}, CatOK s.cat → CatOK (runSt s ops).cat := by
  induction ops with
  | nil => intro s hc; exact hc
  | cons op ops ih =>
    intro s hc
    rw [runSt_cons]
    exact ih (step_preserves hc)

/-- request-local rules that are all accepted are exactly the ones sent -/
theorem acceptLocals_ok : ∀ (rs acc out : List Rule), acceptLocals acc rs = .ok out → out = acc ++ rs
  | [], acc, out, h => by simp [acceptLocals] at h; simp [h]
  | r :: rs, acc, out, h => by
    unfold acceptLocals at h
    split at h
    · cases h
    · split at h
      · have := acceptLocals_ok rs (acc ++ [r]) out h
        simp [this]
      · cases h

theorem runQuery_eval {rs : List Rule} (h : runQuery rs = .eval) : stratRejects rs = false := by
  unfold runQuery at h
  cases hr : stratRejects rs with
  | false => rfl
  | true => simp [hr] at h

end ILV.Strat
