/-
  C13 lemmas, part 4: world-level facts for a single-shard store — `flush`, `ensure_shard` + `append`, recovery.
-/
import ILV.Lemmas.PersistImg
namespace ILV.Persist
open ILV.FS

def flushSteps (s : Name) (id : Nat) (buf : List Update) (m' : ShardMeta) : List Step :=
  [(.batchTmpwrite, .write (.batchTmp id) [.batch buf]), (.batchFsync, .fsync (.batchTmp id)),
   (.batchRename, .rename (.batchTmp id) (.batch id)),
   (.metaTmpwrite, .write (.metaTmp (metaFile s)) [.smeta m']), (.metaFsync, .fsync (.metaTmp (metaFile s))),
   (.metaRename, .rename (.metaTmp (metaFile s)) (.smeta (metaFile s))),
   (.walRewriteUnlink, .unlink .wal)]

def flushedMeta (sh : Shard) (id : Nat) : ShardMeta :=
  addBatch sh.md { id := id, upper := maxTimeP1 sh.buffer, len := sh.buffer.length }

theorem filter_same (s : Name) (es : List Update) :
    (es.map (fun u => (s, u))).filter (fun e => decide (e.1 ≠ s)) = [] := by
  simp [List.filter_eq_nil_iff]

theorem readAll_of_img {s d md X es} (h : Img s d md X es) : readAll d = some (es.map (fun u => (s, u))) := by
  rw [readAll_eq]
  rcases h.wal with ⟨h1, h2⟩ | h1
  · simp [h1, h2]
  · simp only [h1, walItems]; exact walParse_mk _

/-- the disks along a flush -/
theorem flush_disks {s : Name} {d : Disk} {sh : Shard} {md0 : ShardMeta} {X : List Update} (id : Nat)
    (hname : sh.md.name = s) (hb0 : md0.batches = sh.md.batches) (himg : Img s d (some md0) X sh.buffer)
    (hfresh : ∀ b ∈ sh.md.batches, b.id ≠ id) :
    let ops := (flushSteps s id sh.buffer (flushedMeta sh id)).map (·.2)
    (∀ k, k ≤ 5 → Img s (applyAll d (ops.take k)) (some md0) X sh.buffer) ∧
    Img s (applyAll d (ops.take 6)) (some (flushedMeta sh id)) (X ++ sh.buffer) sh.buffer ∧
    (∀ k, 7 ≤ k → Img s (applyAll d (ops.take k)) (some (flushedMeta sh id)) (X ++ sh.buffer) []) := by
  intro ops
  have i0 := himg
  have i1 := i0.write_batchTmp id [.batch sh.buffer]
  have i2 := i1.fsync (.batchTmp id)
  have i3 := i2.rename_batch id (fun m hm b hb => by cases hm; exact hfresh b (hb0 ▸ hb))
  have i4 := i3.write_metaTmp (metaFile s) [.smeta (flushedMeta sh id)]
  have i5 := i4.fsync (.metaTmp (metaFile s))
  have hbatch : itemsAt (apply (apply (apply (apply (apply d (.write (.batchTmp id) [.batch sh.buffer])) (.fsync (.batchTmp id)))
      (.rename (.batchTmp id) (.batch id))) (.write (.metaTmp (metaFile s)) [.smeta (flushedMeta sh id)]))
      (.fsync (.metaTmp (metaFile s)))) (.batch id) = some [.whole (.batch sh.buffer)] := by
    simp [itemsAt_fsync, itemsAt_write, itemsAt_rename]
  have hsrc : itemsAt (apply (apply (apply (apply (apply d (.write (.batchTmp id) [.batch sh.buffer])) (.fsync (.batchTmp id)))
      (.rename (.batchTmp id) (.batch id))) (.write (.metaTmp (metaFile s)) [.smeta (flushedMeta sh id)]))
      (.fsync (.metaTmp (metaFile s)))) (.metaTmp (metaFile s)) = some [.whole (.smeta (flushedMeta sh id))] := by
    simp [itemsAt_fsync, itemsAt_write]
  have i6 := i5.rename_flush_meta (flushedMeta sh id) id { id := id, upper := maxTimeP1 sh.buffer, len := sh.buffer.length }
    (by simp [flushedMeta, addBatch, hname]) (by simp [flushedMeta, addBatch, hb0]) rfl hbatch hsrc
  have i7 := i6.unlink_wal (by simp)
  refine ⟨?_, ?_, ?_⟩
  · intro k hk
    match k, hk with
    | 0, _ => exact i0
    | 1, _ => exact i1
    | 2, _ => exact i2
    | 3, _ => exact i3
    | 4, _ => exact i4
    | 5, _ => exact i5
  · exact i6
  · intro k hk
    have : ops.take k = ops := List.take_of_length_le (by simp [ops, flushSteps]; omega)
    rw [this]
    exact i7


/-- what `flush` does to a world whose only shard `s` has a non-empty buffer that the WAL mirrors -/
theorem flush_world {s : Name} {w : World} {sh : Shard} {md0 : ShardMeta} {X : List Update}
    (hsh : w.mem.shards = [(s, sh)]) (hname : sh.md.name = s) (hbuf : sh.buffer ≠ []) (hb0 : md0.batches = sh.md.batches)
    (himg : Img s w.disk (some md0) X sh.buffer)
    (hfresh : ∀ b ∈ sh.md.batches, b.id ≠ w.mem.nextBatch) :
    flush w s =
      { mem := { w.mem with shards := [(s, { md := flushedMeta sh w.mem.nextBatch, buffer := [] })],
                            nextBatch := w.mem.nextBatch + 1, walOpen := false },
        disk := applyAll w.disk ((flushSteps s w.mem.nextBatch sh.buffer (flushedMeta sh w.mem.nextBatch)).map (·.2)),
        trace := w.trace ++ flushSteps s w.mem.nextBatch sh.buffer (flushedMeta sh w.mem.nextBatch),
        failed := w.failed } := by
  obtain ⟨_, i6, _⟩ := flush_disks w.mem.nextBatch hname hb0 himg hfresh
  have hread := readAll_of_img i6
  have hwal : (get (applyAll w.disk (((flushSteps s w.mem.nextBatch sh.buffer (flushedMeta sh w.mem.nextBatch)).map (·.2)).take 6)) .wal).isSome = true := by
    rw [isSome_get]
    rcases i6.wal with ⟨_, h2⟩ | h1
    · exact absurd h2 hbuf
    · simp [h1]
  have hmf : (flushedMeta sh w.mem.nextBatch).name = s := by simp [flushedMeta, addBatch, hname]
  simp only [flushSteps, List.map_cons, List.map_nil, List.take_succ_cons, List.take_zero, applyAll, List.foldl_cons,
    List.foldl_nil] at hread hwal
  simp only [flush, hsh, sGet, if_true, hbuf, if_false, writeBatch, emit, setShard, sSet, saveShardMeta,
    removeShardEntries, flushedMeta] at hread hwal hmf ⊢
  simp only [hmf, hread, filter_same, hwal, if_true, flushSteps, applyAll, List.map_cons, List.map_nil, List.foldl_cons,
    List.foldl_nil, List.append_assoc, List.cons_append, List.nil_append, flushedMeta]

/-! ### the running invariant and recovery -/

/-- running invariant of a single-shard store with durable content `C` (batches, then buffer = WAL); the metadata on
    disk (`md0`) is the one of the last save: it has the shard's batches, only `upper` may lag behind memory -/
structure Run (s : Name) (w : World) (C : List Update) : Prop where
  notFailed : w.failed = false
  shape : (w.mem.shards = [] ∧ Img s w.disk none [] [] ∧ C = []) ∨
    (∃ sh md0 X, w.mem.shards = [(s, sh)] ∧ sh.md.name = s ∧ md0.batches = sh.md.batches ∧
      Img s w.disk (some md0) X sh.buffer ∧ C = X ++ sh.buffer ∧ ∀ b ∈ sh.md.batches, b.id < w.mem.nextBatch)

def orphan (shards : List (Name × Shard)) : Path → Bool
  | .batch id => !referenced shards id
  | .batchTmp _ => true
  | _ => false

theorem cleanup_ext (L : List Path) : ∀ w : World,
    (cleanupOrphans w L).1.mem = w.mem ∧ (cleanupOrphans w L).1.failed = w.failed ∧
    ∀ q, itemsAt (cleanupOrphans w L).1.disk q = if (q ∈ L ∧ orphan w.mem.shards q = true) then none else itemsAt w.disk q := by
  induction L with
  | nil => intro w; simp [cleanupOrphans]
  | cons p rest ih =>
    intro w
    cases p with
    | batch id =>
      simp only [cleanupOrphans]
      by_cases href : referenced w.mem.shards id = true
      · simp only [href, if_true]
        obtain ⟨h1, h2, h3⟩ := ih w
        refine ⟨h1, h2, fun q => ?_⟩
        rw [h3]
        by_cases hq : q = .batch id
        · subst hq; simp [orphan, href]
        · simp [hq]
      · simp only [href, Bool.false_eq_true, if_false]
        obtain ⟨h1, h2, h3⟩ := ih (emit w .orphansUnlinkBatch (.unlink (.batch id)))
        refine ⟨h1, h2, fun q => ?_⟩
        rw [h3]
        simp only [emit, itemsAt_unlink]
        by_cases hq : q = .batch id
        · subst hq; simp [orphan, href]
        · simp [hq]
    | batchTmp id =>
      simp only [cleanupOrphans]
      obtain ⟨h1, h2, h3⟩ := ih (emit w .orphansUnlinkTmp (.unlink (.batchTmp id)))
      refine ⟨h1, h2, fun q => ?_⟩
      rw [h3]
      simp only [emit, itemsAt_unlink]
      by_cases hq : q = .batchTmp id
      · subst hq; simp [orphan]
      · simp [hq]
    | wal | walNew | smeta f | metaTmp f =>
      simp only [cleanupOrphans]
      obtain ⟨h1, h2, h3⟩ := ih w
      refine ⟨h1, h2, fun q => ?_⟩
      rw [h3]
      by_cases hq : q ∈ rest <;> by_cases ho : orphan w.mem.shards q = true <;> simp [hq, ho]
      all_goals (intro e; subst e; simp [orphan] at ho)

theorem foldl_max_ge (l : List BatchRef) (init : Nat) :
    init ≤ l.foldl (fun a b => max a (b.id + 1)) init ∧ ∀ b ∈ l, b.id < l.foldl (fun a b => max a (b.id + 1)) init := by
  induction l generalizing init with
  | nil => simp
  | cons x xs ih =>
    simp only [List.foldl_cons]
    obtain ⟨h1, h2⟩ := ih (max init (x.id + 1))
    refine ⟨by omega, ?_⟩
    intro b hb
    rcases List.mem_cons.1 hb with e | e
    · subst e; omega
    · exact h2 b e

theorem readBatches_isSome (d : Disk) (bs : List BatchRef) (X : List Update) (h : readBatches d bs = some X) :
    ∀ b ∈ bs, (get d (.batch b.id)).isSome = true := by
  induction bs generalizing X with
  | nil => simp
  | cons x xs ih =>
    simp only [readBatches] at h
    cases hx : readBatch d x.id with
    | none => simp [hx] at h
    | some ux =>
      cases hxs : readBatches d xs with
      | none => simp [hx, hxs] at h
      | some uxs =>
        intro b hb
        rcases List.mem_cons.1 hb with e | e
        · subst e
          simp only [readBatch, readDoc] at hx
          cases hg : get d (.batch b.id) with
          | none => simp [hg] at hx
          | some f => simp
        · exact ih uxs hxs b e

theorem loadShards_const (d : Disk) (f0 : Name) (m : ShardMeta)
    (hdoc : readDoc d (.smeta f0) = some (.smeta m))
    (hex : ∀ b ∈ m.batches, (get d (.batch b.id)).isSome = true) :
    ∀ L : List Name, L ≠ [] → (∀ f ∈ L, f = f0) →
      ∃ nb, loadShards d L = some ([(m.name, { md := m, buffer := [] })], nb) ∧ ∀ b ∈ m.batches, b.id < nb := by
  have hvalid : m.batches.filter (fun b => (get d (.batch b.id)).isSome) = m.batches :=
    List.filter_eq_self.2 hex
  have hm : ({ m with batches := m.batches } : ShardMeta) = m := by cases m; rfl
  intro L
  induction L with
  | nil => intro h; exact absurd rfl h
  | cons f rest ih =>
    intro _ hall
    have hf : f = f0 := hall f (by simp)
    subst hf
    by_cases hr : rest = []
    · subst hr
      refine ⟨m.batches.foldl (fun a b => max a (b.id + 1)) 1, by simp [loadShards, hdoc, hvalid, hm, sSet], (foldl_max_ge _ _).2⟩
    · obtain ⟨nb, h1, _⟩ := ih hr (fun g hg => hall g (by simp [hg]))
      refine ⟨m.batches.foldl (fun a b => max a (b.id + 1)) nb, by simp [loadShards, hdoc, h1, hvalid, hm, sSet], (foldl_max_ge _ _).2⟩

theorem replay_one (s : Name) (es : List Update) (sh : Shard) :
    replay [(s, sh)] (es.map (fun u => (s, u))) = [(s, { sh with buffer := sh.buffer ++ es })] := by
  induction es generalizing sh with
  | nil => simp [replay]
  | cons e es ih =>
    simp only [List.map_cons, replay, sGet, if_true, Option.getD_some, sSet]
    rw [ih]
    simp

theorem referenced_single (s : Name) (sh : Shard) (id : Nat) :
    referenced [(s, sh)] id = true ↔ ∃ b ∈ sh.md.batches, b.id = id := by
  simp [referenced]

theorem visible_single (s : Name) (w : World) (sh : Shard) (X : List Update)
    (hsh : w.mem.shards = [(s, sh)]) (hX : readBatches w.disk sh.md.batches = some X) :
    visible w = visOf s (X ++ sh.buffer) := by
  simp only [visible, hsh, loadRelations, readShard, hX, visOf]
  by_cases h : positive (X ++ sh.buffer) = []
  · simp [h]
  · simp [h, insertRel]

theorem afterCleanup_spec (w : World) (d : Disk) (hd : w.disk = d) :
    (afterCleanup w (paths d)).mem = w.mem ∧ (afterCleanup w (paths d)).failed = w.failed ∧
    ∀ q, itemsAt (afterCleanup w (paths d)).disk q = if orphan w.mem.shards q = true then none else itemsAt d q := by
  obtain ⟨h1, h2, h3⟩ := cleanup_ext (paths d) w
  have hq : ∀ q, itemsAt (cleanupOrphans w (paths d)).1.disk q = if orphan w.mem.shards q = true then none else itemsAt d q := by
    intro q
    rw [h3, hd]
    by_cases ho : orphan w.mem.shards q = true
    · by_cases hp : q ∈ paths d
      · simp [hp, ho]
      · cases hi : itemsAt d q with
        | none => simp [ho]
        | some x => exact absurd (mem_paths_of_items d q (by simp [hi])) hp
    · simp [ho]
  simp only [afterCleanup]
  split
  · exact ⟨h1, h2, fun q => by simp only [emit, itemsAt_nop]; exact hq q⟩
  · exact ⟨h1, h2, hq⟩

theorem isSome_walNew {s d md X es} (h : Img s d md X es) : (get d .walNew).isSome = false := by
  rw [isSome_get, h.walNew]; rfl

/-- stage 3 on a single-shard world -/
theorem finish_single {s : Name} {w : World} {sh : Shard} {md0 : ShardMeta} {X : List Update} (hf : w.failed = false)
    (hsh : w.mem.shards = [(s, sh)]) (hname : sh.md.name = s) (hb0 : md0.batches = sh.md.batches)
    (himg : Img s w.disk (some md0) X sh.buffer)
    (hids : ∀ b ∈ sh.md.batches, b.id < w.mem.nextBatch) :
    ∃ w', stageFinish w = some w' ∧ Run s w' (X ++ sh.buffer) ∧ visible w' = visOf s (X ++ sh.buffer) := by
  obtain ⟨_, _, _, hX⟩ := himg.hasMeta md0 rfl
  rw [hb0] at hX
  cases hsf : stageFinish w with
  | none => simp [stageFinish, isSome_walNew himg, hsh, loadRelations, readShard, hX] at hsf
  | some w' =>
    simp only [stageFinish, isSome_walNew himg, Bool.false_eq_true, if_false, hsh, loadRelations, readShard, hX,
      Option.some.injEq] at hsf
    subst hsf
    exact ⟨_, rfl, ⟨hf, .inr ⟨sh, md0, X, rfl, hname, hb0, himg, rfl, hids⟩⟩, visible_single s _ sh X rfl hX⟩

theorem finish_empty {s : Name} {w : World} (hf : w.failed = false) (hsh : w.mem.shards = [])
    (himg : Img s w.disk none [] []) :
    ∃ w', stageFinish w = some w' ∧ Run s w' [] ∧ visible w' = visOf s [] := by
  cases hsf : stageFinish w with
  | none => simp [stageFinish, isSome_walNew himg, hsh, loadRelations] at hsf
  | some w' =>
    simp only [stageFinish, isSome_walNew himg, Bool.false_eq_true, if_false, hsh, loadRelations, Option.some.injEq] at hsf
    subst hsf
    refine ⟨_, rfl, ⟨hf, .inl ⟨rfl, himg, rfl⟩⟩, ?_⟩
    simp [visible, loadRelations, visOf, positive]

theorem stageReplay_nil (w : World) (ord : List Name) (h : readAll w.disk = some []) (hf : w.failed = false) :
    stageReplay w ord = some w := by
  obtain ⟨mem, disk, trace, failed⟩ := w
  obtain ⟨shards, nb, wo, cl, kn⟩ := mem
  simp only at h hf
  subst hf
  simp [stageReplay, h, replay]

theorem stageReplay_flush (w : World) (s : Name) (sh1 : Shard) (entries : List (Name × Update))
    (h : readAll w.disk = some entries) (hne : entries ≠ []) (hrp : replay w.mem.shards entries = [(s, sh1)])
    (hb : sh1.buffer ≠ [])
    (hff : (flush { w with mem := { w.mem with shards := [(s, sh1)] } } s).failed = false) :
    stageReplay w [] = some (flush { w with mem := { w.mem with shards := [(s, sh1)] } } s) := by
  have hd : dirty [(s, sh1)] = [s] := by simp [dirty, hb]
  simp only [stageReplay, h, hne, if_false, hrp, hd, orderBy, List.eraseDups_nil, List.filter_nil, List.nil_append,
    List.not_mem_nil, not_false_eq_true, decide_true, List.filter_cons_of_pos, flushList]
  simp [hff]

/-- **recovery of an as-is image**: the engine opens, serves exactly the positive part of (batches ++ WAL), and is
    again in a running state with the same content. -/
theorem recover_img {s : Name} {d : Disk} {md : Option ShardMeta} {X es : List Update} (h : Img s d md X es) :
    ∃ w, openEngine d = some w ∧ Run s w (X ++ es) ∧ visible w = visOf s (X ++ es) := by
  cases md with
  | none =>
    obtain ⟨hnm, hX, hes⟩ := h.noMeta rfl
    subst hX; subst hes
    have hmp : metaPaths d = [] := by
      apply List.eq_nil_iff_forall_not_mem.2
      intro f hf
      have := (mem_metaPaths d f).1 hf
      simp [hnm f] at this
    obtain ⟨a1, a2, a3⟩ := afterCleanup_spec (loadWorld d [] 1) d rfl
    have himg1 : Img s (afterCleanup (loadWorld d [] 1) (paths d)).disk none [] [] := by
      apply h.agree
      intro q hq
      rw [a3]
      cases q <;> simp_all [observed, orphan, loadWorld]
    have hload : stageLoad d = some (afterCleanup (loadWorld d [] 1) (paths d)) := by
      simp [stageLoad, hmp, loadShards]
    generalize afterCleanup (loadWorld d [] 1) (paths d) = w1 at a1 a2 himg1 hload
    have hf1 : w1.failed = false := by rw [a2]; rfl
    have hsh1 : w1.mem.shards = [] := by rw [a1]; rfl
    have hrep := stageReplay_nil w1 [] (by simpa using readAll_of_img himg1) hf1
    obtain ⟨w', hfin, hrun, hvis⟩ := finish_empty hf1 hsh1 himg1
    exact ⟨w', by simp only [openEngine, hload, hrep, hfin], by simpa using hrun, by simpa using hvis⟩
  | some m =>
    obtain ⟨hname, hmeta, hothers, hX⟩ := h.hasMeta m rfl
    have hdoc : readDoc d (.smeta (metaFile s)) = some (.smeta m) := by rw [readDoc_eq, hmeta]
    have hne : metaPaths d ≠ [] := by
      have : metaFile s ∈ metaPaths d := (mem_metaPaths d _).2 (by simp [hmeta])
      exact List.ne_nil_of_mem this
    have hall : ∀ f ∈ metaPaths d, f = metaFile s := by
      intro f hf
      have := (mem_metaPaths d f).1 hf
      by_cases e : f = metaFile s
      · exact e
      · simp [hothers f e] at this
    obtain ⟨nb, hls, hids⟩ := loadShards_const d (metaFile s) m hdoc (readBatches_isSome d _ X hX) _ hne hall
    rw [hname] at hls
    obtain ⟨a1, a2, a3⟩ := afterCleanup_spec (loadWorld d [(s, { md := m, buffer := [] })] nb) d rfl
    have himg1 : Img s (afterCleanup (loadWorld d [(s, { md := m, buffer := [] })] nb) (paths d)).disk (some m) X es := by
      apply h.agree
      intro q hq
      rw [a3]
      cases q with
      | batch id =>
        obtain ⟨m', hm', b, hb, hid⟩ := hq
        cases hm'
        have : referenced [(s, ({ md := m, buffer := [] } : Shard))] id = true :=
          (referenced_single s _ id).2 ⟨b, hb, hid⟩
        simp [orphan, loadWorld, this]
      | _ => simp_all [observed, orphan, loadWorld]
    have hload : stageLoad d = some (afterCleanup (loadWorld d [(s, { md := m, buffer := [] })] nb) (paths d)) := by
      simp [stageLoad, hls]
    generalize afterCleanup (loadWorld d [(s, { md := m, buffer := [] })] nb) (paths d) = w1 at a1 a2 himg1 hload
    have hf1 : w1.failed = false := by rw [a2]; rfl
    have hsh1 : w1.mem.shards = [(s, { md := m, buffer := [] })] := by rw [a1]; rfl
    have hnb1 : w1.mem.nextBatch = nb := by rw [a1]; rfl
    have hread := readAll_of_img himg1
    by_cases hes : es = []
    · subst hes
      have hrep := stageReplay_nil w1 [] (by simpa using hread) hf1
      obtain ⟨w', hfin, hrun, hvis⟩ := finish_single (sh := { md := m, buffer := [] }) hf1 hsh1 hname rfl himg1
        (by simpa [hnb1] using hids)
      exact ⟨w', by simp only [openEngine, hload, hrep, hfin], by simpa using hrun, by simpa using hvis⟩
    · -- the WAL holds entries: replay them into the buffer, then the drain flush
      have hmapne : es.map (fun u => (s, u)) ≠ [] := by simpa using hes
      have hrp : replay w1.mem.shards (es.map (fun u => (s, u))) = [(s, { md := m, buffer := es })] := by
        rw [hsh1, replay_one]; simp
      have hfresh : ∀ b ∈ m.batches, b.id ≠ nb := fun b hb => by have := hids b hb; omega
      have hfl := flush_world (s := s) (w := { w1 with mem := { w1.mem with shards := [(s, { md := m, buffer := es })] } })
        (sh := { md := m, buffer := es }) (X := X) rfl hname hes rfl himg1 (by simpa [hnb1] using hfresh)
      have hff : (flush { w1 with mem := { w1.mem with shards := [(s, { md := m, buffer := es })] } } s).failed = false := by
        rw [hfl]; exact hf1
      have hrep := stageReplay_flush w1 s { md := m, buffer := es } _ hread hmapne hrp hes hff
      obtain ⟨_, _, i7⟩ := flush_disks (s := s) (d := w1.disk) (sh := { md := m, buffer := es }) (X := X) nb hname rfl himg1 hfresh
      have i7' := i7 7 (Nat.le_refl 7)
      obtain ⟨w', hfin, hrun, hvis⟩ := finish_single (s := s)
        (w := flush { w1 with mem := { w1.mem with shards := [(s, { md := m, buffer := es })] } } s)
        (sh := { md := flushedMeta { md := m, buffer := es } nb, buffer := [] }) (X := X ++ es)
        hff (by rw [hfl]; simp [hnb1]) (by simp [flushedMeta, addBatch, hname]) rfl
        (by rw [hfl]; simpa [flushSteps, hnb1] using i7')
        (by
          rw [hfl]
          intro b hb
          simp only [flushedMeta, addBatch, List.mem_append, List.mem_singleton] at hb
          rcases hb with hb | hb
          · have := hids b hb; simp only [hnb1]; omega
          · subst hb; simp [hnb1])
      exact ⟨w', by simp only [openEngine, hload, hrep, hfin], by simpa using hrun, by simpa using hvis⟩

end ILV.Persist
