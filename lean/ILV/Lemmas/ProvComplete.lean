/-
  Lemmas for C22_partial: completeness of the chainer model on positive non-recursive programs
  over canonical data (induction on the rank of the relation = induction on the rule DAG).
-/
import ILV.Lemmas.ProvChain
namespace ILV.Prov
open ILV

/-! ### canonical values -/

def CanonT (t : Tuple) : Prop := ∀ v ∈ t, canonV v = true
def CanonB (β : Bindings) : Prop := ∀ p ∈ β, canonV p.2 = true
def CanonDB (db : DB) : Prop := ∀ rel, ∀ t ∈ db.get rel, CanonT t

theorem canon_eq (a b : Value) (ha : canonV a = true) (hb : canonV b = true) (h : valuesEqual a b = true) : a = b := by
  cases a <;> cases b <;> simp_all [canonV, valuesEqual]

theorem canon_good (v : Value) (h : canonV v = true) : GoodV v := by
  cases v <;> simp_all [canonV, GoodV, valuesEqual]

theorem CanonT_good (t : Tuple) (h : CanonT t) : GoodT t := fun v hv => canon_good v (h v hv)

theorem CanonDB_of (db : DB) (h : canonDB db = true) : CanonDB db := by
  intro rel t ht v hv
  unfold DB.get at ht
  cases hl : db.lookup rel with
  | none => simp [hl] at ht
  | some ts =>
    simp only [hl] at ht
    have hm := lookup_mem db rel ts hl
    simp only [canonDB, List.all_eq_true] at h
    exact h _ hm t ht v hv

theorem CanonB_lookup (β : Bindings) (h : CanonB β) (x : String) (v : Value) (hx : β.lookup x = some v) : canonV v = true :=
  h (x, v) (lookup_mem β x v hx)

/-- new bindings made by the matcher only carry values of the tuple. -/
theorem matchArgs_pred (P : Value → Prop) : ∀ (bts : List BT) (t : Tuple) (nb0 nb : Bindings),
    (∀ v ∈ t, P v) → (∀ p ∈ nb0, P p.2) → matchArgs bts t nb0 = some nb → ∀ p ∈ nb, P p.2
  | [], _, nb0, nb, _, h0, h => by simp only [matchArgs, Option.some.injEq] at h; subst h; exact h0
  | _ :: _, [], _, _, _, _, h => by simp [matchArgs] at h
  | bt :: bts, v :: vs, nb0, nb, hg, h0, h => by
    have hg' : ∀ w ∈ vs, P w := fun w hw => hg w (List.mem_cons_of_mem _ hw)
    cases bt with
    | conc e =>
      simp only [matchArgs] at h
      split at h
      · exact matchArgs_pred P bts vs nb0 nb hg' h0 h
      · cases h
    | anon => simp only [matchArgs] at h; exact matchArgs_pred P bts vs nb0 nb hg' h0 h
    | unb x =>
      simp only [matchArgs] at h
      cases hn : nb0.lookup x with
      | some e =>
        simp only [hn] at h
        split at h
        · exact matchArgs_pred P bts vs nb0 nb hg' h0 h
        · cases h
      | none =>
        simp only [hn] at h
        refine matchArgs_pred P bts vs ((x, v) :: nb0) nb hg' ?_ h
        intro p hp
        rcases List.mem_cons.mp hp with rfl | hp
        · exact hg v List.mem_cons_self
        · exact h0 p hp

theorem unifyArgs_pred (P : Value → Prop) : ∀ (args : List Term) (vals : List Value) (b b' : Bindings),
    (∀ v ∈ vals, P v) → (∀ p ∈ b, P p.2) → unifyArgs args vals b = some b' → ∀ p ∈ b', P p.2
  | [], _, b, b', _, h0, h => by simp only [unifyArgs, Option.some.injEq] at h; subst h; exact h0
  | _ :: _, [], _, _, _, _, h => by simp [unifyArgs] at h
  | a :: as, v :: vs, b, b', hg, h0, h => by
    have hg' : ∀ w ∈ vs, P w := fun w hw => hg w (List.mem_cons_of_mem _ hw)
    cases a with
    | var x =>
      simp only [unifyArgs] at h
      cases hx : b.lookup x with
      | some e =>
        simp only [hx] at h
        split at h
        · exact unifyArgs_pred P as vs b b' hg' h0 h
        · cases h
      | none =>
        simp only [hx] at h
        refine unifyArgs_pred P as vs ((x, v) :: b) b' hg' ?_ h
        intro p hp
        rcases List.mem_cons.mp hp with rfl | hp
        · exact hg v List.mem_cons_self
        · exact h0 p hp
    | wild => simp only [unifyArgs] at h; exact unifyArgs_pred P as vs b b' hg' h0 h
    | other => simp [unifyArgs, termToValue] at h
    | int n =>
      simp only [unifyArgs] at h
      split at h
      · split at h
        · exact unifyArgs_pred P as vs b b' hg' h0 h
        · cases h
      · cases h
    | str n =>
      simp only [unifyArgs] at h
      split at h
      · split at h
        · exact unifyArgs_pred P as vs b b' hg' h0 h
        · cases h
      · cases h
    | bool n =>
      simp only [unifyArgs] at h
      split at h
      · split at h
        · exact unifyArgs_pred P as vs b b' hg' h0 h
        · cases h
      · cases h
    | flt n =>
      simp only [unifyArgs] at h
      split at h
      · split at h
        · exact unifyArgs_pred P as vs b b' hg' h0 h
        · cases h
      · cases h

theorem unifyHead_canon (t : Tuple) (head : Atom) (β0 : Bindings) (ht : CanonT t) (h : unifyHead t head = some β0) :
    CanonB β0 := by
  unfold unifyHead at h
  split at h
  · cases h
  · exact unifyArgs_pred (fun v => canonV v = true) head.args t [] β0 ht (fun p hp => by simp at hp) h

/-! ### soundness of the reference evaluator on positive bodies -/

def PosOnly (ls : List Lit) : Prop := ∀ l ∈ ls, ∃ a, l = Lit.pos a ∧ ∀ x ∈ a.args, x ≠ Term.other

theorem evalBody_pos_sound (W : String → List Tuple) (hW : ∀ rel, ∀ t ∈ W rel, CanonT t) :
    ∀ (ls : List Lit), PosOnly ls → ∀ (bs : List Bindings) (βs : Bindings), βs ∈ evalBody W W ls bs →
      ∃ β ∈ bs, Ext β βs ∧ (CanonB β → CanonB βs) ∧
        ∀ a, Lit.pos a ∈ ls → ∃ u ∈ W a.rel, argsMatch βs a.args u = true
  | [], _, bs, βs, h => by
    simp only [evalBody] at h
    exact ⟨βs, h, Ext.refl _, id, fun a ha => by simp at ha⟩
  | l :: ls, hp, bs, βs, h => by
    simp only [evalBody] at h
    have hp' : PosOnly ls := fun l' hl' => hp l' (List.mem_cons_of_mem _ hl')
    obtain ⟨β1, hβ1, e1, c1, s1⟩ := evalBody_pos_sound W hW ls hp' _ βs h
    obtain ⟨a, rfl, hsup⟩ := hp l List.mem_cons_self
    rw [List.mem_flatMap] at hβ1
    obtain ⟨β, hβ, hβ1⟩ := hβ1
    simp only [evalLit, List.mem_filterMap] at hβ1
    obtain ⟨u, hu, he⟩ := hβ1
    cases hm : matchTuple (substituteAtom a β) u with
    | none => simp [hm] at he
    | some nb =>
      simp only [hm, Option.map_some, Option.some.injEq] at he
      subst he
      have hcu := hW a.rel u hu
      obtain ⟨f1, _, m1⟩ := matchTuple_sound β a u nb hsup (CanonT_good u hcu) hm
      have hE : Ext β (nb ++ β) := Ext_append_fresh nb β f1
      refine ⟨β, hβ, Ext.trans hE e1, ?_, ?_⟩
      · intro hc
        apply c1
        intro p hp'
        rcases List.mem_append.mp hp' with h' | h'
        · unfold matchTuple at hm
          split at hm
          · cases hm
          · exact matchArgs_pred (fun v => canonV v = true) _ u [] nb hcu (fun p hp => by simp at hp) hm p h'
        · exact hc p h'
      · intro a' ha'
        rcases List.mem_cons.mp ha' with h' | h'
        · cases h'
          exact ⟨u, hu, argsMatch_ext _ _ e1 _ _ m1⟩
        · exact s1 a' h'

/-! ### completeness of the matcher towards a witness `βs` -/

theorem matchArgs_complete (βc βs : Bindings) (hc : Ext βc βs) (hcs : CanonB βs) :
    ∀ (args : List Term) (u : Tuple) (nb0 : Bindings), CanonT u → Ext nb0 βs →
      argsMatch βs args u = true →
      ∃ nb, matchArgs (args.map (resolveTerm βc)) u nb0 = some nb ∧ Ext nb βs
  | [], [], nb0, _, h0, _ => ⟨nb0, by simp [matchArgs], h0⟩
  | [], _ :: _, _, _, _, h => by simp [argsMatch] at h
  | _ :: _, [], _, _, _, h => by simp [argsMatch] at h
  | a :: as, v :: vs, nb0, hu, h0, h => by
    simp only [argsMatch, Bool.and_eq_true] at h
    obtain ⟨h1, h2⟩ := h
    have hu' : CanonT vs := fun w hw => hu w (List.mem_cons_of_mem _ hw)
    cases a with
    | var x =>
      simp only [argMatches] at h1
      cases hxs : βs.lookup x with
      | none => simp [hxs] at h1
      | some w =>
        simp only [hxs] at h1
        cases hx : βc.lookup x with
        | some e =>
          have : w = e := by have := hc x e hx; rw [hxs] at this; exact Option.some.inj this
          subst this
          obtain ⟨nb, m, e'⟩ := matchArgs_complete βc βs hc hcs as vs nb0 hu' h0 h2
          exact ⟨nb, by simp [List.map_cons, resolveTerm, hx, matchArgs, h1, m], e'⟩
        | none =>
          cases hn : nb0.lookup x with
          | some e =>
            have : w = e := by have := h0 x e hn; rw [hxs] at this; exact Option.some.inj this
            subst this
            obtain ⟨nb, m, e'⟩ := matchArgs_complete βc βs hc hcs as vs nb0 hu' h0 h2
            exact ⟨nb, by simp [List.map_cons, resolveTerm, hx, matchArgs, hn, h1, m], e'⟩
          | none =>
            have hwv : w = v := canon_eq w v (CanonB_lookup βs hcs x w hxs) (hu v List.mem_cons_self) h1
            subst hwv
            have h0' : Ext ((x, w) :: nb0) βs := by
              intro y z hy
              by_cases hyx : y = x
              · subst hyx; rw [lookup_cons_self] at hy; cases hy; exact hxs
              · rw [lookup_cons_ne x y w nb0 hyx] at hy; exact h0 y z hy
            obtain ⟨nb, m, e'⟩ := matchArgs_complete βc βs hc hcs as vs ((x, w) :: nb0) hu' h0' h2
            exact ⟨nb, by simp [List.map_cons, resolveTerm, hx, matchArgs, hn, m], e'⟩
    | wild =>
      obtain ⟨nb, m, e'⟩ := matchArgs_complete βc βs hc hcs as vs nb0 hu' h0 h2
      exact ⟨nb, by simp [List.map_cons, resolveTerm, matchArgs, m], e'⟩
    | other => simp [argMatches, termToValue] at h1
    | int n =>
      cases hcn : termToValue (Term.int n) with
      | none => simp [termToValue] at hcn
      | some e =>
        simp only [argMatches, hcn] at h1
        obtain ⟨nb, m, e'⟩ := matchArgs_complete βc βs hc hcs as vs nb0 hu' h0 h2
        exact ⟨nb, by simp only [List.map_cons, resolveTerm, hcn, matchArgs, h1, if_true, m], e'⟩
    | str n =>
      cases hcn : termToValue (Term.str n) with
      | none => simp [termToValue] at hcn
      | some e =>
        simp only [argMatches, hcn] at h1
        obtain ⟨nb, m, e'⟩ := matchArgs_complete βc βs hc hcs as vs nb0 hu' h0 h2
        exact ⟨nb, by simp only [List.map_cons, resolveTerm, hcn, matchArgs, h1, if_true, m], e'⟩
    | bool n =>
      cases hcn : termToValue (Term.bool n) with
      | none => simp [termToValue] at hcn
      | some e =>
        simp only [argMatches, hcn] at h1
        obtain ⟨nb, m, e'⟩ := matchArgs_complete βc βs hc hcs as vs nb0 hu' h0 h2
        exact ⟨nb, by simp only [List.map_cons, resolveTerm, hcn, matchArgs, h1, if_true, m], e'⟩
    | flt n =>
      cases hcn : termToValue (Term.flt n) with
      | none => simp [termToValue] at hcn
      | some e =>
        simp only [argMatches, hcn] at h1
        obtain ⟨nb, m, e'⟩ := matchArgs_complete βc βs hc hcs as vs nb0 hu' h0 h2
        exact ⟨nb, by simp only [List.map_cons, resolveTerm, hcn, matchArgs, h1, if_true, m], e'⟩

/-- the instance `u` of atom `a` under the witness `βs` is found by `find_matching_tuples` from any
    state whose bindings `βc` are a part of `βs`, and the extended bindings still are. -/
theorem findMatching_complete (βc βs : Bindings) (hc : Ext βc βs) (hcs : CanonB βs) (a : Atom) (db : DB)
    (u : Tuple) (hu : u ∈ db.get a.rel) (hcu : CanonT u) (hm : argsMatch βs a.args u = true) :
    ∃ nb, (u, nb) ∈ findMatching a.rel (substituteAtom a βc) db ∧ Ext (nb ++ βc) βs := by
  have hl := argsMatch_length βs a.args u hm
  obtain ⟨nb, m, e⟩ := matchArgs_complete βc βs hc hcs a.args u [] hcu (fun x v h => by simp at h) hm
  refine ⟨nb, ?_, ?_⟩
  · unfold findMatching
    rw [List.mem_filterMap]
    refine ⟨u, hu, ?_⟩
    unfold matchTuple substituteAtom
    simp [hl, m]
  · intro x v hx
    rw [lookup_append] at hx
    cases hn : nb.lookup x with
    | none => rw [hn] at hx; exact hc x v hx
    | some w => rw [hn] at hx; cases hx; exact e x _ hn

/-! ### the completeness invariant -/

def NodeKind.completeKind : NodeKind → Bool
  | .fact .edb => true
  | .rule _ _ => true
  | _ => false

structure CInv (b : Builder) : Prop where
  nodes : ∀ (i : Nat) (n : Node), b.nodes[i]? = some n → (∀ k ∈ n.children, k < i) ∧ n.kind.completeKind = true
  seen : ∀ key id, (key, id) ∈ b.seen → id < b.nodes.length

theorem CInv_empty : CInv {} := ⟨fun i n h => by simp at h, fun k id h => by simp at h⟩

theorem Pre_length {b b' : Builder} (h : Pre b b') : b.nodes.length ≤ b'.nodes.length := List.IsPrefix.length_le h

theorem CInv_insert (b : Builder) (n : Node) (hb : CInv b) (hk : n.kind.completeKind = true)
    (hc : ∀ k ∈ n.children, k < b.nodes.length) :
    CInv (b.insert n).2 ∧ Pre b (b.insert n).2 ∧ (b.insert n).1 < (b.insert n).2.nodes.length := by
  unfold Builder.insert
  split
  · rename_i id hid
    refine ⟨hb, Pre.refl b, ?_⟩
    split at hid
    · exact hb.seen _ id (lookup_mem _ _ _ hid)
    · cases hid
  · have hp : b.nodes <+: b.nodes ++ [n] := List.prefix_append _ _
    refine ⟨⟨?_, ?_⟩, hp, by simp⟩
    · intro i m hi
      simp only at hi
      by_cases hlt : i < b.nodes.length
      · rw [List.getElem?_append_left hlt] at hi
        exact hb.nodes i m hi
      · have : i = b.nodes.length := by
          rcases Nat.lt_or_ge b.nodes.length i with h | h
          · rw [List.getElem?_eq_none (by simp; omega)] at hi; cases hi
          · omega
        subst this
        simp at hi; subst hi
        exact ⟨hc, hk⟩
    · intro key id hkey
      simp only [List.mem_cons] at hkey
      simp only [List.length_append, List.length_cons, List.length_nil]
      rcases hkey with hkey | hkey
      · cases hkey; omega
      · have := hb.seen key id hkey; omega

theorem CInv_insertRule (b : Builder) (n : Node) (hb : CInv b) (hk : n.kind.completeKind = true)
    (hc : ∀ k ∈ n.children, k < b.nodes.length) :
    CInv (b.insertRule n).2 ∧ Pre b (b.insertRule n).2 ∧ (b.insertRule n).1 < (b.insertRule n).2.nodes.length := by
  unfold Builder.insertRule
  split
  · have hp : b.nodes <+: b.nodes ++ [n] := List.prefix_append _ _
    refine ⟨⟨?_, ?_⟩, hp, by simp [Builder.insertIncomplete]⟩
    · intro i m hi
      simp only [Builder.insertIncomplete] at hi
      by_cases hlt : i < b.nodes.length
      · rw [List.getElem?_append_left hlt] at hi
        exact hb.nodes i m hi
      · have : i = b.nodes.length := by
          rcases Nat.lt_or_ge b.nodes.length i with h | h
          · rw [List.getElem?_eq_none (by simp; omega)] at hi; cases hi
          · omega
        subst this
        simp at hi; subst hi
        exact ⟨hc, hk⟩
    · intro key id hkey
      simp only [Builder.insertIncomplete, List.length_append, List.length_cons, List.length_nil]
      have := hb.seen key id hkey; omega
  · exact CInv_insert b n hb hk hc

structure CHyp (ctx : Ctx) (M : DB) (rk : String → Nat) : Prop where
  der : ctx.derived = some M
  maxp : 1 ≤ ctx.maxProofs
  pos : ∀ r ∈ ctx.rules, PosOnly r.body
  ranked : ∀ r ∈ ctx.rules, ∀ a, Lit.pos a ∈ r.body → rk a.rel < rk r.head.rel
  sep : ∀ r ∈ ctx.rules, ctx.base.get r.head.rel = []
  derOnly : ∀ rel, ctx.isDerived rel = false → M.get rel = []
  canonBase : CanonDB ctx.base
  canonM : CanonDB M
  supp : ∀ rel, ∀ t ∈ M.get rel, ∃ r ∈ ctx.rulesFor rel, ∃ β0 βs, unifyHead t r.head = some β0 ∧
    βs ∈ evalBody (world ctx.base M) (world ctx.base M) r.body [β0]

/-- what a `build_node` of remaining depth `n` guarantees for relations of rank below `n`. -/
def BnC (ctx : Ctx) (M : DB) (rk : String → Nat) (n : Nat) (bn : BuildFn) : Prop :=
  ∀ rel t b vis, rk rel < n → (∀ p ∈ vis, rk rel < rk p.1) → CInv b →
    CInv (bn rel t b vis).2 ∧ Pre b (bn rel t b vis).2 ∧
    (∀ id ∈ (bn rel t b vis).1, id < (bn rel t b vis).2.nodes.length) ∧
    ((t ∈ ctx.base.get rel ∨ t ∈ M.get rel) → (bn rel t b vis).1 ≠ [])

def KidsLt (b : Builder) (st : State) : Prop := ∀ k ∈ st.2, k < b.nodes.length

theorem KidsLt_mono {b b' : Builder} (h : Pre b b') {st : State} (hs : KidsLt b st) : KidsLt b' st :=
  fun k hk => Nat.lt_of_lt_of_le (hs k hk) (Pre_length h)

theorem stepMatches_c (ctx : Ctx) (M : DB) (rk : String → Nat) (n : Nat) (bn : BuildFn) (hbn : BnC ctx M rk n bn)
    (rel : String) (hrk : rk rel < n) (vis : Visited) (hvis : ∀ p ∈ vis, rk rel < rk p.1) (β : Bindings) (kids : List Nat) :
    ∀ (ms : List (Tuple × Bindings)) (b : Builder), CInv b → KidsLt b (β, kids) →
      CInv (stepMatches bn rel vis β kids ms b).2 ∧ Pre b (stepMatches bn rel vis β kids ms b).2 ∧
      (∀ st ∈ (stepMatches bn rel vis β kids ms b).1, KidsLt (stepMatches bn rel vis β kids ms b).2 st) ∧
      (∀ u nb, (u, nb) ∈ ms → (u ∈ ctx.base.get rel ∨ u ∈ M.get rel) →
        ∃ st ∈ (stepMatches bn rel vis β kids ms b).1, st.1 = nb ++ β)
  | [], b, hb, _ => by
    simp only [stepMatches]
    exact ⟨hb, Pre.refl b, fun st h => by simp at h, fun u nb h => by simp at h⟩
  | (t, nb0) :: ms, b, hb, hk => by
    obtain ⟨c1, p1, l1, n1⟩ := hbn rel t b vis hrk hvis hb
    obtain ⟨c2, p2, l2, n2⟩ := stepMatches_c ctx M rk n bn hbn rel hrk vis hvis β kids ms _ c1 (KidsLt_mono p1 hk)
    simp only [stepMatches]
    cases hids : (bn rel t b vis).1 with
    | nil =>
      refine ⟨c2, Pre.trans p1 p2, l2, ?_⟩
      intro u nb hmem hu
      rcases List.mem_cons.mp hmem with h | h
      · cases h; exact absurd hids (n1 hu)
      · exact n2 u nb h hu
    | cons id rest =>
      refine ⟨c2, Pre.trans p1 p2, ?_, ?_⟩
      · intro st hst
        rcases List.mem_cons.mp hst with rfl | hst
        · intro k hk'
          rcases List.mem_append.mp hk' with h | h
          · exact KidsLt_mono (Pre.trans p1 p2) hk k h
          · rw [List.eq_of_mem_singleton h]
            exact Nat.lt_of_lt_of_le (l1 id (by rw [hids]; exact List.mem_cons_self)) (Pre_length p2)
        · exact l2 st hst
      · intro u nb hmem hu
        rcases List.mem_cons.mp hmem with h | h
        · cases h; exact ⟨_, List.mem_cons_self, rfl⟩
        · obtain ⟨st, hst, he⟩ := n2 u nb h hu
          exact ⟨st, List.mem_cons_of_mem _ hst, he⟩

theorem isDerived_mem (ctx : Ctx) (rel : String) (h : ctx.isDerived rel = true) : ∃ r ∈ ctx.rules, r.head.rel = rel := by
  simp only [Ctx.isDerived, List.any_eq_true, beq_iff_eq] at h
  exact h

/-- the witness instance is among the candidates of the positive atom. -/
theorem posMatches_complete (ctx : Ctx) (M : DB) (rk : String → Nat) (hy : CHyp ctx M rk) (en : EnumFn) (vis : Visited)
    (βc βs : Bindings) (hc : Ext βc βs) (hcs : CanonB βs) (a : Atom)
    (u : Tuple) (hu : u ∈ world ctx.base M a.rel) (hm : argsMatch βs a.args u = true) :
    ∃ nb, (u, nb) ∈ posMatches ctx en vis a βc ∧ Ext (nb ++ βc) βs ∧ (u ∈ ctx.base.get a.rel ∨ u ∈ M.get a.rel) := by
  unfold world at hu
  rcases List.mem_append.mp hu with hb | hmm
  · obtain ⟨nb, h1, h2⟩ := findMatching_complete βc βs hc hcs a ctx.base u hb (hy.canonBase a.rel u hb) hm
    refine ⟨nb, ?_, h2, Or.inl hb⟩
    unfold posMatches
    have hne : (findMatching a.rel (substituteAtom a βc) ctx.base).isEmpty = false := by
      cases hfm : findMatching a.rel (substituteAtom a βc) ctx.base with
      | nil => rw [hfm] at h1; simp at h1
      | cons _ _ => rfl
    simp only [hne, Bool.false_and, Bool.false_eq_true, if_false]
    exact h1
  · obtain ⟨nb, h1, h2⟩ := findMatching_complete βc βs hc hcs a M u hmm (hy.canonM a.rel u hmm) hm
    refine ⟨nb, ?_, h2, Or.inr hmm⟩
    have hd : ctx.isDerived a.rel = true := by
      cases hdd : ctx.isDerived a.rel with
      | true => rfl
      | false => rw [hy.derOnly a.rel hdd] at hmm; simp at hmm
    obtain ⟨r', hr', hrel⟩ := isDerived_mem ctx a.rel hd
    have hb0 : ctx.base.get a.rel = [] := by rw [← hrel]; exact hy.sep r' hr'
    unfold posMatches
    have he0 : findMatching a.rel (substituteAtom a βc) ctx.base = [] := by simp [findMatching, hb0]
    have hne : (findMatching a.rel (substituteAtom a βc) M).isEmpty = false := by
      cases hfm : findMatching a.rel (substituteAtom a βc) M with
      | nil => rw [hfm] at h1; simp at h1
      | cons _ _ => rfl
    simp only [he0, List.isEmpty_nil, hd, Bool.and_self, if_true, hy.der, hne, Bool.false_and, Bool.false_eq_true, if_false]
    exact h1

theorem stepState_c (ctx : Ctx) (M : DB) (rk : String → Nat) (hy : CHyp ctx M rk) (n : Nat) (bn : BuildFn)
    (hbn : BnC ctx M rk n bn) (en : EnumFn) (vis : Visited) (a : Atom) (hrk : rk a.rel < n)
    (hvis : ∀ p ∈ vis, rk a.rel < rk p.1) (st : State) (b : Builder) (hb : CInv b) (hk : KidsLt b st) :
    CInv (stepState ctx bn en vis (.pos a) st b).2 ∧ Pre b (stepState ctx bn en vis (.pos a) st b).2 ∧
    (∀ st' ∈ (stepState ctx bn en vis (.pos a) st b).1, KidsLt (stepState ctx bn en vis (.pos a) st b).2 st') ∧
    (∀ βs, CanonB βs → Ext st.1 βs → (∃ u ∈ world ctx.base M a.rel, argsMatch βs a.args u = true) →
      ∃ st' ∈ (stepState ctx bn en vis (.pos a) st b).1, Ext st'.1 βs) := by
  obtain ⟨β, kids⟩ := st
  simp only [stepState]
  obtain ⟨c1, p1, l1, n1⟩ := stepMatches_c ctx M rk n bn hbn a.rel hrk vis hvis β kids (posMatches ctx en vis a β) b hb hk
  refine ⟨c1, p1, l1, ?_⟩
  intro βs hcs hE ⟨u, hu, hm⟩
  obtain ⟨nb, m1, m2, m3⟩ := posMatches_complete ctx M rk hy en vis β βs hE hcs a u hu hm
  obtain ⟨st', hst', he⟩ := n1 u nb m1 m3
  exact ⟨st', hst', by rw [he]; exact m2⟩

theorem stepStates_c (ctx : Ctx) (M : DB) (rk : String → Nat) (hy : CHyp ctx M rk) (n : Nat) (bn : BuildFn)
    (hbn : BnC ctx M rk n bn) (en : EnumFn) (vis : Visited) (a : Atom) (hrk : rk a.rel < n)
    (hvis : ∀ p ∈ vis, rk a.rel < rk p.1) :
    ∀ (sts : List State) (b : Builder), CInv b → (∀ st ∈ sts, KidsLt b st) →
      CInv (stepStates ctx bn en vis (.pos a) sts b).2 ∧ Pre b (stepStates ctx bn en vis (.pos a) sts b).2 ∧
      (∀ st' ∈ (stepStates ctx bn en vis (.pos a) sts b).1, KidsLt (stepStates ctx bn en vis (.pos a) sts b).2 st') ∧
      (∀ βs, CanonB βs → (∃ st ∈ sts, Ext st.1 βs) → (∃ u ∈ world ctx.base M a.rel, argsMatch βs a.args u = true) →
        ∃ st' ∈ (stepStates ctx bn en vis (.pos a) sts b).1, Ext st'.1 βs)
  | [], b, hb, _ => by
    simp only [stepStates]
    exact ⟨hb, Pre.refl b, fun st h => by simp at h, fun βs _ ⟨st, h, _⟩ _ => by simp at h⟩
  | st :: sts, b, hb, hk => by
    obtain ⟨c1, p1, l1, n1⟩ := stepState_c ctx M rk hy n bn hbn en vis a hrk hvis st b hb (hk st List.mem_cons_self)
    obtain ⟨c2, p2, l2, n2⟩ := stepStates_c ctx M rk hy n bn hbn en vis a hrk hvis sts _ c1
      (fun s hs => KidsLt_mono p1 (hk s (List.mem_cons_of_mem _ hs)))
    simp only [stepStates]
    refine ⟨c2, Pre.trans p1 p2, ?_, ?_⟩
    · intro st' hst'
      rcases List.mem_append.mp hst' with h | h
      · exact KidsLt_mono p2 (l1 st' h)
      · exact l2 st' h
    · intro βs hcs ⟨s0, hs0, hE⟩ hw
      rcases List.mem_cons.mp hs0 with rfl | hs0
      · obtain ⟨st', h1, h2⟩ := n1 βs hcs hE hw
        exact ⟨st', List.mem_append_left _ h1, h2⟩
      · obtain ⟨st', h1, h2⟩ := n2 βs hcs ⟨s0, hs0, hE⟩ hw
        exact ⟨st', List.mem_append_right _ h1, h2⟩

theorem proveBody_c (ctx : Ctx) (M : DB) (rk : String → Nat) (hy : CHyp ctx M rk) (n : Nat) (bn : BuildFn)
    (hbn : BnC ctx M rk n bn) (en : EnumFn) (vis : Visited) :
    ∀ (ls : List Lit), PosOnly ls → (∀ a, Lit.pos a ∈ ls → rk a.rel < n ∧ ∀ p ∈ vis, rk a.rel < rk p.1) →
      ∀ (sts : List State) (b : Builder), CInv b → (∀ st ∈ sts, KidsLt b st) →
      CInv (proveBody ctx bn en vis ls sts b).2 ∧ Pre b (proveBody ctx bn en vis ls sts b).2 ∧
      (∀ sts', (proveBody ctx bn en vis ls sts b).1 = some sts' →
        ∀ st' ∈ sts', KidsLt (proveBody ctx bn en vis ls sts b).2 st') ∧
      (∀ βs, CanonB βs → (∃ st ∈ sts, Ext st.1 βs) →
        (∀ a, Lit.pos a ∈ ls → ∃ u ∈ world ctx.base M a.rel, argsMatch βs a.args u = true) →
        ∃ sts', (proveBody ctx bn en vis ls sts b).1 = some sts' ∧ ∃ st' ∈ sts', Ext st'.1 βs)
  | [], _, _, sts, b, hb, hk => by
    simp only [proveBody]
    refine ⟨hb, Pre.refl b, ?_, ?_⟩
    · intro sts' he st' hst'
      simp only [Option.some.injEq] at he; subst he; exact hk st' hst'
    · intro βs _ hex _
      exact ⟨sts, rfl, hex⟩
  | l :: ls, hp, hr, sts, b, hb, hk => by
    obtain ⟨a, rfl, _⟩ := hp l List.mem_cons_self
    have hp' : PosOnly ls := fun l' hl' => hp l' (List.mem_cons_of_mem _ hl')
    have hr' : ∀ a', Lit.pos a' ∈ ls → rk a'.rel < n ∧ ∀ p ∈ vis, rk a'.rel < rk p.1 :=
      fun a' ha' => hr a' (List.mem_cons_of_mem _ ha')
    obtain ⟨hra, hva⟩ := hr a List.mem_cons_self
    obtain ⟨c1, p1, l1, n1⟩ := stepStates_c ctx M rk hy n bn hbn en vis a hra hva sts b hb hk
    simp only [proveBody]
    split
    · rename_i hemp
      refine ⟨c1, p1, (fun sts' he => nomatch he), ?_⟩
      intro βs hcs hex hw
      obtain ⟨st', h1, _⟩ := n1 βs hcs hex (hw a List.mem_cons_self)
      have : (stepStates ctx bn en vis (.pos a) sts b).1 = [] := by simpa using hemp
      rw [this] at h1; simp at h1
    · obtain ⟨c2, p2, l2, n2⟩ := proveBody_c ctx M rk hy n bn hbn en vis ls hp' hr' _ _ c1 l1
      refine ⟨c2, Pre.trans p1 p2, l2, ?_⟩
      intro βs hcs hex hw
      obtain ⟨st', h1, h2⟩ := n1 βs hcs hex (hw a List.mem_cons_self)
      exact n2 βs hcs ⟨st', h1, h2⟩ (fun a' ha' => hw a' (List.mem_cons_of_mem _ ha'))

theorem addRuleNodes_c (ctx : Ctx) (rel : String) (values : Tuple) (idx : Nat) :
    ∀ (sts : List State) (res : List Nat) (b : Builder), CInv b → (∀ st ∈ sts, KidsLt b st) →
      (∀ id ∈ res, id < b.nodes.length) →
      CInv (addRuleNodes ctx rel values idx sts res b).2 ∧ Pre b (addRuleNodes ctx rel values idx sts res b).2 ∧
      (∀ id ∈ (addRuleNodes ctx rel values idx sts res b).1, id < (addRuleNodes ctx rel values idx sts res b).2.nodes.length) ∧
      (res ≠ [] → (addRuleNodes ctx rel values idx sts res b).1 ≠ []) ∧
      (sts ≠ [] → res.length < ctx.maxProofs → (addRuleNodes ctx rel values idx sts res b).1 ≠ [])
  | [], res, b, hb, _, hres => by
    simp only [addRuleNodes]
    exact ⟨hb, Pre.refl b, hres, id, fun h => absurd rfl h⟩
  | (fb, kids) :: sts, res, b, hb, hk, hres => by
    simp only [addRuleNodes]
    split
    · rename_i hge
      exact ⟨hb, Pre.refl b, hres, id, fun _ hlt => by omega⟩
    · obtain ⟨c1, p1, l1⟩ := CInv_insertRule b
        { kind := .rule idx (fb.filter (fun p => !isPlaceholderName p.1)), pred := rel, args := values, children := kids }
        hb rfl (hk (fb, kids) List.mem_cons_self)
      obtain ⟨c2, p2, l2, n2, _⟩ := addRuleNodes_c ctx rel values idx sts
        (res ++ [(b.insertRule { kind := .rule idx (fb.filter (fun p => !isPlaceholderName p.1)), pred := rel, args := values, children := kids }).1])
        (b.insertRule { kind := .rule idx (fb.filter (fun p => !isPlaceholderName p.1)), pred := rel, args := values, children := kids }).2
        c1 (fun st h => KidsLt_mono p1 (hk st (List.mem_cons_of_mem _ h)))
        (fun id hid => by
          rcases List.mem_append.mp hid with h | h
          · exact Nat.lt_of_lt_of_le (hres id h) (Pre_length p1)
          · rw [List.eq_of_mem_singleton h]; exact l1)
      refine ⟨c2, Pre.trans p1 p2, l2, fun _ => n2 (by simp), fun _ _ => n2 (by simp)⟩

theorem tryRules_c (ctx : Ctx) (M : DB) (rk : String → Nat) (hy : CHyp ctx M rk) (n : Nat) (bn : BuildFn)
    (hbn : BnC ctx M rk n bn) (en : EnumFn) (rel : String) (hrk : rk rel ≤ n) (t : Tuple)
    (vis : Visited) (hvis : ∀ p ∈ vis, rk rel ≤ rk p.1) :
    ∀ (rs : List Rule), (∀ r ∈ rs, r ∈ ctx.rules ∧ r.head.rel = rel) →
      ∀ (res : List Nat) (b : Builder), CInv b → (∀ id ∈ res, id < b.nodes.length) →
      CInv (tryRules ctx (fun v => proveBody ctx bn en v) rel t vis rs res b).2 ∧
      Pre b (tryRules ctx (fun v => proveBody ctx bn en v) rel t vis rs res b).2 ∧
      (∀ id ∈ (tryRules ctx (fun v => proveBody ctx bn en v) rel t vis rs res b).1,
        id < (tryRules ctx (fun v => proveBody ctx bn en v) rel t vis rs res b).2.nodes.length) ∧
      (res ≠ [] → (tryRules ctx (fun v => proveBody ctx bn en v) rel t vis rs res b).1 ≠ []) ∧
      (CanonT t → (∃ r ∈ rs, ∃ β0 βs, unifyHead t r.head = some β0 ∧
          βs ∈ evalBody (world ctx.base M) (world ctx.base M) r.body [β0]) →
        (tryRules ctx (fun v => proveBody ctx bn en v) rel t vis rs res b).1 ≠ [])
  | [], _, res, b, hb, hres => by
    simp only [tryRules]
    exact ⟨hb, Pre.refl b, hres, id, fun _ ⟨r, hr, _⟩ => by simp at hr⟩
  | r :: rs, hrs, res, b, hb, hres => by
    have hrs' : ∀ r' ∈ rs, r' ∈ ctx.rules ∧ r'.head.rel = rel := fun r' h => hrs r' (List.mem_cons_of_mem _ h)
    obtain ⟨hrm, hrel⟩ := hrs r List.mem_cons_self
    have hpos := hy.pos r hrm
    have hatoms : ∀ a, Lit.pos a ∈ r.body → rk a.rel < n ∧ ∀ p ∈ vis, rk a.rel < rk p.1 := by
      intro a ha
      have := hy.ranked r hrm a ha
      rw [hrel] at this
      exact ⟨by omega, fun p hp => by have := hvis p hp; omega⟩
    simp only [tryRules]
    split
    · rename_i hge
      have hne : res ≠ [] := by
        intro he; subst he
        have := hy.maxp
        simp at hge; omega
      exact ⟨hb, Pre.refl b, hres, id, fun _ _ => hne⟩
    · rename_i hlt
      cases hu : unifyHead t r.head with
      | none =>
        obtain ⟨c1, p1, l1, n1, k1⟩ := tryRules_c ctx M rk hy n bn hbn en rel hrk t vis hvis rs hrs' res b hb hres
        refine ⟨c1, p1, l1, n1, ?_⟩
        rintro ht ⟨r', hr', β0, βs, h1, h2⟩
        rcases List.mem_cons.mp hr' with rfl | hr'
        · rw [hu] at h1; cases h1
        · exact k1 ht ⟨r', hr', β0, βs, h1, h2⟩
      | some bd =>
        simp only
        obtain ⟨c1, p1, l1, n1⟩ := proveBody_c ctx M rk hy n bn hbn en vis r.body hpos hatoms [(bd, [])] b hb
          (fun st hst => by rw [List.eq_of_mem_singleton hst]; intro k hk; simp at hk)
        cases hp : (proveBody ctx bn en vis r.body [(bd, [])] b).1 with
        | none =>
          simp only
          obtain ⟨c2, p2, l2, n2, k2⟩ := tryRules_c ctx M rk hy n bn hbn en rel hrk t vis hvis rs hrs' res _ c1
            (fun id hid => Nat.lt_of_lt_of_le (hres id hid) (Pre_length p1))
          refine ⟨c2, Pre.trans p1 p2, l2, n2, ?_⟩
          rintro ht ⟨r', hr', β0, βs, h1, h2⟩
          rcases List.mem_cons.mp hr' with rfl | hr'
          · rw [hu] at h1
            cases h1
            have hW : ∀ rel', ∀ u ∈ world ctx.base M rel', CanonT u := by
              intro rel' u hu'
              rcases List.mem_append.mp hu' with h | h
              · exact hy.canonBase rel' u h
              · exact hy.canonM rel' u h
            obtain ⟨β, hβ, e1, cc, s1⟩ := evalBody_pos_sound _ hW r'.body hpos [bd] βs h2
            rw [List.eq_of_mem_singleton hβ] at e1 cc
            obtain ⟨sts', hs', _⟩ := n1 βs (cc (unifyHead_canon t r'.head bd ht hu)) ⟨(bd, []), List.mem_cons_self, e1⟩ s1
            rw [hp] at hs'; cases hs'
          · exact k2 ht ⟨r', hr', β0, βs, h1, h2⟩
        | some sts =>
          simp only
          obtain ⟨c2, p2, l2, n2, m2⟩ := addRuleNodes_c ctx rel t (ruleIndex ctx.rules r) sts res _ c1 (l1 sts hp)
            (fun id hid => Nat.lt_of_lt_of_le (hres id hid) (Pre_length p1))
          obtain ⟨c3, p3, l3, n3, k3⟩ := tryRules_c ctx M rk hy n bn hbn en rel hrk t vis hvis rs hrs' _ _ c2 l2
          refine ⟨c3, Pre.trans p1 (Pre.trans p2 p3), l3, fun h => n3 (n2 h), ?_⟩
          rintro ht ⟨r', hr', β0, βs, h1, h2⟩
          rcases List.mem_cons.mp hr' with rfl | hr'
          · rw [hu] at h1
            cases h1
            have hW : ∀ rel', ∀ u ∈ world ctx.base M rel', CanonT u := by
              intro rel' u hu'
              rcases List.mem_append.mp hu' with h | h
              · exact hy.canonBase rel' u h
              · exact hy.canonM rel' u h
            obtain ⟨β, hβ, e1, cc, s1⟩ := evalBody_pos_sound _ hW r'.body hpos [bd] βs h2
            rw [List.eq_of_mem_singleton hβ] at e1 cc
            obtain ⟨sts', hs', st', hst', _⟩ := n1 βs (cc (unifyHead_canon t r'.head bd ht hu)) ⟨(bd, []), List.mem_cons_self, e1⟩ s1
            rw [hp] at hs'
            cases hs'
            have hne : sts ≠ [] := by intro he; subst he; simp at hst'
            exact n3 (m2 hne (by simp at hlt; omega))
          · exact k3 ht ⟨r', hr', β0, βs, h1, h2⟩

theorem factEdb_c (rel : String) (t : Tuple) (b : Builder) (hb : CInv b) :
    CInv (b.insert (factNode rel t .edb)).2 ∧ Pre b (b.insert (factNode rel t .edb)).2 ∧
      (b.insert (factNode rel t .edb)).1 < (b.insert (factNode rel t .edb)).2.nodes.length :=
  CInv_insert b (factNode rel t .edb) hb rfl (fun k hk => by simp [factNode] at hk)

theorem contains_of_mem (t : Tuple) (ts : List Tuple) (h : t ∈ ts) : ts.contains t = true := by
  simp [h]

/-- `build_node` below the depth limit, for relations of rank ≤ n. -/
theorem buildNodeAt_c (ctx : Ctx) (M : DB) (rk : String → Nat) (hy : CHyp ctx M rk) (n : Nat) (bn : BuildFn)
    (hbn : BnC ctx M rk n bn) (en : EnumFn) :
    BnC ctx M rk (n + 1) (buildNodeAt ctx (fun v => proveBody ctx bn en v)) := by
  intro rel t b vis hrk hvis hb
  simp only [buildNodeAt]
  cases hge : b.getExisting rel t with
  | some id =>
    simp only
    refine ⟨hb, Pre.refl b, ?_, fun _ => by simp⟩
    intro id' hid'
    rw [List.eq_of_mem_singleton hid']
    exact hb.seen (rel, t) id (lookup_mem _ _ _ hge)
  | none =>
    simp only
    split
    · rename_i hc
      have hm : (rel, t) ∈ vis := by simpa using hc
      have := hvis _ hm
      simp only at this
      omega
    · simp only [hy.der]
      split
      · rename_i hnd
        have hnd' : ctx.isDerived rel = false := by simpa using hnd
        split
        · obtain ⟨c1, p1, l1⟩ := factEdb_c rel t b hb
          refine ⟨c1, p1, ?_, fun _ => by simp⟩
          intro id hid
          rw [List.eq_of_mem_singleton hid]; exact l1
        · rename_i hin
          refine ⟨hb, Pre.refl b, fun id h => by simp at h, ?_⟩
          intro hmem
          exfalso
          apply hin
          simp only [Bool.or_eq_true, tupleExistsIn]
          rcases hmem with h | h
          · exact Or.inl (contains_of_mem t _ h)
          · exact Or.inr (contains_of_mem t _ h)
      · rename_i hd
        have hd' : ctx.isDerived rel = true := by simpa using hd
        obtain ⟨r', hr', hrel⟩ := isDerived_mem ctx rel hd'
        have hb0 : ctx.base.get rel = [] := by rw [← hrel]; exact hy.sep r' hr'
        have hinb : tupleExistsIn rel t ctx.base = false := by simp [tupleExistsIn, hb0]
        unfold derivedStep
        simp only [hinb, baseFactStep, Bool.false_and, Bool.false_eq_true, if_false]
        obtain ⟨c1, p1, l1, _, k1⟩ := tryRules_c ctx M rk hy n bn hbn en rel (by omega) t ((rel, t) :: vis)
          (fun p hp => by
            rcases List.mem_cons.mp hp with rfl | hp
            · exact Nat.le_refl _
            · exact Nat.le_of_lt (hvis p hp))
          (ctx.rulesFor rel) (rulesFor_mem ctx rel) [] b hb (fun id h => by simp at h)
        have hcomp : t ∈ M.get rel →
            (tryRules ctx (fun v => proveBody ctx bn en v) rel t ((rel, t) :: vis) (ctx.rulesFor rel) [] b).1 ≠ [] := by
          intro hm
          obtain ⟨r, hr, β0, βs, h1, h2⟩ := hy.supp rel t hm
          exact k1 (hy.canonM rel t hm) ⟨r, hr, β0, βs, h1, h2⟩
        unfold fallbackStep
        split
        · rename_i hf
          simp only [Bool.and_eq_true, List.isEmpty_iff] at hf
          exfalso
          have hm : t ∈ M.get rel := by
            have := hf.2
            simpa [tupleExistsIn] using this
          exact hcomp hm hf.1
        · refine ⟨c1, p1, l1, ?_⟩
          intro hmem
          rcases hmem with h | h
          · rw [hb0] at h; simp at h
          · exact hcomp h

/-- the depth tower: level `n` handles every relation of rank below `n` completely. -/
theorem level_c (ctx : Ctx) (M : DB) (rk : String → Nat) (hy : CHyp ctx M rk) :
    ∀ n, BnC ctx M rk n (level ctx n).bn
  | 0 => fun rel t b vis hrk _ _ => by omega
  | n + 1 => by
    simp only [level]
    exact buildNodeAt_c ctx M rk hy n _ (level_c ctx M rk hy n) _

/-! ### the unfolded tree is complete -/

theorem completeList_map (ns : List Node) (fuel : Nat)
    (ih : ∀ k, k < fuel → (∃ n, ns[k]? = some n) → (unfold ns fuel k).complete = true) :
    ∀ (ks : List Nat), (∀ k ∈ ks, k < fuel ∧ ∃ n, ns[k]? = some n) → Tree.completeList (ks.map (unfold ns fuel)) = true
  | [], _ => rfl
  | k :: ks, h => by
    simp only [List.map_cons, Tree.completeList, Bool.and_eq_true]
    exact ⟨ih k (h k List.mem_cons_self).1 (h k List.mem_cons_self).2,
      completeList_map ns fuel ih ks (fun k' hk' => h k' (List.mem_cons_of_mem _ hk'))⟩

theorem complete_unfold (b : Builder) (hb : CInv b) :
    ∀ (fuel id : Nat), id < fuel → (∃ n, b.nodes[id]? = some n) → (unfold b.nodes fuel id).complete = true
  | 0, id, hlt, _ => by omega
  | fuel + 1, id, hlt, ⟨n, hn⟩ => by
    rw [unfold_succ b.nodes fuel id n hn]
    obtain ⟨hch, hk⟩ := hb.nodes id n hn
    have hkids : Tree.completeList (n.children.map (unfold b.nodes fuel)) = true := by
      apply completeList_map b.nodes fuel (fun k hk hex => complete_unfold b hb fuel k hk hex)
      intro k hk'
      have hlt' := hch k hk'
      refine ⟨by omega, ?_⟩
      have hid : id < b.nodes.length := by
        rcases Nat.lt_or_ge id b.nodes.length with h | h
        · exact h
        · rw [List.getElem?_eq_none h] at hn; cases hn
      exact ⟨b.nodes[k]'(by omega), List.getElem?_eq_getElem (by omega)⟩
    cases hkind : n.kind with
    | fact s =>
      cases s with
      | edb => simp only [Tree.complete]; exact hkids
      | derived => simp [hkind, NodeKind.completeKind] at hk
    | trunc l => simp [hkind, NodeKind.completeKind] at hk
    | neg pat => simp [hkind, NodeKind.completeKind] at hk
    | rule idx β => simp only [Tree.complete]; exact hkids

/-! ### from the decidable fragment to the hypotheses, and the final statement -/

theorem CHyp_of_fragment (prog : Program) (base M : DB) (rk : List (String × Nat)) (depth : Nat)
    (hf : c22Fragment prog base M rk = true) (hs : supportedModel prog base M = true) :
    CHyp { rules := prog, base := base, derived := some M, maxDepth := depth } M (rankOf rk) := by
  simp only [c22Fragment, Bool.and_eq_true, List.all_eq_true] at hf
  obtain ⟨⟨⟨hrules, hdo⟩, hcb⟩, hcm⟩ := hf
  refine ⟨rfl, (by show 1 ≤ 5; omega), ?_, ?_, ?_, ?_, CanonDB_of base hcb, CanonDB_of M hcm, ?_⟩
  · intro r hr l hl
    have h := hrules r hr
    have hl' := h.2 l hl
    cases l with
    | pos a => exact ⟨a, rfl, supported_pos r h.1.1 a hl⟩
    | neg a => simp at hl'
    | cmp _ _ _ => simp at hl'
    | other => simp at hl'
  · intro r hr a ha
    have := (hrules r hr).2 _ ha
    simpa using this
  · intro r hr
    have := (hrules r hr).1.2
    simpa using this
  · intro rel hrel
    exact derOnly_of prog M hdo rel (by simpa [Ctx.isDerived] using hrel)
  · intro rel t ht
    unfold DB.get at ht
    cases hl : M.lookup rel with
    | none => simp [hl] at ht
    | some ts =>
      simp only [hl] at ht
      have hm := lookup_mem M rel ts hl
      simp only [supportedModel, List.all_eq_true] at hs
      have := hs _ hm t ht
      rw [List.any_eq_true] at this
      obtain ⟨r, hr, hfire⟩ := this
      cases hu : unifyHead t r.head with
      | none => simp [hu] at hfire
      | some β0 =>
        simp only [hu, Bool.not_eq_true', List.isEmpty_eq_false_iff_exists_mem] at hfire
        obtain ⟨βs, hβs⟩ := hfire
        exact ⟨r, hr, β0, βs, hu, hβs⟩

/-- **build_complete**: positive non-recursive program, canonical data, `M` a supported model, the depth
    limit above the rank of the relation: every stored or derived tuple gets a complete tree. -/
theorem whyTree_complete (prog : Program) (base M : DB) (rk : List (String × Nat)) (rel : String) (t : Tuple)
    (depth : Nat) (hf : c22Fragment prog base M rk = true) (hs : supportedModel prog base M = true)
    (hmem : t ∈ M.get rel ∨ t ∈ base.get rel) (hdepth : rankOf rk rel < depth)
    (harity : truncateToArity { rules := prog, base := base, derived := some M, maxDepth := depth } rel t = t) :
    (whyTree { rules := prog, base := base, derived := some M, maxDepth := depth } rel t).complete = true := by
  have hy := CHyp_of_fragment prog base M rk depth hf hs
  obtain ⟨c1, _, l1, n1⟩ := level_c _ M (rankOf rk) hy depth rel t {} [] hdepth (fun p hp => by simp at hp) CInv_empty
  have hne := n1 (by rcases hmem with h | h; exact Or.inr h; exact Or.inl h)
  unfold whyTree buildProofTree
  simp only [harity]
  split
  · rename_i id b heq
    split at heq
    · rename_i id' rest hids
      simp only [Option.some.injEq, Prod.mk.injEq] at heq
      obtain ⟨rfl, rfl⟩ := heq
      have hlt := l1 id' (by rw [hids]; exact List.mem_cons_self)
      exact complete_unfold _ c1 (id' + 1) id' (by omega) ⟨_, List.getElem?_eq_getElem hlt⟩
    · cases heq
  · rename_i heq
    split at heq
    · cases heq
    · rename_i hids
      exact absurd hids hne

end ILV.Prov
