/-
  Lemmas for C23_partial: when every positive body atom is ground after head unification
  (`Rule.noChoice`) and all body atoms are over stored relations (`Rule.baseOnly`), the greedy trace of
  `explain_why_not` is exact.
-/
import ILV.Lemmas.ProvMatch
namespace ILV.Prov
open ILV

def NoUnb (bts : List BT) : Prop := ∀ bt ∈ bts, ∀ x, bt ≠ .unb x

theorem matchArgs_noUnb : ∀ (bts : List BT) (t : Tuple) (nb nb' : Bindings),
    NoUnb bts → matchArgs bts t nb = some nb' → nb' = nb
  | [], _, nb, nb', _, h => by simp [matchArgs] at h; exact h.symm
  | _ :: _, [], nb, nb', _, h => by simp [matchArgs] at h
  | bt :: bts, v :: vs, nb, nb', hn, h => by
    have hn' : NoUnb bts := fun b hb => hn b (List.mem_cons_of_mem _ hb)
    cases bt with
    | conc e =>
      simp only [matchArgs] at h
      split at h
      · exact matchArgs_noUnb bts vs nb nb' hn' h
      · cases h
    | unb x => exact absurd rfl (hn (.unb x) (List.mem_cons_self) x)
    | anon =>
      simp only [matchArgs] at h
      exact matchArgs_noUnb bts vs nb nb' hn' h

theorem matchTuple_noUnb (bts : List BT) (t : Tuple) (nb : Bindings) (hn : NoUnb bts)
    (h : matchTuple bts t = some nb) : nb = [] := by
  unfold matchTuple at h
  split at h
  · cases h
  · exact matchArgs_noUnb bts t [] nb hn h

/-- all variables of the atom are bound by `β`. -/
def AtomClosed (β : Bindings) (a : Atom) : Prop := ∀ x, Term.var x ∈ a.args → (β.lookup x).isSome = true

theorem substituteAtom_noUnb (β : Bindings) (a : Atom) (h : AtomClosed β a) : NoUnb (substituteAtom a β) := by
  intro bt hbt x hx
  unfold substituteAtom at hbt
  rw [List.mem_map] at hbt
  obtain ⟨t, ht, rfl⟩ := hbt
  cases t with
  | var y =>
    have := h y ht
    simp only [resolveTerm] at hx
    cases hy : β.lookup y with
    | none => simp [hy] at this
    | some v => simp [hy] at hx
  | wild => simp [resolveTerm] at hx
  | int n => simp [resolveTerm, termToValue] at hx
  | str s => simp [resolveTerm, termToValue] at hx
  | bool b => simp [resolveTerm, termToValue] at hx
  | flt b => simp [resolveTerm, termToValue] at hx
  | other => simp [resolveTerm, termToValue] at hx

/-- what `unify_head`'s loop does to the bindings. -/
theorem unifyArgs_spec : ∀ (args : List Term) (vals : List Value) (b b' : Bindings),
    unifyArgs args vals b = some b' →
      (∀ x v, b.lookup x = some v → b'.lookup x = some v) ∧
      (∀ x, Term.var x ∈ args → (b'.lookup x).isSome = true) ∧
      (∀ k, k ∈ b'.map Prod.fst → k ∈ b.map Prod.fst ∨ Term.var k ∈ args)
  | [], _, b, b', h => by
    simp only [unifyArgs, Option.some.injEq] at h; subst h
    exact ⟨fun _ _ h => h, fun _ h => by simp at h, fun _ h => Or.inl h⟩
  | _ :: _, [], b, b', h => by simp [unifyArgs] at h
  | t :: ts, v :: vs, b, b', h => by
    cases t with
    | var y =>
      simp only [unifyArgs] at h
      cases hy : b.lookup y with
      | some e =>
        simp only [hy] at h
        split at h
        · obtain ⟨h1, h2, h3⟩ := unifyArgs_spec ts vs b b' h
          refine ⟨h1, ?_, ?_⟩
          · intro x hx
            rcases List.mem_cons.mp hx with hx | hx
            · cases hx; rw [h1 y e hy]; rfl
            · exact h2 x hx
          · intro k hk
            rcases h3 k hk with hk | hk
            · exact Or.inl hk
            · exact Or.inr (List.mem_cons_of_mem _ hk)
        · cases h
      | none =>
        simp only [hy] at h
        obtain ⟨h1, h2, h3⟩ := unifyArgs_spec ts vs ((y, v) :: b) b' h
        refine ⟨?_, ?_, ?_⟩
        · intro x w hx
          apply h1
          simp only [List.lookup]
          by_cases hxy : x = y
          · subst hxy; rw [hy] at hx; cases hx
          · have : (x == y) = false := by simpa using hxy
            simp [this, hx]
        · intro x hx
          rcases List.mem_cons.mp hx with hx | hx
          · cases hx
            rw [h1 y v (by simp [List.lookup])]; rfl
          · exact h2 x hx
        · intro k hk
          rcases h3 k hk with hk | hk
          · simp only [List.map_cons, List.mem_cons] at hk
            rcases hk with hk | hk
            · subst hk; exact Or.inr List.mem_cons_self
            · exact Or.inl hk
          · exact Or.inr (List.mem_cons_of_mem _ hk)
    | wild =>
      simp only [unifyArgs] at h
      obtain ⟨h1, h2, h3⟩ := unifyArgs_spec ts vs b b' h
      refine ⟨h1, ?_, ?_⟩
      · intro x hx
        rcases List.mem_cons.mp hx with hx | hx
        · cases hx
        · exact h2 x hx
      · intro k hk
        rcases h3 k hk with hk | hk
        · exact Or.inl hk
        · exact Or.inr (List.mem_cons_of_mem _ hk)
    | int n =>
      simp only [unifyArgs] at h
      split at h
      · split at h
        · obtain ⟨h1, h2, h3⟩ := unifyArgs_spec ts vs b b' h
          exact ⟨h1, fun x hx => by rcases List.mem_cons.mp hx with hx | hx; cases hx; exact h2 x hx,
            fun k hk => by rcases h3 k hk with hk | hk; exact Or.inl hk; exact Or.inr (List.mem_cons_of_mem _ hk)⟩
        · cases h
      · cases h
    | str s =>
      simp only [unifyArgs] at h
      split at h
      · split at h
        · obtain ⟨h1, h2, h3⟩ := unifyArgs_spec ts vs b b' h
          exact ⟨h1, fun x hx => by rcases List.mem_cons.mp hx with hx | hx; cases hx; exact h2 x hx,
            fun k hk => by rcases h3 k hk with hk | hk; exact Or.inl hk; exact Or.inr (List.mem_cons_of_mem _ hk)⟩
        · cases h
      · cases h
    | bool c =>
      simp only [unifyArgs] at h
      split at h
      · split at h
        · obtain ⟨h1, h2, h3⟩ := unifyArgs_spec ts vs b b' h
          exact ⟨h1, fun x hx => by rcases List.mem_cons.mp hx with hx | hx; cases hx; exact h2 x hx,
            fun k hk => by rcases h3 k hk with hk | hk; exact Or.inl hk; exact Or.inr (List.mem_cons_of_mem _ hk)⟩
        · cases h
      · cases h
    | flt c =>
      simp only [unifyArgs] at h
      split at h
      · split at h
        · obtain ⟨h1, h2, h3⟩ := unifyArgs_spec ts vs b b' h
          exact ⟨h1, fun x hx => by rcases List.mem_cons.mp hx with hx | hx; cases hx; exact h2 x hx,
            fun k hk => by rcases h3 k hk with hk | hk; exact Or.inl hk; exact Or.inr (List.mem_cons_of_mem _ hk)⟩
        · cases h
      · cases h
    | other =>
      simp [unifyArgs, termToValue] at h

/-! ### exactness of the greedy trace under `noChoice` (derived data = the `M` of the world) -/

/-- the literal is one the fixed-bindings argument applies to. -/
def LitGood (β : Bindings) : Lit → Prop
  | .pos a => AtomClosed β a
  | .neg _ => True
  | .cmp _ _ _ => True
  | .other => False

/-- does the literal hold under the fixed bindings `β`, judged on the world `W`? -/
def litPass (W : String → List Tuple) (β : Bindings) : Lit → Bool
  | .pos a => (W a.rel).any (fun t => (matchTuple (substituteAtom a β) t).isSome)
  | .neg a => (W a.rel).all (fun t => !(matchTuple (substituteAtom a β) t).isSome)
  | .cmp x op y => evalCmp x op y β == some true
  | .other => false

def Rep (β : Bindings) (bs : List Bindings) : Prop := ∀ b ∈ bs, b = β

theorem findMatching_isEmpty (rel : String) (bts : List BT) (db : DB) :
    (findMatching rel bts db).isEmpty = !(db.get rel).any (fun t => (matchTuple bts t).isSome) := by
  unfold findMatching
  induction db.get rel with
  | nil => simp
  | cons t ts ih =>
    simp only [List.filterMap_cons, List.any_cons]
    cases h : matchTuple bts t with
    | none => simpa using ih
    | some nb => simp

theorem findMatching_head (rel : String) (bts : List BT) (db : DB) (t : Tuple) (nb : Bindings)
    (rest : List (Tuple × Bindings)) (h : findMatching rel bts db = (t, nb) :: rest) :
    t ∈ db.get rel ∧ matchTuple bts t = some nb := by
  have hm : (t, nb) ∈ findMatching rel bts db := by rw [h]; exact List.mem_cons_self
  unfold findMatching at hm
  rw [List.mem_filterMap] at hm
  obtain ⟨t', ht', he⟩ := hm
  cases hmt : matchTuple bts t' with
  | none => simp [hmt] at he
  | some nb' =>
    simp only [hmt, Option.map_some, Option.some.injEq, Prod.mk.injEq] at he
    obtain ⟨rfl, rfl⟩ := he
    exact ⟨ht', hmt⟩

/-- Spec side, one literal. -/
theorem evalLit_step (W : String → List Tuple) (β : Bindings) (l : Lit) (hg : LitGood β l)
    (bs : List Bindings) (hr : Rep β bs) :
    Rep β (bs.flatMap (evalLit W W l)) ∧
    ((bs.flatMap (evalLit W W l)) = [] ↔ (bs = [] ∨ litPass W β l = false)) := by
  have key : ∀ b ∈ evalLit W W l β, b = β := by
    intro b hb
    cases l with
    | pos a =>
      simp only [evalLit, List.mem_filterMap] at hb
      obtain ⟨t, _, he⟩ := hb
      cases hmt : matchTuple (substituteAtom a β) t with
      | none => simp [hmt] at he
      | some nb =>
        have := matchTuple_noUnb _ t nb (substituteAtom_noUnb β a hg) hmt
        subst this
        simp [hmt] at he
        exact he.symm
    | neg a => simp only [evalLit] at hb; split at hb <;> simp at hb; exact hb
    | cmp x op y => simp only [evalLit] at hb; split at hb <;> simp at hb; exact hb
    | other => exact hg.elim
  have hempty : (evalLit W W l β = []) ↔ litPass W β l = false := by
    cases l with
    | pos a =>
      simp only [evalLit, litPass]
      induction W a.rel with
      | nil => simp
      | cons t ts ih =>
        simp only [List.filterMap_cons, List.any_cons]
        cases hmt : matchTuple (substituteAtom a β) t with
        | none => simpa using ih
        | some nb => simp
    | neg a =>
      simp only [evalLit, litPass, negBlockedBy]
      by_cases hc : ((W a.rel).all fun t => !(matchTuple (substituteAtom a β) t).isSome) = true
      · simp [hc]
      · simp [hc]
    | cmp x op y =>
      simp only [evalLit, litPass]
      by_cases hc : (evalCmp x op y β == some true) = true
      · simp [hc]
      · simp [hc]
    | other => exact hg.elim
  constructor
  · intro b hb
    rw [List.mem_flatMap] at hb
    obtain ⟨b0, hb0, hb⟩ := hb
    rw [hr b0 hb0] at hb
    exact key b hb
  · constructor
    · intro h
      cases bs with
      | nil => exact Or.inl rfl
      | cons b0 rest =>
        right
        rw [List.flatMap_cons, List.append_eq_nil_iff] at h
        rw [hr b0 List.mem_cons_self] at h
        exact hempty.mp h.1
    · intro h
      rcases h with h | h
      · subst h; rfl
      · rw [List.flatMap_eq_nil_iff]
        intro b0 hb0
        rw [hr b0 hb0]
        exact hempty.mpr h

theorem evalBody_exact (W : String → List Tuple) (β : Bindings) :
    ∀ (ls : List Lit), (∀ l ∈ ls, LitGood β l) → ∀ (bs : List Bindings), Rep β bs →
      (evalBody W W ls bs = [] ↔ (bs = [] ∨ ∃ l ∈ ls, litPass W β l = false))
  | [], _, bs, _ => by simp [evalBody]
  | l :: ls, hg, bs, hr => by
    obtain ⟨hr', he⟩ := evalLit_step W β l (hg l List.mem_cons_self) bs hr
    simp only [evalBody]
    rw [evalBody_exact W β ls (fun l' hl' => hg l' (List.mem_cons_of_mem _ hl')) _ hr', he]
    constructor
    · rintro ((h | h) | ⟨l', hl', h⟩)
      · exact Or.inl h
      · exact Or.inr ⟨l, List.mem_cons_self, h⟩
      · exact Or.inr ⟨l', List.mem_cons_of_mem _ hl', h⟩
    · rintro (h | ⟨l', hl', h⟩)
      · exact Or.inl (Or.inl h)
      · rcases List.mem_cons.mp hl' with rfl | hl'
        · exact Or.inl (Or.inr h)
        · exact Or.inr ⟨l', hl', h⟩

theorem any_world (base M : DB) (rel : String) (p : Tuple → Bool) :
    (world base M rel).any p = ((base.get rel).any p || (M.get rel).any p) := by
  simp [world, List.any_append]

/-- Trace side: under fixed bindings the greedy trace stops exactly at the first literal that does
    not pass in the world `(base, M)` — `M` being the derived data of the context — with a blocker that
    `blockerHolds` accepts. -/
theorem traceBody_exact (base M : DB)
    (ctx : Ctx) (hb : ctx.base = base) (hd : ctx.derived = some M) (r : Rule) (target : Tuple) (β : Bindings) :
    ∀ (ls : List Lit) (i : Nat) (fs : List (String × Tuple × Src)),
      (∀ l ∈ ls, LitGood β l) → (∀ k, ls[k]? = r.body[i + k]?) →
      ∀ b' fs' ob, traceBody ctx ls i β fs = (b', fs', ob) →
        b' = β ∧ (ob = none → ∀ l ∈ ls, litPass (world base M) β l = true) ∧
        (∀ blk, ob = some blk → (∃ l ∈ ls, litPass (world base M) β l = false) ∧ blockerHolds base M r target β blk = true)
  | [], i, fs, _, _, b', fs', ob, h => by
    simp only [traceBody, Prod.mk.injEq] at h
    obtain ⟨rfl, _, rfl⟩ := h
    exact ⟨rfl, fun _ _ hl => by simp at hl, fun _ h => by cases h⟩
  | l :: ls, i, fs, hg, hidx, b', fs', ob, h => by
    have hg' : ∀ l' ∈ ls, LitGood β l' := fun l' hl' => hg l' (List.mem_cons_of_mem _ hl')
    have hidx' : ∀ k, ls[k]? = r.body[(i + 1) + k]? := by
      intro k
      have := hidx (k + 1)
      simp only [List.getElem?_cons_succ] at this
      rw [this]; congr 1; omega
    have hi : r.body[i]? = some l := by
      have := hidx 0
      simpa using this.symm
    have hgl := hg l List.mem_cons_self
    have lift : ∀ {b' fs' ob} {l0 : Lit} {fs0}, litPass (world base M) β l0 = true →
        traceBody ctx ls (i + 1) β fs0 = (b', fs', ob) →
        b' = β ∧ (ob = none → ∀ l' ∈ l0 :: ls, litPass (world base M) β l' = true) ∧
        (∀ blk, ob = some blk → (∃ l' ∈ l0 :: ls, litPass (world base M) β l' = false) ∧ blockerHolds base M r target β blk = true) := by
      intro b' fs' ob l0 fs0 hp htr
      obtain ⟨h1, h2, h3⟩ := traceBody_exact base M ctx hb hd r target β ls (i + 1) _ hg' hidx' b' fs' ob htr
      refine ⟨h1, ?_, ?_⟩
      · intro hob l' hl'
        rcases List.mem_cons.mp hl' with rfl | hl'
        · exact hp
        · exact h2 hob l' hl'
      · intro blk hblk
        obtain ⟨⟨l', hl', hf⟩, hh⟩ := h3 blk hblk
        exact ⟨⟨l', List.mem_cons_of_mem _ hl', hf⟩, hh⟩
    cases l with
    | pos a =>
      simp only [traceBody, hb, hd] at h
      have hempB := findMatching_isEmpty a.rel (substituteAtom a β) base
      have hempM := findMatching_isEmpty a.rel (substituteAtom a β) M
      split at h
      · rename_i t nb rest hfm
        obtain ⟨_, hmt⟩ := findMatching_head _ _ _ _ _ _ hfm
        have hnb := matchTuple_noUnb _ t nb (substituteAtom_noUnb β a hgl) hmt
        subst hnb
        simp only [List.nil_append] at h
        have hp : litPass (world base M) β (.pos a) = true := by
          simp only [litPass, any_world]
          rw [hfm] at hempB
          simp only [List.isEmpty_cons, Bool.false_eq, Bool.not_eq_false'] at hempB
          simp [hempB]
        exact lift hp h
      · rename_i hfm
        split at h
        · rename_i t nb rest hfm2
          obtain ⟨_, hmt⟩ := findMatching_head _ _ _ _ _ _ hfm2
          have hnb := matchTuple_noUnb _ t nb (substituteAtom_noUnb β a hgl) hmt
          subst hnb
          simp only [List.nil_append] at h
          have hp : litPass (world base M) β (.pos a) = true := by
            simp only [litPass, any_world]
            rw [hfm2] at hempM
            simp only [List.isEmpty_cons, Bool.false_eq, Bool.not_eq_false'] at hempM
            simp [hempM]
          exact lift hp h
        · rename_i hfm2
          simp only [Prod.mk.injEq] at h
          obtain ⟨rfl, _, rfl⟩ := h
          rw [hfm] at hempB
          rw [hfm2] at hempM
          simp only [List.isEmpty_nil, Bool.true_eq, Bool.not_eq_true'] at hempB hempM
          have hp : litPass (world base M) β (.pos a) = false := by
            simp only [litPass, any_world, hempB, hempM, Bool.or_self]
          refine ⟨rfl, (fun h => nomatch h), ?_⟩
          intro blk hblk
          cases hblk
          refine ⟨⟨_, List.mem_cons_self, hp⟩, ?_⟩
          simp only [blockerHolds, hi, beq_self_eq_true, Bool.true_and, negBlockedBy]
          simp only [litPass] at hp
          rw [List.all_eq_true]
          intro t ht
          have := (List.any_eq_false.mp hp) t ht
          simpa using this
    | neg a =>
      simp only [traceBody] at h
      have hempB := findMatching_isEmpty a.rel (substituteAtom a β) base
      have hempM := findMatching_isEmpty a.rel (substituteAtom a β) M
      split at h
      · rename_i t nb rest hfm
        simp only [negMatches, hb, hd] at hfm
        have hin : t ∈ world base M a.rel ∧ matchTuple (substituteAtom a β) t = some nb := by
          split at hfm
          · obtain ⟨h1, h2⟩ := findMatching_head _ _ _ _ _ _ hfm
            exact ⟨List.mem_append_right _ h1, h2⟩
          · obtain ⟨h1, h2⟩ := findMatching_head _ _ _ _ _ _ hfm
            exact ⟨List.mem_append_left _ h1, h2⟩
        simp only [Prod.mk.injEq] at h
        obtain ⟨rfl, _, rfl⟩ := h
        have hp : litPass (world base M) β (.neg a) = false := by
          simp only [litPass]
          rw [List.all_eq_false]
          exact ⟨t, hin.1, by simp [hin.2]⟩
        refine ⟨rfl, (fun h => nomatch h), ?_⟩
        intro blk hblk
        cases hblk
        refine ⟨⟨_, List.mem_cons_self, hp⟩, ?_⟩
        simp [blockerHolds, hi, negBlockedBy, hin.2, hin.1]
      · rename_i hfm
        simp only [negMatches, hb, hd] at hfm
        have hp : litPass (world base M) β (.neg a) = true := by
          simp only [litPass]
          rw [List.all_eq_true]
          intro t ht
          have hnone : ((base.get a.rel).any (fun t => (matchTuple (substituteAtom a β) t).isSome) = false) ∧
              ((M.get a.rel).any (fun t => (matchTuple (substituteAtom a β) t).isSome) = false) := by
            split at hfm
            · rename_i hbe
              rw [hfm] at hempM
              have : (findMatching a.rel (substituteAtom a β) base).isEmpty = true := hbe
              rw [this] at hempB
              simp only [List.isEmpty_nil, Bool.true_eq, Bool.not_eq_true'] at hempB hempM
              exact ⟨hempB, hempM⟩
            · rename_i hbe
              rw [hfm] at hbe
              simp at hbe
          rcases List.mem_append.mp ht with h' | h'
          · have := (List.any_eq_false.mp hnone.1) t h'; simpa using this
          · have := (List.any_eq_false.mp hnone.2) t h'; simpa using this
        exact lift hp h
    | cmp x op y =>
      simp only [traceBody] at h
      split at h
      · rename_i hc
        exact lift (by simp [litPass, hc]) h
      · rename_i hc
        simp only [Prod.mk.injEq] at h
        obtain ⟨rfl, _, rfl⟩ := h
        refine ⟨rfl, (fun h => nomatch h), ?_⟩
        intro blk hblk
        cases hblk
        exact ⟨⟨_, List.mem_cons_self, by simp [litPass, hc]⟩, by simp [blockerHolds, hi, hc]⟩
      · rename_i hc
        simp only [Prod.mk.injEq] at h
        obtain ⟨rfl, _, rfl⟩ := h
        refine ⟨rfl, (fun h => nomatch h), ?_⟩
        intro blk hblk
        cases hblk
        exact ⟨⟨_, List.mem_cons_self, by simp [litPass, hc]⟩, by simp [blockerHolds, hi, hc]⟩
    | other => exact hgl.elim

theorem mem_headVars (r : Rule) (x : String) : x ∈ headVars r ↔ Term.var x ∈ r.head.args := by
  unfold headVars
  rw [List.mem_filterMap]
  constructor
  · rintro ⟨t, ht, he⟩
    cases t <;> simp at he
    subst he; exact ht
  · intro h; exact ⟨_, h, rfl⟩

/-- clause-level exactness (the context carries the derived data `M` of the world). -/
theorem explainClause_exact (base M : DB)
    (ctx : Ctx) (hb : ctx.base = base) (hd : ctx.derived = some M) (r : Rule) (target : Tuple) (i : Nat)
    (h1 : r.noChoice = true) (h2 : r.body.all Lit.supported = true) (h3 : r.plainVars = true) :
    (clauseFires base M r target = true → (explainClause ctx target r i).blocker = none) ∧
    (clauseFires base M r target = false → ∃ b, (explainClause ctx target r i).blocker = some b ∧
        blockerHolds base M r target (explainClause ctx target r i).bindings b = true) := by
  unfold explainClause clauseFires
  cases hu : unifyHead target r.head with
  | none =>
    simp only [Bool.false_eq_true, false_implies, true_and, forall_const]
    exact ⟨_, rfl, by simp [blockerHolds, hu]⟩
  | some β0 =>
    simp only
    have hu' : unifyArgs r.head.args target [] = some β0 := by
      unfold unifyHead at hu
      split at hu
      · cases hu
      · exact hu
    obtain ⟨_, hbound, hkeys⟩ := unifyArgs_spec _ _ _ _ hu'
    have hgood : ∀ l ∈ r.body, LitGood β0 l := by
      intro l hl
      have n1 := (List.all_eq_true.mp h1) l hl
      have n2 := (List.all_eq_true.mp h2) l hl
      cases l with
      | pos a =>
        intro x hx
        have := (List.all_eq_true.mp n1) _ hx
        simp only [List.contains_eq_mem, decide_eq_true_eq] at this
        exact hbound x ((mem_headVars r x).mp this)
      | neg a => trivial
      | cmp _ _ _ => trivial
      | other => simp [Lit.supported] at n2
    have hfilter : β0.filter (fun p => !isPlaceholderName p.1) = β0 := by
      rw [List.filter_eq_self]
      intro p hp
      have hk : p.1 ∈ β0.map Prod.fst := List.mem_map_of_mem hp
      rcases hkeys p.1 hk with hk | hk
      · simp at hk
      · have := (List.all_eq_true.mp h3) p.1 ((mem_headVars r p.1).mpr hk)
        exact this
    have hex := evalBody_exact (world base M) β0 r.body hgood [β0] (by intro b hb; simpa using hb)
    cases htr : traceBody ctx r.body 0 β0 [] with
    | mk b' rest =>
      obtain ⟨fs', ob⟩ := rest
      obtain ⟨e1, e2, e3⟩ := traceBody_exact base M ctx hb hd r target β0 r.body 0 [] hgood
        (fun k => by simp) b' fs' ob htr
      subst e1
      simp only [hfilter]
      constructor
      · intro hf
        cases ob with
        | none => rfl
        | some blk =>
          obtain ⟨hfail, _⟩ := e3 blk rfl
          have : evalBody (world base M) (world base M) r.body [b'] = [] := hex.mpr (Or.inr hfail)
          simp [this] at hf
      · intro hf
        cases ob with
        | none =>
          have hall := e2 rfl
          have : evalBody (world base M) (world base M) r.body [b'] = [] := by simpa using hf
          rcases hex.mp this with h | ⟨l, hl, hp⟩
          · cases h
          · rw [hall l hl] at hp; cases hp
        | some blk => exact ⟨blk, rfl, (e3 blk rfl).2⟩

/-- list-level exactness: what `truthful` asks of the whole explanation. -/
theorem explainClauses_exact (base M : DB)
    (ctx : Ctx) (hb : ctx.base = base) (hd : ctx.derived = some M) (target : Tuple) :
    ∀ (rs : List Rule) (i : Nat),
      (∀ r ∈ rs, r.noChoice = true ∧ r.body.all Lit.supported = true ∧ r.plainVars = true) →
      (rs.any (fun r => clauseFires base M r target) = true →
        (explainClauses ctx target rs i).any (fun c => c.blocker.isNone) = true) ∧
      (rs.any (fun r => clauseFires base M r target) = false →
        ((explainClauses ctx target rs i).length == rs.length &&
         (rs.zip (explainClauses ctx target rs i)).all (fun p => match p.2.blocker with
            | none => false
            | some b => blockerHolds base M p.1 target p.2.bindings b)) = true)
  | [], i, _ => by simp [explainClauses]
  | r :: rs, i, hg => by
    obtain ⟨g1, g2, g3⟩ := hg r List.mem_cons_self
    obtain ⟨c1, c2⟩ := explainClause_exact base M ctx hb hd r target i g1 g2 g3
    obtain ⟨ih1, ih2⟩ := explainClauses_exact base M ctx hb hd target rs (i + 1)
      (fun r' hr' => hg r' (List.mem_cons_of_mem _ hr'))
    simp only [explainClauses, List.any_cons, List.length_cons, List.zip_cons_cons, List.all_cons]
    constructor
    · intro h
      rw [Bool.or_eq_true] at h ⊢
      rcases h with h | h
      · left; rw [c1 h]; rfl
      · right; exact ih1 h
    · intro h
      rw [Bool.or_eq_false_iff] at h
      obtain ⟨b, hb1, hb2⟩ := c2 h.1
      have := ih2 h.2
      simp only [Bool.and_eq_true, beq_iff_eq] at this ⊢
      refine ⟨by omega, ?_, this.2⟩
      rw [hb1]; exact hb2

end ILV.Prov
