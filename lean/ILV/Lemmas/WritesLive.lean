/-
  What the write path does to the *live* relations, for any codec and whether or not the persist layer
  fails: the persist functions never touch `live`; `insertCore` / `deleteCore` change the named
  relation by `insertLoop` / `deleteLive` exactly when they return `Ok`, and nothing otherwise.
  Refinement of both loops to finite sets (duplicate-free lists).
-/
import ILV.Lemmas.StoreWrites
import ILV.Model.Writes
namespace ILV.Store
open ILV ILV.Batch ILV.Props.C31

theorem flush_live (c : Codec) (e : Engine) (s : String) : (flush c e s).1.live = e.live := by
  unfold flush
  split
  · rfl
  · split
    · rfl
    · split <;> rfl

theorem flushMany_live (c : Codec) : ∀ (names : List String) (e : Engine), (flushMany c e names).1.live = e.live := by
  intro names
  induction names with
  | nil => intro e; rfl
  | cons s ss ih =>
    intro e
    unfold flushMany
    have h := flush_live c e s
    generalize flush c e s = r at h
    obtain ⟨e', o⟩ := r
    cases o with
    | none => simp only; rw [ih e']; exact h
    | some k => exact h

theorem append_live (c : Codec) (e : Engine) (s : String) (us : List Update) : (append c e s us).1.live = e.live := by
  unfold append
  split
  · rfl
  · simp only
    split
    · rw [flush_live]; rfl
    · split
      · rw [flushMany_live]; rfl
      · rfl

theorem ensureShard_live (e : Engine) (s : String) : (ensureShard e s).live = e.live := by
  unfold ensureShard; split <;> rfl

/-- `insert_tuples_into`, live side: on `Ok((n, d))` the relation went through the dedup loop. -/
theorem insertCore_ok (c : Codec) (e e' : Engine) (rel : String) (ts : List Tuple) (n d : Nat)
    (h : insertCore c e rel ts = (e', .ok (n, d))) :
    liveOf e' rel = (insertLoop (liveOf e rel) 0 0 ts).1 ∧ n = (insertLoop (liveOf e rel) 0 0 ts).2.1 ∧
    d = (insertLoop (liveOf e rel) 0 0 ts).2.2 ∧ ∀ r, r ≠ rel → liveOf e' r = liveOf e r := by
  unfold insertCore at h
  cases ts with
  | nil =>
    simp only [Prod.mk.injEq, Except.ok.injEq] at h
    obtain ⟨h1, h2, h3⟩ := h
    subst h1
    simp [insertLoop, ← h2, ← h3]
  | cons first rest =>
    simp only at h
    split at h
    · simp at h
    · split at h
      · simp at h
      · have hl := append_live c (ensureShard { e with time := e.time + 1 } rel) rel (mkUpdates (first :: rest) e.time 1)
        rw [ensureShard_live] at hl
        generalize append c (ensureShard { e with time := e.time + 1 } rel) rel (mkUpdates (first :: rest) e.time 1) = r at h hl
        obtain ⟨e2, o⟩ := r
        cases o with
        | some k => simp at h
        | none =>
          simp only [Prod.mk.injEq, Except.ok.injEq] at h hl
          obtain ⟨h1, h2, h3⟩ := h
          have hex : (aget e2.live rel).getD [] = liveOf e rel := by rw [hl]; rfl
          rw [hex] at h1 h2 h3
          subst h1
          refine ⟨?_, h2.symm, h3.symm, ?_⟩
          · rw [liveOf_aset]; simp
          · intro r hr; rw [liveOf_aset]; simp [hr, liveOf, hl]

theorem insertCore_err (c : Codec) (e e' : Engine) (rel : String) (ts : List Tuple) (k : String)
    (h : insertCore c e rel ts = (e', .error k)) : e'.live = e.live := by
  unfold insertCore at h
  cases ts with
  | nil => simp at h
  | cons first rest =>
    simp only at h
    split at h
    · simp only [Prod.mk.injEq] at h; rw [← h.1]
    · split at h
      · simp only [Prod.mk.injEq] at h; rw [← h.1]
      · have hl := append_live c (ensureShard { e with time := e.time + 1 } rel) rel (mkUpdates (first :: rest) e.time 1)
        rw [ensureShard_live] at hl
        generalize append c (ensureShard { e with time := e.time + 1 } rel) rel (mkUpdates (first :: rest) e.time 1) = r at h hl
        obtain ⟨e2, o⟩ := r
        cases o with
        | some k' => simp only [Prod.mk.injEq] at h; rw [← h.1]; exact hl
        | none => simp at h

/-- `delete_tuples_from`, live side. -/
theorem deleteCoreRaw_ok (c : Codec) (e e' : Engine) (rel : String) (ts : List Tuple) (n : Nat)
    (h : deleteCoreRaw c e rel ts = (e', .ok n)) :
    liveOf e' rel = deleteLive (liveOf e rel) ts ∧ n = (liveOf e rel).length - (liveOf e' rel).length ∧
    ∀ r, r ≠ rel → liveOf e' r = liveOf e r := by
  unfold deleteCoreRaw at h
  cases ts with
  | nil =>
    simp only [Prod.mk.injEq, Except.ok.injEq] at h
    obtain ⟨h1, h2⟩ := h
    subst h1
    refine ⟨?_, by simp [← h2], fun _ _ => rfl⟩
    simp only [deleteLive, List.any_nil, Bool.not_false]
    exact (List.filter_eq_self.2 (fun _ _ => rfl)).symm
  | cons first rest =>
    simp only at h
    have hl := append_live c (ensureShard { e with time := e.time + 1 } rel) rel (mkUpdates (first :: rest) e.time (-1))
    rw [ensureShard_live] at hl
    generalize append c (ensureShard { e with time := e.time + 1 } rel) rel (mkUpdates (first :: rest) e.time (-1)) = r at h hl
    obtain ⟨e2, o⟩ := r
    cases o with
    | some k => simp at h
    | none =>
      simp only at h hl
      cases hg : aget e2.live rel with
      | none =>
        rw [hg] at h
        simp only [Prod.mk.injEq, Except.ok.injEq] at h
        obtain ⟨h1, h2⟩ := h
        subst h1
        have hex : liveOf e rel = [] := by simp [liveOf, ← hl, hg]
        have hex2 : liveOf e2 rel = [] := by simp [liveOf, hg]
        refine ⟨by rw [hex, hex2]; simp [deleteLive], by rw [hex, hex2]; simp [← h2], ?_⟩
        intro r _; simp [liveOf, hl]
      | some ex =>
        rw [hg] at h
        simp only at h
        have hex : liveOf e rel = ex := by simp [liveOf, ← hl, hg]
        split at h
        · simp only [Prod.mk.injEq, Except.ok.injEq] at h
          obtain ⟨h1, h2⟩ := h
          subst h1
          refine ⟨by rw [liveOf_aset, hex]; simp, by rw [liveOf_aset, hex]; simp [← h2], ?_⟩
          intro r hr; rw [liveOf_aset]; simp [hr, liveOf, hl]
        · simp only [Prod.mk.injEq, Except.ok.injEq] at h
          obtain ⟨h1, h2⟩ := h
          subst h1
          refine ⟨by rw [liveOf_aset', hex]; simp, by rw [liveOf_aset', hex]; simp [← h2], ?_⟩
          intro r hr; rw [liveOf_aset']; simp [hr, liveOf, hl]

theorem deleteCoreRaw_err (c : Codec) (e e' : Engine) (rel : String) (ts : List Tuple) (k : String)
    (h : deleteCoreRaw c e rel ts = (e', .error k)) : e'.live = e.live := by
  unfold deleteCoreRaw at h
  cases ts with
  | nil => simp at h
  | cons first rest =>
    simp only at h
    have hl := append_live c (ensureShard { e with time := e.time + 1 } rel) rel (mkUpdates (first :: rest) e.time (-1))
    rw [ensureShard_live] at hl
    generalize append c (ensureShard { e with time := e.time + 1 } rel) rel (mkUpdates (first :: rest) e.time (-1)) = r at h hl
    obtain ⟨e2, o⟩ := r
    cases o with
    | some k' => simp only [Prod.mk.injEq] at h; rw [← h.1]; exact hl
    | none =>
      simp only at h
      split at h
      · simp at h
      · split at h <;> simp at h

/-! ### the two loops refine finite sets -/

theorem insertLoop_spec : ∀ (ts ex : List Tuple) (n d : Nat), ex.Nodup →
    (insertLoop ex n d ts).1.Nodup ∧
    (∀ t, t ∈ (insertLoop ex n d ts).1 ↔ t ∈ ex ∨ t ∈ ts) ∧
    (insertLoop ex n d ts).2.1 + (insertLoop ex n d ts).2.2 = n + d + ts.length ∧
    (insertLoop ex n d ts).1.length + n = ex.length + (insertLoop ex n d ts).2.1 := by
  intro ts
  induction ts with
  | nil => intro ex n d h; simp [insertLoop, h]
  | cons t ts ih =>
    intro ex n d h
    simp only [insertLoop]
    by_cases hm : ex.any (Tuple.eq t) = true
    · simp only [hm, if_true]
      obtain ⟨a, b, c1, c2⟩ := ih ex n (d + 1) h
      have ht : t ∈ ex := (any_eq_iff_mem t ex).1 hm
      refine ⟨a, ?_, by rw [c1]; simp; omega, c2⟩
      intro x; rw [b x]; simp only [List.mem_cons]
      constructor
      · rintro (h1 | h1) <;> simp [h1]
      · rintro (h1 | h1 | h1)
        · exact Or.inl h1
        · subst h1; exact Or.inl ht
        · exact Or.inr h1
    · have hm' : ex.any (Tuple.eq t) = false := by simpa using hm
      simp only [hm', Bool.false_eq_true, if_false]
      have ht : t ∉ ex := fun hx => hm ((any_eq_iff_mem t ex).2 hx)
      have hnd : (ex ++ [t]).Nodup := by
        rw [List.nodup_append]; refine ⟨h, by simp, ?_⟩
        intro a ha b hb e'; simp only [List.mem_singleton] at hb; subst hb; subst e'; exact ht ha
      obtain ⟨a, b, c1, c2⟩ := ih (ex ++ [t]) (n + 1) d hnd
      refine ⟨a, ?_, by rw [c1]; simp; omega, by simp only [List.length_append, List.length_singleton] at c2; omega⟩
      intro x; rw [b x]; simp only [List.mem_append, List.mem_cons, List.mem_nil_iff, or_false]
      constructor
      · rintro ((h1 | h1) | h1)
        · exact Or.inl h1
        · exact Or.inr (Or.inl h1)
        · exact Or.inr (Or.inr h1)
      · rintro (h1 | h1 | h1)
        · exact Or.inl (Or.inl h1)
        · exact Or.inl (Or.inr h1)
        · exact Or.inr h1

theorem deleteLive_spec (ex ts : List Tuple) (h : ex.Nodup) :
    (deleteLive ex ts).Nodup ∧ (∀ t, t ∈ deleteLive ex ts ↔ t ∈ ex ∧ t ∉ ts) ∧
    (deleteLive ex ts).length ≤ ex.length :=
  ⟨h.filter _, mem_deleteLive ex ts, List.length_filter_le _ _⟩

theorem deleteLive_deleteLive (ex : List Tuple) (t : Tuple) (ts : List Tuple) :
    deleteLive (deleteLive ex [t]) ts = deleteLive ex (t :: ts) := by
  simp only [deleteLive, List.filter_filter]
  congr 1
  funext x
  simp only [List.any_cons, List.any_nil, Bool.or_false, Bool.not_or, Bool.and_comm]

end ILV.Store
