/-
  The engine's database (programs whose only cycles are self-loops, aggregate-free, clauses
  evaluated faithfully) coincides with `pmEval`'s stratified least model: by induction on the
  stratum, `pmEval ≤ engine` because the engine's database is closed (`pmEval_least`), and
  `engine ≤ pmEval` head by head along the execution order because each engine head is the least
  closed set (`LeastFor`) and `pmEval`'s model is closed (`isFix`).
-/
import ILV.Lemmas.Recursion
import ILV.Lemmas.PmEval
namespace ILV.Engine
open ILV ILV.DL

theorem mem_scansOf_atom {p : Program} {h r : String} (hr : r ∈ scansOf p h) :
    ∃ cl, cl ∈ clausesOf p h ∧ ((∃ a, a ∈ cl.posAtoms ∧ a.rel = r) ∨ (∃ a, a ∈ cl.negAtoms ∧ a.rel = r)) := by
  unfold scansOf at hr
  rw [mem_dedupS, List.mem_flatMap] at hr
  obtain ⟨cl, hcl, hrs⟩ := hr
  refine ⟨cl, hcl, ?_⟩
  unfold Rule.scans at hrs
  rw [mem_dedupS, List.mem_filterMap] at hrs
  obtain ⟨l, hl, hla⟩ := hrs
  cases l with
  | pos a =>
    simp [Lit.atom?] at hla
    exact Or.inl ⟨a, by unfold Rule.posAtoms; exact List.mem_filterMap.2 ⟨.pos a, hl, rfl⟩, hla⟩
  | neg a =>
    simp [Lit.atom?] at hla
    exact Or.inr ⟨a, by unfold Rule.negAtoms; exact List.mem_filterMap.2 ⟨.neg a, hl, rfl⟩, hla⟩
  | cmp o x y => simp [Lit.atom?] at hla

theorem isFix_closed {p : Program} {edb M : DB} (hfix : isFix p edb M = true) (h : String) (hh : h ∈ heads p) :
    ∃ ts, evalRules M.get (clausesOf p h) = some ts ∧ Sub ts (M.get h) := by
  unfold isFix at hfix
  have := List.all_eq_true.1 hfix h hh
  cases hev : evalRules M.get (clausesOf p h) with
  | none => rw [hev] at this; cases this
  | some ts =>
    rw [hev] at this
    refine ⟨ts, rfl, ?_⟩
    have hm := sameSet_iff.1 this
    intro t ht
    exact (hm t).2 (mem_unionT.2 (Or.inr ht))

/-- engine ≤ pmEval on stratum `k`, along the execution order. -/
theorem engine_le_pm (p : Program) (edb M : DB) (rk : Ranks) (F : String → List Tuple) (k : Nat)
    (hagg : ∀ r, r ∈ p → r.hasAgg = false) (hfix : isFix p edb M = true)
    (hnon : ∀ g, g ∉ heads p → F g = M.get g)
    (hweak : ∀ r, r ∈ p → ∀ a, a ∈ r.posAtoms → Ranks.get rk a.rel ≤ Ranks.get rk r.hrel)
    (hstrict : ∀ r, r ∈ p → ∀ a, a ∈ r.negAtoms → Ranks.get rk a.rel < Ranks.get rk r.hrel)
    (hlow : ∀ g, g ∈ heads p → Ranks.get rk g < k → MemEq (F g) (M.get g))
    (hge : ∀ g, g ∈ heads p → Ranks.get rk g = k → Sub (M.get g) (F g)) :
    ∀ (order seen : List String), depOrderedS p order seen = true → (∀ g, g ∈ order → g ∈ heads p) →
      (∀ g, g ∈ order → LeastFor p F g) →
      (∀ g, g ∈ seen → g ∈ heads p → Ranks.get rk g = k → MemEq (F g) (M.get g)) →
      ∀ h, h ∈ order → Ranks.get rk h = k → Sub (F h) (M.get h)
  | [], _, _, _, _, _, h, hh, _ => by cases hh
  | g :: rest, seen, hd, hheads, hleast, hseen, h, hh, hrk => by
    have hd' := hd
    simp only [depOrderedS, Bool.and_eq_true, Bool.not_eq_true', List.all_eq_true, Bool.or_eq_true, beq_iff_eq] at hd'
    obtain ⟨⟨hsc, _⟩, hdrest⟩ := hd'
    -- the first head of the order, if it is in stratum k
    have hfirst : Ranks.get rk g = k → Sub (F g) (M.get g) := by
      intro hgk
      have hgh := hheads g (List.mem_cons_self ..)
      obtain ⟨ts', hts', hsub'⟩ := isFix_closed hfix g hgh
      have hag : AgreeOn (scansOf p g) (override F g (M.get g)) M.get := by
        intro r hr
        unfold override
        by_cases hrg : r = g
        · have : (r == g) = true := by simpa using hrg
          simp [this, hrg]; exact MemEq.refl _
        · have hb : (r == g) = false := by simpa using hrg
          simp only [hb, Bool.false_eq_true, if_false]
          by_cases hrh : r ∈ heads p
          · -- a head scanned by g: earlier in the order, of rank ≤ k
            have hrle : Ranks.get rk r ≤ k := by
              obtain ⟨cl, hcl, hat⟩ := mem_scansOf_atom hr
              have hclp := (List.mem_filter.1 hcl).1
              have hrel : cl.hrel = g := by simpa using (List.mem_filter.1 hcl).2
              rcases hat with ⟨a, ha, rfl⟩ | ⟨a, ha, rfl⟩
              · have := hweak cl hclp a ha; rw [hrel, hgk] at this; exact this
              · have := hstrict cl hclp a ha; rw [hrel, hgk] at this; exact Nat.le_of_lt this
            rcases Nat.lt_or_eq_of_le hrle with hlt | heq
            · exact hlow r hrh hlt
            · rcases hsc r hr with (hnh | hs) | he
              · rw [List.contains_iff_mem.2 hrh] at hnh; cases hnh
              · exact hseen r (List.contains_iff_mem.1 hs) hrh heq
              · exact absurd he hrg
          · rw [hnon r hrh]; exact MemEq.refl _
      have hcong := evalRules_memEq (p := p) (h := g) hagg hag
      rw [hts'] at hcong
      cases he : evalRules (override F g (M.get g)) (clausesOf p g) with
      | none => rw [he] at hcong; cases hcong
      | some dX =>
        rw [he] at hcong
        exact (hleast g (List.mem_cons_self ..)).2 (M.get g) dX he (fun t ht => hsub' t ((hcong t).1 ht))
    rcases List.mem_cons.1 hh with rfl | hh'
    · exact hfirst hrk
    · apply engine_le_pm p edb M rk F k hagg hfix hnon hweak hstrict hlow hge rest (g :: seen) hdrest
        (fun x hx => hheads x (List.mem_cons_of_mem _ hx)) (fun x hx => hleast x (List.mem_cons_of_mem _ hx)) _ h hh' hrk
      intro x hx hxh hxk
      rcases List.mem_cons.1 hx with rfl | hx
      · exact memEq_of_sub (hfirst hxk) (hge x hxh hxk)
      · exact hseen x hx hxh hxk

/-- **the engine's database is `pmEval`'s least model** on every head. -/
theorem engine_eq_pm (p : Program) (edb M : DB) (fuel' : Nat) (hpm : pmEval fuel' p edb = some M)
    (F : String → List Tuple) (order : List String)
    (hagg : ∀ r, r ∈ p → r.hasAgg = false) (hno : ∀ h, h ∈ heads p → edb.get h = [])
    (hnon : ∀ g, g ∉ heads p → F g = edb.get g)
    (hdep : depOrderedS p order [] = true) (hheads : ∀ g, g ∈ order → g ∈ heads p)
    (hall : ∀ g, g ∈ heads p → g ∈ order) (hleast : ∀ g, g ∈ order → LeastFor p F g) :
    ∀ h, h ∈ heads p → MemEq (F h) (M.get h) := by
  obtain ⟨rk, db, hst, _, _, hfix⟩ := pmEval_run hpm
  obtain ⟨hok, _⟩ := stratify_ok hst
  have hweak : ∀ r, r ∈ p → ∀ a, a ∈ r.posAtoms → Ranks.get rk a.rel ≤ Ranks.get rk r.hrel :=
    fun r hr => (ranks_atoms hok r hr (hagg r hr)).1
  have hstrict : ∀ r, r ∈ p → ∀ a, a ∈ r.negAtoms → Ranks.get rk a.rel < Ranks.get rk r.hrel :=
    fun r hr => (ranks_atoms hok r hr (hagg r hr)).2
  have hnonM : ∀ g, g ∉ heads p → F g = M.get g := fun g hg => by rw [hnon g hg, pmEval_nonhead hpm g hg]
  have main : ∀ k, ∀ h, h ∈ heads p → Ranks.get rk h = k → MemEq (F h) (M.get h) := by
    intro k
    induction k using Nat.strongRecOn with
    | ind k ih =>
      have hlow : ∀ g, g ∈ heads p → Ranks.get rk g < k → MemEq (F g) (M.get g) := fun g hg hlt => ih _ hlt g hg rfl
      have hge : ∀ g, g ∈ heads p → Ranks.get rk g = k → Sub (M.get g) (F g) :=
        pmEval_least hpm hagg hno rk hst F (fun g hg => by rw [hnon g hg]; exact MemEq.refl _)
          (fun h hh => (hleast h (hall h hh)).1) k (fun g hg hlt => (hlow g hg hlt).symm)
      intro h hh hrk
      exact memEq_of_sub
        (engine_le_pm p edb M rk F k hagg hfix hnonM hweak hstrict hlow hge order [] hdep hheads hleast
          (fun g hg => by cases hg) h (hall h hh) hrk)
        (hge h hh hrk)
  intro h hh
  exact main _ h hh rfl

/-- negated atoms never mention their own head in a stratified aggregate-free program. -/
theorem neg_not_self {p : Program} {edb M : DB} {fuel' : Nat} (hpm : pmEval fuel' p edb = some M)
    (hagg : ∀ r, r ∈ p → r.hasAgg = false) : ∀ r, r ∈ p → ∀ a, a ∈ r.negAtoms → a.rel ≠ r.hrel := by
  obtain ⟨rk, _, hst, _, _, _⟩ := pmEval_run hpm
  obtain ⟨hok, _⟩ := stratify_ok hst
  intro r hr a ha heq
  have := (ranks_atoms hok r hr (hagg r hr)).2 a ha
  rw [heq] at this
  exact Nat.lt_irrefl _ this

/-- one direction of uniqueness: `F1 ≤ F2` on the heads of the order, when both are least-closed
    head by head and the heads already seen agree. -/
theorem least_le (p : Program) (hagg : ∀ r, r ∈ p → r.hasAgg = false) (F1 F2 : String → List Tuple)
    (hnon : ∀ g, g ∉ heads p → F1 g = F2 g) :
    ∀ (order seen : List String), depOrderedS p order seen = true →
      (∀ g, g ∈ order → LeastFor p F1 g) → (∀ g, g ∈ order → LeastFor p F2 g) →
      (∀ g, g ∈ seen → MemEq (F1 g) (F2 g)) →
      ∀ h, h ∈ order → MemEq (F1 h) (F2 h)
  | [], _, _, _, _, _, h, hh => by cases hh
  | g :: rest, seen, hd, h1, h2, hseen, h, hh => by
    have hd' := hd
    simp only [depOrderedS, Bool.and_eq_true, Bool.not_eq_true', List.all_eq_true, Bool.or_eq_true, beq_iff_eq] at hd'
    obtain ⟨⟨hsc, _⟩, hdrest⟩ := hd'
    have hfirst : MemEq (F1 g) (F2 g) := by
      -- for any X, the two overrides agree on what g scans
      have hag : ∀ X, AgreeOn (scansOf p g) (override F1 g X) (override F2 g X) := by
        intro X r hr
        unfold override
        by_cases hrg : r = g
        · have : (r == g) = true := by simpa using hrg
          simp [this]; exact MemEq.refl _
        · have hb : (r == g) = false := by simpa using hrg
          simp only [hb, Bool.false_eq_true, if_false]
          rcases hsc r hr with (hnh | hs) | he
          · have : r ∉ heads p := fun hc => by rw [List.contains_iff_mem.2 hc] at hnh; cases hnh
            rw [hnon r this]; exact MemEq.refl _
          · exact hseen r (List.contains_iff_mem.1 hs)
          · exact absurd he hrg
      have ov_self : ∀ (F : String → List Tuple), AgreeOn (scansOf p g) (override F g (F g)) F := by
        intro F r _
        unfold override
        by_cases hrg : r = g
        · have : (r == g) = true := by simpa using hrg
          simp [this, hrg]; exact MemEq.refl _
        · have hb : (r == g) = false := by simpa using hrg
          simp [hb]; exact MemEq.refl _
      -- F1 g ⊆ F2 g : F2 g is closed for F1's operator
      have dir : ∀ (Fa Fb : String → List Tuple), (∀ X, AgreeOn (scansOf p g) (override Fa g X) (override Fb g X)) →
          LeastFor p Fa g → LeastFor p Fb g → Sub (Fa g) (Fb g) := by
        intro Fa Fb hab la lb
        obtain ⟨d, hd2, hsub2⟩ := lb.1
        have c1 := evalRules_memEq (p := p) (h := g) hagg (hab (Fb g))
        have c2 := evalRules_memEq (p := p) (h := g) hagg (ov_self Fb)
        rw [hd2] at c2
        cases he : evalRules (override Fb g (Fb g)) (clausesOf p g) with
        | none => rw [he] at c2; cases c2
        | some d' =>
          rw [he] at c1 c2
          cases he1 : evalRules (override Fa g (Fb g)) (clausesOf p g) with
          | none => rw [he1] at c1; cases c1
          | some dX =>
            rw [he1] at c1
            exact la.2 (Fb g) dX he1 (fun t ht => hsub2 t ((c2 t).1 ((c1 t).1 ht)))
      exact memEq_of_sub (dir F1 F2 hag (h1 g (List.mem_cons_self ..)) (h2 g (List.mem_cons_self ..)))
        (dir F2 F1 (fun X r hr => (hag X r hr).symm) (h2 g (List.mem_cons_self ..)) (h1 g (List.mem_cons_self ..)))
    rcases List.mem_cons.1 hh with rfl | hh'
    · exact hfirst
    · apply least_le p hagg F1 F2 hnon rest (g :: seen) hdrest
        (fun x hx => h1 x (List.mem_cons_of_mem _ hx)) (fun x hx => h2 x (List.mem_cons_of_mem _ hx)) _ h hh'
      intro x hx
      rcases List.mem_cons.1 hx with rfl | hx
      · exact hfirst
      · exact hseen x hx

/-- `LeastFor` only depends on the *set* of rules. -/
theorem leastFor_sameRules {p p' : Program} (hs : sameRules p p') (F : String → List Tuple) (g : String)
    (h : LeastFor p' F g) : LeastFor p F g := by
  constructor
  · obtain ⟨d, hd, hsub⟩ := h.1
    have := sameRules_evalRules hs F g
    rw [hd] at this
    cases he : evalRules F (clausesOf p g) with
    | none => rw [he] at this; cases this
    | some d' => rw [he] at this; exact ⟨d', rfl, fun t ht => hsub t ((this t).1 ht)⟩
  · intro X dX hX hXs
    have := sameRules_evalRules hs (override F g X) g
    rw [hX] at this
    cases he : evalRules (override F g X) (clausesOf p' g) with
    | none => rw [he] at this; cases this
    | some d' => rw [he] at this; exact h.2 X d' he (fun t ht => hXs t ((this t).2 ht))

/-- Decidable description of the fragment with self-recursion: the execution order the code chooses
    lists every head after the *other* heads it scans (a head may scan itself), exactly the heads
    are executed, heads have no stored facts, no aggregates, the last executed head is the head of
    the last rule. -/
def inFragmentRec (p : Program) (edb : DB) : Bool :=
  depOrderedS p (execOrder p) [] &&
  (execOrder p).all (heads p).contains &&
  (heads p).all (execOrder p).contains &&
  (heads p).all (fun h => (edb.get h).isEmpty) &&
  p.all (fun r => !r.hasAgg) &&
  ((execOrder p).getLast? == some (queryRel p))

theorem inFragmentRec_parts {p : Program} {edb : DB} (hfrag : inFragmentRec p edb = true) :
    depOrderedS p (execOrder p) [] = true ∧ (∀ g, g ∈ execOrder p → g ∈ heads p) ∧ (∀ g, g ∈ heads p → g ∈ execOrder p) ∧
    (∀ h, h ∈ heads p → edb.get h = []) ∧ (∀ r, r ∈ p → r.hasAgg = false) ∧
    (execOrder p).getLast? = some (queryRel p) := by
  simp only [inFragmentRec, Bool.and_eq_true, List.all_eq_true, beq_iff_eq, Bool.not_eq_true',
    List.isEmpty_iff] at hfrag
  obtain ⟨⟨⟨⟨⟨hdep, hheads⟩, hall⟩, hno⟩, hagg⟩, hlastq⟩ := hfrag
  exact ⟨hdep, fun g hg => List.contains_iff_mem.1 (hheads g hg), fun g hg => List.contains_iff_mem.1 (hall g hg),
    hno, hagg, hlastq⟩

/-- a successful run in the fragment: every head is the least closed set over the final database,
    relations that are not heads are read as stored, the answer is the query relation. -/
theorem run_least (p : Program) (edb : DB) (hash : Tuple → Nat) (ord : String → List Tuple → List Tuple)
    (fuel : Nat) (A : List Tuple) (acc : DB)
    (hfrag : inFragmentRec p edb = true) (hcf : ClauseFaithful p)
    (hnegself : ∀ r, r ∈ p → ∀ a, a ∈ r.negAtoms → a.rel ≠ r.hrel)
    (hrun : Engine.run allOff hash ord fuel p edb = .ok A acc) :
    (∀ g, g ∈ execOrder p → LeastFor p (lkOf edb acc) g) ∧
    (∀ r, r ∉ heads p → lkOf edb acc r = edb.get r) ∧
    lkOf edb acc (queryRel p) = A := by
  obtain ⟨hdep, hheads, _, hno, hagg, hlastq⟩ := inFragmentRec_parts hfrag
  have hloop : execLoop allOff hash ord fuel p edb (execOrder p) [] [] = .ok A acc := by
    unfold Engine.run at hrun
    split at hrun
    · cases hrun
    · split at hrun
      · cases hrun
      · split at hrun
        · cases hrun
        · exact hrun
  obtain ⟨hframe, hleast, hlast⟩ := execLoop_least hash ord fuel p edb hcf hagg hno hnegself (execOrder p) [] [] [] A acc
    hdep hheads (fun _ _ => rfl) hloop
  refine ⟨hleast, ?_, lkOf_of_lookup edb acc _ A (hlast _ hlastq)⟩
  intro r hr
  have hro : r ∉ execOrder p := fun hc => hr (hheads r hc)
  have : acc.lookup r = none := by rw [hframe r hro]; rfl
  unfold lkOf; rw [this]

end ILV.Engine
