/-
  `ArityOk`: every stored tuple has the arity recorded for its relation. It holds in every reachable
  state (insert checks the arity, delete and maintenance never add tuples) and is what makes the arity
  filter of `delete_tuples_from` invisible: a tuple of another arity is not stored anyway.
-/
import ILV.Lemmas.WritesLive
namespace ILV.Store
open ILV ILV.Batch ILV.Props.C31

def ArityOk (e : Engine) : Prop := ∀ r, ∀ t ∈ liveOf e r, aget e.arity r = some t.length

theorem ArityOk_of_eq {e e' : Engine} (h : ArityOk e) (hl : e'.live = e.live) (ha : e'.arity = e.arity) : ArityOk e' := by
  intro r t ht
  have : t ∈ liveOf e r := by simpa [liveOf, hl] using ht
  rw [ha]; exact h r t this

theorem flush_arity (c : Codec) (e : Engine) (s : String) : (flush c e s).1.arity = e.arity := by
  unfold flush
  split
  · rfl
  · split
    · rfl
    · split <;> rfl

theorem flushMany_arity (c : Codec) : ∀ (names : List String) (e : Engine), (flushMany c e names).1.arity = e.arity := by
  intro names
  induction names with
  | nil => intro e; rfl
  | cons s ss ih =>
    intro e
    unfold flushMany
    have h := flush_arity c e s
    generalize flush c e s = r at h
    obtain ⟨e', o⟩ := r
    cases o with
    | none => simp only; rw [ih e']; exact h
    | some k => exact h

theorem append_arity (c : Codec) (e : Engine) (s : String) (us : List Update) : (append c e s us).1.arity = e.arity := by
  unfold append
  split
  · rfl
  · simp only
    split
    · rw [flush_arity]; rfl
    · split
      · rw [flushMany_arity]; rfl
      · rfl

theorem ensureShard_arity (e : Engine) (s : String) : (ensureShard e s).arity = e.arity := by
  unfold ensureShard; split <;> rfl

theorem mem_insertLoop : ∀ (ts ex : List Tuple) (n d : Nat) (t : Tuple),
    t ∈ (insertLoop ex n d ts).1 → t ∈ ex ∨ t ∈ ts := by
  intro ts
  induction ts with
  | nil => intro ex n d t h; exact Or.inl h
  | cons x xs ih =>
    intro ex n d t h
    simp only [insertLoop] at h
    split at h
    · rcases ih _ _ _ t h with h1 | h1
      · exact Or.inl h1
      · exact Or.inr (by simp [h1])
    · rcases ih _ _ _ t h with h1 | h1
      · simp only [List.mem_append, List.mem_singleton] at h1
        rcases h1 with h1 | h1
        · exact Or.inl h1
        · exact Or.inr (by simp [h1])
      · exact Or.inr (by simp [h1])

theorem insertCore_arityOk (c : Codec) (e : Engine) (rel : String) (ts : List Tuple) (h : ArityOk e) :
    ArityOk (insertCore c e rel ts).1 := by
  unfold insertCore
  cases ts with
  | nil => exact h
  | cons first rest =>
    simp only
    split
    · exact h
    · rename_i hu
      split
      · exact h
      · rename_i hm
        have hl := append_live c (ensureShard { e with time := e.time + 1 } rel) rel (mkUpdates (first :: rest) e.time 1)
        have ha := append_arity c (ensureShard { e with time := e.time + 1 } rel) rel (mkUpdates (first :: rest) e.time 1)
        rw [ensureShard_live] at hl
        rw [ensureShard_arity] at ha
        generalize append c (ensureShard { e with time := e.time + 1 } rel) rel (mkUpdates (first :: rest) e.time 1) = r at hl ha
        obtain ⟨e2, o⟩ := r
        cases o with
        | some k => exact ArityOk_of_eq h hl ha
        | none =>
          simp only at hl ha ⊢
          intro r t ht
          rw [liveOf_aset] at ht
          simp only [aget_aset]
          by_cases hr : r = rel
          · subst hr
            simp only [if_true] at ht ⊢
            have hex : (aget e2.live r).getD [] = liveOf e r := by rw [hl]; rfl
            rw [hex] at ht
            rcases mem_insertLoop _ _ _ _ t ht with h1 | h1
            · have h2 := h r t h1
              have : arityMismatch e r first.length = false := by simpa using hm
              simp only [arityMismatch, h2] at this
              have : t.length = first.length := by simpa using this
              rw [this]
            · have hall : (first :: rest).all (fun t => t.length == first.length) = true := by simpa using hu
              rw [List.all_eq_true] at hall
              have := hall t h1
              have : t.length = first.length := by simpa using this
              rw [this]
          · simp only [hr, if_false] at ht ⊢
            rw [ha]
            exact h r t (by simpa [liveOf, hl] using ht)

theorem deleteCoreRaw_arityOk (c : Codec) (e : Engine) (rel : String) (ts : List Tuple) (h : ArityOk e) :
    ArityOk (deleteCoreRaw c e rel ts).1 := by
  unfold deleteCoreRaw
  cases ts with
  | nil => exact h
  | cons first rest =>
    simp only
    have hl := append_live c (ensureShard { e with time := e.time + 1 } rel) rel (mkUpdates (first :: rest) e.time (-1))
    have ha := append_arity c (ensureShard { e with time := e.time + 1 } rel) rel (mkUpdates (first :: rest) e.time (-1))
    rw [ensureShard_live] at hl
    rw [ensureShard_arity] at ha
    generalize append c (ensureShard { e with time := e.time + 1 } rel) rel (mkUpdates (first :: rest) e.time (-1)) = r at hl ha
    obtain ⟨e2, o⟩ := r
    cases o with
    | some k => exact ArityOk_of_eq h hl ha
    | none =>
      simp only at hl ha ⊢
      cases hg : aget e2.live rel with
      | none => exact ArityOk_of_eq h hl ha
      | some ex =>
        have hex : liveOf e rel = ex := by simp [liveOf, ← hl, hg]
        simp only
        have key : ∀ (ar : List (String × Nat)), (∀ r t, t ∈ liveOf e r → aget ar r = some t.length) →
            ArityOk { e2 with live := aset e2.live rel (deleteLive ex (first :: rest)), arity := ar } := by
          intro ar har r t ht
          rw [liveOf_aset] at ht
          by_cases hr : r = rel
          · subst hr
            simp only [if_true, mem_deleteLive] at ht
            exact har r t (by rw [hex]; exact ht.1)
          · simp only [hr, if_false] at ht
            exact har r t (by simpa [liveOf, hl] using ht)
        split
        · apply key
          intro r t ht
          simp only [aget_aset, ha]
          by_cases hr : r = rel
          · subst hr; simp only [if_true]; rw [h r t ht]; rfl
          · simp only [hr, if_false]; exact h r t ht
        · have := key e2.arity (by intro r t ht; rw [ha]; exact h r t ht)
          exact this

theorem deleteCore_arityOk (c : Codec) (e : Engine) (rel : String) (ts : List Tuple) (h : ArityOk e) :
    ArityOk (deleteCore c e rel ts).1 := deleteCoreRaw_arityOk c e rel _ h

/-- under `ArityOk` the arity filter removes only tuples that are not stored. -/
theorem deleteLive_deletable (e : Engine) (h : ArityOk e) (rel : String) (ts : List Tuple) :
    deleteLive (liveOf e rel) (deletable e.arity rel ts) = deleteLive (liveOf e rel) ts := by
  unfold deleteLive
  apply List.filter_congr
  intro t ht
  have ha := h rel t ht
  congr 1
  simp only [deletable, ha]
  cases h1 : ts.any (Tuple.eq t) with
  | true =>
    have hm : t ∈ ts := (any_eq_iff_mem t ts).1 h1
    exact (any_eq_iff_mem t _).2 (List.mem_filter.2 ⟨hm, by simp⟩)
  | false =>
    cases h2 : (ts.filter (fun x => x.length == t.length)).any (Tuple.eq t) with
    | false => rfl
    | true =>
      have hm := (any_eq_iff_mem t _).1 h2
      have := (any_eq_iff_mem t ts).2 (List.mem_filter.1 hm).1
      rw [h1] at this; cases this

/-- `delete_tuples_from`, live side (with the arity filter): on `Ok(n)` exactly the named stored tuples went away. -/
theorem deleteCore_ok (c : Codec) (e e' : Engine) (rel : String) (ts : List Tuple) (n : Nat) (ha : ArityOk e)
    (h : deleteCore c e rel ts = (e', .ok n)) :
    liveOf e' rel = deleteLive (liveOf e rel) ts ∧ n = (liveOf e rel).length - (liveOf e' rel).length ∧
    ∀ r, r ≠ rel → liveOf e' r = liveOf e r := by
  obtain ⟨a1, a2, a3⟩ := deleteCoreRaw_ok c e e' rel _ n h
  exact ⟨by rw [a1, deleteLive_deletable e ha], a2, a3⟩

theorem deleteCore_err (c : Codec) (e e' : Engine) (rel : String) (ts : List Tuple) (k : String)
    (h : deleteCore c e rel ts = (e', .error k)) : e'.live = e.live :=
  deleteCoreRaw_err c e e' rel _ k h

end ILV.Store
