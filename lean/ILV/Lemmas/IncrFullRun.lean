/-
  C18 (after the repair): every step preserves the invariant, for all well-used histories.
-/
import ILV.Lemmas.IncrFull
import ILV.Lemmas.IncrFuel
namespace ILV.C18

/-- the common shape: catalogue/facts become those of `s1`, the manager is updated by `f`, then the
    snapshot is published. -/
theorem finv_mapInc {s : St} (h : FInv s) (s1 : St) (f : Inc → Inc) (X : Name → Prop)
    (hinc : s1.inc = s.inc)
    (hu : ∀ i, s.inc = some i → Upd i (f i) X)
    (hcat' : CatOk s1) (hnf' : ∀ n, clausesNow s1 n ≠ [] → factsDb s1 n = [])
    (hfacts : ∀ x, ¬ X x → factsDb s1 x = factsDb s x)
    (hcl : ∀ x, ¬ X x → clausesNow s1 x = clausesNow s x)
    (hXmat : ∀ i n m, s.inc = some i → aget (f i).mats n = some m → m.valid = true → ¬ X n)
    (hXedges : ∀ i n c, s.inc = some i → X n → c ∈ clausesNow s1 n → ∀ r ∈ bodyRels c, r ≠ n → n ∈ b2dOf (f i) r)
    (hcs' : convState (publish (mapInc s1 f)) = true) : FInv (publish (mapInc s1 f)) := by
  apply finv_publish _ hcs'
  cases hi : s.inc with
  | none =>
    exact fcore_noinc (s' := mapInc s1 f) (by simp [mapInc, hinc, hi]) ⟨hcat'.heads, hcat'.nodup⟩ hnf'
  | some i =>
    exact fcore_update (s' := mapInc s1 f) h i (f i) hi (by simp [mapInc, hinc, hi]) X (hu i hi)
      ⟨hcat'.heads, hcat'.nodup⟩ hnf' (conv_fresh_pub hcs') hfacts hcl (hXmat i · · hi) (hXedges i · · hi)

theorem valid_has_clauses {s : St} (h : FInv s) {i i' : Inc} {X : Name → Prop} (hi : s.inc = some i)
    (hu : Upd i i' X) {n : Name} {m : Mat} (hm : aget i'.mats n = some m) (hv : m.valid = true) :
    clausesNow s n ≠ [] := by
  obtain ⟨D, _, _, hvalid⟩ := hu.dirty
  exact (h.core.mats i n m hi (hvalid n m hm hv).1 hv).1

theorem catOk_same {s s1 : St} (h : CatOk s) (hc : s1.catalog = s.catalog) : CatOk s1 :=
  ⟨by rw [hc]; exact h.heads, by rw [hc]; exact h.nodup⟩

/-! ### base facts -/

theorem insRefused_none {s : St} {r : Name} {ts : List Tup} (h : insRefused s r ts = none) : clausesNow s r = [] := by
  unfold insRefused at h
  split at h
  · cases h
  · next hs =>
    unfold clausesNow
    cases hg : aget s.catalog r with
    | none => rfl
    | some v => simp [hg] at hs

theorem finv_ins {s : St} (h : FInv s) (r : Name) (ts : List Tup)
    (hcs' : convState (step s (.ins r ts)).1 = true) : FInv (step s (.ins r ts)).1 := by
  revert hcs'
  simp only [step]
  split
  · intro _; exact h
  split
  · intro _; exact h
  · next hnone =>
    have hrc := insRefused_none hnone
    unfold insApply
    simp only
    split
    · intro hcs'
      refine finv_mapInc h _ (·.notify r) (fun x => x = r) rfl (fun i _ => notify_upd i r)
        (catOk_same h.core.cat rfl) ?_ ?_ (fun _ _ => rfl) ?_ ?_ hcs'
      · intro n hn
        have hne : r ≠ n := by intro e; subst e; exact hn hrc
        show (aget (aset s.facts r _) n).getD [] = []
        rw [aget_aset_ne _ _ _ _ hne]; exact h.core.headsNoFacts n hn
      · intro x hx
        show (aget (aset s.facts r _) x).getD [] = _
        rw [aget_aset_ne _ _ _ _ (fun e => hx e.symm)]; rfl
      · intro i n m hi hm hv e
        subst e
        exact valid_has_clauses h hi (notify_upd i n) hm hv hrc
      · intro i n c _ e hc
        subst e
        have hc' : c ∈ clausesNow s n := hc
        rw [hrc] at hc'
        simp at hc'
    · intro _; exact h

theorem finv_del {s : St} (h : FInv s) (r : Name) (ts : List Tup)
    (hcs' : convState (step s (.del r ts)).1 = true) : FInv (step s (.del r ts)).1 := by
  revert hcs'
  simp only [step]
  split
  · intro _; exact h
  · next old hold =>
    split
    · next hpos =>
      have hrc : clausesNow s r = [] := by
        by_cases e : clausesNow s r = []
        · exact e
        · have h0 := h.core.headsNoFacts r e
          simp only [factsDb, hold, Option.getD_some] at h0
          subst h0
          simp at hpos
      intro hcs'
      refine finv_mapInc h _ (·.notify r) (fun x => x = r) rfl (fun i _ => notify_upd i r)
        (catOk_same h.core.cat rfl) ?_ ?_ (fun _ _ => rfl) ?_ ?_ hcs'
      · intro n hn
        have hne : r ≠ n := by intro e; subst e; exact hn hrc
        show (aget (aset s.facts r _) n).getD [] = []
        rw [aget_aset_ne _ _ _ _ hne]; exact h.core.headsNoFacts n hn
      · intro x hx
        show (aget (aset s.facts r _) x).getD [] = _
        rw [aget_aset_ne _ _ _ _ (fun e => hx e.symm)]; rfl
      · intro i n m hi hm hv e
        subst e
        exact valid_has_clauses h hi (notify_upd i n) hm hv hrc
      · intro i n c _ e hc
        subst e
        have hc' : c ∈ clausesNow s n := hc
        rw [hrc] at hc'
        simp at hc'
    · intro _; exact h

theorem clrpFacts_get (s : St) (pre x : Name) :
    (aget (clrpFacts s pre) x).getD [] = if (akeys (clrpHit s pre)).contains x = true then [] else factsDb s x := by
  unfold clrpFacts
  rw [aget_map_val s.facts (fun k v => if (akeys (clrpHit s pre)).contains k = true then ([] : List Tup) else v)]
  unfold factsDb
  cases aget s.facts x with
  | none => simp
  | some v => simp

theorem clrpHit_noclauses {s : St} (h : FInv s) (pre r : Name) (hr : r ∈ akeys (clrpHit s pre)) : clausesNow s r = [] := by
  obtain ⟨⟨a, c⟩, hm, rfl⟩ := List.mem_map.mp hr
  obtain ⟨k, _, hk⟩ := List.mem_filterMap.mp hm
  by_cases e : clausesNow s a = []
  · exact e
  · have h0 := h.core.headsNoFacts a e
    by_cases hz : ((aget s.facts k).getD []).length = 0
    · simp [hz] at hk
    · simp only [hz, if_false, Option.some.injEq, Prod.mk.injEq] at hk
      rw [← hk.1] at h0
      simp only [factsDb] at h0
      rw [h0] at hz
      simp at hz

theorem finv_clrp {s : St} (h : FInv s) (pre : Name)
    (hcs' : convState (step s (.clrp pre)).1 = true) : FInv (step s (.clrp pre)).1 := by
  revert hcs'
  simp only [step]
  split
  · intro _; exact h
  · intro hcs'
    refine finv_mapInc h _ (fun i => (akeys (clrpHit s pre)).foldl Inc.notify i) (fun x => x ∈ akeys (clrpHit s pre)) rfl
      (fun i _ => foldNotify_upd _ i) (catOk_same h.core.cat rfl) ?_ ?_ (fun _ _ => rfl) ?_ ?_ hcs'
    · intro n hn
      show (aget (clrpFacts s pre) n).getD [] = []
      rw [clrpFacts_get]
      split
      · rfl
      · exact h.core.headsNoFacts n hn
    · intro x hx
      show (aget (clrpFacts s pre) x).getD [] = _
      rw [clrpFacts_get]
      have : (akeys (clrpHit s pre)).contains x = false := by
        cases hcc : (akeys (clrpHit s pre)).contains x with
        | false => rfl
        | true => exact absurd (contains_iff.mp hcc) hx
      rw [this]; rfl
    · intro i n m hi hm hv hx
      exact valid_has_clauses h hi (foldNotify_upd _ i) hm hv (clrpHit_noclauses h pre n hx)
    · intro i n c _ hx hc
      have hc' : c ∈ clausesNow s n := hc
      rw [clrpHit_noclauses h pre n hx] at hc'
      simp at hc'

/-! ### rule edits -/

/-- the catalogue entry of `x` becomes `cls` (or disappears when `cls = []` and `erase`). -/
theorem finv_edit {s : St} (h : FInv s) (x : Name) (cat' : List (Name × List Clause)) (cls : List Clause)
    (hget : aget cat' x = some cls ∨ (aget cat' x = none ∧ cls = []))
    (hother : ∀ n, n ≠ x → aget cat' n = aget s.catalog n)
    (hmem : ∀ k cs, (k, cs) ∈ cat' → (k, cs) ∈ s.catalog ∨ (k = x ∧ cs = cls))
    (hnd : (akeys cat').Nodup)
    (hheads : ∀ c ∈ cls, c.head.rel = x)
    (hfx : cls ≠ [] → factsDb s x = [])
    (hcs' : convState (publish (mapInc { s with catalog := cat' } fun i => i.reindex x cls)) = true) :
    FInv (publish (mapInc { s with catalog := cat' } fun i => i.reindex x cls)) := by
  have hclx : clausesNow { s with catalog := cat' } x = cls := by
    unfold clausesNow
    rcases hget with e | ⟨e, e2⟩
    · simp [e]
    · simp [e, e2]
  refine finv_mapInc h _ _ (fun y => y = x) rfl (fun i _ => reindex_upd i x cls) ⟨?_, hnd⟩ ?_ (fun _ _ => rfl) ?_ ?_ ?_ hcs'
  · intro k cs hm c hc
    rcases hmem k cs hm with e | ⟨e1, e2⟩
    · exact h.core.cat.heads k cs e c hc
    · subst e2; rw [e1]; exact hheads c hc
  · intro n hn
    by_cases e : n = x
    · subst e
      rw [hclx] at hn
      exact hfx hn
    · have : clausesNow { s with catalog := cat' } n = clausesNow s n := by
        unfold clausesNow; rw [show ({ s with catalog := cat' } : St).catalog = cat' from rfl, hother n e]
      rw [this] at hn
      exact h.core.headsNoFacts n hn
  · intro n hn
    unfold clausesNow
    rw [show ({ s with catalog := cat' } : St).catalog = cat' from rfl, hother n hn]
  · intro i n m _ hm hv
    exact (reindex_mats i x cls n m hm hv).2.1
  · intro i n c _ e hc r hr hrn
    subst e
    rw [hclx] at hc
    have hne : cls.isEmpty = false := by
      cases cls with
      | nil => simp at hc
      | cons _ _ => rfl
    exact reindex_newEdges i n cls hne r ((mem_allDeps cls n r).mpr ⟨⟨c, hc, hr⟩, hrn⟩)

theorem regCls_mem {s : St} (h : FInv s) (c : Clause) : ∀ c' ∈ regCls s c, c'.head.rel = c.head.rel := by
  intro c' hc'
  unfold regCls at hc'
  cases hg : aget s.catalog c.head.rel with
  | none =>
    simp only [hg, List.mem_singleton] at hc'
    subst hc'; rfl
  | some cs =>
    have hold := h.core.cat.heads _ cs (aget_some_mem hg)
    simp only [hg] at hc'
    split at hc'
    · exact hold c' hc'
    · rcases List.mem_append.mp hc' with e | e
      · exact hold c' e
      · simp only [List.mem_singleton] at e
        subst e; rfl

theorem finv_reg {s : St} (h : FInv s) (c : Clause) (hw : stepWellUsed s (.reg c) = true)
    (hcs' : convState (step s (.reg c)).1 = true) : FInv (step s (.reg c)).1 := by
  revert hcs'
  simp only [step]
  split
  · intro _; exact h
  unfold regApply
  simp only
  intro hcs'
  refine finv_edit h c.head.rel _ (regCls s c) (Or.inl (aget_aset_eq _ _ _))
    (fun n hn => aget_aset_ne _ _ _ _ (fun e => hn e.symm)) ?_ (nodup_aset _ _ h.core.cat.nodup)
    (regCls_mem h c) ?_ hcs'
  · intro k cs hm
    rcases mem_aset hm with ⟨e1, e2⟩ | e
    · exact Or.inr ⟨e1, e2⟩
    · exact Or.inl e
  · intro _
    simpa [stepWellUsed] using hw

theorem finv_rmc {s : St} (h : FInv s) (n : Name) (k : Nat)
    (hcs' : convState (step s (.rmc n k)).1 = true) : FInv (step s (.rmc n k)).1 := by
  revert hcs'
  simp only [step]
  split
  · intro _; exact h
  · next cs hcs =>
    have hold := h.core.cat.heads n cs (aget_some_mem hcs)
    split
    · intro _; exact h
    · next hk =>
      have hne : cs ≠ [] := by
        intro e; subst e; simp at hk
      have hfx : factsDb s n = [] := h.core.headsNoFacts n (by simp [clausesNow, hcs, hne])
      split
      · intro hcs'
        refine finv_edit h n _ [] (Or.inr ⟨aget_aerase_eq _ _, rfl⟩)
          (fun m hm => aget_aerase_ne _ _ _ (fun e => hm e.symm)) ?_ (nodup_aerase _ h.core.cat.nodup)
          (by simp) (fun e => absurd rfl e) hcs'
        intro k' cs' hm; exact Or.inl (mem_aerase hm).1
      · intro hcs'
        refine finv_edit h n _ (removeAt cs k) (Or.inl (aget_aset_eq _ _ _))
          (fun m hm => aget_aset_ne _ _ _ _ (fun e => hm e.symm)) ?_ (nodup_aset _ _ h.core.cat.nodup)
          (fun c hc => hold c (mem_removeAt _ _ _ hc)) (fun _ => hfx) hcs'
        intro k' cs' hm
        rcases mem_aset hm with ⟨e1, e2⟩ | e
        · exact Or.inr ⟨e1, e2⟩
        · exact Or.inl e

theorem finv_rep {s : St} (h : FInv s) (n : Name) (k : Nat) (c : Clause) (hw : stepWellUsed s (.rep n k c) = true)
    (hcs' : convState (step s (.rep n k c)).1 = true) : FInv (step s (.rep n k c)).1 := by
  simp only [stepWellUsed, Bool.and_eq_true, beq_iff_eq, List.isEmpty_iff] at hw
  revert hcs'
  simp only [step]
  split
  · intro _; exact h
  · next cs hcs =>
    have hold := h.core.cat.heads n cs (aget_some_mem hcs)
    split
    · intro _; exact h
    · split
      · intro _; exact h
      · intro hcs'
        refine finv_edit h n _ (replaceAt cs k c) (Or.inl (aget_aset_eq _ _ _))
          (fun m hm => aget_aset_ne _ _ _ _ (fun e => hm e.symm)) ?_ (nodup_aset _ _ h.core.cat.nodup)
          ?_ (fun _ => hw.2) hcs'
        · intro k' cs' hm
          rcases mem_aset hm with ⟨e1, e2⟩ | e
          · exact Or.inr ⟨e1, e2⟩
          · exact Or.inl e
        · intro c' hc'
          rcases mem_replaceAt _ _ _ _ hc' with e | e
          · subst e; exact hw.1
          · exact hold c' e

theorem finv_clr {s : St} (h : FInv s) (n : Name)
    (hcs' : convState (step s (.clr n)).1 = true) : FInv (step s (.clr n)).1 := by
  revert hcs'
  simp only [step]
  split
  · intro _; exact h
  · intro hcs'
    refine finv_edit h n _ [] (Or.inl (aget_aset_eq _ _ _))
      (fun m hm => aget_aset_ne _ _ _ _ (fun e => hm e.symm)) ?_ (nodup_aset _ _ h.core.cat.nodup)
      (by simp) (fun e => absurd rfl e) hcs'
    intro k' cs' hm
    rcases mem_aset hm with ⟨e1, e2⟩ | e
    · exact Or.inr ⟨e1, e2⟩
    · exact Or.inl e

theorem finv_drop {s : St} (h : FInv s) (n : Name)
    (hcs' : convState (step s (.drop n)).1 = true) : FInv (step s (.drop n)).1 := by
  revert hcs'
  simp only [step]
  split
  · intro _; exact h
  · intro hcs'
    refine finv_edit h n _ [] (Or.inr ⟨aget_aerase_eq _ _, rfl⟩)
      (fun m hm => aget_aerase_ne _ _ _ (fun e => hm e.symm)) ?_ (nodup_aerase _ h.core.cat.nodup)
      (by simp) (fun e => absurd rfl e) hcs'
    intro k' cs' hm; exact Or.inl (mem_aerase hm).1

/-! ### drops of several names, of a relation -/

theorem aget_foldl_aerase {β : Type} (ns : List Name) (l : List (Name × β)) (n : Name) :
    aget (ns.foldl aerase l) n = if n ∈ ns then none else aget l n := by
  induction ns generalizing l with
  | nil => simp
  | cons a ns ih =>
    simp only [List.foldl_cons]
    rw [ih]
    by_cases e : a = n
    · subst e
      by_cases hm : a ∈ ns
      · simp [hm]
      · simp only [hm, if_false, List.mem_cons, true_or, if_true]
        exact aget_aerase_eq _ _
    · have : ¬ n = a := fun e' => e e'.symm
      by_cases hm : n ∈ ns
      · simp [hm]
      · simp only [hm, if_false, List.mem_cons, this, or_self]
        exact aget_aerase_ne _ _ _ e

theorem mem_foldl_aerase {β : Type} (ns : List Name) (l : List (Name × β)) (p : Name × β) (h : p ∈ ns.foldl aerase l) : p ∈ l := by
  induction ns generalizing l with
  | nil => exact h
  | cons a ns ih =>
    simp only [List.foldl_cons] at h
    exact (mem_aerase (ih _ h)).1

theorem nodup_foldl_aerase {β : Type} (ns : List Name) (l : List (Name × β)) (h : (akeys l).Nodup) :
    (akeys (ns.foldl aerase l)).Nodup := by
  induction ns generalizing l with
  | nil => exact h
  | cons a ns ih => simp only [List.foldl_cons]; exact ih _ (nodup_aerase a h)

theorem finv_dropp {s : St} (h : FInv s) (pre : Name)
    (hcs' : convState (step s (.dropp pre)).1 = true) : FInv (step s (.dropp pre)).1 := by
  revert hcs'
  simp only [step]
  split
  · intro _; exact h
  · intro hcs'
    have hcl0 : ∀ n, n ∈ droppNames s pre → clausesNow { s with catalog := (droppNames s pre).foldl aerase s.catalog } n = [] := by
      intro n hn
      unfold clausesNow
      rw [show ({ s with catalog := (droppNames s pre).foldl aerase s.catalog } : St).catalog = _ from rfl,
        aget_foldl_aerase]
      simp [hn]
    refine finv_mapInc h _ _ (fun x => x ∈ droppNames s pre) rfl (fun i _ => foldReindex_upd _ i)
      ⟨fun k cs hm => h.core.cat.heads k cs (mem_foldl_aerase _ _ _ hm), nodup_foldl_aerase _ _ h.core.cat.nodup⟩
      ?_ (fun _ _ => rfl) ?_ ?_ ?_ hcs'
    · intro n hn
      by_cases e : n ∈ droppNames s pre
      · exact absurd (hcl0 n e) hn
      · have : clausesNow { s with catalog := (droppNames s pre).foldl aerase s.catalog } n = clausesNow s n := by
          unfold clausesNow
          rw [show ({ s with catalog := (droppNames s pre).foldl aerase s.catalog } : St).catalog = _ from rfl,
            aget_foldl_aerase]
          simp [e]
        rw [this] at hn
        exact h.core.headsNoFacts n hn
    · intro x hx
      unfold clausesNow
      rw [show ({ s with catalog := (droppNames s pre).foldl aerase s.catalog } : St).catalog = _ from rfl,
        aget_foldl_aerase]
      simp [hx]
    · intro i n m _ hm hv
      exact foldReindex_mats_notin _ i n m hm hv
    · intro i n c _ hx hc
      rw [hcl0 n hx] at hc
      simp at hc

theorem finv_drel {s : St} (h : FInv s) (r : Name)
    (hcs' : convState (step s (.drel r)).1 = true) : FInv (step s (.drel r)).1 := by
  revert hcs'
  simp only [step]
  split
  · intro _; exact h
  · intro hcs'
    have hclr : clausesNow { s with facts := aerase s.facts r, arity := aerase s.arity r, catalog := aerase s.catalog r } r = [] := by
      simp [clausesNow, aget_aerase_eq]
    have hcln : ∀ n, n ≠ r → clausesNow { s with facts := aerase s.facts r, arity := aerase s.arity r, catalog := aerase s.catalog r } n = clausesNow s n := by
      intro n hn
      unfold clausesNow
      rw [show ({ s with facts := aerase s.facts r, arity := aerase s.arity r, catalog := aerase s.catalog r } : St).catalog = aerase s.catalog r from rfl,
        aget_aerase_ne _ _ _ (fun e => hn e.symm)]
    refine finv_mapInc h _ (fun i => (i.notify r).remove r) (fun x => x = r) rfl (fun i _ => drel_upd i r)
      ⟨fun k cs hm => h.core.cat.heads k cs (mem_aerase hm).1, nodup_aerase _ h.core.cat.nodup⟩
      ?_ ?_ (fun x hx => hcln x hx) ?_ ?_ hcs'
    · intro n hn
      by_cases e : n = r
      · subst e; exact absurd hclr hn
      · rw [hcln n e] at hn
        show (aget (aerase s.facts r) n).getD [] = []
        rw [aget_aerase_ne _ _ _ (fun e' => e e'.symm)]
        exact h.core.headsNoFacts n hn
    · intro x hx
      show (aget (aerase s.facts r) x).getD [] = _
      rw [aget_aerase_ne _ _ _ (fun e' => hx e'.symm)]; rfl
    · intro i n m _ hm _
      exact drel_mats_ne i r n m hm
    · intro i n c _ e hc
      subst e
      rw [hclr] at hc
      simp at hc

/-! ### the engine itself, materialisation -/

theorem foldRegister_mats (l : List (Name × List Clause)) (i : Inc) :
    (l.foldl (fun i p => if p.2.isEmpty then i else i.register p.1 (allDeps p.2 p.1)) i).mats = i.mats := by
  induction l generalizing i with
  | nil => rfl
  | cons p l ih =>
    simp only [List.foldl_cons]
    rw [ih]
    split <;> rfl

theorem foldRegister_d2d (l : List (Name × List Clause)) (i : Inc) :
    (l.foldl (fun i p => if p.2.isEmpty then i else i.register p.1 (allDeps p.2 p.1)) i).d2d = i.d2d := by
  induction l generalizing i with
  | nil => rfl
  | cons p l ih =>
    simp only [List.foldl_cons]
    rw [ih]
    split <;> rfl

theorem foldRegister_mono (l : List (Name × List Clause)) (i : Inc) (x r : Name) (h : x ∈ b2dOf i r) :
    x ∈ b2dOf (l.foldl (fun i p => if p.2.isEmpty then i else i.register p.1 (allDeps p.2 p.1)) i) r := by
  induction l generalizing i with
  | nil => exact h
  | cons p l ih =>
    simp only [List.foldl_cons]
    apply ih
    split
    · exact h
    · show x ∈ (aget (regB2d i.b2d (allDeps p.2 p.1) p.1) r).getD []
      exact regB2d_mono _ _ _ _ _ h

theorem foldRegister_edges (l : List (Name × List Clause)) (i : Inc) (n : Name) (cs : List Clause)
    (hm : (n, cs) ∈ l) (hne : cs ≠ []) (r : Name) (hr : r ∈ allDeps cs n) :
    n ∈ b2dOf (l.foldl (fun i p => if p.2.isEmpty then i else i.register p.1 (allDeps p.2 p.1)) i) r := by
  induction l generalizing i with
  | nil => simp at hm
  | cons p l ih =>
    simp only [List.foldl_cons]
    rcases List.mem_cons.mp hm with e | e
    · subst e
      apply foldRegister_mono
      have : cs.isEmpty = false := by
        cases cs with
        | nil => exact absurd rfl hne
        | cons _ _ => rfl
      simp only [this, Bool.false_eq_true, if_false]
      show n ∈ (aget (regB2d i.b2d (allDeps cs n) n) r).getD []
      exact regB2d_new _ _ _ _ hr
    · exact ih _ e

theorem mkSnap_hasIndex (s : St) (i : Inc) (b : Bool) (hi : s.inc = some i) :
    mkSnap { s with inc := some { i with hasIndex := b } } = mkSnap s := by
  simp [mkSnap, hi, validMats, isValid]

theorem fcore_hasIndex {s : St} (hI : FCore s) (i : Inc) (b : Bool) (hi : s.inc = some i) :
    FCore { s with inc := some { i with hasIndex := b } } := by
  refine ⟨⟨hI.cat.heads, hI.cat.nodup⟩, hI.headsNoFacts, ?_, ?_, ?_, ?_⟩
  · intro i' hi'
    simp only [Option.some.injEq] at hi'; subst hi'
    exact hI.matsNodup i hi
  · intro i' hi'
    simp only [Option.some.injEq] at hi'; subst hi'
    exact hI.d2d i hi
  · intro i' hi' n c hc r hr hrn
    simp only [Option.some.injEq] at hi'; subst hi'
    exact hI.edges i hi n c hc r hr hrn
  · intro i' n m hi' hm hv
    simp only [Option.some.injEq] at hi'; subst hi'
    exact hI.mats i n m hi hm hv

theorem finv_idx {s : St} (h : FInv s) (hcs' : convState (step s .idx).1 = true) : FInv (step s .idx).1 := by
  revert hcs'
  simp only [step]
  split
  · next hnone =>
    intro hcs'
    have hm0 : (enableInc s).mats = [] := by
      unfold enableInc; rw [foldRegister_mats]
    refine ⟨⟨⟨h.core.cat.heads, h.core.cat.nodup⟩, h.core.headsNoFacts, ?_, ?_, ?_, ?_⟩, ?_, hcs'⟩
    · intro i' hi'
      simp only [Option.some.injEq] at hi'; subst hi'; simp [hm0, akeys]
    · intro i' hi'
      simp only [Option.some.injEq] at hi'; subst hi'
      unfold enableInc; rw [foldRegister_d2d]
    · intro i' hi' n c hc r hr hrn
      simp only [Option.some.injEq] at hi'; subst hi'
      have hc' : c ∈ clausesNow s n := hc
      unfold clausesNow at hc'
      cases hg : aget s.catalog n with
      | none => simp [hg] at hc'
      | some cs =>
        simp only [hg, Option.getD_some] at hc'
        have hne : cs ≠ [] := by intro e; subst e; simp at hc'
        exact foldRegister_edges s.catalog _ n cs (aget_some_mem hg) hne r
          ((mem_allDeps cs n r).mpr ⟨⟨c, hc', hr⟩, hrn⟩)
    · intro i' n m hi' hm
      simp only [Option.some.injEq] at hi'; subst hi'
      rw [hm0] at hm; simp [aget] at hm
    · show s.snap = _
      rw [h.snap]
      simp only [mkSnap, hnone, validMats, isValid, hm0, aget, mergeMats, List.filterMap_nil, Bool.not_false]
      rw [List.filter_eq_self.mpr (fun _ _ => rfl)]
  · next i hi =>
    split
    · intro _; exact h
    · intro hcs'
      refine ⟨fcore_hasIndex h.core i true hi, ?_, hcs'⟩
      show s.snap = _
      rw [mkSnap_hasIndex s i true hi]; exact h.snap

theorem finv_idxdrop {s : St} (h : FInv s) (hcs' : convState (step s .idxdrop).1 = true) :
    FInv (step s .idxdrop).1 := by
  revert hcs'
  simp only [step]
  split
  · intro _; exact h
  · next i hi =>
    split
    · intro hcs'
      refine ⟨fcore_hasIndex h.core i false hi, ?_, hcs'⟩
      show s.snap = _
      rw [mkSnap_hasIndex s i false hi]; exact h.snap
    · intro _; exact h

theorem finv_mat {s : St} (h : FInv s) (n : Name) (ar : Nat) (hw : stepWellUsed s (.mat n ar) = true)
    (hcs' : convState (step s (.mat n ar)).1 = true) : FInv (step s (.mat n ar)).1 := by
  revert hcs'
  simp only [step]
  split
  · intro _; exact h
  · next i hi =>
    intro hcs'
    apply finv_publish _ hcs'
    simp only [stepWellUsed, Bool.and_eq_true, Bool.not_eq_eq_eq_not, Bool.not_true] at hw
    have hne : clausesNow s n ≠ [] := by
      intro e; rw [e] at hw; simp at hw
    have hset := (setEqb_iff _ _).mp hw.2
    refine ⟨⟨h.core.cat.heads, h.core.cat.nodup⟩, h.core.headsNoFacts, ?_, ?_, ?_, ?_⟩
    · intro i' hi'
      simp only [Option.some.injEq] at hi'; subst hi'
      exact nodup_aset _ _ (h.core.matsNodup i hi)
    · intro i' hi'
      simp only [Option.some.injEq] at hi'; subst hi'
      exact h.core.d2d i hi
    · intro i' hi' n' c hc r hr hrn
      simp only [Option.some.injEq] at hi'; subst hi'
      exact h.core.edges i hi n' c hc r hr hrn
    · intro i' n' m hi' hm hv
      simp only [Option.some.injEq] at hi'; subst hi'
      by_cases e : n = n'
      · subst e
        simp only [Inc.setMat, aget_aset_eq, Option.some.injEq] at hm
        subst hm
        exact ⟨hne, hset⟩
      · simp only [Inc.setMat] at hm
        rw [aget_aset_ne _ _ _ _ e] at hm
        exact h.core.mats i n' m hi hm hv

/-! ### all steps, all histories -/

theorem finv_step {s : St} (h : FInv s) (st : Step) (hw : stepWellUsed s st = true)
    (hcs' : convState (step s st).1 = true) : FInv (step s st).1 := by
  cases st with
  | ins r ts => exact finv_ins h r ts hcs'
  | del r ts => exact finv_del h r ts hcs'
  | reg c => exact finv_reg h c hw hcs'
  | rmc n k => exact finv_rmc h n k hcs'
  | rep n k c => exact finv_rep h n k c hw hcs'
  | clr n => exact finv_clr h n hcs'
  | drop n => exact finv_drop h n hcs'
  | dropp pre => exact finv_dropp h pre hcs'
  | drel r => exact finv_drel h r hcs'
  | clrp pre => exact finv_clrp h pre hcs'
  | idx => exact finv_idx h hcs'
  | idxdrop => exact finv_idxdrop h hcs'
  | mat n ar => exact finv_mat h n ar hw hcs'
  | q a => exact h
  | m => exact h

theorem finv_init : FInv init := by
  refine ⟨⟨⟨?_, ?_⟩, ?_, ?_, ?_, ?_, ?_⟩, rfl, by decide⟩
  · intro k cs h; simp [init] at h
  · simp [init, akeys]
  · intro n hn; simp [clausesNow, init, aget] at hn
  · intro i h; simp [init] at h
  · intro i h; simp [init] at h
  · intro i h; simp [init] at h
  · intro i n m h; simp [init] at h

theorem convState_always (s : St) : convState s = true := by
  simp [convState, conv_always]

theorem finv_runFrom (l : List Step) {s : St} (h : FInv s) (hw : wellUsed s l = true) : FInv (runFrom s l) := by
  induction l generalizing s with
  | nil => exact h
  | cons st l ih =>
    simp only [wellUsed, Bool.and_eq_true] at hw
    exact ih (finv_step h st hw.1 (convState_always _)) hw.2

theorem finv_run (l : List Step) (hw : wellUsed init l = true) : FInv (run l) :=
  finv_runFrom l finv_init hw

end ILV.C18
