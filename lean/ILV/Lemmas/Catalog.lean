/-
  Helper lemmas for C16: the abstract file system (`get`/`put`/`del`/`crash`), the shape of a catalog
  operation's effect, and the consistency invariant "what a reopen would load = what is in memory".
-/
import ILV.Model.Catalog
namespace ILV
open ILV.FS ILV.Cat

namespace FS
variable {π ρ : Type} [DecidableEq π]

theorem get_del (fs : Files π ρ) (p q : π) : get (del fs p) q = if q = p then none else get fs q := by
  induction fs with
  | nil => simp [del, get]
  | cons e rest ih =>
    obtain ⟨k, f⟩ := e
    by_cases hk : k = p
    · subst hk
      simp only [del, if_true, ih]
      by_cases hq : q = k
      · simp [hq]
      · have : ¬ k = q := fun h => hq h.symm
        simp [get, hq, this]
    · simp only [del, hk, if_false, get, ih]
      by_cases hkq : k = q
      · subst hkq; simp [hk]
      · simp [hkq]

theorem get_put (fs : Files π ρ) (p q : π) (f : File ρ) :
    get (put fs p f) q = if p = q then some f else get fs q := by
  simp only [put, get, get_del]
  by_cases h : p = q
  · simp [h]
  · have : ¬ q = p := fun e => h e.symm
    simp [h, this]

theorem get_crash (fs : Files π ρ) (cuts : π → Option Cut) (p : π) :
    get (crash fs cuts) p = (get fs p).map (fun f => crashFile f (cuts p)) := by
  induction fs with
  | nil => simp [crash, get]
  | cons e rest ih =>
    obtain ⟨k, f⟩ := e
    simp only [crash, get, ih]
    by_cases hk : k = p
    · subst hk; simp
    · simp [hk]

theorem crashFile_idem (f : File ρ) : crashFile (crashFile f none) none = crashFile f none := by
  simp [crashFile]

omit [DecidableEq π] in
theorem crash_idem (fs : Files π ρ) : crash (crash fs noCut) noCut = crash fs noCut := by
  induction fs with
  | nil => rfl
  | cons e rest ih =>
    obtain ⟨k, f⟩ := e
    simp only [crash, ih, noCut, crashFile_idem]

end FS

namespace Cat

theorem aDel_of_none {α} (l : List (Name × α)) (k : Name) (h : aGet l k = none) : aDel l k = l := by
  induction l with
  | nil => rfl
  | cons e rest ih =>
    obtain ⟨q, v⟩ := e
    by_cases hq : q = k
    · simp [aGet, hq] at h
    · simp only [aGet, hq, if_false] at h
      simp [aDel, hq, ih h]

theorem filter_noPrefix (l : RuleCat) (p : Name)
    (h : (l.map (·.1)).filter (fun k => p.isPrefixOf k) = []) :
    l.filter (fun e => !(p.isPrefixOf e.1)) = l := by
  induction l with
  | nil => rfl
  | cons e rest ih =>
    simp only [List.map_cons, List.filter_cons] at h
    by_cases hp : p.isPrefixOf e.1 = true
    · simp [hp] at h
    · simp only [hp] at h
      simp only [List.filter_cons, hp]
      simp [ih h]

/-- the FS effect of one catalog operation is nothing, one rule-catalog save, one schema-catalog save, or (for
    `drop_relation` on a name that is both) a schema-catalog save followed by a rule-catalog save; the rule catalog
    and the *persistent* schema map change accordingly (the session map is never written). -/
theorem step_cases (m : Mem) (o : COp) :
    ((step m o).2.2 = [] ∧ (step m o).2.1.rules = m.rules ∧ (step m o).2.1.schemas = m.schemas) ∨
    (∃ r, (step m o).2.2 = saveRules r ∧ (step m o).2.1.rules = r ∧ (step m o).2.1.schemas = m.schemas) ∨
    (∃ s, (step m o).2.2 = saveSchemas s ∧ (step m o).2.1.rules = m.rules ∧ (step m o).2.1.schemas = s) ∨
    (∃ r s, (step m o).2.2 = saveSchemas s ++ saveRules r ∧ (step m o).2.1.rules = r ∧ (step m o).2.1.schemas = s) := by
  cases o <;> simp only [step] <;> repeat' split
  all_goals first
    | exact .inl ⟨trivial, trivial, trivial⟩
    | exact .inl ⟨rfl, rfl, rfl⟩
    | exact .inr (.inl ⟨_, rfl, rfl, rfl⟩)
    | exact .inr (.inr (.inl ⟨_, rfl, rfl, rfl⟩))
    | exact .inr (.inr (.inr ⟨_, _, rfl, rfl, rfl⟩))
    | (refine .inl ⟨rfl, ?_, rfl⟩; rename_i hhit; simp only [filter_noPrefix _ _ hhit])

/-! ### the invariant: the catalog files are complete, fully synced documents holding what is in memory -/

def docFile (doc : Doc) : File Doc := { synced := [.whole doc], unsynced := [] }

def RulesOk (d : Disk) (r : RuleCat) : Prop :=
  (get d .ruleCat = none ∧ r = []) ∨ get d .ruleCat = some (docFile (.rules r))

def SchemasOk (d : Disk) (s : SchemaCat) : Prop :=
  (get d .schemaCat = none ∧ s = []) ∨ get d .schemaCat = some (docFile (.schemas s))

structure Solid (st : St) : Prop where
  rules : RulesOk st.disk st.mem.rules
  schemas : SchemasOk st.disk st.mem.schemas

theorem solid_init : Solid {} := ⟨.inl ⟨rfl, rfl⟩, .inl ⟨rfl, rfl⟩⟩

theorem crashFile_docFile (doc : Doc) (c : Option Cut) : crashFile (docFile doc) c = docFile doc := by
  cases c with
  | none => simp [crashFile, docFile]
  | some c =>
    obtain ⟨k, fr⟩ := c
    cases fr <;> simp [crashFile, docFile, cutItems]

/-- a synced catalog file is immune to every crash: whatever is cut, the loader reads memory's catalog. -/
theorem loadRules_crash {d : Disk} {r : RuleCat} (h : RulesOk d r) (cuts : Path → Option Cut) :
    loadRules (crash d cuts) = some r := by
  rcases h with ⟨h, hr⟩ | h
  · simp [loadRules, get_crash, h, hr]
  · simp only [loadRules, get_crash, h, Option.map_some, crashFile_docFile]
    simp [parseDoc, docFile, File.items]

theorem loadSchemas_crash {d : Disk} {s : SchemaCat} (h : SchemasOk d s) (cuts : Path → Option Cut) :
    loadSchemas (crash d cuts) = s := by
  rcases h with ⟨h, hs⟩ | h
  · simp [loadSchemas, get_crash, h, hs]
  · simp only [loadSchemas, get_crash, h, Option.map_some, crashFile_docFile]
    simp [parseDoc, docFile, File.items]

theorem rulesOk_crash {d : Disk} {r : RuleCat} (h : RulesOk d r) (cuts : Path → Option Cut) :
    RulesOk (crash d cuts) r := by
  rcases h with ⟨h, hr⟩ | h
  · exact .inl ⟨by simp [get_crash, h], hr⟩
  · exact .inr (by simp [get_crash, h, crashFile_docFile])

theorem schemasOk_crash {d : Disk} {s : SchemaCat} (h : SchemasOk d s) (cuts : Path → Option Cut) :
    SchemasOk (crash d cuts) s := by
  rcases h with ⟨h, hs⟩ | h
  · exact .inl ⟨by simp [get_crash, h], hs⟩
  · exact .inr (by simp [get_crash, h, crashFile_docFile])

theorem recover_of_ok {d : Disk} {r : RuleCat} {s : SchemaCat} (hr : RulesOk d r) (hs : SchemasOk d s)
    (cuts : Path → Option Cut) : recover (crash d cuts) = some { rules := r, schemas := s } := by
  simp [recover, loadRules_crash hr cuts, loadSchemas_crash hs cuts]

/-! ### a save, step by step -/

theorem take_five {α} (a b c d e : α) (j : Nat) :
    [a, b, c, d, e].take j = [] ∨ [a, b, c, d, e].take j = [a] ∨ [a, b, c, d, e].take j = [a, b] ∨
    [a, b, c, d, e].take j = [a, b, c] ∨ [a, b, c, d, e].take j = [a, b, c, d] ∨
    [a, b, c, d, e].take j = [a, b, c, d, e] := by
  match j with
  | 0 => simp
  | 1 => simp
  | 2 => simp
  | 3 => simp
  | 4 => simp
  | n + 5 => simp

theorem get_rename (d : Disk) (a b q : Path) (f : File Doc) (h : get d a = some f) :
    get (apply d (.rename a b)) q = if b = q then some f else if q = a then none else get d q := by
  simp [apply, h, get_put, get_del]

/-- after any prefix of `saveRules r'`, the rule catalog file is old or new (new once the rename happened), and
    the schema catalog file is untouched. -/
theorem saveRules_prefix (d : Disk) (r r' : RuleCat) (s : SchemaCat) (hr : RulesOk d r) (hs : SchemasOk d s)
    (j : Nat) :
    (RulesOk (applyAll d ((saveRules r').take j)) r ∨ RulesOk (applyAll d ((saveRules r').take j)) r') ∧
    SchemasOk (applyAll d ((saveRules r').take j)) s ∧
    (5 ≤ j → RulesOk (applyAll d ((saveRules r').take j)) r') := by
  have hw : get (apply d (.write .ruleTmp [.rules r'])) .ruleTmp = some { synced := [], unsynced := [.whole (.rules r')] } := by
    simp [apply, get_put]
  have hf : get (apply (apply d (.write .ruleTmp [.rules r'])) (.fsync .ruleTmp)) .ruleTmp = some (docFile (.rules r')) := by
    simp [apply, get_put, docFile, File.items]
  have keepR : ∀ x : Disk, (∀ q, q ≠ Path.ruleTmp → get x q = get d q) → RulesOk x r := by
    intro x hx
    rcases hr with ⟨h, e⟩ | h
    · exact .inl ⟨by rw [hx _ (by decide)]; exact h, e⟩
    · exact .inr (by rw [hx _ (by decide)]; exact h)
  have keepS : ∀ x : Disk, (get x .schemaCat = get d .schemaCat) → SchemasOk x s := by
    intro x hx
    rcases hs with ⟨h, e⟩ | h
    · exact .inl ⟨by rw [hx]; exact h, e⟩
    · exact .inr (by rw [hx]; exact h)
  have e1 : ∀ q, q ≠ Path.ruleTmp → get (apply d (.write .ruleTmp [.rules r'])) q = get d q := by
    intro q hq
    have : ¬ Path.ruleTmp = q := fun e => hq e.symm
    simp [apply, get_put, this]
  have e2 : ∀ q, q ≠ Path.ruleTmp →
      get (apply (apply d (.write .ruleTmp [.rules r'])) (.fsync .ruleTmp)) q = get d q := by
    intro q hq
    have : ¬ Path.ruleTmp = q := fun e => hq e.symm
    simp [apply, get_put, this]
  have e3 : ∀ q, get (apply (apply (apply d (.write .ruleTmp [.rules r'])) (.fsync .ruleTmp)) (.rename .ruleTmp .ruleCat)) q =
      if Path.ruleCat = q then some (docFile (.rules r')) else if q = Path.ruleTmp then none else get d q := by
    intro q
    rw [get_rename _ _ _ _ _ hf]
    by_cases h1 : Path.ruleCat = q
    · simp [h1]
    · by_cases h2 : q = Path.ruleTmp
      · simp [h1, h2]
      · simp [h1, h2, e2 q h2]
  rcases take_five (Op.nop lblRuleMkdir) (Op.write Path.ruleTmp [Doc.rules r']) (Op.fsync Path.ruleTmp)
      (Op.rename Path.ruleTmp Path.ruleCat) (Op.nop lblRuleDirsync) j with h | h | h | h | h | h
  all_goals (have hlen := congrArg List.length h; simp only [saveRules] at *; rw [h]; simp only [List.length_take, List.length_cons, List.length_nil] at hlen)
  · refine ⟨.inl (by simpa [applyAll] using hr), by simpa [applyAll] using hs, fun h5 => by omega⟩
  · refine ⟨.inl (by simpa [applyAll, apply] using hr), by simpa [applyAll, apply] using hs, fun h5 => by omega⟩
  · refine ⟨.inl (keepR _ (by simpa [applyAll, apply] using e1)), keepS _ (by simpa [applyAll, apply] using e1 .schemaCat (by decide)), fun h5 => by omega⟩
  · refine ⟨.inl (keepR _ (by simpa [applyAll, apply] using e2)), keepS _ (by simpa [applyAll, apply] using e2 .schemaCat (by decide)), fun h5 => by omega⟩
  · refine ⟨.inr (.inr ?_), keepS _ ?_, fun h5 => by omega⟩
    · have := e3 .ruleCat
      simpa [applyAll, apply] using this
    · have := e3 .schemaCat
      simpa [applyAll, apply] using this
  · refine ⟨.inr (.inr ?_), keepS _ ?_, fun _ => .inr ?_⟩
    · have := e3 .ruleCat
      simpa [applyAll, apply] using this
    · have := e3 .schemaCat
      simpa [applyAll, apply] using this
    · have := e3 .ruleCat
      simpa [applyAll, apply] using this

/-- the same for `saveSchemas r'` (here `r r'` are schema catalogs and `s` is the untouched rule catalog). -/
theorem saveSchemas_prefix (d : Disk) (s : RuleCat) (r r' : SchemaCat) (hr : SchemasOk d r) (hs : RulesOk d s)
    (j : Nat) :
    (SchemasOk (applyAll d ((saveSchemas r').take j)) r ∨ SchemasOk (applyAll d ((saveSchemas r').take j)) r') ∧
    RulesOk (applyAll d ((saveSchemas r').take j)) s ∧
    (5 ≤ j → SchemasOk (applyAll d ((saveSchemas r').take j)) r') := by
  have hw : get (apply d (.write .schemaTmp [.schemas r'])) .schemaTmp = some { synced := [], unsynced := [.whole (.schemas r')] } := by
    simp [apply, get_put]
  have hf : get (apply (apply d (.write .schemaTmp [.schemas r'])) (.fsync .schemaTmp)) .schemaTmp = some (docFile (.schemas r')) := by
    simp [apply, get_put, docFile, File.items]
  have keepS : ∀ x : Disk, (∀ q, q ≠ Path.schemaTmp → get x q = get d q) → SchemasOk x r := by
    intro x hx
    rcases hr with ⟨h, e⟩ | h
    · exact .inl ⟨by rw [hx _ (by decide)]; exact h, e⟩
    · exact .inr (by rw [hx _ (by decide)]; exact h)
  have keepR : ∀ x : Disk, (get x .ruleCat = get d .ruleCat) → RulesOk x s := by
    intro x hx
    rcases hs with ⟨h, e⟩ | h
    · exact .inl ⟨by rw [hx]; exact h, e⟩
    · exact .inr (by rw [hx]; exact h)
  have e1 : ∀ q, q ≠ Path.schemaTmp → get (apply d (.write .schemaTmp [.schemas r'])) q = get d q := by
    intro q hq
    have : ¬ Path.schemaTmp = q := fun e => hq e.symm
    simp [apply, get_put, this]
  have e2 : ∀ q, q ≠ Path.schemaTmp →
      get (apply (apply d (.write .schemaTmp [.schemas r'])) (.fsync .schemaTmp)) q = get d q := by
    intro q hq
    have : ¬ Path.schemaTmp = q := fun e => hq e.symm
    simp [apply, get_put, this]
  have e3 : ∀ q, get (apply (apply (apply d (.write .schemaTmp [.schemas r'])) (.fsync .schemaTmp)) (.rename .schemaTmp .schemaCat)) q =
      if Path.schemaCat = q then some (docFile (.schemas r')) else if q = Path.schemaTmp then none else get d q := by
    intro q
    rw [get_rename _ _ _ _ _ hf]
    by_cases h1 : Path.schemaCat = q
    · simp [h1]
    · by_cases h2 : q = Path.schemaTmp
      · simp [h1, h2]
      · simp [h1, h2, e2 q h2]
  rcases take_five (Op.nop lblSchemaMkdir) (Op.write Path.schemaTmp [Doc.schemas r']) (Op.fsync Path.schemaTmp)
      (Op.rename Path.schemaTmp Path.schemaCat) (Op.nop lblSchemaDirsync) j with h | h | h | h | h | h
  all_goals (have hlen := congrArg List.length h; simp only [saveSchemas] at *; rw [h]; simp only [List.length_take, List.length_cons, List.length_nil] at hlen)
  · refine ⟨.inl (by simpa [applyAll] using hr), by simpa [applyAll] using hs, fun h5 => by omega⟩
  · refine ⟨.inl (by simpa [applyAll, apply] using hr), by simpa [applyAll, apply] using hs, fun h5 => by omega⟩
  · refine ⟨.inl (keepS _ (by simpa [applyAll, apply] using e1)), keepR _ (by simpa [applyAll, apply] using e1 .ruleCat (by decide)), fun h5 => by omega⟩
  · refine ⟨.inl (keepS _ (by simpa [applyAll, apply] using e2)), keepR _ (by simpa [applyAll, apply] using e2 .ruleCat (by decide)), fun h5 => by omega⟩
  · refine ⟨.inr (.inr ?_), keepR _ ?_, fun h5 => by omega⟩
    · have := e3 .schemaCat
      simpa [applyAll, apply] using this
    · have := e3 .ruleCat
      simpa [applyAll, apply] using this
  · refine ⟨.inr (.inr ?_), keepR _ ?_, fun _ => .inr ?_⟩
    · have := e3 .schemaCat
      simpa [applyAll, apply] using this
    · have := e3 .ruleCat
      simpa [applyAll, apply] using this
    · have := e3 .schemaCat
      simpa [applyAll, apply] using this


theorem applyAll_append (d : Disk) (a b : List (Op Path Doc)) : applyAll d (a ++ b) = applyAll (applyAll d a) b := by
  simp [applyAll, List.foldl_append]

/-- the disk after the first `j` FS steps of any operation: each catalog file is a complete synced document holding
    the old or the new catalog. -/
theorem crashpoint_ok (m : Mem) (d : Disk) (o : COp) (j : Nat) (hS : Solid { mem := m, disk := d }) :
    ∃ r s, (r = m.rules ∨ r = (step m o).2.1.rules) ∧ (s = m.schemas ∨ s = (step m o).2.1.schemas) ∧
      RulesOk (applyAll d ((step m o).2.2.take j)) r ∧ SchemasOk (applyAll d ((step m o).2.2.take j)) s := by
  obtain ⟨hr, hs⟩ := hS
  simp only at hr hs
  rcases step_cases m o with ⟨h1, h2, h3⟩ | ⟨r', h1, h2, h3⟩ | ⟨s', h1, h2, h3⟩ | ⟨r', s', h1, h2, h3⟩
  · exact ⟨m.rules, m.schemas, .inl rfl, .inl rfl, by simpa [h1, applyAll] using hr, by simpa [h1, applyAll] using hs⟩
  · obtain ⟨ha, hb, _⟩ := saveRules_prefix d m.rules r' m.schemas hr hs j
    rw [h1, h2, h3]
    rcases ha with ha | ha
    · exact ⟨m.rules, m.schemas, .inl rfl, .inl rfl, ha, hb⟩
    · exact ⟨r', m.schemas, .inr rfl, .inl rfl, ha, hb⟩
  · obtain ⟨ha, hb, _⟩ := saveSchemas_prefix d m.rules m.schemas s' hs hr j
    rw [h1, h2, h3]
    rcases ha with ha | ha
    · exact ⟨m.rules, m.schemas, .inl rfl, .inl rfl, hb, ha⟩
    · exact ⟨m.rules, s', .inl rfl, .inr rfl, hb, ha⟩
  · obtain ⟨ha, hb, hc⟩ := saveSchemas_prefix d m.rules m.schemas s' hs hr j
    rw [h1, h2, h3]
    have hlen : (saveSchemas s').length = 5 := rfl
    rw [List.take_append, hlen, applyAll_append]
    rcases ha with ha | ha
    · obtain ⟨hx, hy, _⟩ := saveRules_prefix _ m.rules r' m.schemas hb ha (j - 5)
      rcases hx with hx | hx
      · exact ⟨m.rules, m.schemas, .inl rfl, .inl rfl, hx, hy⟩
      · exact ⟨r', m.schemas, .inr rfl, .inl rfl, hx, hy⟩
    · obtain ⟨hx, hy, _⟩ := saveRules_prefix _ m.rules r' s' hb ha (j - 5)
      rcases hx with hx | hx
      · exact ⟨m.rules, s', .inl rfl, .inr rfl, hx, hy⟩
      · exact ⟨r', s', .inr rfl, .inr rfl, hx, hy⟩

/-- after the whole operation both files hold the new catalogs. -/
theorem complete_ok (m : Mem) (d : Disk) (o : COp) (hS : Solid { mem := m, disk := d }) :
    Solid { mem := (step m o).2.1, disk := applyAll d (step m o).2.2 } := by
  obtain ⟨hr, hs⟩ := hS
  simp only at hr hs
  refine ⟨?_, ?_⟩ <;> simp only
  all_goals rcases step_cases m o with ⟨h1, h2, h3⟩ | ⟨r', h1, h2, h3⟩ | ⟨s', h1, h2, h3⟩ | ⟨r', s', h1, h2, h3⟩
  all_goals rw [h1]
  · rw [h2]; simpa [applyAll] using hr
  · obtain ⟨_, _, hc⟩ := saveRules_prefix d m.rules r' m.schemas hr hs 5
    rw [h2]; simpa [saveRules] using hc (Nat.le_refl 5)
  · obtain ⟨_, hb, _⟩ := saveSchemas_prefix d m.rules m.schemas s' hs hr 5
    rw [h2]; simpa [saveSchemas] using hb
  · obtain ⟨_, hb, hc⟩ := saveSchemas_prefix d m.rules m.schemas s' hs hr 5
    have hb' : RulesOk (applyAll d (saveSchemas s')) m.rules := by simpa [saveSchemas] using hb
    have hc' : SchemasOk (applyAll d (saveSchemas s')) s' := by simpa [saveSchemas] using hc (Nat.le_refl 5)
    obtain ⟨_, _, hz⟩ := saveRules_prefix _ m.rules r' s' hb' hc' 5
    rw [h2, applyAll_append]; simpa [saveRules] using hz (Nat.le_refl 5)
  · rw [h3]; simpa [applyAll] using hs
  · obtain ⟨_, hb, _⟩ := saveRules_prefix d m.rules r' m.schemas hr hs 5
    rw [h3]; simpa [saveRules] using hb
  · obtain ⟨_, _, hc⟩ := saveSchemas_prefix d m.rules m.schemas s' hs hr 5
    rw [h3]; simpa [saveSchemas] using hc (Nat.le_refl 5)
  · obtain ⟨_, hb, hc⟩ := saveSchemas_prefix d m.rules m.schemas s' hs hr 5
    have hb' : RulesOk (applyAll d (saveSchemas s')) m.rules := by simpa [saveSchemas] using hb
    have hc' : SchemasOk (applyAll d (saveSchemas s')) s' := by simpa [saveSchemas] using hc (Nat.le_refl 5)
    obtain ⟨_, hy, _⟩ := saveRules_prefix _ m.rules r' s' hb' hc' 5
    rw [h3, applyAll_append]; simpa [saveRules] using hy

/-- a reopen is acceptable iff the engine opens and each catalog is the one of before or after the operation in
    flight. -/
def outOk : Out → Prop
  | .reboot old new got => ∃ m, got = some m ∧ (m.rules = old.rules ∨ m.rules = new.rules) ∧
      (m.schemas = old.schemas ∨ m.schemas = new.schemas) ∧ m.session = []
  | .ack _ _ => True

/-- one history item from a solid state: the reopen (if any) is acceptable and the next state is solid. -/
theorem runItem_solid (st : St) (it : HItem) (hS : Solid st) :
    outOk (runItem st it).1 ∧ ∀ st', (runItem st it).2 = some st' → Solid st' := by
  obtain ⟨m, d⟩ := st
  cases it with
  | op o =>
    refine ⟨trivial, ?_⟩
    intro st' hst
    simp only [runItem, Option.some.injEq] at hst
    subst hst
    exact complete_ok m d o hS
  | restart cuts =>
    have hr := recover_of_ok hS.rules hS.schemas (cutsOf cuts)
    simp only at hr
    refine ⟨?_, ?_⟩
    · simp only [runItem, rebootFrom, hr, outOk]
      exact ⟨_, rfl, .inl rfl, .inl rfl, rfl⟩
    · intro st' hst
      simp only [runItem, rebootFrom, hr, Option.map_some, Option.some.injEq] at hst
      subst hst
      exact ⟨rulesOk_crash hS.rules _, schemasOk_crash hS.schemas _⟩
  | opCrash o j cuts =>
    obtain ⟨r, s, hr1, hs1, hR, hSc⟩ := crashpoint_ok m d o j hS
    have himg : runItem { mem := m, disk := d } (.opCrash o j cuts) =
        rebootFrom m (step m o).2.1 (crash (applyAll d ((step m o).2.2.take j)) (cutsOf cuts)) := rfl
    have hrec := recover_of_ok hR hSc (cutsOf cuts)
    rw [himg]
    refine ⟨?_, ?_⟩
    · simp only [rebootFrom, hrec, outOk]
      exact ⟨_, rfl, hr1, hs1, rfl⟩
    · intro st' hst
      simp only [rebootFrom, hrec, Option.map_some, Option.some.injEq] at hst
      subst hst
      exact ⟨rulesOk_crash hR _, schemasOk_crash hSc _⟩

end Cat
end ILV
