/-
  Helper lemmas for C16: the abstract file system (`get`/`put`/`del`/`crash`), the shape of a catalog
  operation's effect, and the consistency invariant "what a reopen would load = what is in memory".
-/
import ILV.Model.Catalog
namespace ILV
open ILV.FS ILV.Cat

namespace FS
variable {π ρ : Type} [DecidableEq π]

theorem get_del (fs : Files π ρ) (p q : π) : get (del fs p) q = if q = p then none else get fs q := by
  induction fs with
  | nil => simp [del, get]
  | cons e rest ih =>
    obtain ⟨k, f⟩ := e
    by_cases hk : k = p
    · subst hk
      simp only [del, if_true, ih]
      by_cases hq : q = k
      · simp [hq]
      · have : ¬ k = q := fun h => hq h.symm
        simp [get, hq, this]
    · simp only [del, hk, if_false, get, ih]
      by_cases hkq : k = q
      · subst hkq; simp [hk]
      · simp [hkq]

theorem get_put (fs : Files π ρ) (p q : π) (f : File ρ) :
    get (put fs p f) q = if p = q then some f else get fs q := by
  simp only [put, get, get_del]
  by_cases h : p = q
  · simp [h]
  · have : ¬ q = p := fun e => h e.symm
    simp [h, this]

theorem get_crash (fs : Files π ρ) (cuts : π → Option Cut) (p : π) :
    get (crash fs cuts) p = (get fs p).map (fun f => crashFile f (cuts p)) := by
  induction fs with
  | nil => simp [crash, get]
  | cons e rest ih =>
    obtain ⟨k, f⟩ := e
    simp only [crash, get, ih]
    by_cases hk : k = p
    · subst hk; simp
    · simp [hk]

theorem crashFile_idem (f : File ρ) : crashFile (crashFile f none) none = crashFile f none := by
  simp [crashFile]

omit [DecidableEq π] in
theorem crash_idem (fs : Files π ρ) : crash (crash fs noCut) noCut = crash fs noCut := by
  induction fs with
  | nil => rfl
  | cons e rest ih =>
    obtain ⟨k, f⟩ := e
    simp only [crash, ih, noCut, crashFile_idem]

end FS

namespace Cat

theorem aDel_of_none {α} (l : List (Name × α)) (k : Name) (h : aGet l k = none) : aDel l k = l := by
  induction l with
  | nil => rfl
  | cons e rest ih =>
    obtain ⟨q, v⟩ := e
    by_cases hq : q = k
    · simp [aGet, hq] at h
    · simp only [aGet, hq, if_false] at h
      simp [aDel, hq, ih h]

theorem filter_noPrefix (l : RuleCat) (p : Name)
    (h : (l.map (·.1)).filter (fun k => p.isPrefixOf k) = []) :
    l.filter (fun e => !(p.isPrefixOf e.1)) = l := by
  induction l with
  | nil => rfl
  | cons e rest ih =>
    simp only [List.map_cons, List.filter_cons] at h
    by_cases hp : p.isPrefixOf e.1 = true
    · simp [hp] at h
    · simp only [hp] at h
      simp only [List.filter_cons, hp]
      simp [ih h]

/-- the FS effect of one catalog operation is nothing, one rule-catalog save, or one schema-catalog save,
    and memory changes accordingly (for the non-excluded inputs). -/
theorem step_cases (m : Mem) (o : COp) (hs : safe m o = true) :
    ((step m o).2.2 = [] ∧ (step m o).2.1 = m) ∨
    (∃ r, (step m o).2.2 = saveRules r ∧ (step m o).2.1 = { m with rules := r }) ∨
    (∃ s, (step m o).2.2 = saveSchemas s ∧ (step m o).2.1 = { m with schemas := s }) := by
  cases o with
  | reg n c =>
    simp only [step]
    split
    · exact .inl ⟨rfl, rfl⟩
    · split
      · exact .inl ⟨rfl, rfl⟩
      · split
        · split
          · split
            · exact .inl ⟨rfl, rfl⟩
            · exact .inr (.inl ⟨_, rfl, rfl⟩)
          · exact .inr (.inl ⟨_, rfl, rfl⟩)
        · exact .inr (.inl ⟨_, rfl, rfl⟩)
  | drop n =>
    simp only [step]
    split
    · exact .inl ⟨rfl, rfl⟩
    · exact .inr (.inl ⟨_, rfl, rfl⟩)
  | dropPrefix p =>
    simp only [step]
    split
    · exact .inl ⟨rfl, rfl⟩
    · split
      · rename_i hhit
        refine .inl ⟨rfl, ?_⟩
        simp only [filter_noPrefix m.rules p hhit]
      · exact .inr (.inl ⟨_, rfl, rfl⟩)
  | clear n =>
    simp only [step]
    split
    · exact .inl ⟨rfl, rfl⟩
    · exact .inr (.inl ⟨_, rfl, rfl⟩)
  | replace n i c =>
    simp only [step]
    split
    · exact .inl ⟨rfl, rfl⟩
    · split
      · exact .inl ⟨rfl, rfl⟩
      · exact .inr (.inl ⟨_, rfl, rfl⟩)
  | rmClause n i =>
    simp only [step]
    split
    · exact .inl ⟨rfl, rfl⟩
    · split
      · exact .inl ⟨rfl, rfl⟩
      · exact .inr (.inl ⟨_, rfl, rfl⟩)
  | sreg r s =>
    simp only [step]
    split
    · exact .inl ⟨rfl, rfl⟩
    · split
      · exact .inl ⟨rfl, rfl⟩
      · exact .inr (.inr ⟨_, rfl, rfl⟩)
  | supd r s =>
    simp only [step]
    split
    · exact .inl ⟨rfl, rfl⟩
    · exact .inr (.inr ⟨_, rfl, rfl⟩)
  | srem r =>
    simp only [step]
    split
    · exact .inl ⟨rfl, rfl⟩
    · exact .inr (.inr ⟨_, rfl, rfl⟩)
  | dropRel n =>
    simp only [safe, Option.isNone_iff_eq_none] at hs
    simp only [step]
    split
    · exact .inl ⟨rfl, rfl⟩
    · split
      · refine .inl ⟨rfl, ?_⟩
        simp [aDel_of_none _ _ hs]
      · refine .inr (.inl ⟨_, rfl, ?_⟩)
        simp [aDel_of_none _ _ hs]

/-- what a reopen would load (if nothing is torn) is what is in memory. -/
structure Consistent (st : St) : Prop where
  rules_eq : loadRules (crash st.disk noCut) = some st.mem.rules
  schemas_eq : loadSchemas (crash st.disk noCut) = st.mem.schemas

theorem Consistent.recover_eq {st : St} (h : Consistent st) : recover (crash st.disk noCut) = some st.mem := by
  simp [recover, h.rules_eq, h.schemas_eq]

theorem consistent_init : Consistent {} := ⟨rfl, rfl⟩

theorem consistent_of_recover {m : Mem} {d : Disk} (h : recover (crash d noCut) = some m) :
    Consistent { mem := m, disk := d } := by
  unfold recover at h
  split at h
  · cases h
  · rename_i r hr
    cases h
    exact ⟨hr, rfl⟩

def wroteFile (doc : Doc) : File Doc := { synced := [], unsynced := [.whole doc] }

theorem applyAll_save (d : Disk) (l : Nat) (p : Path) (doc : Doc) :
    applyAll d [.nop l, .write p [doc]] = put d p (wroteFile doc) := rfl

theorem get_crash_put (d : Disk) (p q : Path) (doc : Doc) :
    get (crash (put d p (wroteFile doc)) noCut) q =
      if p = q then some { synced := [.whole doc], unsynced := [] } else get (crash d noCut) q := by
  rw [get_crash, get_put]
  by_cases h : p = q
  · simp [h, crashFile, wroteFile, noCut]
  · simp [h, get_crash]

theorem loadRules_saved (d : Disk) (r : RuleCat) :
    loadRules (crash (put d .ruleCat (wroteFile (.rules r))) noCut) = some r := by
  simp [loadRules, get_crash_put, parseDoc, File.items]

theorem loadSchemas_saved (d : Disk) (s : SchemaCat) :
    loadSchemas (crash (put d .schemaCat (wroteFile (.schemas s))) noCut) = s := by
  simp [loadSchemas, get_crash_put, parseDoc, File.items]

theorem loadSchemas_other (d : Disk) (doc : Doc) :
    loadSchemas (crash (put d .ruleCat (wroteFile doc)) noCut) = loadSchemas (crash d noCut) := by
  simp [loadSchemas, get_crash_put]

theorem loadRules_other (d : Disk) (doc : Doc) :
    loadRules (crash (put d .schemaCat (wroteFile doc)) noCut) = loadRules (crash d noCut) := by
  simp [loadRules, get_crash_put]

theorem consistent_saveRules {m : Mem} {d : Disk} (h : Consistent { mem := m, disk := d }) (r : RuleCat) :
    Consistent { mem := { m with rules := r }, disk := applyAll d (saveRules r) } := by
  refine ⟨?_, ?_⟩
  · simp only [saveRules, applyAll_save]; exact loadRules_saved d r
  · simp only [saveRules, applyAll_save, loadSchemas_other]; exact h.schemas_eq

theorem consistent_saveSchemas {m : Mem} {d : Disk} (h : Consistent { mem := m, disk := d }) (s : SchemaCat) :
    Consistent { mem := { m with schemas := s }, disk := applyAll d (saveSchemas s) } := by
  refine ⟨?_, ?_⟩
  · simp only [saveSchemas, applyAll_save, loadRules_other]; exact h.rules_eq
  · simp only [saveSchemas, applyAll_save]; exact loadSchemas_saved d s

theorem consistent_crash {st : St} (h : Consistent st) : Consistent { mem := st.mem, disk := crash st.disk noCut } :=
  ⟨by simp only [crash_idem]; exact h.rules_eq, by simp only [crash_idem]; exact h.schemas_eq⟩

/-- tearing the rule-catalog rewrite -/
theorem recover_torn_rules (d : Disk) (c : RuleCat) (fr : Frag) :
    recover (crash (apply d (.write .ruleCat [.rules c])) (cutAt .ruleCat ⟨0, fr⟩)) = none := by
  have : loadRules (crash (apply d (.write .ruleCat [.rules c])) (cutAt .ruleCat ⟨0, fr⟩)) = none := by
    simp only [loadRules, apply, get_crash, get_put]
    cases fr <;> simp [crashFile, cutAt, cutItems, parseDoc, File.items]
  simp [recover, this]

theorem loadSchemas_torn (d : Disk) (sc : SchemaCat) (fr : Frag) :
    loadSchemas (crash (apply d (.write .schemaCat [.schemas sc])) (cutAt .schemaCat ⟨0, fr⟩)) = [] := by
  simp only [loadSchemas, apply, get_crash, get_put]
  cases fr <;> simp [crashFile, cutAt, cutItems, parseDoc, File.items]

/-- history items that never tear a write -/
inductive noTearItem : HItem → Prop
  | op (o) : noTearItem (.op o)
  | restart : noTearItem .restart
  | opCrash (o j) : noTearItem (.opCrash o j none)

def outOk : Out → Prop
  | .reboot old new got => got = some old ∨ got = some new
  | .ack _ _ => True

theorem take_two {α} (a b : α) (j : Nat) : [a, b].take j = [] ∨ [a, b].take j = [a] ∨ [a, b].take j = [a, b] := by
  match j with
  | 0 => exact .inl rfl
  | 1 => exact .inr (.inl rfl)
  | n + 2 => exact .inr (.inr (by simp))

/-- one history item from a consistent state: a reopen yields old or new, and the next state is consistent. -/
theorem runItem_consistent (st : St) (it : HItem) (hc : Consistent st) (hit : noTearItem it)
    (hs : safeItem st.mem it = true) :
    outOk (runItem st it).1 ∧ ∀ st', (runItem st it).2 = some st' → Consistent st' := by
  obtain ⟨m, d⟩ := st
  cases hit with
  | op o =>
    refine ⟨trivial, ?_⟩
    intro st' hst
    simp only [runItem, Option.some.injEq] at hst
    subst hst
    rcases step_cases m o hs with ⟨h1, h2⟩ | ⟨r, h1, h2⟩ | ⟨s, h1, h2⟩
    · simp only [h1, h2, applyAll, List.foldl_nil]; exact hc
    · simp only [h1, h2]; exact consistent_saveRules hc r
    · simp only [h1, h2]; exact consistent_saveSchemas hc s
  | restart =>
    have hr : recover (crash d noCut) = some m := hc.recover_eq
    refine ⟨?_, ?_⟩
    · simp [runItem, rebootFrom, hr, outOk]
    · intro st' hst
      simp only [runItem, rebootFrom, hr, Option.map_some, Option.some.injEq] at hst
      subst hst
      exact consistent_crash hc
  | opCrash o j =>
    -- the disk at the crash point is consistent with old or with new memory
    have hcase : Consistent { mem := m, disk := applyAll d ((step m o).2.2.take j) } ∨
        Consistent { mem := (step m o).2.1, disk := applyAll d ((step m o).2.2.take j) } := by
      rcases step_cases m o hs with ⟨h1, h2⟩ | ⟨r, h1, h2⟩ | ⟨s, h1, h2⟩
      · left; simp only [h1, List.take_nil, applyAll, List.foldl_nil]; exact hc
      · rcases take_two (Op.nop lblRuleMkdir) (Op.write Path.ruleCat [Doc.rules r]) j with h | h | h
        · left; simp only [h1, saveRules, h, applyAll, List.foldl_nil]; exact hc
        · left; simp only [h1, saveRules, h, applyAll, List.foldl_cons, List.foldl_nil, apply]; exact hc
        · right; simp only [h1, h2, saveRules, h]; exact consistent_saveRules hc r
      · rcases take_two (Op.nop lblSchemaMkdir) (Op.write Path.schemaCat [Doc.schemas s]) j with h | h | h
        · left; simp only [h1, saveSchemas, h, applyAll, List.foldl_nil]; exact hc
        · left; simp only [h1, saveSchemas, h, applyAll, List.foldl_cons, List.foldl_nil, apply]; exact hc
        · right; simp only [h1, h2, saveSchemas, h]; exact consistent_saveSchemas hc s
    have himg : runItem { mem := m, disk := d } (.opCrash o j none) =
        rebootFrom m (step m o).2.1 (crash (applyAll d ((step m o).2.2.take j)) noCut) := rfl
    rw [himg]
    rcases hcase with h | h
    · have hr : recover (crash (applyAll d ((step m o).2.2.take j)) noCut) = some m := h.recover_eq
      refine ⟨?_, ?_⟩
      · simp [rebootFrom, hr, outOk]
      · intro st' hst
        simp only [rebootFrom, hr, Option.map_some, Option.some.injEq] at hst
        subst hst
        exact consistent_crash h
    · have hr : recover (crash (applyAll d ((step m o).2.2.take j)) noCut) = some (step m o).2.1 := h.recover_eq
      refine ⟨?_, ?_⟩
      · simp [rebootFrom, hr, outOk]
      · intro st' hst
        simp only [rebootFrom, hr, Option.map_some, Option.some.injEq] at hst
        subst hst
        exact consistent_crash h

end Cat
end ILV
