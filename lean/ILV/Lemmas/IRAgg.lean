/-
  The `Aggregate` node of the IR model computes exact group/aggregate values of its input bag:
  one row per distinct group key; count = number of input rows of the group (with multiplicity);
  sum = the exact integer sum whenever the absolute values fit in i64; min/max = least/greatest
  element in `Ord for Value`; count_distinct = number of distinct values.
-/
import ILV.Lemmas.IRBasic
import ILV.Props.C31
namespace ILV.IR
open ILV

/-! ### sorting inside a group changes neither membership nor size -/

theorem mem_insertBy' {α} {le : α → α → Bool} {a x : α} {l : List α} : x ∈ insertBy le a l ↔ x = a ∨ x ∈ l := by
  induction l with
  | nil => simp [insertBy]
  | cons y ys ih =>
    simp only [insertBy]
    split
    · simp
    · simp only [List.mem_cons, ih]
      constructor
      · rintro (h | h | h) <;> simp [h]
      · rintro (h | h | h) <;> simp [h]

theorem length_insertBy {α} (le : α → α → Bool) (a : α) (l : List α) : (insertBy le a l).length = l.length + 1 := by
  induction l with
  | nil => rfl
  | cons y ys ih => simp only [insertBy]; split <;> simp [ih]

theorem mem_sortBy {α} {le : α → α → Bool} {x : α} {l : List α} : x ∈ sortBy le l ↔ x ∈ l := by
  unfold sortBy
  induction l with
  | nil => simp
  | cons a l ih => simp only [List.foldr_cons, mem_insertBy', ih, List.mem_cons]

theorem length_sortBy {α} (le : α → α → Bool) (l : List α) : (sortBy le l).length = l.length := by
  unfold sortBy
  induction l with
  | nil => rfl
  | cons a l ih => simp only [List.foldr_cons, length_insertBy, ih, List.length_cons]

/-- the rows of the group with key `k`, as the aggregate sees them -/
def groupOf (rows : List Tuple) (gb : List Nat) (k : Tuple) : List Tuple :=
  sortBy tupleLe (rows.filter (fun t => project t gb == k))

theorem mem_groupOf {rows : List Tuple} {gb : List Nat} {k t : Tuple} :
    t ∈ groupOf rows gb k ↔ t ∈ rows ∧ project t gb = k := by
  simp [groupOf, mem_sortBy]

/-! ### one output row per group -/

theorem nodup_dedup (l : List Tuple) : (dedup l).Nodup := by
  induction l with
  | nil => simp [dedup]
  | cons x xs ih =>
    simp only [dedup]
    split
    · exact ih
    · rename_i h
      exact List.nodup_cons.2 ⟨fun hx => h (mem_dedup.1 hx), ih⟩

theorem aggRows_eq (rows : List Tuple) (gb : List Nat) (aggs : List (Agg × Nat)) :
    aggRows rows gb aggs =
      (dedup (rows.map (fun t => project t gb))).map (fun k => k ++ aggs.map (aggVal (groupOf rows gb k))) := rfl

/-- every output row is `key ++ aggregate values of that key's group`, for the key of some input row … -/
theorem agg_row_of_group {rows : List Tuple} {gb : List Nat} {aggs : List (Agg × Nat)} {o : Tuple}
    (h : o ∈ aggRows rows gb aggs) :
    ∃ t ∈ rows, o = project t gb ++ aggs.map (aggVal (groupOf rows gb (project t gb))) := by
  rw [aggRows_eq] at h
  simp only [List.mem_map, mem_dedup] at h
  obtain ⟨k, ⟨t, ht, rfl⟩, rfl⟩ := h
  exact ⟨t, ht, rfl⟩

/-- … every input row's group has its output row … -/
theorem agg_group_has_row {rows : List Tuple} {gb : List Nat} {aggs : List (Agg × Nat)} {t : Tuple} (h : t ∈ rows) :
    project t gb ++ aggs.map (aggVal (groupOf rows gb (project t gb))) ∈ aggRows rows gb aggs := by
  rw [aggRows_eq]
  simp only [List.mem_map, mem_dedup]
  exact ⟨project t gb, ⟨t, h, rfl⟩, rfl⟩

/-- … and there is exactly one output row per distinct key. -/
theorem agg_one_row_per_group (rows : List Tuple) (gb : List Nat) (aggs : List (Agg × Nat)) :
    (aggRows rows gb aggs).length = (dedup (rows.map (fun t => project t gb))).length ∧
    (dedup (rows.map (fun t => project t gb))).Nodup := by
  rw [aggRows_eq]
  exact ⟨by simp, nodup_dedup _⟩

/-! ### count -/

theorem agg_count_exact (rows : List Tuple) (gb : List Nat) (k : Tuple) (c : Nat) :
    aggVal (groupOf rows gb k) (.count, c) = .i64 ((rows.filter (fun t => project t gb == k)).length : Nat) := by
  simp [aggVal, groupOf, length_sortBy]

/-! ### sum -/

def colI64 (c : Nat) (t : Tuple) : Int := match t[c]? with | some v => toI64 v | none => 0

/-- `sum` is the exact integer sum of the column over the group, clamped to the i64 range once. -/
theorem agg_sum_clamped (g : List Tuple) (c : Nat) :
    aggVal g (.sum, c) = .i64 (satI64 ((g.map (colI64 c)).foldl (· + ·) 0)) := by
  have e : aggVal g (.sum, c) = .i64 (satI64 (g.foldl (fun acc t => acc + colI64 c t) 0)) := rfl
  rw [e, List.foldl_map]

theorem satI64_of_fits {n : Int} (h : n.natAbs < 2^63) : satI64 n = n := by
  unfold satI64
  split
  · omega
  · split <;> omega

theorem foldl_add_natAbs_le : ∀ (vals : List Int) (acc : Int),
    (vals.foldl (· + ·) acc).natAbs ≤ acc.natAbs + (vals.map Int.natAbs).sum
  | [], acc => by simp
  | v :: vs, acc => by
    have := foldl_add_natAbs_le vs (acc + v)
    have h2 : (acc + v).natAbs ≤ acc.natAbs + v.natAbs := Int.natAbs_add_le acc v
    simp only [List.foldl_cons, List.map_cons, List.sum_cons]
    omega

/-- … in particular the exact sum whenever the absolute values fit. -/
theorem agg_sum_exact (g : List Tuple) (c : Nat) (h : ((g.map (colI64 c)).map Int.natAbs).sum < 2^63) :
    aggVal g (.sum, c) = .i64 ((g.map (colI64 c)).foldl (· + ·) 0) := by
  rw [agg_sum_clamped, satI64_of_fits]
  have := foldl_add_natAbs_le (g.map (colI64 c)) 0
  simp only [Int.natAbs_zero, Nat.zero_add] at this
  omega

/-! ### min / max -/

theorem valMin_none {l : List Value} (h : valMin l = none) : l = [] := by
  cases l with
  | nil => rfl
  | cons x xs =>
    simp only [valMin] at h
    split at h
    · simp at h
    · split at h <;> simp at h
theorem valMax_none {l : List Value} (h : valMax l = none) : l = [] := by
  cases l with
  | nil => rfl
  | cons x xs =>
    simp only [valMax] at h
    split at h
    · simp at h
    · split at h <;> simp at h

open ILV.Props.C31 in
theorem valMin_spec : ∀ (l : List Value), (∀ v ∈ l, Value.WF v) → ∀ m, valMin l = some m →
    m ∈ l ∧ ∀ v ∈ l, Value.cmp m v ≠ .gt
  | [], _, m, h => by simp [valMin] at h
  | x :: xs, hw, m, h => by
    simp only [valMin] at h
    cases hm : valMin xs with
    | none =>
      simp only [hm, Option.some.injEq] at h; subst h
      have : xs = [] := valMin_none hm
      subst this
      refine ⟨by simp, fun v hv => ?_⟩
      simp only [List.mem_singleton] at hv; subst hv
      rw [value_lawful.refl _ (hw _ (by simp))]; decide
    | some m' =>
      have ih := valMin_spec xs (fun v hv => hw v (by simp [hv])) m' hm
      simp only [hm] at h
      have hx := hw x (by simp)
      have hm'w := hw m' (by simp [ih.1])
      split at h
      · rename_i hle
        simp only [Option.some.injEq] at h; subst h
        have hle : Value.cmp x m' ≠ .gt := by simpa using hle
        refine ⟨by simp, fun v hv => ?_⟩
        rcases List.mem_cons.1 hv with rfl | hv
        · rw [value_lawful.refl _ hx]; decide
        · exact value_lawful.trans _ _ _ hx hm'w (hw v (by simp [hv])) hle (ih.2 v hv)
      · rename_i hgt
        simp only [Option.some.injEq] at h; subst h
        have hgt : Value.cmp x m' = .gt := by simpa using hgt
        refine ⟨by simp [ih.1], fun v hv => ?_⟩
        rcases List.mem_cons.1 hv with rfl | hv
        · rw [value_lawful.swap _ _ hx hm'w, hgt]; decide
        · exact ih.2 v hv

open ILV.Props.C31 in
theorem valMax_spec : ∀ (l : List Value), (∀ v ∈ l, Value.WF v) → ∀ m, valMax l = some m →
    m ∈ l ∧ ∀ v ∈ l, Value.cmp v m ≠ .gt
  | [], _, m, h => by simp [valMax] at h
  | x :: xs, hw, m, h => by
    simp only [valMax] at h
    cases hm : valMax xs with
    | none =>
      simp only [hm, Option.some.injEq] at h; subst h
      have : xs = [] := valMax_none hm
      subst this
      refine ⟨by simp, fun v hv => ?_⟩
      simp only [List.mem_singleton] at hv; subst hv
      rw [value_lawful.refl _ (hw _ (by simp))]; decide
    | some m' =>
      have ih := valMax_spec xs (fun v hv => hw v (by simp [hv])) m' hm
      simp only [hm] at h
      have hx := hw x (by simp)
      have hm'w := hw m' (by simp [ih.1])
      split at h
      · rename_i hgt
        simp only [Option.some.injEq] at h; subst h
        have hgt : Value.cmp x m' = .gt := by simpa using hgt
        refine ⟨by simp, fun v hv => ?_⟩
        rcases List.mem_cons.1 hv with rfl | hv
        · rw [value_lawful.refl _ hx]; decide
        · have h1 : Value.cmp m' x ≠ .gt := by rw [value_lawful.swap _ _ hx hm'w, hgt]; decide
          exact value_lawful.trans _ _ _ (hw v (by simp [hv])) hm'w hx (ih.2 v hv) h1
      · rename_i hle
        simp only [Option.some.injEq] at h; subst h
        have hle : Value.cmp x m' ≠ .gt := by simpa using hle
        refine ⟨by simp [ih.1], fun v hv => ?_⟩
        rcases List.mem_cons.1 hv with rfl | hv
        · exact hle
        · exact ih.2 v hv

/-! ### count_distinct -/

theorem mem_dedupVals {x : Value} {l : List Value} : x ∈ dedupVals l ↔ x ∈ l := by
  induction l with
  | nil => simp [dedupVals]
  | cons y ys ih =>
    simp only [dedupVals]
    split
    · rename_i h
      constructor
      · intro hx; exact List.mem_cons_of_mem _ (ih.1 hx)
      · intro hx
        rcases List.mem_cons.1 hx with rfl | hx
        · exact ih.2 h
        · exact ih.2 hx
    · simp [ih]

theorem nodup_dedupVals (l : List Value) : (dedupVals l).Nodup := by
  induction l with
  | nil => simp [dedupVals]
  | cons x xs ih =>
    simp only [dedupVals]
    split
    · exact ih
    · rename_i h
      exact List.nodup_cons.2 ⟨fun hx => h (mem_dedupVals.1 hx), ih⟩

end ILV.IR
