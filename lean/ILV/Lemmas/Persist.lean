/-
  Helper lemmas for C13: the WAL reader on clean / torn files, and what `crash` can do to a WAL file before and
  after its fsync.
-/
import ILV.Lemmas.Catalog
import ILV.Spec.C13
namespace ILV.Persist
open ILV.FS

/-- a complete WAL line -/
def mk (e : Name × Update) : Item Rec := .whole (.wal e.1 e.2)

theorem walParse_mk_append (ws : List (Name × Update)) (rest : List (Item Rec)) :
    walParse false (ws.map mk ++ rest) = (walParse false rest).map (ws ++ ·) := by
  induction ws with
  | nil => simp
  | cons e ws ih =>
    obtain ⟨s, u⟩ := e
    simp only [List.map_cons, List.cons_append]
    show walParse false (Item.whole (Rec.wal s u) :: (ws.map mk ++ rest)) = _
    simp only [walParse, Bool.false_eq_true, if_false]
    rw [ih]
    cases walParse false rest <;> simp

theorem walParse_mk (ws : List (Name × Update)) : walParse false (ws.map mk) = some ws := by
  have := walParse_mk_append ws []
  simpa [walParse] using this

/-- once garbage is pending, the next complete line is swallowed -/
theorem walParse_garb_mk (e : Name × Update) (rest : List (Item Rec)) :
    walParse true (mk e :: rest) = walParse false rest := by
  simp [mk, walParse]

/-! ### what a crash can do to the WAL file -/

theorem get_crash_wal (d : Disk) (cuts : Path → Option Cut) :
    get (crash d cuts) .wal = (get d .wal).map (fun f => crashFile f (cuts .wal)) := FS.get_crash d cuts .wal

/-- **after `fsync`, no crash can change what the WAL yields**: whatever is cut anywhere. -/
theorem readAll_after_fsync (d : Disk) (f : File Rec) (hf : get d .wal = some f) (cuts : Path → Option Cut) :
    readAll (crash (apply d (.fsync .wal)) cuts) = walParse false f.items := by
  simp only [readAll, apply, hf, get_crash_wal, FS.get_put, if_true, Option.map_some]
  cases hc : cuts .wal with
  | none => simp [crashFile, File.items]
  | some c =>
    obtain ⟨k, fr⟩ := c
    cases fr <;> simp [crashFile, cutItems, File.items]

/-- an acknowledged append (`write` + `fsync`) to a clean WAL: every later crash image yields the old entries
    followed by all the new ones. -/
theorem acked_append_survives (d : Disk) (ws es : List (Name × Update)) (uns : List (Item Rec))
    (hf : get d .wal = some { synced := ws.map mk, unsynced := uns }) (huns : uns = [])
    (cuts : Path → Option Cut) :
    readAll (crash (applyAll d [.append .wal (es.map (fun e => .wal e.1 e.2)), .fsync .wal]) cuts) = some (ws ++ es) := by
  subst huns
  have h1 : get (apply d (.append .wal (es.map (fun e => Rec.wal e.1 e.2)))) .wal =
      some { synced := ws.map mk, unsynced := es.map mk } := by
    simp [apply, hf, FS.get_put, mk, List.map_map, Function.comp_def]
  have := readAll_after_fsync _ _ h1 cuts
  simp only [applyAll, List.foldl_cons, List.foldl_nil]
  rw [this]
  simp only [File.items, ← List.map_append]
  exact walParse_mk _

theorem take_map_mk (es : List (Name × Update)) (k : Nat) : (es.map mk).take k = (es.take k).map mk := by
  simp [List.map_take]

/-- **before the fsync** the same write may be torn: cut at a record boundary after `k` lines, the WAL yields the
    old entries and the first `k` entries of the request — a strict prefix of one operation when `0 < k < |es|`. -/
theorem torn_append_prefix_clean (d : Disk) (ws es : List (Name × Update)) (k : Nat)
    (hf : get d .wal = some { synced := ws.map mk, unsynced := [] }) :
    readAll (crash (apply d (.append .wal (es.map (fun e => .wal e.1 e.2)))) (cutAt .wal ⟨k, .clean⟩)) =
      some (ws ++ es.take k) := by
  have h1 : get (apply d (.append .wal (es.map (fun e => Rec.wal e.1 e.2)))) .wal =
      some { synced := ws.map mk, unsynced := es.map mk } := by
    simp [apply, hf, FS.get_put, mk, List.map_map, Function.comp_def]
  simp only [readAll, get_crash_wal, h1, Option.map_some, cutAt, if_true, crashFile, cutItems, File.items,
    List.append_nil, take_map_mk, ← List.map_append]
  exact walParse_mk _

/-- the same with a fragment of line `k+1` left behind: the fragment yields nothing (its CRC check fails) … -/
theorem torn_append_prefix_part (d : Disk) (ws es : List (Name × Update)) (k : Nat) (hk : k < es.length)
    (hf : get d .wal = some { synced := ws.map mk, unsynced := [] }) :
    readAll (crash (apply d (.append .wal (es.map (fun e => .wal e.1 e.2)))) (cutAt .wal ⟨k, .part⟩)) =
      some (ws ++ es.take k) := by
  have h1 : get (apply d (.append .wal (es.map (fun e => Rec.wal e.1 e.2)))) .wal =
      some { synced := ws.map mk, unsynced := es.map mk } := by
    simp [apply, hf, FS.get_put, mk, List.map_map, Function.comp_def]
  obtain ⟨e, rest, hd⟩ : ∃ e rest, es.drop k = e :: rest := by
    cases h : es.drop k with
    | nil => simp [List.drop_eq_nil_iff] at h; omega
    | cons e rest => exact ⟨e, rest, rfl⟩
  have hdrop : (es.map mk).drop k = mk e :: rest.map mk := by
    rw [← List.map_drop, hd]; rfl
  simp only [readAll, get_crash_wal, h1, Option.map_some, cutAt, if_true, crashFile, File.items, List.append_nil]
  have hcut : cutItems (es.map mk) ⟨k, .part⟩ = (es.take k).map mk ++ [.torn .part (.wal e.1 e.2)] := by
    simp only [cutItems, hdrop, mk, take_map_mk]
  rw [hcut, ← List.append_assoc, ← List.map_append, walParse_mk_append]
  simp [walParse]

/-- … but it stays in the file: a WAL that ends in a fragment swallows the first line appended after it
    (both end up on one line whose CRC check fails). -/
theorem torn_tail_swallows_next (ws es : List (Name × Update)) (x : Rec) (e : Name × Update) :
    walParse false ((ws.map mk ++ [.torn .part x]) ++ (e :: es).map mk) = some (ws ++ es) := by
  rw [List.append_assoc, walParse_mk_append]
  simp only [List.singleton_append, List.map_cons, walParse, walParse_garb_mk, walParse_mk]
  simp

/-- a fragment that stops inside a multi-byte character makes the whole read fail. -/
theorem midchar_read_fails (ws : List (Name × Update)) (s : Name) (u : Update) (hm : multibyte u.t = true)
    (rest : List (Item Rec)) :
    walParse false (ws.map mk ++ .torn .midchar (.wal s u) :: rest) = none := by
  rw [walParse_mk_append]
  simp [walParse, hm]

end ILV.Persist
