/-
  Helper lemmas for C13 (WAL reader, file-system facts about appends and fsync).
-/
import ILV.Lemmas.Catalog
import ILV.Spec.C13
namespace ILV.Persist
open ILV.FS

end ILV.Persist
