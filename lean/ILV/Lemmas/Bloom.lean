/-
  Helper lemmas for C36 (bloom filter part): word-level bit set/test, monotonicity of `insert`.
-/
import ILV.Model.Index
namespace ILV

theorem and_two_pow_ne_zero_iff (x o : Nat) : (x &&& 2 ^ o ≠ 0) ↔ x.testBit o = true := by
  constructor
  · intro h
    obtain ⟨i, hi⟩ := Nat.exists_testBit_of_ne_zero h
    rw [Nat.testBit_and, Bool.and_eq_true, Nat.testBit_two_pow] at hi
    have : o = i := by simpa using hi.2
    subst this; exact hi.1
  · intro h e
    have : (x &&& 2 ^ o).testBit o = true := by
      rw [Nat.testBit_and, h, Nat.testBit_two_pow_self]; rfl
    rw [e] at this
    simp at this

theorem getBit_iff (ws : List Nat) (idx : Nat) :
    getBit ws idx = true ↔ (ws.getD (idx / 64) 0).testBit (idx % 64) = true := by
  unfold getBit
  rw [Nat.one_shiftLeft, bne_iff_ne]
  exact and_two_pow_ne_zero_iff _ _

/-- the bit just set reads back as set (word index in range). -/
theorem getBit_setBit_self (ws : List Nat) (idx : Nat) (h : idx / 64 < ws.length) :
    getBit (setBit ws idx) idx = true := by
  rw [getBit_iff]
  unfold setBit
  rw [List.getD_eq_getElem?_getD, List.getElem?_set]
  simp only [h, if_true, Option.getD_some]
  rw [Nat.testBit_or, Nat.one_shiftLeft, Nat.testBit_two_pow_self]
  simp

/-- setting a bit never clears another one. -/
theorem getBit_setBit_mono (ws : List Nat) (idx j : Nat) (hj : getBit ws j = true) :
    getBit (setBit ws idx) j = true := by
  rw [getBit_iff] at hj ⊢
  unfold setBit
  rw [List.getD_eq_getElem?_getD, List.getElem?_set]
  by_cases e : idx / 64 = j / 64
  · by_cases hl : idx / 64 < ws.length
    · simp only [e, if_true]
      rw [e] at hl
      simp only [hl, if_true, Option.getD_some]
      rw [Nat.testBit_or, hj]; rfl
    · -- out of range: the word reads as 0, contradiction with hj
      exfalso
      rw [e] at hl
      rw [List.getD_eq_getElem?_getD, List.getElem?_eq_none (by omega)] at hj
      simp at hj
  · simp only [e, if_false]
    rw [← List.getD_eq_getElem?_getD]; exact hj

theorem length_setBit (ws : List Nat) (idx : Nat) : (setBit ws idx).length = ws.length := by
  unfold setBit; simp

/-- folding `setBit` over a list of indices. -/
def setBits (ws : List Nat) (idxs : List Nat) : List Nat := idxs.foldl setBit ws

theorem length_setBits (idxs : List Nat) : ∀ ws, (setBits ws idxs).length = ws.length := by
  induction idxs with
  | nil => intro ws; rfl
  | cons i is ih => intro ws; simp [setBits] at ih ⊢; rw [ih, length_setBit]

theorem getBit_setBits_mono (idxs : List Nat) : ∀ ws j, getBit ws j = true → getBit (setBits ws idxs) j = true := by
  induction idxs with
  | nil => intro ws j h; exact h
  | cons i is ih =>
    intro ws j h
    simp only [setBits, List.foldl_cons]
    exact ih _ _ (getBit_setBit_mono ws i j h)

theorem getBit_setBits_mem (idxs : List Nat) :
    ∀ ws j, j ∈ idxs → j / 64 < ws.length → getBit (setBits ws idxs) j = true := by
  induction idxs with
  | nil => intro ws j h; cases h
  | cons i is ih =>
    intro ws j hmem hlen
    simp only [setBits, List.foldl_cons]
    rcases List.mem_cons.1 hmem with e | hm
    · subst e
      exact getBit_setBits_mono is _ _ (getBit_setBit_self ws j hlen)
    · exact ih _ _ hm (by rw [length_setBit]; exact hlen)

/-- well-formedness of a filter: the invariant every constructor establishes. -/
structure Bloom.WF (b : Bloom) : Prop where
  bits_len : b.numBits = b.bits.length * 64
  pos : 0 < b.numBits

theorem insert_bits_eq (b : Bloom) (h1 h2 : Nat) :
    (b.insert h1 h2).bits = setBits b.bits ((List.range b.numHashes).map (b.bitIndex h1 h2)) := by
  simp [Bloom.insert, setBits, List.foldl_map]

theorem Bloom.WF.bitIndex_lt {b : Bloom} (w : b.WF) (h1 h2 i : Nat) : b.bitIndex h1 h2 i / 64 < b.bits.length := by
  have : b.bitIndex h1 h2 i < b.numBits := Nat.mod_lt _ w.pos
  rw [w.bits_len] at this
  omega

theorem Bloom.WF.insert {b : Bloom} (w : b.WF) (h1 h2 : Nat) : (b.insert h1 h2).WF := by
  constructor
  · rw [insert_bits_eq, length_setBits]; exact w.bits_len
  · exact w.pos

theorem Bloom.WF.clear {b : Bloom} (w : b.WF) : b.clear.WF := by
  constructor
  · simp [Bloom.clear]; exact w.bits_len
  · exact w.pos

theorem divCeil_pos (a : Nat) (h : 64 ≤ a) : 0 < divCeil a 64 := by
  unfold divCeil
  exact Nat.div_pos (by omega) (by decide)

theorem Bloom.withParams_WF (nb k : Nat) : (Bloom.withParams nb k).WF := by
  have hp := divCeil_pos (max nb 64) (Nat.le_max_right _ _)
  constructor
  · simp [Bloom.withParams]
  · simp only [Bloom.withParams]; omega

theorem Bloom.newFrom_WF (rb rk : Nat) : (Bloom.newFrom rb rk).WF := by
  have hp := divCeil_pos (max rb 64) (Nat.le_max_right _ _)
  constructor
  · simp [Bloom.newFrom]
  · simp only [Bloom.newFrom]; omega

@[simp] theorem insert_numBits (b : Bloom) (h1 h2 : Nat) : (b.insert h1 h2).numBits = b.numBits := rfl
@[simp] theorem insert_numHashes (b : Bloom) (h1 h2 : Nat) : (b.insert h1 h2).numHashes = b.numHashes := rfl
@[simp] theorem insert_bitIndex (b : Bloom) (h1 h2 x y i : Nat) :
    (b.insert h1 h2).bitIndex x y i = b.bitIndex x y i := rfl

/-- right after `insert (h1,h2)`, `might_contain (h1,h2)` holds. -/
theorem mightContain_insert_self {b : Bloom} (w : b.WF) (h1 h2 : Nat) :
    (b.insert h1 h2).mightContain h1 h2 = true := by
  unfold Bloom.mightContain
  rw [List.all_eq_true]
  intro i hi
  rw [insert_bits_eq, insert_bitIndex]
  apply getBit_setBits_mem
  · exact List.mem_map.2 ⟨i, by simpa using hi, rfl⟩
  · exact w.bitIndex_lt h1 h2 i

/-- a later `insert` never turns a positive answer into a negative one. -/
theorem mightContain_insert_mono (b : Bloom) (h1 h2 x y : Nat) (hc : b.mightContain x y = true) :
    (b.insert h1 h2).mightContain x y = true := by
  unfold Bloom.mightContain at hc ⊢
  rw [List.all_eq_true] at hc ⊢
  intro i hi
  rw [insert_bits_eq, insert_bitIndex]
  exact getBit_setBits_mono _ _ _ (hc i (by simpa using hi))

theorem Bloom.WF.apply {b : Bloom} (w : b.WF) (op : BloomOp) : (b.apply op).WF := by
  cases op with
  | ins h1 h2 => exact w.insert h1 h2
  | clear => exact w.clear

theorem Bloom.WF.runOps {b : Bloom} (w : b.WF) (ops : List BloomOp) : (b.runOps ops).WF := by
  induction ops generalizing b with
  | nil => exact w
  | cons op ops ih => exact ih (w.apply op)

theorem runOps_no_clear_mono (ops : List BloomOp) :
    ∀ (b : Bloom) (x y : Nat), ops.any (· == .clear) = false → b.mightContain x y = true →
      (b.runOps ops).mightContain x y = true := by
  induction ops with
  | nil => intro b x y _ h; exact h
  | cons op ops ih =>
    intro b x y hn h
    simp only [List.any_cons, Bool.or_eq_false_iff] at hn
    cases op with
    | clear => simp at hn
    | ins h1 h2 =>
      exact ih _ x y hn.2 (mightContain_insert_mono b h1 h2 x y h)

theorem no_false_negative_aux (ops : List BloomOp) :
    ∀ (b : Bloom), b.WF → ∀ h1 h2, insertedSinceClear h1 h2 ops = true →
      (b.runOps ops).mightContain h1 h2 = true := by
  induction ops with
  | nil => intro b _ h1 h2 h; simp [insertedSinceClear] at h
  | cons op ops ih =>
    intro b w h1 h2 h
    unfold insertedSinceClear at h
    by_cases hs : insertedSinceClear h1 h2 ops = true
    · exact ih (b.apply op) (w.apply op) h1 h2 hs
    · simp only [hs] at h
      by_cases hc : ops.any (· == .clear) = true
      · simp [hc] at h
      · simp only [hc] at h
        have hop : op = .ins h1 h2 := by simpa using h
        subst hop
        have hc' : ops.any (· == .clear) = false := by
          cases hq : ops.any (· == .clear) with
          | true => exact absurd hq hc
          | false => rfl
        exact runOps_no_clear_mono ops _ h1 h2 hc' (mightContain_insert_self w h1 h2)

end ILV
