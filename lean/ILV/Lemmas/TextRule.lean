/-
  Helper lemmas for C09: printed terms / atoms / literals are closed units for the comma splitters,
  and the round trips of terms, atoms, body literals and rules.
-/
import ILV.Lemmas.TextSplit
namespace ILV.RText

/-! ### splitters that count parentheses -/

/-- tokens that terms are made of besides brackets and commas -/
def Tok.wordTok : Tok → Bool
  | .ident _ | .int _ | .flt _ | .fint _ _ | .str _ | .op _ | .bang => true
  | _ => false

structure SepClass (sep : Tok → Bool) : Prop where
  word : ∀ t, t.wordTok = true → sep t = false
  lp : sep .lp = false
  rp : sep .rp = false
  lb : sep .lb = false
  rb : sep .rb = false

structure ParenStep (stepf : Depth → Tok → Depth) : Prop where
  lp : ∀ d, stepf d .lp = { d with p := d.p + 1 }
  rp : ∀ d, stepf d .rp = { d with p := d.p - 1 }
  word : ∀ d t, t.wordTok = true → stepf d t = d
  comma : ∀ d, stepf d .comma = d

theorem sepClass_comma : SepClass isComma :=
  ⟨fun t h => by cases t <;> simp_all [isComma, Tok.wordTok], rfl, rfl, rfl, rfl⟩

theorem sepClass_cmp (c : CmpOp) : SepClass (cmpMatches c) :=
  ⟨fun t h => by cases t <;> simp_all [cmpMatches, Tok.wordTok], rfl, rfl, rfl, rfl⟩

theorem parenStep_args : ParenStep Depth.stepArgs :=
  ⟨fun _ => rfl, fun _ => rfl, fun d t h => by cases t <;> simp_all [Depth.stepArgs, Tok.wordTok], fun _ => rfl⟩

theorem parenStep_body : ParenStep Depth.stepBody :=
  ⟨fun _ => rfl, fun _ => rfl, fun d t h => by cases t <;> simp_all [Depth.stepBody, Tok.wordTok], fun _ => rfl⟩

theorem parenStep_paren : ParenStep Depth.stepParen :=
  ⟨fun _ => rfl, fun _ => rfl, fun d t h => by cases t <;> simp_all [Depth.stepParen, Tok.wordTok], fun _ => rfl⟩

theorem floatTok_word (f : FloatLit) : (floatTok f).wordTok = true := by
  unfold floatTok; split <;> rfl

section generic
variable {sep : Tok → Bool} {stepf : Depth → Tok → Depth}

theorem unit_word (hc : SepClass sep) (hs : ParenStep stepf) {t : Tok} (h : t.wordTok = true) (d : Depth) :
    UnitAt sep stepf [t] d :=
  UnitAt.single (by simp [hc.word t h]) (hs.word d t h)

theorem unit_paren (hc : SepClass sep) (hs : ParenStep stepf) {inner : List Tok} {d : Depth}
    (hin : UnitAt sep stepf inner { d with p := d.p + 1 }) : UnitAt sep stepf (paren inner) d :=
  UnitAt.parens hc.lp hc.rp (hs.lp d) (hs.rp _) hin

theorem unit_arith (hc : SepClass sep) (hs : ParenStep stepf) (e : AExpr) :
    ∀ d, UnitAt sep stepf (printArith e) d := by
  induction e with
  | var s => intro d; exact unit_word hc hs rfl d
  | const n => intro d; exact unit_word hc hs rfl d
  | flt f => intro d; exact unit_word hc hs (floatTok_word f) d
  | bin op l r ihl ihr =>
    intro d
    simp only [printArith]
    have hw : ∀ (b : Bool) (x : AExpr), (∀ k, UnitAt sep stepf (printArith x) k) → UnitAt sep stepf (wrapIf b (printArith x)) d := by
      intro b x hx
      unfold wrapIf; split
      · exact unit_paren hc hs (hx _)
      · exact hx _
    exact UnitAt.append (hw _ l ihl) (UnitAt.append (a := [Tok.op op]) (unit_word hc hs rfl d) (hw _ r ihr))

/-- tokens the splitter's depth ignores form a unit wherever separators are not looked at -/
theorem unit_of_inert_deep : ∀ (ts : List Tok) (d : Depth), (∀ t, t ∈ ts → stepf d t = d) → d.isZero = false →
    UnitAt sep stepf ts d
  | [], _, _, _ => UnitAt.nil
  | t :: ts, d, h, hz => by
    have h1 : UnitAt sep stepf [t] d := UnitAt.single (by simp [hz]) (h t (List.mem_cons_self ..))
    exact UnitAt.append (a := [t]) h1 (unit_of_inert_deep ts d (fun x hx => h x (List.mem_cons_of_mem _ hx)) hz)

/-- … or where none of them is a separator -/
theorem unit_of_inert_nosep : ∀ (ts : List Tok) (d : Depth), (∀ t, t ∈ ts → stepf d t = d) → (∀ t, t ∈ ts → sep t = false) →
    UnitAt sep stepf ts d
  | [], _, _, _ => UnitAt.nil
  | t :: ts, d, h, hn => by
    have h1 : UnitAt sep stepf [t] d :=
      UnitAt.single (by simp [hn t (List.mem_cons_self ..)]) (h t (List.mem_cons_self ..))
    exact UnitAt.append (a := [t]) h1
      (unit_of_inert_nosep ts d (fun x hx => h x (List.mem_cons_of_mem _ hx)) (fun x hx => hn x (List.mem_cons_of_mem _ hx)))

/-- `name( units, … )` is a unit at every depth when the inner units are units one level deeper. -/
theorem unit_group (hc : SepClass sep) (hs : ParenStep stepf) (name : String) (segs : List (List Tok)) (d : Depth)
    (hseg : ∀ s, s ∈ segs → UnitAt sep stepf s { d with p := d.p + 1 }) :
    UnitAt sep stepf (Tok.ident name :: Tok.lp :: (intercalateTok .comma segs ++ [Tok.rp])) d := by
  have hin : UnitAt sep stepf (intercalateTok .comma segs) { d with p := d.p + 1 } :=
    UnitAt.intercalate (by simp [isZero_p_succ d]) (hs.comma _) segs hseg
  have h1 : UnitAt sep stepf [Tok.ident name] d := unit_word hc hs rfl d
  have h2 : UnitAt sep stepf (Tok.lp :: (intercalateTok .comma segs ++ [Tok.rp])) d :=
    UnitAt.parens hc.lp hc.rp (hs.lp d) (hs.rp _) hin
  exact UnitAt.append (a := [Tok.ident name]) h1 h2

end generic

/-! #### aggregates and vectors under each splitter -/

theorem unit_agg_angle {stepf : Depth → Tok → Depth} (hs : ParenStep stepf)
    (hla : ∀ d, stepf d .la = { d with a := d.a + 1 }) (hra : ∀ d, stepf d .ra = { d with a := d.a - 1 })
    (fn v : String) (d : Depth) : UnitAt isComma stepf [Tok.ident fn, .la, .ident v, .ra] d := by
  constructor
  · simp [noSplit, isComma]
  · simp only [scanDepth, hs.word d _ (rfl : (Tok.ident fn).wordTok = true), hla,
      hs.word _ _ (rfl : (Tok.ident v).wordTok = true), hra]
    exact depth_a_roundtrip d

def vecToks (fs : List FloatLit) : List Tok :=
  Tok.lb :: (intercalateTok .comma (fs.map fun f => [Tok.flt f]) ++ [Tok.rb])

theorem mem_intercalate : ∀ (segs : List (List Tok)) (t : Tok), t ∈ intercalateTok .comma segs →
    t = .comma ∨ ∃ s, s ∈ segs ∧ t ∈ s
  | [], t, h => by simp [intercalateTok] at h
  | [x], t, h => Or.inr ⟨x, by simp, by simpa [intercalateTok] using h⟩
  | x :: y :: rest, t, h => by
    have hi : intercalateTok .comma (x :: y :: rest) = x ++ (Tok.comma :: intercalateTok .comma (y :: rest)) := by
      simp [intercalateTok]
    rw [hi] at h
    rcases List.mem_append.mp h with h | h
    · exact Or.inr ⟨x, by simp, h⟩
    · rcases List.mem_cons.mp h with h | h
      · exact Or.inl h
      · rcases mem_intercalate (y :: rest) t h with h | ⟨s, hs, hts⟩
        · exact Or.inl h
        · exact Or.inr ⟨s, List.mem_cons_of_mem _ hs, hts⟩

theorem mem_vecToks {fs : List FloatLit} {t : Tok} (h : t ∈ vecToks fs) :
    t = .lb ∨ t = .rb ∨ t = .comma ∨ ∃ f, t = .flt f := by
  unfold vecToks at h
  rcases List.mem_cons.mp h with h | h
  · exact Or.inl h
  · rcases List.mem_append.mp h with h | h
    · rcases mem_intercalate _ t h with h | ⟨s, hs, hts⟩
      · exact Or.inr (Or.inr (Or.inl h))
      · obtain ⟨f, _, rfl⟩ := List.mem_map.mp hs
        exact Or.inr (Or.inr (Or.inr ⟨f, by simpa using hts⟩))
    · exact Or.inr (Or.inl (by simpa using h))

/-- vector literal under the argument splitter (which counts `[` `]`) -/
theorem unit_vec_args (fs : List FloatLit) (d : Depth) : UnitAt isComma Depth.stepArgs (vecToks fs) d := by
  have hin : UnitAt isComma Depth.stepArgs (intercalateTok .comma (fs.map fun f => [Tok.flt f])) { d with b := d.b + 1 } := by
    apply UnitAt.intercalate (by simp [isZero_b_succ d]) rfl
    intro s hs'
    obtain ⟨f, _, rfl⟩ := List.mem_map.mp hs'
    exact unit_word sepClass_comma parenStep_args rfl _
  constructor
  · simp only [vecToks, noSplit, Depth.stepArgs, noSplit_append, hin.1, hin.2]
    simp [isComma]
  · simp only [vecToks, scanDepth, Depth.stepArgs, scanDepth_append, hin.2]
    exact depth_b_roundtrip d

theorem stepBody_vecToks {fs : List FloatLit} (d : Depth) : ∀ t, t ∈ vecToks fs → d.stepBody t = d := by
  intro t ht
  rcases mem_vecToks ht with h | h | h | ⟨f, h⟩ <;> subst h <;> rfl

theorem stepParen_vecToks {fs : List FloatLit} (d : Depth) : ∀ t, t ∈ vecToks fs → d.stepParen t = d := by
  intro t ht
  rcases mem_vecToks ht with h | h | h | ⟨f, h⟩ <;> subst h <;> rfl

theorem cmp_vecToks {fs : List FloatLit} (c : CmpOp) : ∀ t, t ∈ vecToks fs → cmpMatches c t = false := by
  intro t ht
  rcases mem_vecToks ht with h | h | h | ⟨f, h⟩ <;> subst h <;> rfl

theorem printTerm0_vec (fs : List FloatLit) : printTerm0 (.vec fs) = vecToks fs := rfl

/-! #### terms under the argument splitter: units at every depth -/

theorem unit_term0_args (t : Term0) (d : Depth) : UnitAt isComma Depth.stepArgs (printTerm0 t) d := by
  cases t with
  | var s => exact unit_word sepClass_comma parenStep_args rfl d
  | const n => exact unit_word sepClass_comma parenStep_args rfl d
  | flt f => exact unit_word sepClass_comma parenStep_args (floatTok_word f) d
  | str s => exact unit_word sepClass_comma parenStep_args rfl d
  | bool b => exact unit_word sepClass_comma parenStep_args rfl d
  | wild => exact unit_word sepClass_comma parenStep_args rfl d
  | arith e => exact unit_arith sepClass_comma parenStep_args e d
  | agg fn v => exact unit_agg_angle parenStep_args (fun _ => rfl) (fun _ => rfl) fn v d
  | vec fs => exact unit_vec_args fs d

theorem unit_term_args (t : Term) (d : Depth) : UnitAt isComma Depth.stepArgs (printTerm t) d := by
  cases t with
  | base t0 => exact unit_term0_args t0 d
  | call fn args =>
    apply unit_group sepClass_comma parenStep_args
    intro s hs
    obtain ⟨a, _, rfl⟩ := List.mem_map.mp hs
    exact unit_term0_args a _

/-! #### terms under the body splitter (ignores `[` `]`) and under the comparison finder (ignores `<` `>` `[` `]`):
     units below the top level; at the top level unless they are vectors resp. aggregates -/

theorem unit_term0_body (t : Term0) {d : Depth} (hz : d.isZero = false) : UnitAt isComma Depth.stepBody (printTerm0 t) d := by
  cases t with
  | var s => exact unit_word sepClass_comma parenStep_body rfl d
  | const n => exact unit_word sepClass_comma parenStep_body rfl d
  | flt f => exact unit_word sepClass_comma parenStep_body (floatTok_word f) d
  | str s => exact unit_word sepClass_comma parenStep_body rfl d
  | bool b => exact unit_word sepClass_comma parenStep_body rfl d
  | wild => exact unit_word sepClass_comma parenStep_body rfl d
  | arith e => exact unit_arith sepClass_comma parenStep_body e d
  | agg fn v => exact unit_agg_angle parenStep_body (fun _ => rfl) (fun _ => rfl) fn v d
  | vec fs => exact unit_of_inert_deep _ d (stepBody_vecToks d) hz

theorem unit_term0_cmp (c : CmpOp) (t : Term0) {d : Depth} (hz : d.isZero = false) :
    UnitAt (cmpMatches c) Depth.stepParen (printTerm0 t) d := by
  cases t with
  | var s => exact unit_word (sepClass_cmp c) parenStep_paren rfl d
  | const n => exact unit_word (sepClass_cmp c) parenStep_paren rfl d
  | flt f => exact unit_word (sepClass_cmp c) parenStep_paren (floatTok_word f) d
  | str s => exact unit_word (sepClass_cmp c) parenStep_paren rfl d
  | bool b => exact unit_word (sepClass_cmp c) parenStep_paren rfl d
  | wild => exact unit_word (sepClass_cmp c) parenStep_paren rfl d
  | arith e => exact unit_arith (sepClass_cmp c) parenStep_paren e d
  | agg fn v =>
    apply unit_of_inert_deep _ d _ hz
    intro t ht
    simp only [printTerm0, List.mem_cons, List.not_mem_nil, or_false] at ht
    rcases ht with h | h | h | h <;> subst h <;> rfl
  | vec fs => exact unit_of_inert_deep _ d (stepParen_vecToks d) hz

theorem unit_term_body_deep (t : Term) {d : Depth} (hz : d.isZero = false) : UnitAt isComma Depth.stepBody (printTerm t) d := by
  cases t with
  | base t0 => exact unit_term0_body t0 hz
  | call fn args =>
    apply unit_group sepClass_comma parenStep_body
    intro s hs
    obtain ⟨a, _, rfl⟩ := List.mem_map.mp hs
    exact unit_term0_body a (isZero_p_succ d)

theorem unit_term_cmp_deep (c : CmpOp) (t : Term) {d : Depth} (hz : d.isZero = false) :
    UnitAt (cmpMatches c) Depth.stepParen (printTerm t) d := by
  cases t with
  | base t0 => exact unit_term0_cmp c t0 hz
  | call fn args =>
    apply unit_group (sepClass_cmp c) parenStep_paren
    intro s hs
    obtain ⟨a, _, rfl⟩ := List.mem_map.mp hs
    exact unit_term0_cmp c a (isZero_p_succ d)

theorem unit_term_body_top (t : Term) (h : t.cmpSideOk = true) (d : Depth) : UnitAt isComma Depth.stepBody (printTerm t) d := by
  cases t with
  | call fn args =>
    apply unit_group sepClass_comma parenStep_body
    intro s hs
    obtain ⟨a, _, rfl⟩ := List.mem_map.mp hs
    exact unit_term0_body a (isZero_p_succ d)
  | base t0 =>
    cases t0 with
    | var s => exact unit_word sepClass_comma parenStep_body rfl d
    | const n => exact unit_word sepClass_comma parenStep_body rfl d
    | flt f => exact unit_word sepClass_comma parenStep_body (floatTok_word f) d
    | str s => exact unit_word sepClass_comma parenStep_body rfl d
    | bool b => exact unit_word sepClass_comma parenStep_body rfl d
    | wild => exact unit_word sepClass_comma parenStep_body rfl d
    | arith e => exact unit_arith sepClass_comma parenStep_body e d
    | agg fn v => simp [Term.cmpSideOk] at h
    | vec fs => simp [Term.cmpSideOk] at h

theorem unit_term_cmp_top (c : CmpOp) (t : Term) (h : t.cmpSideOk = true) (d : Depth) :
    UnitAt (cmpMatches c) Depth.stepParen (printTerm t) d := by
  cases t with
  | call fn args =>
    apply unit_group (sepClass_cmp c) parenStep_paren
    intro s hs
    obtain ⟨a, _, rfl⟩ := List.mem_map.mp hs
    exact unit_term0_cmp c a (isZero_p_succ d)
  | base t0 =>
    cases t0 with
    | var s => exact unit_word (sepClass_cmp c) parenStep_paren rfl d
    | const n => exact unit_word (sepClass_cmp c) parenStep_paren rfl d
    | flt f => exact unit_word (sepClass_cmp c) parenStep_paren (floatTok_word f) d
    | str s => exact unit_word (sepClass_cmp c) parenStep_paren rfl d
    | bool b => exact unit_word (sepClass_cmp c) parenStep_paren rfl d
    | wild => exact unit_word (sepClass_cmp c) parenStep_paren rfl d
    | arith e => exact unit_arith (sepClass_cmp c) parenStep_paren e d
    | agg fn v => simp [Term.cmpSideOk] at h
    | vec fs => simp [Term.cmpSideOk] at h

theorem unit_atom_body (a : Atom) (d : Depth) : UnitAt isComma Depth.stepBody (printAtom a) d := by
  unfold printAtom
  apply unit_group sepClass_comma parenStep_body
  intro s hs
  obtain ⟨t, _, rfl⟩ := List.mem_map.mp hs
  exact unit_term_body_deep t (isZero_p_succ d)

theorem unit_atom_cmp (c : CmpOp) (a : Atom) (d : Depth) : UnitAt (cmpMatches c) Depth.stepParen (printAtom a) d := by
  unfold printAtom
  apply unit_group (sepClass_cmp c) parenStep_paren
  intro s hs
  obtain ⟨t, _, rfl⟩ := List.mem_map.mp hs
  exact unit_term_cmp_deep c t (isZero_p_succ d)

theorem unit_lit_body (l : BodyLit) (h : l.wf = true) (d : Depth) : UnitAt isComma Depth.stepBody (printLit l) d := by
  cases l with
  | pos a => exact unit_atom_body a d
  | neg a =>
    have : printLit (.neg a) = [Tok.bang] ++ printAtom a := rfl
    rw [this]
    exact UnitAt.append (unit_word sepClass_comma parenStep_body rfl d) (unit_atom_body a d)
  | cmp l c r =>
    simp only [BodyLit.wf, Bool.and_eq_true] at h
    have : printLit (.cmp l c r) = printTerm l ++ ([Tok.cmp c] ++ printTerm r) := by simp [printLit]
    rw [this]
    have hc : UnitAt isComma Depth.stepBody [Tok.cmp c] d := UnitAt.single (by simp [isComma]) rfl
    exact UnitAt.append (unit_term_body_top l h.1.2 d) (UnitAt.append hc (unit_term_body_top r h.2 d))

/-! ### non-emptiness and last tokens -/

theorem printTerm0_ne_nil (t : Term0) : printTerm0 t ≠ [] := by
  cases t <;> simp [printTerm0, printArith_ne_nil]

theorem printTerm_ne_nil (t : Term) : printTerm t ≠ [] := by
  cases t with
  | base t0 => exact printTerm0_ne_nil t0
  | call fn args => simp [printTerm]

theorem printAtom_ne_nil (a : Atom) : printAtom a ≠ [] := by simp [printAtom]

theorem printLit_ne_nil (l : BodyLit) : printLit l ≠ [] := by
  cases l with
  | pos a => exact printAtom_ne_nil a
  | neg a => simp [printLit]
  | cmp l c r => simp [printLit]

theorem intercalate_getLast? : ∀ (segs : List (List Tok)), (∀ s, s ∈ segs → s ≠ []) →
    (intercalateTok .comma segs).getLast? = (segs.getLast?.bind fun s => s.getLast?)
  | [], _ => rfl
  | [x], _ => by simp [intercalateTok]
  | x :: y :: rest, h => by
    have ih := intercalate_getLast? (y :: rest) (fun s hs => h s (List.mem_cons_of_mem _ hs))
    have hne : intercalateTok .comma (y :: rest) ≠ [] := by
      cases rest with
      | nil => simpa [intercalateTok] using h y (by simp)
      | cons z zs =>
        have := h y (by simp)
        simp [intercalateTok, this]
    have hi : intercalateTok .comma (x :: y :: rest) = x ++ (Tok.comma :: intercalateTok .comma (y :: rest)) := by
      simp [intercalateTok]
    rw [hi, getLast?_append_right _ _ (by simp), List.getLast?_cons_of_ne_nil hne, ih]
    simp [List.getLast?_cons_of_ne_nil]

theorem optMapM_map {α β} (f : β → Option α) (g : α → β) : ∀ (l : List α), (∀ x, x ∈ l → f (g x) = some x) →
    optMapM f (l.map g) = some l
  | [], _ => rfl
  | a :: as, h => by
    have h1 := h a (List.mem_cons_self ..)
    have h2 := optMapM_map f g as (fun x hx => h x (List.mem_cons_of_mem _ hx))
    simp [optMapM, h1, h2]

/-! ### terms -/

def Term0.litStable (t : Term0) : Bool := t.floats.all FloatLit.stable
def Term.litStable (t : Term) : Bool := t.floats.all FloatLit.stable
def Atom.litStable (a : Atom) : Bool := a.floats.all FloatLit.stable
def BodyLit.litStable (l : BodyLit) : Bool := l.floats.all FloatLit.stable

theorem AExpr.litStable_iff (e : AExpr) : e.litStable = e.allFloats.all FloatLit.stable := by
  induction e with
  | var s => rfl
  | const n => rfl
  | flt f => simp [AExpr.litStable, AExpr.allFloats]
  | bin op l r ihl ihr => simp [AExpr.litStable, AExpr.allFloats, ihl, ihr, List.all_append]

theorem hasArith_at : ∀ (L R : List Tok) (o : AOp) (p : Option Tok),
    opSeen o (match L.getLast? with | some t => some t | none => p) = true →
    hasArithOpAux p (L ++ Tok.op o :: R) = true
  | [], R, o, p, h => by
    simp only [List.getLast?_nil] at h
    simp only [List.nil_append, hasArithOpAux, Bool.or_eq_true]
    left
    exact h
  | t :: L, R, o, p, h => by
    simp only [List.cons_append, hasArithOpAux, Bool.or_eq_true]
    right
    apply hasArith_at L R o (some t)
    cases hl : L.getLast? with
    | none =>
      have : L = [] := List.getLast?_eq_none_iff.mp hl
      subst this
      simpa using h
    | some x =>
      have : (t :: L).getLast? = some x := by
        rw [List.getLast?_cons_of_ne_nil (by intro hc; subst hc; simp at hl)]; exact hl
      simpa [this] using h

theorem hasArithOp_bin (op : AOp) (l r : AExpr) (hs : (AExpr.bin op l r).sciHidden = false) :
    hasArithOp (printArith (.bin op l r)) = true := by
  unfold hasArithOp
  simp only [printArith]
  apply hasArith_at
  have hLne : wrapIf (needParenL op l) (printArith l) ≠ [] := wrapIf_ne_nil _ (printArith_ne_nil l)
  cases hl : (wrapIf (needParenL op l) (printArith l)).getLast? with
  | none => exact absurd (List.getLast?_eq_none_iff.mp hl) hLne
  | some t =>
    have hend := wrapIf_last_endsOperand _ l t hl
    simp only [AExpr.sciHidden, Bool.or_eq_false_iff] at hs
    have hsci : op.isAdd = true → t.sciBefore = false := by
      intro ha
      have := hs.2
      simp only [ha, Bool.true_and, lastTokSci, hl] at this
      exact this
    cases op with
    | add => simp [opSeen, hsci rfl]
    | sub => simp [opSeen, hsci rfl, hend]
    | mul => rfl
    | div => rfl
    | mod => rfl

/-- first token of printed arithmetic is never `[`, and an identifier is never followed by `(` or `<`. -/
def shapeOK : List Tok → Bool
  | .lb :: _ => false
  | .ident _ :: .lp :: _ => false
  | .ident _ :: .la :: _ => false
  | _ => true

theorem floatTok_cases (f : FloatLit) : (∃ n, floatTok f = .fint f n) ∨ floatTok f = .flt f := by
  unfold floatTok; split
  · exact Or.inl ⟨_, rfl⟩
  · exact Or.inr rfl

theorem shapeOK_arith (e : AExpr) : ∀ rest, (∀ t, rest.head? = some t → t ≠ .lp ∧ t ≠ .la) →
    shapeOK (printArith e ++ rest) = true := by
  induction e with
  | var s =>
    intro rest h
    cases rest with
    | nil => rfl
    | cons t ts =>
      have := h t rfl
      cases t <;> simp_all [printArith, shapeOK]
  | const n => intro rest _; rfl
  | flt f =>
    intro rest _
    rcases floatTok_cases f with ⟨n, hn⟩ | hn <;> simp [printArith, hn, shapeOK]
  | bin op l r ihl _ =>
    intro rest _
    simp only [printArith, List.append_assoc, List.cons_append]
    unfold wrapIf
    split
    · simp [paren, shapeOK]
    · exact ihl _ (by intro t ht; simp at ht; subst ht; simp)

theorem parseTerm0_default (a b : Tok) (rest : List Tok) (h : shapeOK (a :: b :: rest) = true) :
    parseTerm0 (a :: b :: rest) = if hasArithOp (a :: b :: rest) then (parseArith (a :: b :: rest)).map .arith else none := by
  unfold parseTerm0
  split
  · rename_i heq; simp at heq
  · rename_i heq
    simp only [List.cons.injEq] at heq
    obtain ⟨rfl, _⟩ := heq
    simp [shapeOK] at h
  · rename_i heq
    simp only [List.cons.injEq] at heq
    obtain ⟨rfl, rfl, _⟩ := heq
    simp [shapeOK] at h
  · rfl

theorem printArith_bin_two (op : AOp) (l r : AExpr) :
    ∃ a b rest, printArith (.bin op l r) = a :: b :: rest := by
  simp only [printArith]
  have hLne : wrapIf (needParenL op l) (printArith l) ≠ [] := wrapIf_ne_nil _ (printArith_ne_nil l)
  cases hL : wrapIf (needParenL op l) (printArith l) with
  | nil => exact absurd hL hLne
  | cons a as =>
    cases as with
    | nil => exact ⟨a, _, _, rfl⟩
    | cons b bs => exact ⟨a, b, _, rfl⟩

theorem simpleAgg_lower (fn : String) (h : simpleAggs.contains fn = true) : lower fn = fn := by
  have hall : simpleAggs.all (fun n => lower n == n) = true := by decide
  have hm : fn ∈ simpleAggs := List.contains_iff_mem.mp h
  exact eq_of_beq (List.all_eq_true.mp hall fn hm)

theorem builtin_lower (fn : String) (h : builtinNames.contains fn = true) : lower fn = fn := by
  have hall : builtinNames.all (fun n => lower n == n) = true := by decide
  have hm : fn ∈ builtinNames := List.contains_iff_mem.mp h
  exact eq_of_beq (List.all_eq_true.mp hall fn hm)

theorem splitTop_vecElems (fs : List FloatLit) (hne : fs ≠ []) :
    splitTop (fun d _ => d) (intercalateTok .comma (fs.map fun f => [Tok.flt f])) = fs.map fun f => [Tok.flt f] := by
  apply splitTop_intercalate
  · simpa using hne
  · intro s hs
    obtain ⟨f, _, rfl⟩ := List.mem_map.mp hs
    exact UnitAt.single (by simp [isComma]) rfl
  · intro s hs
    obtain ⟨f, _, rfl⟩ := List.mem_map.mp (List.mem_of_getLast? hs)
    simp

/-! ### what well-formedness gives for literals and names -/

theorem stable_of_hasPoint (f : FloatLit) (h : f.hasPoint = true) : f.stable = true := by
  unfold FloatLit.hasPoint at h
  obtain ⟨c, hc, hcp⟩ := List.any_eq_true.mp h
  simp only [Bool.and_eq_true, Bool.not_eq_true', bne_iff_ne, ne_eq] at hcp
  have hmem : c ∈ (stripSign f.text.toList).2 := by
    unfold stripSign
    split
    · rename_i r heq
      rw [heq] at hc
      exact (List.mem_cons.mp hc).resolve_left hcp.1.2
    · rename_i r heq
      rw [heq] at hc
      exact (List.mem_cons.mp hc).resolve_left hcp.2
    · exact hc
  have hall : (stripSign f.text.toList).2.all Char.isDigit = false := by
    cases h' : (stripSign f.text.toList).2.all Char.isDigit with
    | false => rfl
    | true => have := List.all_eq_true.mp h' c hmem; simp [hcp.1.1] at this
  unfold FloatLit.stable parseI64
  simp [hall]

theorem sciTail_false_of_not_digit (s : String) (h : startsWithDigit s = false) : sciTail s = false := by
  unfold sciTail
  unfold startsWithDigit at h
  cases hl : s.toList with
  | nil => rfl
  | cons c cs =>
    rw [hl] at h
    simp only at h
    cases hr : (c :: cs).reverse with
    | nil => rfl
    | cons c1 r1 =>
      cases r1 with
      | nil => rfl
      | cons c2 rest =>
        simp only
        have hmem : c ∈ c2 :: rest := by
          have h1 : (c :: cs).reverse = cs.reverse ++ [c] := by simp
          rw [h1] at hr
          cases hcs : cs.reverse with
          | nil => rw [hcs] at hr; simp at hr
          | cons x xs =>
            rw [hcs] at hr
            simp only [List.cons_append, List.cons.injEq] at hr
            rw [← hr.2]; simp
        have : (c2 :: rest).all (fun c => c.isDigit || c == '.') = false := by
          cases ha : (c2 :: rest).all (fun c => c.isDigit || c == '.') with
          | false => rfl
          | true => have := List.all_eq_true.mp ha c hmem; simp [h] at this
        simp [this]

theorem floatTok_sci (f : FloatLit) : (floatTok f).sciBefore = false := by
  rcases floatTok_cases f with ⟨n, hn⟩ | hn <;> simp [hn, Tok.sciBefore]

theorem sciBefore_arith (e : AExpr) (h : e.leavesOk = true) : ∀ t, t ∈ printArith e → t.sciBefore = false := by
  induction e with
  | var s =>
    intro t ht
    simp only [printArith, List.mem_cons, List.not_mem_nil, or_false] at ht
    subst ht
    simp only [AExpr.leavesOk, Bool.not_eq_true'] at h
    exact sciTail_false_of_not_digit s h
  | const n => intro t ht; simp [printArith] at ht; subst ht; rfl
  | flt f => intro t ht; simp [printArith] at ht; subst ht; exact floatTok_sci f
  | bin op l r ihl ihr =>
    intro t ht
    simp only [AExpr.leavesOk, Bool.and_eq_true] at h
    simp only [printArith, List.mem_append, List.mem_cons] at ht
    have hw : ∀ (b : Bool) (x : AExpr), (∀ t, t ∈ printArith x → t.sciBefore = false) → t ∈ wrapIf b (printArith x) → t.sciBefore = false := by
      intro b x hx hm
      unfold wrapIf at hm
      split at hm
      · simp only [paren, List.mem_cons, List.mem_append, List.not_mem_nil, or_false] at hm
        rcases hm with rfl | hm | rfl
        · rfl
        · exact hx t hm
        · rfl
      · exact hx t hm
    rcases ht with ht | rfl | ht
    · exact hw _ l (ihl h.1) ht
    · rfl
    · exact hw _ r (ihr h.2) ht

theorem sciHidden_of_leavesOk (e : AExpr) (h : e.leavesOk = true) : e.sciHidden = false := by
  induction e with
  | var s => rfl
  | const n => rfl
  | flt f => rfl
  | bin op l r ihl ihr =>
    have h' := h
    simp only [AExpr.leavesOk, Bool.and_eq_true] at h'
    simp only [AExpr.sciHidden, ihl h'.1, ihr h'.2, Bool.false_or, Bool.and_eq_false_iff]
    right
    unfold lastTokSci
    cases hg : (wrapIf (needParenL op l) (printArith l)).getLast? with
    | none => rfl
    | some t =>
      simp only
      have hm : t ∈ wrapIf (needParenL op l) (printArith l) := List.mem_of_getLast? hg
      unfold wrapIf at hm
      split at hm
      · simp only [paren, List.mem_cons, List.mem_append, List.not_mem_nil, or_false] at hm
        rcases hm with rfl | hm | rfl
        · rfl
        · exact sciBefore_arith l h'.1 t hm
        · rfl
      · exact sciBefore_arith l h'.1 t hm

theorem litStable_of_leavesOk (e : AExpr) (h : e.leavesOk = true) : e.litStable = true := by
  induction e with
  | var s => rfl
  | const n => rfl
  | flt f =>
    simp only [AExpr.leavesOk, FloatLit.ok, Bool.and_eq_true] at h
    exact stable_of_hasPoint f h.2
  | bin op l r ihl ihr =>
    simp only [AExpr.leavesOk, Bool.and_eq_true] at h
    simp [AExpr.litStable, ihl h.1, ihr h.2]

theorem allFinite_of_leavesOk (e : AExpr) (h : e.leavesOk = true) : e.allFinite = true := by
  induction e with
  | var s => rfl
  | const n => rfl
  | flt f =>
    simp only [AExpr.leavesOk, FloatLit.ok, Bool.and_eq_true] at h
    exact h.1
  | bin op l r ihl ihr =>
    simp only [AExpr.leavesOk, Bool.and_eq_true] at h
    simp [AExpr.allFinite, ihl h.1, ihr h.2]

theorem term0_roundtrip (t : Term0) (hwf : t.wf = true) : parseTerm0 (printTerm0 t) = some t := by
  cases t with
  | var s =>
    simp only [Term0.wf, Bool.and_eq_true, bne_iff_ne, ne_eq] at hwf
    simp [printTerm0, parseTerm0, parseSingle, hwf.1, hwf.2]
  | const n => rfl
  | flt f =>
    simp only [Term0.wf, FloatLit.ok, Bool.and_eq_true] at hwf
    have hf : f.stable = true := stable_of_hasPoint f hwf.2
    simp [printTerm0, parseTerm0, parseSingle, floatTok_stable hf, hwf.1]
  | str s => rfl
  | bool b => cases b <;> decide
  | wild => rfl
  | arith e =>
    cases e with
    | bin op l r =>
      have hok : (AExpr.bin op l r).leavesOk = true := by
        simp only [Term0.wf, Bool.and_eq_true] at hwf; exact hwf.2
      have hlit := litStable_of_leavesOk _ hok
      have hsci := sciHidden_of_leavesOk _ hok
      have hfin := allFinite_of_leavesOk _ hok
      obtain ⟨a, b, rest, hab⟩ := printArith_bin_two op l r
      have hshape : shapeOK (a :: b :: rest) = true := by
        have := shapeOK_arith (.bin op l r) [] (by simp)
        rwa [List.append_nil, hab] at this
      have harith : parseArith (printArith (.bin op l r)) = some (.bin op l r) := by
        unfold parseArith
        exact (parse_levels _ hlit hsci hfin).1 _ (by have := height_le_length (.bin op l r); omega)
      simp only [printTerm0]
      rw [hab, parseTerm0_default a b rest hshape, ← hab, hasArithOp_bin op l r hsci, harith]
      rfl
    | var s => simp [Term0.wf, AExpr.isBin] at hwf
    | const n => simp [Term0.wf, AExpr.isBin] at hwf
    | flt f => simp [Term0.wf, AExpr.isBin] at hwf
  | agg fn v =>
    have hfn : simpleAggs.contains fn = true := hwf
    simp only [printTerm0, parseTerm0, simpleAgg_lower fn hfn, hfn, if_true]
  | vec fs =>
    simp only [printTerm0]
    cases fs with
    | nil => simp [parseTerm0, parseVec, intercalateTok]
    | cons f fs' =>
      have hsplit := splitTop_vecElems (f :: fs') (by simp)
      have hne : intercalateTok .comma ((f :: fs').map fun f => [Tok.flt f]) ≠ [] := by
        cases fs' <;> simp [intercalateTok]
      have hmap : optMapM vecElem ((f :: fs').map fun f => [Tok.flt f]) = some (f :: fs') :=
        optMapM_map _ _ _ (fun x _ => rfl)
      obtain ⟨x, xs, hx⟩ := List.exists_cons_of_ne_nil hne
      unfold parseTerm0
      rw [hx]
      simp only [List.cons_append]
      rw [← List.cons_append, ← hx]
      simp only [parseVec, List.getLast?_concat, List.dropLast_concat, beq_self_eq_true, if_true]
      rw [hsplit, hmap]
      have hne' : (intercalateTok Tok.comma (List.map (fun f => [Tok.flt f]) (f :: fs'))).isEmpty = false := by
        simpa using hne
      simp only [hne']
      rfl


/-! ### terms with calls -/

def notCallShape : List Tok → Bool
  | .ident _ :: .lp :: _ => false
  | _ => true

theorem notCallShape_of_shapeOK : ∀ (ts : List Tok), shapeOK ts = true → notCallShape ts = true
  | [], _ => rfl
  | [_], _ => by unfold notCallShape; split <;> simp_all
  | a :: b :: rest, h => by
    unfold notCallShape
    split
    · rename_i heq
      simp only [List.cons.injEq] at heq
      obtain ⟨rfl, rfl, _⟩ := heq
      simp [shapeOK] at h
    · rfl

theorem notCallShape_term0 (t : Term0) : notCallShape (printTerm0 t) = true := by
  cases t with
  | arith e =>
    have := shapeOK_arith e [] (by simp)
    rw [List.append_nil] at this
    exact notCallShape_of_shapeOK _ this
  | flt f => rcases floatTok_cases f with ⟨n, hn⟩ | hn <;> simp [printTerm0, hn, notCallShape]
  | bool b => cases b <;> rfl
  | vec fs => rfl
  | _ => rfl

theorem parseTerm_base (ts : List Tok) (h : notCallShape ts = true) : parseTerm ts = (parseTerm0 ts).map .base := by
  unfold parseTerm
  split
  · rename_i fn rest
    simp [notCallShape] at h
  · rfl

theorem splitTop_nil (stepf : Depth → Tok → Depth) : splitTop stepf [] = [] := by
  simp [splitTop, splitTopAux]

theorem all_flatMap_floats {α} (f : α → List FloatLit) (l : List α) (h : (l.flatMap f).all FloatLit.stable = true) :
    ∀ x, x ∈ l → (f x).all FloatLit.stable = true := by
  rw [all_flatMap] at h
  exact fun x hx => List.all_eq_true.mp h x hx

theorem term_roundtrip (t : Term) (hwf : t.wf = true) : parseTerm (printTerm t) = some t := by
  cases t with
  | base t0 =>
    simp only [printTerm]
    rw [parseTerm_base _ (notCallShape_term0 t0), term0_roundtrip t0 hwf]
    rfl
  | call fn args =>
    simp only [Term.wf, Bool.and_eq_true] at hwf
    have hfn := builtin_lower fn hwf.1
    have hargs : ∀ a, a ∈ args → parseTerm0 (printTerm0 a) = some a :=
      fun a ha => term0_roundtrip a (List.all_eq_true.mp hwf.2 a ha)
    have hopt : optMapM parseTerm0 (args.map printTerm0) = some args := optMapM_map _ _ _ hargs
    simp only [printTerm]
    unfold parseTerm
    simp only [List.getLast?_concat, List.dropLast_concat, beq_self_eq_true, hfn, hwf.1, Bool.and_self, if_true]
    cases args with
    | nil => simp [intercalateTok, splitTop_nil, optMapM]
    | cons a as =>
      have hsplit : splitTop Depth.stepArgs (intercalateTok .comma ((a :: as).map printTerm0)) = (a :: as).map printTerm0 := by
        apply splitTop_intercalate
        · simp
        · intro s hs'
          obtain ⟨x, _, rfl⟩ := List.mem_map.mp hs'
          exact unit_term0_args x _
        · intro s hs'
          obtain ⟨x, _, rfl⟩ := List.mem_map.mp (List.mem_of_getLast? hs')
          exact printTerm0_ne_nil x
      rw [hsplit, hopt]
      rfl

/-! ### atoms -/

theorem intercalate_eq_nil : ∀ (segs : List (List Tok)), (∀ s, s ∈ segs → s ≠ []) →
    intercalateTok .comma segs = [] → segs = []
  | [], _, _ => rfl
  | [x], h, he => absurd (by simpa [intercalateTok] using he) (h x (by simp))
  | x :: y :: rest, _, he => by simp [intercalateTok] at he

theorem atom_roundtrip (a : Atom) (hwf : a.wf = true) : parseAtom (printAtom a) = some a := by
  obtain ⟨rel, args⟩ := a
  have hargs : ∀ t, t ∈ args → parseTerm (printTerm t) = some t :=
    fun t ht => term_roundtrip t (List.all_eq_true.mp hwf t ht)
  have hopt : optMapM parseTerm (args.map printTerm) = some args := optMapM_map _ _ _ hargs
  have hne : ∀ s, s ∈ args.map printTerm → s ≠ [] := by
    intro s hs'
    obtain ⟨x, _, rfl⟩ := List.mem_map.mp hs'
    exact printTerm_ne_nil x
  simp only [printAtom]
  unfold parseAtom
  simp only [dropOneRp_snoc]
  cases args with
  | nil => simp [intercalateTok]
  | cons t ts =>
    have hne2 : intercalateTok .comma ((t :: ts).map printTerm) ≠ [] := by
      intro he
      have := intercalate_eq_nil _ hne he
      simp at this
    have hsplit : splitTop Depth.stepArgs (intercalateTok .comma ((t :: ts).map printTerm)) = (t :: ts).map printTerm := by
      apply splitTop_intercalate
      · simp
      · intro s hs'
        obtain ⟨x, _, rfl⟩ := List.mem_map.mp hs'
        exact unit_term_args x _
      · intro s hs'
        exact hne s (List.mem_of_getLast? hs')
    have hemp : (intercalateTok .comma ((t :: ts).map printTerm)).isEmpty = false := by simpa using hne2
    simp only [hemp, hsplit, hopt]
    rfl

/-! ### the comparison finder -/

theorem findCmpAux_pass (c : CmpOp) : ∀ (ts rest : List Tok) (d : Depth) (acc : List Tok),
    noSplit (cmpMatches c) Depth.stepParen ts d = true →
    findCmpAux c (ts ++ rest) d acc = findCmpAux c rest (scanDepth Depth.stepParen ts d) (ts.reverse ++ acc)
  | [], _, _, _, _ => rfl
  | t :: ts, rest, d, acc, h => by
    simp only [noSplit, Bool.and_eq_true, Bool.not_eq_true'] at h
    have ih := findCmpAux_pass c ts rest (d.stepParen t) (t :: acc) h.2
    simp only [List.cons_append, scanDepth, List.reverse_cons, List.append_assoc, List.singleton_append,
      List.nil_append]
    rw [← ih]
    conv => lhs; unfold findCmpAux
    simp [h.1]

theorem findCmpAux_none (c : CmpOp) (ts : List Tok) (h : UnitAt (cmpMatches c) Depth.stepParen ts {}) :
    findCmpAux c ts {} [] = none := by
  have := findCmpAux_pass c ts [] {} [] h.1
  simp only [List.append_nil] at this
  rw [this]; rfl

/-- in `l c r` printed, the operator `c'` is found iff it is `c`, and then at the printed position. -/
theorem findCmpAux_lit (c c' : CmpOp) (l r : Term) (hl : l.cmpSideOk = true) (hr : r.cmpSideOk = true) :
    findCmpAux c' (printTerm l ++ Tok.cmp c :: printTerm r) {} [] =
      if c' = c then some (printTerm l, printTerm r) else none := by
  have hL := unit_term_cmp_top c' l hl {}
  rw [findCmpAux_pass c' _ _ {} [] hL.1, hL.2]
  by_cases hcc : c' = c
  · subst hcc
    conv => lhs; unfold findCmpAux
    simp [cmpMatches, Depth.isZero]
  · conv => lhs; unfold findCmpAux
    have hm : cmpMatches c' (Tok.cmp c) = false := by simp [cmpMatches, hcc]
    simp only [hm, Bool.false_and, Bool.false_eq_true, if_false, hcc]
    have hR := unit_term_cmp_top c' r hr {}
    have h2 : Depth.stepParen {} (Tok.cmp c) = {} := rfl
    rw [h2]
    have := findCmpAux_pass c' (printTerm r) [] {} (Tok.cmp c :: ((printTerm l).reverse ++ [])) hR.1
    simp only [List.append_nil] at this ⊢
    rw [this]
    rfl

theorem findCmp_lit (c : CmpOp) (l r : Term) (hl : l.cmpSideOk = true) (hr : r.cmpSideOk = true) :
    findCmp (printTerm l ++ Tok.cmp c :: printTerm r) = some (printTerm l, c, printTerm r) := by
  unfold findCmp
  cases c <;> simp [List.findSome?, findCmpAux_lit _ _ l r hl hr]

theorem findCmp_atom (a : Atom) : findCmp (printAtom a) = none := by
  unfold findCmp
  simp [List.findSome?, findCmpAux_none _ _ (unit_atom_cmp _ a {})]

/-! ### body literals -/

theorem lit_roundtrip (l : BodyLit) (hwf : l.wf = true) : parseLit (printLit l) = some l := by
  cases l with
  | pos a =>
    have hat := atom_roundtrip a hwf
    simp only [printLit]
    unfold parseLit
    have hshape : printAtom a = Tok.ident a.rel :: Tok.lp :: (intercalateTok .comma (a.args.map printTerm) ++ [Tok.rp]) := rfl
    rw [hshape]
    simp only []
    rw [← hshape, findCmp_atom a, hat]
    rfl
  | neg a =>
    have hat := atom_roundtrip a hwf
    have hshape : printAtom a = Tok.ident a.rel :: Tok.lp :: (intercalateTok .comma (a.args.map printTerm) ++ [Tok.rp]) := rfl
    simp only [printLit]
    unfold parseLit
    simp only []
    have hd : dropBangs (Tok.bang :: printAtom a) = printAtom a := by
      rw [hshape]; simp [dropBangs]
    rw [hd, hat]
    rfl
  | cmp a c b =>
    simp only [BodyLit.wf, Bool.and_eq_true] at hwf
    have ha := term_roundtrip a hwf.1.1.1
    have hb := term_roundtrip b hwf.1.1.2
    have hnb : ∀ ts, printTerm a ++ Tok.cmp c :: printTerm b ≠ Tok.bang :: ts := by
      intro ts hc
      cases hpa : printTerm a with
      | nil => exact absurd hpa (printTerm_ne_nil a)
      | cons x xs =>
        rw [hpa] at hc
        simp only [List.cons_append, List.cons.injEq] at hc
        have hx : x = Tok.bang := hc.1
        -- no printed term starts with `!`
        have : ∀ t : Term, ∀ y ys, printTerm t = y :: ys → y ≠ Tok.bang := by
          intro t y ys hy
          cases t with
          | call fn args => simp [printTerm] at hy; rw [← hy.1]; simp
          | base t0 =>
            have hu := unit_term0_args t0 {}
            cases t0 with
            | arith e =>
              have := shapeOK_arith e [] (by simp)
              intro hbang
              subst hbang
              simp only [printTerm, printTerm0] at hy
              -- first token of printed arithmetic is an operand or `(`
              have hfirst : ∀ e : AExpr, ∀ z zs, printArith e = z :: zs → z ≠ Tok.bang := by
                intro e
                induction e with
                | var s => intro z zs h; simp [printArith] at h; rw [← h.1]; simp
                | const n => intro z zs h; simp [printArith] at h; rw [← h.1]; simp
                | flt f =>
                  intro z zs h
                  simp only [printArith, List.cons.injEq] at h
                  rw [← h.1]
                  rcases floatTok_cases f with ⟨n, hn⟩ | hn <;> simp [hn]
                | bin op l r ihl _ =>
                  intro z zs h
                  simp only [printArith] at h
                  unfold wrapIf at h
                  split at h
                  · simp [paren] at h; rw [← h.1]; simp
                  · cases hpl : printArith l with
                    | nil => exact absurd hpl (printArith_ne_nil l)
                    | cons w ws =>
                      rw [hpl] at h
                      simp only [List.cons_append, List.cons.injEq] at h
                      rw [← h.1]
                      exact ihl w ws hpl
              exact hfirst e _ _ hy rfl
            | flt f =>
              simp only [printTerm, printTerm0, List.cons.injEq] at hy
              rw [← hy.1]
              rcases floatTok_cases f with ⟨n, hn⟩ | hn <;> simp [hn]
            | bool b => cases b <;> (simp [printTerm, printTerm0] at hy; rw [← hy.1]; simp)
            | _ => simp [printTerm, printTerm0, vecToks] at hy <;> (try (rw [← hy.1]; simp))
        exact this a x xs hpa hx
    simp only [printLit]
    unfold parseLit
    split
    · rename_i ts heq
      exact absurd heq (hnb ts)
    · rw [findCmp_lit c a b hwf.1.2 hwf.2]
      simp only [ha, hb]


/-! ### rules -/

theorem noArrow_append (a b : List Tok) : noArrow (a ++ b) = (noArrow a && noArrow b) := by
  simp [noArrow, List.all_append]

theorem noArrow_intercalate : ∀ (segs : List (List Tok)), (∀ s, s ∈ segs → noArrow s = true) →
    noArrow (intercalateTok .comma segs) = true
  | [], _ => rfl
  | [x], h => by simpa [intercalateTok] using h x (by simp)
  | x :: y :: rest, h => by
    have ih := noArrow_intercalate (y :: rest) (fun s hs => h s (List.mem_cons_of_mem _ hs))
    have hi : intercalateTok .comma (x :: y :: rest) = x ++ ([Tok.comma] ++ intercalateTok .comma (y :: rest)) := by
      simp [intercalateTok]
    rw [hi, noArrow_append, noArrow_append, h x (by simp), ih]
    rfl

theorem noArrow_floatTok (f : FloatLit) : noArrow [floatTok f] = true := by
  rcases floatTok_cases f with ⟨n, hn⟩ | hn <;> simp [hn, noArrow]

theorem noArrow_arith (e : AExpr) : noArrow (printArith e) = true := by
  induction e with
  | var s => rfl
  | const n => rfl
  | flt f => exact noArrow_floatTok f
  | bin op l r ihl ihr =>
    simp only [printArith]
    have hw : ∀ (b : Bool) (x : AExpr), noArrow (printArith x) = true → noArrow (wrapIf b (printArith x)) = true := by
      intro b x hx
      unfold wrapIf; split
      · simp only [paren]
        have : Tok.lp :: (printArith x ++ [Tok.rp]) = [Tok.lp] ++ (printArith x ++ [Tok.rp]) := rfl
        rw [this, noArrow_append, noArrow_append, hx]; rfl
      · exact hx
    have : wrapIf (needParenL op l) (printArith l) ++ Tok.op op :: wrapIf (needParenR op r) (printArith r)
        = wrapIf (needParenL op l) (printArith l) ++ ([Tok.op op] ++ wrapIf (needParenR op r) (printArith r)) := rfl
    rw [this, noArrow_append, noArrow_append, hw _ l ihl, hw _ r ihr]; rfl

theorem noArrow_term0 (t : Term0) : noArrow (printTerm0 t) = true := by
  cases t with
  | flt f => exact noArrow_floatTok f
  | bool b => cases b <;> rfl
  | arith e => exact noArrow_arith e
  | vec fs =>
    simp only [printTerm0]
    have h1 : noArrow (intercalateTok .comma (fs.map fun f => [Tok.flt f])) = true := by
      apply noArrow_intercalate
      intro s hs
      obtain ⟨f, _, rfl⟩ := List.mem_map.mp hs
      rfl
    have : Tok.lb :: (intercalateTok .comma (fs.map fun f => [Tok.flt f]) ++ [Tok.rb])
        = [Tok.lb] ++ (intercalateTok .comma (fs.map fun f => [Tok.flt f]) ++ [Tok.rb]) := rfl
    rw [this, noArrow_append, noArrow_append, h1]; rfl
  | _ => rfl

theorem noArrow_group (name : String) (segs : List (List Tok)) (h : ∀ s, s ∈ segs → noArrow s = true) :
    noArrow (Tok.ident name :: Tok.lp :: (intercalateTok .comma segs ++ [Tok.rp])) = true := by
  have : Tok.ident name :: Tok.lp :: (intercalateTok .comma segs ++ [Tok.rp])
      = [Tok.ident name, Tok.lp] ++ (intercalateTok .comma segs ++ [Tok.rp]) := rfl
  rw [this, noArrow_append, noArrow_append, noArrow_intercalate segs h]; rfl

theorem noArrow_term (t : Term) : noArrow (printTerm t) = true := by
  cases t with
  | base t0 => exact noArrow_term0 t0
  | call fn args =>
    apply noArrow_group
    intro s hs
    obtain ⟨a, _, rfl⟩ := List.mem_map.mp hs
    exact noArrow_term0 a

theorem noArrow_atom (a : Atom) : noArrow (printAtom a) = true := by
  unfold printAtom
  apply noArrow_group
  intro s hs
  obtain ⟨t, _, rfl⟩ := List.mem_map.mp hs
  exact noArrow_term t

theorem noArrow_lit (l : BodyLit) : noArrow (printLit l) = true := by
  cases l with
  | pos a => exact noArrow_atom a
  | neg a =>
    have : printLit (.neg a) = [Tok.bang] ++ printAtom a := rfl
    rw [this, noArrow_append, noArrow_atom a]; rfl
  | cmp l c r =>
    have : printLit (.cmp l c r) = printTerm l ++ ([Tok.cmp c] ++ printTerm r) := by simp [printLit]
    rw [this, noArrow_append, noArrow_append, noArrow_term l, noArrow_term r]; rfl

theorem rule_roundtrip (r : Rule) (hwf : r.wf = true) : parseRule (printRule r) = some r := by
  obtain ⟨head, body⟩ := r
  simp only [Rule.wf, Bool.and_eq_true] at hwf
  have hhead := atom_roundtrip head hwf.1
  have hlits : ∀ l, l ∈ body → parseLit (printLit l) = some l :=
    fun l hlm => lit_roundtrip l (List.all_eq_true.mp hwf.2 l hlm)
  have hopt : optMapM parseLit (body.map printLit) = some body := optMapM_map _ _ _ hlits
  cases body with
  | nil =>
    simp only [printRule, List.isEmpty_nil, if_true]
    unfold parseRule
    rw [splitArrow_noArrow _ (noArrow_atom head)]
    simp only [hhead]
    rfl
  | cons l ls =>
    have hb : noArrow (intercalateTok .comma ((l :: ls).map printLit)) = true := by
      apply noArrow_intercalate
      intro s hs'
      obtain ⟨x, _, rfl⟩ := List.mem_map.mp hs'
      exact noArrow_lit x
    have hsplit : splitTop Depth.stepBody (intercalateTok .comma ((l :: ls).map printLit)) = (l :: ls).map printLit := by
      apply splitTop_intercalate
      · simp
      · intro s hs'
        obtain ⟨x, hx, rfl⟩ := List.mem_map.mp hs'
        exact unit_lit_body x (List.all_eq_true.mp hwf.2 x hx) _
      · intro s hs'
        obtain ⟨x, _, rfl⟩ := List.mem_map.mp (List.mem_of_getLast? hs')
        exact printLit_ne_nil x
    simp only [printRule, List.isEmpty_cons, Bool.false_eq_true, if_false]
    unfold parseRule
    rw [splitArrow_one _ _ (noArrow_atom head) hb]
    simp only [hhead, hsplit, hopt]
    simp

end ILV.RText
