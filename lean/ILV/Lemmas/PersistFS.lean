/-
  C13 lemmas, part 1: the persist model's disk seen through `itemsAt` (the item list of a file, which is all any
  reader looks at), and what each FS operation / an as-is crash does to it.
-/
import ILV.Lemmas.Persist
namespace ILV.Persist
open ILV.FS

def itemsAt (d : Disk) (p : Path) : Option (List (Item Rec)) := (get d p).map File.items

theorem itemsAt_put (d : Disk) (p q : Path) (f : File Rec) :
    itemsAt (put d p f) q = if p = q then some f.items else itemsAt d q := by
  simp only [itemsAt, FS.get_put]
  by_cases h : p = q <;> simp [h]

theorem itemsAt_del (d : Disk) (p q : Path) : itemsAt (del d p) q = if q = p then none else itemsAt d q := by
  simp only [itemsAt, FS.get_del]
  by_cases h : q = p <;> simp [h]

theorem itemsAt_write (d : Disk) (p q : Path) (rs : List Rec) :
    itemsAt (apply d (.write p rs)) q = if p = q then some (rs.map .whole) else itemsAt d q := by
  simp [apply, itemsAt_put, File.items]

theorem itemsAt_append (d : Disk) (p q : Path) (rs : List Rec) :
    itemsAt (apply d (.append p rs)) q =
      if p = q then some ((itemsAt d p).getD [] ++ rs.map .whole) else itemsAt d q := by
  simp only [apply]
  cases h : get d p with
  | none =>
    rw [itemsAt_put]
    simp [File.items, itemsAt, h]
  | some f =>
    rw [itemsAt_put]
    simp [File.items, itemsAt, h, List.append_assoc]

theorem itemsAt_fsync (d : Disk) (p q : Path) : itemsAt (apply d (.fsync p)) q = itemsAt d q := by
  simp only [apply]
  cases h : get d p with
  | none => rfl
  | some f =>
    simp only [itemsAt_put, File.items, List.append_nil]
    by_cases hq : p = q
    · subst hq; simp [itemsAt, h, File.items]
    · simp [hq]

theorem itemsAt_rename (d : Disk) (a b q : Path) :
    itemsAt (apply d (.rename a b)) q =
      match itemsAt d a with
      | some x => if b = q then some x else if q = a then none else itemsAt d q
      | none => itemsAt d q := by
  simp only [apply]
  cases h : get d a with
  | none => simp [itemsAt, h]
  | some f =>
    rw [itemsAt_put, itemsAt_del]
    simp [itemsAt, h]

theorem itemsAt_unlink (d : Disk) (p q : Path) :
    itemsAt (apply d (.unlink p)) q = if q = p then none else itemsAt d q := by
  simp [apply, itemsAt_del]

theorem itemsAt_nop (d : Disk) (l : Nat) (q : Path) : itemsAt (apply d (.nop l)) q = itemsAt d q := rfl

theorem itemsAt_crash_noCut (d : Disk) (q : Path) : itemsAt (crash d noCut) q = itemsAt d q := by
  simp only [itemsAt, FS.get_crash, noCut, Option.map_map]
  cases get d q <;> simp [crashFile, File.items]

/-! readers through `itemsAt` -/

theorem readDoc_eq (d : Disk) (p : Path) :
    readDoc d p = match itemsAt d p with
      | some [.whole r] => some r
      | _ => none := by
  simp only [readDoc, itemsAt]
  cases get d p with
  | none => rfl
  | some f => simp only [Option.map_some]; split <;> simp_all

theorem readAll_eq (d : Disk) :
    readAll d = match itemsAt d .wal with
      | none => some []
      | some is => walParse false is := by
  simp only [readAll, itemsAt]
  cases get d .wal <;> rfl

theorem isSome_get (d : Disk) (p : Path) : (get d p).isSome = (itemsAt d p).isSome := by
  simp [itemsAt]

/-- two disks that agree on every file's items are indistinguishable for the document readers -/
theorem readBatch_congr {d d' : Disk} (id : Nat) (h : itemsAt d (.batch id) = itemsAt d' (.batch id)) :
    readBatch d id = readBatch d' id := by
  simp only [readBatch, readDoc_eq, h]

theorem readBatches_congr {d d' : Disk} (bs : List BatchRef)
    (h : ∀ b ∈ bs, itemsAt d (.batch b.id) = itemsAt d' (.batch b.id)) :
    readBatches d bs = readBatches d' bs := by
  induction bs with
  | nil => rfl
  | cons b rest ih =>
    simp only [readBatches]
    rw [readBatch_congr b.id (h b (by simp)), ih (fun x hx => h x (by simp [hx]))]

/-! paths present on a disk -/

theorem mem_paths_of_items (d : Disk) (p : Path) (h : (itemsAt d p).isSome) : p ∈ paths d := by
  induction d with
  | nil => simp [itemsAt, FS.get] at h
  | cons e rest ih =>
    obtain ⟨k, f⟩ := e
    by_cases hk : k = p
    · simp [paths, hk]
    · have : (itemsAt rest p).isSome := by simpa [itemsAt, FS.get, hk] using h
      have := ih this
      simp only [paths, List.map_cons, List.mem_cons] at this ⊢
      exact .inr this

theorem items_of_mem_paths (d : Disk) (p : Path) (h : p ∈ paths d) : (itemsAt d p).isSome := by
  induction d with
  | nil => simp [paths] at h
  | cons e rest ih =>
    obtain ⟨k, f⟩ := e
    by_cases hk : k = p
    · simp [itemsAt, FS.get, hk]
    · have : p ∈ paths rest := by
        simp only [paths, List.map_cons, List.mem_cons] at h
        rcases h with h | h
        · exact absurd h.symm hk
        · exact h
      simpa [itemsAt, FS.get, hk] using ih this

theorem mem_metaPaths (d : Disk) (f : Name) : f ∈ metaPaths d ↔ (itemsAt d (.smeta f)).isSome := by
  constructor
  · intro h
    apply items_of_mem_paths
    simp only [metaPaths, List.mem_filterMap] at h
    obtain ⟨e, he, hf⟩ := h
    obtain ⟨k, file⟩ := e
    cases k <;> simp at hf
    subst hf
    simp only [paths, List.mem_map]
    exact ⟨_, he, rfl⟩
  · intro h
    have := mem_paths_of_items d _ h
    simp only [paths, List.mem_map] at this
    obtain ⟨e, he, hk⟩ := this
    simp only [metaPaths, List.mem_filterMap]
    exact ⟨e, he, by simp [hk]⟩

end ILV.Persist
