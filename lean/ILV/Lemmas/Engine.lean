/-
  Lemmas about the engine model (ILV.Model.Engine) for non-recursive programs executed in an
  order that respects the head dependencies: the accumulated results form a supported model,
  supported models of such programs are unique, and `pmEval` returns one.
-/
import ILV.Lemmas.Datalog
namespace ILV.Engine
open ILV ILV.DL

/-- all switches off, one worker, no row limit. -/
def allOff : Cfg := {}

/-- the model's clause evaluation coincides with the Spec reading of the clause (false exactly for
    the clause-level defects: wildcard column names, dropped equalities, shifted push-down). -/
def ClauseFaithful (p : Program) : Prop :=
  ∀ r, r ∈ p → ∀ lk, evalRuleM true lk r = evalRuleLk lk r

/-- `order` lists heads such that each one scans, among the heads, only earlier ones (so no
    head scans itself and no head occurs twice). `seen`: heads already executed. -/
def depOrdered (p : Program) : List String → List String → Bool
  | [], _ => true
  | h :: rest, seen =>
    (scansOf p h).all (fun r => !(heads p).contains r || seen.contains r) &&
    !seen.contains h && depOrdered p rest (h :: seen)

def execOrder (p : Program) : List String := (topoOrder p).map (fun i => (heads p).getD i "")

theorem depOrdered_not_seen (p : Program) : ∀ (order seen : List String), depOrdered p order seen = true →
    ∀ g, g ∈ order → g ∉ seen
  | [], _, _, g, hg => by cases hg
  | h :: rest, seen, hd, g, hg => by
    simp only [depOrdered, Bool.and_eq_true, Bool.not_eq_true'] at hd
    obtain ⟨⟨_, hns⟩, hrest⟩ := hd
    rcases List.mem_cons.1 hg with rfl | hg
    · intro hc; rw [List.contains_iff_mem.2 hc] at hns; cases hns
    · intro hc
      exact depOrdered_not_seen p rest (h :: seen) hrest g hg (List.mem_cons_of_mem _ hc)

theorem depOrdered_head_not_in_rest (p : Program) (h : String) (rest seen : List String)
    (hd : depOrdered p (h :: rest) seen = true) : h ∉ rest := by
  simp only [depOrdered, Bool.and_eq_true] at hd
  intro hc
  exact depOrdered_not_seen p rest (h :: seen) hd.2 h hc (List.mem_cons_self ..)

theorem lookup_cons_ne {β} (r h : String) (ts : β) (acc : List (String × β)) (hne : r ≠ h) :
    List.lookup r ((h, ts) :: acc) = List.lookup r acc := by
  have : (r == h) = false := by simpa using hne
  simp [List.lookup, this]

theorem lookup_cons_self {β} (h : String) (ts : β) (acc : List (String × β)) :
    List.lookup h ((h, ts) :: acc) = some ts := by
  simp [List.lookup]

theorem evalRulesWith_congr (ev1 ev2 : Rule → Option (List Tuple)) : ∀ (rs : List Rule),
    (∀ r, r ∈ rs → ev1 r = ev2 r) → evalRulesWith ev1 rs = evalRulesWith ev2 rs
  | [], _ => rfl
  | r :: rs, h => by
    unfold evalRulesWith
    rw [h r (List.mem_cons_self ..), evalRulesWith_congr ev1 ev2 rs (fun x hx => h x (List.mem_cons_of_mem _ hx))]

theorem evalRulesM_eq {p : Program} (hcf : ClauseFaithful p) (lk : String → List Tuple) (h : String) :
    evalRulesM true lk (clausesOf p h) = evalRules lk (clausesOf p h) := by
  unfold evalRulesM evalRules
  apply evalRulesWith_congr
  intro r hr
  exact hcf r (List.mem_filter.1 hr).1 lk

theorem lkOf_congr (edb acc acc' : DB) (r : String) (h : acc'.lookup r = acc.lookup r) :
    lkOf edb acc' r = lkOf edb acc r := by
  unfold lkOf; rw [h]

/-- scanned relations of an executed head: not the head itself, not a later head. -/
theorem scans_not_later (p : Program) (h : String) (rest seen : List String)
    (hd : depOrdered p (h :: rest) seen = true) (hheads : ∀ g, g ∈ h :: rest → g ∈ heads p)
    (r : String) (hr : r ∈ scansOf p h) : r ∉ h :: rest := by
  have hd' := hd
  simp only [depOrdered, Bool.and_eq_true, Bool.not_eq_true', List.all_eq_true, Bool.or_eq_true] at hd
  obtain ⟨⟨hsc, hns⟩, hrest⟩ := hd
  intro hmem
  have hrh : r ∈ heads p := hheads r hmem
  rcases hsc r hr with hnh | hseen
  · rw [List.contains_iff_mem.2 hrh] at hnh; cases hnh
  · have hrs : r ∈ seen := List.contains_iff_mem.1 hseen
    exact depOrdered_not_seen p (h :: rest) seen hd' r hmem hrs

theorem selfRec_false_of_depOrdered (p : Program) (h : String) (rest seen : List String)
    (hd : depOrdered p (h :: rest) seen = true) (hheads : ∀ g, g ∈ h :: rest → g ∈ heads p) :
    selfRec p h = false := by
  unfold selfRec
  cases hc : (scansOf p h).contains h
  · rfl
  · exact absurd (List.mem_cons_self ..) (scans_not_later p h rest seen hd hheads h (List.contains_iff_mem.1 hc))

theorem evalHead_allOff (hash : Tuple → Nat) (fuel : Nat) (p : Program) (lk : String → List Tuple) (h : String)
    (hs : selfRec p h = false) : evalHead allOff hash fuel p lk h = evalRulesM true lk (clausesOf p h) := by
  unfold evalHead
  simp [hs, allOff]

theorem limited_allOff (p : Program) (h : String) : limited allOff p h = false := by
  simp [limited, allOff]

/-- **The executed heads form a supported model.** After the loop, every executed head's stored
    result is (as a set) what its clauses derive from the final accumulated database; entries of
    other relations are untouched; the answer is the last executed head's result. -/
theorem execLoop_spec (hash : Tuple → Nat) (ord : String → List Tuple → List Tuple) (fuel : Nat)
    (p : Program) (edb : DB) (hcf : ClauseFaithful p) (hagg : ∀ r, r ∈ p → r.hasAgg = false) :
    ∀ (order seen : List String) (acc : DB) (last A : List Tuple) (acc' : DB),
      depOrdered p order seen = true → (∀ g, g ∈ order → g ∈ heads p) →
      execLoop allOff hash ord fuel p edb order acc last = .ok A acc' →
      (∀ r, r ∉ order → acc'.lookup r = acc.lookup r) ∧
      (∀ g, g ∈ order → ∃ ts, acc'.lookup g = some ts ∧
          OptMemEq (evalRules (lkOf edb acc') (clausesOf p g)) (some ts)) ∧
      (∀ g, order.getLast? = some g → acc'.lookup g = some A)
  | [], seen, acc, last, A, acc', _, _, hrun => by
    simp only [execLoop, Outcome.ok.injEq] at hrun
    obtain ⟨rfl, rfl⟩ := hrun
    exact ⟨fun _ _ => rfl, fun g hg => absurd hg List.not_mem_nil, fun g hg => by cases hg⟩
  | h :: rest, seen, acc, last, A, acc', hd, hheads, hrun => by
    have hself := selfRec_false_of_depOrdered p h rest seen hd hheads
    have hd' := hd
    simp only [depOrdered, Bool.and_eq_true] at hd'
    obtain ⟨_, hdrest⟩ := hd'
    unfold execLoop at hrun
    rw [evalHead_allOff hash fuel p _ h hself, evalRulesM_eq hcf] at hrun
    cases hev : evalRules (lkOf edb acc) (clausesOf p h) with
    | none => rw [hev] at hrun; simp at hrun
    | some ts =>
      rw [hev] at hrun
      simp only [limited_allOff, Bool.and_false, Bool.false_eq_true, if_false] at hrun
      obtain ⟨hframe, hfix, hlast⟩ := execLoop_spec hash ord fuel p edb hcf hagg rest (h :: seen) ((h, ts) :: acc) ts A acc'
        hdrest (fun g hg => hheads g (List.mem_cons_of_mem _ hg)) hrun
      have hnotrest : h ∉ rest := depOrdered_head_not_in_rest p h rest seen hd
      have hlookh : acc'.lookup h = some ts := by
        rw [hframe h hnotrest]; exact lookup_cons_self h ts acc
      refine ⟨?_, ?_, ?_⟩
      · intro r hr
        have hrne : r ≠ h := fun e => hr (e ▸ List.mem_cons_self ..)
        have hrr : r ∉ rest := fun e => hr (List.mem_cons_of_mem _ e)
        rw [hframe r hrr]
        exact lookup_cons_ne r h ts acc hrne
      · intro g hg
        rcases List.mem_cons.1 hg with rfl | hg
        · refine ⟨ts, hlookh, ?_⟩
          have hagree : AgreeOn (scansOf p g) (lkOf edb acc') (lkOf edb acc) := by
            intro r hr
            have hnl := scans_not_later p g rest seen hd hheads r hr
            have hrne : r ≠ g := fun e => hnl (e ▸ List.mem_cons_self ..)
            have hrr : r ∉ rest := fun e => hnl (List.mem_cons_of_mem _ e)
            have : acc'.lookup r = acc.lookup r := by
              rw [hframe r hrr]; exact lookup_cons_ne r g ts acc hrne
            rw [lkOf_congr edb acc acc' r this]
            exact MemEq.refl _
          have := evalRules_memEq (p := p) (h := g) hagg hagree
          rw [hev] at this
          exact this
        · exact hfix g hg
      · intro g hg
        cases rest with
        | nil =>
          simp only [List.getLast?_singleton, Option.some.injEq] at hg
          subst hg
          simp only [execLoop, Outcome.ok.injEq] at hrun
          obtain ⟨rfl, rfl⟩ := hrun
          exact lookup_cons_self _ _ _
        | cons g' rest' =>
          apply hlast g
          simpa [List.getLast?_cons_cons] using hg

/-! ### supported models of dependency-ordered programs are unique -/

/-- `F` is a supported model on `hs`: each head's content is what its clauses derive from `F`. -/
def Supported (p : Program) (F : String → List Tuple) (hs : List String) : Prop :=
  ∀ g, g ∈ hs → ∃ ts, evalRules F (clausesOf p g) = some ts ∧ MemEq (F g) ts

theorem supported_unique (p : Program) (hagg : ∀ r, r ∈ p → r.hasAgg = false)
    (F1 F2 : String → List Tuple) (hnon : ∀ r, r ∉ heads p → F1 r = F2 r) :
    ∀ (order seen : List String), depOrdered p order seen = true →
      Supported p F1 order → Supported p F2 order →
      (∀ r, r ∈ seen → MemEq (F1 r) (F2 r)) →
      ∀ g, g ∈ order → MemEq (F1 g) (F2 g)
  | [], _, _, _, _, _, g, hg => by cases hg
  | h :: rest, seen, hd, hs1, hs2, hseen, g, hg => by
    have hd' := hd
    simp only [depOrdered, Bool.and_eq_true, List.all_eq_true, Bool.or_eq_true, Bool.not_eq_true'] at hd'
    obtain ⟨⟨hsc, _⟩, hdrest⟩ := hd'
    have hh : MemEq (F1 h) (F2 h) := by
      obtain ⟨t1, he1, hm1⟩ := hs1 h (List.mem_cons_self ..)
      obtain ⟨t2, he2, hm2⟩ := hs2 h (List.mem_cons_self ..)
      have hagree : AgreeOn (scansOf p h) F1 F2 := by
        intro r hr
        rcases hsc r hr with hnh | hs
        · have : r ∉ heads p := by
            intro hc; rw [List.contains_iff_mem.2 hc] at hnh; cases hnh
          rw [hnon r this]; exact MemEq.refl _
        · exact hseen r (List.contains_iff_mem.1 hs)
      have := evalRules_memEq (p := p) (h := h) hagg hagree
      rw [he1, he2] at this
      exact (hm1.trans this).trans hm2.symm
    rcases List.mem_cons.1 hg with rfl | hg
    · exact hh
    · apply supported_unique p hagg F1 F2 hnon rest (h :: seen) hdrest
        (fun x hx => hs1 x (List.mem_cons_of_mem _ hx)) (fun x hx => hs2 x (List.mem_cons_of_mem _ hx)) _ g hg
      intro r hr
      rcases List.mem_cons.1 hr with rfl | hr
      · exact hh
      · exact hseen r hr

/-! ### what `pmEval` returns -/

theorem overlay_get_nonhead (hs : List String) (db edb : DB) (r : String) (hr : r ∉ hs) :
    (overlay hs db edb).get r = edb.get r := by
  unfold overlay DB.get
  induction hs with
  | nil => rfl
  | cons h hs ih =>
    have hne : r ≠ h := fun e => hr (e ▸ List.mem_cons_self ..)
    have hr' : r ∉ hs := fun e => hr (List.mem_cons_of_mem _ e)
    simp only [List.map_cons, List.cons_append, List.lookup]
    have : (r == h) = false := by simpa using hne
    rw [this]
    exact ih hr'

theorem pmEval_cases {fuel : Nat} {p : Program} {edb m : DB} (h : pmEval fuel p edb = some m) :
    ∃ db, m = overlay (heads p) db edb ∧ isFix p edb m = true := by
  unfold pmEval at h
  split at h
  · cases h
  · dsimp only at h
    split at h
    · rename_i db _
      split at h
      · rename_i hfix
        cases h
        exact ⟨db, rfl, hfix⟩
      · cases h
    · cases h

theorem pmEval_isFix {fuel : Nat} {p : Program} {edb m : DB} (h : pmEval fuel p edb = some m) :
    isFix p edb m = true := by
  obtain ⟨_, _, hfix⟩ := pmEval_cases h
  exact hfix

theorem pmEval_nonhead {fuel : Nat} {p : Program} {edb m : DB} (h : pmEval fuel p edb = some m)
    (r : String) (hr : r ∉ heads p) : m.get r = edb.get r := by
  obtain ⟨db, rfl, _⟩ := pmEval_cases h
  exact overlay_get_nonhead _ _ _ r hr

/-- for heads without stored facts, `isFix` says the model is supported. -/
theorem supported_of_isFix {p : Program} {edb m : DB} (hfix : isFix p edb m = true)
    (hno : ∀ h, h ∈ heads p → edb.get h = []) (hs : List String) (hsub : ∀ g, g ∈ hs → g ∈ heads p) :
    Supported p m.get hs := by
  intro g hg
  unfold isFix at hfix
  rw [List.all_eq_true] at hfix
  have := hfix g (hsub g hg)
  cases hev : evalRules m.get (clausesOf p g) with
  | none => rw [hev] at this; cases this
  | some ts =>
    rw [hev] at this
    refine ⟨ts, rfl, ?_⟩
    have hm := sameSet_iff.1 this
    intro t
    rw [hm t, mem_unionT, hno g (hsub g hg)]
    simp [dedupT]

theorem lkOf_of_lookup (edb acc : DB) (g : String) (ts : List Tuple) (h : acc.lookup g = some ts) :
    lkOf edb acc g = ts := by
  unfold lkOf; rw [h]


/-! ### the fragment of C01_partial / C04_partial -/

/-- Decidable description of the fragment, computed from the program with the model's own
    functions: the execution order the code chooses (`topoOrder`) lists every head after the heads
    it scans (hence no recursion), only heads are executed, heads have no stored facts, no
    aggregates, and the last executed head is the head of the last rule. -/
def inFragment (p : Program) (edb : DB) : Bool :=
  depOrdered p (execOrder p) [] &&
  (execOrder p).all (heads p).contains &&
  (heads p).all (fun h => (edb.get h).isEmpty) &&
  p.all (fun r => !r.hasAgg) &&
  ((execOrder p).getLast? == some (queryRel p))

theorem inFragment_parts {p : Program} {edb : DB} (hfrag : inFragment p edb = true) :
    depOrdered p (execOrder p) [] = true ∧ (∀ g, g ∈ execOrder p → g ∈ heads p) ∧
    (∀ h, h ∈ heads p → edb.get h = []) ∧ (∀ r, r ∈ p → r.hasAgg = false) ∧
    (execOrder p).getLast? = some (queryRel p) := by
  simp only [inFragment, Bool.and_eq_true, List.all_eq_true, beq_iff_eq, Bool.not_eq_true',
    List.isEmpty_iff] at hfrag
  obtain ⟨⟨⟨⟨hdep, hheads⟩, hno⟩, hagg⟩, hlastq⟩ := hfrag
  exact ⟨hdep, fun g hg => List.contains_iff_mem.1 (hheads g hg), hno, hagg, hlastq⟩

/-- a successful run in the fragment leaves a supported model; relations that are not heads are
    read from the stored facts; the answer is the query relation of that model. -/
theorem run_supported (p : Program) (edb : DB) (hash : Tuple → Nat) (ord : String → List Tuple → List Tuple)
    (fuel : Nat) (A : List Tuple) (acc : DB)
    (hfrag : inFragment p edb = true) (hcf : ClauseFaithful p)
    (hrun : Engine.run allOff hash ord fuel p edb = .ok A acc) :
    Supported p (lkOf edb acc) (execOrder p) ∧
    (∀ r, r ∉ heads p → lkOf edb acc r = edb.get r) ∧
    lkOf edb acc (queryRel p) = A := by
  obtain ⟨hdep, hheads', hno, hagg', hlastq⟩ := inFragment_parts hfrag
  have hloop : execLoop allOff hash ord fuel p edb (execOrder p) [] [] = .ok A acc := by
    unfold Engine.run at hrun
    split at hrun
    · cases hrun
    · split at hrun
      · cases hrun
      · split at hrun
        · cases hrun
        · exact hrun
  obtain ⟨hframe, hfix, hlast⟩ := execLoop_spec hash ord fuel p edb hcf hagg' (execOrder p) [] [] [] A acc hdep hheads' hloop
  refine ⟨?_, ?_, ?_⟩
  · intro g hg
    obtain ⟨ts, hl, hev⟩ := hfix g hg
    cases he : evalRules (lkOf edb acc) (clausesOf p g) with
    | none => rw [he] at hev; cases hev
    | some ts' =>
      rw [he] at hev
      refine ⟨ts', rfl, ?_⟩
      rw [lkOf_of_lookup edb acc g ts hl]
      exact MemEq.symm hev
  · intro r hr
    have hro : r ∉ execOrder p := fun hc => hr (hheads' r hc)
    have : acc.lookup r = none := by rw [hframe r hro]; rfl
    unfold lkOf; rw [this]
  · exact lkOf_of_lookup edb acc _ A (hlast _ hlastq)

/-! ### programs with the same set of rules (C04) -/

def sameRules (p p' : Program) : Prop := ∀ r, r ∈ p ↔ r ∈ p'

def sameRulesB (p p' : Program) : Bool := p.all p'.contains && p'.all p.contains

theorem sameRules_of_B {p p' : Program} (h : sameRulesB p p' = true) : sameRules p p' := by
  simp only [sameRulesB, Bool.and_eq_true, List.all_eq_true, List.contains_iff_mem] at h
  exact fun r => ⟨h.1 r, h.2 r⟩

theorem mem_firstOcc {x : String} : ∀ {l seen : List String}, x ∈ firstOcc l seen ↔ x ∈ l ∧ x ∉ seen
  | [], seen => by simp [firstOcc]
  | y :: ys, seen => by
    unfold firstOcc
    split
    · rename_i hc
      have hy : y ∈ seen := List.contains_iff_mem.1 hc
      rw [mem_firstOcc (l := ys)]
      constructor
      · rintro ⟨h1, h2⟩; exact ⟨List.mem_cons_of_mem _ h1, h2⟩
      · rintro ⟨h1, h2⟩
        rcases List.mem_cons.1 h1 with rfl | h1
        · exact absurd hy h2
        · exact ⟨h1, h2⟩
    · rename_i hc
      have hy : y ∉ seen := fun h => hc (List.contains_iff_mem.2 h)
      simp only [List.mem_cons, mem_firstOcc (l := ys)]
      constructor
      · rintro (rfl | ⟨h1, h2⟩)
        · exact ⟨Or.inl rfl, hy⟩
        · exact ⟨Or.inr h1, fun h => h2 (Or.inr h)⟩
      · rintro ⟨rfl | h1, h2⟩
        · exact Or.inl rfl
        · by_cases hxy : x = y
          · exact Or.inl hxy
          · exact Or.inr ⟨h1, fun h => by rcases h with h | h; exact hxy h; exact h2 h⟩

theorem mem_heads {p : Program} {g : String} : g ∈ heads p ↔ ∃ r, r ∈ p ∧ r.hrel = g := by
  unfold heads
  rw [mem_firstOcc]
  simp [List.mem_map]

theorem sameRules_heads {p p' : Program} (h : sameRules p p') (g : String) : g ∈ heads p ↔ g ∈ heads p' := by
  rw [mem_heads, mem_heads]
  constructor <;> rintro ⟨r, hr, he⟩
  · exact ⟨r, (h r).1 hr, he⟩
  · exact ⟨r, (h r).2 hr, he⟩

theorem sameRules_clausesOf {p p' : Program} (h : sameRules p p') (g : String) (r : Rule) :
    r ∈ clausesOf p g ↔ r ∈ clausesOf p' g := by
  unfold clausesOf
  simp only [List.mem_filter, h r]

theorem sameRules_evalRules {p p' : Program} (h : sameRules p p') (F : String → List Tuple) (g : String) :
    OptMemEq (evalRules F (clausesOf p g)) (evalRules F (clausesOf p' g)) := by
  unfold evalRules
  exact evalRulesWith_sameRules _ (sameRules_clausesOf h g)

/-- a supported model of `p'` is a supported model of any program with the same rules. -/
theorem supported_sameRules {p p' : Program} (h : sameRules p p') (F : String → List Tuple) (hs hs' : List String)
    (hsub : ∀ g, g ∈ hs → g ∈ hs') (hS : Supported p' F hs') : Supported p F hs := by
  intro g hg
  obtain ⟨ts, he, hm⟩ := hS g (hsub g hg)
  have := sameRules_evalRules h F g
  rw [he] at this
  cases he2 : evalRules F (clausesOf p g) with
  | none => rw [he2] at this; cases this
  | some ts2 =>
    rw [he2] at this
    exact ⟨ts2, rfl, hm.trans (MemEq.symm this)⟩

theorem clauseFaithful_sameRules {p p' : Program} (h : sameRules p p') (hcf : ClauseFaithful p) : ClauseFaithful p' :=
  fun r hr lk => hcf r ((h r).2 hr) lk

/-! ### simple rules are evaluated faithfully -/

/-- no aggregate, no comparison literal. -/
def simpleRule (r : Rule) : Bool :=
  !r.hasAgg && r.body.all (fun
    | .pos _ => true
    | .neg _ => true
    | .cmp .. => false)


theorem map_eq_self {α} (f : α → α) : ∀ (l : List α), (∀ x, x ∈ l → f x = x) → l.map f = l
  | [], _ => rfl
  | x :: xs, h => by
    simp only [List.map_cons]
    rw [h x (List.mem_cons_self ..), map_eq_self f xs (fun y hy => h y (List.mem_cons_of_mem _ hy))]

theorem cmps_nil_of_simple (r : Rule) (h : simpleRule r = true) : r.cmps = [] := by
  unfold simpleRule at h
  unfold Rule.cmps
  rw [Bool.and_eq_true, List.all_eq_true] at h
  replace h := h.2
  rw [List.filterMap_eq_nil_iff]
  intro l hl
  have := h l hl
  cases l with
  | pos a => rfl
  | neg a => rfl
  | cmp o x y => cases this

theorem filter_noFilter (l : List Tuple) : l.filter noFilter = l := by
  induction l with
  | nil => rfl
  | cons x xs ih => simp [List.filter, noFilter, ih]

theorem filter_const_true {α} (l : List α) : l.filter (fun _ => true) = l := by
  induction l with
  | nil => rfl
  | cons x xs ih => simp [List.filter, ih]

theorem evalPosF_trivial (lk : String → List Tuple) : ∀ (l : List Atom) (envs : List Env),
    evalPosF lk (l.map (fun a => (a, noFilter))) envs = evalPos lk l envs
  | [], _ => rfl
  | a :: l, envs => by
    simp only [List.map_cons, evalPosF, evalPos, filter_noFilter]
    exact evalPosF_trivial lk l _

theorem optMapM_some_id {α} : ∀ (l : List α), optMapM (fun a => some a) l = some l
  | [] => rfl
  | a :: l => by simp [optMapM, optMapM_some_id l]

theorem pushPlan_nil (r : Rule) : pushPlan r [] = none := by
  unfold pushPlan
  split
  · rfl
  · simp

theorem applyCols_nil : applyCols [] = fun env => some env := by
  funext env; rfl

theorem map_id_env (l : List Env) : l.map (iter (bindRound []) 0) = l :=
  map_eq_self _ l (fun _ _ => rfl)

/-- for simple rules the engine's clause evaluation is the Spec's. -/
theorem evalRuleM_eq_of_simple (r : Rule) (h : simpleRule r = true) (lk : String → List Tuple) :
    evalRuleM true lk r = evalRuleLk lk r := by
  have hc := cmps_nil_of_simple r h
  have hna : r.hasAgg = false := by
    unfold simpleRule at h
    rw [Bool.and_eq_true] at h
    simpa using h.1
  unfold evalRuleM bodyEnvsM evalRuleLk bodyEnvs headOf headOfSpec
  simp only [hc, buildCmps, pass1, List.map_nil, List.nil_append, List.filter_nil, List.all_nil, List.any_nil,
    Bool.false_eq_true, if_false, List.isEmpty_nil, Bool.and_true, if_true, applyCols_nil, optMapM_some_id, Option.isSome_none, filter_const_true,
    specCmps, List.length_nil, map_id_env, hna]


end ILV.Engine
