/-
  Monotonicity of clause evaluation (aggregate-free rules): more tuples in the positively scanned
  relations, the same tuples in the negated ones ⇒ more derived tuples (when both evaluations
  succeed). Used for the least-fix-point arguments of C01 (self-recursive heads, `pmEval`).
-/
import ILV.Lemmas.Datalog
namespace ILV.DL

/-- list inclusion as sets. -/
def Sub {α} (a b : List α) : Prop := ∀ t, t ∈ a → t ∈ b

theorem Sub.refl {α} (a : List α) : Sub a a := fun _ h => h
theorem Sub.trans {α} {a b c : List α} (h : Sub a b) (g : Sub b c) : Sub a c := fun t ht => g t (h t ht)
theorem MemEq.sub {α} {a b : List α} (h : MemEq a b) : Sub a b := fun t ht => (h t).1 ht
theorem MemEq.sub' {α} {a b : List α} (h : MemEq a b) : Sub b a := fun t ht => (h t).2 ht
theorem memEq_of_sub {α} {a b : List α} (h1 : Sub a b) (h2 : Sub b a) : MemEq a b := fun t => ⟨h1 t, h2 t⟩

theorem evalPos_sub (lk1 lk2 : String → List Tuple) : ∀ (atoms : List Atom),
    (∀ a, a ∈ atoms → Sub (lk1 a.rel) (lk2 a.rel)) →
    ∀ envs1 envs2, Sub envs1 envs2 → Sub (evalPos lk1 atoms envs1) (evalPos lk2 atoms envs2)
  | [], _, _, _, h => by simpa [evalPos] using h
  | a :: as, hA, envs1, envs2, h => by
    unfold evalPos
    apply evalPos_sub lk1 lk2 as (fun b hb => hA b (List.mem_cons_of_mem _ hb))
    intro e he
    obtain ⟨env, henv, hf⟩ := List.mem_flatMap.1 he
    obtain ⟨t, ht, hm⟩ := List.mem_filterMap.1 hf
    exact List.mem_flatMap.2 ⟨env, h env henv, List.mem_filterMap.2 ⟨t, hA a (List.mem_cons_self ..) t ht, hm⟩⟩

theorem specCmps_sub (cs : List Cmp) {envs1 envs2 : List Env} (h : Sub envs1 envs2) :
    Sub (specCmps cs envs1) (specCmps cs envs2) := by
  intro x hx
  unfold specCmps at hx ⊢
  simp only [List.mem_filter, List.mem_map] at hx ⊢
  obtain ⟨⟨⟨e, he, rfl⟩, h1⟩, h2⟩ := hx
  exact ⟨⟨⟨e, h e he, rfl⟩, h1⟩, h2⟩

theorem evalNegs_sub (lk1 lk2 : String → List Tuple) (negs : List Atom)
    (hN : ∀ a, a ∈ negs → MemEq (lk1 a.rel) (lk2 a.rel)) {envs1 envs2 : List Env} (h : Sub envs1 envs2) :
    Sub (evalNegs lk1 negs envs1) (evalNegs lk2 negs envs2) := by
  intro x hx
  unfold evalNegs at hx ⊢
  obtain ⟨hx1, hp⟩ := List.mem_filter.1 hx
  refine List.mem_filter.2 ⟨h x hx1, ?_⟩
  rw [List.all_eq_true] at hp ⊢
  intro a ha
  rw [← negHolds_congr lk1 lk2 a x (hN a ha)]
  exact hp a ha

/-- lookups ordered on the positive atoms of a rule and set-equal on its negated atoms. -/
def LeOn (r : Rule) (lk1 lk2 : String → List Tuple) : Prop :=
  (∀ a, a ∈ r.posAtoms → Sub (lk1 a.rel) (lk2 a.rel)) ∧ (∀ a, a ∈ r.negAtoms → MemEq (lk1 a.rel) (lk2 a.rel))

theorem bodyEnvs_sub {lk1 lk2 : String → List Tuple} (r : Rule) (h : LeOn r lk1 lk2) :
    Sub (bodyEnvs lk1 r) (bodyEnvs lk2 r) := by
  unfold bodyEnvs
  apply evalNegs_sub lk1 lk2 _ h.2
  apply specCmps_sub
  exact evalPos_sub lk1 lk2 _ h.1 _ _ (Sub.refl _)

theorem evalRuleLk_sub {lk1 lk2 : String → List Tuple} (r : Rule) (hagg : r.hasAgg = false) (h : LeOn r lk1 lk2)
    (t1 t2 : List Tuple) (h1 : evalRuleLk lk1 r = some t1) (h2 : evalRuleLk lk2 r = some t2) : Sub t1 t2 := by
  unfold evalRuleLk headOfSpec at h1 h2
  simp only [hagg, Bool.false_eq_true, if_false] at h1 h2
  unfold headRows at h1 h2
  intro t ht
  obtain ⟨env, henv, hf⟩ := (optMapM_some_mem _ _ _ h1 t).1 ht
  exact (optMapM_some_mem _ _ _ h2 t).2 ⟨env, bodyEnvs_sub r h env henv, hf⟩

theorem evalRules_sub {lk1 lk2 : String → List Tuple} (cs : List Rule) (hagg : ∀ r, r ∈ cs → r.hasAgg = false)
    (h : ∀ r, r ∈ cs → LeOn r lk1 lk2) (t1 t2 : List Tuple)
    (h1 : evalRules lk1 cs = some t1) (h2 : evalRules lk2 cs = some t2) : Sub t1 t2 := by
  unfold evalRules at h1 h2
  intro t ht
  obtain ⟨r, a, hr, ha, hta⟩ := (evalRulesWith_some_mem _ _ _ h1 t).1 ht
  cases hb : evalRuleLk lk2 r with
  | none =>
    have := (evalRulesWith_none_iff _ _).2 ⟨r, hr, hb⟩
    rw [h2] at this; cases this
  | some b =>
    exact (evalRulesWith_some_mem _ _ _ h2 t).2 ⟨r, b, hr, hb, evalRuleLk_sub r (hagg r hr) (h r hr) a b ha hb t hta⟩

end ILV.DL
