/-
  Helper lemmas for C09: the comma splitter `splitTop` recovers the printed arguments / body literals,
  `splitArrow` recovers head and body, `dropTrailingRp` removes exactly the atom's own parenthesis,
  the comparison finder `findCmp` finds the printed comparison operator.
-/
import ILV.Lemmas.RuleText
namespace ILV.RText

/-! ### generic scanning facts about `splitTopAux` -/

/-- depth after scanning `ts` -/
def scanDepth (stepf : Depth → Tok → Depth) : List Tok → Depth → Depth
  | [], d => d
  | t :: ts, d => scanDepth stepf ts (stepf d t)

/-- no separator token of `ts` is met at depth zero -/
def noSplit (sep : Tok → Bool) (stepf : Depth → Tok → Depth) : List Tok → Depth → Bool
  | [], _ => true
  | t :: ts, d => !(sep t && d.isZero) && noSplit sep stepf ts (stepf d t)

def isComma (t : Tok) : Bool := t == .comma

def consSeg (ts : List Tok) : List (List Tok) → List (List Tok)
  | seg :: segs => (ts ++ seg) :: segs
  | [] => [ts]

theorem splitTopAux_ne_nil (stepf : Depth → Tok → Depth) : ∀ ts d, splitTopAux stepf ts d ≠ []
  | [], _ => by simp [splitTopAux]
  | t :: ts, d => by
    unfold splitTopAux
    split
    · simp
    · split <;> simp

theorem consSeg_nil {segs : List (List Tok)} (h : segs ≠ []) : consSeg [] segs = segs := by
  cases segs with
  | nil => exact absurd rfl h
  | cons s ss => simp [consSeg]

theorem consSeg_cons (t : Tok) (ts : List Tok) {segs : List (List Tok)} (h : segs ≠ []) :
    consSeg (t :: ts) segs = (match consSeg ts segs with | seg :: rest => (t :: seg) :: rest | [] => [[t]]) := by
  cases segs with
  | nil => exact absurd rfl h
  | cons s ss => simp [consSeg]

theorem scanDepth_append (stepf : Depth → Tok → Depth) : ∀ (a b : List Tok) (d : Depth),
    scanDepth stepf (a ++ b) d = scanDepth stepf b (scanDepth stepf a d)
  | [], _, _ => rfl
  | t :: a, b, d => by simp [scanDepth, scanDepth_append stepf a b]

theorem noSplit_append (sep : Tok → Bool) (stepf : Depth → Tok → Depth) : ∀ (a b : List Tok) (d : Depth),
    noSplit sep stepf (a ++ b) d = (noSplit sep stepf a d && noSplit sep stepf b (scanDepth stepf a d))
  | [], _, _ => by simp [noSplit, scanDepth]
  | t :: a, b, d => by simp [noSplit, scanDepth, noSplit_append sep stepf a b, Bool.and_assoc]

/-- scanning a comma-free-at-top prefix only prepends it to the first segment of the rest. -/
theorem splitTopAux_pass (stepf : Depth → Tok → Depth) : ∀ (ts rest : List Tok) (d : Depth),
    noSplit isComma stepf ts d = true →
    splitTopAux stepf (ts ++ rest) d = consSeg ts (splitTopAux stepf rest (scanDepth stepf ts d))
  | [], rest, d, _ => by
    simp only [List.nil_append, scanDepth]
    exact (consSeg_nil (splitTopAux_ne_nil stepf rest d)).symm
  | t :: ts, rest, d, h => by
    simp only [noSplit, isComma, Bool.and_eq_true, Bool.not_eq_true'] at h
    have ih := splitTopAux_pass stepf ts rest (stepf d t) h.2
    simp only [List.cons_append, scanDepth]
    rw [consSeg_cons t ts (splitTopAux_ne_nil stepf _ _), ← ih]
    conv => lhs; unfold splitTopAux
    simp only [h.1, Bool.false_eq_true, if_false]
    rfl

/-- `d` is returned to and no split happens: the token list is one closed unit at depth `d`. -/
def UnitAt (sep : Tok → Bool) (stepf : Depth → Tok → Depth) (ts : List Tok) (d : Depth) : Prop :=
  noSplit sep stepf ts d = true ∧ scanDepth stepf ts d = d

theorem UnitAt.append {sep : Tok → Bool} {stepf : Depth → Tok → Depth} {a b : List Tok} {d : Depth}
    (ha : UnitAt sep stepf a d) (hb : UnitAt sep stepf b d) : UnitAt sep stepf (a ++ b) d := by
  constructor
  · rw [noSplit_append, ha.1, ha.2, hb.1]; rfl
  · rw [scanDepth_append, ha.2, hb.2]

theorem UnitAt.nil {sep : Tok → Bool} {stepf : Depth → Tok → Depth} {d : Depth} : UnitAt sep stepf [] d := ⟨rfl, rfl⟩

/-- a token that no splitter looks at -/
def Tok.inertTok : Tok → Bool
  | .ident _ | .int _ | .flt _ | .fint _ _ | .str _ | .op _ | .cmp _ | .bang | .arrow => true
  | _ => false

theorem stepArgs_inert {t : Tok} (h : t.inertTok = true) (d : Depth) : d.stepArgs t = d := by
  cases t <;> simp_all [Depth.stepArgs, Tok.inertTok]

theorem stepBody_inert {t : Tok} (h : t.inertTok = true) (d : Depth) : d.stepBody t = d := by
  cases t <;> simp_all [Depth.stepBody, Tok.inertTok]

theorem UnitAt.single {sep : Tok → Bool} {stepf : Depth → Tok → Depth} {t : Tok} {d : Depth}
    (hc : (sep t && d.isZero) = false) (hs : stepf d t = d) : UnitAt sep stepf [t] d := by
  constructor
  · simp [noSplit, hc]
  · simp [scanDepth, hs]

/-- commas between units at a non-zero depth do not split -/
theorem UnitAt.intercalate {sep : Tok → Bool} {stepf : Depth → Tok → Depth} {d : Depth}
    (hz : (sep .comma && d.isZero) = false) (hcomma : stepf d .comma = d) :
    ∀ (segs : List (List Tok)), (∀ s, s ∈ segs → UnitAt sep stepf s d) → UnitAt sep stepf (intercalateTok .comma segs) d
  | [], _ => UnitAt.nil
  | [x], h => by simpa [intercalateTok] using h x (List.mem_cons_self ..)
  | x :: y :: rest, h => by
    have hx := h x (List.mem_cons_self ..)
    have ih := UnitAt.intercalate hz hcomma (y :: rest) (fun s hs => h s (List.mem_cons_of_mem _ hs))
    have hc : UnitAt sep stepf [Tok.comma] d := UnitAt.single hz hcomma
    have : intercalateTok .comma (x :: y :: rest) = x ++ ([Tok.comma] ++ intercalateTok .comma (y :: rest)) := by
      simp [intercalateTok]
    rw [this]
    exact UnitAt.append hx (UnitAt.append hc ih)

/-- the top-level split of comma-separated units gives the units back. -/
theorem splitTopAux_intercalate (stepf : Depth → Tok → Depth) :
    ∀ (segs : List (List Tok)), segs ≠ [] → (∀ s, s ∈ segs → UnitAt isComma stepf s {}) →
      splitTopAux stepf (intercalateTok .comma segs) {} = segs
  | [], h, _ => absurd rfl h
  | [x], _, h => by
    have hx := h x (List.mem_cons_self ..)
    have := splitTopAux_pass stepf x [] {} hx.1
    simp only [List.append_nil] at this
    simp [intercalateTok, this, splitTopAux, consSeg]
  | x :: y :: rest, _, h => by
    have hx := h x (List.mem_cons_self ..)
    have ih := splitTopAux_intercalate stepf (y :: rest) (by simp) (fun s hs => h s (List.mem_cons_of_mem _ hs))
    have hi : intercalateTok .comma (x :: y :: rest) = x ++ (Tok.comma :: intercalateTok .comma (y :: rest)) := by
      simp [intercalateTok]
    rw [hi, splitTopAux_pass stepf x _ {} hx.1, hx.2]
    have hz : (({} : Depth).isZero) = true := rfl
    conv => lhs; arg 2; unfold splitTopAux
    simp [hz, ih, consSeg]

theorem splitTop_intercalate (stepf : Depth → Tok → Depth) (segs : List (List Tok)) (hne : segs ≠ [])
    (hu : ∀ s, s ∈ segs → UnitAt isComma stepf s {}) (hlast : ∀ s, segs.getLast? = some s → s ≠ []) :
    splitTop stepf (intercalateTok .comma segs) = segs := by
  unfold splitTop
  simp only [splitTopAux_intercalate stepf segs hne hu]
  cases hl : segs.getLast? with
  | none => rfl
  | some s =>
    cases s with
    | nil => exact absurd rfl (hlast [] hl)
    | cons a as => rfl

/-! ### depth bookkeeping for the three bracket kinds -/

theorem depth_p_roundtrip (d : Depth) : ({ ({ d with p := d.p + 1 } : Depth) with p := d.p + 1 - 1 } : Depth) = d := by
  cases d; simp

theorem depth_a_roundtrip (d : Depth) : ({ ({ d with a := d.a + 1 } : Depth) with a := d.a + 1 - 1 } : Depth) = d := by
  cases d; simp

theorem depth_b_roundtrip (d : Depth) : ({ ({ d with b := d.b + 1 } : Depth) with b := d.b + 1 - 1 } : Depth) = d := by
  cases d; simp

theorem isZero_p_succ (d : Depth) : ({ d with p := d.p + 1 } : Depth).isZero = false := by
  simp [Depth.isZero]

theorem isZero_b_succ (d : Depth) : ({ d with b := d.b + 1 } : Depth).isZero = false := by
  simp [Depth.isZero]

/-- `( … )` around something that is a unit one level deeper is a unit (any splitter that counts
    parentheses). -/
theorem UnitAt.parens {sep : Tok → Bool} {stepf : Depth → Tok → Depth} {inner : List Tok} {d : Depth}
    (hsl : sep .lp = false) (hsr : sep .rp = false)
    (hlp : stepf d .lp = { d with p := d.p + 1 })
    (hrp : stepf { d with p := d.p + 1 } .rp = { ({ d with p := d.p + 1 } : Depth) with p := d.p + 1 - 1 })
    (hin : UnitAt sep stepf inner { d with p := d.p + 1 }) :
    UnitAt sep stepf (Tok.lp :: (inner ++ [Tok.rp])) d := by
  constructor
  · simp only [noSplit, hlp, noSplit_append, hin.1, hin.2, hrp, hsl, hsr]
    simp
  · simp only [scanDepth, hlp, scanDepth_append, hin.2, hrp]
    exact depth_p_roundtrip d

/-! ### `splitArrow` -/

def noArrow (ts : List Tok) : Bool := ts.all (· != .arrow)

theorem splitArrow_noArrow : ∀ (ts : List Tok), noArrow ts = true → splitArrow ts = [ts]
  | [], _ => rfl
  | t :: ts, h => by
    simp only [noArrow, List.all_cons, Bool.and_eq_true, bne_iff_ne, ne_eq] at h
    have ih := splitArrow_noArrow ts (by simpa [noArrow] using h.2)
    unfold splitArrow
    simp [h.1, ih]

theorem splitArrow_one : ∀ (a b : List Tok), noArrow a = true → noArrow b = true →
    splitArrow (a ++ Tok.arrow :: b) = [a, b]
  | [], b, _, hb => by
    unfold splitArrow
    simp [splitArrow_noArrow b hb]
  | t :: a, b, ha, hb => by
    simp only [noArrow, List.all_cons, Bool.and_eq_true, bne_iff_ne, ne_eq] at ha
    have ih := splitArrow_one a b (by simpa [noArrow] using ha.2) hb
    simp only [List.cons_append]
    unfold splitArrow
    simp [ha.1, ih]

/-! ### `dropOneRp` -/

theorem dropOneRp_snoc (xs : List Tok) : dropOneRp (xs ++ [Tok.rp]) = xs := by
  simp [dropOneRp]

end ILV.RText
