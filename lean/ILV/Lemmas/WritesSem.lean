/-
  Semantics of the handler's write statements on the live relations (ILV.Model.Writes):
  duplicates never appear; a run of single-tuple deletes is a set difference; an update is a sequence
  of primitive deletes/inserts whose net effect on membership is "the last primitive on a tuple wins".
-/
import ILV.Lemmas.ArityOk
namespace ILV.Writes
open ILV ILV.Store ILV.Batch ILV.Props.C31

/-- every stored relation is duplicate-free. -/
def NodupAll (e : Engine) : Prop := ∀ r, (liveOf e r).Nodup

theorem NodupAll_of_live {e e' : Engine} (h : NodupAll e) (hl : e'.live = e.live) : NodupAll e' :=
  fun r => by have := h r; simpa [liveOf, hl] using this

theorem insertCore_nodup (c : Codec) (e : Engine) (rel : String) (ts : List Tuple) (h : NodupAll e) :
    NodupAll (insertCore c e rel ts).1 := by
  rcases hr : insertCore c e rel ts with ⟨e', res⟩
  cases res with
  | error k => exact NodupAll_of_live h (insertCore_err c e e' rel ts k hr)
  | ok nd =>
    obtain ⟨n, d⟩ := nd
    obtain ⟨h1, _, _, h4⟩ := insertCore_ok c e e' rel ts n d hr
    intro r
    by_cases hrr : r = rel
    · subst hrr; simp only; rw [h1]; exact (insertLoop_spec ts _ 0 0 (h r)).1
    · simp only; rw [h4 r hrr]; exact h r

theorem deleteCore_nodup (c : Codec) (e : Engine) (rel : String) (ts : List Tuple) (h : NodupAll e) :
    NodupAll (deleteCore c e rel ts).1 := by
  rcases hr : deleteCore c e rel ts with ⟨e', res⟩
  cases res with
  | error k => exact NodupAll_of_live h (deleteCore_err c e e' rel ts k hr)
  | ok n =>
    obtain ⟨h1, _, h4⟩ := deleteCoreRaw_ok c e e' rel _ n hr
    intro r
    by_cases hrr : r = rel
    · subst hrr; simp only; rw [h1]; exact (deleteLive_spec _ _ (h r)).1
    · simp only; rw [h4 r hrr]; exact h r

theorem deleteSeq_nodup (c : Codec) (rel : String) : ∀ (ts : List Tuple) (e : Engine) (acc : Nat), NodupAll e →
    NodupAll (deleteSeq c e rel ts acc).1 := by
  intro ts
  induction ts with
  | nil => intro e acc h; exact h
  | cons t ts ih =>
    intro e acc h
    unfold deleteSeq
    have hd := deleteCore_nodup c e rel [t] h
    rcases hr : deleteCore c e rel [t] with ⟨e', res⟩
    rw [hr] at hd
    cases res with
    | error k => exact hd
    | ok n => exact ih e' (acc + n) hd

theorem updTargets_nodup (c : Codec) (del : Bool) (b : Binding) : ∀ (ts : List Target) (e : Engine) (acc : Nat),
    NodupAll e → NodupAll (updTargets c del b e ts acc).1 := by
  intro ts
  induction ts with
  | nil => intro e acc h; exact h
  | cons t ts ih =>
    intro e acc h
    obtain ⟨rel, args⟩ := t
    unfold updTargets
    cases hi : instHead b args with
    | none => exact ih e acc h
    | some x =>
      simp only
      cases del with
      | true =>
        simp only [if_true]
        have hd := deleteCore_nodup c e rel [x] h
        rcases hr : deleteCore c e rel [x] with ⟨e', res⟩
        rw [hr] at hd
        cases res with
        | error k => exact hd
        | ok n => exact ih e' (acc + n) hd
      | false =>
        simp only [Bool.false_eq_true, if_false]
        have hd := insertCore_nodup c e rel [x] h
        rcases hr : insertCore c e rel [x] with ⟨e', res⟩
        rw [hr] at hd
        cases res with
        | error k => exact hd
        | ok nd => exact ih e' (acc + nd.1) hd

theorem updRows_nodup (c : Codec) (vars : List String) (dels inss : List Target) :
    ∀ (rows : List Tuple) (e : Engine) (d i : Nat), NodupAll e → NodupAll (updRows c vars dels inss e rows d i).1 := by
  intro rows
  induction rows with
  | nil => intro e d i h; exact h
  | cons row rows ih =>
    intro e d i h
    unfold updRows
    simp only
    have h1 := updTargets_nodup c true (rowBinding vars row) dels e d h
    rcases hr1 : updTargets c true (rowBinding vars row) e dels d with ⟨e1, res1⟩
    rw [hr1] at h1
    cases res1 with
    | error k => exact h1
    | ok d' =>
      simp only
      have h2 := updTargets_nodup c false (rowBinding vars row) inss e1 i h1
      rcases hr2 : updTargets c false (rowBinding vars row) e1 inss i with ⟨e2, res2⟩
      rw [hr2] at h2
      cases res2 with
      | error k => exact h2
      | ok i' => exact ih e2 d' i' h2

theorem deleteSeq_arityOk (c : Codec) (rel : String) : ∀ (ts : List Tuple) (e : Engine) (acc : Nat), ArityOk e →
    ArityOk (deleteSeq c e rel ts acc).1 := by
  intro ts
  induction ts with
  | nil => intro e acc h; exact h
  | cons t ts ih =>
    intro e acc h
    unfold deleteSeq
    have hd := deleteCore_arityOk c e rel [t] h
    rcases hr : deleteCore c e rel [t] with ⟨e', res⟩
    rw [hr] at hd
    cases res with
    | error k => exact hd
    | ok n => exact ih e' (acc + n) hd

theorem updTargets_arityOk (c : Codec) (del : Bool) (b : Binding) : ∀ (ts : List Target) (e : Engine) (acc : Nat),
    ArityOk e → ArityOk (updTargets c del b e ts acc).1 := by
  intro ts
  induction ts with
  | nil => intro e acc h; exact h
  | cons t ts ih =>
    intro e acc h
    obtain ⟨rel, args⟩ := t
    unfold updTargets
    cases hi : instHead b args with
    | none => exact ih e acc h
    | some x =>
      simp only
      cases del with
      | true =>
        simp only [if_true]
        have hd := deleteCore_arityOk c e rel [x] h
        rcases hr : deleteCore c e rel [x] with ⟨e', res⟩
        rw [hr] at hd
        cases res with
        | error k => exact hd
        | ok n => exact ih e' (acc + n) hd
      | false =>
        simp only [Bool.false_eq_true, if_false]
        have hd := insertCore_arityOk c e rel [x] h
        rcases hr : insertCore c e rel [x] with ⟨e', res⟩
        rw [hr] at hd
        cases res with
        | error k => exact hd
        | ok nd => exact ih e' (acc + nd.1) hd

theorem updRows_arityOk (c : Codec) (vars : List String) (dels inss : List Target) :
    ∀ (rows : List Tuple) (e : Engine) (d i : Nat), ArityOk e → ArityOk (updRows c vars dels inss e rows d i).1 := by
  intro rows
  induction rows with
  | nil => intro e d i h; exact h
  | cons row rows ih =>
    intro e d i h
    unfold updRows
    simp only
    have h1 := updTargets_arityOk c true (rowBinding vars row) dels e d h
    rcases hr1 : updTargets c true (rowBinding vars row) e dels d with ⟨e1, res1⟩
    rw [hr1] at h1
    cases res1 with
    | error k => exact h1
    | ok d' =>
      simp only
      have h2 := updTargets_arityOk c false (rowBinding vars row) inss e1 i h1
      rcases hr2 : updTargets c false (rowBinding vars row) e1 inss i with ⟨e2, res2⟩
      rw [hr2] at h2
      cases res2 with
      | error k => exact h2
      | ok i' => exact ih e2 d' i' h2

/-- **no statement ever creates a duplicate** — for every codec, every query answer, every outcome. -/
theorem exec_nodup (c : Codec) (ans : Answer) (e : Engine) (o : WOp) (h : NodupAll e) : NodupAll (exec c ans e o).1 := by
  cases o with
  | ins rel ts =>
    simp only [exec]
    have := insertCore_nodup c e rel (ts.filter (fun t => !t.isEmpty)) h
    rcases hr : insertCore c e rel (ts.filter (fun t => !t.isEmpty)) with ⟨e', res⟩
    rw [hr] at this
    cases res with
    | error k => exact this
    | ok nd => exact this
  | del rel t =>
    simp only [exec]
    split
    · exact h
    · have := deleteCore_nodup c e rel [t] h
      rcases hr : deleteCore c e rel [t] with ⟨e', res⟩
      rw [hr] at this
      cases res <;> exact this
  | delb rel ts =>
    simp only [exec]
    have := deleteSeq_nodup c rel ts e 0 h
    rcases hr : deleteSeq c e rel ts 0 with ⟨e', res⟩
    rw [hr] at this
    cases res <;> exact this
  | delc rel head body =>
    simp only [exec]
    cases ha : ans (dbOf e) (addVars [] head) (Lit.pos rel head :: body) with
    | none => exact h
    | some rows =>
      simp only
      have := deleteSeq_nodup c rel
        ((rows.filterMap (fun row => instHead (rowBinding (addVars [] head) row) head)).filter (fun t => !t.isEmpty)) e 0 h
      rcases hr : deleteSeq c e rel
        ((rows.filterMap (fun row => instHead (rowBinding (addVars [] head) row) head)).filter (fun t => !t.isEmpty)) 0 with ⟨e', res⟩
      rw [hr] at this
      cases res <;> exact this
  | upd dels inss body =>
    simp only [exec]
    cases ha : ans (dbOf e) (updVars dels inss) body with
    | none => exact h
    | some rows =>
      simp only
      have := updRows_nodup c (updVars dels inss) dels inss rows e 0 0 h
      rcases hr : updRows c (updVars dels inss) dels inss e rows 0 0 with ⟨e', res⟩
      rw [hr] at this
      cases res <;> exact this
  | obs => exact h
  | ord v b => exact h
  | bad => exact h

/-! ### a run of single-tuple deletes is a set difference -/

theorem deleteSeq_ok (c : Codec) (rel : String) : ∀ (ts : List Tuple) (e e' : Engine) (acc m : Nat), ArityOk e →
    deleteSeq c e rel ts acc = (e', .ok m) →
    liveOf e' rel = deleteLive (liveOf e rel) ts ∧ m + (liveOf e' rel).length = acc + (liveOf e rel).length ∧
    ∀ r, r ≠ rel → liveOf e' r = liveOf e r := by
  intro ts
  induction ts with
  | nil =>
    intro e e' acc m _ h
    simp only [deleteSeq, Prod.mk.injEq, Except.ok.injEq] at h
    obtain ⟨h1, h2⟩ := h
    subst h1; subst h2
    refine ⟨?_, rfl, fun _ _ => rfl⟩
    simp only [deleteLive, List.any_nil, Bool.not_false]
    exact (List.filter_eq_self.2 (fun _ _ => rfl)).symm
  | cons t ts ih =>
    intro e e' acc m ha h
    unfold deleteSeq at h
    have ha1 := deleteCore_arityOk c e rel [t] ha
    rcases hr : deleteCore c e rel [t] with ⟨e1, res⟩
    rw [hr] at h ha1
    cases res with
    | error k => simp at h
    | ok n =>
      simp only at h
      obtain ⟨a1, a2, a3⟩ := deleteCore_ok c e e1 rel [t] n ha hr
      obtain ⟨b1, b2, b3⟩ := ih e1 e' (acc + n) m ha1 h
      refine ⟨by rw [b1, a1, deleteLive_deleteLive], ?_, fun r hr' => (b3 r hr').trans (a3 r hr')⟩
      have hle : (liveOf e1 rel).length ≤ (liveOf e rel).length := by
        rw [a1]; exact List.length_filter_le _ _
      omega

/-! ### primitive deletes / inserts: the last one on a tuple decides -/

/-- membership of `y` in `r` after the primitives, from its membership `init` before. -/
def memAfter (r : String) (y : Tuple) : List Prim → Prop → Prop
  | [], init => init
  | .del rel t :: ps, init => memAfter r y ps (if rel = r ∧ t = y then False else init)
  | .ins rel t :: ps, init => memAfter r y ps (if rel = r ∧ t = y then True else init)

theorem memAfter_append (r : String) (y : Tuple) : ∀ (ps qs : List Prim) (init : Prop),
    memAfter r y (ps ++ qs) init = memAfter r y qs (memAfter r y ps init) := by
  intro ps
  induction ps with
  | nil => intro qs init; rfl
  | cons p ps ih => intro qs init; cases p <;> simp only [List.cons_append, memAfter, ih]

theorem memAfter_congr (r : String) (y : Tuple) : ∀ (ps : List Prim) (a b : Prop), (a ↔ b) →
    (memAfter r y ps a ↔ memAfter r y ps b) := by
  intro ps
  induction ps with
  | nil => intro a b h; exact h
  | cons p ps ih =>
    intro a b h
    cases p with
    | del rel t =>
      simp only [memAfter]; apply ih
      by_cases hc : rel = r ∧ t = y <;> simp [hc, h]
    | ins rel t =>
      simp only [memAfter]; apply ih
      by_cases hc : rel = r ∧ t = y <;> simp [hc, h]

theorem updTargets_ok (c : Codec) (del : Bool) (b : Binding) : ∀ (ts : List Target) (e e' : Engine) (acc m : Nat), ArityOk e →
    updTargets c del b e ts acc = (e', .ok m) →
    ArityOk e' ∧ ∀ r y, (y ∈ liveOf e' r ↔ memAfter r y (targetPrims del b ts) (y ∈ liveOf e r)) := by
  intro ts
  induction ts with
  | nil =>
    intro e e' acc m ha h
    simp only [updTargets, Prod.mk.injEq] at h
    rw [← h.1]; exact ⟨ha, fun _ _ => Iff.rfl⟩
  | cons t ts ih =>
    intro e e' acc m ha h
    refine ⟨?_, ?_⟩
    · -- arities
      obtain ⟨rel, args⟩ := t
      unfold updTargets at h
      cases hi : instHead b args with
      | none => rw [hi] at h; exact (ih e e' acc m ha h).1
      | some x =>
        rw [hi] at h
        simp only at h
        cases del with
        | true =>
          simp only [if_true] at h
          have ha1 := deleteCore_arityOk c e rel [x] ha
          rcases hr : deleteCore c e rel [x] with ⟨e1, res⟩
          rw [hr] at h ha1
          cases res with
          | error k => simp at h
          | ok n => exact (ih e1 e' (acc + n) m ha1 h).1
        | false =>
          simp only [Bool.false_eq_true, if_false] at h
          have ha1 := insertCore_arityOk c e rel [x] ha
          rcases hr : insertCore c e rel [x] with ⟨e1, res⟩
          rw [hr] at h ha1
          cases res with
          | error k => simp at h
          | ok nd => exact (ih e1 e' (acc + nd.1) m ha1 h).1
    intro r y
    obtain ⟨rel, args⟩ := t
    unfold updTargets at h
    cases hi : instHead b args with
    | none =>
      rw [hi] at h
      simp only at h
      have : targetPrims del b ((rel, args) :: ts) = targetPrims del b ts := by
        simp [targetPrims, List.filterMap_cons, hi]
      rw [this]; exact (ih e e' acc m ha h).2 r y
    | some x =>
      rw [hi] at h
      simp only at h
      cases del with
      | true =>
        simp only [if_true] at h
        have ha1 := deleteCore_arityOk c e rel [x] ha
        rcases hr : deleteCore c e rel [x] with ⟨e1, res⟩
        rw [hr] at h ha1
        cases res with
        | error k => simp at h
        | ok n =>
          simp only at h
          obtain ⟨a1, _, a3⟩ := deleteCore_ok c e e1 rel [x] n ha hr
          have hp : targetPrims true b ((rel, args) :: ts) = Prim.del rel x :: targetPrims true b ts := by
            simp [targetPrims, List.filterMap_cons, hi]
          rw [hp]
          simp only [memAfter]
          rw [(ih e1 e' (acc + n) m ha1 h).2 r y]
          apply memAfter_congr
          by_cases hc : rel = r ∧ x = y
          · obtain ⟨h1, h2⟩ := hc
            subst h1; subst h2
            simp only [and_self, if_true, iff_false]
            rw [a1, mem_deleteLive]; simp
          · simp only [hc, if_false]
            by_cases hrr : r = rel
            · subst hrr
              rw [a1, mem_deleteLive]
              have : y ≠ x := fun e'' => hc ⟨rfl, e''.symm⟩
              simp [this]
            · rw [a3 r hrr]
      | false =>
        simp only [Bool.false_eq_true, if_false] at h
        have ha1 := insertCore_arityOk c e rel [x] ha
        rcases hr : insertCore c e rel [x] with ⟨e1, res⟩
        rw [hr] at h ha1
        cases res with
        | error k => simp at h
        | ok nd =>
          obtain ⟨n, d⟩ := nd
          simp only at h
          obtain ⟨a1, _, _, a3⟩ := insertCore_ok c e e1 rel [x] n d hr
          have hp : targetPrims false b ((rel, args) :: ts) = Prim.ins rel x :: targetPrims false b ts := by
            simp [targetPrims, List.filterMap_cons, hi]
          rw [hp]
          simp only [memAfter]
          rw [(ih e1 e' (acc + n) m ha1 h).2 r y]
          apply memAfter_congr
          have hmem : ∀ z, z ∈ (insertLoop (liveOf e rel) 0 0 [x]).1 ↔ z ∈ liveOf e rel ∨ z = x := by
            intro z
            simp only [insertLoop]
            split <;> rename_i hh
            · have := (any_eq_iff_mem x _).1 hh
              constructor
              · intro h'; exact Or.inl h'
              · rintro (h' | h'); exact h'; subst h'; exact this
            · simp
          by_cases hc : rel = r ∧ x = y
          · obtain ⟨h1, h2⟩ := hc
            subst h1; subst h2
            simp only [and_self, if_true, iff_true]
            rw [a1, hmem]; exact Or.inr rfl
          · simp only [hc, if_false]
            by_cases hrr : r = rel
            · subst hrr
              rw [a1, hmem]
              have : y ≠ x := fun e'' => hc ⟨rfl, e''.symm⟩
              simp [this]
            · rw [a3 r hrr]

theorem updRows_ok (c : Codec) (vars : List String) (dels inss : List Target) :
    ∀ (rows : List Tuple) (e e' : Engine) (d i d' i' : Nat), ArityOk e →
    updRows c vars dels inss e rows d i = (e', .ok (d', i')) →
    ∀ r y, (y ∈ liveOf e' r ↔ memAfter r y (updPrims vars dels inss rows) (y ∈ liveOf e r)) := by
  intro rows
  induction rows with
  | nil =>
    intro e e' d i d' i' _ h r y
    simp only [updRows, Prod.mk.injEq] at h
    rw [← h.1]; rfl
  | cons row rows ih =>
    intro e e' d i d' i' ha h r y
    unfold updRows at h
    simp only at h
    rcases hr1 : updTargets c true (rowBinding vars row) e dels d with ⟨e1, res1⟩
    rw [hr1] at h
    cases res1 with
    | error k => simp at h
    | ok d1 =>
      simp only at h
      rcases hr2 : updTargets c false (rowBinding vars row) e1 inss i with ⟨e2, res2⟩
      rw [hr2] at h
      cases res2 with
      | error k => simp at h
      | ok i1 =>
        simp only at h
        obtain ⟨ha1, s1'⟩ := updTargets_ok c true (rowBinding vars row) dels e e1 d d1 ha hr1
        obtain ⟨ha2, s2'⟩ := updTargets_ok c false (rowBinding vars row) inss e1 e2 i i1 ha1 hr2
        have s1 := s1' r y
        have s2 := s2' r y
        have s3 := ih e2 e' d1 i1 d' i' ha2 h r y
        have hp : updPrims vars dels inss (row :: rows) =
            targetPrims true (rowBinding vars row) dels ++ (targetPrims false (rowBinding vars row) inss ++ updPrims vars dels inss rows) := by
          simp [updPrims, rowPrims]
        rw [hp, memAfter_append, memAfter_append, s3]
        apply memAfter_congr
        rw [s2]
        apply memAfter_congr
        exact s1

end ILV.Writes
