/-
  C35: the executable Spec oracle `specPageOk` is equivalent to the proposition
  "the page is `take limit (drop offset s)` for some permutation `s` of the answer whose rows without
  a NaN sort key are in the exact order" (`PageSpec`), for answers of well-formed rows.
-/
import ILV.Lemmas.WireOrder
namespace ILV

/-! ### the Spec order is a total preorder on rows without a NaN key -/

theorem specCmpV_eq_of_not_nan (a b : WVal) (ha : a.isNaN = false) (hb : b.isNaN = false) :
    specCmpV a b = compareWV a b := by
  cases a <;> cases b <;> simp_all [specCmpV, compareWV, WVal.isNaN, cmpI64F64, cmpIntF]

theorem specRowCmp_eq (keys : List SortKey) (x y : WRow)
    (hx : rowHasNaNKey keys x = false) (hy : rowHasNaNKey keys y = false) :
    specRowCmp keys x y = rowCmp keys x y := by
  induction keys with
  | nil => rfl
  | cons k ks ih =>
    obtain ⟨col, desc⟩ := k
    simp only [rowHasNaNKey, List.any_cons, Bool.or_eq_false_iff] at hx hy
    have ih' := ih (by simpa [rowHasNaNKey] using hx.2) (by simpa [rowHasNaNKey] using hy.2)
    have hcol : specCmpO x[col]? y[col]? = compareWire x[col]? y[col]? := by
      cases hxv : x[col]? with
      | none => cases y[col]? <;> rfl
      | some vx =>
        cases hyv : y[col]? with
        | none => rfl
        | some vy =>
          simp only [specCmpO, compareWire]
          apply specCmpV_eq_of_not_nan
          · have := hx.1; simpa [hxv] using this
          · have := hy.1; simpa [hyv] using this
    simp only [specRowCmp, rowCmp, hcol, ih']

/-- rows the Spec orders: well-formed and without a NaN sort key. -/
def NFW (keys : List SortKey) (r : WRow) : Prop := RowWF r ∧ nfRow keys r = true

theorem nfRow_false {keys : List SortKey} {r : WRow} (h : nfRow keys r = true) : rowHasNaNKey keys r = false := by
  simpa [nfRow] using h

theorem spec_tp (keys : List SortKey) : TP (NFW keys) (specRowCmp keys) where
  swap := by
    intro a b pa pb
    rw [specRowCmp_eq keys b a (nfRow_false pb.2) (nfRow_false pa.2), specRowCmp_eq keys a b (nfRow_false pa.2) (nfRow_false pb.2)]
    exact (rowCmp_tp keys).swap a b pa.1 pb.1
  trans := by
    intro a b d pa pb pd h1 h2
    rw [specRowCmp_eq keys a b (nfRow_false pa.2) (nfRow_false pb.2)] at h1
    rw [specRowCmp_eq keys b d (nfRow_false pb.2) (nfRow_false pd.2)] at h2
    rw [specRowCmp_eq keys a d (nfRow_false pa.2) (nfRow_false pd.2)]
    exact (rowCmp_tp keys).trans a b d pa.1 pb.1 pd.1 h1 h2

/-! ### generic list facts -/

theorem eraseOne_perm (r : WRow) : ∀ (l l' : List WRow), eraseOne r l = some l' → l.Perm (r :: l') := by
  intro l
  induction l with
  | nil => intro l' h; simp [eraseOne] at h
  | cons x xs ih =>
    intro l' h
    simp only [eraseOne] at h
    by_cases e : (x == r) = true
    · simp only [e, if_true, Option.some.injEq] at h
      subst h
      have : x = r := by simpa using e
      subst this; exact List.Perm.refl _
    · simp only [e, Bool.false_eq_true, if_false] at h
      cases hr : eraseOne r xs with
      | none => simp [hr] at h
      | some ys =>
        simp [hr] at h; subst h
        exact (List.Perm.cons x (ih ys hr)).trans (List.Perm.swap r x ys)

theorem eraseOne_of_mem (r : WRow) : ∀ (l : List WRow), r ∈ l → ∃ l', eraseOne r l = some l' := by
  intro l
  induction l with
  | nil => intro h; cases h
  | cons x xs ih =>
    intro h
    simp only [eraseOne]
    by_cases e : (x == r) = true
    · exact ⟨xs, by simp [e]⟩
    · have hne : x ≠ r := by simpa using e
      have : r ∈ xs := by
        rcases List.mem_cons.1 h with h | h
        · exact absurd h.symm hne
        · exact h
      obtain ⟨l', hl⟩ := ih this
      exact ⟨x :: l', by simp [e, hl]⟩

theorem subMultiset_perm : ∀ (page a rest : List WRow), subMultiset page a = some rest → (page ++ rest).Perm a := by
  intro page
  induction page with
  | nil => intro a rest h; simp [subMultiset] at h; subst h; exact List.Perm.refl _
  | cons r rs ih =>
    intro a rest h
    simp only [subMultiset] at h
    cases he : eraseOne r a with
    | none => simp [he] at h
    | some a' =>
      simp only [he] at h
      have h1 := ih a' rest h
      have h2 := eraseOne_perm r a a' he
      exact ((List.Perm.cons r h1).trans h2.symm)

theorem subMultiset_complete : ∀ (page a r' : List WRow), (page ++ r').Perm a →
    ∃ rest, subMultiset page a = some rest ∧ rest.Perm r' := by
  intro page
  induction page with
  | nil => intro a r' h; exact ⟨a, rfl, h.symm⟩
  | cons r rs ih =>
    intro a r' h
    have hm : r ∈ a := h.mem_iff.1 (by simp)
    obtain ⟨a', ha'⟩ := eraseOne_of_mem r a hm
    have hp := eraseOne_perm r a a' ha'
    have : (r :: (rs ++ r')).Perm (r :: a') := by simpa using h.trans hp
    have h2 : (rs ++ r').Perm a' := List.Perm.cons_inv this
    obtain ⟨rest, hr, hperm⟩ := ih a' r' h2
    exact ⟨rest, by simp [subMultiset, ha', hr], hperm⟩

/-- adjacent check = pairwise, for a transitive relation on the elements. -/
theorem sortedBy_iff (cmp : WRow → WRow → Ordering) :
    ∀ (l : List WRow), (∀ a ∈ l, ∀ b ∈ l, ∀ c ∈ l, cmp a b ≠ .gt → cmp b c ≠ .gt → cmp a c ≠ .gt) →
      (sortedBy cmp l = true ↔ l.Pairwise (fun x y => cmp x y ≠ .gt)) := by
  intro l
  induction l with
  | nil => intro _; simp [sortedBy]
  | cons a l ih =>
    intro htr
    cases l with
    | nil => simp [sortedBy]
    | cons b rest =>
      have htr' : ∀ x ∈ b :: rest, ∀ y ∈ b :: rest, ∀ z ∈ b :: rest, cmp x y ≠ .gt → cmp y z ≠ .gt → cmp x z ≠ .gt :=
        fun x hx y hy z hz => htr x (List.mem_cons_of_mem _ hx) y (List.mem_cons_of_mem _ hy) z (List.mem_cons_of_mem _ hz)
      have ih' := ih htr'
      simp only [sortedBy, Bool.and_eq_true, bne_iff_ne, ne_eq]
      rw [ih', List.pairwise_cons (a := a)]
      constructor
      · intro ⟨hab, hp⟩
        refine ⟨?_, hp⟩
        intro c hc
        rcases List.mem_cons.1 hc with e | hm
        · subst e; exact hab
        · have hbc : cmp b c ≠ .gt := (List.pairwise_cons.1 hp).1 c hm
          exact htr a (by simp) b (by simp) c (List.mem_cons_of_mem _ hc) hab hbc
      · intro ⟨h1, hp⟩
        exact ⟨h1 b (by simp), hp⟩

/-- in a sorted list a downward-closed predicate holds exactly on a prefix. -/
theorem prefix_of_downclosed {α} (le : α → α → Prop) (P : α → Bool) :
    ∀ (l : List α), l.Pairwise le → (∀ a ∈ l, ∀ b ∈ l, le a b → P b = true → P a = true) →
      (∀ x ∈ l.take (l.countP P), P x = true) ∧ (∀ x ∈ l.drop (l.countP P), P x = false) := by
  intro l
  induction l with
  | nil => intro _ _; simp
  | cons a l ih =>
    intro hp hd
    rw [List.pairwise_cons] at hp
    have hd' : ∀ x ∈ l, ∀ y ∈ l, le x y → P y = true → P x = true :=
      fun x hx y hy => hd x (List.mem_cons_of_mem _ hx) y (List.mem_cons_of_mem _ hy)
    obtain ⟨i1, i2⟩ := ih hp.2 hd'
    by_cases pa : P a = true
    · simp only [List.countP_cons, pa, if_true, List.take_succ_cons, List.drop_succ_cons]
      refine ⟨?_, i2⟩
      intro x hx
      rcases List.mem_cons.1 hx with e | hm
      · subst e; exact pa
      · exact i1 x hm
    · have none : ∀ b ∈ l, P b = false := by
        intro b hb
        cases hb' : P b with
        | false => rfl
        | true => exact absurd (hd a (by simp) b (List.mem_cons_of_mem _ hb) (hp.1 b hb) hb') pa
      have hc : l.countP P = 0 := by
        rw [List.countP_eq_zero]; intro b hb; simp [none b hb]
      simp only [List.countP_cons, pa, Bool.false_eq_true, if_false, hc, Nat.add_zero, List.take_zero, List.drop_zero]
      refine ⟨by simp, ?_⟩
      intro x hx
      rcases List.mem_cons.1 hx with e | hm
      · subst e; simpa using pa
      · exact none x hm

theorem mem_take_of_le {α} {l : List α} {p q : Nat} (h : p ≤ q) {x : α} (hx : x ∈ l.take p) : x ∈ l.take q := by
  have : l.take p = (l.take q).take p := by rw [List.take_take]; congr 1; omega
  rw [this] at hx; exact List.mem_of_mem_take hx

theorem mem_drop_of_le {α} {l : List α} {p q : Nat} (h : q ≤ p) {x : α} (hx : x ∈ l.drop p) : x ∈ l.drop q := by
  have : l.drop p = (l.drop q).drop (p - q) := by rw [List.drop_drop]; congr 1; omega
  rw [this] at hx; exact List.mem_of_mem_drop hx

/-! ### slices -/

theorem slice_decomp (s page : List WRow) (limit : Option Nat) (o : Nat) :
    page = (match limit with | some n => (s.drop o).take n | none => s.drop o) ↔
      ∃ pre post, s = pre ++ page ++ post ∧ pre.length = min o s.length ∧
        page.length = (match limit with | some l => min l (s.length - o) | none => s.length - o) := by
  constructor
  · intro h
    refine ⟨s.take o, (s.drop o).drop page.length, ?_, by simp, ?_⟩
    · have hp : page = (s.drop o).take page.length := by
        cases limit with
        | none => simp only at h; rw [h]; exact (List.take_of_length_le (Nat.le_refl _)).symm
        | some n => simp only at h; rw [h]; simp [List.take_take]
      have e1 : (s.drop o).take page.length ++ (s.drop o).drop page.length = s.drop o := List.take_append_drop _ _
      rw [List.append_assoc]
      conv => lhs; rw [← List.take_append_drop o s, ← e1, ← hp]
    · cases limit with
      | none => simp only at h ⊢; rw [h]; simp
      | some n => simp only at h ⊢; rw [h]; simp
  · intro ⟨pre, post, hs, hl, hw⟩
    subst hs
    simp only [List.length_append] at hl hw
    by_cases ho : o ≤ pre.length + page.length + post.length
    · have hpl : pre.length = o := by omega
      have hd : (pre ++ page ++ post).drop o = page ++ post := by
        rw [List.append_assoc, ← hpl]; exact List.drop_left
      cases limit with
      | none =>
        simp only [hd] at hw ⊢
        have : post = [] := by
          cases post with
          | nil => rfl
          | cons x xs => simp only [List.length_cons] at hw; omega
        simp [this]
      | some n =>
        simp only [hd] at hw ⊢
        by_cases hn : page.length = n
        · rw [← hn]; simp
        · have : post = [] := by
            cases post with
            | nil => rfl
            | cons x xs => simp only [List.length_cons] at hw; omega
          subst this
          have hlt : page.length ≤ n := by simp only [List.length_nil] at hw; omega
          simp [List.take_of_length_le hlt]
    · have hz : page = [] ∧ post = [] := by
        constructor
        · cases page with
          | nil => rfl
          | cons x xs => simp only [List.length_cons] at hl; omega
        · cases post with
          | nil => rfl
          | cons x xs => simp only [List.length_cons] at hl; omega
      obtain ⟨e1, e2⟩ := hz
      subst e1; subst e2
      have : (pre ++ [] ++ []).drop o = [] := List.drop_eq_nil_of_le (by simp at ho ⊢; omega)
      cases limit <;> simp [this] <;> (simp only [List.length_nil] at ho; omega)

theorem pageSlice_decomp (s page : List WRow) (limit offset : Option Nat) :
    page = pageSlice s limit offset ↔
      ∃ pre post, s = pre ++ page ++ post ∧ pre.length = min (offset.getD 0) s.length ∧
        page.length = wantLen s.length limit offset := by
  unfold pageSlice wantLen
  exact slice_decomp s page limit (offset.getD 0)

/-! ### the proposition and the equivalence -/

/-- rows without a NaN sort key are in the exact order. -/
def SpecSorted (keys : List SortKey) (s : List WRow) : Prop :=
  (s.filter (nfRow keys)).Pairwise (fun x y => specRowCmp keys x y ≠ .gt)

/-- **the Spec of a page** (the proposition of property C35). -/
def PageSpec (keys : List SortKey) (a : List WRow) (limit offset : Option Nat) (page : List WRow) : Prop :=
  if keys = [] then page = pageSlice a limit offset
  else ∃ s : List WRow, s.Perm a ∧ SpecSorted keys s ∧ page = pageSlice s limit offset

theorem specSorted_iff (keys : List SortKey) (s : List WRow) (hw : ∀ r ∈ s, RowWF r) :
    specSorted keys s = true ↔ SpecSorted keys s := by
  unfold specSorted SpecSorted
  have hf : (s.filter (fun r => !rowHasNaNKey keys r)) = s.filter (nfRow keys) := rfl
  rw [hf]
  apply sortedBy_iff
  intro a ha b hb c hc
  have m := fun x (hx : x ∈ s.filter (nfRow keys)) => (show NFW keys x from ⟨hw x (List.mem_filter.1 hx).1, (List.mem_filter.1 hx).2⟩)
  exact (spec_tp keys).trans a b c (m a ha) (m b hb) (m c hc)

theorem filter_nf_cand (keys : List SortKey) (page restNF restN : List WRow) (off p : Nat)
    (h1 : ∀ r ∈ restNF, nfRow keys r = true) (h2 : ∀ r ∈ restN, nfRow keys r = false) :
    (pageCand page restNF restN off p).filter (nfRow keys) = restNF.take p ++ page.filter (nfRow keys) ++ restNF.drop p := by
  have t1 : (restNF.take p).filter (nfRow keys) = restNF.take p :=
    List.filter_eq_self.2 (fun a ha => h1 a (List.mem_of_mem_take ha))
  have t2 : (restNF.drop p).filter (nfRow keys) = restNF.drop p :=
    List.filter_eq_self.2 (fun a ha => h1 a (List.mem_of_mem_drop ha))
  have t3 : (restN.take (off - p)).filter (nfRow keys) = [] :=
    List.filter_eq_nil_iff.2 (fun a ha => by simp [h2 a (List.mem_of_mem_take ha)])
  have t4 : (restN.drop (off - p)).filter (nfRow keys) = [] :=
    List.filter_eq_nil_iff.2 (fun a ha => by simp [h2 a (List.mem_of_mem_drop ha)])
  simp only [pageCand, List.filter_append, t1, t2, t3, t4, List.append_nil, List.nil_append]

theorem cand_perm (page rest restNF restN : List WRow) (keys : List SortKey) (off p : Nat)
    (hNF : restNF.Perm (rest.filter (nfRow keys))) (hN : restN = rest.filter (fun r => !nfRow keys r)) :
    (pageCand page restNF restN off p).Perm (page ++ rest) := by
  have h1 : (restNF.take p ++ restNF.drop p).Perm (rest.filter (nfRow keys)) := by
    rw [List.take_append_drop]; exact hNF
  have h2 : (restN.take (off - p) ++ restN.drop (off - p)) = rest.filter (fun r => !nfRow keys r) := by
    rw [List.take_append_drop]; exact hN
  have h3 := List.filter_append_perm (nfRow keys) rest
  -- rearrange: (A1 ++ B1) ++ page ++ (B2 ++ A2) ~ page ++ (A1 ++ A2) ++ (B1 ++ B2)
  have e : (pageCand page restNF restN off p).Perm
      (page ++ ((restNF.take p ++ restNF.drop p) ++ (restN.take (off - p) ++ restN.drop (off - p)))) := by
    unfold pageCand
    generalize restNF.take p = A1
    generalize restNF.drop p = A2
    generalize restN.take (off - p) = B1
    generalize restN.drop (off - p) = B2
    have s1 : ((A1 ++ B1) ++ page ++ (B2 ++ A2)).Perm (page ++ ((A1 ++ B1) ++ (B2 ++ A2))) := by
      rw [List.append_assoc]
      exact List.perm_append_comm.trans (by rw [List.append_assoc]; exact List.Perm.append_left page List.perm_append_comm)
    refine s1.trans (List.Perm.append_left page ?_)
    -- (A1 ++ B1) ++ (B2 ++ A2) ~ (A1 ++ A2) ++ (B1 ++ B2)
    have : ((A1 ++ B1) ++ (B2 ++ A2)).Perm ((A1 ++ A2) ++ (B1 ++ B2)) := by
      simp only [List.append_assoc]
      refine List.Perm.append_left A1 ?_
      have h : (B1 ++ (B2 ++ A2)) = ((B1 ++ B2) ++ A2) := by rw [List.append_assoc]
      rw [h]; exact List.perm_append_comm
    exact this
  refine e.trans (List.Perm.append_left page ?_)
  rw [h2]
  exact (List.Perm.append_right _ h1).trans h3

/-! ### soundness and completeness of the oracle -/

theorem nf_mem_filter {keys : List SortKey} {l : List WRow} {x : WRow} (hw : ∀ r ∈ l, RowWF r)
    (hx : x ∈ l.filter (nfRow keys)) : NFW keys x :=
  ⟨hw x (List.mem_filter.1 hx).1, (List.mem_filter.1 hx).2⟩

theorem sorted_restNF (keys : List SortKey) (l : List WRow) (hw : ∀ r ∈ l, RowWF r) :
    (stdInsertionSort (fun x y => specRowCmp keys x y == .lt) (l.filter (nfRow keys))).Pairwise
      (fun x y => specRowCmp keys x y ≠ .gt) := by
  apply stdInsertionSort_sorted
  exact ⟨fun a ha b hb => (spec_tp keys).swap a b (nf_mem_filter hw ha) (nf_mem_filter hw hb),
         fun a ha b hb c hc => (spec_tp keys).trans a b c (nf_mem_filter hw ha) (nf_mem_filter hw hb) (nf_mem_filter hw hc)⟩

theorem filter_len_split (keys : List SortKey) (l : List WRow) :
    (l.filter (nfRow keys)).length + (l.filter (fun r => !nfRow keys r)).length = l.length := by
  have := (List.filter_append_perm (nfRow keys) l).length_eq
  simpa using this

theorem specPageOk_sound (keys : List SortKey) (a : List WRow) (limit offset : Option Nat) (page : List WRow)
    (hw : ∀ r ∈ a, RowWF r) (hk : keys ≠ []) (h : specPageOk keys a limit offset page = true) :
    ∃ s : List WRow, s.Perm a ∧ SpecSorted keys s ∧ page = pageSlice s limit offset := by
  have hne : keys.isEmpty = false := by cases keys <;> simp_all
  unfold specPageOk at h
  simp only [hne, Bool.false_eq_true, if_false, Bool.and_eq_true, decide_eq_true_eq] at h
  obtain ⟨hlen, h⟩ := h
  cases hsub : subMultiset page a with
  | none => simp [hsub] at h
  | some rest =>
    simp only [hsub, List.any_eq_true, List.mem_range, Bool.and_eq_true, decide_eq_true_eq] at h
    obtain ⟨p, hp, ⟨⟨hpo, hpn⟩, hsorted⟩⟩ := h
    have hperm_a := subMultiset_perm page a rest hsub
    have hrw : ∀ r ∈ rest, RowWF r := fun r hr => hw r (hperm_a.mem_iff.1 (List.mem_append_right _ hr))
    let restNF := stdInsertionSort (fun x y => specRowCmp keys x y == .lt) (rest.filter (nfRow keys))
    let restN := rest.filter (fun r => !nfRow keys r)
    let off := min (offset.getD 0) a.length
    have hNF : restNF.Perm (rest.filter (nfRow keys)) := stdInsertionSort_perm _ _
    have hcp : (pageCand page restNF restN off p).Perm a :=
      (cand_perm page rest restNF restN keys off p hNF rfl).trans hperm_a
    have hcw : ∀ r ∈ pageCand page restNF restN off p, RowWF r := fun r hr => hw r (hcp.mem_iff.1 hr)
    refine ⟨pageCand page restNF restN off p, hcp, (specSorted_iff keys _ hcw).1 hsorted, ?_⟩
    rw [pageSlice_decomp]
    refine ⟨restNF.take p ++ restN.take (off - p), restN.drop (off - p) ++ restNF.drop p, rfl, ?_, ?_⟩
    · rw [hcp.length_eq]
      have hp' : p < restNF.length + 1 := hp
      have hpo' : p ≤ off := hpo
      have hpn' : off - p ≤ restN.length := hpn
      have h1 : (restNF.take p).length = p := by rw [List.length_take]; omega
      have h2 : (restN.take (off - p)).length = off - p := by rw [List.length_take]; omega
      rw [List.length_append, h1, h2]
      show p + (off - p) = off
      omega
    · rw [hcp.length_eq]; exact hlen

theorem specPageOk_complete (keys : List SortKey) (a : List WRow) (limit offset : Option Nat) (page : List WRow)
    (hw : ∀ r ∈ a, RowWF r) (hk : keys ≠ [])
    (h : ∃ s : List WRow, s.Perm a ∧ SpecSorted keys s ∧ page = pageSlice s limit offset) :
    specPageOk keys a limit offset page = true := by
  have hne : keys.isEmpty = false := by cases keys <;> simp_all
  obtain ⟨s, hsa, hss, hps⟩ := h
  obtain ⟨pre, post, hdec, hprelen, hpagelen⟩ := (pageSlice_decomp s page limit offset).1 hps
  have hlen_sa : s.length = a.length := hsa.length_eq
  -- the rest
  have hperm1 : (page ++ (pre ++ post)).Perm a := by
    have : (page ++ (pre ++ post)).Perm s := by
      rw [hdec, ← List.append_assoc]
      exact List.Perm.append_right post List.perm_append_comm
    exact this.trans hsa
  obtain ⟨rest, hsub, hrest⟩ := subMultiset_complete page a (pre ++ post) hperm1
  have hsw : ∀ r ∈ s, RowWF r := fun r hr => hw r (hsa.mem_iff.1 hr)
  have hrw : ∀ r ∈ rest, RowWF r := fun r hr =>
    hw r ((subMultiset_perm page a rest hsub).mem_iff.1 (List.mem_append_right _ hr))
  -- NaN-free parts
  let X := pre.filter (nfRow keys)
  let Z := page.filter (nfRow keys)
  let Y := post.filter (nfRow keys)
  have hnfs : s.filter (nfRow keys) = X ++ Z ++ Y := by rw [hdec]; simp [List.filter_append, X, Z, Y]
  unfold SpecSorted at hss
  rw [hnfs, List.pairwise_append, List.pairwise_append] at hss
  obtain ⟨⟨hXp, hZp, hXZ⟩, hYp, hXZY⟩ := hss
  have memX : ∀ x ∈ X, NFW keys x := fun x hx =>
    ⟨hsw x (by rw [hdec]; simp [(List.mem_filter.1 hx).1]), (List.mem_filter.1 hx).2⟩
  have memZ : ∀ x ∈ Z, NFW keys x := fun x hx =>
    ⟨hsw x (by rw [hdec]; simp [(List.mem_filter.1 hx).1]), (List.mem_filter.1 hx).2⟩
  have memY : ∀ x ∈ Y, NFW keys x := fun x hx =>
    ⟨hsw x (by rw [hdec]; simp [(List.mem_filter.1 hx).1]), (List.mem_filter.1 hx).2⟩
  let restNF := stdInsertionSort (fun x y => specRowCmp keys x y == .lt) (rest.filter (nfRow keys))
  let restN := rest.filter (fun r => !nfRow keys r)
  let off := min (offset.getD 0) a.length
  have hNFperm : restNF.Perm (X ++ Y) := by
    refine (stdInsertionSort_perm _ _).trans ?_
    have := List.Perm.filter (nfRow keys) hrest
    simpa [List.filter_append, X, Y] using this
  have hNFsorted : restNF.Pairwise (fun x y => specRowCmp keys x y ≠ .gt) := sorted_restNF keys rest hrw
  have memR : ∀ x ∈ restNF, NFW keys x := by
    intro x hx
    rcases List.mem_append.1 (hNFperm.mem_iff.1 hx) with h | h
    · exact memX x h
    · exact memY x h
  have hNperm : restN.Perm (pre.filter (fun r => !nfRow keys r) ++ post.filter (fun r => !nfRow keys r)) := by
    have := List.Perm.filter (fun r => !nfRow keys r) hrest
    simpa [List.filter_append, restN] using this
  -- the choice of p
  have hoff : pre.length = off := by rw [hprelen, hlen_sa]
  have hp1 : X.length ≤ restNF.length := by rw [hNFperm.length_eq, List.length_append]; omega
  have hp2 : X.length ≤ off := by rw [← hoff]; exact List.length_filter_le _ _
  have hp3 : off - X.length ≤ restN.length := by
    rw [hNperm.length_eq, List.length_append, ← hoff]
    have := filter_len_split keys pre
    have e : X.length = (pre.filter (nfRow keys)).length := rfl
    omega
  -- sortedness of the candidate
  have hcp : (pageCand page restNF restN off X.length).Perm a :=
    (cand_perm page rest restNF restN keys off X.length (stdInsertionSort_perm _ _) rfl).trans (subMultiset_perm page a rest hsub)
  have hcw : ∀ r ∈ pageCand page restNF restN off X.length, RowWF r := fun r hr => hw r (hcp.mem_iff.1 hr)
  have hcs : SpecSorted keys (pageCand page restNF restN off X.length) := by
    unfold SpecSorted
    rw [filter_nf_cand keys page restNF restN off X.length (fun r hr => (memR r hr).2)
      (fun r hr => by have := (List.mem_filter.1 hr).2; simpa using this)]
    have hsplit : restNF.take X.length ++ restNF.drop X.length = restNF := List.take_append_drop _ _
    have hsorted' := hNFsorted
    rw [← hsplit, List.pairwise_append] at hsorted'
    obtain ⟨hT, hD, hTD⟩ := hsorted'
    rw [List.pairwise_append, List.pairwise_append]
    refine ⟨⟨hT, hZp, ?_⟩, hD, ?_⟩
    · -- take ≤ Z
      intro u hu z hz
      let P : WRow → Bool := fun v => specRowCmp keys v z != .gt
      have hdc : ∀ x ∈ restNF, ∀ y ∈ restNF, specRowCmp keys x y ≠ .gt → P y = true → P x = true := by
        intro x hx y hy hxy hy'
        have : specRowCmp keys y z ≠ .gt := by simpa [P] using hy'
        have := (spec_tp keys).trans x y z (memR x hx) (memR y hy) (memZ z hz) hxy this
        simpa [P] using this
      have hpre := (prefix_of_downclosed (fun x y => specRowCmp keys x y ≠ .gt) P restNF hNFsorted hdc).1
      have hcount : X.length ≤ restNF.countP P := by
        rw [hNFperm.countP_eq, List.countP_append]
        have : X.countP P = X.length := by
          rw [List.countP_eq_length]; intro x hx; simpa [P] using hXZ x hx z hz
        omega
      have := hpre u (mem_take_of_le hcount hu)
      simpa [P] using this
    · -- everything before ≤ drop
      intro u hu v hv
      rcases List.mem_append.1 hu with hu | hz
      · exact hTD u hu v hv
      · let Q : WRow → Bool := fun w => specRowCmp keys u w == .gt
        have hdc : ∀ x ∈ restNF, ∀ y ∈ restNF, specRowCmp keys x y ≠ .gt → Q y = true → Q x = true := by
          intro x hx y hy hxy hy'
          have hgt : specRowCmp keys u y = .gt := by simpa [Q] using hy'
          cases hux : specRowCmp keys u x with
          | gt => simp [Q, hux]
          | lt =>
            exfalso
            exact (spec_tp keys).trans u x y (memZ u hz) (memR x hx) (memR y hy) (by rw [hux]; decide) hxy hgt
          | eq =>
            exfalso
            exact (spec_tp keys).trans u x y (memZ u hz) (memR x hx) (memR y hy) (by rw [hux]; decide) hxy hgt
        have hsuf := (prefix_of_downclosed (fun x y => specRowCmp keys x y ≠ .gt) Q restNF hNFsorted hdc).2
        have hcount : restNF.countP Q ≤ X.length := by
          rw [hNFperm.countP_eq, List.countP_append]
          have : Y.countP Q = 0 := by
            rw [List.countP_eq_zero]; intro y hy
            have : specRowCmp keys u y ≠ .gt := hXZY u (List.mem_append_right _ hz) y hy
            simpa [Q] using this
          have := List.countP_le_length (p := Q) (l := X)
          omega
        have := hsuf v (mem_drop_of_le hcount hv)
        simpa [Q] using this
  -- assemble
  unfold specPageOk
  simp only [hne, Bool.false_eq_true, if_false, Bool.and_eq_true, decide_eq_true_eq, hsub]
  refine ⟨by rw [hpagelen, hlen_sa], ?_⟩
  rw [List.any_eq_true]
  refine ⟨X.length, List.mem_range.2 (Nat.lt_succ_of_le hp1), ?_⟩
  simp only [Bool.and_eq_true, decide_eq_true_eq]
  exact ⟨⟨hp2, hp3⟩, (specSorted_iff keys _ hcw).2 hcs⟩

/-- **the executable oracle decides the Spec of a page.** -/
theorem specPageOk_iff (keys : List SortKey) (a : List WRow) (limit offset : Option Nat) (page : List WRow)
    (hw : ∀ r ∈ a, RowWF r) :
    specPageOk keys a limit offset page = true ↔ PageSpec keys a limit offset page := by
  unfold PageSpec
  by_cases hk : keys = []
  · subst hk; simp [specPageOk]
  · simp only [hk, if_false]
    exact ⟨specPageOk_sound keys a limit offset page hw hk, specPageOk_complete keys a limit offset page hw hk⟩

end ILV
