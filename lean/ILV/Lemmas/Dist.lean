/-
  Laws of the distance functions of ILV.Model.VecOps for the loop structure of the code, from the
  float laws `FloatLaws F` (hypotheses).  Also: an exact-integer instance of `FloatOps` that
  satisfies `FloatLaws` (the laws are consistent; used for the `example`s).
-/
import ILV.Model.VecOps
import Mathlib.Tactic.Linarith
import Mathlib.Tactic.Ring
namespace ILV.VecOps
open ILV

variable {F : FloatOps}

/-- no component is a NaN / every component is finite. -/
def NoNaN (F : FloatOps) (v : List F.F32) : Prop := ∀ x ∈ v, F.isNaN32 x = false
def AllFin (F : FloatOps) (v : List F.F32) : Prop := ∀ x ∈ v, F.isFin32 x = true

theorem AllFin.noNaN (L : FloatLaws F) {v : List F.F32} (h : AllFin F v) : NoNaN F v :=
  fun x hx => L.fin_notNaN x (h x hx)

theorem ge0_64_notNaN {x : F.F64} (h : F.ge0_64 x = true) : F.isNaN64 x = false := by
  unfold FloatOps.ge0_64 at h
  cases hx : F.isNaN64 x <;> simp_all

theorem ne_comm_bool (m n : Nat) : (m != n) = (n != m) := bne_comm

/-! ### symmetry -/

theorem sumSqDiff_symm (L : FloatLaws F) : ∀ (a b : List F.F32) (acc : F.F32), NoNaN F a → NoNaN F b →
    sumSqDiff F a b acc = sumSqDiff F b a acc
  | [], [], _, _, _ => rfl
  | [], _ :: _, _, _, _ => rfl
  | _ :: _, [], _, _, _ => rfl
  | x :: xs, y :: ys, acc, ha, hb => by
    simp only [sumSqDiff]
    rw [L.sqdiff_symm x y (ha x (by simp)) (hb y (by simp))]
    exact sumSqDiff_symm L xs ys _ (fun z hz => ha z (by simp [hz])) (fun z hz => hb z (by simp [hz]))

theorem euclid_symm (L : FloatLaws F) (a b : List F.F32) (ha : NoNaN F a) (hb : NoNaN F b) :
    euclid F a b = euclid F b a := by
  unfold euclid
  rw [ne_comm_bool a.length b.length, sumSqDiff_symm L a b _ ha hb]

theorem euclidSq_symm (L : FloatLaws F) (a b : List F.F32) (ha : NoNaN F a) (hb : NoNaN F b) :
    euclidSq F a b = euclidSq F b a := by
  unfold euclidSq
  rw [ne_comm_bool a.length b.length, sumSqDiff_symm L a b _ ha hb]

theorem manhAcc_symm (L : FloatLaws F) : ∀ (a b : List F.F32) (acc : F.F64), NoNaN F a → NoNaN F b →
    manhAcc F a b acc = manhAcc F b a acc
  | [], [], _, _, _ => rfl
  | [], _ :: _, _, _, _ => rfl
  | _ :: _, [], _, _, _ => rfl
  | x :: xs, y :: ys, acc, ha, hb => by
    simp only [manhAcc]
    rw [L.absdiff_symm x y (ha x (by simp)) (hb y (by simp))]
    exact manhAcc_symm L xs ys _ (fun z hz => ha z (by simp [hz])) (fun z hz => hb z (by simp [hz]))

theorem manhattan_symm (L : FloatLaws F) (a b : List F.F32) (ha : NoNaN F a) (hb : NoNaN F b) :
    manhattan F a b = manhattan F b a := by
  unfold manhattan
  rw [ne_comm_bool a.length b.length, manhAcc_symm L a b _ ha hb]

theorem dotAcc_symm (L : FloatLaws F) : ∀ (a b : List F.F32) (acc : F.F64), NoNaN F a → NoNaN F b →
    dotAcc F a b acc = dotAcc F b a acc
  | [], [], _, _, _ => rfl
  | [], _ :: _, _, _, _ => rfl
  | _ :: _, [], _, _, _ => rfl
  | x :: xs, y :: ys, acc, ha, hb => by
    simp only [dotAcc]
    rw [L.mul64_comm _ _ (L.to64_notNaN x (ha x (by simp))) (L.to64_notNaN y (hb y (by simp)))]
    exact dotAcc_symm L xs ys _ (fun z hz => ha z (by simp [hz])) (fun z hz => hb z (by simp [hz]))

theorem dot_symm (L : FloatLaws F) (a b : List F.F32) (ha : NoNaN F a) (hb : NoNaN F b) :
    dot F a b = dot F b a := by
  unfold dot
  rw [ne_comm_bool a.length b.length, dotAcc_symm L a b _ ha hb]

/-- swapping the arguments of the single pass swaps the two norm accumulators. -/
theorem cosAcc_symm (L : FloatLaws F) : ∀ (a b : List F.F32) (d na nb : F.F32), NoNaN F a → NoNaN F b →
    cosAcc F b a (d, nb, na) = ((cosAcc F a b (d, na, nb)).1, (cosAcc F a b (d, na, nb)).2.2, (cosAcc F a b (d, na, nb)).2.1)
  | [], [], _, _, _, _, _ => rfl
  | [], _ :: _, _, _, _, _, _ => rfl
  | _ :: _, [], _, _, _, _, _ => rfl
  | x :: xs, y :: ys, d, na, nb, ha, hb => by
    simp only [cosAcc]
    rw [L.mul32_comm y x (hb y (by simp)) (ha x (by simp))]
    exact cosAcc_symm L xs ys _ _ _ (fun z hz => ha z (by simp [hz])) (fun z hz => hb z (by simp [hz]))

/-- both norm accumulators stay `≥ 0`. -/
theorem cosAcc_ge0 (L : FloatLaws F) : ∀ (a b : List F.F32) (d na nb : F.F32), NoNaN F a → NoNaN F b →
    F.ge0_32 na = true → F.ge0_32 nb = true →
    F.ge0_32 (cosAcc F a b (d, na, nb)).2.1 = true ∧ F.ge0_32 (cosAcc F a b (d, na, nb)).2.2 = true
  | [], [], _, _, _, _, _, h1, h2 => ⟨h1, h2⟩
  | [], _ :: _, _, _, _, _, _, h1, h2 => ⟨h1, h2⟩
  | _ :: _, [], _, _, _, _, _, h1, h2 => ⟨h1, h2⟩
  | x :: xs, y :: ys, d, na, nb, ha, hb, h1, h2 => by
    simp only [cosAcc]
    exact cosAcc_ge0 L xs ys _ _ _ (fun z hz => ha z (by simp [hz])) (fun z hz => hb z (by simp [hz]))
      (L.add32_ge0 _ _ h1 (L.sq_ge0 x (ha x (by simp)))) (L.add32_ge0 _ _ h2 (L.sq_ge0 y (hb y (by simp))))

theorem cosFinish_symm (L : FloatLaws F) (d na nb : F.F32) (h1 : F.ge0_32 na = true) (h2 : F.ge0_32 nb = true) :
    cosFinish F d na nb = cosFinish F d nb na := by
  unfold cosFinish
  have n1 := ge0_64_notNaN (L.sqrt_ge0 _ (L.to64_ge0 _ h1))
  have n2 := ge0_64_notNaN (L.sqrt_ge0 _ (L.to64_ge0 _ h2))
  simp only []
  rw [Bool.or_comm, L.mul64_comm _ _ n1 n2]

theorem cosine_symm (L : FloatLaws F) (a b : List F.F32) (ha : NoNaN F a) (hb : NoNaN F b) :
    cosine F a b = cosine F b a := by
  unfold cosine
  rw [ne_comm_bool a.length b.length]
  split
  · rfl
  · have hs := cosAcc_symm L a b F.zero32 F.zero32 F.zero32 ha hb
    have hg := cosAcc_ge0 L a b F.zero32 F.zero32 F.zero32 ha hb L.zero32_ge0 L.zero32_ge0
    rw [hs]
    generalize cosAcc F a b (F.zero32, F.zero32, F.zero32) = r at hg
    obtain ⟨d, na, nb⟩ := r
    exact cosFinish_symm L d na nb hg.1 hg.2

/-! ### non-negativity -/

theorem sumSqDiff_ge0 (L : FloatLaws F) : ∀ (a b : List F.F32) (acc : F.F32), AllFin F a → AllFin F b →
    F.ge0_32 acc = true → F.ge0_32 (sumSqDiff F a b acc) = true
  | [], [], _, _, _, h => h
  | [], _ :: _, _, _, _, h => h
  | _ :: _, [], _, _, _, h => h
  | x :: xs, y :: ys, acc, ha, hb, h => by
    simp only [sumSqDiff]
    exact sumSqDiff_ge0 L xs ys _ (fun z hz => ha z (by simp [hz])) (fun z hz => hb z (by simp [hz]))
      (L.add32_ge0 _ _ h (L.sq_ge0 _ (L.sub_fin x y (ha x (by simp)) (hb y (by simp)))))

theorem euclid_ge0 (L : FloatLaws F) (a b : List F.F32) (ha : AllFin F a) (hb : AllFin F b) :
    F.ge0_64 (euclid F a b) = true := by
  unfold euclid
  split
  · exact L.inf64_ge0
  · exact L.sqrt_ge0 _ (L.to64_ge0 _ (sumSqDiff_ge0 L a b _ ha hb L.negZero32_ge0))

theorem euclidSq_ge0 (L : FloatLaws F) (a b : List F.F32) (ha : AllFin F a) (hb : AllFin F b) :
    F.ge0_64 (euclidSq F a b) = true := by
  unfold euclidSq
  split
  · exact L.inf64_ge0
  · exact L.to64_ge0 _ (sumSqDiff_ge0 L a b _ ha hb L.negZero32_ge0)

theorem manhAcc_ge0 (L : FloatLaws F) : ∀ (a b : List F.F32) (acc : F.F64), AllFin F a → AllFin F b →
    F.ge0_64 acc = true → F.ge0_64 (manhAcc F a b acc) = true
  | [], [], _, _, _, h => h
  | [], _ :: _, _, _, _, h => h
  | _ :: _, [], _, _, _, h => h
  | x :: xs, y :: ys, acc, ha, hb, h => by
    simp only [manhAcc]
    exact manhAcc_ge0 L xs ys _ (fun z hz => ha z (by simp [hz])) (fun z hz => hb z (by simp [hz]))
      (L.add64_ge0 _ _ h (L.abs_ge0 _ (L.to64_notNaN _ (L.sub_fin x y (ha x (by simp)) (hb y (by simp))))))

theorem manhattan_ge0 (L : FloatLaws F) (a b : List F.F32) (ha : AllFin F a) (hb : AllFin F b) :
    F.ge0_64 (manhattan F a b) = true := by
  unfold manhattan
  split
  · exact L.inf64_ge0
  · exact manhAcc_ge0 L a b _ ha hb L.negZero64_ge0

/-! ### zero on identical inputs -/

theorem sumSqDiff_self_zero (L : FloatLaws F) : ∀ (a : List F.F32), AllFin F a →
    sumSqDiff F a a F.zero32 = F.zero32
  | [], _ => rfl
  | x :: xs, ha => by
    simp only [sumSqDiff]
    rw [L.sub_self x (ha x (by simp)), L.mul_zero_zero, L.add_zero_zero]
    exact sumSqDiff_self_zero L xs (fun z hz => ha z (by simp [hz]))

theorem sumSqDiff_self (L : FloatLaws F) (a : List F.F32) (ha : AllFin F a) :
    sumSqDiff F a a F.negZero32 = if a.isEmpty then F.negZero32 else F.zero32 := by
  cases a with
  | nil => rfl
  | cons x xs =>
    simp only [sumSqDiff, List.isEmpty_cons]
    rw [L.sub_self x (ha x (by simp)), L.mul_zero_zero, L.add_negZero_zero]
    exact sumSqDiff_self_zero L xs (fun z hz => ha z (by simp [hz]))

/-- `euclidean_distance(a, a)` is `+0.0` (`-0.0` for the empty vector). -/
theorem euclid_self (L : FloatLaws F) (a : List F.F32) (ha : AllFin F a) :
    euclid F a a = if a.isEmpty then F.negZero64 else F.zero64 := by
  unfold euclid
  simp only [bne_self_eq_false, Bool.false_eq_true, ↓reduceIte]
  rw [sumSqDiff_self L a ha]
  split
  · rw [L.to64_negZero, L.sqrt_negZero]
  · rw [L.to64_zero, L.sqrt_zero]

theorem manhAcc_self_zero (L : FloatLaws F) : ∀ (a : List F.F32), AllFin F a →
    manhAcc F a a F.zero64 = F.zero64
  | [], _ => rfl
  | x :: xs, ha => by
    simp only [manhAcc]
    rw [L.sub_self x (ha x (by simp)), L.to64_zero, L.abs_zero, L.add64_zero_zero]
    exact manhAcc_self_zero L xs (fun z hz => ha z (by simp [hz]))

/-- `manhattan_distance(a, a)` is `+0.0` (`-0.0` for the empty vector). -/
theorem manhattan_self (L : FloatLaws F) (a : List F.F32) (ha : AllFin F a) :
    manhattan F a a = if a.isEmpty then F.negZero64 else F.zero64 := by
  unfold manhattan
  simp only [bne_self_eq_false, Bool.false_eq_true, ↓reduceIte]
  cases a with
  | nil => rfl
  | cons x xs =>
    simp only [manhAcc, List.isEmpty_cons]
    rw [L.sub_self x (ha x (by simp)), L.to64_zero, L.abs_zero, L.add64_negZero_zero]
    exact manhAcc_self_zero L xs (fun z hz => ha z (by simp [hz]))

/-! ### cosine range -/

theorem cosFinish_range (L : FloatLaws F) (d na nb : F.F32) :
    F.isNaN64 (cosFinish F d na nb) = true ∨
      (F.le64 F.zero64 (cosFinish F d na nb) = true ∧ F.le64 (cosFinish F d na nb) F.two64 = true) := by
  unfold cosFinish
  simp only []
  split
  · exact Or.inr ⟨L.le64_zero_zero, L.le64_zero_two⟩
  · generalize F.div64 (F.to64 d) (F.mul64 (F.sqrt64 (F.to64 na)) (F.sqrt64 (F.to64 nb))) = sim
    obtain ⟨c1, c2, c3, c4, c5⟩ := L.lt64_irrefl_consts
    cases hn : F.isNaN64 sim with
    | true =>
      left
      have := L.lt64_nan sim F.negOne64 hn
      have h2 := L.lt64_nan sim F.one64 hn
      unfold FloatOps.clamp64
      rw [this.1, h2.2]
      simp only [Bool.false_eq_true, ↓reduceIte]
      exact L.one_sub_nan sim hn
    | false =>
      right
      unfold FloatOps.clamp64
      cases h1 : F.lt64 sim F.negOne64 with
      | true =>
        simp only [↓reduceIte]
        exact L.one_sub_range _ c5 c2 c1
      | false =>
        simp only [Bool.false_eq_true, ↓reduceIte]
        cases h2 : F.lt64 F.one64 sim with
        | true =>
          simp only [↓reduceIte]
          exact L.one_sub_range _ c4 c1 c3
        | false =>
          simp only [Bool.false_eq_true, ↓reduceIte]
          exact L.one_sub_range _ hn h1 h2

/-- `cosine_distance` of equally long vectors is a NaN or lies in `[0, 2]`. -/
theorem cosine_range (L : FloatLaws F) (a b : List F.F32) (h : a.length = b.length) :
    F.isNaN64 (cosine F a b) = true ∨
      (F.le64 F.zero64 (cosine F a b) = true ∧ F.le64 (cosine F a b) F.two64 = true) := by
  unfold cosine
  simp only [h, bne_self_eq_false, Bool.false_eq_true, ↓reduceIte]
  generalize cosAcc F a b (F.zero32, F.zero32, F.zero32) = r
  obtain ⟨d, na, nb⟩ := r
  exact cosFinish_range L d na nb

/-- all three accumulators of the single pass coincide on identical inputs. -/
theorem cosAcc_self : ∀ (a : List F.F32) (s : F.F32),
    ∃ t, cosAcc F a a (s, s, s) = (t, t, t)
  | [], s => ⟨s, rfl⟩
  | x :: xs, s => by
    simp only [cosAcc]
    exact cosAcc_self xs _

/-- the float fact behind "cosine distance of a vector to itself is ≈ 0":
    `1 - clamp(s / (√s·√s))` is within `eps` of zero for every `s` the accumulation can produce. -/
def SqrtRoundTrip (F : FloatOps) (eps : F.F64) : Prop :=
  ∀ s : F.F32, F.isNaN64 (cosFinish F s s s) = false → F.le64 (cosFinish F s s s) eps = true

theorem cosine_self (a : List F.F32) (eps : F.F64) (H : SqrtRoundTrip F eps)
    (hn : F.isNaN64 (cosine F a a) = false) : F.le64 (cosine F a a) eps = true := by
  unfold cosine at hn ⊢
  simp only [bne_self_eq_false, Bool.false_eq_true, ↓reduceIte] at hn ⊢
  obtain ⟨t, ht⟩ := cosAcc_self (F := F) a F.zero32
  rw [ht] at hn ⊢
  exact H t hn

/-! ### int8 distances: exact integer accumulation -/

theorem zipInt_symm (f : Int → Int → Int) (hf : ∀ x y, f x y = f y x) : ∀ a b : List Int, zipInt f a b = zipInt f b a
  | [], [] => rfl
  | [], _ :: _ => rfl
  | _ :: _, [] => rfl
  | x :: xs, y :: ys => by simp only [zipInt]; rw [hf x y, zipInt_symm f hf xs ys]

theorem euclidI8_symm (a b : List Int) : euclidI8 F a b = euclidI8 F b a := by
  unfold euclidI8
  rw [ne_comm_bool a.length b.length, zipInt_symm _ (fun x y => by ring) a b]

theorem dotI8_symm (a b : List Int) : dotI8 F a b = dotI8 F b a := by
  unfold dotI8
  rw [ne_comm_bool a.length b.length, zipInt_symm _ (fun x y => by ring) a b]

theorem manhattanI8_symm (a b : List Int) : manhattanI8 F a b = manhattanI8 F b a := by
  unfold manhattanI8
  rw [ne_comm_bool a.length b.length, zipInt_symm _ (fun x y => by
    show ((x - y).natAbs : Int) = ((y - x).natAbs : Int)
    rw [← Int.natAbs_neg (x - y)]; congr 2; ring) a b]

theorem zipInt_self_zero (f : Int → Int → Int) (hf : ∀ x, f x x = 0) : ∀ a : List Int, zipInt f a a = 0
  | [] => rfl
  | x :: xs => by simp only [zipInt]; rw [hf x, zipInt_self_zero f hf xs]; rfl

theorem euclidI8_self (a : List Int) : euclidI8 F a a = F.sqrt64 (F.ofInt64 0) := by
  unfold euclidI8
  simp only [bne_self_eq_false, Bool.false_eq_true, ↓reduceIte]
  rw [zipInt_self_zero _ (fun x => by ring) a]

theorem manhattanI8_self (a : List Int) : manhattanI8 F a a = F.ofInt64 0 := by
  unfold manhattanI8
  simp only [bne_self_eq_false, Bool.false_eq_true, ↓reduceIte]
  rw [zipInt_self_zero _ (fun x => by simp) a]

/-- `cosine_distance_int8` of an all-zero vector with itself is `1.0`, not `0` (vector_ops.rs:607). -/
theorem cosineI8_zero_self (n : Nat) : cosineI8 F (List.replicate n 0) (List.replicate n 0) = F.one64 := by
  unfold cosineI8
  simp only [bne_self_eq_false, Bool.false_eq_true, ↓reduceIte]
  have : zipInt (fun x _ => x * x) (List.replicate n 0) (List.replicate n 0) = 0 := by
    induction n with
    | zero => rfl
    | succ k ih => simp only [List.replicate_succ, zipInt]; rw [ih]; rfl
  simp [this]

/-! ### an exact-integer instance satisfying the laws -/

/-- integer square root by search (structural, so closed terms reduce in the kernel). -/
def isqrt (n : Nat) : Nat := (List.range (n + 1)).foldl (fun r k => if k * k ≤ n then k else r) 0

/-- integers with exact arithmetic as a (degenerate, overflow-free, NaN-free) float model. -/
def toyFloat : FloatOps where
  F32 := Int
  F64 := Int
  ofBits32 n := if n = 0x80000000 then 0 else if n = 0x7f800000 then 1000000 else if n = 0xff800000 then -1000000 else n
  bits32 x := x.toNat
  ofBits64 n := if n = 0x8000000000000000 then 0 else if n = 0x3ff0000000000000 then 1
    else if n = 0xbff0000000000000 then -1 else if n = 0x4000000000000000 then 2
    else if n = 0x7ff0000000000000 then 1000000 else n
  bits64 x := x.toNat
  add32 := (· + ·)
  sub32 := (· - ·)
  mul32 := (· * ·)
  div32 := (· / ·)
  abs32 x := x.natAbs
  round32 x := x
  sqrt32 x := (isqrt x.toNat : Nat)
  lt32 a b := decide (a < b)
  eq32 a b := decide (a = b)
  isNaN32 _ := false
  isFin32 _ := true
  toI8 x := if x < -128 then -128 else if x > 127 then 127 else x
  ofInt32 x := x
  to64 x := x
  to32 x := x
  add64 := (· + ·)
  sub64 := (· - ·)
  mul64 := (· * ·)
  div64 := (· / ·)
  abs64 x := x.natAbs
  neg64 x := -x
  sqrt64 x := (isqrt x.toNat : Nat)
  lt64 a b := decide (a < b)
  eq64 a b := decide (a = b)
  isNaN64 _ := false
  ofInt64 x := x

instance : DecidableEq toyFloat.F32 := inferInstanceAs (DecidableEq Int)
instance : DecidableEq toyFloat.F64 := inferInstanceAs (DecidableEq Int)

/-- an integer vector as a vector of the toy instance. -/
def toyVec (l : List Int) : List toyFloat.F32 := l
/-- an optional vector of the toy instance as optional integers (for decidable comparisons). -/
def toyOptVec (o : Option (List toyFloat.F32)) : Option (List Int) := o
/-- a search result of the toy instance with integer distances. -/
def toyRes (r : List (Nat × toyFloat.F64)) : List (Nat × Int) := r
/-- a result of the toy instance as an integer. -/
def toyVal (x : toyFloat.F64) : Int := x

theorem toyFloat_laws : FloatLaws toyFloat where
  mul32_comm := fun (x y : Int) _ _ => Int.mul_comm x y
  mul64_comm := fun (x y : Int) _ _ => Int.mul_comm x y
  sqdiff_symm := fun (x y : Int) _ _ => by
    show ((x : Int) - y) * (x - y) = (y - x) * (y - x); ring
  absdiff_symm := fun (x y : Int) _ _ => by
    show (((x : Int) - y).natAbs : Int) = ((y - x).natAbs : Int)
    rw [← Int.natAbs_neg (x - y)]; congr 2; ring
  sub_fin := fun _ _ _ _ => rfl
  fin_notNaN := fun _ _ => rfl
  sq_ge0 := fun (x : Int) _ => by
    show (!false && !decide ((x : Int) * x < 0)) = true
    have := mul_self_nonneg x
    simp; omega
  add32_ge0 := fun (x y : Int) hx hy => by
    have hx' : (!false && !decide ((x : Int) < 0)) = true := hx
    have hy' : (!false && !decide ((y : Int) < 0)) = true := hy
    show (!false && !decide ((x : Int) + y < 0)) = true
    simp at hx' hy' ⊢; omega
  add64_ge0 := fun (x y : Int) hx hy => by
    have hx' : (!false && !decide ((x : Int) < 0)) = true := hx
    have hy' : (!false && !decide ((y : Int) < 0)) = true := hy
    show (!false && !decide ((x : Int) + y < 0)) = true
    simp at hx' hy' ⊢; omega
  to64_ge0 := fun (x : Int) hx => hx
  to64_notNaN := fun _ _ => rfl
  sqrt_ge0 := fun (x : Int) _ => by
    show (!false && !decide (((isqrt x.toNat : Nat) : Int) < 0)) = true
    simp
  abs_ge0 := fun (x : Int) _ => by
    show (!false && !decide (((x.natAbs : Nat) : Int) < 0)) = true
    simp
  zero32_ge0 := rfl
  negZero32_ge0 := rfl
  negZero64_ge0 := rfl
  zero64_ge0 := rfl
  inf64_ge0 := rfl
  sub_self := fun (x : Int) _ => by show (x : Int) - x = 0; omega
  mul_zero_zero := rfl
  add_negZero_zero := rfl
  add_zero_zero := rfl
  to64_zero := rfl
  to64_negZero := rfl
  sqrt_zero := rfl
  sqrt_negZero := rfl
  abs_zero := rfl
  add64_negZero_zero := rfl
  add64_zero_zero := rfl
  one_sub_range := fun (c : Int) _ h1 h2 => by
    have h1' : decide ((c : Int) < -1) = false := h1
    have h2' : decide ((1 : Int) < c) = false := h2
    constructor
    · show (!false && !false && !decide ((1 : Int) - c < 0)) = true
      simp at h1' h2' ⊢; omega
    · show (!false && !false && !decide ((2 : Int) < 1 - c)) = true
      simp at h1' h2' ⊢; omega
  one_sub_nan := fun _ h => by cases h
  lt64_irrefl_consts := ⟨rfl, rfl, rfl, rfl, rfl⟩
  lt64_nan := fun _ _ h => by cases h
  le64_zero_zero := rfl
  le64_zero_two := rfl

end ILV.VecOps
