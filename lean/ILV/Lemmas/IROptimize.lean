/-
  `fuse_to_join_flatmap` and the whole `Optimizer::optimize`.
-/
import ILV.Lemmas.IRFusion
namespace ILV.IR
open ILV

theorem filterMap_congr' {α β} {f g : α → Option β} : ∀ (l : List α), (∀ x ∈ l, f x = g x) → l.filterMap f = l.filterMap g
  | [], _ => rfl
  | a :: l, h => by
    simp only [List.filterMap_cons, h a (by simp), filterMap_congr' l (fun x hx => h x (by simp [hx]))]

theorem jfm_eval {L R : List Tuple} {lk rk proj : List Nat} {fp : Option Pred} {lw : Nat}
    (hL : ∀ a ∈ L, a.length = lw) (hn : nodupNat rk = true) :
    (joinRows L R lk rk).filterMap (flatMapRow proj fp) = jfmRows L R lk rk (remapProj proj lw rk) fp := by
  unfold joinRows jfmRows
  induction L with
  | nil => rfl
  | cons a L ih =>
    have ih := ih (fun x hx => hL x (List.mem_cons_of_mem _ hx))
    simp only [List.flatMap_cons, List.filterMap_append, ih, List.filterMap_filterMap]
    congr 1
    apply filterMap_congr'
    intro b _
    rw [← hL a (by simp)]
    exact join_jfm_row lk rk proj fp a b hn

theorem map_eq_filterMap_flatMapRow (X : List Tuple) (proj : List Nat) :
    X.map (fun t => project t proj) = X.filterMap (flatMapRow proj none) := by
  induction X with
  | nil => rfl
  | cons a X ih => simp [flatMapRow, fpOk, ih]

/-- what a later fusion step needs to know when the rewritten child is a `Join` -/
def JoinFacts (db : Db) (t' : Node) : Prop :=
  ∀ l r lk rk s', t' = Node.join l r lk rk s' → (∀ a ∈ eval db l, a.length = width l) ∧ nodupNat rk = true

mutual
theorem fuseJFM_ok (db : Db) : ∀ t, wf db t = true →
    width (fuseJFM t) = width t ∧ eval db (fuseJFM t) = eval db t ∧ JoinFacts db (fuseJFM t)
  | .map i proj s, h => by
    obtain ⟨hwd, hev, hjf⟩ := fuseJFM_ok db i (wf_map h)
    simp only [fuseJFM]
    split
    · rename_i l r lk rk s' heq
      obtain ⟨hrows, hnd⟩ := hjf l r lk rk s' heq
      refine ⟨rfl, ?_, fun _ _ _ _ _ e => by cases e⟩
      simp only [eval]
      rw [← hev, heq]
      simp only [eval]
      rw [map_eq_filterMap_flatMapRow, jfm_eval hrows hnd]
    · refine ⟨rfl, by simp [eval, hev], fun _ _ _ _ _ e => by cases e⟩
  | .flatMap i proj fp s, h => by
    obtain ⟨hwd, hev, hjf⟩ := fuseJFM_ok db i (wf_flatMap h)
    simp only [fuseJFM]
    split
    · rename_i l r lk rk s' heq
      obtain ⟨hrows, hnd⟩ := hjf l r lk rk s' heq
      refine ⟨rfl, ?_, fun _ _ _ _ _ e => by cases e⟩
      simp only [eval]
      rw [← hev, heq]
      simp only [eval]
      rw [jfm_eval hrows hnd]
    · refine ⟨rfl, by simp [eval, hev], fun _ _ _ _ _ e => by cases e⟩
  | .scan .., _ => by refine ⟨by simp [fuseJFM], by simp [fuseJFM], fun _ _ _ _ _ e => by simp [fuseJFM] at e⟩
  | .filter i p, h => by
    obtain ⟨hwd, hev, _⟩ := fuseJFM_ok db i (wf_filter h)
    refine ⟨by simpa [fuseJFM, width, schema] using hwd, by simp [fuseJFM, eval, hev], fun _ _ _ _ _ e => by simp [fuseJFM] at e⟩
  | .join l r lk rk s, h => by
    obtain ⟨hwl, hel, _⟩ := fuseJFM_ok db l (wf_join h).1
    obtain ⟨_, her, _⟩ := fuseJFM_ok db r (wf_join h).2
    refine ⟨by simp [fuseJFM, width, schema], by simp [fuseJFM, eval, hel, her], ?_⟩
    intro l' r' lk' rk' s' e
    simp only [fuseJFM, Node.join.injEq] at e
    obtain ⟨rfl, _, _, rfl, _⟩ := e
    refine ⟨fun a ha => ?_, ?_⟩
    · rw [hel] at ha; rw [hwl]; exact rowsOk db l (wf_join h).1 a ha
    · simp only [wf, Bool.and_eq_true] at h; exact h.2
  | .distinct i, h => by
    obtain ⟨hwd, hev, _⟩ := fuseJFM_ok db i (wf_distinct h)
    refine ⟨by simpa [fuseJFM, width, schema] using hwd, by simp [fuseJFM, eval, hev], fun _ _ _ _ _ e => by simp [fuseJFM] at e⟩
  | .union is, h => by
    obtain ⟨hwd, hev⟩ := fuseJFML_ok db is (wf_union h)
    refine ⟨by simpa [fuseJFM, width, schema] using hwd, by simp [fuseJFM, eval, hev], fun _ _ _ _ _ e => by simp [fuseJFM] at e⟩
  | .aggregate i gb aggs s, h => by
    obtain ⟨_, hev, _⟩ := fuseJFM_ok db i (wf_aggregate h)
    refine ⟨by simp [fuseJFM, width, schema], by simp [fuseJFM, eval, hev], fun _ _ _ _ _ e => by simp [fuseJFM] at e⟩
  | .antijoin l r lk rk s, h => by
    obtain ⟨_, hel, _⟩ := fuseJFM_ok db l (wf_antijoin h).1
    obtain ⟨_, her, _⟩ := fuseJFM_ok db r (wf_antijoin h).2
    refine ⟨by simp [fuseJFM, width, schema], by simp [fuseJFM, eval, hel, her], fun _ _ _ _ _ e => by simp [fuseJFM] at e⟩
  | .compute i es, h => by
    obtain ⟨hwd, hev, _⟩ := fuseJFM_ok db i (wf_compute h)
    refine ⟨?_, by simp [fuseJFM, eval, hev], fun _ _ _ _ _ e => by simp [fuseJFM] at e⟩
    simp only [fuseJFM, width, schema, List.length_append] at hwd ⊢
    omega
  | .hnsw .., _ => by refine ⟨by simp [fuseJFM], by simp [fuseJFM], fun _ _ _ _ _ e => by simp [fuseJFM] at e⟩
  | .joinFlatMap l r lk rk proj fp s, h => by
    obtain ⟨_, hel, _⟩ := fuseJFM_ok db l (wf_joinFlatMap h).1
    obtain ⟨_, her, _⟩ := fuseJFM_ok db r (wf_joinFlatMap h).2
    refine ⟨by simp [fuseJFM, width, schema], by simp [fuseJFM, eval, hel, her], fun _ _ _ _ _ e => by simp [fuseJFM] at e⟩
theorem fuseJFML_ok (db : Db) : ∀ ts, wfL db ts = true →
    (schemaFirst (fuseJFML ts)).length = (schemaFirst ts).length ∧ evalList db (fuseJFML ts) = evalList db ts
  | .nil, _ => by simp [fuseJFML]
  | .cons t ts, h => by
    obtain ⟨hwd, hev, _⟩ := fuseJFM_ok db t (wfL_cons h).1
    obtain ⟨_, hevs⟩ := fuseJFML_ok db ts (wfL_cons h).2
    exact ⟨by simpa [fuseJFML, schemaFirst, width] using hwd, by simp [fuseJFML, evalList, hev, hevs]⟩
end

/-- `Optimizer::optimize` preserves the rows of every well-formed tree on which no round takes the
    defective push-down branch. -/
theorem optimize_eval (db : Db) (t : Node) (h : wf db t = true) : eval db (optimize t) = eval db t := by
  have h1 := iter_applyAll_ok db 10 t h
  have h2 := fuseFlatMap_ok db _ h1.w
  have h3 := fuseJFM_ok db _ h2.w
  unfold optimize
  rw [h3.2.1, h2.ev, h1.ev]

end ILV.IR
