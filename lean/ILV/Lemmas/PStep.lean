/-
  Invariants of the persist-layer step system (ILV.Model.PStep) used by Props/C15.
-/
import ILV.Model.PStep
namespace ILV.PStep

@[simp] theorem setThread_same (ts : Tid → Thread) (t : Tid) (v : Thread) : setThread ts t v t = v := by
  simp [setThread]
theorem setThread_other (ts : Tid → Thread) {t i : Tid} (v : Thread) (h : i ≠ t) : setThread ts t v i = ts i := by
  simp [setThread, h]
@[simp] theorem setShard_same (f : Shard → ShardSt) (s : Shard) (v : ShardSt) : setShard f s v s = v := by
  simp [setShard]
theorem setShard_other (f : Shard → ShardSt) {s x : Shard} (v : ShardSt) (h : x ≠ s) : setShard f s v x = f x := by
  simp [setShard, h]

/-- the update is held by the shard (buffer or a batch) -/
def StoredIn (sh : Shard → ShardSt) (s : Shard) (u : Upd) : Prop :=
  u ∈ (sh s).buffer ∨ u ∈ (sh s).batches.flatten

abbrev Stored (st : State) (s : Shard) (u : Upd) : Prop := StoredIn st.shards s u

theorem mem_walRemove {wal : List (Shard × Upd)} {s s' : Shard} {u : Upd} :
    (s, u) ∈ walRemove wal s' ↔ (s, u) ∈ wal ∧ s ≠ s' := by
  simp [walRemove]

theorem ackedOf_finish (th : Thread) (op : Op) (rest : List Op) (ok : Bool) (h : th.todo = op :: rest) (s : Shard) :
    ackedOf (th.finish ok) s = ackedOf th s ++ ackNew s (op, ok) := by
  simp [Thread.finish, h, ackedOf]

theorem mem_ackNew {s : Shard} {u : Upd} {op : Op} {ok : Bool} (h : u ∈ ackNew s (op, ok)) :
    ∃ us, op = .append s us ∧ ok = true ∧ u ∈ us := by
  cases op with
  | flush s' => simp [ackNew] at h
  | append s' us =>
    cases ok with
    | false => simp [ackNew] at h
    | true =>
      simp only [ackNew] at h
      by_cases hs : s' = s
      · subst hs; simp at h; exact ⟨us, rfl, rfl, h⟩
      · simp [hs] at h

theorem finish_todo (th : Thread) (op : Op) (rest : List Op) (ok : Bool) (h : th.todo = op :: rest) :
    (th.finish ok).todo = rest ∧ (th.finish ok).pc = .start := by
  unfold Thread.finish; rw [h]; simp

structure Inv (st : State) : Prop where
  mid : ∀ i s us rest, i < st.n → (st.threads i).pc = .appAfterWal →
          (st.threads i).todo = .append s us :: rest → ∀ u ∈ us, (s, u) ∈ st.wal
  buf : ∀ s u, u ∈ (st.shards s).buffer → (s, u) ∈ st.wal
  pushed : ∀ i s us rest, i < st.n → (st.threads i).todo = .append s us :: rest →
          ((∃ b, (st.threads i).pc = .appAfterBuf b) ∨ (st.threads i).pc = .flushHold) → ∀ u ∈ us, Stored st s u
  ack : ∀ i s u, i < st.n → u ∈ ackedOf (st.threads i) s → Stored st s u
  hold : ∀ i, i < st.n → (st.threads i).pc = .flushHold →
          st.lock = some i ∧ ∃ op rest, (st.threads i).todo = op :: rest ∧ (st.shards (opShard op)).buffer = []

theorem inv_init (progs : List (List Op)) (pre : List Shard) : Inv (init progs pre) := by
  constructor
  · intro i s us rest _ hpc; simp [init] at hpc
  · intro s u h; simp only [init] at h; split at h <;> simp at h
  · intro i s us rest _ _ hpc; simp [init] at hpc
  · intro i s u _ h; simp [init, ackedOf] at h
  · intro i _ hpc; simp [init] at hpc

/-! ### the six state transformers of `step` -/

/-- the thread finishes its operation without touching wal/shards/lock -/
theorem inv_finish {st : State} {t : Tid} {op : Op} {rest : List Op} {ok : Bool} (h : Inv st) (ht : t < st.n)
    (htodo : (st.threads t).todo = op :: rest) (hpc : (st.threads t).pc ≠ .flushHold)
    (hst : ∀ s us, op = .append s us → ok = true → ∀ u ∈ us, Stored st s u) :
    Inv { st with threads := setThread st.threads t ((st.threads t).finish ok) } := by
  have hf := finish_todo _ _ _ ok htodo
  constructor
  · intro i s us rest' hi hpc' htd
    by_cases hit : i = t
    · subst hit; simp only [setThread_same] at hpc'; rw [hf.2] at hpc'; cases hpc'
    · simp only [setThread_other _ _ hit] at hpc' htd; exact h.mid i s us rest' hi hpc' htd
  · exact h.buf
  · intro i s us rest' hi htd hpc'
    by_cases hit : i = t
    · subst hit; simp only [setThread_same] at hpc'; rw [hf.2] at hpc'
      rcases hpc' with ⟨b, hb⟩ | hb <;> cases hb
    · simp only [setThread_other _ _ hit] at hpc' htd; exact h.pushed i s us rest' hi htd hpc'
  · intro i s u hi hu
    by_cases hit : i = t
    · subst hit; simp only [setThread_same] at hu
      rw [ackedOf_finish _ _ _ _ htodo] at hu
      rcases List.mem_append.mp hu with hu1 | hu2
      · exact h.ack i s u hi hu1
      · obtain ⟨us, hop, hok, hmem⟩ := mem_ackNew hu2
        exact hst s us hop hok u hmem
    · simp only [setThread_other _ _ hit] at hu; exact h.ack i s u hi hu
  · intro i hi hpc'
    by_cases hit : i = t
    · subst hit; simp only [setThread_same] at hpc'; rw [hf.2] at hpc'; cases hpc'
    · simp only [setThread_other _ _ hit] at hpc' ⊢; exact h.hold i hi hpc'

/-- append, step 1: WAL section -/
theorem inv_wal {st : State} {t : Tid} {s : Shard} {us : List Upd} {rest : List Op} {th' : Thread} (h : Inv st) (ht : t < st.n)
    (htodo : (st.threads t).todo = .append s us :: rest) (hpc : (st.threads t).pc = .start)
    (h1 : th'.todo = (st.threads t).todo) (h2 : th'.pc = .appAfterWal) (h3 : th'.done = (st.threads t).done) :
    Inv { st with wal := st.wal ++ us.map (fun u => (s, u)), threads := setThread st.threads t th' } := by
  constructor
  · intro i s' us' rest' hi hpc' htd u hu
    by_cases hit : i = t
    · subst hit; simp only [setThread_same] at htd
      rw [h1, htodo] at htd; cases htd
      exact List.mem_append.mpr (Or.inr (List.mem_map.mpr ⟨u, hu, rfl⟩))
    · simp only [setThread_other _ _ hit] at hpc' htd
      exact List.mem_append.mpr (Or.inl (h.mid i s' us' rest' hi hpc' htd u hu))
  · intro s' u hu; exact List.mem_append.mpr (Or.inl (h.buf s' u hu))
  · intro i s' us' rest' hi htd hpc'
    by_cases hit : i = t
    · subst hit; simp only [setThread_same] at hpc'; rw [h2] at hpc'
      rcases hpc' with ⟨b, hb⟩ | hb <;> cases hb
    · simp only [setThread_other _ _ hit] at hpc' htd; exact h.pushed i s' us' rest' hi htd hpc'
  · intro i s' u hi hu
    by_cases hit : i = t
    · subst hit; simp only [setThread_same, ackedOf, h3] at hu; exact h.ack i s' u hi hu
    · simp only [setThread_other _ _ hit] at hu; exact h.ack i s' u hi hu
  · intro i hi hpc'
    by_cases hit : i = t
    · subst hit; simp only [setThread_same] at hpc'; rw [h2] at hpc'; cases hpc'
    · simp only [setThread_other _ _ hit] at hpc' ⊢; exact h.hold i hi hpc'

theorem no_holder {st : State} (h : Inv st) (hl : st.lock = none) (i : Tid) (hi : i < st.n) :
    (st.threads i).pc ≠ .flushHold := by
  intro hpc; have := (h.hold i hi hpc).1; rw [hl] at this; cases this

/-- append, step 2: buffer section -/
theorem inv_push {st : State} {t : Tid} {s : Shard} {us : List Upd} {rest : List Op} {b : Bool} {th' : Thread} {sh' : ShardSt}
    (h : Inv st) (ht : t < st.n)
    (htodo : (st.threads t).todo = .append s us :: rest) (hpc : (st.threads t).pc = .appAfterWal)
    (hl : st.lock = none)
    (h1 : th'.todo = (st.threads t).todo) (h2 : th'.pc = .appAfterBuf b) (h3 : th'.done = (st.threads t).done)
    (g1 : sh'.buffer = (st.shards s).buffer ++ us) (g2 : sh'.batches = (st.shards s).batches) :
    Inv { st with shards := setShard st.shards s sh', threads := setThread st.threads t th' } := by
  have mono : ∀ s' u, StoredIn st.shards s' u → StoredIn (setShard st.shards s sh') s' u := by
    intro s' u hu
    unfold StoredIn at hu ⊢
    by_cases hs : s' = s
    · subst hs; simp only [setShard_same, g1, g2]
      rcases hu with hu | hu
      · exact Or.inl (List.mem_append.mpr (Or.inl hu))
      · exact Or.inr hu
    · simp only [setShard_other _ _ hs]; exact hu
  constructor
  · intro i s' us' rest' hi hpc' htd
    by_cases hit : i = t
    · subst hit; simp only [setThread_same] at hpc'; rw [h2] at hpc'; cases hpc'
    · simp only [setThread_other _ _ hit] at hpc' htd; exact h.mid i s' us' rest' hi hpc' htd
  · intro s' u hu
    by_cases hs : s' = s
    · subst hs; simp only [setShard_same, g1] at hu
      rcases List.mem_append.mp hu with hu | hu
      · exact h.buf s' u hu
      · exact h.mid t s' us rest ht hpc htodo u hu
    · simp only [setShard_other _ _ hs] at hu; exact h.buf s' u hu
  · intro i s' us' rest' hi htd hpc' u hu
    by_cases hit : i = t
    · subst hit; simp only [setThread_same] at htd
      rw [h1, htodo] at htd; cases htd
      show StoredIn _ _ _
      unfold StoredIn; simp only [setShard_same, g1]
      exact Or.inl (List.mem_append.mpr (Or.inr hu))
    · simp only [setThread_other _ _ hit] at hpc' htd; exact mono s' u (h.pushed i s' us' rest' hi htd hpc' u hu)
  · intro i s' u hi hu
    by_cases hit : i = t
    · subst hit; simp only [setThread_same, ackedOf, h3] at hu; exact mono s' u (h.ack i s' u hi hu)
    · simp only [setThread_other _ _ hit] at hu; exact mono s' u (h.ack i s' u hi hu)
  · intro i hi hpc'
    by_cases hit : i = t
    · subst hit; simp only [setThread_same] at hpc'; rw [h2] at hpc'; cases hpc'
    · simp only [setThread_other _ _ hit] at hpc'; exact absurd hpc' (no_holder h hl i hi)

/-- moving the buffer of `s` into a new batch keeps every update stored -/
theorem stored_flush {st : State} {s : Shard} (shards' : Shard → ShardSt)
    (hsh : shards' = setShard st.shards s { st.shards s with batches := (st.shards s).batches ++ [(st.shards s).buffer], buffer := [] })
    (s' : Shard) (u : Upd) (hu : StoredIn st.shards s' u) : StoredIn shards' s' u := by
  subst hsh
  unfold StoredIn at hu ⊢
  by_cases hs : s' = s
  · subst hs; simp only [setShard_same]
    right; simp only [List.flatten_append, List.flatten_cons, List.flatten_nil, List.append_nil]
    rcases hu with hu | hu
    · exact List.mem_append.mpr (Or.inr hu)
    · exact List.mem_append.mpr (Or.inl hu)
  · simp only [setShard_other _ _ hs]; exact hu

/-- flush, first part, fine mode: batch + meta written, lock kept -/
theorem inv_flushFine {st : State} {t : Tid} {op : Op} {rest : List Op} (h : Inv st) (ht : t < st.n)
    (htodo : (st.threads t).todo = op :: rest)
    (hpc : ∀ s us, op = .append s us → ∃ b, (st.threads t).pc = .appAfterBuf b)
    (hl : st.lock = none) :
    Inv { st with shards := setShard st.shards (opShard op) { st.shards (opShard op) with batches := (st.shards (opShard op)).batches ++ [(st.shards (opShard op)).buffer], buffer := [] },
                  lock := some t,
                  threads := setThread st.threads t { st.threads t with pc := .flushHold } } := by
  have mono := fun s' u hu => stored_flush (st := st) (s := opShard op) _ rfl s' u hu
  constructor
  · intro i s' us' rest' hi hpc' htd
    by_cases hit : i = t
    · subst hit; simp only [setThread_same] at hpc'; cases hpc'
    · simp only [setThread_other _ _ hit] at hpc' htd; exact h.mid i s' us' rest' hi hpc' htd
  · intro s' u hu
    by_cases hs : s' = opShard op
    · subst hs; simp only [setShard_same] at hu; cases hu
    · simp only [setShard_other _ _ hs] at hu; exact h.buf s' u hu
  · intro i s' us' rest' hi htd hpc' u hu
    by_cases hit : i = t
    · subst hit; simp only [setThread_same] at htd
      rw [htodo] at htd
      obtain ⟨b, hb⟩ := hpc s' us' (by cases htd; rfl)
      exact mono s' u (h.pushed i s' us' rest hi (by rw [htodo]; cases htd; rfl) (Or.inl ⟨b, hb⟩) u hu)
    · simp only [setThread_other _ _ hit] at hpc' htd; exact mono s' u (h.pushed i s' us' rest' hi htd hpc' u hu)
  · intro i s' u hi hu
    by_cases hit : i = t
    · subst hit; simp only [setThread_same] at hu; exact mono s' u (h.ack i s' u hi hu)
    · simp only [setThread_other _ _ hit] at hu; exact mono s' u (h.ack i s' u hi hu)
  · intro i hi hpc'
    by_cases hit : i = t
    · subst hit
      exact ⟨rfl, op, rest, by simp [htodo], by simp⟩
    · simp only [setThread_other _ _ hit] at hpc'; exact absurd hpc' (no_holder h hl i hi)

/-- flush, second part: WAL rewritten without the shard's entries, lock released, call returns -/
theorem inv_flushHold {st : State} {t : Tid} {op : Op} {rest : List Op} (h : Inv st) (ht : t < st.n)
    (htodo : (st.threads t).todo = op :: rest) (hpc : (st.threads t).pc = .flushHold)
    (hz : ∀ i, i < st.n → midAppend (st.threads i) (opShard op) = false) :
    Inv { st with wal := walRemove st.wal (opShard op), lock := none,
                  threads := setThread st.threads t ((st.threads t).finish true) } := by
  have hf := finish_todo _ _ _ true htodo
  have hh := h.hold t ht hpc
  constructor
  · intro i s' us' rest' hi hpc' htd u hu
    by_cases hit : i = t
    · subst hit; simp only [setThread_same] at hpc'; rw [hf.2] at hpc'; cases hpc'
    · simp only [setThread_other _ _ hit] at hpc' htd
      have hne : s' ≠ opShard op := by
        intro he
        have := hz i hi
        simp [midAppend, hpc', htd, he] at this
      exact mem_walRemove.mpr ⟨h.mid i s' us' rest' hi hpc' htd u hu, hne⟩
  · intro s' u hu
    by_cases hs : s' = opShard op
    · obtain ⟨_, op', rest'', htd', hb⟩ := hh
      rw [htodo] at htd'; cases htd'
      subst hs; rw [hb] at hu; cases hu
    · exact mem_walRemove.mpr ⟨h.buf s' u hu, hs⟩
  · intro i s' us' rest' hi htd hpc'
    by_cases hit : i = t
    · subst hit; simp only [setThread_same] at hpc'; rw [hf.2] at hpc'
      rcases hpc' with ⟨b, hb⟩ | hb <;> cases hb
    · simp only [setThread_other _ _ hit] at hpc' htd; exact h.pushed i s' us' rest' hi htd hpc'
  · intro i s u hi hu
    by_cases hit : i = t
    · subst hit; simp only [setThread_same] at hu
      rw [ackedOf_finish _ _ _ _ htodo] at hu
      rcases List.mem_append.mp hu with hu1 | hu2
      · exact h.ack i s u hi hu1
      · obtain ⟨us, hop, _, hmem⟩ := mem_ackNew hu2
        subst hop
        exact h.pushed i s us rest hi htodo (Or.inr hpc) u hmem
    · simp only [setThread_other _ _ hit] at hu; exact h.ack i s u hi hu
  · intro i hi hpc'
    by_cases hit : i = t
    · subst hit; simp only [setThread_same] at hpc'; rw [hf.2] at hpc'; cases hpc'
    · simp only [setThread_other _ _ hit] at hpc'
      have h1 := (h.hold i hi hpc').1
      rw [hh.1] at h1; cases h1; exact absurd rfl hit

theorem setThread_twice (ts : Tid → Thread) (t : Tid) (a b : Thread) :
    setThread (setThread ts t a) t b = setThread ts t b := by
  funext x; by_cases h : x = t <;> simp [setThread, h]

theorem state_lock_eta (st : State) (A : Shard → ShardSt) (B : List (Shard × Upd)) (C : Tid → Thread) (hl : st.lock = none) :
    ({ st with shards := A, wal := B, threads := C } : State) = { st with shards := A, wal := B, lock := none, threads := C } := by
  cases st; simp only at hl; subst hl; rfl

/-- flush in coarse mode = both parts in one step -/
theorem inv_flushCoarse {st : State} {t : Tid} {op : Op} {rest : List Op} (h : Inv st) (ht : t < st.n)
    (htodo : (st.threads t).todo = op :: rest)
    (hpc : ∀ s us, op = .append s us → ∃ b, (st.threads t).pc = .appAfterBuf b)
    (hl : st.lock = none)
    (hz : ∀ i, i < st.n → midAppend (st.threads i) (opShard op) = false) :
    Inv { st with shards := setShard st.shards (opShard op) { st.shards (opShard op) with batches := (st.shards (opShard op)).batches ++ [(st.shards (opShard op)).buffer], buffer := [] },
                  wal := walRemove st.wal (opShard op),
                  threads := setThread st.threads t ((st.threads t).finish true) } := by
  rw [state_lock_eta _ _ _ _ hl]
  have h1 := inv_flushFine h ht htodo hpc hl
  have hne : ∀ i, i < st.n → midAppend (setThread st.threads t { st.threads t with pc := .flushHold } i) (opShard op) = false := by
    intro i hi
    by_cases hit : i = t
    · subst hit; simp [midAppend]
    · rw [setThread_other _ _ hit]; exact hz i hi
  have h2 := inv_flushHold (t := t) (op := op) (rest := rest) h1 ht (by simp [htodo]) (by simp) hne
  have e : ({ st.threads t with pc := Pc.flushHold } : Thread).finish true = (st.threads t).finish true := by
    simp [Thread.finish, htodo]
  simp only [setThread_same, setThread_twice, e] at h2
  exact h2

theorem hazard_false_mid {cfg : Cfg} {st : State} {t : Tid} {s : Shard}
    (hr : rewritesWalOf cfg st t = some s) (hz : hazard cfg st t = false) :
    ∀ i, i < st.n → midAppend (st.threads i) s = false := by
  intro i hi
  unfold hazard at hz
  rw [hr] at hz
  simp only [List.any_eq_false, List.mem_range] at hz
  simpa using hz i hi

theorem lock_none_of {st : State} (h : ¬ st.lock.isSome = true) : st.lock = none := by
  cases hq : st.lock with
  | none => rfl
  | some x => rw [hq] at h; simp at h

/-- `flushEnter` preserves the invariant when the step is not hazardous -/
theorem flushEnter_inv {cfg : Cfg} {st : State} {t : Tid} {op : Op} {rest : List Op} (h : Inv st) (ht : t < st.n)
    (htodo : (st.threads t).todo = op :: rest)
    (hpc : ∀ s us, op = .append s us → ∃ b, (st.threads t).pc = .appAfterBuf b)
    (hpc2 : (st.threads t).pc ≠ .flushHold)
    (hl : st.lock = none)
    (hz : cfg.fine = false → (st.shards (opShard op)).present = true → (st.shards (opShard op)).buffer ≠ [] →
            ∀ i, i < st.n → midAppend (st.threads i) (opShard op) = false) :
    Inv (flushEnter cfg st t (st.threads t) (opShard op)) := by
  have hstored : ∀ s us, op = .append s us → ∀ u ∈ us, Stored st s u := by
    intro s us he u hu
    obtain ⟨b, hb⟩ := hpc s us he
    exact h.pushed t s us rest ht (by rw [htodo, he]) (Or.inl ⟨b, hb⟩) u hu
  unfold flushEnter
  simp only
  split
  · exact inv_finish h ht htodo hpc2 (by intro _ _ _ hk; cases hk)
  · rename_i hpres
    split
    · exact inv_finish h ht htodo hpc2 (by intro s us he _ u hu; exact hstored s us he u hu)
    · rename_i hbuf
      split
      · exact inv_flushFine h ht htodo hpc hl
      · rename_i hfine
        refine inv_flushCoarse h ht htodo hpc hl (hz (by simpa using hfine) (by simpa using hpres) ?_)
        intro he; rw [he] at hbuf; simp at hbuf

/-- every enabled, non-hazardous step preserves the invariant -/
theorem step_inv {cfg : Cfg} {st st' : State} {t : Tid} (h : Inv st) (hs : step cfg st t = .ok st')
    (hz : hazard cfg st t = false) : Inv st' := by
  by_cases htn : t ≥ st.n
  · simp [step, htn] at hs
  have ht : t < st.n := Nat.lt_of_not_le htn
  cases htodo : (st.threads t).todo with
  | nil => simp [step, htn, htodo] at hs
  | cons op rest =>
    cases hpc : (st.threads t).pc with
    | start =>
      cases op with
      | append s us =>
        simp only [step, htn, htodo, hpc, if_false] at hs
        split at hs
        · rename_i hemp
          cases hs
          exact inv_finish h ht htodo (by rw [hpc]; simp) (by
            intro s' us' he _ u hu; cases he; simp at hemp; subst hemp; cases hu)
        · cases hs
          exact inv_wal h ht htodo hpc htodo.symm rfl rfl
      | flush s =>
        simp only [step, htn, htodo, hpc, if_false] at hs
        split at hs
        · cases hs
        · rename_i hl
          have hl' := lock_none_of hl
          cases hs
          refine flushEnter_inv (op := .flush s) h ht htodo (by intro _ _ he; cases he) (by rw [hpc]; simp) hl' ?_
          intro hfine hpres hbuf
          have hr : rewritesWalOf cfg st t = some s := by
            simp [rewritesWalOf, htn, htodo, hpc, hfine, hl']
            exact ⟨by simpa [opShard] using hpres, by simpa [opShard] using hbuf⟩
          exact hazard_false_mid hr hz
    | appAfterWal =>
      cases op with
      | append s us =>
        simp only [step, htn, htodo, hpc, if_false] at hs
        split at hs
        · cases hs
        · rename_i hl
          cases hs
          exact inv_push h ht htodo hpc (lock_none_of hl) htodo.symm rfl rfl rfl rfl
      | flush s => simp [step, htn, htodo, hpc] at hs
    | appAfterBuf b =>
      cases op with
      | append s us =>
        cases b with
        | false =>
          simp only [step, htn, htodo, hpc, if_false] at hs
          cases hs
          exact inv_finish h ht htodo (by rw [hpc]; simp) (by
            intro s' us' he _ u hu; cases he
            exact h.pushed t s us rest ht htodo (Or.inl ⟨false, hpc⟩) u hu)
        | true =>
          simp only [step, htn, htodo, hpc, if_false] at hs
          split at hs
          · cases hs
          · rename_i hl
            have hl' := lock_none_of hl
            cases hs
            refine flushEnter_inv (op := .append s us) h ht htodo (by intro _ _ _; exact ⟨true, hpc⟩) (by rw [hpc]; simp) hl' ?_
            intro hfine hpres hbuf
            have hr : rewritesWalOf cfg st t = some s := by
              simp [rewritesWalOf, htn, htodo, hpc, hfine, hl']
              simpa [opShard] using hbuf
            exact hazard_false_mid hr hz
      | flush s => cases b <;> simp [step, htn, htodo, hpc] at hs
    | flushHold =>
      simp only [step, htn, htodo, hpc, if_false] at hs
      cases hs
      have hr : rewritesWalOf cfg st t = some (opShard op) := by
        simp [rewritesWalOf, htn, htodo, hpc]
      exact inv_flushHold h ht htodo hpc (hazard_false_mid hr hz)

theorem trace_inv (cfg : Cfg) : ∀ (sched : List Tid) (st : State), Inv st → hazardous cfg st sched = false →
    ∀ st' ∈ trace cfg st sched, Inv st' := by
  intro sched
  induction sched with
  | nil => intro st h _ st' hm; simp [trace] at hm; subst hm; exact h
  | cons t ts ih =>
    intro st h hz st' hm
    unfold hazardous at hz
    simp only [Bool.or_eq_false_iff] at hz
    unfold trace at hm
    split at hm
    · rename_i st2 hs
      rw [hs] at hz
      rcases List.mem_cons.mp hm with hm | hm
      · subst hm; exact h
      · exact ih st2 (step_inv h hs hz.1) hz.2 st' hm
    · rename_i hs
      rw [hs] at hz
      rcases List.mem_cons.mp hm with hm | hm
      · subst hm; exact h
      · exact ih st h hz.2 st' hm
    · simp at hm; subst hm; exact h

/-- an acknowledged update is served after a restart from the disk state -/
theorem inv_durable {st : State} (h : Inv st) (s : Shard) (u : Upd) (hu : u ∈ acked st s) : u ∈ recovered st s := by
  unfold acked at hu
  obtain ⟨i, hi, hu⟩ := List.mem_flatMap.mp hu
  have hi' : i < st.n := List.mem_range.mp hi
  unfold recovered diskBatches diskWal
  rcases h.ack i s u hi' hu with hb | hb
  · refine List.mem_append.mpr (Or.inr (List.mem_map.mpr ⟨(s, u), ?_, rfl⟩))
    exact List.mem_filter.mpr ⟨h.buf s u hb, by simp⟩
  · exact List.mem_append.mpr (Or.inl hb)

/-- last state of a run -/
def lastState (cfg : Cfg) : State → List Tid → State
  | st, [] => st
  | st, t :: ts =>
    match step cfg st t with
    | .ok st' => lastState cfg st' ts
    | .skip => lastState cfg st ts
    | .blocked => st

theorem lastState_mem (cfg : Cfg) : ∀ (sched : List Tid) (st : State), lastState cfg st sched ∈ trace cfg st sched := by
  intro sched
  induction sched with
  | nil => intro st; simp [lastState, trace]
  | cons t ts ih =>
    intro st
    cases hs : step cfg st t with
    | ok st' => simp only [lastState, trace, hs]; exact List.mem_cons_of_mem _ (ih _)
    | skip => simp only [lastState, trace, hs]; exact List.mem_cons_of_mem _ (ih _)
    | blocked => simp [lastState, trace, hs]

/-! ### the served state changes only by whole appends, in the order of their buffer sections -/

/-- the batch that thread `t`'s next step pushes into a buffer, if that step is a buffer section -/
def pushOf (st : State) (t : Tid) (s : Shard) : List Upd :=
  if t ≥ st.n then [] else
  match (st.threads t).pc, (st.threads t).todo with
  | .appAfterWal, .append s' us :: _ => if s' = s then us else []
  | _, _ => []

theorem served_flushEnter (cfg : Cfg) (st : State) (t : Tid) (th : Thread) (s s' : Shard) :
    served (flushEnter cfg st t th s) s' = served st s' := by
  unfold flushEnter
  simp only
  split
  · rfl
  · split
    · rfl
    · split <;>
      · unfold served
        by_cases hs : s' = s
        · subst hs; simp [setShard_same]
        · simp [setShard_other _ _ hs]

theorem served_step {cfg : Cfg} {st st' : State} {t : Tid} (hs : step cfg st t = .ok st') (s : Shard) :
    served st' s = served st s ++ pushOf st t s := by
  by_cases htn : t ≥ st.n
  · simp [step, htn] at hs
  cases htodo : (st.threads t).todo with
  | nil => simp [step, htn, htodo] at hs
  | cons op rest =>
    cases hpc : (st.threads t).pc with
    | start =>
      cases op with
      | append s' us =>
        simp only [step, htn, htodo, hpc, if_false] at hs
        split at hs <;> cases hs <;> simp [served, pushOf, htn, htodo, hpc]
      | flush s' =>
        simp only [step, htn, htodo, hpc, if_false] at hs
        split at hs
        · cases hs
        · cases hs; simp [served_flushEnter, pushOf, htn, htodo, hpc]
    | appAfterWal =>
      cases op with
      | append s' us =>
        simp only [step, htn, htodo, hpc, if_false] at hs
        split at hs
        · cases hs
        · cases hs
          by_cases he : s = s'
          · subst he; simp [served, pushOf, htn, htodo, hpc, setShard_same]
          · have he' : ¬ s' = s := fun h => he h.symm
            simp [served, pushOf, htn, htodo, hpc, setShard_other _ _ he, he']
      | flush s' => simp [step, htn, htodo, hpc] at hs
    | appAfterBuf b =>
      cases op with
      | append s' us =>
        cases b with
        | false =>
          simp only [step, htn, htodo, hpc, if_false] at hs
          cases hs; simp [served, pushOf, htn, htodo, hpc]
        | true =>
          simp only [step, htn, htodo, hpc, if_false] at hs
          split at hs
          · cases hs
          · cases hs; simp [served_flushEnter, pushOf, htn, htodo, hpc]
      | flush s' => cases b <;> simp [step, htn, htodo, hpc] at hs
    | flushHold =>
      simp only [step, htn, htodo, hpc, if_false] at hs
      cases hs; simp [served, pushOf, htn, htodo, hpc]

/-- concatenation of the appended batches of shard `s`, in the order of their buffer sections -/
def linearized (cfg : Cfg) : State → List Tid → Shard → List Upd
  | _, [], _ => []
  | st, t :: ts, s =>
    match step cfg st t with
    | .ok st' => pushOf st t s ++ linearized cfg st' ts s
    | .skip => linearized cfg st ts s
    | .blocked => []

theorem served_linearized (cfg : Cfg) : ∀ (sched : List Tid) (st : State) (s : Shard),
    served (lastState cfg st sched) s = served st s ++ linearized cfg st sched s := by
  intro sched
  induction sched with
  | nil => intro st s; simp [lastState, linearized]
  | cons t ts ih =>
    intro st s
    cases hs : step cfg st t with
    | ok st' => simp only [lastState, linearized, hs]; rw [ih, served_step hs, List.append_assoc]
    | skip => simp only [lastState, linearized, hs]; exact ih st s
    | blocked => simp [lastState, linearized, hs]

end ILV.PStep
