/-
  Fix-point composition of the rewrite rules, and the two fusion passes
  (`fuse_to_flatmap`, `fuse_to_join_flatmap` with `remap_projection_for_join_flatmap`).
-/
import ILV.Lemmas.IROptRules2
namespace ILV.IR
open ILV

/-! ### `apply_all_rules` and its iteration -/

theorem applyAll_ok (db : Db) (t : Node) (h : wf db t = true) : Ok db t (applyAll t) := by
  have h1 := elimIdMaps_ok db t h
  have h2 := elimTrue_ok db _ h1.w
  have h3 := elimFalse_ok db _ h2.w
  have h4 := fuseMaps_ok db _ h3.w
  have h5 := fuseFilters_ok db _ h4.w
  have h6 := pushdown_ok db _ h5.w
  have h7 := elimEmpty_ok db _ h6.w
  exact (((((h1.trans h2).trans h3).trans h4).trans h5).trans h6).trans h7

theorem iter_applyAll_ok (db : Db) : ∀ n t, wf db t = true → Ok db t (iter applyAll n t)
  | 0, _, h => Ok.refl h
  | n + 1, t, h => by
    have h1 := applyAll_ok db t h
    exact h1.trans (iter_applyAll_ok db n (applyAll t) h1.w)

/-- generic: iterating a denotation-preserving step any number of times preserves the denotation -/
theorem iterate_preserves {α β} (f : α → α) (den : α → β) (inv : α → Prop)
    (step : ∀ x, inv x → inv (f x) ∧ den (f x) = den x) : ∀ n x, inv x → inv (iter f n x) ∧ den (iter f n x) = den x
  | 0, _, h => ⟨h, rfl⟩
  | n + 1, x, h => by
    have h1 := step x h
    have h2 := iterate_preserves f den inv step n (f x) h1.1
    exact ⟨h2.1, h2.2.trans h1.2⟩

/-! ### map/filter fusion into `FlatMap` -/

theorem filterMap_flatMapRow (l : List Tuple) (proj : List Nat) (p : Pred) :
    l.filterMap (flatMapRow proj (some p)) = (l.map (fun t => project t proj)).filter (fun t => p.eval t) := by
  induction l with
  | nil => rfl
  | cons a l ih =>
    simp only [List.filterMap_cons, List.map_cons, List.filter_cons, flatMapRow, fpOk]
    by_cases hp : p.eval (project a proj) = true
    · simp only [hp, ↓reduceIte]
      rw [← ih]
    · simp only [hp]
      rw [← ih]; simp

mutual
theorem fuseFlatMap_ok (db : Db) : ∀ t, wf db t = true → Ok db t (fuseFlatMap t)
  | .filter i p, h => by
    have hi := fuseFlatMap_ok db i (wf_filter h)
    simp only [fuseFlatMap]
    split
    · rename_i ii proj s' heq
      rw [heq] at hi
      refine ⟨by simpa [wf] using hi.w, by simpa [width, schema] using hi.wd, ?_⟩
      simp only [eval, filterMap_flatMapRow]
      rw [← hi.ev]
      simp [eval]
    · exact Ok.filter h hi
  | .scan .., h => by simpa [fuseFlatMap] using Ok.refl h
  | .map i proj s, h => by simpa [fuseFlatMap] using Ok.map h (fuseFlatMap_ok db i (wf_map h))
  | .join l r lk rk s, h => by
    simpa [fuseFlatMap] using Ok.join h (fuseFlatMap_ok db l (wf_join h).1) (fuseFlatMap_ok db r (wf_join h).2)
  | .distinct i, h => by simpa [fuseFlatMap] using Ok.distinct h (fuseFlatMap_ok db i (wf_distinct h))
  | .union is, h => by simpa [fuseFlatMap] using Ok.union h (fuseFlatMapL_ok db is (wf_union h))
  | .aggregate i gb aggs s, h => by simpa [fuseFlatMap] using Ok.aggregate h (fuseFlatMap_ok db i (wf_aggregate h))
  | .antijoin l r lk rk s, h => by
    simpa [fuseFlatMap] using Ok.antijoin h (fuseFlatMap_ok db l (wf_antijoin h).1) (fuseFlatMap_ok db r (wf_antijoin h).2)
  | .compute i es, h => by simpa [fuseFlatMap] using Ok.compute h (fuseFlatMap_ok db i (wf_compute h))
  | .hnsw .., h => by simpa [fuseFlatMap] using Ok.refl h
  | .flatMap i proj fp s, h => by simpa [fuseFlatMap] using Ok.flatMap h (fuseFlatMap_ok db i (wf_flatMap h))
  | .joinFlatMap l r lk rk proj fp s, h => by
    simpa [fuseFlatMap] using Ok.joinFlatMap h (fuseFlatMap_ok db l (wf_joinFlatMap h).1) (fuseFlatMap_ok db r (wf_joinFlatMap h).2)
theorem fuseFlatMapL_ok (db : Db) : ∀ ts, wfL db ts = true → OkL db ts (fuseFlatMapL ts)
  | .nil, _ => by simpa [fuseFlatMapL] using OkL.nil
  | .cons t ts, h => by
    simpa [fuseFlatMapL] using OkL.cons (fuseFlatMap_ok db t (wfL_cons h).1) (fuseFlatMapL_ok db ts (wfL_cons h).2)
end

theorem project_congr_map {x y : Tuple} {idx : List Nat} {f : Nat → Nat} (h : ∀ i ∈ idx, x[i]? = y[f i]?) :
    project x idx = project y (idx.map f) := by
  induction idx with
  | nil => rfl
  | cons i idx ih =>
    have ih := ih (fun j hj => h j (by simp [hj]))
    unfold project at ih ⊢
    simp only [List.filterMap_cons, List.map_cons, h i (by simp), ih]

theorem project_remap (a b : Tuple) (rk proj : List Nat) (h : nodupNat rk = true) :
    project (a ++ excluding b rk) proj = project (a ++ b) (remapProj proj a.length rk) := by
  unfold remapProj
  apply project_congr_map
  intro i _
  by_cases hi : i < a.length
  · simp [hi, List.getElem?_append_left hi]
  · have hge : a.length ≤ i := by omega
    simp only [hi, ↓reduceIte]
    rw [List.getElem?_append_right hge, List.getElem?_append_right (by omega), excluding_reinsert b rk h]
    congr 1
    omega

theorem remapProj_nil (proj : List Nat) (lw : Nat) : remapProj proj lw [] = proj := by
  unfold remapProj
  have : sortNat [] = [] := rfl
  simp only [this, reinsert]
  conv => rhs; rw [← List.map_id proj]
  apply List.map_congr_left
  intro i _
  by_cases h : i < lw <;> simp [h] <;> omega

theorem join_jfm_row (lk rk proj : List Nat) (fp : Option Pred) (a b : Tuple) (h : nodupNat rk = true) :
    (joinRow lk rk a b).bind (flatMapRow proj fp) = jfmRow lk rk (remapProj proj a.length rk) fp a b := by
  unfold joinRow jfmRow
  by_cases hc : (lk.isEmpty && rk.isEmpty) = true
  · simp only [Bool.and_eq_true, List.isEmpty_iff] at hc
    obtain ⟨rfl, rfl⟩ := hc
    simp [remapProj_nil, project, flatMapRow]
    rfl
  · simp only [hc, Bool.false_eq_true, ↓reduceIte]
    by_cases hk : (project a lk == project b rk) = true
    · simp only [hk, ↓reduceIte, Option.bind_some, flatMapRow, project_remap a b rk proj h]
    · simp [hk]

end ILV.IR
