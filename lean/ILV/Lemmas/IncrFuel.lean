/-
  C18: the evaluator's fuel always suffices. Tables only grow, stay duplicate-free, and hold tuples of
  length ≤ maxArity over the active domain (values of the inputs + constants of the heads); there are at
  most (|domain|+1)^maxArity such tuples per head, and every round that is not a fix-point adds one.
  Hence `conv prog inputs = true` for every program and every input.
-/
import ILV.Lemmas.IncrEval
namespace ILV.C18

/-! ### pigeonhole -/

theorem length_le_of_nodup_subset {α} [DecidableEq α] (l u : List α) (hn : l.Nodup) (hs : ∀ x ∈ l, x ∈ u) :
    l.length ≤ u.length := by
  induction l generalizing u with
  | nil => simp
  | cons a l ih =>
    rw [List.nodup_cons] at hn
    have ha : a ∈ u := hs a (by simp)
    have h1 : ∀ x ∈ l, x ∈ u.erase a := by
      intro x hx
      have hne : x ≠ a := fun e => hn.1 (e ▸ hx)
      exact (List.mem_erase_of_ne hne).mpr (hs x (List.mem_cons_of_mem _ hx))
    have h2 := ih (u.erase a) hn.2 h1
    rw [List.length_erase_of_mem ha] at h2
    have : 0 < u.length := List.length_pos_of_mem ha
    simp only [List.length_cons]
    omega

/-! ### all tuples of length ≤ a over a domain -/

def tuplesUpTo (D : List Int) : Nat → List Tup
  | 0 => [[]]
  | a + 1 => [] :: D.flatMap fun v => (tuplesUpTo D a).map (v :: ·)

theorem mem_tuplesUpTo (D : List Int) (a : Nat) (t : Tup) (hl : t.length ≤ a) (hd : ∀ v ∈ t, v ∈ D) :
    t ∈ tuplesUpTo D a := by
  induction a generalizing t with
  | zero =>
    have : t = [] := List.eq_nil_of_length_eq_zero (by omega)
    subst this; simp [tuplesUpTo]
  | succ a ih =>
    cases t with
    | nil => simp [tuplesUpTo]
    | cons v t =>
      simp only [tuplesUpTo, List.mem_cons, List.mem_flatMap, List.mem_map]
      right
      refine ⟨v, hd v (by simp), t, ih t (by simp at hl; omega) (fun w hw => hd w (List.mem_cons_of_mem _ hw)), rfl⟩

theorem length_flatMap_const {α β} (l : List α) (f : α → List β) (k : Nat) (h : ∀ x ∈ l, (f x).length = k) :
    (l.flatMap f).length = l.length * k := by
  induction l with
  | nil => simp
  | cons a l ih =>
    simp only [List.flatMap_cons, List.length_append, List.length_cons]
    rw [h a (by simp), ih (fun x hx => h x (List.mem_cons_of_mem _ hx))]
    rw [Nat.add_mul, Nat.one_mul, Nat.add_comm]

theorem length_tuplesUpTo (D : List Int) (a : Nat) : (tuplesUpTo D a).length ≤ (D.length + 1) ^ a := by
  induction a with
  | zero => simp [tuplesUpTo]
  | succ a ih =>
    simp only [tuplesUpTo, List.length_cons]
    rw [length_flatMap_const D _ (tuplesUpTo D a).length (fun _ _ => by simp)]
    have hpos : 1 ≤ (D.length + 1) ^ a := Nat.pow_pos (by omega)
    calc D.length * (tuplesUpTo D a).length + 1
        ≤ D.length * (D.length + 1) ^ a + (D.length + 1) ^ a := by
          have := Nat.mul_le_mul_left D.length ih
          omega
      _ = (D.length + 1) ^ (a + 1) := by rw [Nat.pow_succ, Nat.mul_comm ((D.length + 1) ^ a), Nat.add_mul, Nat.one_mul]

/-! ### the active domain -/

def dom (prog : List Clause) (inputs : List (Name × List Tup)) : List Int := inputInts inputs ++ headConsts prog

theorem dom_length (prog : List Clause) (inputs : List (Name × List Tup)) :
    (dom prog inputs).length = inputSize inputs + progConsts prog := by
  simp [dom, inputSize, progConsts]

theorem inDb_dom (prog : List Clause) (inputs : List (Name × List Tup)) (r : Name) :
    ∀ t ∈ inDb inputs r, ∀ v ∈ t, v ∈ dom prog inputs := by
  intro t ht v hv
  unfold inDb at ht
  cases hg : aget inputs r with
  | none => simp [hg] at ht
  | some l =>
    simp only [hg, Option.getD_some] at ht
    apply List.mem_append_left
    unfold inputInts
    exact List.mem_flatMap.mpr ⟨(r, l), aget_some_mem hg, List.mem_flatten.mpr ⟨t, ht, hv⟩⟩

theorem le_foldl_max (l : List Nat) (a x : Nat) (h : x ≤ a ∨ x ∈ l) : x ≤ l.foldl max a := by
  induction l generalizing a with
  | nil => rcases h with h | h; exact h; simp at h
  | cons b l ih =>
    simp only [List.foldl_cons]
    apply ih
    rcases h with h | h
    · exact Or.inl (Nat.le_trans h (Nat.le_max_left a b))
    · rcases List.mem_cons.mp h with e | e
      · subst e; exact Or.inl (Nat.le_max_right a x)
      · exact Or.inr e

theorem arity_le_max (prog : List Clause) (c : Clause) (hc : c ∈ prog) : c.head.args.length ≤ maxArity prog :=
  le_foldl_max _ 0 _ (Or.inr (List.mem_map.mpr ⟨c, hc, rfl⟩))

/-! ### derived tuples stay inside the domain -/

def EnvGood (D : List Int) (env : Env) : Prop := ∀ x v, envGet env x = some v → v ∈ D

theorem matchArgs_good (D : List Int) (args : List Term) (tup : Tup) (env env' : Env)
    (h : matchArgs args tup env = some env') (he : EnvGood D env) (ht : ∀ v ∈ tup, v ∈ D) : EnvGood D env' := by
  induction args generalizing tup env with
  | nil =>
    cases tup with
    | nil => simp [matchArgs] at h; subst h; exact he
    | cons _ _ => simp [matchArgs] at h
  | cons a as ih =>
    cases tup with
    | nil => cases a <;> simp [matchArgs] at h
    | cons v vs =>
      have hvs : ∀ w ∈ vs, w ∈ D := fun w hw => ht w (List.mem_cons_of_mem _ hw)
      cases a with
      | const c =>
        simp only [matchArgs] at h
        split at h
        · exact ih vs env h he hvs
        · cases h
      | var x =>
        simp only [matchArgs] at h
        split at h
        · split at h
          · exact ih vs env h he hvs
          · cases h
        · refine ih vs ((x, v) :: env) h ?_ hvs
          intro y w hy
          simp only [envGet] at hy
          split at hy
          · cases hy; exact ht v (by simp)
          · exact he y w hy

theorem solveBody_good (D : List Int) (db : Name → List Tup) (hdb : ∀ r, ∀ t ∈ db r, ∀ v ∈ t, v ∈ D)
    (body : List Atom) (envs : List Env) (he : ∀ e ∈ envs, EnvGood D e) :
    ∀ e ∈ solveBody db body envs, EnvGood D e := by
  induction body generalizing envs with
  | nil => simpa [solveBody] using he
  | cons a as ih =>
    simp only [solveBody]
    apply ih
    intro e hm
    obtain ⟨env, henv, hm2⟩ := List.mem_flatMap.mp hm
    obtain ⟨t, ht, hmt⟩ := List.mem_filterMap.mp hm2
    exact matchArgs_good D a.args t env e hmt (he env henv) (hdb a.rel t ht)

theorem instHead_good (D : List Int) (args : List Term) (env : Env) (t : Tup) (h : instHead args env = some t)
    (he : EnvGood D env) (hc : ∀ c ∈ termConsts args, c ∈ D) : t.length = args.length ∧ ∀ v ∈ t, v ∈ D := by
  induction args generalizing t with
  | nil => simp [instHead] at h; subst h; simp
  | cons a as ih =>
    cases a with
    | const c =>
      simp only [instHead, Option.map_eq_some_iff] at h
      obtain ⟨r, hr, rfl⟩ := h
      have := ih r hr (fun c' hc' => hc c' (by simp [termConsts, hc']))
      refine ⟨by simp [this.1], ?_⟩
      intro v hv
      rcases List.mem_cons.mp hv with e | e
      · subst e; exact hc v (by simp [termConsts])
      · exact this.2 v e
    | var x =>
      simp only [instHead] at h
      split at h
      · next v r hv hr =>
        cases h
        have := ih r hr (fun c' hc' => hc c' (by simpa [termConsts] using hc'))
        refine ⟨by simp [this.1], ?_⟩
        intro w hw
        rcases List.mem_cons.mp hw with e | e
        · subst e; exact he x w hv
        · exact this.2 w e
      · cases h

theorem fire_good (prog : List Clause) (inputs : List (Name × List Tup)) (db : Name → List Tup)
    (hdb : ∀ r, ∀ t ∈ db r, ∀ v ∈ t, v ∈ dom prog inputs) (c : Clause) (hc : c ∈ prog) :
    ∀ t ∈ fire db c, t.length ≤ maxArity prog ∧ ∀ v ∈ t, v ∈ dom prog inputs := by
  intro t ht
  unfold fire at ht
  obtain ⟨e, he, het⟩ := List.mem_filterMap.mp ht
  have heg := solveBody_good (dom prog inputs) db hdb c.body [[]]
    (by intro e' he'; simp at he'; subst he'; intro x v hx; simp [envGet] at hx) e he
  have := instHead_good (dom prog inputs) c.head.args e t het heg
    (fun k hk => List.mem_append_right _ (List.mem_flatMap.mpr ⟨c, hc, hk⟩))
  exact ⟨by rw [this.1]; exact arity_le_max prog c hc, this.2⟩

/-! ### tables: duplicate-free, bounded, growing -/

def TGood (prog : List Clause) (inputs : List (Name × List Tup)) (d : List (Name × List Tup)) : Prop :=
  ∀ p ∈ d, p.2.Nodup ∧ ∀ t ∈ p.2, t.length ≤ maxArity prog ∧ ∀ v ∈ t, v ∈ dom prog inputs

theorem nodup_addNew (l ts : List Tup) (h : l.Nodup) : (addNew l ts).Nodup := by
  induction ts generalizing l with
  | nil => exact h
  | cons a ts ih =>
    by_cases ha : a ∈ l
    · simp only [addNew, ha, if_true]; exact ih l h
    · simp only [addNew, ha, if_false]
      apply ih
      rw [List.nodup_append]
      refine ⟨h, by simp, ?_⟩
      intro x hx y hy
      simp at hy; subst hy
      exact fun e => ha (e ▸ hx)

theorem length_addNew_ge (l ts : List Tup) : l.length ≤ (addNew l ts).length := by
  induction ts generalizing l with
  | nil => exact Nat.le_refl _
  | cons a ts ih =>
    by_cases ha : a ∈ l
    · simp only [addNew, ha, if_true]; exact ih l
    · simp only [addNew, ha, if_false]
      have := ih (l ++ [a])
      simp at this
      omega

theorem addNew_eq_of_length (l ts : List Tup) (h : (addNew l ts).length = l.length) : addNew l ts = l := by
  apply addNew_of_subset
  induction ts generalizing l with
  | nil => simp
  | cons a ts ih =>
    by_cases ha : a ∈ l
    · simp only [addNew, ha, if_true] at h
      intro t ht
      rcases List.mem_cons.mp ht with e | e
      · subst e; exact ha
      · exact ih l h t e
    · simp only [addNew, ha, if_false] at h
      have := length_addNew_ge (l ++ [a]) ts
      simp at this
      omega

theorem look_good (prog : List Clause) (inputs d : List (Name × List Tup)) (hg : TGood prog inputs d) :
    ∀ r, ∀ t ∈ look inputs d r, ∀ v ∈ t, v ∈ dom prog inputs := by
  intro r t ht v hv
  unfold look at ht
  cases hgt : aget d r with
  | none =>
    simp only [hgt] at ht
    exact inDb_dom prog inputs r t ht v hv
  | some tbl =>
    simp only [hgt] at ht
    exact ((hg (r, tbl) (aget_some_mem hgt)).2 t ht).2 v hv

theorem tstep_good (prog : List Clause) (inputs d : List (Name × List Tup)) (hg : TGood prog inputs d) :
    TGood prog inputs (tstep prog inputs d) := by
  intro p hp
  unfold tstep at hp
  obtain ⟨q, hq, rfl⟩ := List.mem_map.mp hp
  have hq' := hg q hq
  refine ⟨nodup_addNew _ _ hq'.1, ?_⟩
  intro t ht
  rcases (mem_addNew _ _ _).mp ht with h | h
  · exact hq'.2 t h
  · obtain ⟨c, hc, _, hf⟩ := (mem_consequences prog _ q.1 t).mp h
    exact fire_good prog inputs _ (look_good prog inputs d hg) c hc t hf

def tsize : List (Name × List Tup) → Nat
  | [] => 0
  | p :: l => p.2.length + tsize l

theorem tsize_bound (prog : List Clause) (inputs d : List (Name × List Tup)) (hg : TGood prog inputs d) :
    tsize d ≤ d.length * (tuplesUpTo (dom prog inputs) (maxArity prog)).length := by
  induction d with
  | nil => simp [tsize]
  | cons p l ih =>
    have hp := hg p (by simp)
    have h1 : p.2.length ≤ (tuplesUpTo (dom prog inputs) (maxArity prog)).length :=
      length_le_of_nodup_subset _ _ hp.1 (fun t ht => mem_tuplesUpTo _ _ t (hp.2 t ht).1 (hp.2 t ht).2)
    have h2 := ih (fun q hq => hg q (List.mem_cons_of_mem _ hq))
    simp only [tsize, List.length_cons]
    rw [Nat.add_mul, Nat.one_mul]
    omega

theorem tstep_size (prog : List Clause) (db : Name → List Tup)
    (d : List (Name × List Tup)) :
    tsize d ≤ tsize (d.map fun p => (p.1, addNew p.2 (consequences prog db p.1))) ∧
    (tsize (d.map fun p => (p.1, addNew p.2 (consequences prog db p.1))) = tsize d →
      (d.map fun p => (p.1, addNew p.2 (consequences prog db p.1))) = d) := by
  induction d with
  | nil => simp [tsize]
  | cons p l ih =>
    simp only [List.map_cons, tsize]
    have h1 := length_addNew_ge p.2 (consequences prog db p.1)
    refine ⟨by omega, ?_⟩
    intro he
    have h2 : (addNew p.2 (consequences prog db p.1)).length = p.2.length := by omega
    have h3 : tsize (l.map fun p => (p.1, addNew p.2 (consequences prog db p.1))) = tsize l := by omega
    rw [ih.2 h3, addNew_eq_of_length _ _ h2]

theorem iter_converges (prog : List Clause) (inputs : List (Name × List Tup)) (B : Nat) (k : Nat)
    (d : List (Name × List Tup)) (hg : TGood prog inputs d)
    (hB : ∀ d', TGood prog inputs d' → d'.length = d.length → tsize d' ≤ B)
    (hk : B < tsize d + k) :
    tstep prog inputs (iter prog inputs k d) = iter prog inputs k d := by
  induction k generalizing d with
  | zero =>
    have := hB d hg rfl
    omega
  | succ k ih =>
    rw [iter_succ]
    split
    · next h => exact h
    · next h =>
      have hs := tstep_size prog (look inputs d) d
      have hne : tsize (tstep prog inputs d) ≠ tsize d := fun e => h (hs.2 e)
      have hge : tsize d ≤ tsize (tstep prog inputs d) := hs.1
      have hlen : (tstep prog inputs d).length = d.length := by simp [tstep]
      apply ih (tstep prog inputs d) (tstep_good prog inputs d hg)
      · intro d' hg' hl'; exact hB d' hg' (by rw [hl', hlen])
      · omega

/-- **the evaluator always reaches its fix-point within its fuel.** -/
theorem conv_always (prog : List Clause) (inputs : List (Name × List Tup)) : conv prog inputs = true := by
  simp only [conv, decide_eq_true_eq]
  unfold res
  apply iter_converges prog inputs ((heads prog).length * (inputSize inputs + progConsts prog + 1) ^ (maxArity prog))
  · intro p hp
    unfold d0 at hp
    obtain ⟨n, _, rfl⟩ := List.mem_map.mp hp
    simp
  · intro d' hg' hl'
    have h1 := tsize_bound prog inputs d' hg'
    have h2 := length_tuplesUpTo (dom prog inputs) (maxArity prog)
    rw [dom_length] at h2
    have h3 : d'.length = (heads prog).length := by rw [hl']; simp [d0]
    rw [h3] at h1
    exact Nat.le_trans h1 (Nat.mul_le_mul_left _ h2)
  · unfold evalFuel
    omega

end ILV.C18
