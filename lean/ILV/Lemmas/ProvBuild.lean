/-
  Lemmas for C21_partial ("every tree the model chainer returns is accepted by `valid`"):
  values that equal themselves (`GoodV`, i.e. no NaN), extension of bindings, soundness of the
  pattern matcher / head unifier / candidate enumerator with respect to the Spec's `argsMatch`.
-/
import ILV.Lemmas.ProvWhyNot
namespace ILV.Prov
open ILV

/-! ### values that equal themselves -/

def GoodV (v : Value) : Prop := valuesEqual v v = true
def GoodT (t : Tuple) : Prop := ∀ v ∈ t, GoodV v
def GoodB (β : Bindings) : Prop := ∀ p ∈ β, GoodV p.2
def GoodDB (db : DB) : Prop := ∀ rel, ∀ t ∈ db.get rel, GoodT t
def GoodBts (bts : List BT) : Prop := ∀ v, BT.conc v ∈ bts → GoodV v
def GoodTerm (t : Term) : Prop := ∀ v, termToValue t = some v → GoodV v
def GoodAtom (a : Atom) : Prop := ∀ t ∈ a.args, GoodTerm t

theorem lookup_mem {α β} [BEq α] [LawfulBEq α] : ∀ (l : List (α × β)) (k : α) (v : β), l.lookup k = some v → (k, v) ∈ l
  | [], _, _, h => by simp at h
  | (k', v') :: l, k, v, h => by
    simp only [List.lookup] at h
    split at h
    · rename_i heq
      simp only [Option.some.injEq] at h
      have : k = k' := by simpa using heq
      subst this; subst h; exact List.mem_cons_self
    · exact List.mem_cons_of_mem _ (lookup_mem l k v h)

theorem GoodB_lookup (β : Bindings) (h : GoodB β) (x : String) (v : Value) (hx : β.lookup x = some v) : GoodV v :=
  h (x, v) (lookup_mem β x v hx)

theorem lookup_append (l1 l2 : Bindings) (x : String) :
    (l1 ++ l2).lookup x = match l1.lookup x with | some v => some v | none => l2.lookup x := by
  induction l1 with
  | nil => simp
  | cons p l ih =>
    obtain ⟨k, v⟩ := p
    simp only [List.cons_append, List.lookup]
    split <;> simp_all

/-- `β'` agrees with `β` wherever `β` is defined. -/
def Ext (β β' : Bindings) : Prop := ∀ x v, β.lookup x = some v → β'.lookup x = some v

theorem Ext.refl (β : Bindings) : Ext β β := fun _ _ h => h
theorem Ext.trans {a b c : Bindings} (h1 : Ext a b) (h2 : Ext b c) : Ext a c := fun x v h => h2 x v (h1 x v h)

/-- keys of `nb` are unbound in `β`. -/
def Fresh (nb β : Bindings) : Prop := ∀ x, (nb.lookup x).isSome = true → β.lookup x = none

theorem Ext_append_fresh (nb β : Bindings) (h : Fresh nb β) : Ext β (nb ++ β) := by
  intro x v hx
  rw [lookup_append]
  cases hn : nb.lookup x with
  | none => exact hx
  | some w => have := h x (by simp [hn]); rw [this] at hx; cases hx

theorem GoodB_append (a b : Bindings) (ha : GoodB a) (hb : GoodB b) : GoodB (a ++ b) := by
  intro p hp
  rcases List.mem_append.mp hp with h | h
  · exact ha p h
  · exact hb p h

/-! ### stability under extension -/

theorem argMatches_ext (β β' : Bindings) (h : Ext β β') (t : Term) (v : Value) (hm : argMatches β t v = true) :
    argMatches β' t v = true := by
  cases t with
  | var x =>
    simp only [argMatches] at hm ⊢
    cases hx : β.lookup x with
    | none => simp [hx] at hm
    | some e => rw [h x e hx]; simpa [hx] using hm
  | wild => exact hm
  | int n => exact hm
  | str s => exact hm
  | bool b => exact hm
  | flt b => exact hm
  | other => exact hm

theorem argsMatch_ext (β β' : Bindings) (h : Ext β β') : ∀ (args : List Term) (t : Tuple),
    argsMatch β args t = true → argsMatch β' args t = true
  | [], [], _ => rfl
  | [], _ :: _, hm => by simp [argsMatch] at hm
  | _ :: _, [], hm => by simp [argsMatch] at hm
  | a :: as, v :: vs, hm => by
    simp only [argsMatch, Bool.and_eq_true] at hm ⊢
    exact ⟨argMatches_ext β β' h a v hm.1, argsMatch_ext β β' h as vs hm.2⟩

theorem headMatches_ext (β β' : Bindings) (h : Ext β β') (args : List Term) (t : Tuple)
    (hm : headMatches β args t = true) : headMatches β' args t = true := by
  simp only [headMatches, Bool.and_eq_true] at hm ⊢
  exact ⟨hm.1, argsMatch_ext β β' h args t hm.2⟩

theorem resolveTerm_ext (β β' : Bindings) (h : Ext β β') (t : Term) (v : Value)
    (hr : resolveTerm β t = .conc v) : resolveTerm β' t = .conc v := by
  cases t with
  | var x =>
    simp only [resolveTerm] at hr ⊢
    cases hx : β.lookup x with
    | none => simp [hx] at hr
    | some e => rw [h x e hx]; simpa [hx] using hr
  | wild => exact hr
  | int n => exact hr
  | str s => exact hr
  | bool b => exact hr
  | flt b => exact hr
  | other => exact hr

theorem evalCmp_ext (β β' : Bindings) (h : Ext β β') (l : Term) (op : CmpOp) (r : Term)
    (hc : evalCmp l op r β = some true) : evalCmp l op r β' = some true := by
  unfold evalCmp at hc ⊢
  cases hl : resolveTerm β l with
  | conc x =>
    cases hr : resolveTerm β r with
    | conc y =>
      rw [resolveTerm_ext β β' h l x hl, resolveTerm_ext β β' h r y hr]
      simpa [hl, hr] using hc
    | unb _ => simp [hl, hr] at hc
    | anon => simp [hl, hr] at hc
  | unb _ => simp [hl] at hc
  | anon => simp [hl] at hc

theorem cmpsHold_ext (β β' : Bindings) (h : Ext β β') : ∀ ls : List Lit, cmpsHold β ls = true → cmpsHold β' ls = true
  | [], _ => rfl
  | .pos _ :: ls, hc => by simp only [cmpsHold] at hc ⊢; exact cmpsHold_ext β β' h ls hc
  | .neg _ :: ls, hc => by simp only [cmpsHold] at hc ⊢; exact cmpsHold_ext β β' h ls hc
  | .other :: ls, hc => by simp only [cmpsHold] at hc ⊢; exact cmpsHold_ext β β' h ls hc
  | .cmp l op r :: ls, hc => by
    simp only [cmpsHold, Bool.and_eq_true, beq_iff_eq] at hc ⊢
    exact ⟨evalCmp_ext β β' h l op r hc.1, cmpsHold_ext β β' h ls hc.2⟩

theorem substituteAtom_ext (β β' : Bindings) (h : Ext β β') (a : Atom) (hc : AtomClosed β a) :
    substituteAtom a β' = substituteAtom a β := by
  unfold substituteAtom
  apply List.map_congr_left
  intro t ht
  cases t with
  | var x =>
    have := hc x ht
    cases hx : β.lookup x with
    | none => simp [hx] at this
    | some e => simp [resolveTerm, hx, h x e hx]
  | _ => rfl

theorem AtomClosed_ext (β β' : Bindings) (h : Ext β β') (a : Atom) (hc : AtomClosed β a) : AtomClosed β' a := by
  intro x hx
  have := hc x hx
  cases hb : β.lookup x with
  | none => simp [hb] at this
  | some e => simp [h x e hb]

/-! ### soundness of the pattern matcher w.r.t. `argsMatch` -/

theorem lookup_cons_ne (x y : String) (v : Value) (l : Bindings) (h : y ≠ x) :
    ((x, v) :: l).lookup y = l.lookup y := by
  simp only [List.lookup]
  have : (y == x) = false := by simpa using h
  simp [this]

theorem lookup_cons_self (x : String) (v : Value) (l : Bindings) : ((x, v) :: l).lookup x = some v := by
  simp [List.lookup]

theorem matchArgs_sound (β : Bindings) : ∀ (args : List Term) (t : Tuple) (nb0 nb : Bindings),
    t.length = args.length → (∀ a ∈ args, a ≠ Term.other) → GoodT t → Fresh nb0 β →
    matchArgs (args.map (resolveTerm β)) t nb0 = some nb →
    Ext nb0 nb ∧ Fresh nb β ∧ (GoodB nb0 → GoodB nb) ∧
      ∀ nbF, Ext nb nbF → Fresh nbF β → argsMatch (nbF ++ β) args t = true
  | [], [], nb0, nb, _, _, _, hf, h => by
    simp only [List.map_nil, matchArgs, Option.some.injEq] at h
    subst h
    exact ⟨Ext.refl _, hf, id, fun _ _ _ => rfl⟩
  | [], _ :: _, _, _, hl, _, _, _, _ => by simp at hl
  | _ :: _, [], _, _, hl, _, _, _, _ => by simp at hl
  | a :: as, v :: vs, nb0, nb, hl, hs, hg, hf, h => by
    have hl' : vs.length = as.length := by simpa using hl
    have hs' : ∀ a' ∈ as, a' ≠ Term.other := fun a' ha' => hs a' (List.mem_cons_of_mem _ ha')
    have hg' : GoodT vs := fun w hw => hg w (List.mem_cons_of_mem _ hw)
    have hgv : GoodV v := hg v List.mem_cons_self
    cases a with
    | var x =>
      cases hx : β.lookup x with
      | some e =>
        simp only [List.map_cons, resolveTerm, hx, matchArgs] at h
        split at h
        · rename_i hev
          obtain ⟨e1, e2, e3, e4⟩ := matchArgs_sound β as vs nb0 nb hl' hs' hg' hf h
          refine ⟨e1, e2, e3, ?_⟩
          intro nbF hE hF
          simp only [argsMatch, Bool.and_eq_true]
          refine ⟨?_, e4 nbF hE hF⟩
          simp only [argMatches, lookup_append]
          cases hn : nbF.lookup x with
          | none => simp [hx, hev]
          | some w => have := hF x (by simp [hn]); rw [hx] at this; cases this
        · cases h
      | none =>
        simp only [List.map_cons, resolveTerm, hx, matchArgs] at h
        cases hn0 : nb0.lookup x with
        | some e =>
          simp only [hn0] at h
          split at h
          · rename_i hev
            obtain ⟨e1, e2, e3, e4⟩ := matchArgs_sound β as vs nb0 nb hl' hs' hg' hf h
            refine ⟨e1, e2, e3, ?_⟩
            intro nbF hE hF
            simp only [argsMatch, Bool.and_eq_true]
            refine ⟨?_, e4 nbF hE hF⟩
            simp only [argMatches, lookup_append, hE x e (e1 x e hn0), hev]
          · cases h
        | none =>
          simp only [hn0] at h
          have hf1 : Fresh ((x, v) :: nb0) β := by
            intro y hy
            by_cases hyx : y = x
            · subst hyx; exact hx
            · rw [lookup_cons_ne x y v nb0 hyx] at hy; exact hf y hy
          obtain ⟨e1, e2, e3, e4⟩ := matchArgs_sound β as vs ((x, v) :: nb0) nb hl' hs' hg' hf1 h
          refine ⟨?_, e2, ?_, ?_⟩
          · intro y w hy
            have hyx : y ≠ x := by intro he; subst he; rw [hn0] at hy; cases hy
            exact e1 y w (by rw [lookup_cons_ne x y v nb0 hyx]; exact hy)
          · intro hg0
            apply e3
            intro p hp
            rcases List.mem_cons.mp hp with rfl | hp
            · exact hgv
            · exact hg0 p hp
          · intro nbF hE hF
            simp only [argsMatch, Bool.and_eq_true]
            refine ⟨?_, e4 nbF hE hF⟩
            have : nbF.lookup x = some v := hE x v (e1 x v (lookup_cons_self x v nb0))
            simp only [argMatches, lookup_append, this]
            exact hgv
    | wild =>
      simp only [List.map_cons, resolveTerm, matchArgs] at h
      obtain ⟨e1, e2, e3, e4⟩ := matchArgs_sound β as vs nb0 nb hl' hs' hg' hf h
      refine ⟨e1, e2, e3, ?_⟩
      intro nbF hE hF
      simp only [argsMatch, Bool.and_eq_true]
      exact ⟨rfl, e4 nbF hE hF⟩
    | int n =>
      cases hc : termToValue (Term.int n) with
      | none => simp [termToValue] at hc
      | some e =>
        simp only [List.map_cons, resolveTerm, hc, matchArgs] at h
        split at h
        · rename_i hev
          obtain ⟨e1, e2, e3, e4⟩ := matchArgs_sound β as vs nb0 nb hl' hs' hg' hf h
          refine ⟨e1, e2, e3, ?_⟩
          intro nbF hE hF
          simp only [argsMatch, Bool.and_eq_true]
          exact ⟨by simp only [argMatches, hc]; exact hev, e4 nbF hE hF⟩
        · cases h
    | str n =>
      cases hc : termToValue (Term.str n) with
      | none => simp [termToValue] at hc
      | some e =>
        simp only [List.map_cons, resolveTerm, hc, matchArgs] at h
        split at h
        · rename_i hev
          obtain ⟨e1, e2, e3, e4⟩ := matchArgs_sound β as vs nb0 nb hl' hs' hg' hf h
          refine ⟨e1, e2, e3, ?_⟩
          intro nbF hE hF
          simp only [argsMatch, Bool.and_eq_true]
          exact ⟨by simp only [argMatches, hc]; exact hev, e4 nbF hE hF⟩
        · cases h
    | bool n =>
      cases hc : termToValue (Term.bool n) with
      | none => simp [termToValue] at hc
      | some e =>
        simp only [List.map_cons, resolveTerm, hc, matchArgs] at h
        split at h
        · rename_i hev
          obtain ⟨e1, e2, e3, e4⟩ := matchArgs_sound β as vs nb0 nb hl' hs' hg' hf h
          refine ⟨e1, e2, e3, ?_⟩
          intro nbF hE hF
          simp only [argsMatch, Bool.and_eq_true]
          exact ⟨by simp only [argMatches, hc]; exact hev, e4 nbF hE hF⟩
        · cases h
    | flt n =>
      cases hc : termToValue (Term.flt n) with
      | none => simp [termToValue] at hc
      | some e =>
        simp only [List.map_cons, resolveTerm, hc, matchArgs] at h
        split at h
        · rename_i hev
          obtain ⟨e1, e2, e3, e4⟩ := matchArgs_sound β as vs nb0 nb hl' hs' hg' hf h
          refine ⟨e1, e2, e3, ?_⟩
          intro nbF hE hF
          simp only [argsMatch, Bool.and_eq_true]
          exact ⟨by simp only [argMatches, hc]; exact hev, e4 nbF hE hF⟩
        · cases h
    | other => exact absurd rfl (hs _ List.mem_cons_self)

/-- a tuple found by `find_matching_tuples` is an instance of the atom under the extended bindings. -/
theorem matchTuple_sound (β : Bindings) (a : Atom) (t : Tuple) (nb : Bindings)
    (hs : ∀ x ∈ a.args, x ≠ Term.other) (hg : GoodT t)
    (h : matchTuple (substituteAtom a β) t = some nb) :
    Fresh nb β ∧ GoodB nb ∧ argsMatch (nb ++ β) a.args t = true := by
  unfold matchTuple substituteAtom at h
  split at h
  · cases h
  · rename_i hl
    have hl' : t.length = a.args.length := by simpa using hl
    obtain ⟨_, e2, e3, e4⟩ := matchArgs_sound β a.args t [] nb hl' hs hg (fun x hx => by simp at hx) h
    exact ⟨e2, e3 (fun p hp => by simp at hp), e4 nb (Ext.refl _) e2⟩

/-! ### soundness of head unification -/

theorem unifyArgs_sound : ∀ (args : List Term) (vals : List Value) (b b' : Bindings),
    vals.length = args.length → (∀ a ∈ args, a ≠ Term.other) → GoodT vals → GoodB b →
    unifyArgs args vals b = some b' →
    GoodB b' ∧ ∀ bF, Ext b' bF → argsMatch bF args vals = true
  | [], [], b, b', _, _, _, hb, h => by
    simp only [unifyArgs, Option.some.injEq] at h; subst h
    exact ⟨hb, fun _ _ => rfl⟩
  | [], _ :: _, _, _, hl, _, _, _, _ => by simp at hl
  | _ :: _, [], _, _, hl, _, _, _, _ => by simp at hl
  | a :: as, v :: vs, b, b', hl, hs, hg, hb, h => by
    have hl' : vs.length = as.length := by simpa using hl
    have hs' : ∀ a' ∈ as, a' ≠ Term.other := fun a' ha' => hs a' (List.mem_cons_of_mem _ ha')
    have hg' : GoodT vs := fun w hw => hg w (List.mem_cons_of_mem _ hw)
    have hgv : GoodV v := hg v List.mem_cons_self
    cases a with
    | var x =>
      simp only [unifyArgs] at h
      cases hx : b.lookup x with
      | some e =>
        simp only [hx] at h
        split at h
        · rename_i hev
          have hev' : e = v := by simpa using hev
          obtain ⟨e1, e2⟩ := unifyArgs_sound as vs b b' hl' hs' hg' hb h
          obtain ⟨s1, _, _⟩ := unifyArgs_spec as vs b b' h
          refine ⟨e1, ?_⟩
          intro bF hE
          simp only [argsMatch, Bool.and_eq_true]
          refine ⟨?_, e2 bF hE⟩
          simp only [argMatches, hE x e (s1 x e hx)]
          rw [hev']; exact hgv
        · cases h
      | none =>
        simp only [hx] at h
        have hb1 : GoodB ((x, v) :: b) := by
          intro p hp
          rcases List.mem_cons.mp hp with rfl | hp
          · exact hgv
          · exact hb p hp
        obtain ⟨e1, e2⟩ := unifyArgs_sound as vs ((x, v) :: b) b' hl' hs' hg' hb1 h
        obtain ⟨s1, _, _⟩ := unifyArgs_spec as vs ((x, v) :: b) b' h
        refine ⟨e1, ?_⟩
        intro bF hE
        simp only [argsMatch, Bool.and_eq_true]
        refine ⟨?_, e2 bF hE⟩
        simp only [argMatches, hE x v (s1 x v (lookup_cons_self x v b))]
        exact hgv
    | wild =>
      simp only [unifyArgs] at h
      obtain ⟨e1, e2⟩ := unifyArgs_sound as vs b b' hl' hs' hg' hb h
      exact ⟨e1, fun bF hE => by simp only [argsMatch, Bool.and_eq_true]; exact ⟨rfl, e2 bF hE⟩⟩
    | int n =>
      cases hc : termToValue (Term.int n) with
      | none => simp [termToValue] at hc
      | some e =>
        simp only [unifyArgs, hc] at h
        split at h
        · rename_i hev
          obtain ⟨e1, e2⟩ := unifyArgs_sound as vs b b' hl' hs' hg' hb h
          refine ⟨e1, ?_⟩
          intro bF hE
          simp only [argsMatch, Bool.and_eq_true]
          exact ⟨by simp only [argMatches, hc]; exact hev, e2 bF hE⟩
        · cases h
    | str n =>
      cases hc : termToValue (Term.str n) with
      | none => simp [termToValue] at hc
      | some e =>
        simp only [unifyArgs, hc] at h
        split at h
        · rename_i hev
          obtain ⟨e1, e2⟩ := unifyArgs_sound as vs b b' hl' hs' hg' hb h
          refine ⟨e1, ?_⟩
          intro bF hE
          simp only [argsMatch, Bool.and_eq_true]
          exact ⟨by simp only [argMatches, hc]; exact hev, e2 bF hE⟩
        · cases h
    | bool n =>
      cases hc : termToValue (Term.bool n) with
      | none => simp [termToValue] at hc
      | some e =>
        simp only [unifyArgs, hc] at h
        split at h
        · rename_i hev
          obtain ⟨e1, e2⟩ := unifyArgs_sound as vs b b' hl' hs' hg' hb h
          refine ⟨e1, ?_⟩
          intro bF hE
          simp only [argsMatch, Bool.and_eq_true]
          exact ⟨by simp only [argMatches, hc]; exact hev, e2 bF hE⟩
        · cases h
    | flt n =>
      cases hc : termToValue (Term.flt n) with
      | none => simp [termToValue] at hc
      | some e =>
        simp only [unifyArgs, hc] at h
        split at h
        · rename_i hev
          obtain ⟨e1, e2⟩ := unifyArgs_sound as vs b b' hl' hs' hg' hb h
          refine ⟨e1, ?_⟩
          intro bF hE
          simp only [argsMatch, Bool.and_eq_true]
          exact ⟨by simp only [argMatches, hc]; exact hev, e2 bF hE⟩
        · cases h
    | other => exact absurd rfl (hs _ List.mem_cons_self)

theorem unifyHead_sound (t : Tuple) (head : Atom) (β0 : Bindings)
    (hs : ∀ a ∈ head.args, a ≠ Term.other) (hw : head.args.all (fun a => a != .wild) = true) (hg : GoodT t)
    (h : unifyHead t head = some β0) :
    GoodB β0 ∧ headMatches β0 head.args t = true ∧ (∀ x, Term.var x ∈ head.args → (β0.lookup x).isSome = true) ∧
      (∀ q ∈ β0, Term.var q.1 ∈ head.args) := by
  unfold unifyHead at h
  split at h
  · cases h
  · rename_i hl
    have hl' : t.length = head.args.length := by simpa using hl
    obtain ⟨e1, e2⟩ := unifyArgs_sound head.args t [] β0 hl' hs hg (fun p hp => by simp at hp) h
    obtain ⟨_, s2, s3⟩ := unifyArgs_spec head.args t [] β0 h
    refine ⟨e1, ?_, s2, ?_⟩
    · simp only [headMatches, Bool.and_eq_true]
      exact ⟨hw, e2 β0 (Ext.refl _)⟩
    · intro q hq
      rcases s3 q.1 (List.mem_map_of_mem hq) with h' | h'
      · simp at h'
      · exact h' 

/-! ### candidates of `enumerate_derived_candidates` (with the consistency check for repeated variables) -/

theorem enum_sound (β : Bindings) : ∀ (args : List Term) (t : Tuple) (nb0 nb : Bindings),
    t.length = args.length → (∀ a ∈ args, a ≠ Term.other) → GoodT t → Fresh nb0 β →
    enumMatchesPattern (args.map (resolveTerm β)) t = true →
    enumNewBinds (args.map (resolveTerm β)) t nb0 = some nb →
    Ext nb0 nb ∧ Fresh nb β ∧ (GoodB nb0 → GoodB nb) ∧
    ∀ nbF, Ext nb nbF → Fresh nbF β → argsMatch (nbF ++ β) args t = true
  | [], [], nb0, nb, _, _, _, hf, _, hn => by
    simp only [List.map_nil, enumNewBinds, Option.some.injEq] at hn
    subst hn
    exact ⟨Ext.refl _, hf, id, fun _ _ _ => rfl⟩
  | [], _ :: _, _, _, hl, _, _, _, _, _ => by simp at hl
  | _ :: _, [], _, _, hl, _, _, _, _, _ => by simp at hl
  | a :: as, v :: vs, nb0, nb, hl, hs, hg, hf, hm, hn => by
    have hl' : vs.length = as.length := by simpa using hl
    have hs' : ∀ a' ∈ as, a' ≠ Term.other := fun a' ha' => hs a' (List.mem_cons_of_mem _ ha')
    have hg' : GoodT vs := fun w hw => hg w (List.mem_cons_of_mem _ hw)
    have hgv : GoodV v := hg v List.mem_cons_self
    cases a with
    | var x =>
      cases hx : β.lookup x with
      | some e =>
        simp only [List.map_cons, resolveTerm, hx, enumMatchesPattern, enumNewBinds, Bool.and_eq_true, beq_iff_eq] at hm hn
        obtain ⟨e1, e2, e3, e4⟩ := enum_sound β as vs nb0 nb hl' hs' hg' hf hm.2 hn
        refine ⟨e1, e2, e3, ?_⟩
        intro nbF hE hF
        simp only [argsMatch, Bool.and_eq_true]
        refine ⟨?_, e4 nbF hE hF⟩
        simp only [argMatches, lookup_append]
        cases hnl : nbF.lookup x with
        | none => simp only [hx]; rw [hm.1]; exact hgv
        | some w => have := hF x (by simp [hnl]); rw [hx] at this; cases this
      | none =>
        simp only [List.map_cons, resolveTerm, hx, enumMatchesPattern, enumNewBinds] at hm hn
        cases hn0 : nb0.lookup x with
        | some e =>
          simp only [hn0] at hn
          split at hn
          · rename_i hev
            have hev' : e = v := by simpa using hev
            obtain ⟨e1, e2, e3, e4⟩ := enum_sound β as vs nb0 nb hl' hs' hg' hf hm hn
            refine ⟨e1, e2, e3, ?_⟩
            intro nbF hE hF
            simp only [argsMatch, Bool.and_eq_true]
            refine ⟨?_, e4 nbF hE hF⟩
            simp only [argMatches, lookup_append, hE x e (e1 x e hn0)]
            rw [hev']; exact hgv
          · cases hn
        | none =>
          simp only [hn0] at hn
          have hf1 : Fresh ((x, v) :: nb0) β := by
            intro y hy
            by_cases hyx : y = x
            · subst hyx; exact hx
            · rw [lookup_cons_ne x y v nb0 hyx] at hy; exact hf y hy
          obtain ⟨e1, e2, e3, e4⟩ := enum_sound β as vs ((x, v) :: nb0) nb hl' hs' hg' hf1 hm hn
          refine ⟨?_, e2, ?_, ?_⟩
          · intro y w hy
            have hyx : y ≠ x := by intro he; subst he; rw [hn0] at hy; cases hy
            exact e1 y w (by rw [lookup_cons_ne x y v nb0 hyx]; exact hy)
          · intro hg0
            apply e3
            intro p hp
            rcases List.mem_cons.mp hp with rfl | hp
            · exact hgv
            · exact hg0 p hp
          · intro nbF hE hF
            simp only [argsMatch, Bool.and_eq_true]
            refine ⟨?_, e4 nbF hE hF⟩
            have : nbF.lookup x = some v := hE x v (e1 x v (lookup_cons_self x v nb0))
            simp only [argMatches, lookup_append, this]
            exact hgv
    | wild =>
      simp only [List.map_cons, resolveTerm, enumMatchesPattern, enumNewBinds] at hm hn
      obtain ⟨e1, e2, e3, e4⟩ := enum_sound β as vs nb0 nb hl' hs' hg' hf hm hn
      refine ⟨e1, e2, e3, ?_⟩
      intro nbF hE hF
      simp only [argsMatch, Bool.and_eq_true]
      exact ⟨rfl, e4 nbF hE hF⟩
    | int n =>
      cases hc : termToValue (Term.int n) with
      | none => simp [termToValue] at hc
      | some e =>
        simp only [List.map_cons, resolveTerm, hc, enumMatchesPattern, enumNewBinds, Bool.and_eq_true, beq_iff_eq] at hm hn
        obtain ⟨e1, e2, e3, e4⟩ := enum_sound β as vs nb0 nb hl' hs' hg' hf hm.2 hn
        refine ⟨e1, e2, e3, ?_⟩
        intro nbF hE hF
        simp only [argsMatch, Bool.and_eq_true]
        refine ⟨?_, e4 nbF hE hF⟩
        simp only [argMatches, hc]; rw [hm.1]; exact hgv
    | str n =>
      cases hc : termToValue (Term.str n) with
      | none => simp [termToValue] at hc
      | some e =>
        simp only [List.map_cons, resolveTerm, hc, enumMatchesPattern, enumNewBinds, Bool.and_eq_true, beq_iff_eq] at hm hn
        obtain ⟨e1, e2, e3, e4⟩ := enum_sound β as vs nb0 nb hl' hs' hg' hf hm.2 hn
        refine ⟨e1, e2, e3, ?_⟩
        intro nbF hE hF
        simp only [argsMatch, Bool.and_eq_true]
        refine ⟨?_, e4 nbF hE hF⟩
        simp only [argMatches, hc]; rw [hm.1]; exact hgv
    | bool n =>
      cases hc : termToValue (Term.bool n) with
      | none => simp [termToValue] at hc
      | some e =>
        simp only [List.map_cons, resolveTerm, hc, enumMatchesPattern, enumNewBinds, Bool.and_eq_true, beq_iff_eq] at hm hn
        obtain ⟨e1, e2, e3, e4⟩ := enum_sound β as vs nb0 nb hl' hs' hg' hf hm.2 hn
        refine ⟨e1, e2, e3, ?_⟩
        intro nbF hE hF
        simp only [argsMatch, Bool.and_eq_true]
        refine ⟨?_, e4 nbF hE hF⟩
        simp only [argMatches, hc]; rw [hm.1]; exact hgv
    | flt n =>
      cases hc : termToValue (Term.flt n) with
      | none => simp [termToValue] at hc
      | some e =>
        simp only [List.map_cons, resolveTerm, hc, enumMatchesPattern, enumNewBinds, Bool.and_eq_true, beq_iff_eq] at hm hn
        obtain ⟨e1, e2, e3, e4⟩ := enum_sound β as vs nb0 nb hl' hs' hg' hf hm.2 hn
        refine ⟨e1, e2, e3, ?_⟩
        intro nbF hE hF
        simp only [argsMatch, Bool.and_eq_true]
        refine ⟨?_, e4 nbF hE hF⟩
        simp only [argMatches, hc]; rw [hm.1]; exact hgv
    | other => exact absurd rfl (hs _ List.mem_cons_self)

/-! ### keys of the new bindings are variables of the atom -/

theorem resolveTerm_unb (β : Bindings) (t : Term) (x : String) (h : resolveTerm β t = .unb x) : t = .var x := by
  cases t with
  | var y =>
    simp only [resolveTerm] at h
    cases hy : β.lookup y with
    | none => simp only [hy, BT.unb.injEq] at h; rw [h]
    | some e => simp [hy] at h
  | wild => simp [resolveTerm] at h
  | other => simp [resolveTerm, termToValue] at h
  | int n => simp only [resolveTerm] at h; split at h <;> cases h
  | str n => simp only [resolveTerm] at h; split at h <;> cases h
  | bool n => simp only [resolveTerm] at h; split at h <;> cases h
  | flt n => simp only [resolveTerm] at h; split at h <;> cases h

theorem matchArgs_keys (β : Bindings) : ∀ (args : List Term) (t : Tuple) (nb0 nb : Bindings),
    matchArgs (args.map (resolveTerm β)) t nb0 = some nb → ∀ q ∈ nb, q ∈ nb0 ∨ q.1 ∈ varsOf args
  | [], _, nb0, nb, h, q, hq => by
    simp only [List.map_nil, matchArgs, Option.some.injEq] at h; subst h; exact Or.inl hq
  | _ :: _, [], _, _, h, _, _ => by simp [matchArgs] at h
  | a :: as, v :: vs, nb0, nb, h, q, hq => by
    have lift : q.1 ∈ varsOf as → q.1 ∈ varsOf (a :: as) := by
      intro hh
      simp only [varsOf, List.filterMap_cons]
      split
      · exact hh
      · exact List.mem_cons_of_mem _ hh
    simp only [List.map_cons, matchArgs] at h
    cases hr : resolveTerm β a with
    | conc e =>
      simp only [hr] at h
      split at h
      · rcases matchArgs_keys β as vs nb0 nb h q hq with h1 | h1
        · exact Or.inl h1
        · exact Or.inr (lift h1)
      · cases h
    | anon =>
      simp only [hr] at h
      rcases matchArgs_keys β as vs nb0 nb h q hq with h1 | h1
      · exact Or.inl h1
      · exact Or.inr (lift h1)
    | unb x =>
      have ha := resolveTerm_unb β a x hr
      subst ha
      simp only [hr] at h
      cases hn : nb0.lookup x with
      | some e =>
        simp only [hn] at h
        split at h
        · rcases matchArgs_keys β as vs nb0 nb h q hq with h1 | h1
          · exact Or.inl h1
          · exact Or.inr (lift h1)
        · cases h
      | none =>
        simp only [hn] at h
        rcases matchArgs_keys β as vs ((x, v) :: nb0) nb h q hq with h1 | h1
        · rcases List.mem_cons.mp h1 with rfl | h1
          · exact Or.inr (by simp [varsOf])
          · exact Or.inl h1
        · exact Or.inr (lift h1)

theorem enumNewBinds_keys (β : Bindings) : ∀ (args : List Term) (t : Tuple) (nb0 nb : Bindings),
    enumNewBinds (args.map (resolveTerm β)) t nb0 = some nb → ∀ q ∈ nb, q ∈ nb0 ∨ q.1 ∈ varsOf args
  | [], _, nb0, nb, h, q, hq => by
    simp only [List.map_nil, enumNewBinds, Option.some.injEq] at h; subst h; exact Or.inl hq
  | _ :: _, [], nb0, nb, h, q, hq => by
    simp only [List.map_cons] at h
    unfold enumNewBinds at h
    split at h <;> simp_all
  | a :: as, v :: vs, nb0, nb, h, q, hq => by
    have lift : q.1 ∈ varsOf as → q.1 ∈ varsOf (a :: as) := by
      intro hh
      simp only [varsOf, List.filterMap_cons]
      split
      · exact hh
      · exact List.mem_cons_of_mem _ hh
    simp only [List.map_cons] at h
    cases hr : resolveTerm β a with
    | conc e =>
      simp only [hr, enumNewBinds] at h
      rcases enumNewBinds_keys β as vs nb0 nb h q hq with h1 | h1
      · exact Or.inl h1
      · exact Or.inr (lift h1)
    | anon =>
      simp only [hr, enumNewBinds] at h
      rcases enumNewBinds_keys β as vs nb0 nb h q hq with h1 | h1
      · exact Or.inl h1
      · exact Or.inr (lift h1)
    | unb x =>
      have ha := resolveTerm_unb β a x hr
      subst ha
      simp only [hr, enumNewBinds] at h
      cases hn : nb0.lookup x with
      | some e =>
        simp only [hn] at h
        split at h
        · rcases enumNewBinds_keys β as vs nb0 nb h q hq with h1 | h1
          · exact Or.inl h1
          · exact Or.inr (lift h1)
        · cases h
      | none =>
        simp only [hn] at h
        rcases enumNewBinds_keys β as vs ((x, v) :: nb0) nb h q hq with h1 | h1
        · rcases List.mem_cons.mp h1 with rfl | h1
          · exact Or.inr (by simp [varsOf])
          · exact Or.inl h1
        · exact Or.inr (lift h1)

end ILV.Prov
