/-
  Lemmas about the session step system (ILV.Model.SStep) used by Props/C10.
-/
import ILV.Model.SStep
namespace ILV.SStep

@[simp] theorem setF_same {α} (f : Nat → α) (i : Nat) (v : α) : setF f i v i = v := by simp [setF]
theorem setF_other {α} (f : Nat → α) {i j : Nat} (v : α) (h : j ≠ i) : setF f i v j = f j := by simp [setF, h]

/-- the session an operation belongs to (none = persistent operation) -/
def sessionOf : Op → Option Sid
  | .pIns _ _ => none | .pDel _ _ => none
  | .sIns k _ _ => some k | .sRet k _ _ => some k | .sRule k => some k | .sClear k => some k | .qScan k _ => some k | .qCount k => some k

/-- a step of a session operation never changes the persistent relations nor another session -/
theorem step_session_confined {st st' : State} {t : Tid} {op : Op} {rest : List Op} {k : Sid}
    (hs : step st t = .ok st') (htodo : (st.threads t).todo = op :: rest) (hk : sessionOf op = some k) :
    st'.pers = st.pers ∧ ∀ j, j ≠ k → st'.sess j = st.sess j := by
  by_cases htn : t ≥ st.n
  · simp [step, htn] at hs
  cases op with
  | pIns r x => simp [sessionOf] at hk
  | pDel r x => simp [sessionOf] at hk
  | sIns k' r x =>
    simp only [sessionOf, Option.some.injEq] at hk; subst hk
    simp only [step, htn, htodo, if_false] at hs
    split at hs <;> cases hs <;> refine ⟨rfl, ?_⟩ <;> intro j hj <;> simp [setF_other _ _ hj]
  | sRet k' r x =>
    simp only [sessionOf, Option.some.injEq] at hk; subst hk
    simp only [step, htn, htodo, if_false] at hs
    split at hs <;> cases hs <;> refine ⟨rfl, ?_⟩ <;> intro j hj <;> simp [setF_other _ _ hj]
  | sRule k' =>
    simp only [sessionOf, Option.some.injEq] at hk; subst hk
    simp only [step, htn, htodo, if_false] at hs
    cases hs; refine ⟨rfl, ?_⟩; intro j hj; simp [setF_other _ _ hj]
  | sClear k' =>
    simp only [sessionOf, Option.some.injEq] at hk; subst hk
    simp only [step, htn, htodo, if_false] at hs
    cases hs; refine ⟨rfl, ?_⟩; intro j hj; simp [setF_other _ _ hj]
  | qScan k' r =>
    cases hpc : (st.threads t).pc <;> simp only [step, htn, htodo, hpc, if_false] at hs <;>
      (try split at hs) <;> cases hs <;> exact ⟨rfl, fun _ _ => rfl⟩
  | qCount k' =>
    cases hpc : (st.threads t).pc <;> simp only [step, htn, htodo, hpc, if_false] at hs <;>
      (try split at hs) <;> cases hs <;> exact ⟨rfl, fun _ _ => rfl⟩

/-- a step of a persistent operation never changes any session -/
theorem step_persistent_confined {st st' : State} {t : Tid} {op : Op} {rest : List Op}
    (hs : step st t = .ok st') (htodo : (st.threads t).todo = op :: rest) (hk : sessionOf op = none) :
    st'.sess = st.sess := by
  by_cases htn : t ≥ st.n
  · simp [step, htn] at hs
  cases op <;> simp [sessionOf] at hk <;> (simp only [step, htn, htodo, if_false] at hs; cases hs; rfl)

/-- what a query step of session `k` by thread `t` can see -/
structure SameView (st1 st2 : State) (k : Sid) (t : Tid) : Prop where
  n : st1.n = st2.n
  pers : st1.pers = st2.pers
  sess : st1.sess k = st2.sess k
  thread : st1.threads t = st2.threads t

/-- the next thread state of a query step is a function of (persistent snapshot, own session, own
    thread): everything else — other sessions, other threads — may differ arbitrarily -/
theorem query_step_own_view {st1 st2 st1' st2' : State} {t : Tid} {op : Op} {rest : List Op} {k : Sid}
    (hv : SameView st1 st2 k t) (htodo : (st1.threads t).todo = op :: rest)
    (hq : op = .qCount k ∨ ∃ r, op = .qScan k r)
    (h1 : step st1 t = .ok st1') (h2 : step st2 t = .ok st2') :
    st1'.threads t = st2'.threads t ∧ st1'.pers = st1.pers ∧ st1'.sess = st1.sess := by
  obtain ⟨p1, s1, n1, th1⟩ := st1
  obtain ⟨p2, s2, n2, th2⟩ := st2
  obtain ⟨hn, hp, hse, hth⟩ := hv
  simp only at hn hp hse hth htodo
  subst hn; subst hp
  have htodo2 : (th2 t).todo = op :: rest := by rw [← hth]; exact htodo
  by_cases htn : t ≥ n1
  · simp [step, htn] at h1
  rcases hq with hq | ⟨r, hq⟩ <;> subst hq
  · cases hpc : (th1 t).pc <;>
      (have hpc2 := hpc; rw [hth] at hpc2
       simp only [step, htn, htodo, hpc, if_false] at h1
       simp only [step, htn, htodo2, hpc2, if_false] at h2
       try rw [← hse] at h2
       try (split at h1 <;> rename_i hc <;> simp only [hc, if_true, if_false] at h2)
       all_goals (cases h1; cases h2; simp [hth]))
  · cases hpc : (th1 t).pc <;>
      (have hpc2 := hpc; rw [hth] at hpc2
       simp only [step, htn, htodo, hpc, if_false] at h1
       simp only [step, htn, htodo2, hpc2, if_false] at h2
       try rw [← hse] at h2
       try (split at h1 <;> rename_i hc <;> simp only [hc, if_true, if_false] at h2)
       all_goals (cases h1; cases h2; simp [hth]))

/-! ### the isolated vector is the set union: count = number of distinct facts -/
theorem dedup_of_nodup : ∀ l : List Tup, l.Nodup → dedup l = l := by
  intro l
  induction l with
  | nil => intro _; rfl
  | cons a l ih =>
    intro h
    have ⟨ha, hl⟩ := List.nodup_cons.mp h
    simp [dedup, ha, ih hl]

theorem mem_dedup : ∀ (l : List Tup) (x : Tup), x ∈ dedup l ↔ x ∈ l := by
  intro l
  induction l with
  | nil => intro x; simp [dedup]
  | cons a l ih =>
    intro x
    unfold dedup
    split
    · rename_i hc
      have hal : a ∈ l := by simpa using hc
      rw [ih]
      constructor
      · intro h; exact List.mem_cons_of_mem _ h
      · intro h; rcases List.mem_cons.mp h with h | h
        · subst h; exact hal
        · exact h
    · simp [ih]

theorem dedup_nodup : ∀ l : List Tup, (dedup l).Nodup := by
  intro l
  induction l with
  | nil => simp [dedup]
  | cons a l ih =>
    unfold dedup
    split
    · exact ih
    · rename_i hc
      refine List.nodup_cons.mpr ⟨?_, ih⟩
      rw [mem_dedup]; simpa using hc

theorem mem_foldl_addFresh (p : List Tup) : ∀ (f acc : List Tup) (x : Tup),
    x ∈ f.foldl (addFresh p) acc ↔ x ∈ acc ∨ (x ∈ f ∧ x ∉ p) := by
  intro f
  induction f with
  | nil => intro acc x; simp
  | cons a f ih =>
    intro acc x
    simp only [List.foldl_cons]
    rw [ih]
    unfold addFresh
    by_cases hc : (p.contains a || acc.contains a) = true
    · simp only [hc, if_true]
      simp only [Bool.or_eq_true, List.contains_iff_mem] at hc
      constructor
      · rintro (h | ⟨h1, h2⟩)
        · exact Or.inl h
        · exact Or.inr ⟨List.mem_cons_of_mem _ h1, h2⟩
      · rintro (h | ⟨h1, h2⟩)
        · exact Or.inl h
        · rcases List.mem_cons.mp h1 with h | h
          · subst h; rcases hc with hc | hc
            · exact absurd hc h2
            · exact Or.inl hc
          · exact Or.inr ⟨h, h2⟩
    · simp only [hc, Bool.false_eq_true, if_false]
      simp only [Bool.or_eq_true, List.contains_iff_mem, not_or] at hc
      simp only [List.mem_append, List.mem_cons, List.not_mem_nil, or_false]
      constructor
      · rintro ((h | h) | ⟨h1, h2⟩)
        · exact Or.inl h
        · subst h; exact Or.inr ⟨Or.inl rfl, hc.1⟩
        · exact Or.inr ⟨Or.inr h1, h2⟩
      · rintro (h | ⟨h1 | h1, h2⟩)
        · exact Or.inl (Or.inl h)
        · exact Or.inl (Or.inr h1)
        · exact Or.inr ⟨h1, h2⟩

theorem nodup_foldl_addFresh (p : List Tup) : ∀ (f acc : List Tup), acc.Nodup → (f.foldl (addFresh p) acc).Nodup := by
  intro f
  induction f with
  | nil => intro acc h; simpa using h
  | cons a f ih =>
    intro acc h
    simp only [List.foldl_cons]
    apply ih
    unfold addFresh
    split
    · exact h
    · rename_i hc
      simp only [Bool.or_eq_true, List.contains_iff_mem, not_or] at hc
      refine List.nodup_append.mpr ⟨h, by simp, ?_⟩
      intro x hx y hy hxy
      simp at hy; subst hy; subst hxy
      exact hc.2 hx

theorem mem_isolated (p f : List Tup) (x : Tup) : x ∈ isolated p f ↔ x ∈ p ∨ x ∈ f := by
  unfold isolated freshOf
  rw [List.mem_append, mem_foldl_addFresh]
  simp only [List.not_mem_nil, false_or]
  constructor
  · rintro (h | ⟨h, _⟩); exact Or.inl h; exact Or.inr h
  · rintro (h | h)
    · exact Or.inl h
    · by_cases hp : x ∈ p
      · exact Or.inl hp
      · exact Or.inr ⟨h, hp⟩

theorem isolated_nodup (p f : List Tup) (hp : p.Nodup) : (isolated p f).Nodup := by
  unfold isolated freshOf
  refine List.nodup_append.mpr ⟨hp, nodup_foldl_addFresh p f [] (by simp), ?_⟩
  intro a ha b hb hab
  subst hab
  have := (mem_foldl_addFresh p f [] a).mp hb
  simp only [List.not_mem_nil, false_or] at this
  exact this.2 ha

/-- set-semantics answer of the count query -/
def specCount (rules : Nat) (p f : List Tup) : List Tup :=
  if rules = 0 then [] else if (dedup (p ++ f)).isEmpty then [] else [(dedup (p ++ f)).length]

theorem isolated_length (p f : List Tup) (hp : p.Nodup) : (isolated p f).length = (dedup (p ++ f)).length := by
  apply List.Perm.length_eq
  apply (List.perm_ext_iff_of_nodup (isolated_nodup p f hp) (dedup_nodup _)).mpr
  intro x
  rw [mem_isolated, mem_dedup, List.mem_append]

theorem evalCount_eq_spec (rules : Nat) (p f : List Tup) (hp : p.Nodup) :
    evalCount rules p f = specCount rules p f := by
  have hl := isolated_length p f hp
  unfold evalCount specCount
  simp only [List.isEmpty_iff_length_eq_zero, hl]

/-- relations and session fact lists never hold a tuple twice -/
structure NodupInv (st : State) : Prop where
  pers : ∀ r, (st.pers r).Nodup
  sess : ∀ k r, ((st.sess k).facts r).Nodup

theorem nodup_init (progs : List (List Op)) : NodupInv (init progs) := by
  constructor <;> intros <;> simp [init]

theorem nodup_snoc {l : List Tup} {x : Tup} (h : l.Nodup) (hx : l.contains x = false) : (l ++ [x]).Nodup := by
  refine List.nodup_append.mpr ⟨h, by simp, ?_⟩
  intro a ha b hb hab
  simp at hb; subst hb; subst hab
  simp at hx; exact hx ha

theorem step_nodup {st st' : State} {t : Tid} (h : NodupInv st) (hs : step st t = .ok st') : NodupInv st' := by
  by_cases htn : t ≥ st.n
  · simp [step, htn] at hs
  cases htodo : (st.threads t).todo with
  | nil => simp [step, htn, htodo] at hs
  | cons op rest =>
    cases op with
    | pIns r x =>
      simp only [step, htn, htodo, if_false] at hs; cases hs
      refine ⟨?_, h.sess⟩
      intro r'
      by_cases hr : r' = r
      · subst hr; simp only [setF_same]
        split
        · exact h.pers r'
        · rename_i hc; exact nodup_snoc (h.pers r') (by simpa using hc)
      · simp only [setF_other _ _ hr]; exact h.pers r'
    | pDel r x =>
      simp only [step, htn, htodo, if_false] at hs; cases hs
      refine ⟨?_, h.sess⟩
      intro r'
      by_cases hr : r' = r
      · subst hr; simp only [setF_same]; exact (h.pers r').sublist (List.filter_sublist)
      · simp only [setF_other _ _ hr]; exact h.pers r'
    | sIns k r x =>
      simp only [step, htn, htodo, if_false] at hs
      split at hs
      · cases hs; exact ⟨h.pers, h.sess⟩
      · rename_i hc; cases hs
        refine ⟨h.pers, ?_⟩
        intro k' r'
        by_cases hk : k' = k
        · subst hk; simp only [setF_same]
          by_cases hr : r' = r
          · subst hr; simp only [setF_same]; exact nodup_snoc (h.sess k' r') (by simpa using hc)
          · simp only [setF_other _ _ hr]; exact h.sess k' r'
        · simp only [setF_other _ _ hk]; exact h.sess k' r'
    | sRet k r x =>
      simp only [step, htn, htodo, if_false] at hs
      split at hs
      · cases hs
        refine ⟨h.pers, ?_⟩
        intro k' r'
        by_cases hk : k' = k
        · subst hk; simp only [setF_same]
          by_cases hr : r' = r
          · subst hr; simp only [setF_same]; exact (h.sess k' r').sublist (List.erase_sublist)
          · simp only [setF_other _ _ hr]; exact h.sess k' r'
        · simp only [setF_other _ _ hk]; exact h.sess k' r'
      · cases hs; exact ⟨h.pers, h.sess⟩
    | sRule k =>
      simp only [step, htn, htodo, if_false] at hs; cases hs
      refine ⟨h.pers, ?_⟩
      intro k' r'
      by_cases hk : k' = k
      · subst hk; simp only [setF_same]; exact h.sess k' r'
      · simp only [setF_other _ _ hk]; exact h.sess k' r'
    | sClear k =>
      simp only [step, htn, htodo, if_false] at hs; cases hs
      refine ⟨h.pers, ?_⟩
      intro k' r'
      by_cases hk : k' = k
      · subst hk; simp only [setF_same]; simp
      · simp only [setF_other _ _ hk]; exact h.sess k' r'
    | qScan k r =>
      cases hpc : (st.threads t).pc <;> simp only [step, htn, htodo, hpc, if_false] at hs <;>
        (try split at hs) <;> cases hs <;> exact ⟨h.pers, h.sess⟩
    | qCount k =>
      cases hpc : (st.threads t).pc <;> simp only [step, htn, htodo, hpc, if_false] at hs <;>
        (try split at hs) <;> cases hs <;> exact ⟨h.pers, h.sess⟩

theorem lastState_nodup : ∀ (sched : List Tid) (st : State), NodupInv st → NodupInv (lastState st sched) := by
  intro sched
  induction sched with
  | nil => intro st h; exact h
  | cons t ts ih =>
    intro st h
    cases hs : step st t with
    | ok st' => simp only [lastState, hs]; exact ih st' (step_nodup h hs)
    | skip => simp only [lastState, hs]; exact ih st h

end ILV.SStep
