/-
  What a successful `pmEval` run guarantees (beyond `isFix`): its ranks are a stratification, and
  every head of stratum `k` stays *below* any database that is closed under the rules of that
  stratum and agrees with the result on the lower strata — i.e. the result is the stratum-wise
  **least** model. Proof along the run: stratum by stratum, round by round, by monotonicity.
-/
import ILV.Lemmas.Mono
import ILV.Lemmas.Engine
namespace ILV.DL
open ILV.Engine

/-! ### association-list plumbing -/

theorem get_append (upd db : DB) (g : String) :
    DB.get (upd ++ db) g = match upd.lookup g with | some v => v | none => DB.get db g := by
  unfold DB.get
  rw [List.lookup_append]
  cases upd.lookup g <;> rfl

theorem lookup_optMapM_pairs {β} (F : String → Option β) : ∀ (hs : List String) (upd : List (String × β)),
    optMapM (fun h => (F h).map (fun v => (h, v))) hs = some upd →
    (∀ g, g ∉ hs → upd.lookup g = none) ∧ (∀ g, g ∈ hs → ∃ v, F g = some v ∧ upd.lookup g = some v)
  | [], upd, h => by
    simp [optMapM] at h; subst h
    exact ⟨fun _ _ => rfl, fun g hg => by cases hg⟩
  | x :: xs, upd, h => by
    unfold optMapM at h
    cases hx : F x with
    | none => simp [hx] at h
    | some v =>
      cases hr : optMapM (fun h => (F h).map (fun v => (h, v))) xs with
      | none => simp [hx, hr] at h
      | some rest =>
        simp [hx, hr] at h
        subst h
        obtain ⟨ih1, ih2⟩ := lookup_optMapM_pairs F xs rest hr
        constructor
        · intro g hg
          have hne : g ≠ x := fun e => hg (e ▸ List.mem_cons_self ..)
          rw [lookup_cons_ne g x v rest hne]
          exact ih1 g (fun hc => hg (List.mem_cons_of_mem _ hc))
        · intro g hg
          by_cases hgx : g = x
          · subst hgx; exact ⟨v, hx, lookup_cons_self _ _ _⟩
          · rw [lookup_cons_ne g x v rest hgx]
            rcases List.mem_cons.1 hg with e | hg'
            · exact absurd e hgx
            · exact ih2 g hg'

theorem overlay_get_head (hs : List String) (db edb : DB) (g : String) (hg : g ∈ hs) :
    (overlay hs db edb).get g = db.get g := by
  unfold overlay
  rw [get_append]
  have : (hs.map (fun h => (h, db.get h))).lookup g = some (db.get g) := by
    induction hs with
    | nil => cases hg
    | cons x xs ih =>
      by_cases hgx : g = x
      · subst hgx; exact lookup_cons_self _ _ _
      · simp only [List.map_cons]
        rw [lookup_cons_ne g x _ _ hgx]
        rcases List.mem_cons.1 hg with e | hg'
        · exact absurd e hgx
        · exact ih hg'
  rw [this]

/-! ### one round, one stratum -/

/-- what one round does to every relation. -/
theorem roundStratum_get (hs : List String) (p : Program) (db db' : DB) (h : roundStratum hs p db = some db') :
    (∀ g, g ∉ hs → db'.get g = db.get g) ∧
    (∀ g, g ∈ hs → ∃ ts, evalRules db.get (clausesOf p g) = some ts ∧ db'.get g = unionT (db.get g) ts) := by
  unfold roundStratum at h
  split at h
  · rename_i upd hu
    cases h
    have hu' : optMapM (fun h => ((evalRules db.get (clausesOf p h)).map (fun ts => unionT (db.get h) ts)).map (fun v => (h, v))) hs = some upd := by
      have : (fun h => (evalRules db.get (clausesOf p h)).map (fun ts => (h, unionT (db.get h) ts))) =
          (fun h => ((evalRules db.get (clausesOf p h)).map (fun ts => unionT (db.get h) ts)).map (fun v => (h, v))) := by
        funext h; cases evalRules db.get (clausesOf p h) <;> rfl
      rw [← this]; exact hu
    obtain ⟨h1, h2⟩ := lookup_optMapM_pairs _ hs upd hu'
    constructor
    · intro g hg; rw [get_append, h1 g hg]
    · intro g hg
      obtain ⟨v, hv, hl⟩ := h2 g hg
      cases he : evalRules db.get (clausesOf p g) with
      | none => rw [he] at hv; cases hv
      | some ts =>
        rw [he] at hv
        simp only [Option.map_some, Option.some.injEq] at hv
        exact ⟨ts, rfl, by rw [get_append, hl, ← hv]⟩
  · cases h

/-- the invariant of the rounds of one stratum `hs` started from `db0`, against a target `F`. -/
structure Below (hs : List String) (db0 : DB) (F : String → List Tuple) (db : DB) : Prop where
  le : ∀ h, h ∈ hs → Sub (db.get h) (F h)
  frame : ∀ g, g ∉ hs → db.get g = db0.get g

/-- conditions under which the rules of the stratum, evaluated on any database satisfying the
    invariant, stay below `F`. -/
structure StratumOk (p : Program) (hs : List String) (db0 : DB) (F : String → List Tuple) : Prop where
  agg : ∀ h, h ∈ hs → ∀ r, r ∈ clausesOf p h → r.hasAgg = false
  pos : ∀ h, h ∈ hs → ∀ r, r ∈ clausesOf p h → ∀ a, a ∈ r.posAtoms → a.rel ∈ hs ∨ Sub (db0.get a.rel) (F a.rel)
  neg : ∀ h, h ∈ hs → ∀ r, r ∈ clausesOf p h → ∀ a, a ∈ r.negAtoms → a.rel ∉ hs ∧ MemEq (db0.get a.rel) (F a.rel)
  closed : ∀ h, h ∈ hs → ∃ tsF, evalRules F (clausesOf p h) = some tsF ∧ Sub tsF (F h)

theorem round_below (p : Program) (hs : List String) (db0 : DB) (F : String → List Tuple) (hok : StratumOk p hs db0 F)
    (db db' : DB) (hinv : Below hs db0 F db) (hr : roundStratum hs p db = some db') : Below hs db0 F db' := by
  obtain ⟨h1, h2⟩ := roundStratum_get hs p db db' hr
  constructor
  · intro h hh
    obtain ⟨ts, hev, hget⟩ := h2 h hh
    obtain ⟨tsF, hF, hsub⟩ := hok.closed h hh
    rw [hget]
    intro t ht
    rcases mem_unionT.1 ht with ht | ht
    · exact hinv.le h hh t ht
    · apply hsub
      refine evalRules_sub (clausesOf p h) (hok.agg h hh) ?_ ts tsF hev hF t ht
      intro r hr
      constructor
      · intro a ha
        rcases hok.pos h hh r hr a ha with hin | hsub0
        · exact hinv.le a.rel hin
        · by_cases hin : a.rel ∈ hs
          · exact hinv.le a.rel hin
          · rw [hinv.frame a.rel hin]; exact hsub0
      · intro a ha
        obtain ⟨hnin, hm⟩ := hok.neg h hh r hr a ha
        rw [hinv.frame a.rel hnin]; exact hm
  · intro g hg
    rw [h1 g hg]; exact hinv.frame g hg

theorem lfpStratum_below (p : Program) (hs : List String) (db0 : DB) (F : String → List Tuple) (hok : StratumOk p hs db0 F) :
    ∀ (fuel : Nat) (db db' : DB), Below hs db0 F db → lfpStratum hs p fuel db = some db' → Below hs db0 F db'
  | 0, _, _, _, h => by simp [lfpStratum] at h
  | fuel + 1, db, db', hinv, h => by
    unfold lfpStratum at h
    cases hr : roundStratum hs p db with
    | none => rw [hr] at h; cases h
    | some d =>
      rw [hr] at h
      simp only at h
      split at h
      · cases h; exact hinv
      · exact lfpStratum_below p hs db0 F hok fuel d db' (round_below p hs db0 F hok db d hinv hr) h

theorem lfpStratum_frame (p : Program) (hs : List String) :
    ∀ (fuel : Nat) (db db' : DB), lfpStratum hs p fuel db = some db' → ∀ g, g ∉ hs → db'.get g = db.get g
  | 0, _, _, h, _, _ => by simp [lfpStratum] at h
  | fuel + 1, db, db', h, g, hg => by
    unfold lfpStratum at h
    cases hr : roundStratum hs p db with
    | none => rw [hr] at h; cases h
    | some d =>
      rw [hr] at h
      simp only at h
      split at h
      · cases h; rfl
      · rw [lfpStratum_frame p hs fuel d db' h g hg, (roundStratum_get hs p db d hr).1 g hg]

/-! ### the strata -/

def stratumHeads (p : Program) (rk : Ranks) (k : Nat) : List String := (heads p).filter (fun h => Ranks.get rk h == k)

theorem mem_stratumHeads {p : Program} {rk : Ranks} {k : Nat} {h : String} :
    h ∈ stratumHeads p rk k ↔ h ∈ heads p ∧ Ranks.get rk h = k := by
  simp [stratumHeads, List.mem_filter]

theorem evalStrata_frame (p : Program) (rk : Ranks) (fuel : Nat) : ∀ (ks : List Nat) (db db' : DB),
    evalStrata p rk fuel ks db = some db' → ∀ g, (g ∈ heads p → Ranks.get rk g ∉ ks) → db'.get g = db.get g
  | [], db, db', h, g, _ => by simp [evalStrata] at h; subst h; rfl
  | k :: ks, db, db', h, g, hg => by
    unfold evalStrata at h
    cases hl : lfpStratum ((heads p).filter (fun h => Ranks.get rk h == k)) p fuel db with
    | none => rw [hl] at h; cases h
    | some d =>
      rw [hl] at h
      have hnot : g ∉ stratumHeads p rk k := by
        intro hc
        obtain ⟨hh, hr⟩ := mem_stratumHeads.1 hc
        exact hg hh (hr ▸ List.mem_cons_self ..)
      rw [evalStrata_frame p rk fuel ks d db' h g (fun hh hc => hg hh (List.mem_cons_of_mem _ hc)),
        lfpStratum_frame p _ fuel db d hl g hnot]

/-- **Stratum `k` of a successful run is below every closed target that agrees with the final
    result on the lower strata.** `ks` ascending, `k ∈ ks`; `db` the state before `ks`. -/
theorem evalStrata_below (p : Program) (rk : Ranks) (fuel : Nat) (k : Nat) (F : String → List Tuple)
    (hagg : ∀ r, r ∈ p → r.hasAgg = false)
    (hweak : ∀ r, r ∈ p → ∀ a, a ∈ r.posAtoms → Ranks.get rk a.rel ≤ Ranks.get rk r.hrel)
    (hstrict : ∀ r, r ∈ p → ∀ a, a ∈ r.negAtoms → Ranks.get rk a.rel < Ranks.get rk r.hrel)
    (hclosed : ∀ h, h ∈ heads p → ∃ tsF, evalRules F (clausesOf p h) = some tsF ∧ Sub tsF (F h)) :
    ∀ (ks : List Nat) (db dbf : DB), ks.Pairwise (· < ·) → k ∈ ks →
      evalStrata p rk fuel ks db = some dbf →
      (∀ h, h ∈ stratumHeads p rk k → Sub (db.get h) (F h)) →
      (∀ g, g ∉ heads p → MemEq (db.get g) (F g)) →
      (∀ g, g ∈ heads p → Ranks.get rk g < k → MemEq (dbf.get g) (F g)) →
      ∀ h, h ∈ stratumHeads p rk k → Sub (dbf.get h) (F h)
  | [], _, _, _, hk, _, _, _, _ => by cases hk
  | j :: ks, db, dbf, hpw, hk, hev, hstart, hnon, hlow => by
    have hpw' := List.pairwise_cons.1 hpw
    unfold evalStrata at hev
    cases hl : lfpStratum ((heads p).filter (fun h => Ranks.get rk h == j)) p fuel db with
    | none => rw [hl] at hev; cases hev
    | some d =>
      rw [hl] at hev
      by_cases hjk : j = k
      · subst hjk
        -- this is stratum k: run the rounds below F, later strata do not touch these heads
        have hkn : j ∉ ks := fun hc => Nat.lt_irrefl _ (hpw'.1 j hc)
        have hframe_low : ∀ g, g ∈ heads p → Ranks.get rk g < j → db.get g = dbf.get g := by
          intro g hg hr
          have hnotin : Ranks.get rk g ∉ j :: ks := by
            intro hc
            rcases List.mem_cons.1 hc with e | hc
            · exact Nat.lt_irrefl _ (e ▸ hr)
            · exact Nat.lt_irrefl _ (Nat.lt_trans (hpw'.1 _ hc) hr)
          exact (evalStrata_frame p rk fuel (j :: ks) db dbf (by unfold evalStrata; rw [hl]; exact hev) g (fun _ => hnotin)).symm
        have hok : StratumOk p (stratumHeads p rk j) db F := by
          refine ⟨?_, ?_, ?_, ?_⟩
          · intro h _ r hr; exact hagg r (List.mem_filter.1 hr).1
          · intro h hh r hr a ha
            have hrp := (List.mem_filter.1 hr)
            have hrel : r.hrel = h := by simpa using hrp.2
            have hle := hweak r hrp.1 a ha
            rw [hrel, (mem_stratumHeads.1 hh).2] at hle
            by_cases hah : a.rel ∈ heads p
            · rcases Nat.lt_or_eq_of_le hle with hlt' | heq
              · right; rw [hframe_low a.rel hah hlt']; exact (hlow a.rel hah hlt').sub
              · left; exact mem_stratumHeads.2 ⟨hah, heq⟩
            · right; exact (hnon a.rel hah).sub
          · intro h hh r hr a ha
            have hrp := (List.mem_filter.1 hr)
            have hrel : r.hrel = h := by simpa using hrp.2
            have hlt' := hstrict r hrp.1 a ha
            rw [hrel, (mem_stratumHeads.1 hh).2] at hlt'
            refine ⟨fun hc => Nat.lt_irrefl _ ((mem_stratumHeads.1 hc).2 ▸ hlt'), ?_⟩
            by_cases hah : a.rel ∈ heads p
            · rw [hframe_low a.rel hah hlt']; exact hlow a.rel hah hlt'
            · exact hnon a.rel hah
          · intro h hh; exact hclosed h (mem_stratumHeads.1 hh).1
        have hb := lfpStratum_below p (stratumHeads p rk j) db F hok fuel db d ⟨hstart, fun _ _ => rfl⟩ hl
        intro h hh
        rw [evalStrata_frame p rk fuel ks d dbf hev h (fun _ => (mem_stratumHeads.1 hh).2 ▸ hkn)]
        exact hb.le h hh
      · have hk' : k ∈ ks := by
          rcases List.mem_cons.1 hk with e | hk'
          · exact absurd e.symm hjk
          · exact hk'
        have hfr : ∀ g, g ∉ stratumHeads p rk j → d.get g = db.get g := lfpStratum_frame p _ fuel db d hl
        apply evalStrata_below p rk fuel k F hagg hweak hstrict hclosed ks d dbf hpw'.2 hk' hev
        · intro h hh
          have : h ∉ stratumHeads p rk j := fun hc => hjk ((mem_stratumHeads.1 hc).2.symm.trans (mem_stratumHeads.1 hh).2)
          rw [hfr h this]; exact hstart h hh
        · intro g hg
          have : g ∉ stratumHeads p rk j := fun hc => hg (mem_stratumHeads.1 hc).1
          rw [hfr g this]; exact hnon g hg
        · exact hlow

/-! ### the whole run -/

theorem get_pairs_head (f : String → List Tuple) (edb : DB) : ∀ (hs : List String) (g : String), g ∈ hs →
    DB.get (hs.map (fun h => (h, f h)) ++ edb) g = f g := by
  intro hs g hg
  rw [get_append]
  have : (hs.map (fun h => (h, f h))).lookup g = some (f g) := by
    induction hs with
    | nil => cases hg
    | cons x xs ih =>
      by_cases hgx : g = x
      · subst hgx; exact lookup_cons_self _ _ _
      · simp only [List.map_cons]
        rw [lookup_cons_ne g x _ _ hgx]
        rcases List.mem_cons.1 hg with e | hg'
        · exact absurd e hgx
        · exact ih hg'
  rw [this]

theorem get_pairs_nonhead (f : String → List Tuple) (edb : DB) : ∀ (hs : List String) (g : String), g ∉ hs →
    DB.get (hs.map (fun h => (h, f h)) ++ edb) g = DB.get edb g := by
  intro hs g hg
  rw [get_append]
  have : (hs.map (fun h => (h, f h))).lookup g = none := by
    induction hs with
    | nil => rfl
    | cons x xs ih =>
      have hgx : g ≠ x := fun e => hg (e ▸ List.mem_cons_self ..)
      simp only [List.map_cons]
      rw [lookup_cons_ne g x _ _ hgx]
      exact ih (fun hc => hg (List.mem_cons_of_mem _ hc))
  rw [this]

theorem pmEval_run {fuel : Nat} {p : Program} {edb m : DB} (h : pmEval fuel p edb = some m) :
    ∃ rk db, stratify p = some rk ∧
      evalStrata p rk fuel (List.range ((heads p).length + 1)) ((heads p).map (fun h => (h, dedupT (edb.get h))) ++ edb) = some db ∧
      m = overlay (heads p) db edb ∧ isFix p edb m = true := by
  unfold pmEval at h
  split at h
  · cases h
  · rename_i rk hst
    dsimp only at h
    split at h
    · rename_i db hev
      split at h
      · rename_i hfix
        cases h
        exact ⟨rk, db, hst, hev, rfl, hfix⟩
      · cases h
    · cases h

theorem stratify_ok {p : Program} {rk : Ranks} (h : stratify p = some rk) :
    ranksOk p rk = true ∧ ∀ hr, hr ∈ rk → hr.2 ≤ (heads p).length := by
  unfold stratify at h
  dsimp only at h
  split at h
  · rename_i hc
    cases h
    simp only [Bool.and_eq_true, List.all_eq_true, decide_eq_true_eq] at hc
    exact ⟨hc.2, hc.1.2⟩
  · cases h

theorem ranks_get_le {rk : Ranks} {n : Nat} (h : ∀ hr, hr ∈ rk → hr.2 ≤ n) (g : String) : Ranks.get rk g ≤ n := by
  unfold Ranks.get
  induction rk with
  | nil => simp
  | cons x xs ih =>
    obtain ⟨y, v⟩ := x
    by_cases hgy : g = y
    · subst hgy
      rw [lookup_cons_self]
      exact h (g, v) (List.mem_cons_self ..)
    · rw [lookup_cons_ne g y v xs hgy]
      exact ih (fun hr hm => h hr (List.mem_cons_of_mem _ hm))

/-- stratification inequalities for the atoms of aggregate-free rules. -/
theorem ranks_atoms {p : Program} {rk : Ranks} (hok : ranksOk p rk = true) (r : Rule) (hr : r ∈ p) (hagg : r.hasAgg = false) :
    (∀ a, a ∈ r.posAtoms → Ranks.get rk a.rel ≤ Ranks.get rk r.hrel) ∧
    (∀ a, a ∈ r.negAtoms → Ranks.get rk a.rel < Ranks.get rk r.hrel) := by
  unfold ranksOk at hok
  have := List.all_eq_true.1 hok r hr
  simp only [Bool.and_eq_true, List.all_eq_true, decide_eq_true_eq] at this
  constructor
  · intro a ha
    apply this.1
    unfold Rule.weakDeps
    rw [mem_dedupS]; exact List.mem_map.2 ⟨a, ha, rfl⟩
  · intro a ha
    apply this.2
    unfold Rule.strictDeps
    simp only [hagg, Bool.false_eq_true, if_false]
    rw [mem_dedupS]; exact List.mem_map.2 ⟨a, ha, rfl⟩

/-- **`pmEval` returns the stratum-wise least model**: stratum `k` of the result is below every
    database that is closed under all rules, reads the stored relations as stored, and agrees with
    the result on the strata below `k`. (Aggregate-free programs, heads without stored facts.) -/
theorem pmEval_least {fuel : Nat} {p : Program} {edb M : DB} (hpm : pmEval fuel p edb = some M)
    (hagg : ∀ r, r ∈ p → r.hasAgg = false) (hno : ∀ h, h ∈ heads p → edb.get h = [])
    (rk : Ranks) (hst : stratify p = some rk) (F : String → List Tuple)
    (hnon : ∀ g, g ∉ heads p → MemEq (edb.get g) (F g))
    (hclosed : ∀ h, h ∈ heads p → ∃ tsF, evalRules F (clausesOf p h) = some tsF ∧ Sub tsF (F h))
    (k : Nat) (hlow : ∀ g, g ∈ heads p → Ranks.get rk g < k → MemEq (M.get g) (F g)) :
    ∀ h, h ∈ heads p → Ranks.get rk h = k → Sub (M.get h) (F h) := by
  obtain ⟨rk', db, hst', hev, rfl, _⟩ := pmEval_run hpm
  rw [hst] at hst'; cases hst'
  obtain ⟨hok, hbound⟩ := stratify_ok hst
  intro h hh hrk
  rw [overlay_get_head _ _ _ h hh]
  have hk : k ∈ List.range ((heads p).length + 1) := by
    rw [List.mem_range, ← hrk]
    exact Nat.lt_succ_of_le (ranks_get_le hbound h)
  refine evalStrata_below p rk fuel k F hagg
    (fun r hr => (ranks_atoms hok r hr (hagg r hr)).1) (fun r hr => (ranks_atoms hok r hr (hagg r hr)).2)
    hclosed _ _ db List.pairwise_lt_range hk hev ?_ ?_ ?_ h (mem_stratumHeads.2 ⟨hh, hrk⟩)
  · intro g hg
    rw [get_pairs_head _ edb _ g (mem_stratumHeads.1 hg).1, hno g (mem_stratumHeads.1 hg).1]
    intro t ht; cases ht
  · intro g hg
    rw [get_pairs_nonhead _ edb _ g hg]; exact hnon g hg
  · intro g hg hr
    rw [← overlay_get_head (heads p) db edb g hg]; exact hlow g hg hr

end ILV.DL
