/-
  C18: the evaluator as a least fix-point — monotonicity, "converged ⇒ closed under its own rules",
  "every closed table set contains the result", and the two consequences used by the invariant:
  evaluations agree on a dependency-closed set of relations on which programs and inputs agree, and
  replacing the rules of some heads by their extensions (the published snapshot) changes nothing.
-/
import ILV.Lemmas.IncrRec
namespace ILV.C18

theorem mem_heads_clausesOf (prog : List Clause) (n : Name) : n ∈ heads prog ↔ clausesOf prog n ≠ [] := by
  rw [mem_heads]
  constructor
  · rintro ⟨c, hc, hn⟩ he
    have : c ∈ clausesOf prog n := List.mem_filter.mpr ⟨hc, by simp [hn]⟩
    rw [he] at this; simp at this
  · intro hne
    obtain ⟨c, hc⟩ := List.exists_mem_of_ne_nil _ hne
    have := List.mem_filter.mp hc
    exact ⟨c, this.1, by simpa using this.2⟩

/-! ### monotonicity -/

theorem solveBody_mono (db1 db2 : Name → List Tup) (body : List Atom)
    (h : ∀ a ∈ body, ∀ t ∈ db1 a.rel, t ∈ db2 a.rel) (e1 e2 : List Env) (he : ∀ e ∈ e1, e ∈ e2) :
    ∀ e ∈ solveBody db1 body e1, e ∈ solveBody db2 body e2 := by
  induction body generalizing e1 e2 with
  | nil => simpa [solveBody] using he
  | cons a as ih =>
    simp only [solveBody]
    apply ih (fun b hb => h b (List.mem_cons_of_mem _ hb))
    intro e hm
    obtain ⟨env, henv, hm2⟩ := List.mem_flatMap.mp hm
    obtain ⟨t, ht, hmt⟩ := List.mem_filterMap.mp hm2
    exact List.mem_flatMap.mpr ⟨env, he env henv, List.mem_filterMap.mpr ⟨t, h a (by simp) t ht, hmt⟩⟩

theorem fire_mono (db1 db2 : Name → List Tup) (c : Clause)
    (h : ∀ r ∈ bodyRels c, ∀ t ∈ db1 r, t ∈ db2 r) : ∀ t ∈ fire db1 c, t ∈ fire db2 c := by
  intro t ht
  unfold fire at *
  obtain ⟨e, he, het⟩ := List.mem_filterMap.mp ht
  exact List.mem_filterMap.mpr
    ⟨e, solveBody_mono db1 db2 c.body (fun a ha => h a.rel (List.mem_map.mpr ⟨a, ha, rfl⟩)) _ _ (fun _ x => x) e he, het⟩

theorem consequences_mono (prog : List Clause) (db1 db2 : Name → List Tup) (n : Name)
    (h : ∀ c ∈ prog, c.head.rel = n → ∀ r ∈ bodyRels c, ∀ t ∈ db1 r, t ∈ db2 r) :
    ∀ t ∈ consequences prog db1 n, t ∈ consequences prog db2 n := by
  intro t ht
  obtain ⟨c, hc, hn, hf⟩ := (mem_consequences prog db1 n t).mp ht
  exact (mem_consequences prog db2 n t).mpr ⟨c, hc, hn, fire_mono db1 db2 c (h c hc hn) t hf⟩

/-! ### converged ⇒ closed -/

theorem key_aget {β} {l : List (Name × β)} {n : Name} (h : n ∈ akeys l) : ∃ v, aget l n = some v := by
  induction l with
  | nil => simp [akeys] at h
  | cons p l ih =>
    obtain ⟨a, b⟩ := p
    by_cases e : a = n
    · exact ⟨b, by simp [aget, e]⟩
    · simp only [akeys, List.map_cons, List.mem_cons] at h
      rcases h with h | h
      · exact absurd h.symm e
      · obtain ⟨v, hv⟩ := ih h
        exact ⟨v, by simp [aget, e, hv]⟩

theorem evalProg_head (prog : List Clause) (inputs : List (Name × List Tup)) (n : Name) (hn : n ∈ heads prog) :
    ∃ tbl, aget (res prog inputs) n = some tbl ∧ evalProg prog inputs n = tbl := by
  obtain ⟨tbl, ht⟩ := key_aget (l := res prog inputs) (n := n) (by rw [akeys_res]; exact hn)
  exact ⟨tbl, ht, by rw [evalProg_eq]; simp [look, ht]⟩

/-- (L1) a converged evaluation is closed under the program's rules. -/
theorem evalProg_closed (prog : List Clause) (inputs : List (Name × List Tup)) (hc : conv prog inputs = true)
    (n : Name) (hn : n ∈ heads prog) :
    ∀ t ∈ consequences prog (evalProg prog inputs) n, t ∈ evalProg prog inputs n := by
  intro t ht
  obtain ⟨tbl, hg, he⟩ := evalProg_head prog inputs n hn
  have hst : tstep prog inputs (res prog inputs) = res prog inputs := by simpa [conv] using hc
  have h1 : aget (tstep prog inputs (res prog inputs)) n =
      some (addNew tbl (consequences prog (look inputs (res prog inputs)) n)) := by
    unfold tstep
    rw [aget_map_val (res prog inputs) (fun k v => addNew v (consequences prog (look inputs (res prog inputs)) k)) n, hg]
    rfl
  rw [hst, hg] at h1
  have h2 := Option.some.inj h1
  rw [he, h2, mem_addNew]
  exact Or.inr (by rw [evalProg_eq] at ht; exact ht)

/-! ### least-ness, relative to a dependency-closed set of relations -/

theorem look_d_nonhead (prog : List Clause) (inputs d : List (Name × List Tup)) (hk : akeys d = heads prog)
    (x : Name) (hx : x ∉ heads prog) : look inputs d x = inDb inputs x := by
  unfold look inDb
  rw [aget_none_of_not_key (by rw [hk]; exact hx)]

/-- (L2) every family of tables `db` that contains the inputs and is closed under the rules — on a
    set `U` of relations closed under "is read by a rule of" — contains the evaluation on `U`. -/
theorem evalProg_least (prog : List Clause) (inputs : List (Name × List Tup)) (U : Name → Prop)
    (db : Name → List Tup)
    (hU : ∀ c ∈ prog, U c.head.rel → ∀ r ∈ bodyRels c, U r)
    (hin : ∀ x, U x → x ∉ heads prog → ∀ t ∈ inDb inputs x, t ∈ db x)
    (hcl : ∀ h, U h → h ∈ heads prog → ∀ t ∈ consequences prog db h, t ∈ db h) :
    ∀ x, U x → ∀ t ∈ evalProg prog inputs x, t ∈ db x := by
  have key : ∀ (j : Nat) (d : List (Name × List Tup)), akeys d = heads prog →
      (∀ x, U x → ∀ t ∈ look inputs d x, t ∈ db x) →
      ∀ x, U x → ∀ t ∈ look inputs (tpow prog inputs j d) x, t ∈ db x := by
    intro j
    induction j with
    | zero => intro d _ h; exact h
    | succ j ih =>
      intro d hk hd
      simp only [tpow]
      apply ih (tstep prog inputs d) (by rw [akeys_tstep, hk])
      intro x hx t ht
      by_cases hh : x ∈ heads prog
      · obtain ⟨tbl, hg⟩ := key_aget (l := d) (n := x) (by rw [hk]; exact hh)
        have h1 : aget (tstep prog inputs d) x = some (addNew tbl (consequences prog (look inputs d) x)) := by
          unfold tstep
          rw [aget_map_val d (fun k v => addNew v (consequences prog (look inputs d) k)) x, hg]
          rfl
        have h2 : look inputs (tstep prog inputs d) x = addNew tbl (consequences prog (look inputs d) x) := by
          simp [look, h1]
        rw [h2, mem_addNew] at ht
        rcases ht with ht | ht
        · exact hd x hx t (by simp [look, hg]; exact ht)
        · apply hcl x hx hh
          exact consequences_mono prog (look inputs d) db x
            (fun c hc hcn r hr t' ht' => hd r (hU c hc (by rw [hcn]; exact hx) r hr) t' ht') t ht
      · rw [look_d_nonhead prog inputs _ (by rw [akeys_tstep, hk]) x hh] at ht
        exact hin x hx hh t ht
  intro x hx t ht
  obtain ⟨j, hj⟩ := iter_is_pow prog inputs (evalFuel prog inputs) (d0 prog)
  rw [evalProg_eq] at ht
  have hr : res prog inputs = tpow prog inputs j (d0 prog) := hj
  rw [hr] at ht
  refine key j (d0 prog) (akeys_d0 prog) ?_ x hx t ht
  intro y hy t' ht'
  by_cases hh : y ∈ heads prog
  · have : look inputs (d0 prog) y = [] := by
      unfold look d0; rw [aget_mapNames]; simp [hh]
    rw [this] at ht'; simp at ht'
  · rw [look_d_nonhead prog inputs _ (akeys_d0 prog) y hh] at ht'
    exact hin y hy hh t' ht'

theorem consequences_of_clausesOf (p1 p2 : List Clause) (db : Name → List Tup) (n : Name)
    (h : clausesOf p1 n = clausesOf p2 n) : consequences p1 db n = consequences p2 db n := by
  unfold consequences; rw [h]

/-- (T1) two converged evaluations agree on a set `U` of relations that is dependency-closed in both
    programs, on which the programs have the same clauses and the inputs the same tuples. -/
theorem evalProg_agree (p1 p2 : List Clause) (i1 i2 : List (Name × List Tup)) (U : Name → Prop)
    (hc1 : conv p1 i1 = true) (hc2 : conv p2 i2 = true)
    (hU1 : ∀ c ∈ p1, U c.head.rel → ∀ r ∈ bodyRels c, U r)
    (hcl : ∀ h, U h → clausesOf p1 h = clausesOf p2 h)
    (hin : ∀ x, U x → x ∉ heads p1 → inDb i1 x = inDb i2 x) :
    ∀ x, U x → SetEq (evalProg p1 i1 x) (evalProg p2 i2 x) := by
  have hheads : ∀ x, U x → (x ∈ heads p1 ↔ x ∈ heads p2) := by
    intro x hx; rw [mem_heads_clausesOf, mem_heads_clausesOf, hcl x hx]
  have hU2 : ∀ c ∈ p2, U c.head.rel → ∀ r ∈ bodyRels c, U r := by
    intro c hc hu r hr
    have : c ∈ clausesOf p2 c.head.rel := List.mem_filter.mpr ⟨hc, by simp⟩
    rw [← hcl _ hu] at this
    exact hU1 c (List.mem_filter.mp this).1 hu r hr
  intro x hx t
  constructor
  · refine evalProg_least p1 i1 U (evalProg p2 i2) hU1 ?_ ?_ x hx t
    · intro y hy hny t' ht'
      rw [evalProg_nonhead p2 i2 y (fun h => hny ((hheads y hy).mpr h)), ← hin y hy hny]
      exact ht'
    · intro h hh hhead t' ht'
      rw [consequences_of_clausesOf p1 p2 _ h (hcl h hh)] at ht'
      exact evalProg_closed p2 i2 hc2 h ((hheads h hh).mp hhead) t' ht'
  · refine evalProg_least p2 i2 U (evalProg p1 i1) hU2 ?_ ?_ x hx t
    · intro y hy hny t' ht'
      have hny1 : y ∉ heads p1 := fun h => hny ((hheads y hy).mp h)
      rw [evalProg_nonhead p1 i1 y hny1, hin y hy hny1]
      exact ht'
    · intro h hh hhead t' ht'
      rw [← consequences_of_clausesOf p1 p2 _ h (hcl h hh)] at ht'
      exact evalProg_closed p1 i1 hc1 h ((hheads h hh).mpr hhead) t' ht'

/-- (T2) EDB replacement: `p'` = `p` without the clauses of the heads in `M`, `i'` = `i` with, for each
    head in `M`, exactly the tuples `p` derives for it. Both converged. Then they derive the same. -/
theorem evalProg_replace (p p' : List Clause) (i i' : List (Name × List Tup)) (M : Name → Prop)
    (hc : conv p i = true) (hc' : conv p' i' = true)
    (hsub : ∀ c, c ∈ p' ↔ c ∈ p ∧ ¬ M c.head.rel)
    (hMhead : ∀ n, M n → n ∈ heads p)
    (hMin : ∀ n, M n → SetEq (inDb i' n) (evalProg p i n))
    (hother : ∀ n, ¬ M n → inDb i' n = inDb i n) :
    ∀ x, SetEq (evalProg p' i' x) (evalProg p i x) := by
  have hh' : ∀ x, x ∈ heads p' ↔ x ∈ heads p ∧ ¬ M x := by
    intro x
    rw [mem_heads, mem_heads]
    constructor
    · rintro ⟨c, hc1, hx⟩
      have := (hsub c).mp hc1
      exact ⟨⟨c, this.1, hx⟩, by rw [← hx]; exact this.2⟩
    · rintro ⟨⟨c, hc1, hx⟩, hm⟩
      exact ⟨c, (hsub c).mpr ⟨hc1, by rw [hx]; exact hm⟩, hx⟩
  -- first inclusion: the snapshot derives nothing new
  have hA : ∀ x, ∀ t ∈ evalProg p' i' x, t ∈ evalProg p i x := by
    intro x
    refine evalProg_least p' i' (fun _ => True) (evalProg p i) (fun _ _ _ _ _ => trivial) ?_ ?_ x trivial
    · intro y _ hny t ht
      by_cases hm : M y
      · exact ((hMin y hm) t).mp ht
      · have : y ∉ heads p := fun h => hny ((hh' y).mpr ⟨h, hm⟩)
        rw [evalProg_nonhead p i y this, ← hother y hm]; exact ht
    · intro h _ hhead t ht
      obtain ⟨c, hc1, hn, hf⟩ := (mem_consequences p' _ h t).mp ht
      exact evalProg_closed p i hc h ((hh' h).mp hhead).1 t
        ((mem_consequences p _ h t).mpr ⟨c, ((hsub c).mp hc1).1, hn, hf⟩)
  intro x t
  refine ⟨hA x t, ?_⟩
  refine evalProg_least p i (fun _ => True) (evalProg p' i') (fun _ _ _ _ _ => trivial) ?_ ?_ x trivial t
  · intro y _ hny t' ht'
    have hm : ¬ M y := fun hm => hny (hMhead y hm)
    have : y ∉ heads p' := fun h => hny ((hh' y).mp h).1
    rw [evalProg_nonhead p' i' y this, hother y hm]; exact ht'
  · intro h _ hhead t' ht'
    by_cases hm : M h
    · have hnh : h ∉ heads p' := fun hx => ((hh' h).mp hx).2 hm
      rw [evalProg_nonhead p' i' h hnh]
      apply ((hMin h hm) t').mpr
      apply evalProg_closed p i hc h hhead
      exact consequences_mono p (evalProg p' i') (evalProg p i) h (fun _ _ _ r _ t'' ht'' => hA r t'' ht'') t' ht'
    · apply evalProg_closed p' i' hc' h ((hh' h).mpr ⟨hhead, hm⟩)
      obtain ⟨c, hc1, hn, hf⟩ := (mem_consequences p _ h t').mp ht'
      exact (mem_consequences p' _ h t').mpr ⟨c, (hsub c).mpr ⟨hc1, by rw [hn]; exact hm⟩, hn, hf⟩

end ILV.C18
