/-
  C18: lemmas about the manager's operations (merge into the snapshot, valid materialisations,
  register / remove / transitive notify / reindex) and small list facts.
-/
import ILV.Lemmas.IncrEval
namespace ILV.C18

abbrev b2dOf (i : Inc) (r : Name) : List Name := (aget i.b2d r).getD []

/-! ### merging materialisations into the snapshot's input tuples -/

theorem aget_mergeMats_not_key (f : List (Name × List Tup)) (vm : List (Name × List Tup)) (r : Name)
    (h : r ∉ akeys vm) : aget (mergeMats f vm) r = aget f r := by
  induction vm generalizing f with
  | nil => rfl
  | cons p l ih =>
    obtain ⟨n, ts⟩ := p
    simp only [akeys, List.map_cons, List.mem_cons, not_or] at h
    simp only [mergeMats]
    rw [ih _ (by simpa [akeys] using h.2)]
    exact aget_aset_ne _ _ _ _ (fun e => h.1 e.symm)

theorem inDb_mergeMats_key (f : List (Name × List Tup)) (vm : List (Name × List Tup)) (r : Name) (ts : List Tup)
    (hn : (akeys vm).Nodup) (h : (r, ts) ∈ vm) : inDb (mergeMats f vm) r = inDb f r ++ ts := by
  induction vm generalizing f with
  | nil => simp at h
  | cons p l ih =>
    obtain ⟨n, ts'⟩ := p
    simp only [akeys, List.map_cons, List.nodup_cons] at hn
    simp only [mergeMats]
    rcases List.mem_cons.mp h with h1 | h1
    · cases h1
      unfold inDb
      rw [aget_mergeMats_not_key _ _ _ hn.1, aget_aset_eq]
      rfl
    · have hne : n ≠ r := by
        intro e; subst e
        exact hn.1 (List.mem_map.mpr ⟨(n, ts), h1, rfl⟩)
      rw [ih _ hn.2 h1]
      unfold inDb
      rw [aget_aset_ne _ _ _ _ hne]

/-! ### valid materialisations -/

def vmOf (l : List (Name × Mat)) : List (Name × List Tup) :=
  l.filterMap fun p => if p.2.valid then some (p.1, p.2.tuples) else none

theorem validMats_eq (i : Inc) : validMats i = vmOf i.mats := rfl

theorem mem_vmOf (l : List (Name × Mat)) (n : Name) (ts : List Tup) :
    (n, ts) ∈ vmOf l ↔ ∃ m, (n, m) ∈ l ∧ m.valid = true ∧ m.tuples = ts := by
  unfold vmOf
  simp only [List.mem_filterMap]
  constructor
  · rintro ⟨⟨a, m⟩, hm, h⟩
    by_cases hv : m.valid = true
    · simp [hv] at h
      exact ⟨m, by rw [← h.1]; exact hm, hv, h.2⟩
    · simp [hv] at h
  · rintro ⟨m, hm, hv, ht⟩
    exact ⟨(n, m), hm, by simp [hv, ht]⟩

theorem akeys_vmOf_sub (l : List (Name × Mat)) (n : Name) (h : n ∈ akeys (vmOf l)) : n ∈ akeys l := by
  obtain ⟨⟨a, ts⟩, hm, rfl⟩ := List.mem_map.mp h
  obtain ⟨m, hm', _, _⟩ := (mem_vmOf l a ts).mp hm
  exact List.mem_map.mpr ⟨(a, m), hm', rfl⟩

theorem nodup_vmOf (l : List (Name × Mat)) (h : (akeys l).Nodup) : (akeys (vmOf l)).Nodup := by
  induction l with
  | nil => simp [vmOf, akeys]
  | cons p l ih =>
    obtain ⟨a, m⟩ := p
    simp only [akeys, List.map_cons, List.nodup_cons] at h
    have ih' := ih h.2
    unfold vmOf at *
    by_cases hv : m.valid = true
    · simp only [List.filterMap_cons, hv, if_true, akeys, List.map_cons, List.nodup_cons]
      refine ⟨?_, ih'⟩
      intro hm
      exact h.1 (akeys_vmOf_sub l a hm)
    · simp only [List.filterMap_cons, hv]
      exact ih'

theorem isValid_iff (i : Inc) (n : Name) : isValid i n = true ↔ ∃ m, aget i.mats n = some m ∧ m.valid = true := by
  unfold isValid
  cases h : aget i.mats n with
  | none => simp
  | some m => simp

theorem mem_validMats_iff (i : Inc) (hn : (akeys i.mats).Nodup) (n : Name) (ts : List Tup) :
    (n, ts) ∈ validMats i ↔ ∃ m, aget i.mats n = some m ∧ m.valid = true ∧ m.tuples = ts := by
  rw [validMats_eq, mem_vmOf]
  constructor
  · rintro ⟨m, hm, hv, ht⟩; exact ⟨m, mem_aget_of_nodup hn hm, hv, ht⟩
  · rintro ⟨m, hm, hv, ht⟩; exact ⟨m, aget_some_mem hm, hv, ht⟩

theorem key_validMats_iff (i : Inc) (hn : (akeys i.mats).Nodup) (n : Name) :
    n ∈ akeys (validMats i) ↔ isValid i n = true := by
  rw [isValid_iff]
  constructor
  · intro h
    obtain ⟨⟨a, ts⟩, hm, rfl⟩ := List.mem_map.mp h
    obtain ⟨m, h1, h2, _⟩ := (mem_validMats_iff i hn a ts).mp hm
    exact ⟨m, h1, h2⟩
  · rintro ⟨m, h1, h2⟩
    exact List.mem_map.mpr ⟨(n, m.tuples), (mem_validMats_iff i hn n m.tuples).mpr ⟨m, h1, h2, rfl⟩, rfl⟩

/-- `register`'s update of `base_to_derived`. -/
def regB2d (b2d : List (Name × List Name)) (deps : List Name) (n : Name) : List (Name × List Name) :=
  deps.foldl (fun acc b => aset acc b (sins ((aget acc b).getD []) n)) b2d

theorem regB2d_mono (b2d : List (Name × List Name)) (deps : List Name) (n x r : Name)
    (h : x ∈ (aget b2d r).getD []) : x ∈ (aget (regB2d b2d deps n) r).getD [] := by
  unfold regB2d
  induction deps generalizing b2d with
  | nil => exact h
  | cons b deps ih =>
    simp only [List.foldl_cons]
    apply ih
    by_cases hb : b = r
    · subst hb
      rw [aget_aset_eq]
      exact (mem_sins _ _ _).mpr (Or.inl h)
    · rw [aget_aset_ne _ _ _ _ hb]; exact h

theorem regB2d_new (b2d : List (Name × List Name)) (deps : List Name) (n r : Name) (h : r ∈ deps) :
    n ∈ (aget (regB2d b2d deps n) r).getD [] := by
  induction deps generalizing b2d with
  | nil => simp at h
  | cons b deps ih =>
    rcases List.mem_cons.mp h with e | e
    · subst e
      have : n ∈ (aget (aset b2d r (sins ((aget b2d r).getD []) n)) r).getD [] := by
        rw [aget_aset_eq]; exact (mem_sins _ _ _).mpr (Or.inr rfl)
      exact regB2d_mono _ deps n n r this
    · exact ih _ e

theorem register_b2d (i : Inc) (n : Name) (deps : List Name) : (i.register n deps).b2d = regB2d i.b2d deps n := rfl
theorem register_mats (i : Inc) (n : Name) (deps : List Name) : (i.register n deps).mats = i.mats := rfl
theorem register_d2d (i : Inc) (n : Name) (deps : List Name) : (i.register n deps).d2d = i.d2d := rfl

theorem mem_clauseDeps (c : Clause) (r : Name) : r ∈ clauseDeps c ↔ r ∈ bodyRels c ∧ r ≠ c.head.rel := by
  simp [clauseDeps, mem_dedupNames, List.mem_filter]

/-- `remove`'s update of `base_to_derived`. -/
def remB2d (b2d : List (Name × List Name)) (deps : List Name) (n : Name) : List (Name × List Name) :=
  deps.foldl (fun acc b => match aget acc b with
    | some ds => aset acc b (ds.filter (· ≠ n))
    | none => acc) b2d

theorem remB2d_keep (b2d : List (Name × List Name)) (deps : List Name) (n x r : Name) (hx : x ≠ n)
    (h : x ∈ (aget b2d r).getD []) : x ∈ (aget (remB2d b2d deps n) r).getD [] := by
  unfold remB2d
  induction deps generalizing b2d with
  | nil => exact h
  | cons b deps ih =>
    simp only [List.foldl_cons]
    apply ih
    cases hg : aget b2d b with
    | none => exact h
    | some ds =>
      simp only
      by_cases hb : b = r
      · subst hb
        rw [aget_aset_eq]
        rw [hg] at h
        simp only [Option.getD_some] at h ⊢
        exact List.mem_filter.mpr ⟨h, by simpa using hx⟩
      · rw [aget_aset_ne _ _ _ _ hb]; exact h

theorem remove_b2d_keep (i : Inc) (n x r : Name) (hx : x ≠ n) (h : x ∈ b2dOf i r) : x ∈ b2dOf (i.remove n) r := by
  unfold b2dOf Inc.remove
  simp only
  cases hg : aget i.d2b n with
  | none => exact h
  | some deps => exact remB2d_keep i.b2d deps n x r hx h

theorem remove_mats (i : Inc) (n : Name) : (i.remove n).mats = aerase i.mats n := rfl
theorem remove_d2d (i : Inc) (n : Name) : (i.remove n).d2d = aerase i.d2d n := rfl

/-! ### small list facts -/

theorem mem_removeAt {α} (l : List α) (k : Nat) (x : α) (h : x ∈ removeAt l k) : x ∈ l := by
  induction l generalizing k with
  | nil => simp [removeAt] at h
  | cons a l ih =>
    cases k with
    | zero => simp only [removeAt] at h; exact List.mem_cons_of_mem _ h
    | succ k =>
      simp only [removeAt, List.mem_cons] at h
      rcases h with e | e
      · subst e; simp
      · exact List.mem_cons_of_mem _ (ih k e)

theorem mem_replaceAt {α} (l : List α) (k : Nat) (v x : α) (h : x ∈ replaceAt l k v) : x = v ∨ x ∈ l := by
  induction l generalizing k with
  | nil => simp [replaceAt] at h
  | cons a l ih =>
    cases k with
    | zero =>
      simp only [replaceAt, List.mem_cons] at h
      rcases h with e | e
      · exact Or.inl e
      · exact Or.inr (List.mem_cons_of_mem _ e)
    | succ k =>
      simp only [replaceAt, List.mem_cons] at h
      rcases h with e | e
      · subst e; exact Or.inr (by simp)
      · rcases ih k e with e' | e'
        · exact Or.inl e'
        · exact Or.inr (List.mem_cons_of_mem _ e')

theorem mem_insertSorted (n x : Name) (l : List Name) : x ∈ insertSorted n l ↔ x = n ∨ x ∈ l := by
  induction l with
  | nil => simp [insertSorted]
  | cons a l ih =>
    cases h : nameLe n a with
    | true => simp [insertSorted, h]
    | false =>
      simp only [insertSorted, h, Bool.false_eq_true, if_false, List.mem_cons, ih]
      constructor
      · rintro (e | e | e)
        · exact Or.inr (Or.inl e)
        · exact Or.inl e
        · exact Or.inr (Or.inr e)
      · rintro (e | e | e)
        · exact Or.inr (Or.inl e)
        · exact Or.inl e
        · exact Or.inr (Or.inr e)

theorem mem_sortNames (l : List Name) (x : Name) : x ∈ sortNames l ↔ x ∈ l := by
  induction l with
  | nil => simp [sortNames]
  | cons a l ih =>
    have : sortNames (a :: l) = insertSorted a (sortNames l) := rfl
    rw [this, mem_insertSorted, ih]; simp

theorem mapInc_id (s : St) : mapInc s (fun i => i) = s := by
  cases s with
  | mk f a c inc sn => cases inc <;> rfl

theorem match_inc_eq (s1 : St) (g : Inc → Inc) :
    (match s1.inc with
      | some i => { s1 with inc := some (g i) }
      | none => s1) = mapInc s1 g := by
  cases s1 with
  | mk f a c inc sn => cases inc <;> rfl

theorem contains_iff {l : List Name} {x : Name} : l.contains x = true ↔ x ∈ l := List.contains_iff_mem


/-! ### the transitive dependents -/

theorem mem_addNames (l ns : List Name) (x : Name) : x ∈ addNames l ns ↔ x ∈ l ∨ x ∈ ns := by
  induction ns generalizing l with
  | nil => simp [addNames]
  | cons a ns ih =>
    by_cases h : a ∈ l
    · simp only [addNames, h, if_true, ih, List.mem_cons]
      constructor
      · rintro (e | e)
        · exact Or.inl e
        · exact Or.inr (Or.inr e)
      · rintro (e | e | e)
        · exact Or.inl e
        · subst e; exact Or.inl h
        · exact Or.inr e
    · simp only [addNames, h, if_false, ih, List.mem_append, List.mem_cons, List.not_mem_nil, or_false]
      constructor
      · rintro ((e | e) | e)
        · exact Or.inl e
        · exact Or.inr (Or.inl e)
        · exact Or.inr (Or.inr e)
      · rintro (e | e | e)
        · exact Or.inl (Or.inl e)
        · exact Or.inl (Or.inr e)
        · exact Or.inr e

theorem grow_sub (i : Inc) (s : List Name) (x : Name) (h : x ∈ s) : x ∈ grow i s :=
  (mem_addNames _ _ _).mpr (Or.inl h)

theorem closeFuel_sub (i : Inc) (k : Nat) (s : List Name) (x : Name) (h : x ∈ s) : x ∈ closeFuel i k s := by
  induction k generalizing s with
  | zero => exact h
  | succ k ih =>
    simp only [closeFuel]
    split
    · exact h
    · exact ih _ (grow_sub i s x h)

theorem mem_depUniverse (i : Inc) (y h : Name) (hs : h ∈ succs i y) : h ∈ depUniverse i := by
  unfold depUniverse
  rw [mem_dedupNames, List.mem_append]
  unfold succs at hs
  rcases List.mem_append.mp hs with e | e
  · left
    cases hg : aget i.b2d y with
    | none => simp [hg] at e
    | some l =>
      simp only [hg, Option.getD_some] at e
      exact List.mem_flatMap.mpr ⟨(y, l), aget_some_mem hg, e⟩
  · right
    cases hg : aget i.d2d y with
    | none => simp [hg] at e
    | some l =>
      simp only [hg, Option.getD_some] at e
      exact List.mem_flatMap.mpr ⟨(y, l), aget_some_mem hg, e⟩

theorem reach_seed (i : Inc) (base h : Name) (hs : h ∈ succs i base) : h ∈ reachFrom i base := by
  unfold reachFrom
  simp only
  split
  · exact closeFuel_sub i _ _ h ((mem_dedupNames _ _).mpr hs)
  · exact mem_depUniverse i base h hs

theorem reach_closed (i : Inc) (base y h : Name) (hy : y ∈ reachFrom i base) (hs : h ∈ succs i y) :
    h ∈ reachFrom i base := by
  unfold reachFrom at hy ⊢
  simp only at hy ⊢
  split
  · next hc =>
    rw [if_pos hc] at hy
    simp only [isClosed, List.all_eq_true, List.contains_iff_mem] at hc
    exact hc h (List.mem_flatMap.mpr ⟨y, hy, hs⟩)
  · exact mem_depUniverse i y h hs

theorem succs_of_b2d (i : Inc) (y h : Name) (hb : h ∈ b2dOf i y) : h ∈ succs i y :=
  List.mem_append_left _ hb

theorem reachFrom_congr (i1 i2 : Inc) (hb : i1.b2d = i2.b2d) (hd : i1.d2d = i2.d2d) (r : Name) :
    reachFrom i1 r = reachFrom i2 r := by
  have hs : succs i1 = succs i2 := by funext x; simp [succs, hb, hd]
  have hg : grow i1 = grow i2 := by funext s; simp [grow, hs]
  have hcf : ∀ k s, closeFuel i1 k s = closeFuel i2 k s := by
    intro k
    induction k with
    | zero => intro s; rfl
    | succ k ih => intro s; simp only [closeFuel, hg, ih]
  have hu : depUniverse i1 = depUniverse i2 := by simp [depUniverse, hb, hd]
  have hc : isClosed i1 = isClosed i2 := by funext s; simp [isClosed, hs]
  simp only [reachFrom, hs, hcf, hu, hc]

/-! ### notify -/

def invF (i : Inc) (r : Name) (n : Name) (m : Mat) : Mat :=
  if n ∈ reachFrom i r then { m with valid := false } else m

theorem notify_mats_eq (i : Inc) (r : Name) :
    (i.notify r).mats = i.mats.map fun p => (p.1, invF i r p.1 p.2) := by
  unfold Inc.notify invF
  simp only
  apply List.map_congr_left
  intro p _
  split <;> rfl

theorem notify_valid (i : Inc) (r n : Name) (m : Mat) (h : aget (i.notify r).mats n = some m) (hv : m.valid = true) :
    aget i.mats n = some m ∧ n ∉ reachFrom i r := by
  rw [notify_mats_eq, aget_map_val i.mats (invF i r)] at h
  cases hg : aget i.mats n with
  | none => simp [hg] at h
  | some m0 =>
    simp only [hg, Option.map_some, Option.some.injEq, invF] at h
    by_cases hin : n ∈ reachFrom i r
    · simp only [hin, if_true] at h
      rw [← h] at hv
      simp at hv
    · simp only [hin, if_false] at h
      subst h
      exact ⟨rfl, hin⟩

theorem notify_b2d (i : Inc) (r : Name) : (i.notify r).b2d = i.b2d := rfl
theorem notify_d2d (i : Inc) (r : Name) : (i.notify r).d2d = i.d2d := rfl
theorem notify_keys (i : Inc) (r : Name) : akeys (i.notify r).mats = akeys i.mats := by
  rw [notify_mats_eq, akeys_map_val i.mats (invF i r)]


/-- What an update of the manager guarantees, in the form the invariant needs. `X` = the names whose
    facts or clauses changed. Some "dirty" set `D` catches every OLD dependency edge leaving `X ∪ D`;
    every materialisation still valid afterwards is an old valid one outside `D`; edges into names
    outside `X` survive. -/
structure Upd (i i' : Inc) (X : Name → Prop) : Prop where
  nodup : (akeys i.mats).Nodup → (akeys i'.mats).Nodup
  d2d : i.d2d = [] → i'.d2d = []
  dirty : ∃ D : Name → Prop,
    (∀ x h, X x → h ∈ b2dOf i x → X h ∨ D h) ∧ (∀ y h, D y → h ∈ b2dOf i y → X h ∨ D h) ∧
    (∀ n m, aget i'.mats n = some m → m.valid = true → aget i.mats n = some m ∧ ¬ D n)
  keep : ∀ h y, ¬ X h → h ∈ b2dOf i y → h ∈ b2dOf i' y

theorem upd_refl (i : Inc) : Upd i i (fun _ => False) :=
  ⟨id, id, ⟨fun _ => False, fun _ _ h => h.elim, fun _ _ h => h.elim, fun _ _ h _ => ⟨h, id⟩⟩, fun _ _ _ h => h⟩

theorem upd_congr {i i' : Inc} {X Y : Name → Prop} (h : Upd i i' X) (hXY : ∀ x, X x ↔ Y x) : Upd i i' Y := by
  obtain ⟨D, hs, hc, hv⟩ := h.dirty
  refine ⟨h.nodup, h.d2d, ⟨D, ?_, ?_, hv⟩, ?_⟩
  · intro x hh hx hb
    rcases hs x hh ((hXY x).mpr hx) hb with e | e
    · exact Or.inl ((hXY hh).mp e)
    · exact Or.inr e
  · intro y hh hy hb
    rcases hc y hh hy hb with e | e
    · exact Or.inl ((hXY hh).mp e)
    · exact Or.inr e
  · intro hh y hY hb
    exact h.keep hh y (fun hx => hY ((hXY hh).mp hx)) hb

/-- composition: first `X1`, then `X2`. -/
theorem upd_trans {i1 i2 i3 : Inc} {X1 X2 : Name → Prop} (h1 : Upd i1 i2 X1) (h2 : Upd i2 i3 X2) :
    Upd i1 i3 (fun x => X1 x ∨ X2 x) := by
  obtain ⟨D1, hs1, hc1, hv1⟩ := h1.dirty
  obtain ⟨D2, hs2, hc2, hv2⟩ := h2.dirty
  refine ⟨fun h => h2.nodup (h1.nodup h), fun h => h2.d2d (h1.d2d h), ?_, ?_⟩
  · refine ⟨fun y => D1 y ∨ D2 y, ?_, ?_, ?_⟩
    · rintro x h (hx | hx) hb
      · rcases hs1 x h hx hb with e | e
        · exact Or.inl (Or.inl e)
        · exact Or.inr (Or.inl e)
      · by_cases hX : X1 h
        · exact Or.inl (Or.inl hX)
        · rcases hs2 x h hx (h1.keep h x hX hb) with e | e
          · exact Or.inl (Or.inr e)
          · exact Or.inr (Or.inr e)
    · rintro y h (hy | hy) hb
      · rcases hc1 y h hy hb with e | e
        · exact Or.inl (Or.inl e)
        · exact Or.inr (Or.inl e)
      · by_cases hX : X1 h
        · exact Or.inl (Or.inl hX)
        · rcases hc2 y h hy (h1.keep h y hX hb) with e | e
          · exact Or.inl (Or.inr e)
          · exact Or.inr (Or.inr e)
    · intro n m hm hv
      obtain ⟨hm2, hd2⟩ := hv2 n m hm hv
      obtain ⟨hm1, hd1⟩ := hv1 n m hm2 hv
      exact ⟨hm1, fun hd => hd.elim hd1 hd2⟩
  · intro h y hX hb
    exact h2.keep h y (fun hx => hX (Or.inr hx)) (h1.keep h y (fun hx => hX (Or.inl hx)) hb)

theorem notify_upd (i : Inc) (r : Name) : Upd i (i.notify r) (fun x => x = r) := by
  refine ⟨fun h => by rw [notify_keys]; exact h, fun h => h, ⟨fun y => y ∈ reachFrom i r, ?_, ?_, ?_⟩, fun _ _ _ h => h⟩
  · intro x h hx hb
    subst hx
    exact Or.inr (reach_seed i x h (succs_of_b2d i x h hb))
  · intro y h hy hb
    exact Or.inr (reach_closed i r y h hy (succs_of_b2d i y h hb))
  · intro n m hm hv
    exact notify_valid i r n m hm hv

theorem reindex_mats (i : Inc) (x : Name) (cls : List Clause) (n : Name) (m : Mat)
    (hm : aget (i.reindex x cls).mats n = some m) (hv : m.valid = true) :
    aget i.mats n = some m ∧ n ≠ x ∧
      n ∉ reachFrom (if cls.isEmpty then i.remove x else (i.remove x).register x (allDeps cls x)) x := by
  unfold Inc.reindex at hm
  simp only at hm
  obtain ⟨h1, h2⟩ := notify_valid _ x n m hm hv
  have h3 : aget (aerase i.mats x) n = some m := by
    split at h1
    · exact h1
    · exact h1
  have hne := (mem_aerase (aget_some_mem h3)).2
  rw [aget_aerase_ne _ _ _ (fun e => hne e.symm)] at h3
  exact ⟨h3, hne, h2⟩

theorem reindex_keep (i : Inc) (x : Name) (cls : List Clause) (h y : Name) (hne : h ≠ x) (hb : h ∈ b2dOf i y) :
    h ∈ b2dOf (if cls.isEmpty then i.remove x else (i.remove x).register x (allDeps cls x)) y := by
  have h1 := remove_b2d_keep i x h y hne hb
  split
  · exact h1
  · show h ∈ (aget (regB2d (i.remove x).b2d (allDeps cls x) x) y).getD []
    exact regB2d_mono _ _ _ _ _ h1

theorem reindex_upd (i : Inc) (x : Name) (cls : List Clause) : Upd i (i.reindex x cls) (fun y => y = x) := by
  refine ⟨?_, ?_, ⟨fun y => y ∈ reachFrom (if cls.isEmpty then i.remove x else (i.remove x).register x (allDeps cls x)) x,
    ?_, ?_, ?_⟩, ?_⟩
  · intro hn
    unfold Inc.reindex
    simp only
    rw [notify_keys]
    split
    · rw [remove_mats]; exact nodup_aerase x hn
    · show (akeys (i.remove x).mats).Nodup
      rw [remove_mats]; exact nodup_aerase x hn
  · intro hd
    unfold Inc.reindex
    simp only
    rw [notify_d2d]
    split
    · rw [remove_d2d, hd]; rfl
    · show (i.remove x).d2d = []
      rw [remove_d2d, hd]; rfl
  · intro y h hy hb
    subst hy
    by_cases e : h = y
    · exact Or.inl e
    · exact Or.inr (reach_seed _ y h (succs_of_b2d _ y h (reindex_keep i y cls h y e hb)))
  · intro y h hy hb
    by_cases e : h = x
    · exact Or.inl e
    · exact Or.inr (reach_closed _ x y h hy (succs_of_b2d _ y h (reindex_keep i x cls h y e hb)))
  · intro n m hm hv
    obtain ⟨h1, _, h3⟩ := reindex_mats i x cls n m hm hv
    exact ⟨h1, h3⟩
  · intro h y hX hb
    unfold Inc.reindex
    simp only
    rw [show b2dOf ((if cls.isEmpty then i.remove x else (i.remove x).register x (allDeps cls x)).notify x) y =
      b2dOf (if cls.isEmpty then i.remove x else (i.remove x).register x (allDeps cls x)) y from rfl]
    exact reindex_keep i x cls h y hX hb

theorem reindex_newEdges (i : Inc) (x : Name) (cls : List Clause) (hne : cls.isEmpty = false)
    (r : Name) (hr : r ∈ allDeps cls x) : x ∈ b2dOf (i.reindex x cls) r := by
  unfold Inc.reindex
  simp only [hne, Bool.false_eq_true, if_false]
  show x ∈ (aget (regB2d (i.remove x).b2d (allDeps cls x) x) r).getD []
  exact regB2d_new _ _ _ _ hr

theorem mem_allDeps (cls : List Clause) (n r : Name) :
    r ∈ allDeps cls n ↔ (∃ c ∈ cls, r ∈ bodyRels c) ∧ r ≠ n := by
  simp [allDeps, mem_dedupNames, List.mem_filter, List.mem_flatMap]

/-- `drop_relation`: notify, then remove. -/
theorem drel_upd (i : Inc) (r : Name) : Upd i ((i.notify r).remove r) (fun y => y = r) := by
  refine ⟨?_, ?_, ⟨fun y => y ∈ reachFrom i r, ?_, ?_, ?_⟩, ?_⟩
  · intro hn; rw [remove_mats]; exact nodup_aerase r (by rw [notify_keys]; exact hn)
  · intro hd; rw [remove_d2d, notify_d2d, hd]; rfl
  · intro y h hy hb
    subst hy
    exact Or.inr (reach_seed i y h (succs_of_b2d i y h hb))
  · intro y h hy hb
    exact Or.inr (reach_closed i r y h hy (succs_of_b2d i y h hb))
  · intro n m hm hv
    rw [remove_mats] at hm
    have hne := (mem_aerase (aget_some_mem hm)).2
    rw [aget_aerase_ne _ _ _ (fun e => hne e.symm)] at hm
    exact notify_valid i r n m hm hv
  · intro h y hX hb
    exact remove_b2d_keep (i.notify r) r h y hX hb

theorem drel_mats_ne (i : Inc) (r n : Name) (m : Mat) (hm : aget ((i.notify r).remove r).mats n = some m) : n ≠ r := by
  rw [remove_mats] at hm
  exact (mem_aerase (aget_some_mem hm)).2

theorem foldNotify_upd (rs : List Name) (i : Inc) : Upd i (rs.foldl Inc.notify i) (fun x => x ∈ rs) := by
  induction rs generalizing i with
  | nil => exact upd_congr (upd_refl i) (by simp)
  | cons r rs ih =>
    simp only [List.foldl_cons]
    exact upd_congr (upd_trans (notify_upd i r) (ih (i.notify r))) (by intro x; simp)

theorem foldReindex_upd (ns : List Name) (i : Inc) :
    Upd i (ns.foldl (fun i n => i.reindex n []) i) (fun x => x ∈ ns) := by
  induction ns generalizing i with
  | nil => exact upd_congr (upd_refl i) (by simp)
  | cons n ns ih =>
    simp only [List.foldl_cons]
    exact upd_congr (upd_trans (reindex_upd i n []) (ih (i.reindex n []))) (by intro x; simp)

theorem foldReindex_mats_notin (ns : List Name) (i : Inc) (n : Name) (m : Mat)
    (hm : aget (ns.foldl (fun i n => i.reindex n []) i).mats n = some m) (hv : m.valid = true) : n ∉ ns := by
  induction ns generalizing i with
  | nil => simp
  | cons a ns ih =>
    simp only [List.foldl_cons] at hm
    intro hmem
    rcases List.mem_cons.mp hmem with e | e
    · subst e
      obtain ⟨D, _, _, hv2⟩ := (foldReindex_upd ns (i.reindex n [])).dirty
      have := (hv2 n m hm hv).1
      exact (reindex_mats i n [] n m this hv).2.1 rfl
    · exact ih _ hm e

end ILV.C18
