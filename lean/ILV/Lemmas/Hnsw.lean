/-
  Lemmas about the HNSW wrapper model (ILV.Model.Hnsw): what `rebuild_hnsw` establishes, which
  identifiers a search can return, and the refinement of the wrapper state to an abstract map
  identifier ⇀ vector.
-/
import ILV.Model.Hnsw
import Mathlib.Data.List.Perm.Basic
namespace ILV.Hnsw
open List

variable {F : FloatOps}

/-! ### the stable sort only permutes -/

theorem insertBy_perm {α β} (lt : β → β → Bool) (key : α → β) (x : α) (l : List α) :
    insertBy lt key x l ~ x :: l := by
  induction l with
  | nil => exact Perm.refl _
  | cons y ys ih =>
    simp only [insertBy]
    split
    · exact (Perm.cons y ih).trans (Perm.swap x y ys)
    · exact Perm.refl _

theorem sortBy_perm {α β} (lt : β → β → Bool) (key : α → β) (l : List α) : sortBy lt key l ~ l := by
  induction l with
  | nil => exact Perm.refl _
  | cons x xs ih => exact (insertBy_perm lt key x _).trans (Perm.cons x ih)

/-! ### `rebuild_hnsw` -/

/-- the graph holds exactly the stored, non-tombstoned entries. -/
def InnerLive (s : Index F) : Prop :=
  s.inner = (match active s with | [] => none | a :: r => some (a :: r))

theorem active_rebuildHnsw (s : Index F) : active (rebuildHnsw s) = active s := by
  unfold rebuildHnsw
  split <;> rfl

theorem rebuildHnsw_vectors (s : Index F) : (rebuildHnsw s).vectors = s.vectors ∧ (rebuildHnsw s).tombs = s.tombs ∧ (rebuildHnsw s).cfg = s.cfg := by
  unfold rebuildHnsw
  split <;> exact ⟨rfl, rfl, rfl⟩

theorem rebuildHnsw_innerLive (s : Index F) : InnerLive (rebuildHnsw s) := by
  unfold InnerLive
  rw [active_rebuildHnsw]
  unfold rebuildHnsw
  cases h : active s with
  | nil => rfl
  | cons a r => obtain ⟨id0, v0⟩ := a; rfl

theorem insert_ok_innerLive (s : Index F) (id : Nat) (v : List F.F32) (h : (insert s id v).2 = none) :
    InnerLive (insert s id v).1 := by
  unfold insert at h ⊢
  split at h
  · simp at h
  · exact rebuildHnsw_innerLive _

theorem insertBatch_ok_innerLive : ∀ (es : List (Nat × List F.F32)) (s : Index F), (insertBatch s es).2 = none →
    InnerLive (insertBatch s es).1
  | [], s, _ => rebuildHnsw_innerLive s
  | (id, v) :: rest, s, h => by
    unfold insertBatch at h ⊢
    cases hs : storeOne s id v with
    | error e => rw [hs] at h; simp at h
    | ok s1 => rw [hs] at h; exact insertBatch_ok_innerLive rest s1 h

theorem rebuild_innerLive (s : Index F) (vs : List (Nat × List F.F32)) : InnerLive (rebuild s vs) := by
  unfold rebuild
  split
  · simp [InnerLive, active]
  · exact rebuildHnsw_innerLive _

theorem load_innerLive (p : Persisted F) (s : Index F) (h : load p = some s) : InnerLive s := by
  unfold load at h
  split at h
  · simp at h
  · simp at h; subst h; exact rebuildHnsw_innerLive _

/-- a delete that crosses the 30 % threshold compacts: the graph is rebuilt. -/
theorem delete_compacting_innerLive (s : Index F) (id : Nat) (h : ratioAbove (tombstone s id) = true) :
    InnerLive (delete s id) := by
  unfold delete
  simp only [h, ↓reduceIte]
  exact rebuild_innerLive _ _

/-! ### what a search can return -/

theorem searchRaw_length_le (s : Index F) (q : List F.F32) (k : Nat) (raw : List (Nat × F.F32)) :
    (searchRaw s q k raw).length ≤ k := by
  unfold searchRaw
  split
  · simp
  · simp only []
    exact length_take_le _ _

theorem mem_of_getElem? {α} {l : List α} {i : Nat} {x : α} (h : l[i]? = some x) : x ∈ l :=
  List.mem_of_getElem? h

/-- every identifier returned is an identifier of the graph built by the last `rebuild_hnsw`. -/
theorem searchRaw_ids_subset (s : Index F) (q : List F.F32) (k : Nat) (raw : List (Nat × F.F32)) :
    ∀ p ∈ searchRaw s q k raw, ∃ g, s.inner = some g ∧ p.1 ∈ g.map (·.1) := by
  intro p hp
  unfold searchRaw at hp
  split at hp
  · simp at hp
  · rename_i stored hin
    refine ⟨stored, hin, ?_⟩
    simp only [] at hp
    have hp2 := (sortBy_perm F.lt64 (fun (x : Nat × F.F64) => x.2) _).subset (mem_of_mem_take hp)
    split at hp2
    · rcases mem_filterMap.1 hp2 with ⟨r, _, hr⟩
      split at hr
      · simp at hr
      · rename_i id sv hst
        split at hr
        · rename_i sv' hf
          simp at hr; subst hr
          exact mem_map.2 ⟨(id, sv), mem_of_getElem? hst, rfl⟩
        · simp at hr
    · rcases mem_filterMap.1 hp2 with ⟨r, _, hr⟩
      cases hst : stored[r.1]? with
      | none => simp [hst] at hr
      | some e =>
        simp [hst] at hr; subst hr
        exact mem_map.2 ⟨e, mem_of_getElem? hst, rfl⟩

theorem search_length_le (ann : List (List F.F32) → List F.F32 → Nat → Nat → List (Nat × F.F32))
    (s : Index F) (q : List F.F32) (k : Nat) (ef : Option Nat) : (search ann s q k ef).length ≤ k := by
  unfold search
  split
  · simp
  · exact searchRaw_length_le _ _ _ _

theorem search_ids_subset_inner (ann : List (List F.F32) → List F.F32 → Nat → Nat → List (Nat × F.F32))
    (s : Index F) (q : List F.F32) (k : Nat) (ef : Option Nat) :
    ∀ p ∈ search ann s q k ef, ∃ g, s.inner = some g ∧ p.1 ∈ g.map (·.1) := by
  intro p hp
  unfold search at hp
  split at hp
  · simp at hp
  · exact searchRaw_ids_subset _ _ _ _ p hp

/-- with the graph in step with the stored state, every returned identifier is live. -/
theorem search_ids_live (ann : List (List F.F32) → List F.F32 → Nat → Nat → List (Nat × F.F32))
    (s : Index F) (hIL : InnerLive s) (q : List F.F32) (k : Nat) (ef : Option Nat) :
    ∀ p ∈ search ann s q k ef, (liveOf s p.1).isSome = true := by
  intro p hp
  obtain ⟨g, hg, hmem⟩ := search_ids_subset_inner ann s q k ef p hp
  unfold InnerLive at hIL
  rw [hg] at hIL
  have hga : g = active s := by
    cases ha : active s with
    | nil => rw [ha] at hIL; simp at hIL
    | cons a r => rw [ha] at hIL; simp at hIL; exact hIL
  subst hga
  rcases mem_map.1 hmem with ⟨e, he, hid⟩
  unfold active at he
  rcases mem_filter.1 he with ⟨hev, hnt⟩
  unfold liveOf
  have hnt' : isTomb s p.1 = false := by rw [← hid]; simpa using hnt
  simp only [hnt', Bool.false_eq_true, ↓reduceIte]
  cases hf : s.vectors.find? (fun q => q.1 == p.1) with
  | some x => simp
  | none =>
    have := List.find?_eq_none.1 hf e hev
    simp [hid] at this

/-! ### refinement to identifier ⇀ vector (C25) -/

theorem prepare_length (m : Metric) (v : List F.F32) : (prepare F m v).length = v.length := by
  unfold prepare normalizeVec
  split
  · simp only []; split <;> simp
  · rfl

theorem find_replaceFirst (vs : List (Nat × List F.F32)) (id i : Nat) (v : List F.F32)
    (h : vs.any (fun p => p.1 == id) = true) :
    (replaceFirst vs id v).find? (fun p => p.1 == i) = if i = id then some (id, v) else vs.find? (fun p => p.1 == i) := by
  induction vs with
  | nil => simp at h
  | cons p r ih =>
    unfold replaceFirst
    cases hpb : (p.1 == id) with
    | true =>
      have hp : p.1 = id := by simpa using hpb
      simp only [↓reduceIte]
      by_cases hi : i = id
      · subst hi; simp [find?_cons]
      · have h1 : (id == i) = false := by simpa using fun e => hi e.symm
        have h2 : (p.1 == i) = false := by rw [hp]; exact h1
        simp [find?_cons, h1, h2, hi]
    | false =>
      have h' : r.any (fun p => p.1 == id) = true := by simpa [any_cons, hpb] using h
      simp only [Bool.false_eq_true, ↓reduceIte, find?_cons]
      cases hpi : (p.1 == i) with
      | true =>
        have hne : ¬ i = id := by
          intro e; subst e; rw [hpi] at hpb; cases hpb
        simp [hne]
      | false => simp only []; exact ih h'

theorem find_upsert (vs : List (Nat × List F.F32)) (id i : Nat) (v : List F.F32) :
    (upsert vs id v).find? (fun p => p.1 == i) = if i = id then some (id, v) else vs.find? (fun p => p.1 == i) := by
  unfold upsert
  split
  · rename_i h; exact find_replaceFirst vs id i v h
  · rename_i h
    rw [find?_append]
    by_cases hi : i = id
    · subst hi
      have hnone : vs.find? (fun p => p.1 == i) = none := by
        apply find?_eq_none.2
        intro x hx hxi
        exact h (any_eq_true.2 ⟨x, hx, hxi⟩)
      simp [hnone]
    · have h1 : (id == i) = false := by simpa using fun e => hi e.symm
      simp only [hi, ↓reduceIte, find?_cons, h1, find?_nil]
      cases vs.find? (fun p => p.1 == i) <;> rfl

theorem find_filter_tombs (vs : List (Nat × List F.F32)) (tombs : List Nat) (i : Nat) :
    (vs.filter (fun p => !tombs.contains p.1)).find? (fun p => p.1 == i) =
      if tombs.contains i = true then none else vs.find? (fun p => p.1 == i) := by
  induction vs with
  | nil => simp
  | cons p r ih =>
    rw [filter_cons]
    cases htp : tombs.contains p.1 with
    | true =>
      simp only [Bool.not_true, Bool.false_eq_true, ↓reduceIte]
      rw [ih, find?_cons]
      cases hpi : (p.1 == i) with
      | true =>
        have hpe : p.1 = i := by simpa using hpi
        rw [← hpe, htp]; rfl
      | false => rfl
    | false =>
      simp only [Bool.not_false, ↓reduceIte, find?_cons]
      cases hpi : (p.1 == i) with
      | true =>
        have hpe : p.1 = i := by simpa using hpi
        rw [← hpe, htp]; rfl
      | false => simp only []; exact ih

theorem contains_tombs_step (tombs : List Nat) (id i : Nat) :
    (if tombs.contains id = true then tombs else tombs ++ [id]).contains i = (tombs.contains i || (i == id)) := by
  by_cases hc : tombs.contains id = true
  · rw [if_pos hc]
    by_cases hi : i = id
    · subst hi; rw [hc]; rfl
    · have hb : (i == id) = false := by simpa using hi
      rw [hb, Bool.or_false]
  · rw [if_neg hc, Bool.eq_iff_iff]
    simp only [contains_iff_mem, mem_append, mem_singleton, Bool.or_eq_true, beq_iff_eq]

theorem liveOf_upsert (s s' : Index F) (id : Nat) (pv : List F.F32) (ht : s'.tombs = s.tombs)
    (hv : s'.vectors = upsert s.vectors id pv) (hnt : isTomb s id = false) (i : Nat) :
    liveOf s' i = if i = id then some pv else liveOf s i := by
  unfold liveOf isTomb at *
  rw [ht, hv, find_upsert]
  by_cases hi : i = id
  · subst hi; rw [hnt]; simp
  · simp only [hi, ↓reduceIte]

/-- abstract index: identifier ⇀ stored (prepared) vector. -/
abbrev AMap (F : FloatOps) := Nat → Option (List F.F32)

def specUpsert (m : Metric) (a : AMap F) (id : Nat) (v : List F.F32) : AMap F :=
  fun i => if i = id then some (prepare F m v) else a i

/-- the Spec of C25: upsert / remove / replace; save-load is the identity. -/
def specStep (m : Metric) (a : AMap F) : Op F → AMap F
  | .insert id v => specUpsert m a id v
  | .insertBatch es => es.foldl (fun a e => specUpsert m a e.1 e.2) a
  | .delete id => fun i => if i = id then none else a i
  | .rebuild vs => fun i => (vs.find? (fun e => e.1 == i)).map (fun e => prepare F m e.2)
  | .saveLoad => a

def specRun (m : Metric) (ops : List (Op F)) : AMap F := ops.foldl (specStep m) (fun _ => none)

/-- accepted input: the vector has the index's dimension and (cosine/dot) a usable norm. -/
def WFVec (m : Metric) (d : Nat) (v : List F.F32) : Prop :=
  v.length = d ∧ (needsNorm m = true → normTooSmall v = false)

def WFOp (m : Metric) (d : Nat) : Op F → Prop
  | .insert _ v => WFVec m d v
  | .insertBatch es => ∀ e ∈ es, WFVec m d e.2
  | .delete _ => True
  | .rebuild vs => ∀ e ∈ vs, e.2.length = d
  | .saveLoad => True

/-- identifying predicate of the defect family of C25: some insert (single or in a batch) targets an
    identifier that is tombstoned at that moment. -/
def noReinsertFrom (s : Index F) : List (Op F) → Bool
  | [] => true
  | op :: rest =>
    (match op with
      | .insert id _ => !isTomb s id
      | .insertBatch es => es.all (fun e => !isTomb s e.1)
      | _ => true) && noReinsertFrom (applyOp s op) rest

/-- `prepare` is idempotent (trivially for l2/l1; for cosine/dot: re-normalising a normalised vector
    leaves it unchanged — a float hypothesis, the Spec oracle allows 4 ulp instead). -/
def PrepIdem (F : FloatOps) (m : Metric) : Prop := ∀ v : List F.F32, prepare F m (prepare F m v) = prepare F m v

/-- the simulation relation between wrapper state and abstract map. -/
structure Rel (m : Metric) (d : Nat) (s : Index F) (a : AMap F) : Prop where
  live : ∀ i, liveOf s i = a i
  dim : s.dim = 0 ∨ s.dim = d
  stored : ∀ p ∈ s.vectors, p.2.length = d ∧ prepare F m p.2 = p.2
  metric : s.cfg.metric = m

theorem liveOf_rebuildHnsw (s : Index F) (i : Nat) : liveOf (rebuildHnsw s) i = liveOf s i := by
  obtain ⟨hv, ht, _⟩ := rebuildHnsw_vectors s
  unfold liveOf isTomb
  rw [hv, ht]

theorem rel_rebuildHnsw {m d} {s : Index F} {a : AMap F} (h : Rel m d s a) : Rel m d (rebuildHnsw s) a := by
  obtain ⟨hv, ht, hc⟩ := rebuildHnsw_vectors s
  refine ⟨fun i => by rw [liveOf_rebuildHnsw]; exact h.live i, ?_, by rw [hv]; exact h.stored, by rw [hc]; exact h.metric⟩
  unfold rebuildHnsw
  split
  · exact h.dim
  · rename_i id0 v0 rest hact
    right
    have : (id0, v0) ∈ active s := by rw [hact]; simp
    unfold active at this
    exact (h.stored _ (mem_filter.1 this).1).1

theorem mem_replaceFirst (l : List (Nat × List F.F32)) (id : Nat) (v : List F.F32) (p : Nat × List F.F32)
    (hx : p ∈ replaceFirst l id v) : p ∈ l ∨ p = (id, v) := by
  induction l with
  | nil => simp [replaceFirst] at hx
  | cons y ys ih =>
    simp only [replaceFirst] at hx
    split at hx
    · rcases mem_cons.1 hx with rfl | hx'
      · right; rfl
      · left; exact mem_cons_of_mem _ hx'
    · rcases mem_cons.1 hx with rfl | hx'
      · left; exact mem_cons_self
      · rcases ih hx' with h1 | h2
        · left; exact mem_cons_of_mem _ h1
        · right; exact h2

theorem mem_upsert (l : List (Nat × List F.F32)) (id : Nat) (v : List F.F32) (p : Nat × List F.F32)
    (hx : p ∈ upsert l id v) : p ∈ l ∨ p = (id, v) := by
  unfold upsert at hx
  split at hx
  · exact mem_replaceFirst l id v p hx
  · rcases mem_append.1 hx with h1 | h2
    · left; exact h1
    · right; simpa using h2

theorem storeOne_ok {m d} (hd : 0 < d) (hI : PrepIdem F m) {s : Index F} {a : AMap F} (h : Rel m d s a)
    (id : Nat) (v : List F.F32) (hv : WFVec m d v) (hnt : isTomb s id = false) :
    ∃ s1, storeOne s id v = .ok s1 ∧ Rel m d s1 (specUpsert m a id v) ∧ s1.tombs = s.tombs := by
  have hne : v.isEmpty = false := by
    cases v with
    | nil => have := hv.1; simp at this; omega
    | cons x xs => rfl
  have hz : (needsNorm s.cfg.metric && normTooSmall v) = false := by
    rw [h.metric]
    cases hn : needsNorm m with
    | false => rfl
    | true => rw [hv.2 hn]; rfl
  have hdim : (s.dim != 0 && s.dim != v.length) = false := by
    rcases h.dim with h0 | hdd
    · rw [h0]; rfl
    · rw [hdd, hv.1]; simp
  -- the state `storeOne` produces
  let s1 : Index F := { vectors := upsert s.vectors id (prepare F s.cfg.metric v), tombs := s.tombs, inner := s.inner,
                        dim := if s.dim == 0 then v.length else s.dim, cfg := s.cfg }
  have hs : storeOne s id v = .ok s1 := by
    unfold storeOne
    simp only [hne, hz, hdim, Bool.false_eq_true, ↓reduceIte]
    by_cases h0 : (s.dim == 0) = true
    · simp [s1, h0]
    · simp [s1, h0]
  refine ⟨s1, hs, ?_, rfl⟩
  refine ⟨?_, ?_, ?_, h.metric⟩
  · intro i
    rw [liveOf_upsert s s1 id (prepare F s.cfg.metric v) rfl rfl hnt i]
    unfold specUpsert
    rw [h.metric]
    by_cases hi : i = id
    · simp [hi]
    · simp only [hi, ↓reduceIte]; exact h.live i
  · right
    show (if s.dim == 0 then v.length else s.dim) = d
    rcases h.dim with h0 | hdd
    · simp [h0, hv.1]
    · have h0 : (s.dim == 0) = false := by rw [hdd]; simpa using (Nat.pos_iff_ne_zero.1 hd)
      show (if (s.dim == 0) = true then v.length else s.dim) = d
      rw [h0]; simpa using hdd
  · intro p hp
    rcases mem_upsert s.vectors id _ p hp with h1 | h2
    · exact h.stored p h1
    · subst h2
      rw [h.metric]
      exact ⟨by rw [prepare_length]; exact hv.1, hI v⟩

theorem rel_insert {m d} (hd : 0 < d) (hI : PrepIdem F m) {s : Index F} {a : AMap F} (h : Rel m d s a)
    (id : Nat) (v : List F.F32) (hv : WFVec m d v) (hnt : isTomb s id = false) :
    Rel m d (insert s id v).1 (specUpsert m a id v) := by
  obtain ⟨s1, hs, hr, _⟩ := storeOne_ok hd hI h id v hv hnt
  unfold insert
  rw [hs]
  exact rel_rebuildHnsw hr

theorem rel_insertBatch {m d} (hd : 0 < d) (hI : PrepIdem F m) : ∀ (es : List (Nat × List F.F32)) {s : Index F} {a : AMap F},
    Rel m d s a → (∀ e ∈ es, WFVec m d e.2) → (∀ e ∈ es, isTomb s e.1 = false) →
    Rel m d (insertBatch s es).1 (es.foldl (fun a e => specUpsert m a e.1 e.2) a)
  | [], s, a, h, _, _ => rel_rebuildHnsw h
  | (id, v) :: rest, s, a, h, hw, hn => by
    obtain ⟨s1, hs, hr, ht⟩ := storeOne_ok hd hI h id v (hw (id, v) (by simp)) (hn (id, v) (by simp))
    simp only [insertBatch, hs, foldl_cons]
    apply rel_insertBatch hd hI rest hr (fun e he => hw e (by simp [he]))
    intro e he
    have := hn e (by simp [he])
    unfold isTomb at this ⊢
    rw [ht]; exact this

theorem rel_rebuild {m d} {s : Index F} {a : AMap F} (hm : s.cfg.metric = m) (hI : PrepIdem F m)
    (vs : List (Nat × List F.F32)) (hw : ∀ e ∈ vs, e.2.length = d) :
    Rel m d (rebuild s vs) (fun i => (vs.find? (fun e => e.1 == i)).map (fun e => prepare F m e.2)) := by
  unfold rebuild
  split
  · refine ⟨fun i => by simp [liveOf, isTomb], Or.inl rfl, fun p hp => by simp at hp, hm⟩
  · rename_i id0 v0 rest
    apply rel_rebuildHnsw
    refine ⟨?_, ?_, ?_, hm⟩
    · intro i
      unfold liveOf isTomb
      simp only [contains_nil, Bool.false_eq_true, ↓reduceIte]
      rw [find?_map]
      simp only [Function.comp_def, Option.map_map, hm]
    · right; exact hw (id0, v0) (by simp)
    · intro p hp
      rcases mem_map.1 hp with ⟨e, he, rfl⟩
      simp only [hm]
      exact ⟨by rw [prepare_length]; exact hw e he, hI _⟩

theorem rel_tombstone {m d} {s : Index F} {a : AMap F} (h : Rel m d s a) (id : Nat) :
    Rel m d (tombstone s id) (fun i => if i = id then none else a i) := by
  refine ⟨?_, h.dim, h.stored, h.metric⟩
  intro i
  have hl := h.live i
  unfold liveOf isTomb at hl ⊢
  unfold tombstone
  simp only []
  rw [contains_tombs_step]
  by_cases hi : i = id
  · subst hi; simp
  · have hb : (i == id) = false := by simpa using hi
    rw [hb, Bool.or_false, if_neg hi]
    exact hl

theorem rel_delete {m d} (hI : PrepIdem F m) {s : Index F} {a : AMap F} (h : Rel m d s a) (id : Nat) :
    Rel m d (delete s id) (fun i => if i = id then none else a i) := by
  have h1 := rel_tombstone h id
  unfold delete
  by_cases hr : ratioAbove (tombstone s id) = true
  · -- compaction: `rebuild` of the active entries; they are already prepared
    simp only [hr, ↓reduceIte]
    have hact : ∀ e ∈ active (tombstone s id), e.2.length = d := fun e he => (h1.stored e (mem_filter.1 he).1).1
    have hr' := rel_rebuild (s := tombstone s id) (a := fun i => if i = id then none else a i) h1.metric hI (active (tombstone s id)) hact
    refine ⟨?_, hr'.dim, hr'.stored, hr'.metric⟩
    intro i
    rw [hr'.live i]
    have hl := h1.live i
    unfold liveOf isTomb at hl
    unfold active isTomb
    rw [find_filter_tombs]
    cases hc : (tombstone s id).tombs.contains i with
    | true =>
      rw [hc] at hl
      simp only [↓reduceIte, Option.map_none] at hl ⊢
      exact hl
    | false =>
      rw [hc] at hl
      simp only [Bool.false_eq_true, ↓reduceIte] at hl ⊢
      rw [← hl]
      cases hf : (tombstone s id).vectors.find? (fun p => p.1 == i) with
      | none => rfl
      | some e =>
        simp only [Option.map_some]
        rw [(h1.stored e (mem_of_find?_eq_some hf)).2]
  · simp only [hr, Bool.false_eq_true, ↓reduceIte]
    exact h1

theorem parseMetric_metricName (m : Metric) : parseMetric (metricName m) = some m := by
  cases m <;> rfl

/-- `load (save s)` is `rebuild_hnsw` of the same stored state. -/
theorem load_save (s : Index F) : load (save s) = some (rebuildHnsw { s with inner := none }) := by
  unfold load save
  simp only [parseMetric_metricName]

theorem rel_saveLoad {m d} {s : Index F} {a : AMap F} (h : Rel m d s a) :
    Rel m d ((load (save s)).getD s) a := by
  rw [load_save]
  simp only [Option.getD_some]
  apply rel_rebuildHnsw
  exact ⟨fun i => h.live i, h.dim, h.stored, h.metric⟩

theorem rel_step {m d} (hd : 0 < d) (hI : PrepIdem F m) {s : Index F} {a : AMap F} (h : Rel m d s a)
    (op : Op F) (hw : WFOp m d op) (hn : noReinsertFrom s [op] = true) :
    Rel m d (applyOp s op) (specStep m a op) := by
  cases op with
  | insert id v =>
    simp only [noReinsertFrom, Bool.and_true, Bool.not_eq_eq_eq_not, Bool.not_true] at hn
    exact rel_insert hd hI h id v hw hn
  | insertBatch es =>
    simp only [noReinsertFrom, Bool.and_true, all_eq_true, Bool.not_eq_eq_eq_not, Bool.not_true] at hn
    exact rel_insertBatch hd hI es h hw hn
  | delete id => exact rel_delete hI h id
  | rebuild vs => exact rel_rebuild (a := a) h.metric hI vs hw
  | saveLoad => exact rel_saveLoad h

theorem rel_run {m d} (hd : 0 < d) (hI : PrepIdem F m) : ∀ (ops : List (Op F)) {s : Index F} {a : AMap F},
    Rel m d s a → (∀ op ∈ ops, WFOp m d op) → noReinsertFrom s ops = true →
    Rel m d (runOps s ops) (ops.foldl (specStep m) a)
  | [], _, _, h, _, _ => h
  | op :: rest, s, a, h, hw, hn => by
    simp only [noReinsertFrom, Bool.and_eq_true] at hn
    have h1 := rel_step hd hI h op (hw op (by simp)) (by simp only [noReinsertFrom, Bool.and_true]; exact hn.1)
    simp only [runOps, foldl_cons]
    exact rel_run hd hI rest h1 (fun o ho => hw o (by simp [ho])) hn.2


theorem length_filterMap_all_some {α β} (f : α → Option β) : ∀ (l : List α), (∀ x ∈ l, (f x).isSome = true) →
    (l.filterMap f).length = l.length
  | [], _ => rfl
  | x :: xs, h => by
    have hx := h x (by simp)
    cases hfx : f x with
    | none => rw [hfx] at hx; cases hx
    | some y =>
      rw [filterMap_cons_some hfx, length_cons, length_cons,
        length_filterMap_all_some f xs (fun z hz => h z (by simp [hz]))]

/-- with the graph in step with the stored state and the `ann` contract honoured by the call, a
    search whose breadth covers all live entries returns exactly `min k |live|` results. -/
theorem search_length_complete (ann : List (List F.F32) → List F.F32 → Nat → Nat → List (Nat × F.F32))
    (s : Index F) (hIL : InnerLive s) (q : List F.F32) (k : Nat) (ef : Option Nat)
    (hc : ∀ g, s.inner = some g →
      annOk (g.map (·.2)) (prepare F s.cfg.metric q) (searchK s k) (searchEf s ef)
        (ann (g.map (·.2)) (prepare F s.cfg.metric q) (searchK s k) (searchEf s ef)) = true)
    (hn : (active s).length ≤ searchEf s ef) :
    (search ann s q k ef).length = min k (active s).length := by
  unfold InnerLive at hIL
  unfold search
  cases ha : active s with
  | nil => rw [ha] at hIL; simp [hIL]
  | cons a0 r0 =>
    rw [ha] at hIL
    have hIL' : s.inner = some (a0 :: r0) := hIL
    simp only [hIL']
    have hok := hc _ hIL'
    rw [ha] at hn
    generalize hraw : ann ((a0 :: r0).map (·.2)) (prepare F s.cfg.metric q) (searchK s k) (searchEf s ef) = raw at hok ⊢
    unfold annOk at hok
    simp only [Bool.and_eq_true, Bool.or_eq_true, Bool.not_eq_true', decide_eq_true_eq, decide_eq_false_iff_not, all_eq_true, beq_iff_eq] at hok
    obtain ⟨⟨⟨⟨_, hvalid⟩, _⟩, _⟩, hcompl⟩ := hok
    have hlen : raw.length = min (searchK s k) (a0 :: r0).length := by
      rcases hcompl with h | h
      · exact absurd (by simpa using hn) h
      · simpa using h.1
    have hvalid' : ∀ p ∈ raw, ∃ e, (a0 :: r0)[p.1]? = some e := by
      intro p hp
      have := hvalid p hp
      rw [getElem?_map] at this
      cases hs : (a0 :: r0)[p.1]? with
      | none => rw [hs] at this; simp at this
      | some e => exact ⟨e, rfl⟩
    have hres : (searchRaw s q k raw).length = min k raw.length := by
      unfold searchRaw
      simp only [hIL']
      rw [length_take, (sortBy_perm _ _ _).length_eq]
      congr 1
      split
      · apply length_filterMap_all_some
        intro p hp
        obtain ⟨e, he⟩ := hvalid' p hp
        obtain ⟨id, sv⟩ := e
        simp only [he]
        have hmem : (id, sv) ∈ active s := by rw [ha]; exact List.mem_of_getElem? he
        have hv : (id, sv) ∈ s.vectors := (mem_filter.1 hmem).1
        cases hf : s.vectors.find? (fun p => p.1 == id) with
        | none => have := find?_eq_none.1 hf (id, sv) hv; simp at this
        | some x => obtain ⟨_, _⟩ := x; rfl
      · apply length_filterMap_all_some
        intro p hp
        obtain ⟨e, he⟩ := hvalid' p hp
        simp [he]
    rw [hres, hlen]
    have hk : k ≤ searchK s k := by unfold searchK; split <;> omega
    simp only [length_cons] at *
    omega


/-- does the operation end with a graph rebuild (`rebuild_hnsw`)? -/
def freshAfter (s : Index F) : Op F → Bool
  | .insert id v => (insert s id v).2.isNone
  | .insertBatch es => (insertBatch s es).2.isNone
  | .delete id => ratioAbove (tombstone s id)
  | .rebuild _ => true
  | .saveLoad => true

/-- does the operation leave the whole state untouched (a rejected single insert)? -/
def noChange (s : Index F) : Op F → Bool
  | .insert id v => (insert s id v).2.isSome
  | _ => false

/-- decidable predicate on a history: after its last state-changing operation the graph was rebuilt
    (no tombstoning delete below the compaction threshold and no failing batch since). -/
def graphInStep (s : Index F) (flag : Bool) : List (Op F) → Bool
  | [] => flag
  | op :: rest => graphInStep (applyOp s op) (if freshAfter s op then true else if noChange s op then flag else false) rest

theorem innerLive_applyOp_fresh (s : Index F) (op : Op F) (h : freshAfter s op = true) : InnerLive (applyOp s op) := by
  cases op with
  | insert id v =>
    simp only [freshAfter, Option.isNone_iff_eq_none] at h
    exact insert_ok_innerLive s id v h
  | insertBatch es =>
    simp only [freshAfter, Option.isNone_iff_eq_none] at h
    exact insertBatch_ok_innerLive es s h
  | delete id => exact delete_compacting_innerLive s id h
  | rebuild vs => exact rebuild_innerLive s vs
  | saveLoad =>
    simp only [applyOp, load_save, Option.getD_some]
    exact rebuildHnsw_innerLive _

theorem applyOp_noChange (s : Index F) (op : Op F) (h : noChange s op = true) : applyOp s op = s := by
  cases op with
  | insert id v =>
    simp only [noChange] at h
    simp only [applyOp]
    unfold insert at h ⊢
    cases hs : storeOne s id v with
    | error e => rfl
    | ok s1 => rw [hs] at h; simp at h
  | insertBatch es => simp [noChange] at h
  | delete id => simp [noChange] at h
  | rebuild vs => simp [noChange] at h
  | saveLoad => simp [noChange] at h

theorem graphInStep_innerLive : ∀ (ops : List (Op F)) (s : Index F) (flag : Bool),
    (flag = true → InnerLive s) → graphInStep s flag ops = true → InnerLive (runOps s ops)
  | [], s, flag, hf, h => hf h
  | op :: rest, s, flag, hf, h => by
    simp only [graphInStep] at h
    simp only [runOps, foldl_cons]
    apply graphInStep_innerLive rest (applyOp s op) _ _ h
    intro hflag
    by_cases h1 : freshAfter s op = true
    · exact innerLive_applyOp_fresh s op h1
    · simp only [h1, Bool.false_eq_true, ↓reduceIte] at hflag
      by_cases h2 : noChange s op = true
      · simp only [h2, ↓reduceIte] at hflag
        rw [applyOp_noChange s op h2]; exact hf hflag
      · simp [h2] at hflag

end ILV.Hnsw
