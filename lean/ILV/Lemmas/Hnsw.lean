/-
  Lemmas about the HNSW wrapper model (ILV.Model.Hnsw): what `rebuild_hnsw` establishes, which
  identifiers a search can return, and the refinement of the wrapper state to an abstract map
  identifier ⇀ vector.
-/
import ILV.Model.Hnsw
import Mathlib.Data.List.Perm.Basic
namespace ILV.Hnsw
open List

variable {F : FloatOps}

/-! ### the stable sort only permutes -/

theorem insertBy_perm {α β} (lt : β → β → Bool) (key : α → β) (x : α) (l : List α) :
    insertBy lt key x l ~ x :: l := by
  induction l with
  | nil => exact Perm.refl _
  | cons y ys ih =>
    simp only [insertBy]
    split
    · exact (Perm.cons y ih).trans (Perm.swap x y ys)
    · exact Perm.refl _

theorem sortBy_perm {α β} (lt : β → β → Bool) (key : α → β) (l : List α) : sortBy lt key l ~ l := by
  induction l with
  | nil => exact Perm.refl _
  | cons x xs ih => exact (insertBy_perm lt key x _).trans (Perm.cons x ih)

/-! ### small list facts -/

theorem parseMetric_metricName (m : Metric) : parseMetric (metricName m) = some m := by
  cases m <;> rfl

theorem prepare_length (m : Metric) (v : List F.F32) : (prepare F m v).length = v.length := by
  unfold prepare normalizeVec
  split
  · simp only []; split <;> simp
  · rfl

theorem find_replaceFirst (vs : List (Nat × List F.F32)) (id i : Nat) (v : List F.F32)
    (h : vs.any (fun p => p.1 == id) = true) :
    (replaceFirst vs id v).find? (fun p => p.1 == i) = if i = id then some (id, v) else vs.find? (fun p => p.1 == i) := by
  induction vs with
  | nil => simp at h
  | cons p r ih =>
    unfold replaceFirst
    cases hpb : (p.1 == id) with
    | true =>
      have hp : p.1 = id := by simpa using hpb
      simp only [↓reduceIte]
      by_cases hi : i = id
      · subst hi; simp [find?_cons]
      · have h1 : (id == i) = false := by simpa using fun e => hi e.symm
        have h2 : (p.1 == i) = false := by rw [hp]; exact h1
        simp [find?_cons, h1, h2, hi]
    | false =>
      have h' : r.any (fun p => p.1 == id) = true := by simpa [any_cons, hpb] using h
      simp only [Bool.false_eq_true, ↓reduceIte, find?_cons]
      cases hpi : (p.1 == i) with
      | true =>
        have hne : ¬ i = id := by
          intro e; subst e; rw [hpi] at hpb; cases hpb
        simp [hne]
      | false => simp only []; exact ih h'

theorem find_upsert (vs : List (Nat × List F.F32)) (id i : Nat) (v : List F.F32) :
    (upsert vs id v).find? (fun p => p.1 == i) = if i = id then some (id, v) else vs.find? (fun p => p.1 == i) := by
  unfold upsert
  split
  · rename_i h; exact find_replaceFirst vs id i v h
  · rename_i h
    rw [find?_append]
    by_cases hi : i = id
    · subst hi
      have hnone : vs.find? (fun p => p.1 == i) = none := by
        apply find?_eq_none.2
        intro x hx hxi
        exact h (any_eq_true.2 ⟨x, hx, hxi⟩)
      simp [hnone]
    · have h1 : (id == i) = false := by simpa using fun e => hi e.symm
      simp only [hi, ↓reduceIte, find?_cons, h1, find?_nil]
      cases vs.find? (fun p => p.1 == i) <;> rfl

theorem find_filter_tombs (vs : List (Nat × List F.F32)) (tombs : List Nat) (i : Nat) :
    (vs.filter (fun p => !tombs.contains p.1)).find? (fun p => p.1 == i) =
      if tombs.contains i = true then none else vs.find? (fun p => p.1 == i) := by
  induction vs with
  | nil => simp
  | cons p r ih =>
    rw [filter_cons]
    cases htp : tombs.contains p.1 with
    | true =>
      simp only [Bool.not_true, Bool.false_eq_true, ↓reduceIte]
      rw [ih, find?_cons]
      cases hpi : (p.1 == i) with
      | true =>
        have hpe : p.1 = i := by simpa using hpi
        rw [← hpe, htp]; rfl
      | false => rfl
    | false =>
      simp only [Bool.not_false, ↓reduceIte, find?_cons]
      cases hpi : (p.1 == i) with
      | true =>
        have hpe : p.1 = i := by simpa using hpi
        rw [← hpe, htp]; rfl
      | false => simp only []; exact ih

theorem contains_tombs_step (tombs : List Nat) (id i : Nat) :
    (if tombs.contains id = true then tombs else tombs ++ [id]).contains i = (tombs.contains i || (i == id)) := by
  by_cases hc : tombs.contains id = true
  · rw [if_pos hc]
    by_cases hi : i = id
    · subst hi; rw [hc]; rfl
    · have hb : (i == id) = false := by simpa using hi
      rw [hb, Bool.or_false]
  · rw [if_neg hc, Bool.eq_iff_iff]
    simp only [contains_iff_mem, mem_append, mem_singleton, Bool.or_eq_true, beq_iff_eq]

theorem mem_replaceFirst (l : List (Nat × List F.F32)) (id : Nat) (v : List F.F32) (p : Nat × List F.F32)
    (hx : p ∈ replaceFirst l id v) : p ∈ l ∨ p = (id, v) := by
  induction l with
  | nil => simp [replaceFirst] at hx
  | cons y ys ih =>
    simp only [replaceFirst] at hx
    split at hx
    · rcases mem_cons.1 hx with rfl | hx'
      · right; rfl
      · left; exact mem_cons_of_mem _ hx'
    · rcases mem_cons.1 hx with rfl | hx'
      · left; exact mem_cons_self
      · rcases ih hx' with h1 | h2
        · left; exact mem_cons_of_mem _ h1
        · right; exact h2

theorem mem_upsert (l : List (Nat × List F.F32)) (id : Nat) (v : List F.F32) (p : Nat × List F.F32)
    (hx : p ∈ upsert l id v) : p ∈ l ∨ p = (id, v) := by
  unfold upsert at hx
  split at hx
  · exact mem_replaceFirst l id v p hx
  · rcases mem_append.1 hx with h1 | h2
    · left; exact h1
    · right; simpa using h2

theorem length_filterMap_all_some {α β} (f : α → Option β) : ∀ (l : List α), (∀ x ∈ l, (f x).isSome = true) →
    (l.filterMap f).length = l.length
  | [], _ => rfl
  | x :: xs, h => by
    have hx := h x (by simp)
    cases hfx : f x with
    | none => rw [hfx] at hx; cases hx
    | some y =>
      rw [filterMap_cons_some hfx, length_cons, length_cons,
        length_filterMap_all_some f xs (fun z hz => h z (by simp [hz]))]


theorem length_filterMap_eq_countP {α β} (f : α → Option β) : ∀ (l : List α),
    (l.filterMap f).length = l.countP (fun x => (f x).isSome)
  | [] => rfl
  | x :: xs => by
    cases hfx : f x with
    | none => rw [filterMap_cons_none hfx, countP_cons_of_neg (by simp [hfx]), length_filterMap_eq_countP f xs]
    | some y => rw [filterMap_cons_some hfx, length_cons, countP_cons_of_pos (by simp [hfx]), length_filterMap_eq_countP f xs]

/-- counting over the positions of a list = counting over its elements. -/
theorem countP_range_getElem {α} (p : α → Bool) : ∀ (g : List α),
    (List.range g.length).countP (fun i => (g[i]?).elim false p) = g.countP p
  | [] => rfl
  | x :: xs => by
    rw [length_cons, range_succ_eq_map, countP_cons, countP_map]
    have ih := countP_range_getElem p xs
    simp only [Function.comp_def, getElem?_cons_succ, getElem?_cons_zero, Option.elim_some] at ih ⊢
    rw [ih, countP_cons]
    rfl

/-- distinct positions below `n` satisfying `p` are at most as many as all positions below `n` satisfying `p`. -/
theorem countP_idx_le (idxs : List Nat) (n : Nat) (hnd : idxs.Nodup) (hlt : ∀ i ∈ idxs, i < n) (p : Nat → Bool) :
    idxs.countP p ≤ (List.range n).countP p := by
  rw [countP_eq_length_filter, countP_eq_length_filter]
  apply Nodup.length_le_of_subset (hnd.filter _)
  intro i hi
  rcases mem_filter.1 hi with ⟨h1, h2⟩
  exact mem_filter.2 ⟨mem_range.2 (hlt i h1), h2⟩

/-! ### the graph invariant -/

/-- the graph minus the currently tombstoned identifiers holds exactly the live entries. -/
def GraphOk (s : Index F) : Prop :=
  match s.inner with
  | none => active s = []
  | some g => g.filter (fun e => !isTomb s e.1) = active s

theorem active_rebuildHnsw (s : Index F) : active (rebuildHnsw s) = active s := by
  unfold rebuildHnsw
  split <;> rfl

theorem rebuildHnsw_vectors (s : Index F) : (rebuildHnsw s).vectors = s.vectors ∧ (rebuildHnsw s).tombs = s.tombs ∧ (rebuildHnsw s).cfg = s.cfg := by
  unfold rebuildHnsw
  split <;> exact ⟨rfl, rfl, rfl⟩

theorem filter_notTomb_active (s : Index F) : (active s).filter (fun e => !isTomb s e.1) = active s := by
  apply filter_eq_self.2
  intro e he
  exact (mem_filter.1 he).2

theorem rebuildHnsw_graphOk (s : Index F) : GraphOk (rebuildHnsw s) := by
  unfold GraphOk
  rw [active_rebuildHnsw]
  have ht : ∀ i, isTomb (rebuildHnsw s) i = isTomb s i := by
    intro i; unfold isTomb; rw [(rebuildHnsw_vectors s).2.1]
  unfold rebuildHnsw
  cases h : active s with
  | nil => rfl
  | cons a r =>
    obtain ⟨id0, v0⟩ := a
    simp only []
    have := filter_notTomb_active s
    rw [h] at this
    exact this

theorem isTomb_tombstone (s : Index F) (id i : Nat) : isTomb (tombstone s id) i = (isTomb s i || (i == id)) := by
  unfold isTomb tombstone
  exact contains_tombs_step s.tombs id i

theorem filter_tombstone (s : Index F) (id : Nat) (l : List (Nat × List F.F32)) :
    l.filter (fun e => !isTomb (tombstone s id) e.1) = (l.filter (fun e => !isTomb s e.1)).filter (fun e => e.1 != id) := by
  rw [filter_filter]
  apply filter_congr
  intro e _
  rw [isTomb_tombstone]
  cases isTomb s e.1 <;> cases h : (e.1 == id) <;> simp [bne, h]

theorem active_tombstone (s : Index F) (id : Nat) : active (tombstone s id) = (active s).filter (fun e => e.1 != id) := by
  unfold active
  exact filter_tombstone s id s.vectors

theorem tombstone_graphOk (s : Index F) (id : Nat) (h : GraphOk s) : GraphOk (tombstone s id) := by
  unfold GraphOk at h ⊢
  rw [active_tombstone]
  have hin : (tombstone s id).inner = s.inner := rfl
  rw [hin]
  cases hi : s.inner with
  | none => rw [hi] at h; simp only [] at h ⊢; rw [h]; rfl
  | some g => rw [hi] at h; simp only [] at h ⊢; rw [filter_tombstone, h]

theorem rebuild_graphOk (s : Index F) (vs : List (Nat × List F.F32)) (h : GraphOk s) : GraphOk (rebuild s vs).1 := by
  unfold rebuild
  split
  · exact h
  · split
    · simp [GraphOk, active]
    · dsimp only
      exact rebuildHnsw_graphOk _

theorem graphOk_applyOp (s : Index F) (op : Op F) (h : GraphOk s) : GraphOk (applyOp s op) := by
  cases op with
  | insert id v =>
    simp only [applyOp, insert]
    split
    · exact h
    · exact rebuildHnsw_graphOk _
  | insertBatch es =>
    simp only [applyOp, insertBatch]
    split
    · exact h
    · exact rebuildHnsw_graphOk _
  | delete id =>
    simp only [applyOp, delete]
    split
    · exact rebuild_graphOk _ _ (tombstone_graphOk s id h)
    · exact tombstone_graphOk s id h
  | rebuild vs => exact rebuild_graphOk s vs h
  | saveLoad =>
    simp only [applyOp]
    unfold load save
    simp only [parseMetric_metricName, Option.getD_some]
    exact rebuildHnsw_graphOk _

theorem graphOk_run : ∀ (ops : List (Op F)) (s : Index F), GraphOk s → GraphOk (runOps s ops)
  | [], _, h => h
  | op :: rest, s, h => by
    simp only [runOps, foldl_cons]
    exact graphOk_run rest _ (graphOk_applyOp s op h)

theorem graphOk_empty (cfg : Cfg) : GraphOk ({ cfg := cfg } : Index F) := by
  simp [GraphOk, active]

/-! ### what a search can return -/

theorem searchRaw_length_le (s : Index F) (q : List F.F32) (k : Nat) (raw : List (Nat × F.F32)) :
    (searchRaw s q k raw).length ≤ k := by
  unfold searchRaw
  split
  · simp
  · simp only []
    exact length_take_le _ _

/-- every identifier returned belongs to an entry of the graph that is not tombstoned. -/
theorem searchRaw_ids (s : Index F) (q : List F.F32) (k : Nat) (raw : List (Nat × F.F32)) :
    ∀ p ∈ searchRaw s q k raw, ∃ g e, s.inner = some g ∧ e ∈ g ∧ e.1 = p.1 ∧ isTomb s e.1 = false := by
  intro p hp
  unfold searchRaw at hp
  split at hp
  · simp at hp
  · rename_i stored hin
    simp only [] at hp
    have hp2 := (sortBy_perm F.lt64 (fun (x : Nat × F.F64) => x.2) _).subset (mem_of_mem_take hp)
    split at hp2
    · rcases mem_filterMap.1 hp2 with ⟨r, _, hr⟩
      split at hr
      · simp at hr
      · rename_i id sv hst
        split at hr
        · simp at hr
        · rename_i hnt
          split at hr
          · simp at hr; subst hr
            exact ⟨stored, (id, sv), hin, List.mem_of_getElem? hst, rfl, by simpa using hnt⟩
          · simp at hr
    · rcases mem_filterMap.1 hp2 with ⟨r, _, hr⟩
      split at hr
      · simp at hr
      · rename_i id sv hst
        split at hr
        · simp at hr
        · rename_i hnt
          simp at hr; subst hr
          exact ⟨stored, (id, sv), hin, List.mem_of_getElem? hst, rfl, by simpa using hnt⟩

theorem search_length_le (ann : List (List F.F32) → List F.F32 → Nat → Nat → List (Nat × F.F32))
    (s : Index F) (q : List F.F32) (k : Nat) (ef : Option Nat) : (search ann s q k ef).length ≤ k := by
  unfold search
  split
  · simp
  · exact searchRaw_length_le _ _ _ _

theorem mem_active_live (s : Index F) (e : Nat × List F.F32) (he : e ∈ active s) : (liveOf s e.1).isSome = true := by
  unfold active at he
  rcases mem_filter.1 he with ⟨hev, hnt⟩
  unfold liveOf
  have hnt' : isTomb s e.1 = false := by simpa using hnt
  simp only [hnt', Bool.false_eq_true, ↓reduceIte]
  cases hf : s.vectors.find? (fun q => q.1 == e.1) with
  | some x => simp
  | none =>
    have := List.find?_eq_none.1 hf e hev
    simp at this

/-- in every state satisfying the graph invariant, every returned identifier is live. -/
theorem search_ids_live (ann : List (List F.F32) → List F.F32 → Nat → Nat → List (Nat × F.F32))
    (s : Index F) (hG : GraphOk s) (q : List F.F32) (k : Nat) (ef : Option Nat) :
    ∀ p ∈ search ann s q k ef, (liveOf s p.1).isSome = true := by
  intro p hp
  unfold search at hp
  split at hp
  · simp at hp
  · obtain ⟨g, e, hg, heg, hid, hnt⟩ := searchRaw_ids _ _ _ _ p hp
    unfold GraphOk at hG
    rw [hg] at hG
    simp only [] at hG
    have : e ∈ active s := by
      rw [← hG]; exact mem_filter.2 ⟨heg, by simp [hnt]⟩
    rw [← hid]; exact mem_active_live s e this


/-! ### refinement to identifier ⇀ vector (C25) -/

/-- abstract index: identifier ⇀ stored (prepared) vector. -/
abbrev AMap (F : FloatOps) := Nat → Option (List F.F32)

def specUpsert (m : Metric) (a : AMap F) (id : Nat) (v : List F.F32) : AMap F :=
  fun i => if i = id then some (prepare F m v) else a i

/-- the Spec of C25: upsert / remove / replace; save-load is the identity. -/
def specStep (m : Metric) (a : AMap F) : Op F → AMap F
  | .insert id v => specUpsert m a id v
  | .insertBatch es => es.foldl (fun a e => specUpsert m a e.1 e.2) a
  | .delete id => fun i => if i = id then none else a i
  | .rebuild vs => fun i => (vs.find? (fun e => e.1 == i)).map (fun e => prepare F m e.2)
  | .saveLoad => a

def specRun (m : Metric) (ops : List (Op F)) : AMap F := ops.foldl (specStep m) (fun _ => none)

/-- accepted input: the vector has the index's dimension and (cosine/dot) a usable norm. -/
def WFVec (m : Metric) (d : Nat) (v : List F.F32) : Prop :=
  v.length = d ∧ (needsNorm m = true → normTooSmall v = false)

def WFOp (m : Metric) (d : Nat) : Op F → Prop
  | .insert _ v => WFVec m d v
  | .insertBatch es => ∀ e ∈ es, WFVec m d e.2
  | .delete _ => True
  | .rebuild vs => ∀ e ∈ vs, WFVec m d e.2
  | .saveLoad => True

/-- `prepare` is idempotent (trivially for l2/l1; for cosine/dot: re-normalising a normalised vector
    leaves it unchanged — a float hypothesis, the Spec oracle allows 4 ulp instead). -/
def PrepIdem (F : FloatOps) (m : Metric) : Prop := ∀ v : List F.F32, prepare F m (prepare F m v) = prepare F m v

/-- the simulation relation between wrapper state and abstract map. -/
structure Rel (m : Metric) (d : Nat) (s : Index F) (a : AMap F) : Prop where
  live : ∀ i, liveOf s i = a i
  dim : s.dim = 0 ∨ s.dim = d
  stored : ∀ p ∈ s.vectors, p.2.length = d ∧ prepare F m p.2 = p.2
  metric : s.cfg.metric = m

theorem liveOf_rebuildHnsw (s : Index F) (i : Nat) : liveOf (rebuildHnsw s) i = liveOf s i := by
  obtain ⟨hv, ht, _⟩ := rebuildHnsw_vectors s
  unfold liveOf isTomb
  rw [hv, ht]

theorem rel_rebuildHnsw {m d} {s : Index F} {a : AMap F} (h : Rel m d s a) : Rel m d (rebuildHnsw s) a := by
  obtain ⟨hv, ht, hc⟩ := rebuildHnsw_vectors s
  refine ⟨fun i => by rw [liveOf_rebuildHnsw]; exact h.live i, ?_, by rw [hv]; exact h.stored, by rw [hc]; exact h.metric⟩
  unfold rebuildHnsw
  split
  · exact h.dim
  · rename_i id0 v0 rest hact
    right
    have : (id0, v0) ∈ active s := by rw [hact]; simp
    unfold active at this
    exact (h.stored _ (mem_filter.1 this).1).1

theorem contains_filter_ne (tombs : List Nat) (id i : Nat) :
    (tombs.filter (fun t => t != id)).contains i = (tombs.contains i && (i != id)) := by
  rw [Bool.eq_iff_iff]
  simp only [contains_iff_mem, mem_filter, Bool.and_eq_true, bne_iff_ne, ne_eq]

/-- `store_vector` is an upsert of the prepared vector on the live content — also when the
    identifier was tombstoned. -/
theorem liveOf_storeVec (s : Index F) (id : Nat) (v : List F.F32) (i : Nat) :
    liveOf (storeVec s id v) i = if i = id then some (prepare F s.cfg.metric v) else liveOf s i := by
  unfold liveOf isTomb storeVec
  simp only []
  rw [contains_filter_ne, find_upsert]
  by_cases hi : i = id
  · subst hi; simp
  · have hb : (i != id) = true := by simpa using hi
    simp only [hb, Bool.and_true, hi, ↓reduceIte]

theorem rel_storeVec {m d} (hI : PrepIdem F m) {s : Index F} {a : AMap F} (h : Rel m d s a) (hdim : s.dim = d)
    (id : Nat) (v : List F.F32) (hv : v.length = d) :
    Rel m d (storeVec s id v) (specUpsert m a id v) ∧ (storeVec s id v).dim = d := by
  refine ⟨⟨?_, Or.inr hdim, ?_, h.metric⟩, hdim⟩
  · intro i
    rw [liveOf_storeVec, h.metric]
    unfold specUpsert
    by_cases hi : i = id
    · simp [hi]
    · simp only [hi, ↓reduceIte]; exact h.live i
  · intro p hp
    rcases mem_upsert s.vectors id _ p hp with h1 | h2
    · exact h.stored p h1
    · subst h2
      rw [h.metric]
      exact ⟨by rw [prepare_length]; exact hv, hI v⟩

theorem validate_ok {m d} (hd : 0 < d) (v : List F.F32) (hv : WFVec (F := F) m d v) (dim : Nat) (hdim : dim = 0 ∨ dim = d) :
    validate m v dim = .ok d := by
  have hne : v.isEmpty = false := by
    cases v with
    | nil => have := hv.1; simp at this; omega
    | cons x xs => rfl
  have hz : (needsNorm m && normTooSmall v) = false := by
    cases hn : needsNorm m with
    | false => rfl
    | true => rw [hv.2 hn]; rfl
  have hdm : (dim != 0 && dim != v.length) = false := by
    rcases hdim with h0 | hdd
    · rw [h0]; rfl
    · rw [hdd, hv.1]; simp
  unfold validate
  rw [hne, hz, hdm, hv.1]
  simp

theorem validateAll_ok {m d} (hd : 0 < d) : ∀ (es : List (Nat × List F.F32)), (∀ e ∈ es, WFVec (F := F) m d e.2) →
    ∀ dim, (dim = 0 ∨ dim = d) → validateAll m es dim = .ok (if es.isEmpty then dim else d)
  | [], _, dim, _ => rfl
  | (id, v) :: rest, hw, dim, hdim => by
    unfold validateAll
    rw [validate_ok hd v (hw (id, v) (by simp)) dim hdim]
    simp only []
    rw [validateAll_ok hd rest (fun e he => hw e (by simp [he])) d (Or.inr rfl)]
    cases rest <;> rfl

theorem rel_insert {m d} (hd : 0 < d) (hI : PrepIdem F m) {s : Index F} {a : AMap F} (h : Rel m d s a)
    (id : Nat) (v : List F.F32) (hv : WFVec m d v) :
    Rel m d (insert s id v).1 (specUpsert m a id v) := by
  unfold insert
  rw [h.metric, validate_ok hd v hv s.dim h.dim]
  simp only []
  apply rel_rebuildHnsw
  have h' : Rel m d ({ s with dim := d } : Index F) a := ⟨h.live, Or.inr rfl, h.stored, h.metric⟩
  exact (rel_storeVec hI h' rfl id v hv.1).1

theorem rel_storeAll {m d} (hI : PrepIdem F m) : ∀ (es : List (Nat × List F.F32)) {s : Index F} {a : AMap F},
    Rel m d s a → s.dim = d → (∀ e ∈ es, e.2.length = d) →
    Rel m d (storeAll s es) (es.foldl (fun a e => specUpsert m a e.1 e.2) a)
  | [], _, _, h, _, _ => h
  | (id, v) :: rest, s, a, h, hdim, hw => by
    obtain ⟨hr, hd'⟩ := rel_storeVec hI h hdim id v (hw (id, v) (by simp))
    simp only [storeAll, foldl_cons]
    exact rel_storeAll hI rest hr hd' (fun e he => hw e (by simp [he]))

theorem rel_insertBatch {m d} (hd : 0 < d) (hI : PrepIdem F m) {s : Index F} {a : AMap F} (h : Rel m d s a)
    (es : List (Nat × List F.F32)) (hw : ∀ e ∈ es, WFVec m d e.2) :
    Rel m d (insertBatch s es).1 (es.foldl (fun a e => specUpsert m a e.1 e.2) a) := by
  unfold insertBatch
  rw [h.metric, validateAll_ok hd es hw s.dim h.dim]
  simp only []
  apply rel_rebuildHnsw
  cases es with
  | nil =>
    simp only [isEmpty_nil, ↓reduceIte, storeAll, foldl_nil]
    exact ⟨h.live, h.dim, h.stored, h.metric⟩
  | cons e rest =>
    simp only [isEmpty_cons, Bool.false_eq_true, ↓reduceIte]
    have h' : Rel m d ({ s with dim := d } : Index F) a := ⟨h.live, Or.inr rfl, h.stored, h.metric⟩
    exact rel_storeAll hI (e :: rest) h' rfl (fun x hx => (hw x hx).1)

/-- the state a successful `rebuild` produces is the replace-map. -/
theorem rel_rebuild_ok {m d} {s : Index F} (hm : s.cfg.metric = m) (hI : PrepIdem F m)
    (vs : List (Nat × List F.F32)) (hw : ∀ e ∈ vs, e.2.length = d) (n : Nat)
    (hok : validateAll s.cfg.metric vs 0 = .ok n) :
    Rel m d (rebuild s vs).1 (fun i => (vs.find? (fun e => e.1 == i)).map (fun e => prepare F m e.2)) := by
  unfold rebuild
  rw [hok]
  simp only []
  split
  · refine ⟨fun i => by simp [liveOf, isTomb], Or.inl rfl, fun p hp => by simp at hp, hm⟩
  · rename_i id0 v0 rest
    dsimp only
    apply rel_rebuildHnsw
    refine ⟨?_, ?_, ?_, hm⟩
    · intro i
      unfold liveOf isTomb
      simp only [contains_nil, Bool.false_eq_true, ↓reduceIte]
      rw [find?_map]
      simp only [Function.comp_def, Option.map_map, hm]
    · right; exact hw (id0, v0) (by simp)
    · intro p hp
      rcases mem_map.1 hp with ⟨e, he, rfl⟩
      simp only [hm]
      exact ⟨by rw [prepare_length]; exact hw e he, hI _⟩

theorem rel_tombstone {m d} {s : Index F} {a : AMap F} (h : Rel m d s a) (id : Nat) :
    Rel m d (tombstone s id) (fun i => if i = id then none else a i) := by
  refine ⟨?_, h.dim, h.stored, h.metric⟩
  intro i
  have hl := h.live i
  unfold liveOf at hl ⊢
  rw [isTomb_tombstone]
  have hv : (tombstone s id).vectors = s.vectors := rfl
  rw [hv]
  by_cases hi : i = id
  · subst hi; simp
  · have hb : (i == id) = false := by simpa using hi
    rw [hb, Bool.or_false, if_neg hi]
    exact hl

theorem rel_delete {m d} (hI : PrepIdem F m) {s : Index F} {a : AMap F} (h : Rel m d s a) (id : Nat) :
    Rel m d (delete s id) (fun i => if i = id then none else a i) := by
  have h1 := rel_tombstone h id
  unfold delete
  by_cases hr : ratioAbove (tombstone s id) = true
  · simp only [hr, ↓reduceIte]
    -- compaction: `rebuild` of the active entries (already prepared); if its validation refuses,
    -- nothing changes
    cases hval : validateAll (tombstone s id).cfg.metric (active (tombstone s id)) 0 with
    | error e =>
      have : (rebuild (tombstone s id) (active (tombstone s id))).1 = tombstone s id := by
        unfold rebuild; rw [hval]
      rw [this]; exact h1
    | ok n =>
      have hact : ∀ e ∈ active (tombstone s id), e.2.length = d := fun e he => (h1.stored e (mem_filter.1 he).1).1
      have hr' := rel_rebuild_ok (s := tombstone s id) h1.metric hI (active (tombstone s id)) hact n hval
      refine ⟨?_, hr'.dim, hr'.stored, hr'.metric⟩
      intro i
      rw [hr'.live i]
      have hl := h1.live i
      unfold liveOf isTomb at hl
      unfold active isTomb
      rw [find_filter_tombs]
      cases hc : (tombstone s id).tombs.contains i with
      | true =>
        rw [hc] at hl
        simp only [↓reduceIte, Option.map_none] at hl ⊢
        exact hl
      | false =>
        rw [hc] at hl
        simp only [Bool.false_eq_true, ↓reduceIte] at hl ⊢
        rw [← hl]
        cases hf : (tombstone s id).vectors.find? (fun p => p.1 == i) with
        | none => rfl
        | some e =>
          simp only [Option.map_some]
          rw [(h1.stored e (mem_of_find?_eq_some hf)).2]
  · simp only [hr, Bool.false_eq_true, ↓reduceIte]
    exact h1

/-- `load (save s)` is `rebuild_hnsw` of the same stored state. -/
theorem load_save (s : Index F) : load (save s) = some (rebuildHnsw { s with inner := none }) := by
  unfold load save
  simp only [parseMetric_metricName]

theorem rel_saveLoad {m d} {s : Index F} {a : AMap F} (h : Rel m d s a) :
    Rel m d ((load (save s)).getD s) a := by
  rw [load_save]
  simp only [Option.getD_some]
  apply rel_rebuildHnsw
  exact ⟨fun i => h.live i, h.dim, h.stored, h.metric⟩

theorem rel_step {m d} (hd : 0 < d) (hI : PrepIdem F m) {s : Index F} {a : AMap F} (h : Rel m d s a)
    (op : Op F) (hw : WFOp m d op) : Rel m d (applyOp s op) (specStep m a op) := by
  cases op with
  | insert id v => exact rel_insert hd hI h id v hw
  | insertBatch es => exact rel_insertBatch hd hI h es hw
  | delete id => exact rel_delete hI h id
  | rebuild vs =>
    have hok := validateAll_ok hd vs hw 0 (Or.inl rfl)
    rw [← h.metric] at hok
    exact rel_rebuild_ok (s := s) h.metric hI vs (fun e he => (hw e he).1) _ hok
  | saveLoad => exact rel_saveLoad h

theorem rel_run {m d} (hd : 0 < d) (hI : PrepIdem F m) : ∀ (ops : List (Op F)) {s : Index F} {a : AMap F},
    Rel m d s a → (∀ op ∈ ops, WFOp m d op) → Rel m d (runOps s ops) (ops.foldl (specStep m) a)
  | [], _, _, h, _ => h
  | op :: rest, s, a, h, hw => by
    have h1 := rel_step hd hI h op (hw op (by simp))
    simp only [runOps, foldl_cons]
    exact rel_run hd hI rest h1 (fun o ho => hw o (by simp [ho]))

/-! ### how many results a search returns (C24) -/

theorem nodup_of_nodupNat : ∀ (l : List Nat), nodupNat l = true → l.Nodup
  | [], _ => nodup_nil
  | x :: xs, h => by
    simp only [nodupNat, Bool.and_eq_true, Bool.not_eq_true'] at h
    refine nodup_cons.2 ⟨?_, nodup_of_nodupNat xs h.2⟩
    intro hx
    have : xs.contains x = true := contains_iff_mem.2 hx
    rw [h.1] at this; cases this

/-- is the entry at position `i` of the graph searchable (not tombstoned)? -/
def aliveIdx (s : Index F) (g : List (Nat × List F.F32)) : Nat → Bool :=
  fun i => (g[i]?).elim false (fun e => !isTomb s e.1)

def deadIdx (s : Index F) (g : List (Nat × List F.F32)) : Nat → Bool :=
  fun i => (g[i]?).elim false (fun e => isTomb s e.1)

/-- With the graph invariant, the `ann` contract honoured by the call, the graph within the
    (widened) search breadth and no more tombstoned entries in the graph than tombstones, a search
    returns exactly `min k |live|` results. -/
theorem search_length_complete (ann : List (List F.F32) → List F.F32 → Nat → Nat → List (Nat × F.F32))
    (s : Index F) (hG : GraphOk s) (q : List F.F32) (k : Nat) (ef : Option Nat)
    (hc : ∀ g, s.inner = some g →
      annOk (g.map (·.2)) (prepare F s.cfg.metric q) (searchK s k) (searchEf s ef)
        (ann (g.map (·.2)) (prepare F s.cfg.metric q) (searchK s k) (searchEf s ef)) = true)
    (hdead : ∀ g, s.inner = some g → (g.filter (fun e => isTomb s e.1)).length ≤ s.tombs.length)
    (hn : ∀ g, s.inner = some g → g.length ≤ searchEf s ef) :
    (search ann s q k ef).length = min k (active s).length := by
  unfold search
  cases hin : s.inner with
  | none =>
    unfold GraphOk at hG
    rw [hin] at hG
    simp only [] at hG ⊢
    rw [hG]; simp
  | some g =>
    simp only []
    have hok := hc g hin
    have hD := hdead g hin
    have hN := hn g hin
    unfold GraphOk at hG
    rw [hin] at hG
    simp only [] at hG
    generalize hraw : ann (g.map (·.2)) (prepare F s.cfg.metric q) (searchK s k) (searchEf s ef) = raw at hok ⊢
    unfold annOk at hok
    simp only [Bool.and_eq_true, Bool.or_eq_true, Bool.not_eq_true', decide_eq_true_eq, decide_eq_false_iff_not, all_eq_true, beq_iff_eq] at hok
    obtain ⟨⟨⟨⟨hnd, hvalid⟩, _⟩, _⟩, hcompl⟩ := hok
    have hlen : raw.length = min (searchK s k) g.length := by
      rcases hcompl with h | h
      · exact absurd (by simpa using hN) h
      · simpa using h.1
    have hlt : ∀ i ∈ raw.map (·.1), i < g.length := by
      intro i hi
      rcases mem_map.1 hi with ⟨p, hp, rfl⟩
      have := hvalid p hp
      rw [getElem?_map] at this
      cases hs : g[p.1]? with
      | none => rw [hs] at this; simp at this
      | some e => exact (List.getElem?_eq_some_iff.1 hs).1
    have hndl := nodup_of_nodupNat _ hnd
    -- the result before sorting has one entry per searchable raw answer
    have hres : (searchRaw s q k raw).length = min k ((raw.map (·.1)).countP (aliveIdx s g)) := by
      unfold searchRaw
      simp only [hin]
      rw [length_take, (sortBy_perm _ _ _).length_eq, countP_map]
      congr 1
      split
      · rw [length_filterMap_eq_countP]
        apply countP_congr
        intro r _
        simp only [Function.comp_def, aliveIdx]
        cases hs : g[r.1]? with
        | none => simp
        | some e =>
          obtain ⟨id, sv⟩ := e
          simp only []
          cases ht : isTomb s id with
          | true => simp [ht]
          | false =>
            simp only [Bool.false_eq_true, ↓reduceIte, Bool.not_false]
            have hmem : (id, sv) ∈ active s := by
              rw [← hG]; exact mem_filter.2 ⟨List.mem_of_getElem? hs, by simp [ht]⟩
            have hv : (id, sv) ∈ s.vectors := (mem_filter.1 hmem).1
            cases hf : s.vectors.find? (fun p => p.1 == id) with
            | none => have := find?_eq_none.1 hf (id, sv) hv; simp at this
            | some x => obtain ⟨_, _⟩ := x; simp [ht]
      · rw [length_filterMap_eq_countP]
        apply countP_congr
        intro r _
        simp only [Function.comp_def, aliveIdx]
        cases hs : g[r.1]? with
        | none => simp
        | some e =>
          obtain ⟨id, sv⟩ := e
          simp only []
          cases ht : isTomb s id <;> simp [ht]
    rw [hres]
    -- counting
    have hA : (raw.map (·.1)).countP (aliveIdx s g) ≤ (active s).length := by
      have h1 := countP_idx_le _ g.length hndl hlt (aliveIdx s g)
      have h3 : (List.range g.length).countP (aliveIdx s g) = g.countP (fun e => !isTomb s e.1) :=
        countP_range_getElem (fun e : Nat × List F.F32 => !isTomb s e.1) g
      have h4 : g.countP (fun e => !isTomb s e.1) = (active s).length := by rw [countP_eq_length_filter, hG]
      rw [h3, h4] at h1
      exact h1
    have hDd : (raw.map (·.1)).countP (deadIdx s g) ≤ (g.filter (fun e => isTomb s e.1)).length := by
      have h1 := countP_idx_le _ g.length hndl hlt (deadIdx s g)
      have h2 : (List.range g.length).countP (deadIdx s g) = g.countP (fun e => isTomb s e.1) :=
        countP_range_getElem (fun e : Nat × List F.F32 => isTomb s e.1) g
      have h4 : g.countP (fun e => isTomb s e.1) = (g.filter (fun e => isTomb s e.1)).length := countP_eq_length_filter
      rw [h2, h4] at h1
      omega
    have hsum : (raw.map (·.1)).length = (raw.map (·.1)).countP (aliveIdx s g) + (raw.map (·.1)).countP (deadIdx s g) := by
      rw [length_eq_countP_add_countP (aliveIdx s g)]
      congr 1
      apply countP_congr
      intro i hi
      have hi' := hlt i hi
      unfold aliveIdx deadIdx
      rw [getElem?_eq_getElem hi']
      simp
    have hgl : g.length = (active s).length + (g.filter (fun e => isTomb s e.1)).length := by
      rw [← hG, ← countP_eq_length_filter, ← countP_eq_length_filter, length_eq_countP_add_countP (fun e : Nat × List F.F32 => !isTomb s e.1) (l := g)]
      congr 1
      apply countP_congr
      intro e _
      simp
    have hk : k + s.tombs.length ≤ searchK s k := by unfold searchK; split <;> omega
    rw [length_map] at hsum
    omega

end ILV.Hnsw
