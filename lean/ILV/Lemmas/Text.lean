/-
  Lemmas about the text layer (ILV.Model.Text): what `trim` guarantees, and that phase 2's
  accumulator text `line ++ " "` trims back to `line`.
-/
import ILV.Model.Text
namespace ILV.Text

/-- non-empty, first and last character are not white space -/
def Trimmed (l : List Char) : Prop :=
  (∃ c cs, l = c :: cs ∧ isWs c = false) ∧ (∃ d ds, l.reverse = d :: ds ∧ isWs d = false)

theorem trimStart_head_nonws : ∀ (x : List Char) (c : Char) (cs : List Char), trimStart x = c :: cs → isWs c = false := by
  intro x
  induction x with
  | nil => intro c cs h; simp [trimStart] at h
  | cons a as ih =>
    intro c cs h
    unfold trimStart at h
    by_cases ha : isWs a = true
    · simp [ha] at h; exact ih c cs h
    · simp [ha] at h; rcases h with ⟨rfl, _⟩; simpa using ha

theorem trimStart_of_nonws (c : Char) (cs : List Char) (h : isWs c = false) : trimStart (c :: cs) = c :: cs := by
  simp [trimStart, h]

/-- `trimStart` returns a suffix -/
theorem trimStart_suffix : ∀ x : List Char, ∃ p, x = p ++ trimStart x := by
  intro x
  induction x with
  | nil => exact ⟨[], rfl⟩
  | cons a as ih =>
    unfold trimStart
    by_cases ha : isWs a = true
    · simp [ha]; rcases ih with ⟨p, hp⟩; exact ⟨a :: p, by simpa using hp⟩
    · simp [ha]

theorem trim_trimmed (x : List Char) (hne : trim x ≠ []) : Trimmed (trim x) := by
  unfold trim trimEnd at *
  -- y := trimStart x ; z := (trimStart y.reverse).reverse
  generalize hy : trimStart x = y at *
  constructor
  · -- the head: z is a prefix of y, y's head is non-ws
    rcases trimStart_suffix y.reverse with ⟨p, hp⟩
    have hz : y = (trimStart y.reverse).reverse ++ p.reverse := by
      have := congrArg List.reverse hp
      simpa using this
    cases hzz : (trimStart y.reverse).reverse with
    | nil => exact absurd hzz hne
    | cons c cs =>
      refine ⟨c, cs, rfl, ?_⟩
      rw [hzz] at hz
      exact trimStart_head_nonws x c (cs ++ p.reverse) (by rw [hy, hz]; rfl)
  · -- the last: reverse of z is `trimStart y.reverse`
    cases hr : trimStart y.reverse with
    | nil => rw [hr] at hne; exact absurd rfl hne
    | cons d ds => exact ⟨d, ds, by simp, trimStart_head_nonws _ d ds hr⟩

/-- the statement text phase 2 parses (`(line ++ " ").trim()`) is the line itself -/
theorem trim_append_space (l : List Char) (h : Trimmed l) : trim (l ++ [' ']) = l := by
  rcases h with ⟨⟨c, cs, rfl, hc⟩, ⟨d, ds, hd, hdw⟩⟩
  unfold trim trimEnd
  have h1 : trimStart ((c :: cs) ++ [' ']) = (c :: cs) ++ [' '] := by
    simpa using trimStart_of_nonws c (cs ++ [' ']) hc
  rw [h1]
  have h2 : ((c :: cs) ++ [' ']).reverse = ' ' :: (c :: cs).reverse := by simp
  rw [h2]
  have hsp : isWs ' ' = true := by decide
  have h3 : trimStart (' ' :: (c :: cs).reverse) = trimStart (c :: cs).reverse := by
    simp [trimStart, hsp]
  rw [h3, hd, trimStart_of_nonws d ds hdw, ← hd]
  simp

theorem logicalLines_trimmed (t : List Char) (l : List Char) (h : l ∈ logicalLines t) : Trimmed l := by
  unfold logicalLines at h
  simp only [List.mem_filter, List.mem_map] at h
  rcases h with ⟨⟨x, _, rfl⟩, hne⟩
  apply trim_trimmed
  intro he; simp [he] at hne

end ILV.Text

namespace ILV.Text

/-! ### single-line texts -/

theorem trim_of_trimmed (l : List Char) (h : Trimmed l) : trim l = l := by
  rcases h with ⟨⟨c, cs, rfl, hc⟩, ⟨d, ds, hd, hdw⟩⟩
  unfold trim trimEnd
  rw [trimStart_of_nonws c cs hc, hd, trimStart_of_nonws d ds hdw, ← hd]
  simp

theorem trim_nil : trim [] = [] := by decide

theorem trim_idem (t : List Char) : trim (trim t) = trim t := by
  by_cases h : trim t = []
  · rw [h]; exact trim_nil
  · exact trim_of_trimmed _ (trim_trimmed t h)

theorem splitNl_noNl : ∀ t : List Char, '\n' ∉ t → splitNl t = [t] := by
  intro t
  induction t with
  | nil => intro _; rfl
  | cons c cs ih =>
    intro h
    have hc : c ≠ '\n' := fun e => h (by simp [e])
    have hcs : '\n' ∉ cs := fun e => h (by simp [e])
    unfold splitNl
    rw [ih hcs]
    simp [hc]

theorem rustLines_noNl (t : List Char) (h : '\n' ∉ t) : rustLines t = if t.isEmpty then [] else [t] := by
  unfold rustLines
  rw [splitNl_noNl t h]
  simp

theorem joinNl_nil : joinNl [] = [] := by decide
theorem joinNl_single (t : List Char) : joinNl [t] = t := by
  unfold joinNl; simp [List.intercalate]

theorem stripComments_noNl (t : List Char) (h : '\n' ∉ t) : stripComments t = t ∨ stripComments t = [] := by
  unfold stripComments
  rw [rustLines_noNl t h]
  by_cases he : t.isEmpty = true
  · right; simp [he, joinNl_nil]
  · simp only [he]
    by_cases hf : (!(startsWith ['%'] (trim t)) && !(startsWith ['/', '/'] (trim t))) = true
    · left; simp [List.filter, hf, joinNl_single]
    · right; simp [List.filter, hf, joinNl_nil]

theorem joinContinuation_noNl (t : List Char) (h : '\n' ∉ t) :
    joinContinuation t = t ∨ (joinContinuation t = [] ∧ trim t = []) := by
  unfold joinContinuation
  rw [rustLines_noNl t h]
  by_cases he : t.isEmpty = true
  · have : t = [] := by simpa using he
    subst this
    right; exact ⟨by decide, trim_nil⟩
  · simp only [he]
    by_cases ht : (trim t).isEmpty = true
    · right
      have : trim t = [] := by simpa using ht
      refine ⟨?_, this⟩
      simp [List.foldl, joinStep, ht, joinNl, List.intercalate]
    · left
      simp [List.foldl, joinStep, ht, joinNl_single]

/-- a text without a newline has at most one logical line, and it is the trimmed text -/
theorem logicalLines_noNl (t : List Char) (h : '\n' ∉ t) :
    logicalLines t = [] ∨ (logicalLines t = [trim t] ∧ stripComments t = t) := by
  unfold logicalLines
  have hnil : (List.filter (fun l : List Char => !l.isEmpty) (List.map trim (rustLines (joinContinuation [])))) = [] := by decide
  rcases stripComments_noNl t h with hs | hs
  · have h1 : (List.filter (fun l : List Char => !l.isEmpty) (List.map trim (rustLines (joinContinuation t)))) = [] ∨
        (List.filter (fun l : List Char => !l.isEmpty) (List.map trim (rustLines (joinContinuation t)))) = [trim t] := by
      rcases joinContinuation_noNl t h with hj | ⟨hj, ht⟩
      · rw [hj, rustLines_noNl t h]
        by_cases he : t.isEmpty = true
        · left; simp [he]
        · by_cases ht : (trim t).isEmpty = true
          · left; simp [he, List.filter, ht]
          · right; simp [he, List.filter, ht]
      · left; rw [hj]; decide
    rcases h1 with h1 | h1
    · left; rw [hs]; exact h1
    · right; exact ⟨by rw [hs]; exact h1, hs⟩
  · left; rw [hs]; exact hnil

end ILV.Text
