/-
  Lemmas about the text layer (ILV.Model.Text): what `trim` guarantees, and that phase 2's
  accumulator text `line ++ " "` trims back to `line`.
-/
import ILV.Model.Text
namespace ILV.Text

/-- non-empty, first and last character are not white space -/
def Trimmed (l : List Char) : Prop :=
  (∃ c cs, l = c :: cs ∧ isWs c = false) ∧ (∃ d ds, l.reverse = d :: ds ∧ isWs d = false)

theorem trimStart_head_nonws : ∀ (x : List Char) (c : Char) (cs : List Char), trimStart x = c :: cs → isWs c = false := by
  intro x
  induction x with
  | nil => intro c cs h; simp [trimStart] at h
  | cons a as ih =>
    intro c cs h
    unfold trimStart at h
    by_cases ha : isWs a = true
    · simp [ha] at h; exact ih c cs h
    · simp [ha] at h; rcases h with ⟨rfl, _⟩; simpa using ha

theorem trimStart_of_nonws (c : Char) (cs : List Char) (h : isWs c = false) : trimStart (c :: cs) = c :: cs := by
  simp [trimStart, h]

/-- `trimStart` returns a suffix -/
theorem trimStart_suffix : ∀ x : List Char, ∃ p, x = p ++ trimStart x := by
  intro x
  induction x with
  | nil => exact ⟨[], rfl⟩
  | cons a as ih =>
    unfold trimStart
    by_cases ha : isWs a = true
    · simp [ha]; rcases ih with ⟨p, hp⟩; exact ⟨a :: p, by simpa using hp⟩
    · simp [ha]

theorem trim_trimmed (x : List Char) (hne : trim x ≠ []) : Trimmed (trim x) := by
  unfold trim trimEnd at *
  -- y := trimStart x ; z := (trimStart y.reverse).reverse
  generalize hy : trimStart x = y at *
  constructor
  · -- the head: z is a prefix of y, y's head is non-ws
    rcases trimStart_suffix y.reverse with ⟨p, hp⟩
    have hz : y = (trimStart y.reverse).reverse ++ p.reverse := by
      have := congrArg List.reverse hp
      simpa using this
    cases hzz : (trimStart y.reverse).reverse with
    | nil => exact absurd hzz hne
    | cons c cs =>
      refine ⟨c, cs, rfl, ?_⟩
      rw [hzz] at hz
      exact trimStart_head_nonws x c (cs ++ p.reverse) (by rw [hy, hz]; rfl)
  · -- the last: reverse of z is `trimStart y.reverse`
    cases hr : trimStart y.reverse with
    | nil => rw [hr] at hne; exact absurd rfl hne
    | cons d ds => exact ⟨d, ds, by simp, trimStart_head_nonws _ d ds hr⟩

/-- the statement text phase 2 parses (`(line ++ " ").trim()`) is the line itself -/
theorem trim_append_space (l : List Char) (h : Trimmed l) : trim (l ++ [' ']) = l := by
  rcases h with ⟨⟨c, cs, rfl, hc⟩, ⟨d, ds, hd, hdw⟩⟩
  unfold trim trimEnd
  have h1 : trimStart ((c :: cs) ++ [' ']) = (c :: cs) ++ [' '] := by
    simpa using trimStart_of_nonws c (cs ++ [' ']) hc
  rw [h1]
  have h2 : ((c :: cs) ++ [' ']).reverse = ' ' :: (c :: cs).reverse := by simp
  rw [h2]
  have hsp : isWs ' ' = true := by decide
  have h3 : trimStart (' ' :: (c :: cs).reverse) = trimStart (c :: cs).reverse := by
    simp [trimStart, hsp]
  rw [h3, hd, trimStart_of_nonws d ds hdw, ← hd]
  simp

theorem logicalLines_trimmed (t : List Char) (l : List Char) (h : l ∈ logicalLines t) : Trimmed l := by
  unfold logicalLines at h
  simp only [List.mem_filter, List.mem_map] at h
  rcases h with ⟨⟨x, _, rfl⟩, hne⟩
  apply trim_trimmed
  intro he; simp [he] at hne

end ILV.Text
