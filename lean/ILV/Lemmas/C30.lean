/-
  Helper definitions and lemmas for C30 (ILV.Props.C30): the input-class predicates of the partial
  theorem, phase 2 = sequential reading, and "a syntax error is rejected without effect" pushed
  through `query_program_with_session`, `postProcess` and `execRest`.
-/
import ILV.Lemmas.Text
import ILV.Model.Handler
namespace ILV.Props.C30
open ILV ILV.Text ILV.Handler ILV.Gen.C28

/-- some statement (logical line) of the program does not parse -/
def hasSyntaxError (P : Parser) (text : List Char) : Bool :=
  (logicalLines text).any fun l => (parseStatement P l).isNone

def isErr : Res → Bool
  | .err _ => true
  | _ => false

/-- If any statement fails to parse the request is rejected, the stored
    state is untouched and no statement ran — for every program text, grammar, state and target KG. -/
theorem query_reject_no_effect (P : Parser) (w : World) (kgArg : Option String) (text : List Char)
    (h : hasSyntaxError P text = true) :
    (queryProgram P w kgArg text).w = w ∧ isErr (queryProgram P w kgArg text).res = true ∧
    (queryProgram P w kgArg text).trace = [] := by
  unfold queryProgram
  by_cases hk : hasKg w (kgArg.getD "default") = true
  · unfold hasSyntaxError at h
    simp [hk, h, isErr]
  · simp [hk, isErr]

/-- Phase 2 (accumulator `current_stmt`, re-parse of `(line ++ " ").trim()`) runs exactly the
    sequential reading `specRun` of the lines phase 1 validated. -/
theorem phase2_eq_specRun (P : Parser) :
    ∀ (lines : List (List Char)) (s : QState) (tr : List Event), (∀ l ∈ lines, Trimmed l) →
      phase2 P s tr [] lines = specRun P s tr lines := by
  intro lines
  induction lines with
  | nil => intro s tr _; simp [phase2, specRun]
  | cons l ls ih =>
    intro s tr hl
    have hT : Trimmed l := hl l (by simp)
    have hrest : ∀ x ∈ ls, Trimmed x := fun x hx => hl x (by simp [hx])
    have htrim : trim ([] ++ l ++ [' ']) = l := by simpa using trim_append_space l hT
    have hne : l.isEmpty = false := by
      rcases hT with ⟨⟨c, cs, rfl, _⟩, _⟩; rfl
    unfold phase2 specRun
    simp only [htrim, hne]
    cases hp : parseStatement P l with
    | none => simpa using ih _ _ hrest
    | some st =>
      cases ha : applyStmt s l st with
      | cont s' => simpa [ha] using ih s' _ hrest
      | abort s' e => simp [ha]

theorem singleLine_parse_none (P : Parser) (text : List Char) (l : List Char)
    (h : hasSyntaxError P text = true) (hl : logicalLines text = [l]) : parseStatement P l = none := by
  unfold hasSyntaxError at h
  rw [hl] at h
  simpa using h

theorem queryWithSession_reject (P : Parser) (w : World) (u : String) (text : List Char)
    (h : hasSyntaxError P text = true) :
    (queryWithSession P w u text).w = w ∧ isErr (queryWithSession P w u text).res = true := by
  unfold queryWithSession
  have q := fun k => query_reject_no_effect P w k text h
  split
  · exact ⟨(q none).1, (q none).2.1⟩
  · rename_i se hse
    split
    · exact ⟨(q none).1, (q none).2.1⟩
    · split
      · exact ⟨(q (some se.kg)).1, (q (some se.kg)).2.1⟩
      · simp only []
        split
        · simp [isErr]
        · split
          · simp [isErr]
          · split
            · rename_i l hl
              have hp := singleLine_parse_none P text l h hl
              split
              · simp [isErr]
              · rw [hp]; simp [isErr]
            · simp [isErr]

theorem postProcess_err (w : World) (role : Option (String × Role)) (whole : Option Stmt) (sraw : Option Sess) (r : Out)
    (h : isErr r.res = true) :
    (postProcess w role whole sraw r).w = r.w ∧ isErr (postProcess w role whole sraw r).res = true := by
  unfold postProcess postCore
  cases hres : r.res with
  | err e => simp [isErr]
  | msgs m sw => simp [hres, isErr] at h
  | rows rs => simp [hres, isErr] at h

theorem sessionIntercept_some (w : World) (sraw : Option Sess) (whole : Option Stmt) (curKg : Option String) (o : Out)
    (h : sessionIntercept w sraw whole curKg = some o) :
    sraw.isSome = true ∧ ∃ st, whole = some st ∧ (st.kind = .sessionRule ∨ st.kind = .fact) := by
  unfold sessionIntercept at h
  split at h
  · exact ⟨rfl, _, rfl, Or.inl rfl⟩
  · exact ⟨rfl, _, rfl, Or.inr rfl⟩
  · exact ⟨rfl, _, rfl, Or.inr rfl⟩
  · exact ⟨rfl, _, rfl, Or.inl rfl⟩
  · exact ⟨rfl, _, rfl, Or.inr rfl⟩
  · cases h

theorem queryPath_reject (P : Parser) (w : World) (rq : Req) (role : Option (String × Role)) (whole : Option Stmt)
    (sraw : Option Sess) (h : hasSyntaxError P rq.text = true) :
    (queryPath P w rq role whole sraw).w = w ∧ isErr (queryPath P w rq role whole sraw).res = true := by
  unfold queryPath
  have q := fun k => query_reject_no_effect P w k rq.text h
  cases effectiveKg rq.kgArg sraw with
  | none => simp [isErr]
  | some effKg =>
    simp only []
    cases hq : startsWithChar '?' (trim rq.text) with
    | false =>
      simp only []
      exact ⟨(postProcess_err w role whole _ _ (q effKg).2.1).1.trans (q effKg).1,
             (postProcess_err w role whole _ _ (q effKg).2.1).2⟩
    | true =>
      cases hsr' : sraw with
      | none =>
        simp only []
        exact ⟨(postProcess_err w role whole _ _ (q effKg).2.1).1.trans (q effKg).1,
               (postProcess_err w role whole _ _ (q effKg).2.1).2⟩
      | some se =>
        simp only []
        have hq2 := queryWithSession_reject P w se.user rq.text h
        have := postProcess_err w role whole (some se) _ hq2.2
        exact ⟨this.1.trans hq2.1, this.2⟩

/-- with no single statement to intercept, `execRest` is the (validating) query path -/
theorem execRest_reject (P : Parser) (w : World) (rq : Req) (role : Option (String × Role))
    (sraw : Option Sess) (curKg : Option String) (h : hasSyntaxError P rq.text = true) :
    (execRest P w rq role none sraw curKg).w = w ∧ isErr (execRest P w rq role none sraw curKg).res = true := by
  unfold execRest
  have : sessionIntercept w sraw none curKg = none := by
    unfold sessionIntercept; cases sraw <;> rfl
  rw [this]
  exact queryPath_reject P w rq role none sraw h

theorem singleStmt_none (P : Parser) (text : List Char) (h : hasSyntaxError P text = true) :
    singleStmt P text = none := by
  unfold singleStmt
  split
  · rename_i l hl; exact singleLine_parse_none P text l h hl
  · rfl

theorem sraw_found (w : World) (rq : Req) (se : Sess)
    (h : (sessOf w rq) = some se) : findSess w se.user = some se := by
  unfold sessOf at h
  by_cases hu : rq.useSess = true
  · simp only [hu, if_true] at h
    cases hus : rq.user with
    | none => simp [hus] at h
    | some u =>
      simp only [hus, Option.bind] at h
      have hf := h
      unfold findSess at hf
      have := List.find?_some hf
      have hu' : se.user = u := by simpa using this
      rw [hu']; exact h
  · simp [hu] at h

end ILV.Props.C30
