/-
  Invariants of the storage-engine step system (ILV.Model.EStep) without the incremental engine,
  used by Props/C20.
-/
import ILV.Model.EStep
namespace ILV.EStep

@[simp] theorem setThread_same (ts : Tid → Thread) (t : Tid) (v : Thread) : setThread ts t v t = v := by
  simp [setThread]
theorem setThread_other (ts : Tid → Thread) {t i : Tid} (v : Thread) (h : i ≠ t) : setThread ts t v i = ts i := by
  simp [setThread, h]

theorem replay_snoc (l : List (Tid × Op)) (x : Tid × Op) : replay (l ++ [x]) = applyW (replay l) x.2 := by
  simp [replay, List.foldl_append]

theorem replayR_snoc (l : List (Tid × Op)) (x : Tid × Op) : replayR (l ++ [x]) = applyR (replayR l) x.2 := by
  simp [replayR, List.foldl_append]

def isWrite : Op → Bool
  | .insert _ ts => !ts.isEmpty
  | .delete _ ts => !ts.isEmpty
  | .regRule _ _ => true
  | .dropRule _ => true
  | _ => false

def isQuery : Op → Bool
  | .query _ => true
  | .queryV _ => true
  | _ => false

/-- what is recorded about one returned call: its ghost index `k` is a length of the application order;
    a query's answer is computed from the facts *and rules* after the first `k` applications; a write
    sits at position `k-1` of the application order (a delete that reports 0 removed tuples may have been
    filtered out before being applied — unknown relation — and has no effect either way) -/
def EntryOk (applied : List (Tid × Op)) (t : Tid) (e : Op × Out × Nat) : Prop :=
  e.2.2 ≤ applied.length ∧
  ((∀ r, e.1 = .query r → e.2.1 = .rows (replay (applied.take e.2.2) r)) ∧
   (∀ v, e.1 = .queryV v → e.2.1 = .rows (evalView (replay (applied.take e.2.2)) (replayR (applied.take e.2.2)) v))) ∧
  (isWrite e.1 = true → e.2.1 ≠ .del 0 → 1 ≤ e.2.2 ∧ applied[e.2.2 - 1]? = some (t, e.1))

theorem EntryOk.snoc {applied : List (Tid × Op)} {t : Tid} {e : Op × Out × Nat} (x : Tid × Op)
    (h : EntryOk applied t e) : EntryOk (applied ++ [x]) t e := by
  obtain ⟨h1, h2, h3⟩ := h
  refine ⟨by simp; omega, ⟨?_, ?_⟩, ?_⟩
  · intro r hr
    rw [List.take_append_of_le_length h1]; exact h2.1 r hr
  · intro v hv
    rw [List.take_append_of_le_length h1]; exact h2.2 v hv
  · intro hw hne
    obtain ⟨h4, h5⟩ := h3 hw hne
    refine ⟨h4, ?_⟩
    rw [List.getElem?_append_left (by omega)]; exact h5

structure Inv (st : State) : Prop where
  noInc : st.inc = none
  live : st.live = replay st.applied
  rulesI : st.rules = replayR st.applied
  snap : st.snap = st.live
  snapR : st.snapRules = st.rules
  res : ∀ t, t < st.n → ∀ e ∈ (st.threads t).done, EntryOk st.applied t e
  mono : ∀ t, t < st.n → List.Pairwise (fun a b => a.2.2 ≤ b.2.2) (st.threads t).done

theorem inv_init (progs : List (List Op)) : Inv (init progs false) := by
  constructor
  · simp [init]
  · simp [init, replay]
  · simp [init, replayR]
  · simp [init]
  · simp [init]
  · intro t _ e he; simp [init] at he
  · intro t _; simp [init]

theorem finish_done (th : Thread) (op : Op) (rest : List Op) (out : Out) (k : Nat) (h : th.todo = op :: rest) :
    (th.finish out k).done = th.done ++ [(op, out, k)] := by
  simp [Thread.finish, h]

/-- a call returns without changing the shared state; its record is justified -/
theorem inv_finish {st : State} {t : Tid} {op : Op} {rest : List Op} {out : Out} (h : Inv st) (ht : t < st.n)
    (htodo : (st.threads t).todo = op :: rest)
    (he : EntryOk st.applied t (op, out, st.applied.length)) :
    Inv { st with threads := setThread st.threads t ((st.threads t).finish out st.applied.length) } := by
  refine ⟨h.noInc, h.live, h.rulesI, h.snap, h.snapR, ?_, ?_⟩
  · intro i hi e hm
    by_cases hit : i = t
    · subst hit
      simp only [setThread_same, finish_done _ _ _ _ _ htodo] at hm
      rcases List.mem_append.mp hm with hm | hm
      · exact h.res i hi e hm
      · simp at hm; subst hm; exact he
    · simp only [setThread_other _ _ hit] at hm; exact h.res i hi e hm
  · intro i hi
    by_cases hit : i = t
    · subst hit
      simp only [setThread_same, finish_done _ _ _ _ _ htodo]
      refine List.pairwise_append.mpr ⟨h.mono i hi, by simp, ?_⟩
      intro a ha b hb
      simp at hb; subst hb
      exact (h.res i hi a ha).1
    · simp only [setThread_other _ _ hit]; exact h.mono i hi

/-- a step that only moves the program counter of `t` (and clock/log) -/
theorem inv_pc {st : State} {t : Tid} {th' : Thread} {c : Nat} {lg : List (Rel × Tup × Nat × Int)} (h : Inv st)
    (hd : th'.done = (st.threads t).done) :
    Inv { st with clock := c, log := lg, threads := setThread st.threads t th' } := by
  refine ⟨h.noInc, h.live, h.rulesI, h.snap, h.snapR, ?_, ?_⟩
  · intro i hi e hm
    by_cases hit : i = t
    · subst hit; simp only [setThread_same, hd] at hm; exact h.res i hi e hm
    · simp only [setThread_other _ _ hit] at hm; exact h.res i hi e hm
  · intro i hi
    by_cases hit : i = t
    · subst hit; simp only [setThread_same, hd]; exact h.mono i hi
    · simp only [setThread_other _ _ hit]; exact h.mono i hi

theorem insertMem_nochange : ∀ (ts cur : List Tup), (insertMem cur ts).2 = [] → (insertMem cur ts).1 = cur := by
  intro ts
  induction ts with
  | nil => intro cur _; rfl
  | cons t ts ih =>
    intro cur h
    unfold insertMem at h ⊢
    split
    · rename_i hc; simp only [hc, if_true] at h; exact ih cur h
    · rename_i hc; simp only [hc] at h; simp at h

theorem deleteMem_nochange (cur ts : List Tup) (h : cur.length - (deleteMem cur ts).1.length = 0) :
    (deleteMem cur ts).1 = cur := by
  unfold deleteMem at h ⊢
  simp only at h ⊢
  have hle := List.length_filter_le (fun x => !ts.contains x) cur
  have : (cur.filter (fun x => !ts.contains x)).length = cur.length := by omega
  exact List.filter_eq_self.mpr (List.length_filter_eq_length_iff.mp this)

theorem setRel_self (f : Rel → List Tup) (r : Rel) : setRel f r (f r) = f := by
  funext x; by_cases h : x = r <;> simp [setRel, h]

/-- a write (fact or rule operation) is applied and published under the KG write lock: the new
    snapshot carries exactly the facts and the rules after the extended application order -/
theorem inv_write {st : State} {t : Tid} {op : Op} {rest : List Op} (h : Inv st) (ht : t < st.n)
    (htodo : (st.threads t).todo = op :: rest) (hq : isQuery op = false)
    (out : Out) (snap' : Rel → List Tup) (sr' : Rules) (kn : Rel → Bool)
    (hs : snap' = applyW st.live op) (hr : sr' = applyR st.rules op) :
    Inv { st with live := applyW st.live op, known := kn, rules := applyR st.rules op, applied := st.applied ++ [(t, op)], inc := none,
                  snap := snap', snapRules := sr',
                  threads := setThread st.threads t ((st.threads t).finish out (st.applied ++ [(t, op)]).length) } := by
  have hentry : EntryOk (st.applied ++ [(t, op)]) t (op, out, (st.applied ++ [(t, op)]).length) := by
    refine ⟨Nat.le_refl _, ⟨?_, ?_⟩, ?_⟩
    · intro r hr; subst hr; simp [isQuery] at hq
    · intro v hv; subst hv; simp [isQuery] at hq
    · intro _ _; simp
  refine ⟨rfl, ?_, ?_, hs, hr, ?_, ?_⟩
  · rw [replay_snoc, ← h.live]
  · rw [replayR_snoc, ← h.rulesI]
  · intro i hi e hm
    by_cases hit : i = t
    · subst hit
      simp only [setThread_same, finish_done _ _ _ _ _ htodo] at hm
      rcases List.mem_append.mp hm with hm | hm
      · exact (h.res i hi e hm).snoc _
      · have e1 : e = (op, out, (st.applied ++ [(i, op)]).length) := by simpa using hm
        rw [e1]; exact hentry
    · simp only [setThread_other _ _ hit] at hm; exact (h.res i hi e hm).snoc _
  · intro i hi
    by_cases hit : i = t
    · subst hit
      simp only [setThread_same, finish_done _ _ _ _ _ htodo]
      refine List.pairwise_append.mpr ⟨h.mono i hi, by simp, ?_⟩
      intro a ha b hb
      simp at hb; subst hb
      have := (h.res i hi a ha).1
      simp; omega
    · simp only [setThread_other _ _ hit]; exact h.mono i hi

/-- the in-memory apply of a fact write -/
theorem inv_apply {st : State} {t : Tid} {op : Op} {rest : List Op} {τ : Nat} (h : Inv st) (ht : t < st.n)
    (htodo : (st.threads t).todo = op :: rest) :
    Inv (applyStep st t (st.threads t) op τ) := by
  cases op with
  | insert r ts =>
    simp only [applyStep, h.noInc]
    cases hnw : (insertMem (st.live r) ts).2 with
    | nil =>
      have hsame : (insertMem (st.live r) ts).1 = st.live r := insertMem_nochange ts _ hnw
      have := inv_write h ht htodo rfl (.ins 0 (ts.length - 0)) st.snap st.snapRules (fun x => if x = r then true else st.known x)
        (by simp [applyW, hsame, setRel_self, h.snap]) (by simp [applyR, h.snapR])
      simpa [applyW, applyR, hnw] using this
    | cons a l =>
      have := inv_write h ht htodo rfl (.ins (a :: l).length (ts.length - (a :: l).length)) (applyW st.live (.insert r ts)) st.rules (fun x => if x = r then true else st.known x) rfl rfl
      simpa [applyW, applyR, hnw] using this
  | delete r ts =>
    simp only [applyStep, h.noInc]
    by_cases hrem : (st.live r).length - (deleteMem (st.live r) ts).1.length = 0
    · have hsame := deleteMem_nochange _ _ hrem
      have := inv_write h ht htodo rfl (.del 0) st.snap st.snapRules st.known
        (by simp [applyW, hsame, setRel_self, h.snap]) (by simp [applyR, h.snapR])
      simpa [applyW, applyR, hrem] using this
    · have := inv_write h ht htodo rfl (.del ((st.live r).length - (deleteMem (st.live r) ts).1.length)) (applyW st.live (.delete r ts)) st.rules st.known rfl rfl
      simpa [applyW, applyR, hrem] using this
  | query r => simpa [applyStep] using h
  | readc r => simpa [applyStep] using h
  | regRule v r => simpa [applyStep] using h
  | dropRule v => simpa [applyStep] using h
  | queryV v => simpa [applyStep] using h

theorem filter_of_lookupR_none (v : Nat) : ∀ (rules : Rules), lookupR v rules = none → rules.filter (fun e => e.1 != v) = rules := by
  intro rules
  induction rules with
  | nil => intro _; rfl
  | cons e l ih =>
    intro h
    obtain ⟨a, b⟩ := e
    simp only [lookupR] at h
    split at h
    · cases h
    · rename_i hne
      have hb : (a != v) = true := by simpa using hne
      simp [List.filter, hb, ih h]

/-- register / drop of a rule: catalog update and publish in one critical section -/
theorem inv_rule {st : State} {t : Tid} {op : Op} {rest : List Op} (h : Inv st) (ht : t < st.n)
    (htodo : (st.threads t).todo = op :: rest) (hop : (∃ v r, op = .regRule v r) ∨ ∃ v, op = .dropRule v) :
    Inv (ruleStep st t (st.threads t) op) := by
  rcases hop with ⟨v, r, hop⟩ | ⟨v, hop⟩ <;> subst hop
  · have := inv_write h ht htodo rfl
      (regOut st.rules v r)
      st.live (applyR st.rules (.regRule v r)) st.known (by simp [applyW]) rfl
    simpa [ruleStep, applyW, h.noInc] using this
  · simp only [ruleStep]
    cases hl : lookupR v st.rules with
    | none =>
      have hsame : applyR st.rules (.dropRule v) = st.rules := by simp [applyR, filter_of_lookupR_none v st.rules hl]
      have := inv_write h ht htodo rfl .err st.snap st.snapRules st.known (by simp [applyW, h.snap]) (by rw [hsame, h.snapR])
      simpa [applyW, hsame, h.noInc] using this
    | some cls =>
      have := inv_write h ht htodo rfl .dropped st.live (applyR st.rules (.dropRule v)) st.known (by simp [applyW]) rfl
      simpa [applyW, h.noInc] using this

theorem step_inv {st st' : State} {t : Tid} (h : Inv st) (hs : step st t = .ok st') : Inv st' := by
  by_cases htn : t ≥ st.n
  · simp [step, htn] at hs
  have ht : t < st.n := Nat.lt_of_not_le htn
  cases htodo : (st.threads t).todo with
  | nil => simp [step, htn, htodo] at hs
  | cons op rest =>
    have hfull : st.applied.take st.applied.length = st.applied := List.take_length
    cases op with
    | query r =>
      cases hpc : (st.threads t).pc <;>
        (simp only [step, htn, htodo, if_false] at hs; cases hs
         refine inv_finish h ht htodo ⟨Nat.le_refl _, ⟨?_, ?_⟩, ?_⟩
         · intro r' hr'; cases hr'; simp [hfull, ← h.live, h.snap]
         · intro v hv; cases hv
         · simp [isWrite])
    | queryV v =>
      cases hpc : (st.threads t).pc <;>
        (simp only [step, htn, htodo, if_false] at hs; cases hs
         refine inv_finish h ht htodo ⟨Nat.le_refl _, ⟨?_, ?_⟩, ?_⟩
         · intro r' hr'; cases hr'
         · intro v' hv; cases hv; simp [hfull, ← h.live, ← h.rulesI, h.snap, h.snapR]
         · simp [isWrite])
    | readc r =>
      cases hpc : (st.threads t).pc <;>
        (simp only [step, htn, htodo, if_false] at hs
         split at hs
         · cases hs
           refine inv_finish h ht htodo ⟨Nat.le_refl _, ⟨?_, ?_⟩, ?_⟩
           · intro r' hr'; cases hr'
           · intro v hv; cases hv
           · simp [isWrite]
         · rename_i i hi; rw [h.noInc] at hi; cases hi)
    | regRule v r =>
      cases hpc : (st.threads t).pc <;>
        (simp only [step, htn, htodo, if_false] at hs; cases hs
         exact inv_rule h ht htodo (Or.inl ⟨v, r, rfl⟩))
    | dropRule v =>
      cases hpc : (st.threads t).pc <;>
        (simp only [step, htn, htodo, if_false] at hs; cases hs
         exact inv_rule h ht htodo (Or.inr ⟨v, rfl⟩))
    | insert r ts =>
      cases hpc : (st.threads t).pc with
      | start =>
        simp only [step, htn, htodo, hpc, if_false, opRows] at hs
        split at hs
        · rename_i hemp
          cases hs
          refine inv_finish h ht htodo ⟨Nat.le_refl _, ⟨?_, ?_⟩, ?_⟩
          · intro r' hr'; cases hr'
          · intro v hv; cases hv
          · simp [isWrite, hemp]
        · cases hs; exact inv_pc h rfl
      | afterTime τ =>
        simp only [step, htn, htodo, hpc, if_false, opRows] at hs
        cases hs; exact inv_pc h rfl
      | afterPersist τ =>
        simp only [step, htn, htodo, hpc, if_false] at hs
        cases hs; exact inv_apply h ht htodo
    | delete r ts =>
      cases hpc : (st.threads t).pc with
      | start =>
        simp only [step, htn, htodo, hpc, if_false, opRows] at hs
        split at hs
        · rename_i hemp
          cases hs
          refine inv_finish h ht htodo ⟨Nat.le_refl _, ⟨?_, ?_⟩, ?_⟩
          · intro r' hr'; cases hr'
          · intro v hv; cases hv
          · simp [isWrite, hemp]
        · split at hs
          · cases hs
            refine inv_finish h ht htodo ⟨Nat.le_refl _, ⟨?_, ?_⟩, ?_⟩
            · intro r' hr'; cases hr'
            · intro v hv; cases hv
            · intro _ hne; exact absurd rfl hne
          · cases hs; exact inv_pc h rfl
      | afterTime τ =>
        simp only [step, htn, htodo, hpc, if_false, opRows] at hs
        cases hs; exact inv_pc h rfl
      | afterPersist τ =>
        simp only [step, htn, htodo, hpc, if_false] at hs
        cases hs; exact inv_apply h ht htodo

theorem applyStep_n (st : State) (t : Tid) (th : Thread) (op : Op) (τ : Nat) : (applyStep st t th op τ).n = st.n := by
  cases op with
  | insert r ts =>
    simp only [applyStep]
    cases st.inc with
    | none => simp only []; split <;> rfl
    | some i =>
      simp only []
      by_cases hn : (insertMem (st.live r) ts).2.isEmpty = true
      · simp only [hn, if_true]; split <;> rfl
      · simp only [hn, if_false]; rw [apply_ite State.n]; simp
  | delete r ts =>
    simp only [applyStep]
    cases st.inc with
    | none => simp only []; split <;> rfl
    | some i =>
      simp only []
      by_cases hn : ((st.live r).length - (deleteMem (st.live r) ts).1.length == 0) = true
      · simp only [hn, if_true]; split <;> rfl
      · simp only [hn, if_false]; rw [apply_ite State.n]; simp
  | query r => rfl
  | readc r => rfl
  | regRule v r => rfl
  | dropRule v => rfl
  | queryV v => rfl

theorem ruleStep_n (st : State) (t : Tid) (th : Thread) (op : Op) : (ruleStep st t th op).n = st.n := by
  unfold ruleStep
  repeat' split
  all_goals rfl

theorem step_n {st st' : State} {t : Tid} (hs : step st t = .ok st') : st'.n = st.n := by
  by_cases htn : t ≥ st.n
  · simp [step, htn] at hs
  cases htodo : (st.threads t).todo with
  | nil => simp [step, htn, htodo] at hs
  | cons op rest =>
    cases op <;> cases hpc : (st.threads t).pc <;>
      simp only [step, htn, htodo, hpc, if_false, opRows] at hs <;>
      (repeat' split at hs) <;> cases hs <;>
      first | rfl | exact applyStep_n _ _ _ _ _ | exact ruleStep_n _ _ _ _

theorem lastState_n : ∀ (sched : List Tid) (st : State), (lastState st sched).n = st.n := by
  intro sched
  induction sched with
  | nil => intro st; rfl
  | cons a l ih =>
    intro st
    cases hs : step st a with
    | ok st' => simp only [lastState, hs]; rw [ih, step_n hs]
    | skip => simp only [lastState, hs]; exact ih st

theorem trace_inv : ∀ (sched : List Tid) (st : State), Inv st → ∀ st' ∈ trace st sched, Inv st' := by
  intro sched
  induction sched with
  | nil => intro st h st' hm; simp [trace] at hm; subst hm; exact h
  | cons t ts ih =>
    intro st h st' hm
    cases hs : step st t with
    | ok st2 =>
      simp only [trace, hs] at hm
      rcases List.mem_cons.mp hm with hm | hm
      · subst hm; exact h
      · exact ih st2 (step_inv h hs) st' hm
    | skip =>
      simp only [trace, hs] at hm
      rcases List.mem_cons.mp hm with hm | hm
      · subst hm; exact h
      · exact ih st h st' hm

/-- the application order only grows at its end -/
theorem step_applied_prefix {st st' : State} {t : Tid} (hs : step st t = .ok st') : st.applied <+: st'.applied := by
  by_cases htn : t ≥ st.n
  · simp [step, htn] at hs
  cases htodo : (st.threads t).todo with
  | nil => simp [step, htn, htodo] at hs
  | cons op rest =>
    cases op with
    | query r => cases hpc : (st.threads t).pc <;> (simp only [step, htn, htodo, if_false] at hs; cases hs; exact List.prefix_refl _)
    | queryV v => cases hpc : (st.threads t).pc <;> (simp only [step, htn, htodo, if_false] at hs; cases hs; exact List.prefix_refl _)
    | regRule v r =>
      cases hpc : (st.threads t).pc <;> (simp only [step, htn, htodo, if_false] at hs; cases hs; simp [ruleStep])
    | dropRule v =>
      cases hpc : (st.threads t).pc <;>
        (simp only [step, htn, htodo, if_false] at hs; cases hs; simp only [ruleStep]; split <;> simp)
    | readc r =>
      cases hpc : (st.threads t).pc <;>
        (simp only [step, htn, htodo, if_false] at hs
         split at hs <;> (cases hs; exact List.prefix_refl _))
    | insert r ts =>
      cases hpc : (st.threads t).pc with
      | start => simp only [step, htn, htodo, hpc, if_false, opRows] at hs; split at hs <;> (cases hs; exact List.prefix_refl _)
      | afterTime τ => simp only [step, htn, htodo, hpc, if_false, opRows] at hs; cases hs; exact List.prefix_refl _
      | afterPersist τ =>
        simp only [step, htn, htodo, hpc, if_false] at hs; cases hs
        simp only [applyStep]
        repeat' split
        all_goals simp
    | delete r ts =>
      cases hpc : (st.threads t).pc with
      | start => simp only [step, htn, htodo, hpc, if_false, opRows] at hs; (repeat' split at hs) <;> (cases hs; exact List.prefix_refl _)
      | afterTime τ => simp only [step, htn, htodo, hpc, if_false, opRows] at hs; cases hs; exact List.prefix_refl _
      | afterPersist τ =>
        simp only [step, htn, htodo, hpc, if_false] at hs; cases hs
        simp only [applyStep]
        repeat' split
        all_goals simp

theorem trace_applied_prefix : ∀ (sched : List Tid) (st : State), ∀ st' ∈ trace st sched,
    st'.applied <+: (lastState st sched).applied := by
  intro sched
  induction sched with
  | nil => intro st st' hm; simp [trace] at hm; subst hm; exact List.prefix_refl _
  | cons t ts ih =>
    intro st st' hm
    cases hs : step st t with
    | ok st2 =>
      simp only [trace, lastState, hs] at hm ⊢
      rcases List.mem_cons.mp hm with hm | hm
      · subst hm
        exact (step_applied_prefix hs).trans (ih st2 st2 (by cases ts <;> simp [trace] <;> split <;> simp))
      · exact ih st2 st' hm
    | skip =>
      simp only [trace, lastState, hs] at hm ⊢
      rcases List.mem_cons.mp hm with hm | hm
      · subst hm; exact ih st' st' (by cases ts <;> simp [trace] <;> split <;> simp)
      · exact ih st st' hm

theorem lastState_mem : ∀ (sched : List Tid) (st : State), lastState st sched ∈ trace st sched := by
  intro sched
  induction sched with
  | nil => intro st; simp [lastState, trace]
  | cons t ts ih =>
    intro st
    cases hs : step st t with
    | ok st' => simp only [lastState, trace, hs]; exact List.mem_cons_of_mem _ (ih _)
    | skip => simp only [lastState, trace, hs]; exact List.mem_cons_of_mem _ (ih _)

end ILV.EStep
