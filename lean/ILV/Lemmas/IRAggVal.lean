/-
  Aggregate values of the plan expressed over the Spec's body valuations.
-/
import ILV.Lemmas.IRBuildCmp
import ILV.Lemmas.IRAgg
namespace ILV.IRBuild
open ILV ILV.IR

/-! ### sorting is a permutation -/

theorem insertBy_perm {α} (le : α → α → Bool) (a : α) : ∀ (l : List α), (insertBy le a l).Perm (a :: l)
  | [] => List.Perm.refl _
  | y :: ys => by
    simp only [insertBy]
    split
    · exact List.Perm.refl _
    · exact ((insertBy_perm le a ys).cons y).trans (List.Perm.swap a y ys)

theorem sortBy_perm {α} (le : α → α → Bool) : ∀ (l : List α), (sortBy le l).Perm l
  | [] => List.Perm.refl _
  | a :: l => by
    have ih := sortBy_perm le l
    simp only [sortBy, List.foldr_cons] at ih ⊢
    exact (insertBy_perm le a _).trans (ih.cons a)

def isum (l : List Int) : Int := l.foldl (· + ·) 0

theorem foldl_add_shift : ∀ (l : List Int) (a : Int), l.foldl (· + ·) a = a + l.foldl (· + ·) 0
  | [], a => by simp
  | x :: xs, a => by
    simp only [List.foldl_cons]
    rw [foldl_add_shift xs (a + x), foldl_add_shift xs (0 + x)]; omega

theorem isum_cons (a : Int) (l : List Int) : isum (a :: l) = a + isum l := by
  unfold isum; simp only [List.foldl_cons]; rw [foldl_add_shift l (0 + a)]; omega

theorem isum_perm {l l' : List Int} (h : l.Perm l') : isum l = isum l' := by
  induction h with
  | nil => rfl
  | cons x _ ih => rw [isum_cons, isum_cons, ih]
  | swap x y l => rw [isum_cons, isum_cons, isum_cons, isum_cons]; omega
  | trans _ _ ih1 ih2 => exact ih1.trans ih2

/-! ### keys and column values: rows vs valuations -/

/-- the binding of the group variables in a valuation -/
def keyOf (gbv : List String) (env : DL.Env) : Tuple := gbv.filterMap (fun x => env.lookup x)

theorem project_eq_keyOf {V sch : List String} {row : Tuple} {env : DL.Env} (hinv : Inv V sch row env) :
    ∀ (gbv : List String) (gb : List Nat), optMapM (fun x => firstIdx x sch 0) gbv = some gb → (∀ x ∈ gbv, x ∈ V) →
      project row gb = keyOf gbv env
  | [], gb, h, _ => by simp only [optMapM, Option.some.injEq] at h; subst h; rfl
  | x :: xs, gb, h, hV => by
    simp only [optMapM] at h
    cases hi : firstIdx x sch 0 with
    | none => simp [hi] at h
    | some i =>
      cases hr : optMapM (fun x => firstIdx x sch 0) xs with
      | none => simp [hi, hr] at h
      | some is =>
        simp only [hi, hr, Option.some.injEq] at h; subst h
        have ih := project_eq_keyOf hinv xs is hr (fun y hy => hV y (by simp [hy]))
        have h1 := (firstIdx_some sch 0 i hi).2
        simp only [Nat.sub_zero] at h1
        have hv := hinv.val i x h1 (hV x (by simp))
        unfold project keyOf at ih ⊢
        simp only [List.filterMap_cons, ← hv, ih]

theorem column_eq_lookup {V sch : List String} {row : Tuple} {env : DL.Env} (hinv : Inv V sch row env)
    {x : String} {c : Nat} (hc : firstIdx x sch 0 = some c) (hx : x ∈ V) :
    row[c]? = env.lookup x ∧ (row[c]?).isSome = true := by
  have h1 := (firstIdx_some sch 0 c hc).2
  simp only [Nat.sub_zero] at h1
  have hlt : c < row.length := by
    rw [hinv.len]
    rcases Nat.lt_or_ge c sch.length with h | h
    · exact h
    · rw [List.getElem?_eq_none h] at h1; cases h1
  exact ⟨(hinv.val c x h1 hx).symm, by simp [List.getElem?_eq_getElem hlt]⟩

/-- the rows of a group and the valuations of the same key, in the same order -/
theorem group_rows_envs {V sch : List String} {rows : List Tuple} {E : List DL.Env}
    (h : F2 (fun row env => Inv V sch row env ∧ IntRow row) rows E)
    (gbv : List String) (gb : List Nat) (hgb : optMapM (fun x => firstIdx x sch 0) gbv = some gb) (hV : ∀ x ∈ gbv, x ∈ V)
    (k : Tuple) :
    F2 (fun row env => Inv V sch row env ∧ IntRow row)
      (rows.filter (fun t => project t gb == k)) (E.filter (fun env => keyOf gbv env == k)) :=
  forall2_filter _ _ h (fun row env hr => by rw [project_eq_keyOf hr.1 gbv gb hgb hV])

theorem keys_eq {V sch : List String} {rows : List Tuple} {E : List DL.Env}
    (h : F2 (fun row env => Inv V sch row env ∧ IntRow row) rows E)
    (gbv : List String) (gb : List Nat) (hgb : optMapM (fun x => firstIdx x sch 0) gbv = some gb) (hV : ∀ x ∈ gbv, x ∈ V) :
    rows.map (fun t => project t gb) = E.map (keyOf gbv) :=
  forall2_map_eq _ _ h (fun row env hr => project_eq_keyOf hr.1 gbv gb hgb hV)

/-- values of variable `x` over the valuations with group key `k` -/
def valsOf (E : List DL.Env) (gbv : List String) (k : Tuple) (x : String) : List Value :=
  (E.filter (fun env => keyOf gbv env == k)).filterMap (fun env => env.lookup x)

theorem group_column {V sch : List String} {rows : List Tuple} {E : List DL.Env}
    (h : F2 (fun row env => Inv V sch row env ∧ IntRow row) rows E)
    (gbv : List String) (gb : List Nat) (hgb : optMapM (fun x => firstIdx x sch 0) gbv = some gb) (hV : ∀ x ∈ gbv, x ∈ V)
    (k : Tuple) {x : String} {c : Nat} (hc : firstIdx x sch 0 = some c) (hx : x ∈ V) :
    (rows.filter (fun t => project t gb == k)).map (fun t => t[c]?) =
      (E.filter (fun env => keyOf gbv env == k)).map (fun env => env.lookup x) ∧
    ∀ t ∈ rows.filter (fun t => project t gb == k), (t[c]?).isSome = true := by
  have hg := group_rows_envs h gbv gb hgb hV k
  refine ⟨forall2_map_eq _ _ hg (fun row env hr => (column_eq_lookup hr.1 hc hx).1), ?_⟩
  have : ∀ (L : List Tuple) (E' : List DL.Env), F2 (fun row env => Inv V sch row env ∧ IntRow row) L E' →
      ∀ t ∈ L, (t[c]?).isSome = true := by
    intro L E' hf
    induction hf with
    | nil => intro t ht; simp at ht
    | cons h1 _ ih =>
      intro t ht
      rcases List.mem_cons.1 ht with rfl | ht
      · exact (column_eq_lookup h1.1 hc hx).2
      · exact ih t ht
  exact this _ _ hg

theorem filterMap_eq_of_map_eq {α β γ} (f : α → Option γ) (g : β → Option γ) :
    ∀ (l : List α) (l' : List β), l.map f = l'.map g → l.filterMap f = l'.filterMap g
  | [], [], _ => rfl
  | [], _ :: _, h => by simp at h
  | _ :: _, [], h => by simp at h
  | a :: l, b :: l', h => by
    simp only [List.map_cons, List.cons.injEq] at h
    simp only [List.filterMap_cons, h.1, filterMap_eq_of_map_eq f g l l' h.2]

/-- the group's column values, in the order the aggregate sees them, are a permutation of the
    values of the aggregated variable over the valuations of the group -/
theorem groupOf_column_perm {V sch : List String} {rows : List Tuple} {E : List DL.Env}
    (h : F2 (fun row env => Inv V sch row env ∧ IntRow row) rows E)
    (gbv : List String) (gb : List Nat) (hgb : optMapM (fun x => firstIdx x sch 0) gbv = some gb) (hV : ∀ x ∈ gbv, x ∈ V)
    (k : Tuple) {x : String} {c : Nat} (hc : firstIdx x sch 0 = some c) (hx : x ∈ V) :
    ((groupOf rows gb k).filterMap (fun t => t[c]?)).Perm (valsOf E gbv k x) := by
  unfold groupOf valsOf
  rw [← filterMap_eq_of_map_eq _ _ _ _ (group_column h gbv gb hgb hV k hc hx).1]
  exact (sortBy_perm tupleLe _).filterMap _

/-! ### helper facts -/

theorem F2.exists_right {α β} {R : α → β → Prop} {L : List α} {E : List β} (h : F2 R L E) : ∀ l ∈ L, ∃ e ∈ E, R l e := by
  induction h with
  | nil => intro l hl; simp at hl
  | cons h1 _ ih =>
    intro l hl
    rcases List.mem_cons.1 hl with rfl | hl
    · exact ⟨_, by simp, h1⟩
    · obtain ⟨e, he, hr⟩ := ih l hl
      exact ⟨e, List.mem_cons_of_mem _ he, hr⟩

theorem F2.exists_left {α β} {R : α → β → Prop} {L : List α} {E : List β} (h : F2 R L E) : ∀ e ∈ E, ∃ l ∈ L, R l e := by
  induction h with
  | nil => intro e he; simp at he
  | cons h1 _ ih =>
    intro e he
    rcases List.mem_cons.1 he with rfl | he
    · exact ⟨_, by simp, h1⟩
    · obtain ⟨l, hl, hr⟩ := ih e he
      exact ⟨l, List.mem_cons_of_mem _ hl, hr⟩

theorem map_col_eq {g : List Tuple} {c : Nat} (h : ∀ t ∈ g, (t[c]?).isSome = true) :
    g.map (colI64 c) = (g.filterMap (fun t => t[c]?)).map toI64 := by
  induction g with
  | nil => rfl
  | cons t g ih =>
    have ht := h t (by simp)
    obtain ⟨v, hv⟩ := Option.isSome_iff_exists.1 ht
    simp only [List.map_cons, List.filterMap_cons, hv, colI64, ih (fun t' ht' => h t' (by simp [ht']))]

theorem foldl_col_eq {g : List Tuple} {c : Nat} (h : ∀ t ∈ g, (t[c]?).isSome = true) (a : Nat) :
    g.foldl (fun acc t => F64.add acc (match t[c]? with | some v => toF64 v | none => 0)) a =
      (g.filterMap (fun t => t[c]?)).foldl (fun acc v => F64.add acc (toF64 v)) a := by
  induction g generalizing a with
  | nil => rfl
  | cons t g ih =>
    have ht := h t (by simp)
    obtain ⟨v, hv⟩ := Option.isSome_iff_exists.1 ht
    simp only [List.foldl_cons, List.filterMap_cons, hv]
    exact ih (fun t' ht' => h t' (by simp [ht'])) _

theorem length_filterMap_some {g : List Tuple} {c : Nat} (h : ∀ t ∈ g, (t[c]?).isSome = true) :
    (g.filterMap (fun t => t[c]?)).length = g.length := by
  induction g with
  | nil => rfl
  | cons t g ih =>
    have ht := h t (by simp)
    obtain ⟨v, hv⟩ := Option.isSome_iff_exists.1 ht
    simp only [List.filterMap_cons, hv, List.length_cons, ih (fun t' ht' => h t' (by simp [ht']))]

/-- shape of the head operator for an aggregate head -/
theorem buildHead_agg (B : Node) (hargs : List DL.HTerm) (t : Node) (h : buildHead B hargs = some t)
    (hagg : hargs.any isAggH = true) :
    ∃ gb aggs s, optMapM (fun x => firstIdx x (schema B) 0) (hargs.filterMap varOfH) = some gb ∧
      (t = .aggregate B gb aggs s ∨ ∃ proj hs, t = .map (.aggregate B gb aggs s) proj hs) := by
  unfold buildHead at h
  simp only [hagg, if_true] at h
  by_cases hc : hargs.any isConstH = true
  · simp [hc] at h
  · simp only [hc, Bool.false_eq_true, if_false] at h
    cases hg : optMapM (fun x => firstIdx x (schema B) 0) (hargs.filterMap varOfH) with
    | none => simp [hg] at h
    | some g =>
      cases ha : optMapM (fun (fx : DL.AggF × String) => (firstIdx fx.2 (schema B) 0).map (fun c => (aggOf fx.1, c))) (hargs.filterMap aggOfH) with
      | none => simp [hg, ha] at h
      | some a =>
        simp only [hg, ha] at h
        split at h
        · simp only [Option.some.injEq] at h
          exact ⟨g, a, _, rfl, Or.inl h.symm⟩
        · simp only [Option.some.injEq] at h
          exact ⟨g, a, _, rfl, Or.inr ⟨_, _, h.symm⟩⟩

end ILV.IRBuild
