/-
  Helper lemmas for C34: correctness of the Warshall closure `closeVia` (soundness and completeness
  with respect to walks), and the bridge from walks over `pairsOf g` to the inductive `Reach g`.
-/
import ILV.Spec.Strat
namespace ILV.Strat

/-! ### walks over a list of pairs -/

/-- `Walk R a ms b`: `a → m₁ → … → mₖ → b` with every hop in `R`; `ms` are the intermediate nodes. -/
def Walk (R : List (Nat × Nat)) : Nat → List Nat → Nat → Prop
  | a, [], b => (a, b) ∈ R
  | a, m :: ms, b => (a, m) ∈ R ∧ Walk R m ms b

theorem walk_append {R : List (Nat × Nat)} {a n b : Nat} {p q : List Nat} :
    Walk R a (p ++ n :: q) b ↔ Walk R a p n ∧ Walk R n q b := by
  induction p generalizing a with
  | nil => simp [Walk]
  | cons m p ih => simp [Walk, ih, and_assoc]

theorem mem_addNew {R xs : List (Nat × Nat)} {x : Nat × Nat} : x ∈ addNew R xs ↔ x ∈ R ∨ x ∈ xs := by
  induction xs generalizing R with
  | nil => simp [addNew]
  | cons y ys ih =>
    unfold addNew
    split
    · rename_i h
      have hy : y ∈ R := List.contains_iff_mem.mp h
      rw [ih]
      constructor
      · rintro (h | h)
        · exact Or.inl h
        · exact Or.inr (List.mem_cons_of_mem _ h)
      · rintro (h | h)
        · exact Or.inl h
        · rcases List.mem_cons.mp h with rfl | h
          · exact Or.inl hy
          · exact Or.inr h
    · rw [ih]
      simp only [List.mem_append, List.mem_cons, List.not_mem_nil, or_false]
      constructor
      · rintro ((h | h) | h)
        · exact Or.inl h
        · exact Or.inr (Or.inl h)
        · exact Or.inr (Or.inr h)
      · rintro (h | h | h)
        · exact Or.inl (Or.inl h)
        · exact Or.inl (Or.inr h)
        · exact Or.inr h

theorem mem_compose {R : List (Nat × Nat)} {n a b : Nat} :
    (a, b) ∈ compose n R ↔ (a, n) ∈ R ∧ (n, b) ∈ R := by
  unfold compose
  simp only [List.mem_flatMap, List.mem_filter, List.mem_map, beq_iff_eq, Prod.mk.injEq]
  constructor
  · rintro ⟨⟨p1, p2⟩, ⟨hp, hp2⟩, ⟨q1, q2⟩, ⟨hq, hq1⟩, h1, h2⟩
    simp only at hp2 hq1 h1 h2
    subst hp2 hq1 h1 h2
    exact ⟨hp, hq⟩
  · rintro ⟨h1, h2⟩
    exact ⟨(a, n), ⟨h1, rfl⟩, (n, b), ⟨h2, rfl⟩, rfl, rfl⟩

theorem mem_closeVia_cons {R : List (Nat × Nat)} {n : Nat} {ns : List Nat} {a b : Nat} :
    (a, b) ∈ closeVia (n :: ns) R ↔
      (a, b) ∈ closeVia ns R ∨ ((a, n) ∈ closeVia ns R ∧ (n, b) ∈ closeVia ns R) := by
  simp only [closeVia, mem_addNew, mem_compose]

/-- soundness: every pair of the closure is witnessed by a walk. -/
theorem closeVia_sound {R : List (Nat × Nat)} {ns : List Nat} {a b : Nat}
    (h : (a, b) ∈ closeVia ns R) : ∃ ms, Walk R a ms b := by
  induction ns generalizing a b with
  | nil => exact ⟨[], h⟩
  | cons n ns ih =>
    rcases mem_closeVia_cons.mp h with h | ⟨h1, h2⟩
    · exact ih h
    · obtain ⟨p, hp⟩ := ih h1
      obtain ⟨q, hq⟩ := ih h2
      exact ⟨p ++ n :: q, walk_append.mpr ⟨hp, hq⟩⟩

/-- split a list at the first occurrence of a member. -/
theorem split_first {n : Nat} {ms : List Nat} (h : n ∈ ms) :
    ∃ p q, ms = p ++ n :: q ∧ n ∉ p := by
  induction ms with
  | nil => cases h
  | cons m ms ih =>
    by_cases hm : m = n
    · subst hm; exact ⟨[], ms, rfl, by simp⟩
    · have : n ∈ ms := by
        rcases List.mem_cons.mp h with h | h
        · exact absurd h.symm hm
        · exact h
      obtain ⟨p, q, hpq, hnp⟩ := ih this
      refine ⟨m :: p, q, by simp [hpq], ?_⟩
      intro hc
      rcases List.mem_cons.mp hc with hc | hc
      · exact hm hc.symm
      · exact hnp hc

/-- loop removal: a walk starting at `n` can be replaced by one that never returns to `n`. -/
theorem walk_avoid_start {R : List (Nat × Nat)} {n b : Nat} :
    ∀ (k : Nat) (q : List Nat), q.length ≤ k → Walk R n q b →
      ∃ q', Walk R n q' b ∧ n ∉ q' ∧ ∀ m, m ∈ q' → m ∈ q := by
  intro k
  induction k with
  | zero =>
    intro q hk hw
    have : q = [] := List.eq_nil_of_length_eq_zero (Nat.le_zero.mp hk)
    subst this
    exact ⟨[], hw, by simp, by simp⟩
  | succ k ih =>
    intro q hk hw
    by_cases hn : n ∈ q
    · obtain ⟨p, q2, hpq, _⟩ := split_first hn
      subst hpq
      have hw2 : Walk R n q2 b := (walk_append.mp hw).2
      have hlen : q2.length ≤ k := by
        simp only [List.length_append, List.length_cons] at hk
        omega
      obtain ⟨q', h1, h2, h3⟩ := ih q2 hlen hw2
      refine ⟨q', h1, h2, ?_⟩
      intro m hm
      exact List.mem_append_right _ (List.mem_cons_of_mem _ (h3 m hm))
    · exact ⟨q, hw, hn, fun _ h => h⟩

/-- completeness: a walk whose intermediate nodes all lie in `ns` is found. -/
theorem closeVia_complete {R : List (Nat × Nat)} {ns : List Nat} {a b : Nat} {ms : List Nat}
    (hw : Walk R a ms b) (hsub : ∀ m, m ∈ ms → m ∈ ns) : (a, b) ∈ closeVia ns R := by
  induction ns generalizing a b ms with
  | nil =>
    cases ms with
    | nil => exact hw
    | cons m ms => exact absurd (hsub m (List.mem_cons_self ..)) (by simp)
  | cons n ns ih =>
    apply mem_closeVia_cons.mpr
    by_cases hn : n ∈ ms
    · right
      obtain ⟨p, q, hpq, hnp⟩ := split_first hn
      subst hpq
      obtain ⟨hw1, hw2⟩ := walk_append.mp hw
      have hp : ∀ m, m ∈ p → m ∈ ns := by
        intro m hm
        have := hsub m (List.mem_append_left _ hm)
        rcases List.mem_cons.mp this with h | h
        · subst h; exact absurd hm hnp
        · exact h
      obtain ⟨q', hq1, hq2, hq3⟩ := walk_avoid_start q.length q (Nat.le_refl _) hw2
      have hq : ∀ m, m ∈ q' → m ∈ ns := by
        intro m hm
        have := hsub m (List.mem_append_right _ (List.mem_cons_of_mem _ (hq3 m hm)))
        rcases List.mem_cons.mp this with h | h
        · subst h; exact absurd hm hq2
        · exact h
      exact ⟨ih hw1 hp, ih hq1 hq⟩
    · left
      apply ih hw
      intro m hm
      rcases List.mem_cons.mp (hsub m hm) with h | h
      · subst h; exact absurd hm hn
      · exact h

/-! ### from pairs to the graph -/

theorem mem_pairsOf {g : Graph} {a b : Nat} : (a, b) ∈ pairsOf g ↔ ∃ e, e ∈ g ∧ e.src = a ∧ e.dst = b := by
  unfold pairsOf
  rw [List.mem_eraseDups, List.mem_map]
  constructor
  · rintro ⟨e, he, h⟩
    simp only [Prod.mk.injEq] at h
    exact ⟨e, he, h.1, h.2⟩
  · rintro ⟨e, he, h1, h2⟩
    exact ⟨e, he, by simp [h1, h2]⟩

theorem mem_nodesOf {g : Graph} {x : Nat} : x ∈ nodesOf g ↔ ∃ e, e ∈ g ∧ (e.src = x ∨ e.dst = x) := by
  unfold nodesOf
  rw [List.mem_eraseDups, List.mem_flatMap]
  constructor
  · rintro ⟨e, he, h⟩
    simp only [List.mem_cons, List.not_mem_nil, or_false] at h
    exact ⟨e, he, h.elim (fun h => Or.inl h.symm) (fun h => Or.inr h.symm)⟩
  · rintro ⟨e, he, h⟩
    refine ⟨e, he, ?_⟩
    simp only [List.mem_cons, List.not_mem_nil, or_false]
    exact h.elim (fun h => Or.inl h.symm) (fun h => Or.inr h.symm)

theorem walk_nodes {g : Graph} {a b : Nat} {ms : List Nat} (hw : Walk (pairsOf g) a ms b) :
    ∀ m, m ∈ ms → m ∈ nodesOf g := by
  induction ms generalizing a with
  | nil => intro m hm; cases hm
  | cons x ms ih =>
    intro m hm
    obtain ⟨h1, h2⟩ := hw
    rcases List.mem_cons.mp hm with h | h
    · subst h
      obtain ⟨e, he, _, hd⟩ := mem_pairsOf.mp h1
      exact mem_nodesOf.mpr ⟨e, he, Or.inr hd⟩
    · exact ih h2 m h

theorem reach_trans {g : Graph} {a b c : Nat} (h1 : Reach g a b) (h2 : Reach g b c) : Reach g a c := by
  induction h1 with
  | refl _ => exact h2
  | step e _ he _ ih => exact Reach.step e _ he (ih h2)

theorem reach_of_walk {g : Graph} {a b : Nat} {ms : List Nat} (hw : Walk (pairsOf g) a ms b) : Reach g a b := by
  induction ms generalizing a with
  | nil =>
    obtain ⟨e, he, hs, hd⟩ := mem_pairsOf.mp hw
    subst hs hd
    exact Reach.step e _ he (Reach.refl _)
  | cons m ms ih =>
    obtain ⟨h1, h2⟩ := hw
    obtain ⟨e, he, hs, hd⟩ := mem_pairsOf.mp h1
    subst hs hd
    exact Reach.step e _ he (ih h2)

theorem walk_of_reach {g : Graph} {a b : Nat} (h : Reach g a b) : a = b ∨ ∃ ms, Walk (pairsOf g) a ms b := by
  induction h with
  | refl _ => exact Or.inl rfl
  | step e c he _ ih =>
    right
    have hp : (e.src, e.dst) ∈ pairsOf g := mem_pairsOf.mpr ⟨e, he, rfl, rfl⟩
    rcases ih with h | ⟨ms, hms⟩
    · subst h; exact ⟨[], hp⟩
    · exact ⟨e.dst :: ms, hp, hms⟩

/-- the executable reachability test is exactly `Reach`. -/
theorem reachB_iff {g : Graph} {a b : Nat} : reachB (tc g) a b = true ↔ Reach g a b := by
  unfold reachB tc
  simp only [Bool.or_eq_true, beq_iff_eq, List.contains_iff_mem]
  constructor
  · rintro (h | h)
    · subst h; exact Reach.refl _
    · obtain ⟨ms, hms⟩ := closeVia_sound h
      exact reach_of_walk hms
  · intro h
    rcases walk_of_reach h with h | ⟨ms, hms⟩
    · exact Or.inl h
    · exact Or.inr (closeVia_complete hms (walk_nodes hms))

theorem sameScc_iff {g : Graph} {a b : Nat} : sameScc (tc g) a b = true ↔ Reach g a b ∧ Reach g b a := by
  unfold sameScc
  rw [Bool.and_eq_true, reachB_iff, reachB_iff]

theorem rejects_iff {g : Graph} : rejects g = true ↔ NegCycle g := by
  unfold rejects NegCycle
  simp only [List.any_eq_true, Bool.and_eq_true]
  constructor
  · rintro ⟨e, he, hn, hs⟩
    exact ⟨e, he, hn, (sameScc_iff.mp hs).2⟩
  · rintro ⟨e, he, hn, hr⟩
    exact ⟨e, he, hn, sameScc_iff.mpr ⟨Reach.step e _ he (Reach.refl _), hr⟩⟩

/-! ### monotonicity -/

theorem reach_mono {g g' : Graph} (hsub : ∀ e, e ∈ g → e ∈ g') {a b : Nat} (h : Reach g a b) : Reach g' a b := by
  induction h with
  | refl _ => exact Reach.refl _
  | step e _ he _ ih => exact Reach.step e _ (hsub e he) ih

theorem negCycle_mono {g g' : Graph} (hsub : ∀ e, e ∈ g → e ∈ g') (h : NegCycle g) : NegCycle g' := by
  obtain ⟨e, he, hn, hr⟩ := h
  exact ⟨e, hsub e he, hn, reach_mono hsub hr⟩

theorem rejects_mono {g g' : Graph} (hsub : ∀ e, e ∈ g → e ∈ g') (h : rejects g' = false) : rejects g = false := by
  cases hr : rejects g with
  | false => rfl
  | true =>
    have := rejects_iff.mpr (negCycle_mono hsub (rejects_iff.mp hr))
    rw [h] at this
    cases this


/-! ### a stratification exists when no negative edge lies on a cycle -/

theorem filter_length_le_of_imp {α} (p q : α → Bool) : ∀ (l : List α), (∀ x, x ∈ l → p x = true → q x = true) →
    (l.filter p).length ≤ (l.filter q).length
  | [], _ => Nat.le_refl _
  | a :: as, h => by
    have ih := filter_length_le_of_imp p q as (fun x hx => h x (List.mem_cons_of_mem _ hx))
    simp only [List.filter_cons]
    cases hp : p a with
    | false =>
      cases hq : q a with
      | false => simpa using ih
      | true => simp only [Bool.false_eq_true, if_false, if_true, List.length_cons]; omega
    | true =>
      have hq := h a (List.mem_cons_self ..) hp
      simp only [hq, if_true, List.length_cons]
      omega

theorem filter_length_lt_of_witness {α} (p q : α → Bool) : ∀ (l : List α), (∀ x, x ∈ l → p x = true → q x = true) →
    (∃ a, a ∈ l ∧ q a = true ∧ p a = false) → (l.filter p).length < (l.filter q).length
  | [], _, ⟨a, ha, _⟩ => by cases ha
  | b :: bs, h, ⟨a, ha, hqa, hpa⟩ => by
    have hle := filter_length_le_of_imp p q bs (fun x hx => h x (List.mem_cons_of_mem _ hx))
    simp only [List.filter_cons]
    rcases List.mem_cons.mp ha with rfl | ha'
    · simp only [hpa, hqa, Bool.false_eq_true, if_false, if_true, List.length_cons]
      omega
    · have ih := filter_length_lt_of_witness p q bs (fun x hx => h x (List.mem_cons_of_mem _ hx)) ⟨a, ha', hqa, hpa⟩
      cases hp : p b with
      | false =>
        cases hq : q b with
        | false => simpa using ih
        | true => simp only [Bool.false_eq_true, if_false, if_true, List.length_cons]; omega
      | true =>
        have hq := h b (List.mem_cons_self ..) hp
        simp only [hq, if_true, List.length_cons]
        omega

/-- stratum of a relation: the number of relations it (transitively) depends on, itself included. -/
def rankOf (g : Graph) (v : Nat) : Nat := ((nodesOf g).filter (fun u => reachB (tc g) v u)).length

theorem rankOf_stratifies (g : Graph) (h : ¬ NegCycle g) : IsStratification g (rankOf g) := by
  intro e he
  have himp : ∀ x, x ∈ nodesOf g → reachB (tc g) e.dst x = true → reachB (tc g) e.src x = true := by
    intro x _ hx
    exact reachB_iff.mpr (Reach.step e x he (reachB_iff.mp hx))
  refine ⟨filter_length_le_of_imp _ _ _ himp, ?_⟩
  intro hn
  apply filter_length_lt_of_witness _ _ _ himp
  refine ⟨e.src, mem_nodesOf.mpr ⟨e, he, Or.inl rfl⟩, reachB_iff.mpr (Reach.refl _), ?_⟩
  cases hr : reachB (tc g) e.dst e.src with
  | false => rfl
  | true => exact absurd ⟨e, he, hn, reachB_iff.mp hr⟩ h

end ILV.Strat
