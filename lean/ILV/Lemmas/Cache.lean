/-
  The hyperplane cache invariant of ILV.Model.Lsh: every cached entry is `gen` of its key.
  Preserved by every atomic step (hit, miss, miss with eviction, clear, stats reset, resize), hence
  by every sequence of atomic steps — which covers every interleaving of any number of threads,
  each thread being a sequence of such steps.
-/
import ILV.Model.Lsh
namespace ILV.Lsh
open List

variable {V : Type} (gen : Key → V)

theorem lookup_some {c : Cache V} (hc : Inv gen c) {k : Key} {v : V} (h : lookup c k = some v) : v = gen k := by
  unfold lookup at h
  cases hf : c.entries.find? (fun e => e.key == k) with
  | none => simp [hf] at h
  | some e =>
    simp [hf] at h
    have hm := List.mem_of_find?_eq_some hf
    have hk := List.find?_some hf
    have hk' : e.key = k := by simpa using hk
    rw [← h, hc e hm, hk']

theorem inv_touch {c : Cache V} (hc : Inv gen c) (k : Key) : Inv gen (touch c k) := by
  intro e he
  simp only [touch, mem_map] at he
  rcases he with ⟨e0, he0, rfl⟩
  split
  · exact hc e0 he0
  · exact hc e0 he0

theorem inv_evict {c : Cache V} (hc : Inv gen c) : Inv gen (evictIfFull c) := by
  unfold evictIfFull
  split
  · split
    · intro e he
      simp only [mem_filter] at he
      exact hc e he.1
    · exact hc
  · exact hc

/-- every atomic step preserves the invariant. -/
theorem step_inv {c : Cache V} (hc : Inv gen c) (s : Step) : Inv gen (step gen c s).1 := by
  cases s with
  | probe k =>
    simp only [step]
    split
    · exact inv_touch gen hc k
    · exact hc
  | fill k =>
    simp only [step]
    split
    · exact inv_touch gen hc k
    · intro e he
      simp only [mem_append, mem_singleton] at he
      rcases he with he | rfl
      · have : Inv gen (evictIfFull { c with misses := c.misses + 1 }) := inv_evict gen (by exact hc)
        exact this e he
      · rfl
  | clearMap => intro e he; simp [step] at he
  | resetStats => exact hc
  | resize m => exact hc

/-- every value an atomic step hands out for key `k` is `gen k`. -/
theorem step_ret {c : Cache V} (hc : Inv gen c) (s : Step) {v : V} (h : (step gen c s).2 = some v) :
    (∀ k, s = .probe k → v = gen k) ∧ (∀ k, s = .fill k → v = gen k) := by
  constructor
  · intro k hs; subst hs
    simp only [step] at h
    split at h
    · rename_i v' hl; simp at h; subst h; exact lookup_some gen hc hl
    · simp at h
  · intro k hs; subst hs
    simp only [step] at h
    split at h
    · rename_i v' hl; simp at h; subst h; exact lookup_some gen hc hl
    · simp at h; exact h.symm

theorem fill_returns (c : Cache V) (k : Key) : ∃ v, (step gen c (.fill k)).2 = some v := by
  simp only [step]
  split
  · exact ⟨_, rfl⟩
  · exact ⟨_, rfl⟩

/-- the key a step asks for, if it is a lookup. -/
def Step.key? : Step → Option Key
  | .probe k => some k
  | .fill k => some k
  | _ => none

/-- run of any step sequence: the invariant holds at the end and every returned value is `gen` of
    the key of the step that returned it. -/
theorem run_inv {c : Cache V} (hc : Inv gen c) (ss : List Step) :
    Inv gen (run gen c ss).1 ∧
    ∀ p ∈ ss.zip (run gen c ss).2, ∀ v, p.2 = some v → ∃ k, Step.key? p.1 = some k ∧ v = gen k := by
  induction ss generalizing c with
  | nil => exact ⟨hc, by simp [run]⟩
  | cons s ss ih =>
    have h1 := step_inv gen hc s
    have ih' := ih h1
    simp only [run]
    refine ⟨ih'.1, ?_⟩
    intro p hp v hv
    simp only [zip_cons_cons, mem_cons] at hp
    rcases hp with rfl | hp
    · have hr := step_ret gen hc s hv
      cases s with
      | probe k => exact ⟨k, rfl, hr.1 k rfl⟩
      | fill k => exact ⟨k, rfl, hr.2 k rfl⟩
      | clearMap => simp [step] at hv
      | resetStats => simp [step] at hv
      | resize m => simp [step] at hv
    · exact ih'.2 p hp v hv

theorem getOrCreate_spec {c : Cache V} (hc : Inv gen c) (k : Key) :
    Inv gen (getOrCreate gen c k).1 ∧ (getOrCreate gen c k).2 = gen k := by
  unfold getOrCreate
  have h1 := step_inv gen hc (.probe k)
  have r1 : ∀ v, (step gen c (.probe k)).2 = some v → v = gen k :=
    fun v hv => (step_ret gen hc (.probe k) hv).1 k rfl
  cases hp : step gen c (.probe k) with
  | mk c1 o1 =>
    rw [hp] at h1 r1
    cases o1 with
    | some v => exact ⟨h1, r1 v rfl⟩
    | none =>
      dsimp only
      have h2 := step_inv gen h1 (.fill k)
      have r2 : ∀ v, (step gen c1 (.fill k)).2 = some v → v = gen k :=
        fun v hv => (step_ret gen h1 (.fill k) hv).2 k rfl
      cases hf : step gen c1 (.fill k) with
      | mk c2 o2 =>
        rw [hf] at h2 r2
        cases o2 with
        | some v => exact ⟨h2, r2 v rfl⟩
        | none => exact ⟨h2, rfl⟩

end ILV.Lsh
