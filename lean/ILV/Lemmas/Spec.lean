/-
  Declarative reading of a rule body and soundness of the executable clause evaluator of the
  Spec (`DL.evalRuleLk`) with respect to it: every tuple the evaluator derives is the head instance
  of a valuation that satisfies every positive atom, falsifies every negated atom and makes every
  comparison literal true.  (Completeness — every satisfying valuation is found — is not proved.)
-/
import ILV.Lemmas.Datalog
namespace ILV.DL

/-- a valuation `env` maps the argument list of an atom onto a stored tuple. -/
def Matches : List Term → List Value → Env → Prop
  | [], [], _ => True
  | .var x :: as, v :: vs, env => env.lookup x = some v ∧ Matches as vs env
  | .const c :: as, v :: vs, env => c = v ∧ Matches as vs env
  | .wild :: as, _ :: vs, env => Matches as vs env
  | _, _, _ => False

/-- `env'` extends `env`: every binding of `env` is kept. -/
def Extends (env' env : Env) : Prop := ∀ x v, env.lookup x = some v → env'.lookup x = some v

theorem Extends.refl (env : Env) : Extends env env := fun _ _ h => h
theorem Extends.trans {a b c : Env} (h1 : Extends a b) (h2 : Extends b c) : Extends a c :=
  fun x v h => h1 x v (h2 x v h)

theorem Matches.mono : ∀ {args : List Term} {t : List Value} {env env' : Env},
    Matches args t env → Extends env' env → Matches args t env'
  | [], [], _, _, _, _ => trivial
  | .var x :: as, v :: vs, _, _, h, he => ⟨he x v h.1, Matches.mono h.2 he⟩
  | .const c :: as, v :: vs, _, _, h, he => ⟨h.1, Matches.mono h.2 he⟩
  | .wild :: as, _ :: vs, _, _, h, he => Matches.mono (args := as) h he
  | [], _ :: _, _, _, h, _ => h.elim
  | _ :: _, [], _, _, h, _ => by cases ‹Term› <;> exact h.elim

theorem lookup_cons_new (env : Env) (x : String) (v : Value) (hx : env.lookup x = none) :
    Extends ((x, v) :: env) env := by
  intro y w hy
  by_cases hyx : y = x
  · subst hyx; rw [hx] at hy; cases hy
  · have : (y == x) = false := by simpa using hyx
    simp [List.lookup, this, hy]

/-- `matchArgs` is sound: the resulting valuation extends the given one and maps the atom onto
    the tuple. -/
theorem matchArgs_sound : ∀ (args : List Term) (t : List Value) (env env' : Env),
    matchArgs args t env = some env' → Extends env' env ∧ Matches args t env'
  | [], [], env, env', h => by
    simp only [matchArgs, Option.some.injEq] at h; subst h; exact ⟨Extends.refl _, trivial⟩
  | .var x :: as, v :: vs, env, env', h => by
    unfold matchArgs at h
    cases hl : env.lookup x with
    | some w =>
      rw [hl] at h
      simp only at h
      split at h
      · rename_i hwv
        have hwv' : w = v := by simpa using hwv
        obtain ⟨he, hm⟩ := matchArgs_sound as vs env env' h
        exact ⟨he, he x v (by rw [hl, hwv']), hm⟩
      · cases h
    | none =>
      rw [hl] at h
      simp only at h
      obtain ⟨he, hm⟩ := matchArgs_sound as vs _ env' h
      have hnew := lookup_cons_new env x v hl
      refine ⟨he.trans hnew, he x v (by simp [List.lookup]), hm⟩
  | .const c :: as, v :: vs, env, env', h => by
    unfold matchArgs at h
    split at h
    · rename_i hcv
      obtain ⟨he, hm⟩ := matchArgs_sound as vs env env' h
      exact ⟨he, by simpa using hcv, hm⟩
    · cases h
  | .wild :: as, _ :: vs, env, env', h => by
    unfold matchArgs at h
    exact matchArgs_sound as vs env env' h
  | [], _ :: _, _, _, h => by simp [matchArgs] at h
  | .var _ :: _, [], _, _, h => by simp [matchArgs] at h
  | .const _ :: _, [], _, _, h => by simp [matchArgs] at h
  | .wild :: _, [], _, _, h => by simp [matchArgs] at h

/-- every positive atom has a stored tuple it is mapped onto. -/
def PosSat (lk : String → List Tuple) (atoms : List Atom) (env : Env) : Prop :=
  ∀ a, a ∈ atoms → ∃ t, t ∈ lk a.rel ∧ Matches a.args t env

theorem evalPos_sound (lk : String → List Tuple) : ∀ (atoms : List Atom) (envs : List Env) (env' : Env),
    env' ∈ evalPos lk atoms envs → ∃ env, env ∈ envs ∧ Extends env' env ∧ PosSat lk atoms env'
  | [], envs, env', h => by
    simp only [evalPos] at h
    exact ⟨env', h, Extends.refl _, fun a ha => by cases ha⟩
  | a :: as, envs, env', h => by
    unfold evalPos at h
    obtain ⟨e1, he1, hext, hsat⟩ := evalPos_sound lk as _ env' h
    obtain ⟨e0, he0, hfm⟩ := List.mem_flatMap.1 he1
    obtain ⟨t, ht, hm⟩ := List.mem_filterMap.1 hfm
    obtain ⟨hx, hmt⟩ := matchArgs_sound a.args t e0 e1 hm
    refine ⟨e0, he0, hext.trans hx, ?_⟩
    intro b hb
    rcases List.mem_cons.1 hb with rfl | hb
    · exact ⟨t, ht, Matches.mono hmt hext⟩
    · exact hsat b hb

/-- the declarative meaning of a rule body under a valuation. -/
structure BodySat (lk : String → List Tuple) (r : Rule) (env : Env) : Prop where
  pos : PosSat lk r.posAtoms env
  neg : ∀ a, a ∈ r.negAtoms → ∀ t, t ∈ lk a.rel → matchArgs a.args t env = none
  cmp : ∀ c, c ∈ r.cmps → Cmp.holds env c = true

/-- `t` is the head instance of `r` under `env` (aggregate-free head). -/
def HeadInst (r : Rule) (env : Env) (t : Tuple) : Prop := optMapM (HTerm.plain env) r.hargs = some t

/-- **Soundness of the Spec's clause evaluator** for rules without comparison literals: every derived
    tuple is the head instance of a valuation satisfying the body declaratively. (With comparison
    literals the valuation is extended by the defining equalities after the positive atoms; the
    positive part of the statement then needs the extension lemma for `bindRound`, not proved.) -/
theorem evalRuleLk_sound (lk : String → List Tuple) (r : Rule) (hagg : r.hasAgg = false) (hc : r.cmps = [])
    (ts : List Tuple) (h : evalRuleLk lk r = some ts) (t : Tuple) (ht : t ∈ ts) :
    ∃ env, BodySat lk r env ∧ HeadInst r env t := by
  unfold evalRuleLk headOfSpec at h
  simp only [hagg, Bool.false_eq_true, if_false] at h
  unfold headRows at h
  obtain ⟨env, henv, hhead⟩ := (optMapM_some_mem _ _ _ h t).1 ht
  refine ⟨env, ?_, hhead⟩
  unfold bodyEnvs at henv
  unfold evalNegs at henv
  obtain ⟨hspec, hneg⟩ := List.mem_filter.1 henv
  rw [hc] at hspec
  have hpos : env ∈ evalPos lk r.posAtoms [[]] := by
    unfold specCmps at hspec
    simp only [List.length_nil, List.all_nil] at hspec
    have h1 := (List.mem_filter.1 hspec).1
    have h2 := (List.mem_filter.1 h1).1
    obtain ⟨e, he, rfl⟩ := List.mem_map.1 h2
    exact he
  obtain ⟨_, _, _, hsat⟩ := evalPos_sound lk r.posAtoms [[]] env hpos
  refine ⟨hsat, ?_, by rw [hc]; intro c hcm; cases hcm⟩
  intro a ha t' ht'
  have := List.all_eq_true.1 hneg a ha
  unfold negHolds at this
  have := List.all_eq_true.1 this t' ht'
  simpa using this

end ILV.DL

/-! ### completeness of the Spec's clause evaluator (rules without comparison literals) -/
namespace ILV.DL

/-- every binding of `e` is a binding of `env`. -/
def Agrees (e env : Env) : Prop := ∀ x v, e.lookup x = some v → env.lookup x = some v

theorem lookup_cons_eq (x : String) (v : Value) (e : Env) (y : String) :
    ((x, v) :: e).lookup y = if y == x then some v else e.lookup y := by
  simp only [List.lookup]
  cases h : y == x <;> simp

/-- if `env` maps the atom onto `t` and `e` agrees with `env`, the evaluator's unification
    succeeds and its result still agrees with `env`. -/
theorem matchArgs_complete : ∀ (args : List Term) (t : List Value) (env e : Env),
    Matches args t env → Agrees e env → ∃ e', matchArgs args t e = some e' ∧ Agrees e' env
  | [], [], _, e, _, ha => ⟨e, rfl, ha⟩
  | .var x :: as, v :: vs, env, e, hm, ha => by
    unfold matchArgs
    cases hl : e.lookup x with
    | some w =>
      have : env.lookup x = some w := ha x w hl
      rw [hm.1] at this
      cases this
      simp only [beq_self_eq_true, if_true]
      exact matchArgs_complete as vs env e hm.2 ha
    | none =>
      simp only
      apply matchArgs_complete as vs env _ hm.2
      intro y w hy
      rw [lookup_cons_eq] at hy
      by_cases hyx : y = x
      · subst hyx; simp at hy; subst hy; exact hm.1
      · have : (y == x) = false := by simpa using hyx
        rw [this] at hy; exact ha y w hy
  | .const c :: as, v :: vs, env, e, hm, ha => by
    unfold matchArgs
    have : (c == v) = true := by simpa using hm.1
    simp only [this, if_true]
    exact matchArgs_complete as vs env e hm.2 ha
  | .wild :: as, _ :: vs, env, e, hm, ha => by
    unfold matchArgs
    exact matchArgs_complete as vs env e hm ha
  | [], _ :: _, _, _, hm, _ => hm.elim
  | .var _ :: _, [], _, _, hm, _ => hm.elim
  | .const _ :: _, [], _, _, hm, _ => hm.elim
  | .wild :: _, [], _, _, hm, _ => hm.elim

theorem evalPos_complete (lk : String → List Tuple) (env : Env) : ∀ (atoms : List Atom) (envs : List Env) (e : Env),
    PosSat lk atoms env → e ∈ envs → Agrees e env → ∃ e', e' ∈ evalPos lk atoms envs ∧ Agrees e' env
  | [], envs, e, _, he, ha => ⟨e, by simpa [evalPos] using he, ha⟩
  | a :: as, envs, e, hs, he, ha => by
    unfold evalPos
    obtain ⟨t, ht, hm⟩ := hs a (List.mem_cons_self ..)
    obtain ⟨e1, he1, ha1⟩ := matchArgs_complete a.args t env e hm ha
    apply evalPos_complete lk env as _ e1 (fun b hb => hs b (List.mem_cons_of_mem _ hb)) _ ha1
    exact List.mem_flatMap.2 ⟨e, he, List.mem_filterMap.2 ⟨t, ht, he1⟩⟩

/-- unification only looks at the variables of the atom. -/
theorem matchArgs_none_of_agree : ∀ (args : List Term) (t : List Value) (env e : Env),
    (∀ x, Term.var x ∈ args → ∃ v, e.lookup x = some v) → Agrees e env →
    matchArgs args t env = none → matchArgs args t e = none
  | [], [], _, _, _, _, h => by simp [matchArgs] at h
  | .var x :: as, v :: vs, env, e, hb, ha, h => by
    obtain ⟨w, hw⟩ := hb x (List.mem_cons_self ..)
    have hwe := ha x w hw
    unfold matchArgs at h ⊢
    rw [hwe] at h; rw [hw]
    simp only at h ⊢
    split at h
    · rename_i hwv
      simp only [hwv, if_true]
      exact matchArgs_none_of_agree as vs env e (fun y hy => hb y (List.mem_cons_of_mem _ hy)) ha h
    · rename_i hwv
      simp [hwv]
  | .const c :: as, v :: vs, env, e, hb, ha, h => by
    unfold matchArgs at h ⊢
    split at h
    · rename_i hcv
      simp only [hcv, if_true]
      exact matchArgs_none_of_agree as vs env e (fun y hy => hb y (List.mem_cons_of_mem _ hy)) ha h
    · rename_i hcv
      simp [hcv]
  | .wild :: as, _ :: vs, env, e, hb, ha, h => by
    unfold matchArgs at h ⊢
    exact matchArgs_none_of_agree as vs env e (fun y hy => hb y (List.mem_cons_of_mem _ hy)) ha h
  | [], _ :: _, _, _, _, _, _ => by simp [matchArgs]
  | .var _ :: _, [], _, _, _, _, _ => by simp [matchArgs]
  | .const _ :: _, [], _, _, _, _, _ => by simp [matchArgs]
  | .wild :: _, [], _, _, _, _, _ => by simp [matchArgs]

end ILV.DL
