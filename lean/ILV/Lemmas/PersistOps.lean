/-
  C13 lemmas, part 5: every prefix of the FS steps of an insert / delete on a single-shard store leaves an image
  whose content is the old or the new one — or the "doubled" image of the flush window, which is recognised by the
  decidable predicate `imageDoubled` on the image itself.
-/
import ILV.Lemmas.PersistRun
namespace ILV.Persist
open ILV.FS

/-- the defect window, as a decidable predicate on a disk image: some shard's WAL is non-empty and the newest batch
    its metadata references holds exactly that shard's WAL entries (the flush renamed the metadata into place but the
    WAL was not rewritten yet). -/
def imageDoubled (d : Disk) : Bool :=
  match readAll d with
  | none => false
  | some entries =>
    (metaPaths d).any (fun f =>
      match readDoc d (.smeta f) with
      | some (.smeta m) =>
        let mine := (entries.filter (fun e => e.1 = m.name)).map (·.2)
        match m.batches.getLast? with
        | some b => decide (mine ≠ []) && decide (readBatch d b.id = some mine)
        | none => false
      | _ => false)

/-- the doubled image in `Img` terms -/
structure DblImg (s : Name) (d : Disk) : Prop where
  ex : ∃ m X es b, Img s d (some m) X es ∧ es ≠ [] ∧ m.batches.getLast? = some b ∧
    itemsAt d (.batch b.id) = some [.whole (.batch es)]

theorem mine_same (s : Name) (es : List Update) :
    ((es.map (fun u => (s, u))).filter (fun e => decide (e.1 = s))).map (·.2) = es := by
  induction es with
  | nil => rfl
  | cons e es ih => simp [List.filter_cons, ih]

theorem DblImg.doubled {s d} (h : DblImg s d) : imageDoubled d = true := by
  obtain ⟨m, X, es, b, himg, hes, hlast, hb⟩ := h.ex
  obtain ⟨hname, hmeta, _, _⟩ := himg.hasMeta m rfl
  have hread := readAll_of_img himg
  have hmem : metaFile s ∈ metaPaths d := (mem_metaPaths d _).2 (by simp [hmeta])
  have hdoc : readDoc d (.smeta (metaFile s)) = some (.smeta m) := by rw [readDoc_eq, hmeta]
  have hmine : ((es.map (fun u => (s, u))).filter (fun e => decide (e.1 = m.name))).map (·.2) = es := by
    rw [hname]; exact mine_same s es
  have hrb : readBatch d b.id = some es := by simp [readBatch, readDoc_eq, hb]
  simp only [imageDoubled, hread, List.any_eq_true]
  exact ⟨metaFile s, hmem, by simp [hdoc, hmine, hlast, hes, hrb]⟩

theorem DblImg.crash {s d} (h : DblImg s d) : DblImg s (crash d noCut) := by
  obtain ⟨m, X, es, b, himg, hes, hlast, hb⟩ := h.ex
  exact ⟨m, X, es, b, himg.crash, hes, hlast, by rw [itemsAt_crash_noCut]; exact hb⟩

/-- what a prefix image may look like: content old (`C`) or new (`C'`), or the doubled image -/
def PreOk (s : Name) (C C' : List Update) (d : Disk) : Prop :=
  (∃ md X es, Img s d md X es ∧ (X ++ es = C ∨ X ++ es = C')) ∨ DblImg s d

def AllPre (d : Disk) (ops : List (Op Path Rec)) (Q : Disk → Prop) : Prop := ∀ j, Q (applyAll d (ops.take j))

theorem allPre_nil {d : Disk} {Q : Disk → Prop} (h : Q d) : AllPre d [] Q := fun j => by simpa [applyAll] using h

theorem allPre_cons {d : Disk} {o : Op Path Rec} {rest : List (Op Path Rec)} {Q : Disk → Prop}
    (h0 : Q d) (h : AllPre (apply d o) rest Q) : AllPre d (o :: rest) Q := by
  intro j
  cases j with
  | zero => simpa [applyAll] using h0
  | succ j => simpa [applyAll] using h j

theorem applyAll_append' (d : Disk) (a b : List (Op Path Rec)) : applyAll d (a ++ b) = applyAll (applyAll d a) b := by
  simp [applyAll, List.foldl_append]

theorem allPre_append {d : Disk} {a b : List (Op Path Rec)} {Q : Disk → Prop}
    (ha : AllPre d a Q) (hb : AllPre (applyAll d a) b Q) : AllPre d (a ++ b) Q := by
  intro j
  rw [List.take_append]
  by_cases hj : j ≤ a.length
  · have : j - a.length = 0 := by omega
    rw [this]; simpa using ha j
  · have : a.take j = a := List.take_of_length_le (by omega)
    rw [this, applyAll_append']
    exact hb (j - a.length)

/-- the flush prefixes (from a world state whose buffer the WAL mirrors) -/
theorem flush_allPre {s : Name} {d : Disk} {sh : Shard} {md0 : ShardMeta} {X : List Update} (id : Nat) (C' : List Update)
    (hname : sh.md.name = s) (hbuf : sh.buffer ≠ []) (hb0 : md0.batches = sh.md.batches)
    (himg : Img s d (some md0) X sh.buffer)
    (hfresh : ∀ b ∈ sh.md.batches, b.id ≠ id) :
    AllPre d ((flushSteps s id sh.buffer (flushedMeta sh id)).map (·.2)) (PreOk s C' (X ++ sh.buffer)) := by
  obtain ⟨h5, h6, h7⟩ := flush_disks id hname hb0 himg hfresh
  intro j
  by_cases hj5 : j ≤ 5
  · exact .inl ⟨_, _, _, h5 j hj5, .inr rfl⟩
  · by_cases hj6 : j = 6
    · subst hj6
      right
      refine ⟨flushedMeta sh id, X ++ sh.buffer, sh.buffer, { id := id, upper := maxTimeP1 sh.buffer, len := sh.buffer.length },
        h6, hbuf, by simp [flushedMeta, addBatch], ?_⟩
      simp [flushSteps, applyAll, itemsAt_rename, itemsAt_fsync, itemsAt_write]
    · exact .inl ⟨_, _, _, h7 j (by omega), .inr (by simp)⟩

/-- the WAL part of `append`: `wal.open` if the writer is closed, one write with all lines, fsync -/
def walSteps (s : Name) (isOpen : Bool) (new : List Update) : List Step :=
  (if isOpen then [] else [(Lbl.walOpen, Op.append Path.wal [])]) ++
  [(.walAppendWrite, .append .wal (new.map (fun u => Rec.wal s u))), (.walAppendFsync, .fsync .wal)]

def bumped (sh : Shard) (new : List Update) : Shard :=
  { md := { sh.md with upper := max sh.md.upper (maxTimeP1 new) }, buffer := sh.buffer ++ new }

/-- the world after the WAL part and the buffer update -/
def afterWal (w : World) (s : Name) (sh : Shard) (new : List Update) : World :=
  { mem := { w.mem with shards := [(s, bumped sh new)], walOpen := true },
    disk := applyAll w.disk ((walSteps s w.mem.walOpen new).map (·.2)),
    trace := w.trace ++ walSteps s w.mem.walOpen new,
    failed := w.failed }

theorem append_eq {s : Name} (b : Nat) {w : World} {sh : Shard} (new : List Update) (hnew : new ≠ [])
    (hsh : w.mem.shards = [(s, sh)]) :
    append b w s new =
      if (sh.buffer ++ new).length ≥ b then flush (afterWal w s sh new) s else afterWal w s sh new := by
  cases hwo : w.mem.walOpen <;>
    simp [append, hnew, hwo, hsh, sGet, setShard, sSet, emit, afterWal, walSteps, bumped, applyAll]

theorem walPart_ok {s : Name} {d : Disk} {md0 : ShardMeta} {X buf : List Update} (isOpen : Bool) (new : List Update)
    (himg : Img s d (some md0) X buf) :
    Img s (applyAll d ((walSteps s isOpen new).map (·.2))) (some md0) X (buf ++ new) ∧
    AllPre d ((walSteps s isOpen new).map (·.2)) (PreOk s (X ++ buf) (X ++ buf ++ new)) := by
  have old : ∀ {d'}, Img s d' (some md0) X buf → PreOk s (X ++ buf) (X ++ buf ++ new) d' :=
    fun h => .inl ⟨_, _, _, h, .inl rfl⟩
  have nw : ∀ {d'}, Img s d' (some md0) X (buf ++ new) → PreOk s (X ++ buf) (X ++ buf ++ new) d' :=
    fun h => .inl ⟨_, _, _, h, .inr (by simp)⟩
  cases isOpen with
  | true =>
    have i1 := himg.wal_append new
    have i2 := i1.fsync .wal
    refine ⟨by simpa [walSteps, applyAll] using i2, ?_⟩
    simp only [walSteps, if_true, List.nil_append, List.map_cons, List.map_nil]
    exact allPre_cons (old himg) (allPre_cons (nw i1) (allPre_nil (nw i2)))
  | false =>
    have i0 := himg.wal_open
    have i1 := i0.wal_append new
    have i2 := i1.fsync .wal
    refine ⟨by simpa [walSteps, applyAll] using i2, ?_⟩
    simp only [walSteps, Bool.false_eq_true, if_false, List.singleton_append, List.map_cons, List.map_nil]
    exact allPre_cons (old himg) (allPre_cons (old i0) (allPre_cons (nw i1) (allPre_nil (nw i2))))

/-- `append` from a running single-shard state -/
theorem append_ok {s : Name} (b : Nat) {w : World} {sh : Shard} {md0 : ShardMeta} {X : List Update} (new : List Update)
    (hnew : new ≠ []) (hf : w.failed = false) (hsh : w.mem.shards = [(s, sh)]) (hname : sh.md.name = s)
    (hb0 : md0.batches = sh.md.batches) (himg : Img s w.disk (some md0) X sh.buffer)
    (hids : ∀ b ∈ sh.md.batches, b.id < w.mem.nextBatch) :
    ∃ tr, (append b w s new).trace = w.trace ++ tr ∧ Run s (append b w s new) (X ++ sh.buffer ++ new) ∧
      AllPre w.disk (tr.map (·.2)) (PreOk s (X ++ sh.buffer) (X ++ sh.buffer ++ new)) := by
  obtain ⟨i2, hpre⟩ := walPart_ok w.mem.walOpen new himg
  rw [append_eq b new hnew hsh]
  have hbn : (bumped sh new).md.name = s := by simp [bumped, hname]
  have hbb : md0.batches = (bumped sh new).md.batches := by simp [bumped, hb0]
  have hbuf : (bumped sh new).buffer = sh.buffer ++ new := rfl
  by_cases hfl : (sh.buffer ++ new).length ≥ b
  · simp only [hfl, if_true]
    have hne : (bumped sh new).buffer ≠ [] := by simp [bumped, hnew]
    have himg3 : Img s (afterWal w s sh new).disk (some md0) X (bumped sh new).buffer := i2
    have hfresh : ∀ b ∈ (bumped sh new).md.batches, b.id ≠ (afterWal w s sh new).mem.nextBatch := by
      intro b hb; have := hids b (by simpa [bumped] using hb); simp [afterWal]; omega
    have hw := flush_world (s := s) (w := afterWal w s sh new) (sh := bumped sh new) rfl hbn hne hbb himg3 hfresh
    obtain ⟨_, _, h7⟩ := flush_disks (s := s) (d := (afterWal w s sh new).disk) (sh := bumped sh new)
      (afterWal w s sh new).mem.nextBatch hbn hbb himg3 hfresh
    have hpre2 := flush_allPre (s := s) (d := (afterWal w s sh new).disk) (sh := bumped sh new)
      (afterWal w s sh new).mem.nextBatch (X ++ sh.buffer) hbn hne hbb himg3 hfresh
    refine ⟨walSteps s w.mem.walOpen new ++ flushSteps s (afterWal w s sh new).mem.nextBatch (bumped sh new).buffer
      (flushedMeta (bumped sh new) (afterWal w s sh new).mem.nextBatch), ?_, ?_, ?_⟩
    · rw [hw]; simp [afterWal, List.append_assoc]
    · rw [hw]
      refine ⟨by simpa [afterWal] using hf, .inr ⟨_, flushedMeta (bumped sh new) (afterWal w s sh new).mem.nextBatch, X ++ (sh.buffer ++ new), rfl,
        by simp [flushedMeta, addBatch, hbn], rfl, ?_, by simp [List.append_assoc], ?_⟩⟩
      · have := h7 7 (Nat.le_refl 7)
        simpa [flushSteps, hbuf] using this
      · intro b hb
        simp only [flushedMeta, addBatch, List.mem_append, List.mem_singleton, bumped] at hb
        rcases hb with hb | hb
        · have := hids b hb; simp [afterWal]; omega
        · subst hb; simp [afterWal]
    · rw [List.map_append]
      apply allPre_append hpre
      have : applyAll w.disk ((walSteps s w.mem.walOpen new).map (·.2)) = (afterWal w s sh new).disk := rfl
      rw [this]
      simpa [hbuf, List.append_assoc] using hpre2
  · simp only [hfl, if_false]
    refine ⟨walSteps s w.mem.walOpen new, rfl, ?_, hpre⟩
    exact ⟨hf, .inr ⟨bumped sh new, md0, X, rfl, hbn, hbb, i2, by simp [bumped, List.append_assoc],
      by intro b hb; exact hids b (by simpa [bumped] using hb)⟩⟩

def ensureSteps (s : Name) : List Step :=
  [(.metaTmpwrite, .write (.metaTmp (metaFile s)) [.smeta { name := s }]), (.metaFsync, .fsync (.metaTmp (metaFile s))),
   (.metaRename, .rename (.metaTmp (metaFile s)) (.smeta (metaFile s)))]

/-- the world after `ensure_shard` created the shard -/
def ensured (w : World) (s : Name) : World :=
  { mem := { w.mem with shards := [(s, { md := { name := s } })] },
    disk := applyAll w.disk ((ensureSteps s).map (·.2)),
    trace := w.trace ++ ensureSteps s,
    failed := w.failed }

/-- `ensure_shard` + `append` from a running state whose step trace was reset -/
theorem ensure_append_ok {s : Name} (b : Nat) {w : World} {C : List Update} (new : List Update) (hnew : new ≠ [])
    (hrun : Run s w C) (htr : w.trace = []) :
    Run s (append b (ensureShard w s) s new) (C ++ new) ∧
    AllPre w.disk ((append b (ensureShard w s) s new).trace.map (·.2)) (PreOk s C (C ++ new)) := by
  obtain ⟨hf, hshape⟩ := hrun
  rcases hshape with ⟨hsh, himg, hC⟩ | ⟨sh, md0, X, hsh, hname, hb0, himg, hC, hids⟩
  · -- first operation on the shard: its metadata file is created first
    subst hC
    have hens : ensureShard w s = ensured w s := by
      simp [ensureShard, hsh, sGet, saveShardMeta, emit, setShard, sSet, ensureSteps, applyAll, ensured]
    have i1 := himg.write_metaTmp (metaFile s) [.smeta { name := s }]
    have i2 := i1.fsync (.metaTmp (metaFile s))
    have i3 := i2.rename_first_meta { name := s } rfl rfl (by simp [itemsAt_fsync, itemsAt_write])
    have old : ∀ {d' md}, Img s d' md [] [] → PreOk s [] ([] ++ new) d' := fun h => .inl ⟨_, _, _, h, .inl rfl⟩
    have hpre1 : AllPre w.disk ((ensureSteps s).map (·.2)) (PreOk s [] ([] ++ new)) := by
      simp only [ensureSteps, List.map_cons, List.map_nil]
      exact allPre_cons (old himg) (allPre_cons (old i1) (allPre_cons (old i2) (allPre_nil (old i3))))
    rw [hens]
    obtain ⟨tr, htr2, hrun2, hpre2⟩ := append_ok (s := s) b (w := ensured w s)
      (sh := { md := { name := s } }) (md0 := { name := s }) (X := []) new hnew hf rfl rfl rfl
      (by simpa [ensured, ensureSteps, applyAll] using i3) (by simp)
    refine ⟨by simpa using hrun2, ?_⟩
    rw [htr2]
    simp only [ensured, htr, List.nil_append, List.map_append]
    exact allPre_append hpre1 (by simpa [ensured] using hpre2)
  · have hens : ensureShard w s = w := by simp [ensureShard, hsh, sGet]
    rw [hens]
    obtain ⟨tr, htr2, hrun2, hpre2⟩ := append_ok (s := s) b new hnew hf hsh hname hb0 himg hids
    subst hC
    refine ⟨hrun2, ?_⟩
    rw [htr2, htr]
    simpa using hpre2

theorem Run.congr {s : Name} {w w' : World} {C : List Update} (h : Run s w C) (h1 : w'.mem.shards = w.mem.shards)
    (h2 : w'.mem.nextBatch = w.mem.nextBatch) (h3 : w'.disk = w.disk) (h4 : w'.failed = w.failed) : Run s w' C := by
  obtain ⟨hf, hshape⟩ := h
  refine ⟨by rw [h4]; exact hf, ?_⟩
  rcases hshape with ⟨hsh, himg, hC⟩ | ⟨sh, md0, X, hsh, hname, hb0, himg, hC, hids⟩
  · exact .inl ⟨by rw [h1]; exact hsh, by rw [h3]; exact himg, hC⟩
  · exact .inr ⟨sh, md0, X, by rw [h1]; exact hsh, hname, hb0, by rw [h3]; exact himg, hC, by rw [h2]; exact hids⟩

/-- the updates an insert / delete request logs -/
def opUpdates (w : World) : EOp → List Update
  | .ins _ ts => req ts w.mem.clock 1
  | .del _ ts => req ts w.mem.clock (-1)
  | _ => []

/-- a delete reaches the persist layer only for a relation the engine knows (metadata entry); otherwise it is
    acknowledged `Ok(0)` without any step -/
def delKnown (w : World) : EOp → Bool
  | .del r _ => decide (r ∈ w.mem.known)
  | _ => true

/-- operations of the fragment: insert / delete on shard `s` -/
def onShard (s : Name) : EOp → Bool
  | .ins r _ => decide (r = s)
  | .del r _ => decide (r = s)
  | _ => false

/-- the world `runOp` prepares before `ensure_shard`: steps reset, clock advanced -/
def prepared (w : World) : World :=
  { mem := { w.mem with clock := w.mem.clock + 1 }, disk := w.disk, trace := [], failed := false }

theorem runOp_ins_eq (b : Nat) (w : World) (r : Name) (ts : List Nat) (hts : ts ≠ [])
    (hf : (append b (ensureShard (prepared w) r) r (req ts w.mem.clock 1)).failed = false) :
    (runOp b w (.ins r ts)).failed = false ∧
    (runOp b w (.ins r ts)).trace = (append b (ensureShard (prepared w) r) r (req ts w.mem.clock 1)).trace ∧
    (runOp b w (.ins r ts)).disk = (append b (ensureShard (prepared w) r) r (req ts w.mem.clock 1)).disk ∧
    (runOp b w (.ins r ts)).mem.shards = (append b (ensureShard (prepared w) r) r (req ts w.mem.clock 1)).mem.shards ∧
    (runOp b w (.ins r ts)).mem.nextBatch = (append b (ensureShard (prepared w) r) r (req ts w.mem.clock 1)).mem.nextBatch := by
  simp only [prepared, req] at hf
  simp [runOp, hts, prepared, req, hf]

theorem runOp_del_eq (b : Nat) (w : World) (r : Name) (ts : List Nat) (hts : ts ≠ []) (hk : r ∈ w.mem.known) :
    runOp b w (.del r ts) = append b (ensureShard (prepared w) r) r (req ts w.mem.clock (-1)) := by
  simp [runOp, hts, prepared, req, hk]

/-- **one insert / delete from a running state**: it is acknowledged, the state is again running with the request's
    updates added, and every prefix of its FS steps leaves an image that is old, new, or the doubled one. -/
theorem op_ok {s : Name} (b : Nat) {w : World} {C : List Update} (o : EOp) (ho : onShard s o = true)
    (hk : delKnown w o = true) (hrun : Run s w C) :
    (runOp b w o).failed = false ∧ Run s (runOp b w o) (C ++ opUpdates w o) ∧
    AllPre w.disk ((runOp b w o).trace.map (·.2)) (PreOk s C (C ++ opUpdates w o)) := by
  have hprep : Run s (prepared w) C := hrun.congr rfl rfl rfl (by simp [prepared, hrun.notFailed])
  have hbase : Run s { w with trace := [], failed := false } C := hrun.congr rfl rfl rfl (by simp [hrun.notFailed])
  have hold : PreOk s C C w.disk := by
    rcases hrun.shape with ⟨_, himg, hC⟩ | ⟨sh, md0, X, _, _, _, himg, hC, _⟩
    · exact .inl ⟨_, _, _, himg, .inl (by simp [hC])⟩
    · exact .inl ⟨_, _, _, himg, .inl hC.symm⟩
  cases o with
  | ins r ts =>
    simp only [onShard, decide_eq_true_eq] at ho
    subst ho
    by_cases hts : ts = []
    · subst hts
      have e : runOp b w (.ins r []) = { w with trace := [], failed := false } := by simp [runOp]
      rw [e]
      simp only [opUpdates, req, List.map_nil, List.append_nil]
      exact ⟨trivial, hbase, allPre_nil hold⟩
    · have hnew : req ts w.mem.clock 1 ≠ [] := by simpa [req] using hts
      obtain ⟨hr, hp⟩ := ensure_append_ok (s := r) b (w := prepared w) (req ts w.mem.clock 1) hnew hprep rfl
      obtain ⟨e1, e2, e3, e4, e5⟩ := runOp_ins_eq b w r ts hts hr.notFailed
      refine ⟨e1, hr.congr e4 e5 e3 (by rw [e1, hr.notFailed]), ?_⟩
      rw [e2]
      exact hp
  | del r ts =>
    simp only [onShard, decide_eq_true_eq] at ho
    subst ho
    by_cases hts : ts = []
    · subst hts
      have e : runOp b w (.del r []) = { w with trace := [], failed := false } := by simp [runOp]
      rw [e]
      simp only [opUpdates, req, List.map_nil, List.append_nil]
      exact ⟨trivial, hbase, allPre_nil hold⟩
    · have hnew : req ts w.mem.clock (-1) ≠ [] := by simpa [req] using hts
      obtain ⟨hr, hp⟩ := ensure_append_ok (s := r) b (w := prepared w) (req ts w.mem.clock (-1)) hnew hprep rfl
      rw [runOp_del_eq b w r ts hts (by simpa [delKnown] using hk)]
      exact ⟨hr.notFailed, hr, hp⟩
  | dropRel r => simp [onShard] at ho
  | flushAll k ord => simp [onShard] at ho
  | compactAll ord => simp [onShard] at ho

/-! ### crashes inside recovery: every prefix of the recovery's own FS steps keeps the image -/

theorem AllPre.full' {d : Disk} {ops : List (Op Path Rec)} {Q : Disk → Prop} (h : AllPre d ops Q) :
    Q (applyAll d ops) := by
  have := h ops.length
  simpa using this

theorem cleanup_pre {s : Name} {md : Option ShardMeta} {X es : List Update} (L : List Path) :
    ∀ w : World, Img s w.disk md X es → (∀ q, orphan w.mem.shards q = true → ¬ observed md q) →
      ∃ tr, (cleanupOrphans w L).1.trace = w.trace ++ tr ∧
        (cleanupOrphans w L).1.disk = applyAll w.disk (tr.map (·.2)) ∧
        AllPre w.disk (tr.map (·.2)) (fun d' => Img s d' md X es) := by
  induction L with
  | nil => intro w himg _; exact ⟨[], by simp [cleanupOrphans], by simp [cleanupOrphans, applyAll], allPre_nil himg⟩
  | cons p rest ih =>
    intro w himg horph
    cases p with
    | batch id =>
      simp only [cleanupOrphans]
      by_cases href : referenced w.mem.shards id = true
      · simp only [href, if_true]; exact ih w himg horph
      · simp only [href, Bool.false_eq_true, if_false]
        have hno : ¬ observed md (.batch id) := horph _ (by simp [orphan, href])
        obtain ⟨tr, h1, h2, h3⟩ := ih (emit w .orphansUnlinkBatch (.unlink (.batch id))) (himg.unlink_other _ hno) horph
        have h3' : AllPre (apply w.disk (.unlink (.batch id))) (tr.map (·.2)) (fun d' => Img s d' md X es) := h3
        exact ⟨(.orphansUnlinkBatch, .unlink (.batch id)) :: tr, by rw [h1]; simp [emit], by rw [h2]; simp [emit, applyAll],
          by simpa using allPre_cons himg h3'⟩
    | batchTmp id =>
      simp only [cleanupOrphans]
      have hno : ¬ observed md (.batchTmp id) := by simp [observed]
      obtain ⟨tr, h1, h2, h3⟩ := ih (emit w .orphansUnlinkTmp (.unlink (.batchTmp id))) (himg.unlink_other _ hno) horph
      have h3' : AllPre (apply w.disk (.unlink (.batchTmp id))) (tr.map (·.2)) (fun d' => Img s d' md X es) := h3
      exact ⟨(.orphansUnlinkTmp, .unlink (.batchTmp id)) :: tr, by rw [h1]; simp [emit], by rw [h2]; simp [emit, applyAll],
        by simpa using allPre_cons himg h3'⟩
    | wal | walNew | smeta f | metaTmp f => simp only [cleanupOrphans]; exact ih w himg horph

theorem afterCleanup_pre {s : Name} {md : Option ShardMeta} {X es : List Update} (w : World) (L : List Path)
    (himg : Img s w.disk md X es) (horph : ∀ q, orphan w.mem.shards q = true → ¬ observed md q) :
    ∃ tr, (afterCleanup w L).trace = w.trace ++ tr ∧ (afterCleanup w L).disk = applyAll w.disk (tr.map (·.2)) ∧
      AllPre w.disk (tr.map (·.2)) (fun d' => Img s d' md X es) := by
  obtain ⟨tr, h1, h2, h3⟩ := cleanup_pre (s := s) L w himg horph
  simp only [afterCleanup]
  split
  · refine ⟨tr ++ [(.orphansDirsync, .nop 0)], by simp [emit, h1], by simp [emit, h2, applyAll], ?_⟩
    rw [List.map_append]
    apply allPre_append h3
    have hfin : Img s (applyAll w.disk (tr.map (·.2))) md X es := AllPre.full' h3
    simp only [List.map_cons, List.map_nil]
    exact allPre_cons hfin (allPre_nil (hfin.nop 0))
  · exact ⟨tr, h1, h2, h3⟩

theorem AllPre.full {d : Disk} {ops : List (Op Path Rec)} {Q : Disk → Prop} (h : AllPre d ops Q) :
    Q (applyAll d ops) := by
  have := h ops.length
  simpa using this

theorem AllPre.mono {d : Disk} {ops : List (Op Path Rec)} {Q Q' : Disk → Prop} (h : AllPre d ops Q)
    (hq : ∀ d', Q d' → Q' d') : AllPre d ops Q' := fun j => hq _ (h j)

theorem stageFinish_trace (w w' : World) (hnew : (get w.disk .walNew).isSome = false) (h : stageFinish w = some w') :
    w'.trace = w.trace ∧ w'.disk = w.disk := by
  simp only [stageFinish, hnew, Bool.false_eq_true, if_false] at h
  split at h
  · cases h
  · cases h; exact ⟨rfl, rfl⟩

/-- **a crash anywhere inside recovery**: every prefix of the recovery's FS steps (orphan cleanup, drain flush) leaves
    an image with the same content — or the doubled image of the drain flush's own window. -/
theorem recover_pre {s : Name} {d : Disk} {md : Option ShardMeta} {X es : List Update} (h : Img s d md X es) :
    ∃ w, openEngine d = some w ∧ AllPre d (w.trace.map (·.2)) (PreOk s (X ++ es) (X ++ es)) := by
  have good : ∀ {d' md' X' es'}, Img s d' md' X' es' → X' ++ es' = X ++ es → PreOk s (X ++ es) (X ++ es) d' :=
    fun h e => .inl ⟨_, _, _, h, .inl e⟩
  cases md with
  | none =>
    obtain ⟨hnm, hX, hes⟩ := h.noMeta rfl
    subst hX; subst hes
    have hmp : metaPaths d = [] := by
      apply List.eq_nil_iff_forall_not_mem.2
      intro f hf
      have := (mem_metaPaths d f).1 hf
      simp [hnm f] at this
    obtain ⟨tr, t1, t2, t3⟩ := afterCleanup_pre (s := s) (loadWorld d [] 1) (paths d) (by simpa [loadWorld] using h)
      (by intro q hq; cases q <;> simp_all [orphan, observed, loadWorld])
    obtain ⟨a1, a2, _⟩ := afterCleanup_spec (loadWorld d [] 1) d rfl
    have himg1 : Img s (afterCleanup (loadWorld d [] 1) (paths d)).disk none [] [] := by
      rw [t2]; exact AllPre.full' t3
    have hload : stageLoad d = some (afterCleanup (loadWorld d [] 1) (paths d)) := by
      simp [stageLoad, hmp, loadShards]
    generalize afterCleanup (loadWorld d [] 1) (paths d) = w1 at a1 a2 himg1 hload t1 t2
    have hf1 : w1.failed = false := by rw [a2]; rfl
    have hsh1 : w1.mem.shards = [] := by rw [a1]; rfl
    have hrep := stageReplay_nil w1 [] (by simpa using readAll_of_img himg1) hf1
    obtain ⟨w', hfin, _, _⟩ := finish_empty hf1 hsh1 himg1
    obtain ⟨ht, _⟩ := stageFinish_trace w1 w' (isSome_walNew himg1) hfin
    refine ⟨w', by simp only [openEngine, hload, hrep, hfin], ?_⟩
    rw [ht, t1]
    simp only [loadWorld, List.map_append, List.map_cons, List.map_nil, List.cons_append, List.nil_append]
    refine allPre_cons (good h rfl) (allPre_cons (good (h.nop 0) rfl) ?_)
    exact (t3.mono (fun d' hd' => good hd' rfl))
  | some m =>
    obtain ⟨hname, hmeta, hothers, hX⟩ := h.hasMeta m rfl
    have hdoc : readDoc d (.smeta (metaFile s)) = some (.smeta m) := by rw [readDoc_eq, hmeta]
    have hne : metaPaths d ≠ [] := by
      have : metaFile s ∈ metaPaths d := (mem_metaPaths d _).2 (by simp [hmeta])
      exact List.ne_nil_of_mem this
    have hall : ∀ f ∈ metaPaths d, f = metaFile s := by
      intro f hf
      have := (mem_metaPaths d f).1 hf
      by_cases e : f = metaFile s
      · exact e
      · simp [hothers f e] at this
    obtain ⟨nb, hls, hids⟩ := loadShards_const d (metaFile s) m hdoc (readBatches_isSome d _ X hX) _ hne hall
    rw [hname] at hls
    obtain ⟨tr, t1, t2, t3⟩ := afterCleanup_pre (s := s) (loadWorld d [(s, { md := m, buffer := [] })] nb) (paths d)
      (by simpa [loadWorld] using h)
      (by
        intro q hq
        cases q with
        | batch id =>
          intro hobs
          obtain ⟨m', hm', b, hb, hid⟩ := hobs
          cases hm'
          have : referenced [(s, ({ md := m, buffer := [] } : Shard))] id = true :=
            (referenced_single s _ id).2 ⟨b, hb, hid⟩
          simp [orphan, loadWorld, this] at hq
        | _ => simp_all [orphan, observed, loadWorld])
    obtain ⟨a1, a2, _⟩ := afterCleanup_spec (loadWorld d [(s, { md := m, buffer := [] })] nb) d rfl
    have himg1 : Img s (afterCleanup (loadWorld d [(s, { md := m, buffer := [] })] nb) (paths d)).disk (some m) X es := by
      rw [t2]; exact AllPre.full' t3
    have hload : stageLoad d = some (afterCleanup (loadWorld d [(s, { md := m, buffer := [] })] nb) (paths d)) := by
      simp [stageLoad, hls]
    generalize afterCleanup (loadWorld d [(s, { md := m, buffer := [] })] nb) (paths d) = w1 at a1 a2 himg1 hload t1 t2
    have hf1 : w1.failed = false := by rw [a2]; rfl
    have hsh1 : w1.mem.shards = [(s, { md := m, buffer := [] })] := by rw [a1]; rfl
    have hnb1 : w1.mem.nextBatch = nb := by rw [a1]; rfl
    have hread := readAll_of_img himg1
    have hprefix : AllPre d (w1.trace.map (·.2)) (PreOk s (X ++ es) (X ++ es)) := by
      rw [t1]
      simp only [loadWorld, List.map_append, List.map_cons, List.map_nil, List.cons_append, List.nil_append]
      refine allPre_cons (good h rfl) (allPre_cons (good (h.nop 0) rfl) ?_)
      exact (t3.mono (fun d' hd' => good hd' rfl))
    have hd1 : w1.disk = applyAll d (w1.trace.map (·.2)) := by
      rw [t2, t1]; simp [loadWorld, applyAll, apply]
    by_cases hes : es = []
    · subst hes
      have hrep := stageReplay_nil w1 [] (by simpa using hread) hf1
      obtain ⟨w', hfin, _, _⟩ := finish_single (sh := { md := m, buffer := [] }) hf1 hsh1 hname rfl himg1
        (by simpa [hnb1] using hids)
      obtain ⟨ht, _⟩ := stageFinish_trace w1 w' (isSome_walNew himg1) hfin
      exact ⟨w', by simp only [openEngine, hload, hrep, hfin], by rw [ht]; exact hprefix⟩
    · have hmapne : es.map (fun u => (s, u)) ≠ [] := by simpa using hes
      have hrp : replay w1.mem.shards (es.map (fun u => (s, u))) = [(s, { md := m, buffer := es })] := by
        rw [hsh1, replay_one]; simp
      have hfresh : ∀ b ∈ m.batches, b.id ≠ nb := fun b hb => by have := hids b hb; omega
      have hfl := flush_world (s := s) (w := { w1 with mem := { w1.mem with shards := [(s, { md := m, buffer := es })] } })
        (sh := { md := m, buffer := es }) (X := X) rfl hname hes rfl himg1 (by simpa [hnb1] using hfresh)
      have hff : (flush { w1 with mem := { w1.mem with shards := [(s, { md := m, buffer := es })] } } s).failed = false := by
        rw [hfl]; exact hf1
      have hrep := stageReplay_flush w1 s { md := m, buffer := es } _ hread hmapne hrp hes hff
      obtain ⟨_, _, i7⟩ := flush_disks (s := s) (d := w1.disk) (sh := { md := m, buffer := es }) (X := X) nb hname rfl himg1 hfresh
      have i7' := i7 7 (Nat.le_refl 7)
      have hpre2 := flush_allPre (s := s) (d := w1.disk) (sh := { md := m, buffer := es }) nb (X ++ es) hname hes rfl himg1 hfresh
      obtain ⟨w', hfin, _, _⟩ := finish_single (s := s)
        (w := flush { w1 with mem := { w1.mem with shards := [(s, { md := m, buffer := es })] } } s)
        (sh := { md := flushedMeta { md := m, buffer := es } nb, buffer := [] }) (X := X ++ es)
        hff (by rw [hfl]; simp [hnb1]) (by simp [flushedMeta, addBatch, hname]) rfl
        (by rw [hfl]; simpa [flushSteps, hnb1] using i7')
        (by
          rw [hfl]
          intro b hb
          simp only [flushedMeta, addBatch, List.mem_append, List.mem_singleton] at hb
          rcases hb with hb | hb
          · have := hids b hb; simp only [hnb1]; omega
          · subst hb; simp [hnb1])
      have hnew' : (get (flush { w1 with mem := { w1.mem with shards := [(s, { md := m, buffer := es })] } } s).disk .walNew).isSome = false := by
        rw [hfl]; exact isSome_walNew (by simpa [flushSteps, hnb1] using i7')
      obtain ⟨ht, _⟩ := stageFinish_trace _ w' hnew' hfin
      refine ⟨w', by simp only [openEngine, hload, hrep, hfin], ?_⟩
      rw [ht, hfl]
      simp only [List.map_append, hnb1]
      apply allPre_append hprefix
      rw [← hd1]
      exact hpre2

end ILV.Persist
