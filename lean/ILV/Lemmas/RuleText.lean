/-
  Helper lemmas for C09: the right-to-left operator scan `findSplit` passes over balanced printed
  sub-expressions, the parenthesis matcher `matchedAux` does too, fuel monotonicity of `parseA`, and the
  round trip of printed arithmetic at every precedence level.
-/
import ILV.Model.RuleText
namespace ILV.RText

/-! ### fuel -/

theorem parseA_add (f : Nat) (ts : List Tok) : parseA (f + 1) .add ts =
    (match findSplit AOp.isAdd ts.reverse 0 [] with
     | some (l, o, r) =>
       match parseA f .add l, parseA f .mul r with
       | some a, some b => some (.bin o a b)
       | _, _ => none
     | none => parseA f .mul ts) := rfl

theorem parseA_mul (f : Nat) (ts : List Tok) : parseA (f + 1) .mul ts =
    (match findSplit (fun o => !o.isAdd) ts.reverse 0 [] with
     | some (l, o, r) =>
       match parseA f .mul l, parseA f .prim r with
       | some a, some b => some (.bin o a b)
       | _, _ => none
     | none => parseA f .prim ts) := rfl

theorem parseA_prim (f : Nat) (ts : List Tok) : parseA (f + 1) .prim ts =
    (match unparen ts with
     | some inner => parseA f .add inner
     | none =>
       match ts with
       | [.int n] => some (.const n)
       | [.fint _ n] => some (.const n)
       | [.flt x] => if x.finite then some (.flt x) else none
       | [.ident s] => some (.var s)
       | _ => none) := rfl

theorem parseA_mono : ∀ (f : Nat) (lvl : Lvl) (ts : List Tok) (e : AExpr),
    parseA f lvl ts = some e → parseA (f + 1) lvl ts = some e := by
  intro f
  induction f with
  | zero => intro lvl ts e h; simp [parseA] at h
  | succ f ih =>
    intro lvl ts e h
    cases lvl with
    | add =>
      rw [parseA_add] at h ⊢
      cases hs : findSplit AOp.isAdd ts.reverse 0 [] with
      | none =>
        simp only [hs] at h ⊢
        exact ih _ _ _ h
      | some x =>
        obtain ⟨l, o, r⟩ := x
        simp only [hs] at h ⊢
        cases hl : parseA f .add l with
        | none => simp [hl] at h
        | some a =>
          cases hr : parseA f .mul r with
          | none => simp [hl, hr] at h
          | some b =>
            simp only [hl, hr] at h
            simp only [ih _ _ _ hl, ih _ _ _ hr]
            exact h
    | mul =>
      rw [parseA_mul] at h ⊢
      cases hs : findSplit (fun o => !o.isAdd) ts.reverse 0 [] with
      | none =>
        simp only [hs] at h ⊢
        exact ih _ _ _ h
      | some x =>
        obtain ⟨l, o, r⟩ := x
        simp only [hs] at h ⊢
        cases hl : parseA f .mul l with
        | none => simp [hl] at h
        | some a =>
          cases hr : parseA f .prim r with
          | none => simp [hl, hr] at h
          | some b =>
            simp only [hl, hr] at h
            simp only [ih _ _ _ hl, ih _ _ _ hr]
            exact h
    | prim =>
      rw [parseA_prim] at h ⊢
      cases hu : unparen ts with
      | some inner =>
        simp only [hu] at h ⊢
        exact ih _ _ _ h
      | none =>
        simp only [hu] at h ⊢
        exact h

theorem parseA_mono_le {f g : Nat} (hfg : f ≤ g) {lvl : Lvl} {ts : List Tok} {e : AExpr}
    (h : parseA f lvl ts = some e) : parseA g lvl ts = some e := by
  induction hfg with
  | refl => exact h
  | step _ ih => exact parseA_mono _ _ _ _ ih

/-! ### the right-to-left scan -/

/-- `ts` is passed over by the scan at depth `d` for the wanted operators `want`. -/
def Inert (want : AOp → Bool) (ts : List Tok) (d : Nat) : Prop :=
  ∀ rest right, findSplit want (ts.reverse ++ rest) d right = findSplit want rest d (ts ++ right)

theorem Inert.append {want : AOp → Bool} {a b : List Tok} {d : Nat}
    (ha : Inert want a d) (hb : Inert want b d) : Inert want (a ++ b) d := by
  intro rest right
  rw [List.reverse_append, List.append_assoc, hb, ha, List.append_assoc]

theorem Inert.wrap {want : AOp → Bool} {a : List Tok} {d : Nat}
    (ha : Inert want a (d + 1)) : Inert want (paren a) d := by
  intro rest right
  have h1 : (paren a).reverse ++ rest = Tok.rp :: (a.reverse ++ Tok.lp :: rest) := by
    simp [paren]
  rw [h1]
  simp only [findSplit]
  rw [ha]
  simp [findSplit, paren]

/-- a token that is neither a parenthesis nor an operator -/
def Tok.plain : Tok → Bool
  | .lp | .rp | .op _ => false
  | _ => true

theorem Inert.single {want : AOp → Bool} {t : Tok} {d : Nat} (ht : t.plain = true) : Inert want [t] d := by
  intro rest right
  cases t <;> simp_all [findSplit, Tok.plain]

theorem Inert.op_deep {want : AOp → Bool} {o : AOp} {d : Nat} : Inert want [Tok.op o] (d + 1) := by
  intro rest right
  simp [findSplit]

theorem Inert.op_unwanted {want : AOp → Bool} {o : AOp} {d : Nat} (h : want o = false) :
    Inert want [Tok.op o] d := by
  intro rest right
  simp [findSplit, h]

theorem floatTok_plain (f : FloatLit) : (floatTok f).plain = true := by
  unfold floatTok; split <;> rfl

theorem inert_wrapIf_deep {want : AOp → Bool} {ts : List Tok} {d : Nat} (b : Bool)
    (h : ∀ k, Inert want ts (k + 1)) : Inert want (wrapIf b ts) (d + 1) := by
  unfold wrapIf; split
  · exact Inert.wrap (h _)
  · exact h _

/-- below the top level everything printed is passed over. -/
theorem inert_deep (want : AOp → Bool) (e : AExpr) : ∀ d, Inert want (printArith e) (d + 1) := by
  induction e with
  | var s => intro d; exact Inert.single rfl
  | const n => intro d; exact Inert.single rfl
  | flt f => intro d; exact Inert.single (floatTok_plain f)
  | bin op l r ihl ihr =>
    intro d
    simp only [printArith]
    have h2 : Inert want (Tok.op op :: wrapIf (needParenR op r) (printArith r)) (d + 1) :=
      Inert.append (a := [Tok.op op]) Inert.op_deep (inert_wrapIf_deep _ ihr)
    exact Inert.append (inert_wrapIf_deep _ ihl) h2

theorem inert_paren_top (want : AOp → Bool) (e : AExpr) : Inert want (paren (printArith e)) 0 :=
  Inert.wrap (inert_deep want e 0)

theorem needParenL_mul {op : AOp} (hop : op.isAdd = false) (l : AExpr) : needParenL op l = l.isAddBin := by
  cases l with
  | bin lo a b => cases op <;> cases lo <;> simp_all [needParenL, AExpr.isAddBin, AOp.prec, AOp.isAdd]
  | _ => rfl

theorem needParenL_add {op : AOp} (hop : op.isAdd = true) (l : AExpr) : needParenL op l = false := by
  cases l with
  | bin lo a b => cases op <;> cases lo <;> simp_all [needParenL, AOp.prec, AOp.isAdd]
  | _ => rfl

theorem needParenR_mul {op : AOp} (hop : op.isAdd = false) (r : AExpr) : needParenR op r = r.isBin := by
  cases r with
  | bin ro a b => cases op <;> cases ro <;> simp_all [needParenR, AExpr.isBin, AOp.prec, AOp.isAdd]
  | _ => rfl

theorem needParenR_add {op : AOp} (hop : op.isAdd = true) (r : AExpr) : needParenR op r = r.isAddBin := by
  cases r with
  | bin ro a b => cases op <;> cases ro <;> simp_all [needParenR, AExpr.isAddBin, AOp.prec, AOp.isAdd]
  | _ => rfl

/-- at the top level, an expression whose root is not `+`/`-` hides no `+`/`-`. -/
theorem inert_top_add (e : AExpr) (h : e.isAddBin = false) : Inert AOp.isAdd (printArith e) 0 := by
  induction e with
  | var s => exact Inert.single rfl
  | const n => exact Inert.single rfl
  | flt f => exact Inert.single (floatTok_plain f)
  | bin op l r ihl _ =>
    have hop : op.isAdd = false := h
    simp only [printArith]
    rw [needParenL_mul hop, needParenR_mul hop]
    have hR : Inert AOp.isAdd (wrapIf r.isBin (printArith r)) 0 := by
      unfold wrapIf
      cases hr : r.isBin with
      | true => simp only [if_true]; exact inert_paren_top _ r
      | false =>
        simp only [Bool.false_eq_true, if_false]
        cases r with
        | bin _ _ _ => simp [AExpr.isBin] at hr
        | var s => exact Inert.single rfl
        | const n => exact Inert.single rfl
        | flt f => exact Inert.single (floatTok_plain f)
    have hL : Inert AOp.isAdd (wrapIf l.isAddBin (printArith l)) 0 := by
      unfold wrapIf
      cases hl : l.isAddBin with
      | true => simp only [if_true]; exact inert_paren_top _ l
      | false => simp only [Bool.false_eq_true, if_false]; exact ihl hl
    exact Inert.append hL (Inert.append (a := [Tok.op op]) (Inert.op_unwanted hop) hR)

/-- a leaf, or anything in parentheses, hides no operator at all. -/
theorem inert_top_leaf (want : AOp → Bool) (e : AExpr) (h : e.isBin = false) : Inert want (printArith e) 0 := by
  cases e with
  | bin _ _ _ => simp [AExpr.isBin] at h
  | var s => exact Inert.single rfl
  | const n => exact Inert.single rfl
  | flt f => exact Inert.single (floatTok_plain f)

theorem findSplit_none_of_inert {want : AOp → Bool} {ts : List Tok} (h : Inert want ts 0) :
    findSplit want ts.reverse 0 [] = none := by
  have := h [] []
  simp only [List.append_nil] at this
  rw [this]; rfl

/-! ### shape of printed expressions -/

theorem printArith_ne_nil (e : AExpr) : printArith e ≠ [] := by
  cases e <;> simp [printArith]

theorem wrapIf_ne_nil (b : Bool) {ts : List Tok} (h : ts ≠ []) : wrapIf b ts ≠ [] := by
  unfold wrapIf; split
  · simp [paren]
  · exact h

theorem getLast?_wrapIf_paren (ts : List Tok) : (paren ts).getLast? = some Tok.rp := by
  unfold paren
  rw [List.getLast?_cons_of_ne_nil (by simp)]
  simp

theorem getLast?_append_right {α} (a b : List α) (h : b ≠ []) : (a ++ b).getLast? = b.getLast? := by
  rw [List.getLast?_append]
  cases hb : b.getLast? with
  | none => exact absurd (List.getLast?_eq_none_iff.mp hb) h
  | some x => simp

/-- the last printed token always ends in an operand character. -/
theorem last_endsOperand (e : AExpr) : ∀ t, (printArith e).getLast? = some t → t.endsOperand = true := by
  induction e with
  | var s => intro t h; simp [printArith] at h; subst h; rfl
  | const n => intro t h; simp [printArith] at h; subst h; rfl
  | flt f =>
    intro t h; simp [printArith] at h; subst h
    unfold floatTok; split <;> rfl
  | bin op l r _ ihr =>
    intro t h
    simp only [printArith] at h
    have hne : (Tok.op op :: wrapIf (needParenR op r) (printArith r)) ≠ [] := by simp
    rw [getLast?_append_right _ _ hne] at h
    have hne2 : wrapIf (needParenR op r) (printArith r) ≠ [] := wrapIf_ne_nil _ (printArith_ne_nil r)
    rw [List.getLast?_cons_of_ne_nil hne2] at h
    unfold wrapIf at h
    split at h
    · rw [getLast?_wrapIf_paren] at h
      cases h; rfl
    · exact ihr t h

theorem wrapIf_last_endsOperand (b : Bool) (e : AExpr) :
    ∀ t, (wrapIf b (printArith e)).getLast? = some t → t.endsOperand = true := by
  intro t h
  unfold wrapIf at h
  split at h
  · rw [getLast?_wrapIf_paren] at h; cases h; rfl
  · exact last_endsOperand e t h

/-! ### the parenthesis matcher -/

/-- `ts` is passed over by the left-to-right matcher at depth `d` (when something follows). -/
def MInert (ts : List Tok) (d : Nat) : Prop :=
  ∀ rest, rest ≠ [] → matchedAux (ts ++ rest) d = matchedAux rest d

theorem MInert.append {a b : List Tok} {d : Nat} (ha : MInert a d) (hb : MInert b d) : MInert (a ++ b) d := by
  intro rest hr
  rw [List.append_assoc, ha _ (by simp [hr]), hb _ hr]

theorem matchedAux_cons2 (t u : Tok) (us : List Tok) (d : Nat) :
    matchedAux (t :: u :: us) d =
      (match t with
       | .lp => matchedAux (u :: us) (d + 1)
       | .rp => if d ≤ 1 then false else matchedAux (u :: us) (d - 1)
       | _ => matchedAux (u :: us) d) := by
  cases t <;> rfl

theorem MInert.single {t : Tok} {d : Nat} (h1 : t ≠ .lp) (h2 : t ≠ .rp) : MInert [t] d := by
  intro rest hr
  cases rest with
  | nil => exact absurd rfl hr
  | cons x xs =>
    show matchedAux (t :: x :: xs) d = _
    rw [matchedAux_cons2]
    cases t <;> simp_all

theorem MInert.wrap {a : List Tok} {d : Nat} (ha : MInert a (d + 2)) : MInert (paren a) (d + 1) := by
  intro rest hr
  obtain ⟨x, xs, rfl⟩ := List.exists_cons_of_ne_nil hr
  have h1 : paren a ++ x :: xs = Tok.lp :: (a ++ Tok.rp :: x :: xs) := by simp [paren]
  rw [h1]
  obtain ⟨u, us, hu⟩ : ∃ u us, a ++ Tok.rp :: x :: xs = u :: us := by cases a <;> simp
  rw [hu, matchedAux_cons2]
  simp only []
  rw [← hu, ha _ (by simp), matchedAux_cons2]
  simp

theorem floatTok_ne_paren (f : FloatLit) : floatTok f ≠ .lp ∧ floatTok f ≠ .rp := by
  unfold floatTok; split <;> simp

theorem minert_arith (e : AExpr) : ∀ d, MInert (printArith e) (d + 1) := by
  induction e with
  | var s => intro d; exact MInert.single (by simp) (by simp)
  | const n => intro d; exact MInert.single (by simp) (by simp)
  | flt f => intro d; exact MInert.single (floatTok_ne_paren f).1 (floatTok_ne_paren f).2
  | bin op l r ihl ihr =>
    intro d
    simp only [printArith]
    have hw : ∀ (b : Bool) (x : AExpr), (∀ k, MInert (printArith x) (k + 1)) → MInert (wrapIf b (printArith x)) (d + 1) := by
      intro b x hx
      unfold wrapIf; split
      · exact MInert.wrap (hx _)
      · exact hx _
    exact MInert.append (hw _ l ihl)
      (MInert.append (a := [Tok.op op]) (MInert.single (by simp) (by simp)) (hw _ r ihr))

theorem unparen_paren (e : AExpr) : unparen (paren (printArith e)) = some (printArith e) := by
  unfold unparen paren
  have h := minert_arith e 0 [Tok.rp] (by simp)
  simp only [h, matchedAux]
  simp

theorem unparen_leaf {t : Tok} (h : t ≠ .lp) : unparen [t] = none := by
  cases t <;> simp_all [unparen]

/-! ### round trip of arithmetic -/

def AExpr.height : AExpr → Nat
  | .bin _ l r => 1 + max l.height r.height
  | _ => 0

def AExpr.litStable : AExpr → Bool
  | .flt f => f.stable
  | .bin _ l r => l.litStable && r.litStable
  | _ => true

def AExpr.allFinite : AExpr → Bool
  | .flt f => f.finite
  | .bin _ l r => l.allFinite && r.allFinite
  | _ => true

theorem floatTok_stable {f : FloatLit} (h : f.stable = true) : floatTok f = .flt f := by
  unfold FloatLit.stable at h
  unfold floatTok
  cases hp : parseI64 f.text with
  | none => rfl
  | some n => simp [hp] at h

theorem parse_prim_leaf (e : AExpr) (hb : e.isBin = false) (hl : e.litStable = true) (hfin : e.allFinite = true) (f : Nat) :
    parseA (f + 1) .prim (printArith e) = some e := by
  cases e with
  | bin _ _ _ => simp [AExpr.isBin] at hb
  | var s => simp [parseA, printArith, unparen]
  | const n => simp [parseA, printArith, unparen]
  | flt x =>
    have : floatTok x = .flt x := floatTok_stable hl
    have hf : x.finite = true := hfin
    simp [parseA, printArith, unparen, this, hf]

theorem headSci_reverse (ts : List Tok) : headSci ts.reverse = lastTokSci ts := by
  unfold headSci lastTokSci
  cases h : ts.getLast? with
  | none =>
    have : ts = [] := List.getLast?_eq_none_iff.mp h
    subst this; rfl
  | some t =>
    have : ts.reverse.head? = some t := by rw [List.head?_reverse]; exact h
    cases hr : ts.reverse with
    | nil => simp [hr] at this
    | cons x xs => simp [hr] at this; subst this; rfl

theorem headOperand_reverse (ts : List Tok) (h : ∀ t, ts.getLast? = some t → t.endsOperand = true) (hne : ts ≠ []) :
    headOperand ts.reverse = true := by
  unfold headOperand
  cases hr : ts.reverse with
  | nil => exact absurd (List.reverse_eq_nil_iff.mp hr) hne
  | cons x xs =>
    have : ts.getLast? = some x := by
      rw [← List.head?_reverse, hr]; rfl
    exact h x this

/-- all three precedence levels at once; `4 * height + 4` fuel is enough. -/
theorem parse_levels (e : AExpr) :
    e.litStable = true → e.sciHidden = false → e.allFinite = true →
    (∀ f, 4 * e.height + 3 ≤ f → parseA f .add (printArith e) = some e) ∧
    (e.isAddBin = false → ∀ f, 4 * e.height + 2 ≤ f → parseA f .mul (printArith e) = some e) ∧
    (∀ f, 4 * e.height + 4 ≤ f → parseA f .prim (paren (printArith e)) = some e) := by
  induction e with
  | var s =>
    intro hl _ _
    refine ⟨?_, ?_, ?_⟩
    · intro f hf
      obtain ⟨g, rfl⟩ : ∃ g, f = g + 3 := ⟨f - 3, by simp [AExpr.height] at hf; omega⟩
      simp [parseA, printArith, findSplit, unparen]
    · intro _ f hf
      obtain ⟨g, rfl⟩ : ∃ g, f = g + 2 := ⟨f - 2, by simp [AExpr.height] at hf; omega⟩
      simp [parseA, printArith, findSplit, unparen]
    · intro f hf
      obtain ⟨g, rfl⟩ : ∃ g, f = g + 4 := ⟨f - 4, by simp [AExpr.height] at hf; omega⟩
      have := unparen_paren (.var s)
      simp only [parseA, this]
      simp [parseA, printArith, findSplit, unparen]
  | const n =>
    intro hl _ _
    refine ⟨?_, ?_, ?_⟩
    · intro f hf
      obtain ⟨g, rfl⟩ : ∃ g, f = g + 3 := ⟨f - 3, by simp [AExpr.height] at hf; omega⟩
      simp [parseA, printArith, findSplit, unparen]
    · intro _ f hf
      obtain ⟨g, rfl⟩ : ∃ g, f = g + 2 := ⟨f - 2, by simp [AExpr.height] at hf; omega⟩
      simp [parseA, printArith, findSplit, unparen]
    · intro f hf
      obtain ⟨g, rfl⟩ : ∃ g, f = g + 4 := ⟨f - 4, by simp [AExpr.height] at hf; omega⟩
      have := unparen_paren (.const n)
      simp only [parseA, this]
      simp [parseA, printArith, findSplit, unparen]
  | flt x =>
    intro hl _ hfin
    have hfx : x.finite = true := hfin
    have hx : floatTok x = .flt x := floatTok_stable hl
    refine ⟨?_, ?_, ?_⟩
    · intro f hf
      obtain ⟨g, rfl⟩ : ∃ g, f = g + 3 := ⟨f - 3, by simp [AExpr.height] at hf; omega⟩
      simp [parseA, printArith, findSplit, unparen, hx, hfx]
    · intro _ f hf
      obtain ⟨g, rfl⟩ : ∃ g, f = g + 2 := ⟨f - 2, by simp [AExpr.height] at hf; omega⟩
      simp [parseA, printArith, findSplit, unparen, hx, hfx]
    · intro f hf
      obtain ⟨g, rfl⟩ : ∃ g, f = g + 4 := ⟨f - 4, by simp [AExpr.height] at hf; omega⟩
      have := unparen_paren (.flt x)
      simp only [parseA, this]
      simp [parseA, printArith, findSplit, unparen, hx, hfx]
  | bin op l r ihl ihr =>
    intro hlit hsci hfin
    have hfinl : l.allFinite = true := by simp [AExpr.allFinite] at hfin; exact hfin.1
    have hfinr : r.allFinite = true := by simp [AExpr.allFinite] at hfin; exact hfin.2
    have hlitl : l.litStable = true := by simp [AExpr.litStable] at hlit; exact hlit.1
    have hlitr : r.litStable = true := by simp [AExpr.litStable] at hlit; exact hlit.2
    have hscil : l.sciHidden = false := by
      simp only [AExpr.sciHidden, Bool.or_eq_false_iff] at hsci; exact hsci.1.1
    have hscir : r.sciHidden = false := by
      simp only [AExpr.sciHidden, Bool.or_eq_false_iff] at hsci; exact hsci.1.2
    obtain ⟨lA, lM, lP⟩ := ihl hlitl hscil hfinl
    obtain ⟨rA, rM, rP⟩ := ihr hlitr hscir hfinr
    have hhl : l.height ≤ max l.height r.height := Nat.le_max_left _ _
    have hhr : r.height ≤ max l.height r.height := Nat.le_max_right _ _
    -- the split found at this node, for the level that owns `op`
    have split_here : ∀ (want : AOp → Bool), want op = true →
        Inert want (wrapIf (needParenR op r) (printArith r)) 0 →
        (op.isAdd = true → lastTokSci (wrapIf (needParenL op l) (printArith l)) = false) →
        findSplit want (printArith (.bin op l r)).reverse 0 [] =
          some (wrapIf (needParenL op l) (printArith l), op, wrapIf (needParenR op r) (printArith r)) := by
      intro want hw hR hS
      simp only [printArith]
      have hrev : (wrapIf (needParenL op l) (printArith l) ++ Tok.op op :: wrapIf (needParenR op r) (printArith r)).reverse
          = (wrapIf (needParenR op r) (printArith r)).reverse ++ (Tok.op op :: (wrapIf (needParenL op l) (printArith l)).reverse) := by
        simp
      rw [hrev, hR]
      simp only [List.append_nil, findSplit]
      have hLne : wrapIf (needParenL op l) (printArith l) ≠ [] := wrapIf_ne_nil _ (printArith_ne_nil l)
      have hRne : wrapIf (needParenR op r) (printArith r) ≠ [] := wrapIf_ne_nil _ (printArith_ne_nil r)
      have hacc : acceptOp op (wrapIf (needParenL op l) (printArith l)).reverse (wrapIf (needParenR op r) (printArith r)) = true := by
        unfold acceptOp
        have h1 : (wrapIf (needParenL op l) (printArith l)).reverse.isEmpty = false := by
          simp [hLne]
        have h2 : (wrapIf (needParenR op r) (printArith r)).isEmpty = false := by
          simp [hRne]
        simp only [h1, h2, Bool.not_false, Bool.true_and]
        cases op with
        | add => simp only [headSci_reverse]; rw [hS rfl]; rfl
        | sub =>
          simp only [headSci_reverse]; rw [hS rfl]
          simp only [Bool.not_false, Bool.true_and]
          exact headOperand_reverse _ (wrapIf_last_endsOperand _ l) hLne
        | mul => rfl
        | div => rfl
        | mod => rfl
      simp [hw, hacc]
    cases hop : op.isAdd with
    | true =>
      -- `+` / `-` at the root
      have hS : lastTokSci (wrapIf (needParenL op l) (printArith l)) = false := by
        simp only [AExpr.sciHidden, Bool.or_eq_false_iff, hop, Bool.true_and] at hsci
        exact hsci.2
      have hRinert : Inert AOp.isAdd (wrapIf (needParenR op r) (printArith r)) 0 := by
        rw [needParenR_add hop]
        unfold wrapIf
        cases hr : r.isAddBin with
        | true => simp only [if_true]; exact inert_paren_top _ r
        | false => simp only [Bool.false_eq_true, if_false]; exact inert_top_add r hr
      have hsp := split_here AOp.isAdd hop hRinert (fun _ => hS)
      rw [needParenL_add hop, needParenR_add hop] at hsp
      have addLevel : ∀ f, 4 * (AExpr.bin op l r).height + 3 ≤ f → parseA f .add (printArith (.bin op l r)) = some (.bin op l r) := by
        intro f hf
        simp only [AExpr.height] at hf
        obtain ⟨g, rfl⟩ : ∃ g, f = g + 1 := ⟨f - 1, by omega⟩
        simp only [parseA, hsp]
        have h1 : parseA g .add (wrapIf false (printArith l)) = some l := by
          simp only [wrapIf, Bool.false_eq_true, if_false]
          exact lA g (by omega)
        have h2 : parseA g .mul (wrapIf r.isAddBin (printArith r)) = some r := by
          unfold wrapIf
          cases hr : r.isAddBin with
          | true =>
            simp only [if_true]
            obtain ⟨k, rfl⟩ : ∃ k, g = k + 1 := ⟨g - 1, by omega⟩
            simp only [parseA, findSplit_none_of_inert (inert_paren_top _ r)]
            exact rP k (by omega)
          | false =>
            simp only [Bool.false_eq_true, if_false]
            exact rM hr g (by omega)
        simp [h1, h2]
      refine ⟨addLevel, ?_, ?_⟩
      · intro h; simp [AExpr.isAddBin, hop] at h
      · intro f hf
        obtain ⟨g, rfl⟩ : ∃ g, f = g + 1 := ⟨f - 1, by omega⟩
        simp only [parseA, unparen_paren]
        exact addLevel g (by omega)
    | false =>
      -- `*` `/` `%` at the root
      have hRinert : Inert (fun o => !o.isAdd) (wrapIf (needParenR op r) (printArith r)) 0 := by
        rw [needParenR_mul hop]
        unfold wrapIf
        cases hr : r.isBin with
        | true => simp only [if_true]; exact inert_paren_top _ r
        | false => simp only [Bool.false_eq_true, if_false]; exact inert_top_leaf _ r hr
      have hsp := split_here (fun o => !o.isAdd) (by simp [hop]) hRinert (fun h => by rw [hop] at h; cases h)
      rw [needParenL_mul hop, needParenR_mul hop] at hsp
      have mulLevel : ∀ f, 4 * (AExpr.bin op l r).height + 2 ≤ f → parseA f .mul (printArith (.bin op l r)) = some (.bin op l r) := by
        intro f hf
        simp only [AExpr.height] at hf
        obtain ⟨g, rfl⟩ : ∃ g, f = g + 1 := ⟨f - 1, by omega⟩
        simp only [parseA, hsp]
        have h1 : parseA g .mul (wrapIf l.isAddBin (printArith l)) = some l := by
          unfold wrapIf
          cases hl : l.isAddBin with
          | true =>
            simp only [if_true]
            obtain ⟨k, rfl⟩ : ∃ k, g = k + 1 := ⟨g - 1, by omega⟩
            simp only [parseA, findSplit_none_of_inert (inert_paren_top _ l)]
            exact lP k (by omega)
          | false =>
            simp only [Bool.false_eq_true, if_false]
            exact lM hl g (by omega)
        have h2 : parseA g .prim (wrapIf r.isBin (printArith r)) = some r := by
          unfold wrapIf
          cases hr : r.isBin with
          | true => simp only [if_true]; exact rP g (by omega)
          | false =>
            simp only [Bool.false_eq_true, if_false]
            obtain ⟨k, rfl⟩ : ∃ k, g = k + 1 := ⟨g - 1, by omega⟩
            exact parse_prim_leaf r hr hlitr hfinr k
        simp [h1, h2]
      have addLevel : ∀ f, 4 * (AExpr.bin op l r).height + 3 ≤ f → parseA f .add (printArith (.bin op l r)) = some (.bin op l r) := by
        intro f hf
        obtain ⟨g, rfl⟩ : ∃ g, f = g + 1 := ⟨f - 1, by omega⟩
        have hin : Inert AOp.isAdd (printArith (.bin op l r)) 0 := inert_top_add _ (by simp [AExpr.isAddBin, hop])
        simp only [parseA, findSplit_none_of_inert hin]
        exact mulLevel g (by omega)
      refine ⟨addLevel, fun _ => mulLevel, ?_⟩
      intro f hf
      obtain ⟨g, rfl⟩ : ∃ g, f = g + 1 := ⟨f - 1, by omega⟩
      simp only [parseA, unparen_paren]
      exact addLevel g (by omega)

theorem height_le_length (e : AExpr) : 2 * e.height + 1 ≤ (printArith e).length := by
  induction e with
  | var s => simp [AExpr.height, printArith]
  | const n => simp [AExpr.height, printArith]
  | flt f => simp [AExpr.height, printArith]
  | bin op l r ihl ihr =>
    simp only [AExpr.height, printArith, List.length_append, List.length_cons]
    have h1 : (printArith l).length ≤ (wrapIf (needParenL op l) (printArith l)).length := by
      unfold wrapIf; split <;> simp [paren] <;> omega
    have h2 : (printArith r).length ≤ (wrapIf (needParenR op r) (printArith r)).length := by
      unfold wrapIf; split <;> simp [paren] <;> omega
    have : max l.height r.height ≤ l.height + r.height := by omega
    omega


/-! ### the catalog file keeps a rule whose floats serde_json reads back exactly -/

theorem optMapM_id {α} (f : α → Option α) : ∀ (l : List α), (∀ x, x ∈ l → f x = some x) → optMapM f l = some l
  | [], _ => rfl
  | a :: as, h => by
    have h1 := h a (List.mem_cons_self ..)
    have h2 := optMapM_id f as (fun x hx => h x (List.mem_cons_of_mem _ hx))
    simp [optMapM, h1, h2]

theorem FloatLit.afterJson_id {f : FloatLit} (h : f.jsonExact = true) : f.afterJson = some f := by
  unfold FloatLit.jsonExact at h
  unfold FloatLit.afterJson
  cases hj : f.json with
  | none => simp [hj] at h
  | some p =>
    obtain ⟨b, t⟩ := p
    simp only [hj] at h
    simp [h]

theorem AExpr.afterJson_id (e : AExpr) (h : e.allFloats.all FloatLit.jsonExact = true) : e.afterJson = some e := by
  induction e with
  | var s => rfl
  | const n => rfl
  | flt f =>
    simp only [AExpr.allFloats, List.all_cons, List.all_nil, Bool.and_true] at h
    simp [AExpr.afterJson, FloatLit.afterJson_id h]
  | bin op l r ihl ihr =>
    simp only [AExpr.allFloats, List.all_append, Bool.and_eq_true] at h
    simp [AExpr.afterJson, ihl h.1, ihr h.2]

theorem Term0.afterJson_id (t : Term0) (h : t.floats.all FloatLit.jsonExact = true) : t.afterJson = some t := by
  cases t with
  | flt f =>
    simp only [Term0.floats, List.all_cons, List.all_nil, Bool.and_true] at h
    simp [Term0.afterJson, FloatLit.afterJson_id h]
  | arith e => simp [Term0.afterJson, AExpr.afterJson_id e h]
  | _ => rfl

theorem all_flatMap {α β} (p : β → Bool) (f : α → List β) (l : List α) :
    (l.flatMap f).all p = l.all fun x => (f x).all p := by
  induction l with
  | nil => rfl
  | cons a as ih => simp [List.flatMap_cons, List.all_append, ih]

theorem Term.afterJson_id (t : Term) (h : t.floats.all FloatLit.jsonExact = true) : t.afterJson = some t := by
  cases t with
  | base t0 => simp [Term.afterJson, Term0.afterJson_id t0 h]
  | call fn args =>
    simp only [Term.floats, all_flatMap, List.all_eq_true] at h
    have := optMapM_id Term0.afterJson args (fun x hx => Term0.afterJson_id x (List.all_eq_true.mpr (h x hx)))
    simp [Term.afterJson, this]

theorem Atom.afterJson_id (a : Atom) (h : a.floats.all FloatLit.jsonExact = true) : a.afterJson = some a := by
  simp only [Atom.floats, all_flatMap, List.all_eq_true] at h
  have := optMapM_id Term.afterJson a.args (fun x hx => Term.afterJson_id x (List.all_eq_true.mpr (h x hx)))
  simp [Atom.afterJson, this]

theorem BodyLit.afterJson_id (l : BodyLit) (h : l.floats.all FloatLit.jsonExact = true) : l.afterJson = some l := by
  cases l with
  | pos a => simp [BodyLit.afterJson, Atom.afterJson_id a h]
  | neg a => simp [BodyLit.afterJson, Atom.afterJson_id a h]
  | cmp l c r =>
    simp only [BodyLit.floats, List.all_append, Bool.and_eq_true] at h
    simp [BodyLit.afterJson, Term.afterJson_id l h.1, Term.afterJson_id r h.2]

theorem Rule.afterJson_id (r : Rule) (h : r.jsonExact = true) : r.afterJson = some r := by
  unfold Rule.jsonExact Rule.floats at h
  simp only [List.all_append, Bool.and_eq_true, all_flatMap, List.all_eq_true] at h
  have h1 := Atom.afterJson_id r.head (List.all_eq_true.mpr h.1)
  have h2 := optMapM_id BodyLit.afterJson r.body (fun x hx => BodyLit.afterJson_id x (List.all_eq_true.mpr (h.2 x hx)))
  simp [Rule.afterJson, h1, h2]

end ILV.RText
