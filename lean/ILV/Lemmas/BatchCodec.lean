/-
  The batch-file codec (ILV.Model.Batch) is the identity on homogeneous buffers: if every tuple has the
  kind vector `ks` of the first one, `ks` is non-empty and contains only kinds whose arrow column
  reproduces the value (`Int32`, `Int64`, `Float64`, `String`, `Bool`, vectors of a fixed dimension
  `> 0` — not `Null`, not `Timestamp`), then `batchCodec us = .ok us`.
-/
import ILV.Model.Batch
namespace ILV.Batch
open ILV

/-- kinds whose column reproduces its values: all of them. (Kept as a predicate so that a future
    regression shows up as a `false` here.) -/
def safeKind : DType → Bool
  | _ => true

theorem coerceScalar_same (v : Value) (h : safeKind (dataType v) = true)
    (hv : ∀ d, dataType v ≠ .vec d) (hv8 : ∀ d, dataType v ≠ .vec8 d) : coerceScalar (dataType v) v = v := by
  cases v <;> simp_all [dataType, coerceScalar, safeKind]

theorem chunks_flatten {α} (d : Nat) : ∀ (ls : List (List α)), (∀ l ∈ ls, l.length = d) →
    chunks d ls.length ls.flatten = ls := by
  intro ls
  induction ls with
  | nil => intro _; rfl
  | cons l ls ih =>
    intro h
    have hl : l.length = d := h l (by simp)
    simp only [List.length_cons, List.flatten_cons, chunks]
    rw [← hl, List.take_left', List.drop_left']
    · rw [hl, ih (fun x hx => h x (by simp [hx]))]
    · rfl
    · rfl

theorem length_flatten_const {α} (d : Nat) : ∀ (ls : List (List α)), (∀ l ∈ ls, l.length = d) →
    ls.flatten.length = ls.length * d := by
  intro ls
  induction ls with
  | nil => intro _; simp
  | cons l ls ih =>
    intro h
    simp only [List.flatten_cons, List.length_append, List.length_cons, h l (by simp),
      ih (fun x hx => h x (by simp [hx]))]
    rw [Nat.add_mul]; omega

theorem vecColumn_zero (col : List Value) (h : ∀ v ∈ col, dataType v = .vec 0) : vecColumn 0 col = some col := by
  simp only [vecColumn, beq_self_eq_true, if_true]
  congr 1
  conv => rhs; rw [← List.map_id col]
  apply List.map_congr_left
  intro v hv
  have := h v hv
  cases v <;> simp [dataType] at this
  simp [vecCells]

theorem vec8Column_zero (col : List Value) (h : ∀ v ∈ col, dataType v = .vec8 0) : vec8Column 0 col = some col := by
  simp only [vec8Column, beq_self_eq_true, if_true]
  congr 1
  conv => rhs; rw [← List.map_id col]
  apply List.map_congr_left
  intro v hv
  have := h v hv
  cases v <;> simp [dataType] at this
  simp [vec8Cells]

theorem vecColumn_same (d : Nat) (hd : d > 0) (col : List Value) (h : ∀ v ∈ col, dataType v = .vec d) :
    vecColumn d col = some col := by
  have hform : ∀ v ∈ col, ∃ l, v = .vec l ∧ l.length = d := by
    intro v hv
    have := h v hv
    cases v <;> simp [dataType] at this
    exact ⟨_, rfl, this⟩
  let ls := col.map (vecCells d)
  have hls : ∀ l ∈ ls, l.length = d := by
    intro l hl
    simp only [ls, List.mem_map] at hl
    obtain ⟨v, hv, rfl⟩ := hl
    obtain ⟨l', rfl, hl'⟩ := hform v hv
    exact hl'
  have hcol : ls.map Value.vec = col := by
    simp only [ls, List.map_map]
    conv => rhs; rw [← List.map_id col]
    apply List.map_congr_left
    intro v hv
    obtain ⟨l', rfl, _⟩ := hform v hv
    rfl
  have hlen : ls.length = col.length := by simp [ls]
  unfold vecColumn
  simp only
  have hflat : (col.map (vecCells d)).flatten.length = col.length * d := by
    rw [length_flatten_const d ls hls, hlen]
  have hne : (d == 0) = false := by simp; omega
  rw [hflat, hne]
  simp only [Bool.false_eq_true, if_false, Nat.mul_div_cancel _ hd, beq_self_eq_true, if_true]
  congr 1
  have := chunks_flatten d ls hls
  rw [hlen] at this
  show (chunks d col.length ls.flatten).map Value.vec = col
  rw [this, hcol]

theorem vec8Column_same (d : Nat) (hd : d > 0) (col : List Value) (h : ∀ v ∈ col, dataType v = .vec8 d) :
    vec8Column d col = some col := by
  have hform : ∀ v ∈ col, ∃ l, v = .vec8 l ∧ l.length = d := by
    intro v hv
    have := h v hv
    cases v <;> simp [dataType] at this
    exact ⟨_, rfl, this⟩
  let ls := col.map (vec8Cells d)
  have hls : ∀ l ∈ ls, l.length = d := by
    intro l hl
    simp only [ls, List.mem_map] at hl
    obtain ⟨v, hv, rfl⟩ := hl
    obtain ⟨l', rfl, hl'⟩ := hform v hv
    exact hl'
  have hcol : ls.map Value.vec8 = col := by
    simp only [ls, List.map_map]
    conv => rhs; rw [← List.map_id col]
    apply List.map_congr_left
    intro v hv
    obtain ⟨l', rfl, _⟩ := hform v hv
    rfl
  have hlen : ls.length = col.length := by simp [ls]
  unfold vec8Column
  simp only
  have hflat : (col.map (vec8Cells d)).flatten.length = col.length * d := by
    rw [length_flatten_const d ls hls, hlen]
  have hne : (d == 0) = false := by simp; omega
  rw [hflat, hne]
  simp only [Bool.false_eq_true, if_false, Nat.mul_div_cancel _ hd, beq_self_eq_true, if_true]
  congr 1
  have := chunks_flatten d ls hls
  rw [hlen] at this
  show (chunks d col.length ls.flatten).map Value.vec8 = col
  rw [this, hcol]

/-- a column all of whose values have the (safe) type of the column is read back unchanged. -/
theorem column_same (ty : DType) (hs : safeKind ty = true) (col : List Value) (h : ∀ v ∈ col, dataType v = ty) :
    column ty col = some col := by
  cases ty with
  | null =>
    simp only [column]
    congr 1
    conv => rhs; rw [← List.map_id col]
    apply List.map_congr_left
    intro v hv
    have := h v hv
    cases v <;> simp [dataType] at this
    rfl
  | vec d =>
    cases d with
    | zero => exact vecColumn_zero col h
    | succ d => exact vecColumn_same (d + 1) (by omega) col h
  | vec8 d =>
    cases d with
    | zero => exact vec8Column_zero col h
    | succ d => exact vec8Column_same (d + 1) (by omega) col h
  | i32 | i64 | f64 | str | bool | ts =>
    all_goals
      simp only [column]
      congr 1
      conv => rhs; rw [← List.map_id col]
      apply List.map_congr_left
      intro v hv
      have hv' := h v hv
      rw [← hv']
      exact coerceScalar_same v (by rw [hv']; exact hs) (by intro d e; rw [hv'] at e; cases e) (by intro d e; rw [hv'] at e; cases e)

def colsFrom (rows : List Tuple) : Nat → Nat → List (List Value)
  | _, 0 => []
  | i, n + 1 => colAt i rows :: colsFrom rows (i + 1) n

theorem getD_eq_of_drop {α} (d : α) : ∀ (l : List α) (i : Nat) (x : α) (xs : List α), l.drop i = x :: xs → l.getD i d = x := by
  intro l
  induction l with
  | nil => intro i x xs h; simp at h
  | cons a l ih =>
    intro i x xs h
    cases i with
    | zero => simp at h; simp [h.1]
    | succ i => simp at h; simpa using ih i x xs h

theorem drop_succ_of_drop {α} : ∀ (l : List α) (i : Nat) (x : α) (xs : List α), l.drop i = x :: xs → l.drop (i + 1) = xs := by
  intro l
  induction l with
  | nil => intro i x xs h; simp at h
  | cons a l ih =>
    intro i x xs h
    cases i with
    | zero => simp at h; simp [h.2]
    | succ i => simp at h; simpa using ih i x xs h

theorem columnsBack_same : ∀ (tys : List DType) (i : Nat) (rows : List Tuple), tys.all safeKind = true →
    (∀ r ∈ rows, (r.drop i).map dataType = tys) → columnsBack i tys rows = some (colsFrom rows i tys.length) := by
  intro tys
  induction tys with
  | nil => intro i rows _ _; rfl
  | cons ty tys ih =>
    intro i rows hs h
    simp only [List.all_cons, Bool.and_eq_true] at hs
    have hcol : column ty (colAt i rows) = some (colAt i rows) := by
      apply column_same ty hs.1
      intro v hv
      simp only [colAt, List.mem_map] at hv
      obtain ⟨r, hr, rfl⟩ := hv
      have := h r hr
      cases hd : r.drop i with
      | nil => rw [hd] at this; simp at this
      | cons x xs =>
        rw [hd] at this
        simp only [List.map_cons, List.cons.injEq] at this
        rw [getD_eq_of_drop _ r i x xs hd]; exact this.1
    have htail : ∀ r ∈ rows, (r.drop (i + 1)).map dataType = tys := by
      intro r hr
      have := h r hr
      cases hd : r.drop i with
      | nil => rw [hd] at this; simp at this
      | cons x xs =>
        rw [hd] at this
        simp only [List.map_cons, List.cons.injEq] at this
        rw [drop_succ_of_drop r i x xs hd]; exact this.2
    simp only [columnsBack, hcol, ih (i + 1) rows hs.2 htail, List.length_cons, colsFrom]

theorem colsFrom_getD (rows : List Tuple) (j : Nat) (r : Tuple) (hr : rows[j]? = some r) :
    ∀ (n i : Nat), r.length = i + n → (colsFrom rows i n).map (fun c => c.getD j Value.null) = r.drop i := by
  intro n
  induction n with
  | zero => intro i h; simp [colsFrom, List.drop_eq_nil_of_le (Nat.le_of_eq (by omega : r.length = i))]
  | succ n ih =>
    intro i h
    simp only [colsFrom, List.map_cons]
    rw [ih (i + 1) (by omega)]
    have hlt : i < r.length := by omega
    have : (colAt i rows).getD j Value.null = r[i] := by
      simp only [colAt, List.getD_eq_getElem?_getD, List.getElem?_map, hr, Option.map_some, Option.getD_some]
      simp [List.getElem?_eq_getElem hlt]
    rw [this]
    exact (List.drop_eq_getElem_cons hlt).symm

theorem rowsOf_colsFrom (rows : List Tuple) (k : Nat) (hk : ∀ r ∈ rows, r.length = k) :
    ∀ (rest done : List Tuple), rows = done ++ rest → rowsOf rest.length done.length (colsFrom rows 0 k) = rest := by
  intro rest
  induction rest with
  | nil => intro done _; rfl
  | cons r rest ih =>
    intro done hsplit
    simp only [List.length_cons, rowsOf]
    have hr : rows[done.length]? = some r := by rw [hsplit]; simp
    have hmem : r ∈ rows := by rw [hsplit]; simp
    rw [colsFrom_getD rows done.length r hr k 0 (by simp [hk r hmem])]
    simp only [List.drop_zero, List.cons.injEq, true_and]
    have := ih (done ++ [r]) (by rw [hsplit]; simp)
    simpa using this

/-- **a homogeneous batch is read back unchanged.** -/
theorem tuplesBack_homog (ks : List DType) (rows : List Tuple)
    (h : ∀ r ∈ rows, r.map dataType = ks) : tuplesBack rows = .ok rows := by
  have hs : ks.all safeKind = true := by simp [safeKind]
  cases rows with
  | nil => rfl
  | cons first rest =>
    have hf : inferSchema first = ks := h first (by simp)
    have hlen : ∀ r ∈ first :: rest, r.length = ks.length := by
      intro r hr; rw [← h r hr]; simp
    simp only [tuplesBack, hf]
    have hall : (first :: rest).all (fun r => r.length == ks.length) = true := by
      rw [List.all_eq_true]; intro r hr; simp [hlen r hr]
    rw [hall]
    simp only [Bool.not_true, Bool.false_eq_true, if_false]
    rw [columnsBack_same ks 0 (first :: rest) hs (fun r hr => by simpa using h r hr)]
    simp only
    have := rowsOf_colsFrom (first :: rest) ks.length hlen (first :: rest) [] rfl
    simp only [List.length_nil] at this
    rw [this]

theorem rezip_same : ∀ (us : List Update), rezip us (us.map (·.data)) = us := by
  intro us
  induction us with
  | nil => rfl
  | cons u us ih => simp [rezip, ih]

theorem batchCodec_homog (ks : List DType) (us : List Update)
    (h : ∀ u ∈ us, u.data.map dataType = ks) : batchCodec us = .ok us := by
  unfold batchCodec
  rw [tuplesBack_homog ks (us.map (·.data)) (by intro r hr; rw [List.mem_map] at hr; obtain ⟨u, hu, rfl⟩ := hr; exact h u hu)]
  simp [rezip_same]

end ILV.Batch
