/-
  Helper lemmas for the provenance properties (C21–C23): monotonicity of the staged derivability
  relation, list lemmas about loose membership.
-/
import ILV.Model.ProvSpec
namespace ILV.Prov
open ILV

theorem memL_append (t : Tuple) (a b : List Tuple) : memL t (a ++ b) = (memL t a || memL t b) := by
  simp [memL, List.any_append]

theorem SatBody_mono {P Q : String → Tuple → Prop} (W : String → List Tuple) (β : Bindings)
    (h : ∀ r t, P r t → Q r t) : ∀ ls, SatBody P W β ls → SatBody Q W β ls
  | [], _ => trivial
  | .pos a :: ls, hs => by
    obtain ⟨⟨t, hp, hm⟩, hr⟩ := hs
    exact ⟨⟨t, h _ _ hp, hm⟩, SatBody_mono W β h ls hr⟩
  | .neg a :: ls, hs => ⟨hs.1, SatBody_mono W β h ls hs.2⟩
  | .cmp l op r :: ls, hs => ⟨hs.1, SatBody_mono W β h ls hs.2⟩
  | .other :: _, hs => hs.elim

theorem DerivN_succ (prog : Program) (base M : DB) (n : Nat) (rel : String) (t : Tuple)
    (h : DerivN prog base M n rel t) : DerivN prog base M (n + 1) rel t := Or.inl h

theorem DerivN_mono (prog : Program) (base M : DB) {n m : Nat} (hnm : n ≤ m) (rel : String) (t : Tuple)
    (h : DerivN prog base M n rel t) : DerivN prog base M m rel t := by
  induction hnm with
  | refl => exact h
  | step _ ih => exact DerivN_succ _ _ _ _ _ _ ih

theorem SatBody_DerivN_mono (prog : Program) (base M : DB) {n m : Nat} (hnm : n ≤ m) (W : String → List Tuple)
    (β : Bindings) (ls : List Lit) (h : SatBody (DerivN prog base M n) W β ls) :
    SatBody (DerivN prog base M m) W β ls :=
  SatBody_mono W β (fun r t => DerivN_mono prog base M hnm r t) ls h

theorem world_mem (prog : Program) (base M : DB) (hM : MSound prog base M) (rel : String) (t : Tuple)
    (h : memL t (world base M rel) = true) : Derivable prog base M rel t := by
  unfold world at h
  rw [memL_append, Bool.or_eq_true] at h
  rcases h with h | h
  · exact ⟨0, h⟩
  · exact hM rel t h

/-- comparisons checked separately + child-owning literals satisfied ⇒ the whole body is satisfied. -/
theorem SatBody_of_filter (P : String → Tuple → Prop) (W : String → List Tuple) (β : Bindings) :
    ∀ ls : List Lit, cmpsHold β ls = true → SatBody P W β (ls.filter Lit.needsChild) → SatBody P W β ls
  | [], _, _ => trivial
  | .pos a :: ls, hc, hs => by
    simp only [cmpsHold] at hc
    simp only [List.filter, Lit.needsChild] at hs
    exact ⟨hs.1, SatBody_of_filter P W β ls hc hs.2⟩
  | .neg a :: ls, hc, hs => by
    simp only [cmpsHold] at hc
    simp only [List.filter, Lit.needsChild] at hs
    exact ⟨hs.1, SatBody_of_filter P W β ls hc hs.2⟩
  | .cmp l op r :: ls, hc, hs => by
    simp only [cmpsHold, Bool.and_eq_true, beq_iff_eq] at hc
    simp only [List.filter, Lit.needsChild] at hs
    exact ⟨hc.1, SatBody_of_filter P W β ls hc.2 hs⟩
  | .other :: ls, hc, hs => by
    simp only [List.filter, Lit.needsChild] at hs
    exact hs.elim

mutual
/-- checker soundness: a tree without truncated nodes accepted by `valid` concludes a derivable fact. -/
theorem valid_sound_aux (prog : Program) (base M : DB) (hM : MSound prog base M) :
    ∀ t : Tree, valid prog base M t = true → t.hasTrunc = false → Derivable prog base M t.pred t.args
  | .node (.fact .edb) pred args kids, h, _ => by
    simp only [valid, Bool.and_eq_true] at h
    exact ⟨0, h.1⟩
  | .node (.fact .derived) pred args kids, h, _ => by
    simp only [valid, Bool.and_eq_true] at h
    exact world_mem prog base M hM pred args h.1
  | .node (.trunc _) pred args kids, _, ht => by simp [Tree.hasTrunc] at ht
  | .node (.neg _) _ _ _, h, _ => by simp [valid] at h
  | .node (.rule idx β) pred args kids, h, ht => by
    simp only [valid] at h
    split at h
    · simp at h
    · rename_i r hr
      simp only [Bool.and_eq_true, beq_iff_eq] at h
      obtain ⟨⟨⟨hrel, hhead⟩, hcmp⟩, hbody⟩ := h
      simp only [Tree.hasTrunc] at ht
      obtain ⟨n, hn⟩ := validKids_sound_aux prog base M hM β kids (r.body.filter Lit.needsChild) hbody ht
      have hmem : r ∈ prog := List.mem_of_getElem? hr
      exact ⟨n + 1, Or.inr ⟨r, hmem, hrel, β, hhead, SatBody_of_filter _ _ β r.body hcmp hn⟩⟩
theorem validKids_sound_aux (prog : Program) (base M : DB) (hM : MSound prog base M) (β : Bindings) :
    ∀ (ks : List Tree) (ls : List Lit), validKids prog base M β ls ks = true → Tree.hasTruncList ks = false →
      ∃ n, SatBody (DerivN prog base M n) (world base M) β ls
  | [], [], _, _ => ⟨0, trivial⟩
  | [], _ :: _, h, _ => by unfold validKids at h; simp at h
  | k :: ks, [], h, _ => by unfold validKids at h; simp at h
  | k :: ks, .pos a :: ls, h, ht => by
    unfold validKids at h
    simp only [Bool.and_eq_true, beq_iff_eq] at h
    obtain ⟨⟨⟨hp, hm⟩, hv⟩, hrest⟩ := h
    simp only [Tree.hasTruncList, Bool.or_eq_false_iff] at ht
    obtain ⟨n1, h1⟩ := valid_sound_aux prog base M hM k hv ht.1
    obtain ⟨n2, h2⟩ := validKids_sound_aux prog base M hM β ks ls hrest ht.2
    refine ⟨max n1 n2, ⟨k.args, ?_, hm⟩, SatBody_DerivN_mono prog base M (Nat.le_max_right n1 n2) _ β ls h2⟩
    rw [hp] at h1
    exact DerivN_mono prog base M (Nat.le_max_left n1 n2) _ _ h1
  | k :: ks, .neg a :: ls, h, ht => by
    unfold validKids at h
    simp only [Bool.and_eq_true] at h
    obtain ⟨hk, hrest⟩ := h
    simp only [Tree.hasTruncList, Bool.or_eq_false_iff] at ht
    obtain ⟨n2, h2⟩ := validKids_sound_aux prog base M hM β ks ls hrest ht.2
    refine ⟨n2, ?_, h2⟩
    intro t ht'
    split at hk
    · simp only [Bool.and_eq_true, List.all_eq_true, Bool.not_eq_true'] at hk
      exact hk.2 t ht'
    · simp at hk
  | k :: ks, .cmp l op r :: ls, h, _ => by unfold validKids at h; simp at h
  | k :: ks, .other :: ls, h, _ => by unfold validKids at h; simp at h
end

end ILV.Prov
