/-
  C35 helper: the repaired `compare_wire_values` (model `compareWV` / `compareWire`) is a total preorder
  on ALL values, and so is the multi-key closure `rowCmp` on all rows.
  Numeric class (Int64 ∪ Float64): both embed into `Option (Int × Int)` ordered lexicographically with
  `none` (NaN) on top — a double by (key, 0), an integer by (key of its rounding, distance to it).
-/
import ILV.Lemmas.WireRound
import ILV.Lemmas.WireSort
import ILV.Lemmas.Order
namespace ILV

/-! ### total preorders -/

structure TP {α} (P : α → Prop) (c : α → α → Ordering) : Prop where
  swap : ∀ a b, P a → P b → c b a = revOrd (c a b)
  trans : ∀ a b d, P a → P b → P d → c a b ≠ .gt → c b d ≠ .gt → c a d ≠ .gt

theorem revOrd_revOrd (o : Ordering) : revOrd (revOrd o) = o := by cases o <;> rfl

theorem TP.lt_of_lt_of_le {α} {P : α → Prop} {c : α → α → Ordering} (h : TP P c) {a b d : α}
    (pa : P a) (pb : P b) (pd : P d) (h1 : c a b = .lt) (h2 : c b d ≠ .gt) : c a d = .lt := by
  have hle : c a d ≠ .gt := h.trans a b d pa pb pd (by rw [h1]; decide) h2
  cases had : c a d with
  | lt => rfl
  | gt => exact absurd had hle
  | eq =>
    exfalso
    have hda : c d a ≠ .gt := by rw [h.swap a d pa pd, had]; decide
    have hba : c b a ≠ .gt := h.trans b d a pb pd pa h2 hda
    rw [h.swap a b pa pb, h1] at hba
    exact hba rfl

theorem TP.lt_of_le_of_lt {α} {P : α → Prop} {c : α → α → Ordering} (h : TP P c) {a b d : α}
    (pa : P a) (pb : P b) (pd : P d) (h1 : c a b ≠ .gt) (h2 : c b d = .lt) : c a d = .lt := by
  have hle : c a d ≠ .gt := h.trans a b d pa pb pd h1 (by rw [h2]; decide)
  cases had : c a d with
  | lt => rfl
  | gt => exact absurd had hle
  | eq =>
    exfalso
    have hda : c d a ≠ .gt := by rw [h.swap a d pa pd, had]; decide
    have hdb : c d b ≠ .gt := h.trans d a b pd pa pb hda h1
    rw [h.swap b d pb pd, h2] at hdb
    exact hdb rfl

theorem TP.eq_trans {α} {P : α → Prop} {c : α → α → Ordering} (h : TP P c) {a b d : α}
    (pa : P a) (pb : P b) (pd : P d) (h1 : c a b = .eq) (h2 : c b d = .eq) : c a d = .eq := by
  have hle : c a d ≠ .gt := h.trans a b d pa pb pd (by rw [h1]; decide) (by rw [h2]; decide)
  have hba : c b a ≠ .gt := by rw [h.swap a b pa pb, h1]; decide
  have hdb : c d b ≠ .gt := by rw [h.swap b d pb pd, h2]; decide
  have hda : c d a ≠ .gt := h.trans d b a pd pb pa hdb hba
  rw [h.swap a d pa pd] at hda
  cases had : c a d with
  | lt => rw [had] at hda; exact absurd rfl hda
  | eq => rfl
  | gt => exact absurd had hle

theorem TP.rev {α} {P : α → Prop} {c : α → α → Ordering} (h : TP P c) : TP P (fun a b => revOrd (c a b)) where
  swap := by
    intro a b pa pb
    show revOrd (c b a) = revOrd (revOrd (c a b))
    rw [h.swap a b pa pb]
  trans := by
    intro a b d pa pb pd h1 h2
    have e1 : c b a ≠ .gt := by rw [h.swap a b pa pb]; cases hc : c a b <;> simp_all [revOrd]
    have e2 : c d b ≠ .gt := by rw [h.swap b d pb pd]; cases hc : c b d <;> simp_all [revOrd]
    have := h.trans d b a pd pb pa e2 e1
    rw [h.swap a d pa pd] at this
    cases hc : c a d <;> simp_all [revOrd]

theorem TP.comap {α β} {P : α → Prop} {Q : β → Prop} {c : α → α → Ordering} (h : TP P c) (f : β → α)
    (hf : ∀ x, Q x → P (f x)) : TP Q (fun a b => c (f a) (f b)) where
  swap := fun a b qa qb => h.swap _ _ (hf a qa) (hf b qb)
  trans := fun a b d qa qb qd => h.trans _ _ _ (hf a qa) (hf b qb) (hf d qd)

/-- lexicographic combination. -/
theorem TP.lex {α} {P : α → Prop} {c1 c2 : α → α → Ordering} (h1 : TP P c1) (h2 : TP P c2) :
    TP P (fun a b => if c1 a b != .eq then c1 a b else c2 a b) where
  swap := by
    intro a b pa pb
    show (if c1 b a != .eq then c1 b a else c2 b a) = revOrd (if c1 a b != .eq then c1 a b else c2 a b)
    rw [h1.swap a b pa pb]
    cases hc : c1 a b <;> simp [revOrd, h2.swap a b pa pb]
  trans := by
    intro a b d pa pb pd ha hb
    have ha : (if c1 a b != .eq then c1 a b else c2 a b) ≠ .gt := ha
    have hb : (if c1 b d != .eq then c1 b d else c2 b d) ≠ .gt := hb
    show (if c1 a d != .eq then c1 a d else c2 a d) ≠ .gt
    cases hab : c1 a b with
    | gt => simp [hab] at ha
    | lt =>
      have hbd : c1 b d ≠ .gt := by
        intro e; simp [e] at hb
      have := h1.lt_of_lt_of_le pa pb pd hab hbd
      simp [this]
    | eq =>
      cases hbd : c1 b d with
      | gt => simp [hbd] at hb
      | lt =>
        have := h1.lt_of_le_of_lt pa pb pd (by rw [hab]; decide) hbd
        simp [this]
      | eq =>
        have e := h1.eq_trans pa pb pd hab hbd
        simp only [hab, hbd, e, bne_self_eq_false, Bool.false_eq_true, if_false] at ha hb ⊢
        exact h2.trans a b d pa pb pd ha hb

theorem TP.const {α} {P : α → Prop} : TP P (fun (_ _ : α) => Ordering.eq) where
  swap := fun _ _ _ _ => rfl
  trans := fun _ _ _ _ _ _ _ _ => by decide

/-! ### integers, pairs of integers, with a top element -/

theorem icmp_lt {x y : Int} (h : x < y) : compare x y = .lt := Int.compare_eq_lt.2 h
theorem icmp_gt {x y : Int} (h : y < x) : compare x y = .gt := Int.compare_eq_gt.2 h
theorem icmp_eq {x y : Int} (h : x = y) : compare x y = .eq := Int.compare_eq_eq.2 h

def cmpPair (p q : Int × Int) : Ordering :=
  match compare p.1 q.1 with
  | .eq => compare p.2 q.2
  | o => o

theorem cmpPair_cases (p q : Int × Int) :
    (cmpPair p q = .lt ∧ (p.1 < q.1 ∨ (p.1 = q.1 ∧ p.2 < q.2))) ∨
    (cmpPair p q = .eq ∧ p.1 = q.1 ∧ p.2 = q.2) ∨
    (cmpPair p q = .gt ∧ (q.1 < p.1 ∨ (p.1 = q.1 ∧ q.2 < p.2))) := by
  unfold cmpPair
  rcases Int.lt_trichotomy p.1 q.1 with h | h | h
  · left; simp [icmp_lt h, h]
  · rcases Int.lt_trichotomy p.2 q.2 with g | g | g
    · left; simp [icmp_eq h, icmp_lt g, h, g]
    · right; left; simp [icmp_eq h, icmp_eq g, h, g]
    · right; right; simp [icmp_eq h, icmp_gt g, h, g]
  · right; right; simp [icmp_gt h, h]

def cmpNK : Option (Int × Int) → Option (Int × Int) → Ordering
  | none, none => .eq
  | none, some _ => .gt
  | some _, none => .lt
  | some p, some q => cmpPair p q

theorem cmpNK_tp : TP (fun _ => True) cmpNK where
  swap := by
    intro a b _ _
    cases a <;> cases b <;> simp only [cmpNK, revOrd]
    rename_i p q
    rcases cmpPair_cases p q with ⟨e, h⟩ | ⟨e, h⟩ | ⟨e, h⟩ <;>
      rcases cmpPair_cases q p with ⟨e', h'⟩ | ⟨e', h'⟩ | ⟨e', h'⟩ <;> rw [e, e'] <;> first | rfl | (exfalso; omega)
  trans := by
    intro a b d _ _ _ h1 h2
    cases a <;> cases b <;> cases d <;> simp only [cmpNK] at h1 h2 ⊢ <;> try (first | decide | exact absurd rfl h1 | exact absurd rfl h2)
    rename_i p q r
    rcases cmpPair_cases p q with ⟨e, h⟩ | ⟨e, h⟩ | ⟨e, h⟩ <;>
      rcases cmpPair_cases q r with ⟨e', h'⟩ | ⟨e', h'⟩ | ⟨e', h'⟩ <;>
      rcases cmpPair_cases p r with ⟨e'', h''⟩ | ⟨e'', h''⟩ | ⟨e'', h''⟩ <;>
      rw [e''] <;> first | decide | (exfalso; rw [e] at h1; exact h1 rfl) | (exfalso; rw [e'] at h2; exact h2 rfl) | (exfalso; omega)

/-! ### the numeric class -/

/-- magnitude part of `f64ToInt`. -/
def f64MagInt (mag : Nat) : Nat :=
  if mag / 2^52 = 0 then 0
  else if mag / 2^52 ≥ 1075 then (2^52 + mag % 2^52) * 2^(mag / 2^52 - 1075) else (2^52 + mag % 2^52) / 2^(1075 - mag / 2^52)

theorem f64ToInt_eq (b : Nat) :
    f64ToInt b = if (b / 2^63) % 2 == 1 then - (f64MagInt (b % 2^63) : Int) else (f64MagInt (b % 2^63) : Int) := rfl

theorem f64MagInt_zero : f64MagInt 0 = 0 := by simp [f64MagInt]

/-- `b as i128` depends on the double's value only (±0 both give 0). -/
theorem f64ToInt_of_key (x y : Nat) (h : f64Key x = f64Key y) : f64ToInt x = f64ToInt y := by
  rw [f64ToInt_eq, f64ToInt_eq]
  unfold f64Key at h
  generalize x % 2^63 = mx at h ⊢
  generalize y % 2^63 = my at h ⊢
  by_cases sx : ((x / 2^63) % 2 == 1) = true <;> by_cases sy : ((y / 2^63) % 2 == 1) = true <;>
    simp only [sx, sy, if_true, if_false, Bool.false_eq_true] at h ⊢
  · have : mx = my := by omega
    rw [this]
  · have h1 : mx = 0 := by omega
    have h2 : my = 0 := by omega
    rw [h1, h2, f64MagInt_zero]; rfl
  · have h1 : mx = 0 := by omega
    have h2 : my = 0 := by omega
    rw [h1, h2, f64MagInt_zero]; rfl
  · have : mx = my := by omega
    rw [this]

/-- an `i64`. -/
def I64 (a : Int) : Prop := a.natAbs < 2 ^ 64

def nkey : WVal → Option (Int × Int)
  | .i64 a => some (rkey a, a - f64ToInt (i64AsF64 a))
  | .f64 b => if f64IsNaN b then none else some (f64Key b, 0)
  | _ => none

def WVal.numeric : WVal → Bool
  | .i64 _ => true | .f64 _ => true | _ => false

/-- well-formed wire value: integers are `i64`s (what `WireValue::Int64` can hold). -/
def WVal.WF : WVal → Prop
  | .i64 a => I64 a
  | _ => True

theorem int_int_key (a a' : Int) (ha : I64 a) (ha' : I64 a') :
    compare a a' = cmpPair (rkey a, a - f64ToInt (i64AsF64 a)) (rkey a', a' - f64ToInt (i64AsF64 a')) := by
  have key_eq : rkey a = rkey a' → f64ToInt (i64AsF64 a) = f64ToInt (i64AsF64 a') := f64ToInt_of_key _ _
  unfold cmpPair
  simp only
  rcases Int.lt_trichotomy a a' with h | h | h
  · have hm := rkey_mono a a' ha ha' (by omega)
    rcases Int.lt_or_eq_of_le hm with g | g
    · rw [icmp_lt h, icmp_lt g]
    · have := key_eq g
      rw [icmp_lt h, icmp_eq g]; simp only
      exact (icmp_lt (by omega)).symm
  · subst h; rw [icmp_eq rfl, icmp_eq rfl]; simp only; exact (icmp_eq rfl).symm
  · have hm := rkey_mono a' a ha' ha (by omega)
    rcases Int.lt_or_eq_of_le hm with g | g
    · rw [icmp_gt h, icmp_gt g]
    · have := key_eq g.symm
      rw [icmp_gt h, icmp_eq g.symm]; simp only
      exact (icmp_gt (by omega)).symm

theorem int_float_key (a : Int) (b : Nat) :
    cmpI64F64 a b = cmpNK (nkey (.i64 a)) (nkey (.f64 b)) := by
  unfold cmpI64F64 nkey
  by_cases hn : f64IsNaN b = true
  · simp [hn, cmpNK]
  · simp only [hn, Bool.false_eq_true, if_false, cmpNK, cmpPair]
    show (match compare (rkey a) (f64Key b) with | .eq => compare a (f64ToInt b) | o => o) = _
    rcases Int.lt_trichotomy (rkey a) (f64Key b) with g | g | g
    · rw [icmp_lt g]
    · have e : f64ToInt (i64AsF64 a) = f64ToInt b := f64ToInt_of_key _ _ g
      rw [icmp_eq g]; simp only
      rw [e]
      rcases Int.lt_trichotomy a (f64ToInt b) with k | k | k
      · rw [icmp_lt k, icmp_lt (by omega)]
      · rw [icmp_eq k, icmp_eq (by omega)]
      · rw [icmp_gt k, icmp_gt (by omega)]
    · rw [icmp_gt g]

theorem float_float_key (a b : Nat) : cmpF64 a b = cmpNK (nkey (.f64 a)) (nkey (.f64 b)) := by
  unfold cmpF64 nkey
  by_cases ha : f64IsNaN a = true <;> by_cases hb : f64IsNaN b = true <;>
    simp only [ha, hb, Bool.false_eq_true, if_true, if_false, cmpNK]
  have ha' : f64IsNaN a = false := by simpa using ha
  have hb' : f64IsNaN b = false := by simpa using hb
  simp only [ha', hb', cmpPair]
  rcases Int.lt_trichotomy (f64Key a) (f64Key b) with g | g | g
  · rw [icmp_lt g]
  · rw [icmp_eq g]; simp only; exact (icmp_eq rfl).symm
  · rw [icmp_gt g]

/-- on the numeric class the comparator is the order of the keys. -/
theorem num_key (x y : WVal) (hx : x.numeric = true) (hy : y.numeric = true) (wx : x.WF) (wy : y.WF) :
    compareWV x y = cmpNK (nkey x) (nkey y) := by
  cases x <;> simp [WVal.numeric] at hx <;> cases y <;> simp [WVal.numeric] at hy
  · exact int_int_key _ _ wx wy
  · exact int_float_key _ _
  · show revOrd (cmpI64F64 _ _) = _
    rw [int_float_key, ← cmpNK_tp.swap _ _ trivial trivial]
  · exact float_float_key _ _

/-! ### all values -/

/-- order class: Int64 and Float64 share one. -/
def WVal.cls : WVal → Nat
  | .null => 0 | .bool _ => 1 | .i32 _ => 2 | .i64 _ => 3 | .f64 _ => 3 | .str _ => 5 | .ts _ => 6
  | .vec _ => 7 | .vec8 _ => 7 | .bytes _ => 8

theorem cmp_of_cls_lt (a b : WVal) (h : a.cls < b.cls) : compareWV a b = .lt := by
  cases a <;> cases b <;> simp [WVal.cls] at h <;> simp [compareWV, WVal.rank] <;> decide

theorem cmp_of_cls_gt (a b : WVal) (h : b.cls < a.cls) : compareWV a b = .gt := by
  cases a <;> cases b <;> simp [WVal.cls] at h <;> simp [compareWV, WVal.rank] <;> decide

theorem cls_le_of_le (a b : WVal) (h : compareWV a b ≠ .gt) : a.cls ≤ b.cls := by
  by_cases hc : b.cls < a.cls
  · exact absurd (cmp_of_cls_gt a b hc) h
  · omega

theorem swap_rev (o : Ordering) : o.swap = revOrd o := by cases o <;> rfl

theorem numeric_of_cls (a : WVal) (h : a.cls = 3) : a.numeric = true := by
  cases a <;> first | rfl | (simp [WVal.cls] at h)

theorem allTrueN (l : List Nat) : AllP (fun _ : Nat => True) l := fun _ _ => trivial

theorem same_cls_swap (a b : WVal) (wa : a.WF) (wb : b.WF) (h : a.cls = b.cls) :
    compareWV b a = revOrd (compareWV a b) := by
  by_cases hn : a.cls = 3
  · have na : a.numeric = true := numeric_of_cls a hn
    have nb : b.numeric = true := numeric_of_cls b (by rw [← h]; exact hn)
    rw [num_key b a nb na wb wa, num_key a b na nb wa wb, cmpNK_tp.swap _ _ trivial trivial]
  · cases a <;> cases b <;> simp [WVal.cls] at h hn <;> simp only [compareWV, WVal.rank]
    all_goals first
      | rfl
      | (rename_i x y; exact (int_lawful.swap x y trivial trivial).trans (swap_rev _))
      | (rename_i x y; exact (bool_lawful.swap x y trivial trivial).trans (swap_rev _))
      | (rename_i x y; exact ((lex_lawful nat_lawful).swap x y (allTrueN _) (allTrueN _)).trans (swap_rev _))

theorem same_cls_trans (a b c : WVal) (wa : a.WF) (wb : b.WF) (wc : c.WF) (h1 : a.cls = b.cls) (h2 : b.cls = c.cls)
    (l1 : compareWV a b ≠ .gt) (l2 : compareWV b c ≠ .gt) : compareWV a c ≠ .gt := by
  by_cases hn : a.cls = 3
  · have na : a.numeric = true := numeric_of_cls a hn
    have nb : b.numeric = true := numeric_of_cls b (by rw [← h1]; exact hn)
    have nc : c.numeric = true := numeric_of_cls c (by rw [← h2, ← h1]; exact hn)
    rw [num_key a b na nb wa wb] at l1
    rw [num_key b c nb nc wb wc] at l2
    rw [num_key a c na nc wa wc]
    exact cmpNK_tp.trans _ _ _ trivial trivial trivial l1 l2
  · cases a <;> cases b <;> simp [WVal.cls] at h1 hn <;> cases c <;> simp [WVal.cls] at h2 <;>
      simp only [compareWV, WVal.rank] at l1 l2 ⊢
    · decide
    · exact int_lawful.trans _ _ _ trivial trivial trivial l1 l2
    · exact (lex_lawful nat_lawful).trans _ _ _ (allTrueN _) (allTrueN _) (allTrueN _) l1 l2
    · exact bool_lawful.trans _ _ _ trivial trivial trivial l1 l2
    · exact int_lawful.trans _ _ _ trivial trivial trivial l1 l2
    all_goals decide

theorem compareWV_swap (a b : WVal) (wa : a.WF) (wb : b.WF) : compareWV b a = revOrd (compareWV a b) := by
  rcases Nat.lt_trichotomy a.cls b.cls with h | h | h
  · rw [cmp_of_cls_lt a b h, cmp_of_cls_gt b a h]; rfl
  · exact same_cls_swap a b wa wb h
  · rw [cmp_of_cls_gt a b h, cmp_of_cls_lt b a h]; rfl

theorem compareWV_trans (a b c : WVal) (wa : a.WF) (wb : b.WF) (wc : c.WF)
    (l1 : compareWV a b ≠ .gt) (l2 : compareWV b c ≠ .gt) : compareWV a c ≠ .gt := by
  have r1 := cls_le_of_le a b l1
  have r2 := cls_le_of_le b c l2
  by_cases hlt : a.cls < c.cls
  · rw [cmp_of_cls_lt a c hlt]; decide
  · exact same_cls_trans a b c wa wb wc (by omega) (by omega) l1 l2

theorem compareWV_tp : TP WVal.WF compareWV where
  swap := compareWV_swap
  trans := compareWV_trans

/-- absent values sort first. -/
def OptWF (o : Option WVal) : Prop := ∀ v, o = some v → v.WF

theorem compareWire_tp : TP OptWF compareWire where
  swap := by
    intro a b pa pb
    cases a <;> cases b <;> simp only [compareWire, revOrd]
    exact compareWV_swap _ _ (pa _ rfl) (pb _ rfl)
  trans := by
    intro a b d pa pb pd h1 h2
    cases a <;> cases b <;> cases d <;> simp only [compareWire] at h1 h2 ⊢ <;>
      try (first | decide | exact absurd rfl h1 | exact absurd rfl h2)
    exact compareWV_trans _ _ _ (pa _ rfl) (pb _ rfl) (pd _ rfl) h1 h2

/-- a row of well-formed values. -/
def RowWF (r : WRow) : Prop := ∀ v ∈ r, v.WF

theorem rowWF_get (r : WRow) (h : RowWF r) (col : Nat) : OptWF r[col]? := by
  intro v hv
  exact h v (List.mem_of_getElem? hv)

/-- **the `sort_by` closure is a total preorder on all (well-formed) rows**, for every key list. -/
theorem rowCmp_tp (keys : List SortKey) : TP RowWF (rowCmp keys) := by
  induction keys with
  | nil => exact TP.const
  | cons k ks ih =>
    obtain ⟨col, desc⟩ := k
    have hc : TP RowWF (fun (a b : WRow) => compareWire a[col]? b[col]?) :=
      compareWire_tp.comap (fun r => r[col]?) (fun r h => rowWF_get r h col)
    have hd : TP RowWF (fun (a b : WRow) => (if desc then revOrd (compareWire a[col]? b[col]?) else compareWire a[col]? b[col]?)) := by
      cases desc
      · simpa using hc
      · simpa using hc.rev
    have := hd.lex ih
    refine ⟨?_, ?_⟩
    · intro a b pa pb; simpa [rowCmp] using this.swap a b pa pb
    · intro a b d pa pb pd h1 h2
      have := this.trans a b d pa pb pd (by simpa [rowCmp] using h1) (by simpa [rowCmp] using h2)
      simpa [rowCmp] using this

theorem preorderOn_rows (keys : List SortKey) (rows : List WRow) (h : ∀ r ∈ rows, RowWF r) :
    PreorderOn rows (rowCmp keys) where
  swap := fun a ha b hb => (rowCmp_tp keys).swap a b (h a ha) (h b hb)
  trans := fun a ha b hb c hc => (rowCmp_tp keys).trans a b c (h a ha) (h b hb) (h c hc)

end ILV
