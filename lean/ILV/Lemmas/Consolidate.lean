/-
  Lemmas about the update log: per-tuple sums, and the code's consolidation loops
  (`consolidate`, `consolidate_to_current`, `to_tuples`).

  * every consolidation preserves the per-tuple sum of diffs — for *any* list, no order laws needed;
  * relative to C31 (`Tuple.cmp` is a lawful total order on well-formed tuples): after
    `consolidateToCurrent` the data of the entries are pairwise distinct, hence
    `t ∈ toTuples (consolidateToCurrent l) ↔ 0 < sumOf t l`.
-/
import ILV.Model.Store
import ILV.Props.C31
namespace ILV.Store
open ILV ILV.Batch ILV.Props.C31

/-- sum of the diffs recorded for tuple `t`. -/
def sumOf (t : Tuple) : List Update → Int
  | [] => 0
  | u :: us => (if u.data = t then u.diff else 0) + sumOf t us

@[simp] theorem sumOf_nil (t : Tuple) : sumOf t [] = 0 := rfl
@[simp] theorem sumOf_cons (t : Tuple) (u : Update) (us : List Update) :
    sumOf t (u :: us) = (if u.data = t then u.diff else 0) + sumOf t us := rfl

theorem sumOf_append (t : Tuple) (a b : List Update) : sumOf t (a ++ b) = sumOf t a + sumOf t b := by
  induction a with
  | nil => simp
  | cons u us ih => simp [ih]; omega

theorem sumOf_flatten_append (t : Tuple) (bs : List (List Update)) (b : List Update) :
    sumOf t (bs ++ [b]).flatten = sumOf t bs.flatten + sumOf t b := by
  simp [sumOf_append]

theorem sumOf_eq_zero_of_not_mem (t : Tuple) (l : List Update) (h : ∀ u ∈ l, u.data ≠ t) : sumOf t l = 0 := by
  induction l with
  | nil => rfl
  | cons u us ih =>
    have h1 : u.data ≠ t := h u (by simp)
    have h2 := ih (fun v hv => h v (by simp [hv]))
    simp [h1, h2]

/-! ### sorting is a rearrangement -/

theorem sumOf_insertBy (t : Tuple) (le : Update → Update → Bool) (x : Update) (l : List Update) :
    sumOf t (insertBy le x l) = sumOf t (x :: l) := by
  induction l with
  | nil => rfl
  | cons y ys ih =>
    simp only [insertBy]
    split
    · rfl
    · simp only [sumOf_cons] at ih ⊢; rw [ih]; omega

theorem sumOf_sortBy (t : Tuple) (le : Update → Update → Bool) (l : List Update) :
    sumOf t (sortBy le l) = sumOf t l := by
  induction l with
  | nil => rfl
  | cons x xs ih =>
    show sumOf t (insertBy le x (sortBy le xs)) = _
    rw [sumOf_insertBy]; simp [ih]

theorem mem_insertBy {α} (le : α → α → Bool) (x y : α) (l : List α) : y ∈ insertBy le x l ↔ y = x ∨ y ∈ l := by
  induction l with
  | nil => simp [insertBy]
  | cons z zs ih =>
    simp only [insertBy]
    split
    · simp
    · simp [ih]; constructor
      · rintro (h | h | h) <;> simp [h]
      · rintro (h | h | h) <;> simp [h]

theorem mem_sortBy {α} (le : α → α → Bool) (y : α) (l : List α) : y ∈ sortBy le l ↔ y ∈ l := by
  induction l with
  | nil => simp [sortBy]
  | cons x xs ih =>
    show y ∈ insertBy le x (sortBy le xs) ↔ _
    rw [mem_insertBy, ih]; simp

/-! ### the merge loop preserves sums -/

theorem sameKey_data {b : Bool} {a u : Update} (h : sameKey b a u = true) : a.data = u.data := by
  unfold sameKey at h
  simp only [Bool.and_eq_true] at h
  exact (tuple_eq_iff_eq _ _).1 h.1

theorem sumOf_mergeAdj (t : Tuple) (b : Bool) : ∀ (us : List Update) (cur : Update),
    sumOf t (mergeAdj b cur us) = sumOf t (cur :: us) := by
  intro us
  induction us with
  | nil =>
    intro cur
    simp only [mergeAdj]
    split
    · rfl
    · rename_i h
      have : cur.diff = 0 := by simpa using h
      simp [this]
  | cons u us ih =>
    intro cur
    simp only [mergeAdj]
    split
    · rename_i hk
      have hd := sameKey_data hk
      rw [ih]
      simp only [sumOf_cons]
      by_cases ht : cur.data = t
      · have : u.data = t := by rw [← hd]; exact ht
        simp [ht, this]; omega
      · have : u.data ≠ t := by rw [← hd]; exact ht
        simp [ht, this]
    · split
      · simp only [sumOf_cons, ih]
      · rename_i h
        have : cur.diff = 0 := by simpa using h
        rw [ih]; simp [this]

theorem sumOf_consolidate (t : Tuple) (l : List Update) : sumOf t (consolidate l) = sumOf t l := by
  unfold consolidate
  have h := sumOf_sortBy t leDataTime l
  split
  · rename_i e; rw [e] at h; exact h
  · rename_i u us e; rw [sumOf_mergeAdj]; rw [e] at h; exact h

theorem sumOf_consolidateToCurrent (t : Tuple) (l : List Update) :
    sumOf t (consolidateToCurrent l) = sumOf t l := by
  unfold consolidateToCurrent
  have h := sumOf_sortBy t leData l
  split
  · rename_i e; rw [e] at h; exact h
  · rename_i u us e; rw [sumOf_mergeAdj]; rw [e] at h; exact h

/-- entries produced by the merge loop carry data of input entries. -/
theorem mergeAdj_data_mem (b : Bool) : ∀ (us : List Update) (cur x : Update),
    x ∈ mergeAdj b cur us → ∃ y ∈ cur :: us, y.data = x.data := by
  intro us
  induction us with
  | nil =>
    intro cur x hx
    simp only [mergeAdj] at hx
    split at hx
    · simp at hx; exact ⟨cur, by simp, by rw [hx]⟩
    · simp at hx
  | cons u us ih =>
    intro cur x hx
    simp only [mergeAdj] at hx
    split at hx
    · obtain ⟨y, hy, e⟩ := ih _ x hx
      simp only [List.mem_cons] at hy
      rcases hy with hy | hy
      · exact ⟨cur, by simp, by rw [← e, hy]⟩
      · exact ⟨y, by simp [hy], e⟩
    · split at hx
      · simp only [List.mem_cons] at hx
        rcases hx with hx | hx
        · exact ⟨cur, by simp, by rw [hx]⟩
        · obtain ⟨y, hy, e⟩ := ih _ x hx
          exact ⟨y, by simp only [List.mem_cons] at hy ⊢; right; exact hy, e⟩
      · obtain ⟨y, hy, e⟩ := ih _ x hx
        exact ⟨y, by simp only [List.mem_cons] at hy ⊢; right; exact hy, e⟩

theorem consolidate_data_mem (l : List Update) (x : Update) (hx : x ∈ consolidate l) : ∃ y ∈ l, y.data = x.data := by
  unfold consolidate at hx
  split at hx
  · simp at hx
  · rename_i u us e
    obtain ⟨y, hy, e'⟩ := mergeAdj_data_mem _ _ _ _ hx
    rw [← e, mem_sortBy] at hy
    exact ⟨y, hy, e'⟩

/-! ### relative to C31: distinct data after `consolidateToCurrent` -/

/-- well-formed tuple: every `Float64` carries a 64-bit pattern. -/
def TupleWF (t : Tuple) : Prop := AllP Value.WF t

instance : DecidablePred TupleWF := fun t => by unfold TupleWF AllP; infer_instance

theorem tuple_lawful : LawfulOn TupleWF Tuple.cmp := lex_lawful value_lawful

def leD (a b : Update) : Prop := Tuple.cmp a.data b.data ≠ .gt
def ltD (a b : Update) : Prop := Tuple.cmp a.data b.data = .lt

theorem sorted_insertBy (x : Update) (l : List Update) (hx : TupleWF x.data) (hl : ∀ u ∈ l, TupleWF u.data)
    (hs : l.Pairwise leD) : (insertBy leData x l).Pairwise leD := by
  induction l with
  | nil => simp [insertBy]
  | cons y ys ih =>
    have hy : TupleWF y.data := hl y (by simp)
    have hys : ∀ u ∈ ys, TupleWF u.data := fun u hu => hl u (by simp [hu])
    rw [List.pairwise_cons] at hs
    simp only [insertBy]
    split
    · rename_i hle
      have hxy : leD x y := by simpa [leData, leD] using hle
      rw [List.pairwise_cons]
      refine ⟨?_, List.pairwise_cons.2 hs⟩
      intro z hz
      simp only [List.mem_cons] at hz
      rcases hz with hz | hz
      · rw [hz]; exact hxy
      · exact tuple_lawful.trans _ _ _ hx hy (hys z hz) hxy (hs.1 z hz)
    · rename_i hle
      have hyx : leD y x := by
        have hgt : Tuple.cmp x.data y.data = .gt := by
          simp only [leData, bne_iff_ne, ne_eq, Decidable.not_not] at hle; exact hle
        have := tuple_lawful.swap x.data y.data hx hy
        rw [hgt] at this
        simp only [leD, this, Ordering.swap]; decide
      rw [List.pairwise_cons]
      refine ⟨?_, ih hys hs.2⟩
      intro z hz
      rw [mem_insertBy] at hz
      rcases hz with hz | hz
      · rw [hz]; exact hyx
      · exact hs.1 z hz

theorem sorted_sortBy (l : List Update) (hl : ∀ u ∈ l, TupleWF u.data) : (sortBy leData l).Pairwise leD := by
  induction l with
  | nil => simp [sortBy]
  | cons x xs ih =>
    show (insertBy leData x (sortBy leData xs)).Pairwise leD
    apply sorted_insertBy
    · exact hl x (by simp)
    · intro u hu; rw [mem_sortBy] at hu; exact hl u (by simp [hu])
    · exact ih (fun u hu => hl u (by simp [hu]))

/-- on a sorted list the merge loop yields strictly increasing data, all `≥ cur`, all diffs non-zero. -/
theorem mergeAdj_strict : ∀ (us : List Update) (cur : Update),
    (∀ u ∈ cur :: us, TupleWF u.data) → (cur :: us).Pairwise leD →
    (mergeAdj false cur us).Pairwise ltD ∧ (∀ x ∈ mergeAdj false cur us, leD cur x ∧ x.diff ≠ 0 ∧ TupleWF x.data) := by
  intro us
  induction us with
  | nil =>
    intro cur hwf _
    simp only [mergeAdj]
    split
    · rename_i h
      refine ⟨by simp, ?_⟩
      intro x hx; simp at hx; subst hx
      exact ⟨by simp [leD, tuple_lawful.refl _ (hwf x (by simp))], by simpa using h, hwf x (by simp)⟩
    · simp
  | cons u us ih =>
    intro cur hwf hs
    have hcur : TupleWF cur.data := hwf cur (by simp)
    have hu : TupleWF u.data := hwf u (by simp)
    have hus : ∀ v ∈ us, TupleWF v.data := fun v hv => hwf v (by simp [hv])
    rw [List.pairwise_cons] at hs
    have hs2 := hs.2
    rw [List.pairwise_cons] at hs2
    simp only [mergeAdj]
    split
    · rename_i hk
      have hd := sameKey_data hk
      have := ih { cur with diff := cur.diff + u.diff }
        (by intro v hv; simp only [List.mem_cons] at hv; rcases hv with hv | hv
            · rw [hv]; exact hcur
            · exact hus v hv)
        (by rw [List.pairwise_cons]; refine ⟨?_, hs2.2⟩
            intro z hz; exact hs.1 z (by simp [hz]))
      exact this
    · rename_i hk
      have hne : cur.data ≠ u.data := by
        intro e; apply hk; simp [sameKey, (tuple_eq_iff_eq _ _).2 e]
      have hlt : ltD cur u := by
        have hle : leD cur u := hs.1 u (by simp)
        unfold ltD; unfold leD at hle
        cases hc : Tuple.cmp cur.data u.data with
        | lt => rfl
        | eq => exact absurd ((tuple_lawful.eq_iff _ _ hcur hu).1 hc) hne
        | gt => exact absurd hc hle
      have ihu := ih u (by intro v hv; exact hwf v (by simp only [List.mem_cons] at hv ⊢; right; exact hv)) hs.2
      have hall : ∀ x ∈ mergeAdj false u us, ltD cur x := by
        intro x hx
        exact tuple_lawful.lt_of_lt_of_le hcur hu (ihu.2 x hx).2.2 hlt (ihu.2 x hx).1
      split
      · rename_i hnz
        refine ⟨List.pairwise_cons.2 ⟨hall, ihu.1⟩, ?_⟩
        intro x hx
        simp only [List.mem_cons] at hx
        rcases hx with hx | hx
        · subst hx; exact ⟨by simp [leD, tuple_lawful.refl _ hcur], by simpa using hnz, hcur⟩
        · refine ⟨?_, (ihu.2 x hx).2⟩
          have := hall x hx; unfold ltD at this; unfold leD; rw [this]; decide
      · refine ⟨ihu.1, ?_⟩
        intro x hx
        refine ⟨?_, (ihu.2 x hx).2⟩
        have := hall x hx; unfold ltD at this; unfold leD; rw [this]; decide

theorem pairwise_ltD_sum (t : Tuple) : ∀ (l : List Update), l.Pairwise ltD → (∀ u ∈ l, TupleWF u.data) →
    ∀ x ∈ l, x.data = t → sumOf t l = x.diff := by
  intro l
  induction l with
  | nil => intro _ _ x hx; simp at hx
  | cons u us ih =>
    intro hp hwf x hx hxt
    rw [List.pairwise_cons] at hp
    simp only [List.mem_cons] at hx
    rcases hx with hx | hx
    · subst hx
      have : sumOf t us = 0 := by
        apply sumOf_eq_zero_of_not_mem
        intro v hv e
        have hlt := hp.1 v hv
        unfold ltD at hlt
        rw [hxt, e, tuple_lawful.refl _ (by rw [← e]; exact hwf v (by simp [hv]))] at hlt
        cases hlt
      simp [hxt, this]
    · have hne : u.data ≠ t := by
        intro e
        have hlt := hp.1 x hx
        unfold ltD at hlt
        rw [hxt, e, tuple_lawful.refl _ (by rw [← e]; exact hwf u (by simp))] at hlt
        cases hlt
      simp only [sumOf_cons, hne, if_false, Int.zero_add]
      exact ih hp.2 (fun v hv => hwf v (by simp [hv])) x hx hxt

/-- data of a strictly increasing list are pairwise different. -/
theorem pairwise_ltD_nodup : ∀ (l : List Update), l.Pairwise ltD → (∀ u ∈ l, TupleWF u.data) → (l.map (·.data)).Nodup := by
  intro l
  induction l with
  | nil => simp
  | cons u us ih =>
    intro hp hwf
    rw [List.pairwise_cons] at hp
    simp only [List.map_cons, List.nodup_cons]
    refine ⟨?_, ih hp.2 (fun v hv => hwf v (by simp [hv]))⟩
    intro hmem
    rw [List.mem_map] at hmem
    obtain ⟨v, hv, e⟩ := hmem
    have hlt := hp.1 v hv
    unfold ltD at hlt
    rw [e, tuple_lawful.refl _ (hwf u (by simp))] at hlt
    cases hlt

/-- **recovery keeps exactly the tuples with a positive sum** (relative to C31). -/
theorem mem_recover_iff (l : List Update) (hwf : ∀ u ∈ l, TupleWF u.data) (t : Tuple) :
    t ∈ toTuples (consolidateToCurrent l) ↔ 0 < sumOf t l := by
  rw [← sumOf_consolidateToCurrent t l]
  unfold consolidateToCurrent
  split
  · simp [toTuples]
  · rename_i u us e
    have hs := sorted_sortBy l hwf
    rw [e] at hs
    have hw : ∀ v ∈ u :: us, TupleWF v.data := by
      intro v hv; rw [← e, mem_sortBy] at hv; exact hwf v hv
    obtain ⟨hp, hall⟩ := mergeAdj_strict us u hw hs
    constructor
    · intro hm
      simp only [toTuples, List.mem_map, List.mem_filter, decide_eq_true_eq] at hm
      obtain ⟨x, ⟨hx, hpos⟩, hxt⟩ := hm
      rw [pairwise_ltD_sum t _ hp (fun v hv => (hall v hv).2.2) x hx hxt]
      exact hpos
    · intro hpos
      by_cases hex : ∃ x ∈ mergeAdj false u us, x.data = t
      · obtain ⟨x, hx, hxt⟩ := hex
        rw [pairwise_ltD_sum t _ hp (fun v hv => (hall v hv).2.2) x hx hxt] at hpos
        simp only [toTuples, List.mem_map, List.mem_filter, decide_eq_true_eq]
        exact ⟨x, ⟨hx, hpos⟩, hxt⟩
      · have : sumOf t (mergeAdj false u us) = 0 := by
          apply sumOf_eq_zero_of_not_mem
          intro v hv e'; exact hex ⟨v, hv, e'⟩
        omega

theorem recover_nodup (l : List Update) (hwf : ∀ u ∈ l, TupleWF u.data) :
    (toTuples (consolidateToCurrent l)).Nodup := by
  unfold consolidateToCurrent
  split
  · simp [toTuples]
  · rename_i u us e
    have hs := sorted_sortBy l hwf
    rw [e] at hs
    have hw : ∀ v ∈ u :: us, TupleWF v.data := by
      intro v hv; rw [← e, mem_sortBy] at hv; exact hwf v hv
    obtain ⟨hp, hall⟩ := mergeAdj_strict us u hw hs
    have hn := pairwise_ltD_nodup _ hp (fun v hv => (hall v hv).2.2)
    unfold toTuples
    exact List.Nodup.sublist (List.Sublist.map _ List.filter_sublist) hn

end ILV.Store
