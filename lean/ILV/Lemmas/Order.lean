/-
  Generic facts about comparators returning `Ordering`, relativised to a carrier predicate `P`
  (needed because the float cases of `Value.cmp` are lawful only on 64-bit patterns).
-/
import ILV.Model.Value
namespace ILV

/-- `c` is a total order on `P`, consistent with `=`. -/
structure LawfulOn {α} (P : α → Prop) (c : α → α → Ordering) : Prop where
  eq_iff : ∀ x y, P x → P y → (c x y = .eq ↔ x = y)
  swap : ∀ x y, P x → P y → c y x = (c x y).swap
  trans : ∀ x y z, P x → P y → P z → c x y ≠ .gt → c y z ≠ .gt → c x z ≠ .gt

theorem LawfulOn.refl {α} {P : α → Prop} {c} (h : LawfulOn P c) (x : α) (hx : P x) : c x x = .eq :=
  (h.eq_iff x x hx hx).2 rfl

/-- strict part: `x < y ≤ z → x < z`. -/
theorem LawfulOn.lt_of_lt_of_le {α} {P : α → Prop} {c} (h : LawfulOn P c) {x y z : α}
    (hx : P x) (hy : P y) (hz : P z) (h1 : c x y = .lt) (h2 : c y z ≠ .gt) : c x z = .lt := by
  have hle : c x z ≠ .gt := h.trans x y z hx hy hz (by rw [h1]; decide) h2
  cases hxz : c x z with
  | lt => rfl
  | gt => exact absurd hxz hle
  | eq =>
    have : x = z := (h.eq_iff x z hx hz).1 hxz
    subst this
    have := h.swap x y hx hy
    rw [h1] at this
    exact absurd this h2

theorem LawfulOn.lt_of_le_of_lt {α} {P : α → Prop} {c} (h : LawfulOn P c) {x y z : α}
    (hx : P x) (hy : P y) (hz : P z) (h1 : c x y ≠ .gt) (h2 : c y z = .lt) : c x z = .lt := by
  have hle : c x z ≠ .gt := h.trans x y z hx hy hz h1 (by rw [h2]; decide)
  cases hxz : c x z with
  | lt => rfl
  | gt => exact absurd hxz hle
  | eq =>
    have : x = z := (h.eq_iff x z hx hz).1 hxz
    subst this
    have := h.swap y x hy hx
    rw [h2] at this
    simp [Ordering.swap] at this
    exact absurd this h1

theorem int_lawful : LawfulOn (fun _ : Int => True) (fun x y => compare x y) where
  eq_iff := by intro x y _ _; exact Int.compare_eq_eq
  swap := by intro x y _ _; exact (Int.compare_swap x y).symm
  trans := by
    intro x y z _ _ _ h1 h2
    have a : ¬ y < x := fun h => h1 (Int.compare_eq_gt.2 h)
    have b : ¬ z < y := fun h => h2 (Int.compare_eq_gt.2 h)
    intro h; have := Int.compare_eq_gt.1 h; omega

theorem nat_lawful : LawfulOn (fun _ : Nat => True) (fun x y => compare x y) where
  eq_iff := by intro x y _ _; exact Nat.compare_eq_eq
  swap := by intro x y _ _; exact (Nat.compare_swap x y).symm
  trans := by
    intro x y z _ _ _ h1 h2
    have a : ¬ y < x := fun h => h1 (Nat.compare_eq_gt.2 h)
    have b : ¬ z < y := fun h => h2 (Nat.compare_eq_gt.2 h)
    intro h; have := Nat.compare_eq_gt.1 h; omega

theorem bool_lawful : LawfulOn (fun _ : Bool => True) (fun x y => compare x y) where
  eq_iff := by intro x y _ _; cases x <;> cases y <;> decide
  swap := by intro x y _ _; cases x <;> cases y <;> decide
  trans := by intro x y z _ _ _; cases x <;> cases y <;> cases z <;> decide

/-- pulling a lawful order back along an injection. -/
theorem LawfulOn.comap {α β} {P : α → Prop} {Q : β → Prop} {c : α → α → Ordering} (h : LawfulOn P c)
    (f : β → α) (hf : ∀ x, Q x → P (f x)) (inj : ∀ x y, Q x → Q y → f x = f y → x = y) :
    LawfulOn Q (fun x y => c (f x) (f y)) where
  eq_iff := by
    intro x y hx hy
    constructor
    · intro e; exact inj x y hx hy ((h.eq_iff _ _ (hf x hx) (hf y hy)).1 e)
    · intro e; subst e; exact h.refl _ (hf x hx)
  swap := by intro x y hx hy; exact h.swap _ _ (hf x hx) (hf y hy)
  trans := by intro x y z hx hy hz; exact h.trans _ _ _ (hf x hx) (hf y hy) (hf z hz)

/-! ### lexicographic lift -/

def AllP {α} (P : α → Prop) (l : List α) : Prop := ∀ x ∈ l, P x

theorem lexCmp_eq_iff {α} {P : α → Prop} {c} (h : LawfulOn P c) :
    ∀ a b : List α, AllP P a → AllP P b → (lexCmp c a b = .eq ↔ a = b) := by
  intro a
  induction a with
  | nil => intro b _ _; cases b <;> simp [lexCmp]
  | cons x xs ih =>
    intro b ha hb
    cases b with
    | nil => simp [lexCmp]
    | cons y ys =>
      have hx : P x := ha x (by simp)
      have hy : P y := hb y (by simp)
      have hxs : AllP P xs := fun z hz => ha z (by simp [hz])
      have hys : AllP P ys := fun z hz => hb z (by simp [hz])
      simp only [lexCmp]
      cases hc : c x y with
      | eq =>
        have := (h.eq_iff x y hx hy).1 hc
        simp [this, ih ys hxs hys]
      | lt =>
        have hne : x ≠ y := fun e => by rw [(h.eq_iff x y hx hy).2 e] at hc; cases hc
        simp [hne]
      | gt =>
        have hne : x ≠ y := fun e => by rw [(h.eq_iff x y hx hy).2 e] at hc; cases hc
        simp [hne]

theorem lexCmp_swap {α} {P : α → Prop} {c} (h : LawfulOn P c) :
    ∀ a b : List α, AllP P a → AllP P b → lexCmp c b a = (lexCmp c a b).swap := by
  intro a
  induction a with
  | nil => intro b _ _; cases b <;> simp [lexCmp, Ordering.swap]
  | cons x xs ih =>
    intro b ha hb
    cases b with
    | nil => simp [lexCmp, Ordering.swap]
    | cons y ys =>
      have hx : P x := ha x (by simp)
      have hy : P y := hb y (by simp)
      have hxs : AllP P xs := fun z hz => ha z (by simp [hz])
      have hys : AllP P ys := fun z hz => hb z (by simp [hz])
      simp only [lexCmp]
      rw [h.swap x y hx hy]
      cases hc : c x y <;> simp [Ordering.swap, ih ys hxs hys]

theorem lexCmp_trans {α} {P : α → Prop} {c} (h : LawfulOn P c) :
    ∀ a b d : List α, AllP P a → AllP P b → AllP P d →
      lexCmp c a b ≠ .gt → lexCmp c b d ≠ .gt → lexCmp c a d ≠ .gt := by
  intro a
  induction a with
  | nil => intro b d _ _ _ _ _; cases d <;> simp [lexCmp]
  | cons x xs ih =>
    intro b d ha hb hd h1 h2
    cases b with
    | nil => simp [lexCmp] at h1
    | cons y ys =>
      cases d with
      | nil => simp [lexCmp] at h2
      | cons z zs =>
        have hx : P x := ha x (by simp)
        have hy : P y := hb y (by simp)
        have hz : P z := hd z (by simp)
        have hxs : AllP P xs := fun w hw => ha w (by simp [hw])
        have hys : AllP P ys := fun w hw => hb w (by simp [hw])
        have hzs : AllP P zs := fun w hw => hd w (by simp [hw])
        simp only [lexCmp] at h1 h2 ⊢
        cases hxy : c x y with
        | gt => simp [hxy] at h1
        | lt =>
          have hyz : c y z ≠ .gt := by
            intro e; simp [e] at h2
          have := h.lt_of_lt_of_le hx hy hz hxy hyz
          simp [this]
        | eq =>
          have exy : x = y := (h.eq_iff x y hx hy).1 hxy
          subst exy
          simp only [hxy] at h1
          cases hyz : c x z with
          | gt => simp [hyz] at h2
          | lt => simp
          | eq =>
            simp only [hyz] at h2 ⊢
            exact ih ys zs hxs hys hzs h1 h2

theorem lex_lawful {α} {P : α → Prop} {c} (h : LawfulOn P c) : LawfulOn (AllP P) (lexCmp c) where
  eq_iff := lexCmp_eq_iff h
  swap := lexCmp_swap h
  trans := lexCmp_trans h

theorem lenThenLex_lawful {α} {P : α → Prop} {c} (h : LawfulOn P c) : LawfulOn (AllP P) (lenThenLex c) where
  eq_iff := by
    intro a b ha hb
    unfold lenThenLex
    cases hl : compare a.length b.length with
    | eq => simpa using lexCmp_eq_iff h a b ha hb
    | lt =>
      have : a.length ≠ b.length := by
        intro e; rw [e] at hl; simp at hl
      simp; intro e; exact this (by rw [e])
    | gt =>
      have : a.length ≠ b.length := by
        intro e; rw [e] at hl; simp at hl
      simp; intro e; exact this (by rw [e])
  swap := by
    intro a b ha hb
    unfold lenThenLex
    rw [nat_lawful.swap a.length b.length trivial trivial]
    cases hl : compare a.length b.length <;> simp [Ordering.swap, lexCmp_swap h a b ha hb]
  trans := by
    intro a b d ha hb hd h1 h2
    unfold lenThenLex at *
    cases hab : compare a.length b.length with
    | gt => simp [hab] at h1
    | lt =>
      have hbd : compare b.length d.length ≠ .gt := by
        intro e; simp [e] at h2
      have := nat_lawful.lt_of_lt_of_le (x := a.length) (y := b.length) (z := d.length) trivial trivial trivial hab hbd
      simp [this]
    | eq =>
      simp only [hab] at h1
      have eab : a.length = b.length := (nat_lawful.eq_iff _ _ trivial trivial).1 hab
      cases hbd : compare b.length d.length with
      | gt => simp [hbd] at h2
      | lt => rw [eab]; simp [hbd]
      | eq =>
        simp only [hbd] at h2
        rw [eab]; simp only [hbd]
        exact lexCmp_trans h a b d ha hb hd h1 h2

end ILV
