/-
  Lemmas about the repaired authorization pre-pass (`authorizeProgram` / `authorizeLines`, mirror of
  `Handler::authorize_program`): the simulated running KG and KG set track the executor exactly, so
  every statement the executor runs was gated against the KG it runs on.
-/
import ILV.Lemmas.Text
import ILV.Spec.Access
namespace ILV.Props.Auth
open ILV ILV.Text ILV.Handler ILV.Gen.C28 ILV.Spec.Access

/-- the pre-pass state agrees with the executor state -/
def Inv (sim : Sim) (s : QState) : Prop :=
  sim.kg = some s.kg ∧ ∀ n, sim.existing.contains n = hasKg s.w n

theorem hasKg_updKg (w : World) (n : String) (f : Kg → Kg) (m : String) (hf : ∀ k, (f k).name = k.name) :
    hasKg (updKg w n f) m = hasKg w m := by
  unfold hasKg updKg
  simp only [List.any_map]
  congr 1
  funext k
  simp only [Function.comp]
  split <;> simp [hf]

theorem setRel_name (k : Kg) (r : String) (ts : List Tuple) : (setRel k r ts).name = k.name := by
  unfold setRel; split <;> rfl

theorem inv_same (sim : Sim) (s s' : QState) (hk : s'.kg = s.kg) (hw : ∀ n, hasKg s'.w n = hasKg s.w n)
    (hi : Inv sim s) : Inv sim s' :=
  ⟨by rw [hk]; exact hi.1, fun n => by rw [hw n]; exact hi.2 n⟩

theorem contains_filter_ne (l : List String) (n m : String) :
    (l.filter (· != n)).contains m = (l.contains m && m != n) := by
  induction l with
  | nil => simp
  | cons a as ih =>
    by_cases ha : a = n
    · subst ha
      by_cases hm : m = a
      · subst hm; simp [List.filter]
      · have : (a == m) = false := by simpa using fun h => hm h.symm
        simp [List.filter, ih, hm]
    · have hne : (a != n) = true := by simpa using ha
      simp only [List.filter, hne, List.contains_cons, ih]
      by_cases hm : m = a
      · subst hm; simp [ha]
      · have : (m == a) = false := by simpa using hm
        simp [this]

theorem hasKg_filter_ne (w : World) (n m : String) :
    hasKg { w with kgs := w.kgs.filter (·.name != n) } m = (hasKg w m && m != n) := by
  unfold hasKg
  simp only [List.any_filter]
  induction w.kgs with
  | nil => simp
  | cons k ks ih =>
    simp only [List.any_cons, ih]
    by_cases hk : k.name = m
    · subst hk; by_cases hn : k.name = n <;> simp [hn]
    · have : (k.name == m) = false := by simpa using hk
      simp [this]

theorem say_kg (s : QState) (ms : List String) : (s.say ms).kg = s.kg := rfl
theorem say_w (s : QState) (ms : List String) : (s.say ms).w = s.w := rfl

/-- every arm of `applyStmt` moves the executor state the way `simStep` moves the pre-pass state -/
theorem applyStmt_inv (s s' : QState) (text : List Char) (st : Stmt) (sim : Sim)
    (h : applyStmt s text st = .cont s') (hi : Inv sim s) : Inv (simStep sim st) s' := by
  unfold applyStmt at h
  simp only [] at h
  have nameF : ∀ (g : Kg → Kg), (∀ k, (g k).name = k.name) → ∀ n, hasKg (updKg s.w s.kg g) n = hasKg s.w n :=
    fun g hg n => hasKg_updKg s.w s.kg g n hg
  split at h
  -- 1 schemaDecl
  · rename_i hk he
    have hsim : simStep sim st = sim := by simp [simStep, hk, he]
    rw [hsim]; cases h
    exact inv_same sim s _ rfl (nameF _ (by intro k; split <;> rfl)) hi
  -- 2 insert
  · rename_i hk he
    have hsim : simStep sim st = sim := by simp [simStep, hk, he]
    rw [hsim]
    split at h
    · cases h
    · cases h
      exact inv_same sim s _ rfl (nameF _ (by intro k; exact setRel_name _ _ _)) hi
  -- 3 fact
  · rename_i hk he
    have hsim : simStep sim st = sim := by simp [simStep, hk, he]
    rw [hsim]; cases h
    exact inv_same sim s _ rfl (fun _ => rfl) hi
  -- 4 factBad
  · rename_i hk he
    have hsim : simStep sim st = sim := by simp [simStep, hk, he]
    rw [hsim]; cases h
    exact inv_same sim s _ rfl (fun _ => rfl) hi
  -- 5 delete
  · rename_i hk he
    have hsim : simStep sim st = sim := by simp [simStep, hk, he]
    rw [hsim]; cases h
    refine inv_same sim s _ rfl (fun n => ?_) hi
    show hasKg (if _ then _ else _) n = _
    split
    · exact nameF _ (by intro k; exact setRel_name _ _ _) n
    · rfl
  -- 6 persistentRule
  · rename_i hk he
    have hsim : simStep sim st = sim := by simp [simStep, hk, he]
    rw [hsim]; cases h
    exact inv_same sim s _ rfl (nameF _ (by intro k; split <;> rfl)) hi
  -- 7 sessionRule
  · rename_i hk he
    have hsim : simStep sim st = sim := by simp [simStep, hk, he]
    rw [hsim]
    split at h
    · cases h
    · cases h; exact inv_same sim s _ rfl (fun _ => rfl) hi
  -- 8 query
  · rename_i hk
    have hsim : simStep sim st = sim := by simp [simStep, hk]
    rw [hsim]; cases h
    exact inv_same sim s _ rfl (fun _ => rfl) hi
  -- 9 deleteRelationOrRule
  · rename_i hk he
    have hsim : simStep sim st = sim := by simp [simStep, hk, he]
    rw [hsim]
    split at h
    · cases h; exact inv_same sim s _ rfl (nameF _ (by intro k; rfl)) hi
    · cases h; exact inv_same sim s _ rfl (fun _ => rfl) hi
  -- 10 kgShow
  · rename_i hk
    have hsim : simStep sim st = sim := by simp [simStep, hk]
    rw [hsim]; cases h
    exact inv_same sim s _ rfl (fun _ => rfl) hi
  -- 11 kgCreate
  · rename_i n hk he
    simp only [simStep, hk, he]
    have hn := hi.2 n
    split at h
    · rename_i hex
      cases h
      rw [hex] at hn
      simp only [hn, if_true]
      exact inv_same sim s _ rfl (fun _ => rfl) hi
    · rename_i hex
      cases h
      have hex' : hasKg s.w n = false := by simpa using hex
      rw [hex'] at hn
      simp only [hn, Bool.false_eq_true, if_false]
      refine ⟨rfl, fun m => ?_⟩
      have hm := hi.2 m
      show (sim.existing ++ [n]).contains m = hasKg { s.w with kgs := s.w.kgs ++ [⟨n, [], [], []⟩] } m
      unfold hasKg at hm ⊢
      simp only [List.any_append, List.any_cons, List.any_nil, Bool.or_false, ← hm]
      by_cases hnm : n = m
      · subst hnm; simp
      · have h1 : (n == m) = false := by simpa using hnm
        have h2 : ¬ m = n := fun e => hnm e.symm
        simp [h1, h2]
  -- 12 kgUse
  · rename_i n hk he
    simp only [simStep, hk, he]
    have hn := hi.2 n
    split at h
    · rename_i hex
      cases h
      rw [hex] at hn
      simp only [hn, if_true]
      exact ⟨rfl, fun m => hi.2 m⟩
    · rename_i hex
      cases h
      have hex' : hasKg s.w n = false := by simpa using hex
      rw [hex'] at hn
      simp only [hn, Bool.false_eq_true, if_false]
      exact inv_same sim s _ rfl (fun _ => rfl) hi
  -- 13 kgDrop
  · rename_i n hk he
    simp only [simStep, hk, he]
    have hkg : sim.kg = some s.kg := hi.1
    split at h
    · rename_i hcur
      cases h
      have : n = s.kg := by simpa using hcur
      subst this
      simp only [hkg, bne_self_eq_false, Bool.false_and, Bool.false_eq_true, if_false]
      exact inv_same sim s _ rfl (fun _ => rfl) hi
    · rename_i hcur
      have hne : (sim.kg != some n) = true := by
        rw [hkg]; simp only [bne_iff_ne, ne_eq, Option.some.injEq]
        intro e; apply hcur; simp [e]
      split at h
      · rename_i hfail
        cases h
        by_cases hd : n = "default"
        · subst hd
          simp only [bne_self_eq_false, Bool.and_false, Bool.false_eq_true, if_false]
          exact inv_same sim s _ rfl (fun _ => rfl) hi
        · have hd' : (n != "default") = true := by simpa using hd
          have hnk : hasKg s.w n = false := by
            have hd2 : (n == "default") = false := by simpa using hd
            simpa [hd2] using hfail
          simp only [hne, hd', Bool.and_self, if_true]
          refine ⟨hkg, fun m => ?_⟩
          show (sim.existing.filter (· != n)).contains m = hasKg s.w m
          rw [contains_filter_ne, hi.2 m]
          by_cases hm : m = n
          · subst hm; simp [hnk]
          · have : (m != n) = true := by simpa using hm
            simp [this]
      · rename_i hfail
        cases h
        have hd : (n != "default") = true := by
          by_cases hd : n = "default"
          · subst hd; simp at hfail
          · simpa using hd
        simp only [hne, hd, Bool.and_self, if_true]
        refine ⟨hkg, fun m => ?_⟩
        show (sim.existing.filter (· != n)).contains m = hasKg { s.w with kgs := s.w.kgs.filter (·.name != n) } m
        rw [contains_filter_ne, hasKg_filter_ne, hi.2 m]
  -- 14 relDrop
  · rename_i hk he
    have hsim : simStep sim st = sim := by simp [simStep, hk, he]
    rw [hsim]
    split at h
    · cases h; exact inv_same sim s _ rfl (nameF _ (by intro k; rfl)) hi
    · cases h; exact inv_same sim s _ rfl (fun _ => rfl) hi
  -- 15 clearPrefix
  · rename_i hk he
    have hsim : simStep sim st = sim := by simp [simStep, hk, he]
    rw [hsim]
    split at h
    · cases h; exact inv_same sim s _ rfl (fun _ => rfl) hi
    · cases h; exact inv_same sim s _ rfl (nameF _ (by intro k; rfl)) hi
  -- 16 everything else: fixed-message commands
  · rename_i h11 h12 h13 _ _
    have hsim : simStep sim st = sim := by
      unfold simStep
      split
      · rename_i n a b; exact absurd b (h12 n a)
      · rename_i n a b; exact absurd b (h11 n a)
      · rename_i n a b; exact absurd b (h13 n a)
      · rfl
    rw [hsim]
    split at h
    · cases h
    · cases h; exact inv_same sim s _ rfl (fun _ => rfl) hi
    · cases h

end ILV.Props.Auth
