/-
  Lemmas about the probe enumeration of ILV.Model.Lsh (`flipSets`, `applyFlips`, `probesOf`):
  every flip set is a sublist of the index order, the enumeration has no duplicates, set sizes
  are non-decreasing, xor with the set's mask is injective and changes exactly `|set|` bits.
-/
import ILV.Model.Lsh
import Mathlib.Data.List.Nodup
import Mathlib.Data.Nat.Choose.Basic
namespace ILV.Lsh
open List

/-! ### sublists of a duplicate-free list are determined by their members -/

theorem sublist_ext_of_nodup {l : List Nat} (hl : l.Nodup) :
    ∀ {s t : List Nat}, s <+ l → t <+ l → (∀ x, x ∈ s ↔ x ∈ t) → s = t := by
  induction l with
  | nil => intro s t hs ht _; rw [sublist_nil.1 hs, sublist_nil.1 ht]
  | cons a l ih =>
    have ha : a ∉ l := (nodup_cons.1 hl).1
    have hl' : l.Nodup := (nodup_cons.1 hl).2
    intro s t hs ht h
    cases hs with
    | cons _ hs' =>
      cases ht with
      | cons _ ht' => exact ih hl' hs' ht' h
      | cons_cons _ ht' =>
        exact absurd (hs'.subset ((h a).2 (mem_cons_self))) ha
    | cons_cons _ hs' =>
      cases ht with
      | cons _ ht' => exact absurd (ht'.subset ((h a).1 (mem_cons_self))) ha
      | cons_cons _ ht' =>
        rename_i s' t'
        have : s' = t' := by
          apply ih hl' hs' ht'
          intro x
          constructor
          · intro hx
            have := (h x).1 (mem_cons_of_mem _ hx)
            rcases mem_cons.1 this with rfl | h'
            · exact absurd (hs'.subset hx) ha
            · exact h'
          · intro hx
            have := (h x).2 (mem_cons_of_mem _ hx)
            rcases mem_cons.1 this with rfl | h'
            · exact absurd (ht'.subset hx) ha
            · exact h'
        rw [this]

/-! ### structure of `pairs`, `triples`, `flipSets` -/

theorem mem_pairs_sublist {idx s : List Nat} (h : s ∈ pairs idx) : s <+ idx ∧ s.length = 2 := by
  induction idx with
  | nil => simp [pairs] at h
  | cons i rest ih =>
    simp only [pairs, mem_append, mem_map] at h
    rcases h with ⟨j, hj, rfl⟩ | h
    · exact ⟨Sublist.cons_cons _ (singleton_sublist.2 hj), rfl⟩
    · exact ⟨Sublist.cons _ (ih h).1, (ih h).2⟩

theorem mem_triples_sublist {idx s : List Nat} (h : s ∈ triples idx) : s <+ idx ∧ s.length = 3 := by
  induction idx with
  | nil => simp [triples] at h
  | cons i rest ih =>
    simp only [triples, mem_append, mem_map] at h
    rcases h with ⟨p, hp, rfl⟩ | h
    · exact ⟨Sublist.cons_cons _ (mem_pairs_sublist hp).1, by simp [(mem_pairs_sublist hp).2]⟩
    · exact ⟨Sublist.cons _ (ih h).1, (ih h).2⟩

theorem nodup_pairs {idx : List Nat} (h : idx.Nodup) : (pairs idx).Nodup := by
  induction idx with
  | nil => simp [pairs]
  | cons i rest ih =>
    have hi : i ∉ rest := (nodup_cons.1 h).1
    have hr : rest.Nodup := (nodup_cons.1 h).2
    simp only [pairs]
    refine nodup_append.2 ⟨?_, ih hr, ?_⟩
    · exact hr.map (fun a b hab => by simpa using hab)
    · intro a ha b hb hab
      rcases mem_map.1 ha with ⟨j, _, rfl⟩
      subst hab
      exact hi ((mem_pairs_sublist hb).1.subset (mem_cons_self))

theorem nodup_triples {idx : List Nat} (h : idx.Nodup) : (triples idx).Nodup := by
  induction idx with
  | nil => simp [triples]
  | cons i rest ih =>
    have hi : i ∉ rest := (nodup_cons.1 h).1
    have hr : rest.Nodup := (nodup_cons.1 h).2
    simp only [triples]
    refine nodup_append.2 ⟨?_, ih hr, ?_⟩
    · exact (nodup_pairs hr).map (fun a b hab => by simpa using hab)
    · intro a ha b hb hab
      rcases mem_map.1 ha with ⟨p, _, rfl⟩
      subst hab
      exact hi ((mem_triples_sublist hb).1.subset (mem_cons_self))

theorem mem_flipSets_sublist {idx s : List Nat} (h : s ∈ flipSets idx) : s <+ idx ∧ s.length ≤ 3 := by
  simp only [flipSets, mem_append, mem_singleton, mem_map] at h
  rcases h with ((rfl | ⟨i, hi, rfl⟩) | h) | h
  · exact ⟨nil_sublist _, by simp⟩
  · exact ⟨singleton_sublist.2 hi, by simp⟩
  · exact ⟨(mem_pairs_sublist h).1, by simp [(mem_pairs_sublist h).2]⟩
  · exact ⟨(mem_triples_sublist h).1, by simp [(mem_triples_sublist h).2]⟩

theorem nodup_flipSets {idx : List Nat} (h : idx.Nodup) : (flipSets idx).Nodup := by
  simp only [flipSets]
  refine nodup_append.2 ⟨nodup_append.2 ⟨nodup_append.2 ⟨by simp, ?_, ?_⟩, nodup_pairs h, ?_⟩, nodup_triples h, ?_⟩
  · exact h.map (fun a b hab => by simpa using hab)
  · intro a ha b hb hab
    rcases mem_map.1 hb with ⟨i, _, rfl⟩
    simp at ha; subst ha; simp at hab
  · intro a ha b hb hab
    subst hab
    have h2 := (mem_pairs_sublist hb).2
    rcases mem_append.1 ha with ha | ha
    · simp at ha; subst ha; simp at h2
    · rcases mem_map.1 ha with ⟨i, _, rfl⟩; simp at h2
  · intro a ha b hb hab
    subst hab
    have h3 := (mem_triples_sublist hb).2
    rcases mem_append.1 ha with ha | ha
    · rcases mem_append.1 ha with ha | ha
      · simp at ha; subst ha; simp at h3
      · rcases mem_map.1 ha with ⟨i, _, rfl⟩; simp at h3
    · have := (mem_pairs_sublist ha).2; omega

/-- set sizes along the enumeration never decrease. -/
theorem pairwise_length_flipSets (idx : List Nat) :
    (flipSets idx).Pairwise (fun s t => s.length ≤ t.length) := by
  have hconst : ∀ (l : List (List Nat)) (n : Nat), (∀ s ∈ l, s.length = n) →
      l.Pairwise (fun s t => s.length ≤ t.length) := by
    intro l n hl
    exact pairwise_of_forall_mem_list (fun a ha b hb => by rw [hl a ha, hl b hb])
  have h1 : ∀ s ∈ idx.map (fun i => [i]), s.length = 1 := by
    intro s hs; rcases mem_map.1 hs with ⟨i, _, rfl⟩; rfl
  have h2 : ∀ s ∈ pairs idx, s.length = 2 := fun s hs => (mem_pairs_sublist hs).2
  have h3 : ∀ s ∈ triples idx, s.length = 3 := fun s hs => (mem_triples_sublist hs).2
  simp only [flipSets]
  refine pairwise_append.2 ⟨pairwise_append.2 ⟨pairwise_append.2 ⟨by simp, hconst _ 1 h1, ?_⟩, hconst _ 2 h2, ?_⟩, hconst _ 3 h3, ?_⟩
  · intro a ha b hb; simp at ha; subst ha; simp
  · intro a ha b hb
    rw [h2 b hb]
    rcases mem_append.1 ha with ha | ha
    · simp at ha; subst ha; simp
    · rw [h1 a ha]; omega
  · intro a ha b hb
    rw [h3 b hb]
    rcases mem_append.1 ha with ha | ha
    · rcases mem_append.1 ha with ha | ha
      · simp at ha; subst ha; simp
      · rw [h1 a ha]; omega
    · rw [h2 a ha]; omega

theorem length_pairs (idx : List Nat) : (pairs idx).length = idx.length.choose 2 := by
  induction idx with
  | nil => rfl
  | cons i rest ih =>
    simp only [pairs, length_append, length_map, length_cons, ih]
    rw [Nat.choose_succ_succ, Nat.choose_one_right]

theorem length_triples (idx : List Nat) : (triples idx).length = idx.length.choose 3 := by
  induction idx with
  | nil => rfl
  | cons i rest ih =>
    simp only [triples, length_append, length_map, length_cons, ih, length_pairs]
    rw [Nat.choose_succ_succ]

theorem length_flipSets (idx : List Nat) :
    (flipSets idx).length = 1 + idx.length + idx.length.choose 2 + idx.length.choose 3 := by
  simp [flipSets, length_pairs, length_triples]; omega

/-! ### masks -/

theorem applyFlips_eq_xor (b : Nat) (s : List Nat) : applyFlips b s = b ^^^ applyFlips 0 s := by
  unfold applyFlips
  induction s generalizing b with
  | nil => simp
  | cons i t ih =>
    simp only [foldl_cons]
    rw [ih (b ^^^ 1 <<< i), ih (0 ^^^ 1 <<< i), Nat.zero_xor, Nat.xor_assoc]

theorem testBit_foldl_flips (s : List Nat) (hs : s.Nodup) (a i : Nat) :
    (s.foldl (fun acc j => acc ^^^ (1 <<< j)) a).testBit i = (a.testBit i ^^ decide (i ∈ s)) := by
  induction s generalizing a with
  | nil => simp
  | cons j t ih =>
    have hj : j ∉ t := (nodup_cons.1 hs).1
    simp only [foldl_cons]
    rw [ih (nodup_cons.1 hs).2, Nat.testBit_xor, Nat.one_shiftLeft, Nat.testBit_two_pow]
    by_cases hij : j = i
    · subst hij; simp [hj]
    · have : ¬ i = j := fun h => hij h.symm
      simp [hij, this]

theorem testBit_mask {s : List Nat} (hs : s.Nodup) (i : Nat) :
    (applyFlips 0 s).testBit i = decide (i ∈ s) := by
  unfold applyFlips
  rw [testBit_foldl_flips s hs]; simp

/-- xor with the masks of two flip sets of the same duplicate-free index order agrees only for the
    same set. -/
theorem applyFlips_inj {idx : List Nat} (hidx : idx.Nodup) (b : Nat) {s t : List Nat}
    (hs : s ∈ flipSets idx) (ht : t ∈ flipSets idx) (h : applyFlips b s = applyFlips b t) : s = t := by
  have hs' := (mem_flipSets_sublist hs).1
  have ht' := (mem_flipSets_sublist ht).1
  rw [applyFlips_eq_xor b s, applyFlips_eq_xor b t] at h
  have hm : applyFlips 0 s = applyFlips 0 t := by
    have := congrArg (fun x => b ^^^ x) h
    simpa [← Nat.xor_assoc] using this
  apply sublist_ext_of_nodup hidx hs' ht'
  intro x
  have := congrArg (fun m => m.testBit x) hm
  simp only [testBit_mask (hidx.sublist hs'), testBit_mask (hidx.sublist ht')] at this
  simpa using this

theorem popCount64_mask {s : List Nat} (hs : s.Nodup) (hlt : ∀ i ∈ s, i < 64) :
    popCount64 (applyFlips 0 s) = s.length := by
  unfold popCount64
  apply Perm.length_eq
  apply (perm_ext_iff_of_nodup (nodup_range.filter _) hs).2
  intro i
  simp only [mem_filter, mem_range, testBit_mask hs]
  constructor
  · intro h; simpa using h.2
  · intro h; exact ⟨hlt i h, by simpa using h⟩

/-- Hamming distance between the bucket and a probe = size of the flip set. -/
theorem hamming_applyFlips (b : Nat) {s : List Nat} (hs : s.Nodup) (hlt : ∀ i ∈ s, i < 64) :
    hamming b (applyFlips b s) = s.length := by
  unfold hamming
  rw [applyFlips_eq_xor, ← Nat.xor_assoc, Nat.xor_self, Nat.zero_xor]
  exact popCount64_mask hs hlt

/-! ### the sort used by `lsh_probes_ranked` only permutes the indices -/

theorem insertStable_perm {α} (lt : α → α → Bool) (x : Nat × α) (l : List (Nat × α)) :
    insertStable lt x l ~ x :: l := by
  induction l with
  | nil => exact Perm.refl _
  | cons y ys ih =>
    simp only [insertStable]
    split
    · exact ((Perm.cons y ih).trans (Perm.swap x y ys))
    · exact Perm.refl _

theorem foldr_insertStable_perm {α} (lt : α → α → Bool) (l : List (Nat × α)) :
    l.foldr (insertStable lt) [] ~ l := by
  induction l with
  | nil => exact Perm.refl _
  | cons x xs ih => exact (insertStable_perm lt x _).trans (Perm.cons x ih)

theorem sortIdx_perm {α} (lt : α → α → Bool) (d : List α) : sortIdx lt d ~ List.range d.length := by
  unfold sortIdx
  have h := (foldr_insertStable_perm lt ((List.range d.length).zip d)).map (·.1)
  refine h.trans ?_
  have : ((List.range d.length).zip d).map (·.1) = List.range d.length := by
    apply List.map_fst_zip; simp
  rw [this]

end ILV.Lsh
