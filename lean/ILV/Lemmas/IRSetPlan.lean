/-
  `join_output_is_valuation_bag`, IR form: a join tree over set-valued scans has no duplicate rows
  (the join keeps all left columns and the non-key right columns, the key columns being equal, so
  two different pairs of input rows give two different output rows).  Hence the multiplicities an
  `Aggregate` above it sees are all 1: it aggregates over *distinct* body valuations.
-/
import ILV.Lemmas.IRRules
namespace ILV.IR
open ILV

theorem project_pointwise {b b' : Tuple} : ∀ {rk : List Nat}, (∀ k ∈ rk, k < b.length) → (∀ k ∈ rk, k < b'.length) →
    project b rk = project b' rk → ∀ k ∈ rk, b[k]? = b'[k]?
  | [], _, _, _, k, hk => by simp at hk
  | i :: rk, h1, h2, he, k, hk => by
    have hi1 := h1 i (by simp)
    have hi2 := h2 i (by simp)
    rw [project_cons_lt b i rk hi1, project_cons_lt b' i rk hi2] at he
    have hh := List.cons.inj he
    rcases List.mem_cons.1 hk with rfl | hk
    · rw [List.getElem?_eq_getElem hi1, List.getElem?_eq_getElem hi2, hh.1]
    · exact project_pointwise (fun x hx => h1 x (by simp [hx])) (fun x hx => h2 x (by simp [hx])) hh.2 k hk

theorem excludingAux_inj (ex : List Nat) : ∀ (vs vs' : Tuple) (i : Nat), vs.length = vs'.length →
    excludingAux ex i vs = excludingAux ex i vs' → (∀ j, ex.contains (i + j) = true → vs[j]? = vs'[j]?) → vs = vs'
  | [], [], _, _, _, _ => rfl
  | [], _ :: _, _, h, _, _ => by simp at h
  | _ :: _, [], _, h, _, _ => by simp at h
  | v :: vs, v' :: vs', i, hl, he, hk => by
    have hl' : vs.length = vs'.length := by simpa using hl
    have hk' : ∀ j, ex.contains (i + 1 + j) = true → vs[j]? = vs'[j]? := fun j hj => by
      have := hk (j + 1) (by rw [show i + (j + 1) = i + 1 + j by omega]; exact hj)
      simpa using this
    simp only [excludingAux] at he
    by_cases hc : ex.contains i = true
    · simp only [hc, ↓reduceIte] at he
      have h0 := hk 0 (by simpa using hc)
      simp only [List.getElem?_cons_zero, Option.some.injEq] at h0
      rw [h0, excludingAux_inj ex vs vs' (i + 1) hl' he hk']
    · simp only [hc, Bool.false_eq_true, ↓reduceIte] at he
      have hh := List.cons.inj he
      rw [hh.1, excludingAux_inj ex vs vs' (i + 1) hl' hh.2 hk']

theorem joinRow_inj {lk rk : List Nat} {a a' b b' x : Tuple} (hla : a.length = a'.length) (hlb : b.length = b'.length)
    (hrk : ∀ k ∈ rk, k < b.length) (h1 : joinRow lk rk a b = some x) (h2 : joinRow lk rk a' b' = some x) :
    a = a' ∧ b = b' := by
  unfold joinRow at h1 h2
  split at h1
  · rename_i hc
    simp only [hc, ↓reduceIte, Option.some.injEq] at h1 h2
    rw [← h2] at h1
    exact List.append_inj h1 hla
  · rename_i hc
    simp only [hc, Bool.false_eq_true, ↓reduceIte] at h2
    split at h1 <;> split at h2 <;> simp only [Option.some.injEq, reduceCtorEq] at h1 h2
    rename_i hk1 hk2
    rw [← h2] at h1
    have hh := List.append_inj h1 hla
    refine ⟨hh.1, ?_⟩
    have hk1 : project a lk = project b rk := by simpa using hk1
    have hk2 : project a' lk = project b' rk := by simpa using hk2
    have hp : project b rk = project b' rk := by rw [← hk1, ← hk2, hh.1]
    have pw := project_pointwise hrk (fun k hk => by rw [← hlb]; exact hrk k hk) hp
    exact excludingAux_inj rk b b' 0 hlb hh.2 (fun j hj => pw j (by simpa using hj))

theorem nodup_filterMap_of_inj {R : List Tuple} {J : Tuple → Option Tuple} (hR : R.Nodup)
    (hinj : ∀ b ∈ R, ∀ b' ∈ R, ∀ x, J b = some x → J b' = some x → b = b') : (R.filterMap J).Nodup := by
  induction R with
  | nil => simp
  | cons b R ih =>
    have hb := List.nodup_cons.1 hR
    have ih := ih hb.2 (fun c hc c' hc' x h h' => hinj c (by simp [hc]) c' (by simp [hc']) x h h')
    simp only [List.filterMap_cons]
    cases hj : J b with
    | none => exact ih
    | some x =>
      refine List.nodup_cons.2 ⟨?_, ih⟩
      intro hx
      obtain ⟨b', hb', e⟩ := List.mem_filterMap.1 hx
      have := hinj b (by simp) b' (by simp [hb']) x hj e
      subst this
      exact hb.1 hb'

theorem nodup_joinRows {L R : List Tuple} {lk rk : List Nat} {wl wr : Nat} (hL : L.Nodup) (hR : R.Nodup)
    (hLw : ∀ a ∈ L, a.length = wl) (hRw : ∀ b ∈ R, b.length = wr) (hrk : ∀ k ∈ rk, k < wr) :
    (joinRows L R lk rk).Nodup := by
  unfold joinRows
  induction L with
  | nil => simp
  | cons a L ih =>
    have ha := List.nodup_cons.1 hL
    have ih := ih ha.2 (fun x hx => hLw x (by simp [hx]))
    simp only [List.flatMap_cons]
    refine List.nodup_append.2 ⟨?_, ih, ?_⟩
    · apply nodup_filterMap_of_inj hR
      intro b hb b' hb' x h h'
      exact (joinRow_inj rfl (by rw [hRw b hb, hRw b' hb']) (fun k hk => by rw [hRw b hb]; exact hrk k hk) h h').2
    · intro x hx y hy hxy
      subst hxy
      obtain ⟨b, hb, e⟩ := List.mem_filterMap.1 hx
      obtain ⟨a', ha', hy'⟩ := List.mem_flatMap.1 hy
      obtain ⟨b', hb', e'⟩ := List.mem_filterMap.1 hy'
      have := (joinRow_inj (by rw [hLw a (by simp), hLw a' (by simp [ha'])]) (by rw [hRw b hb, hRw b' hb'])
        (fun k hk => by rw [hRw b hb]; exact hrk k hk) e e').1
      subst this
      exact ha.1 ha'

/-- join trees over set-valued scans have duplicate-free rows -/
theorem setPlan_nodup (db : Db) (hdb : DbSet db) : ∀ t, wf db t = true → isSetPlan t = true → (eval db t).Nodup
  | .scan rel s, _, _ => by simpa [eval] using hdb rel
  | .filter i p, h, hs => by
    simp only [isSetPlan] at hs
    simp only [eval]
    exact List.Pairwise.filter _ (setPlan_nodup db hdb i (wf_filter h) hs)
  | .join l r lk rk s, h, hs => by
    simp only [isSetPlan, Bool.and_eq_true] at hs
    have hw := h
    simp only [wf, Bool.and_eq_true] at hw
    simp only [eval]
    exact nodup_joinRows (setPlan_nodup db hdb l (wf_join h).1 hs.1) (setPlan_nodup db hdb r (wf_join h).2 hs.2)
      (rowsOk db l (wf_join h).1) (rowsOk db r (wf_join h).2) (allLt_iff.1 hw.1.1.1.2)
  | .map .., _, hs => by simp [isSetPlan] at hs
  | .distinct .., _, hs => by simp [isSetPlan] at hs
  | .union .., _, hs => by simp [isSetPlan] at hs
  | .aggregate .., _, hs => by simp [isSetPlan] at hs
  | .antijoin .., _, hs => by simp [isSetPlan] at hs
  | .compute .., _, hs => by simp [isSetPlan] at hs
  | .hnsw .., _, hs => by simp [isSetPlan] at hs
  | .flatMap .., _, hs => by simp [isSetPlan] at hs
  | .joinFlatMap .., _, hs => by simp [isSetPlan] at hs

end ILV.IR
