/-
  C14 machinery: the *abstract state* of an engine — live relations, arity metadata, per-tuple sums of
  the update log — is untouched by every maintenance step and evolves under a write as a function of
  the abstract state alone, whatever the configuration (buffer size, WAL limit, durability mode).
-/
import ILV.Lemmas.StoreRun
namespace ILV.Store
open ILV ILV.Batch ILV.Props.C31

structure AbsEq (e1 e2 : Engine) : Prop where
  live : e1.live = e2.live
  arity : e1.arity = e2.arity
  sums : ∀ r t, sumOf t (logOf e1 r) = sumOf t (logOf e2 r)

theorem AbsEq.refl (e : Engine) : AbsEq e e := ⟨rfl, rfl, fun _ _ => rfl⟩
theorem AbsEq.symm {a b : Engine} (h : AbsEq a b) : AbsEq b a := ⟨h.live.symm, h.arity.symm, fun r t => (h.sums r t).symm⟩
theorem AbsEq.trans {a b d : Engine} (h1 : AbsEq a b) (h2 : AbsEq b d) : AbsEq a d :=
  ⟨h1.live.trans h2.live, h1.arity.trans h2.arity, fun r t => (h1.sums r t).trans (h2.sums r t)⟩
theorem AbsEq_of_maint {e e' : Engine} (m : Maint e e') : AbsEq e e' := ⟨m.live.symm, m.arity.symm, fun r t => (m.sums r t).symm⟩

/-- is the insert accepted (non-empty, uniform arity, arity of the relation)? -/
def arityMis (arity : List (String × Nat)) (rel : String) (ar : Nat) : Bool :=
  match aget arity rel with
  | some a => a != ar
  | none => false

theorem arityMismatch_eq (e : Engine) (rel : String) (ar : Nat) : arityMismatch e rel ar = arityMis e.arity rel ar := rfl

def insAcc (arity : List (String × Nat)) (rel : String) (ts : List Tuple) : Bool :=
  match ts with
  | [] => false
  | first :: _ => ts.all (fun t => t.length == first.length) && !arityMis arity rel first.length

def insLive (live : List (String × List Tuple)) (rel : String) (ts : List Tuple) : List (String × List Tuple) :=
  aset live rel (insertLoop ((aget live rel).getD []) 0 0 ts).1

def firstLen (ts : List Tuple) : Nat := (ts.headD []).length

theorem sumOf_mkUpdates_time (t : Tuple) (d : Int) (t1 t2 : Nat) (ts : List Tuple) :
    sumOf t (mkUpdates ts t1 d) = sumOf t (mkUpdates ts t2 d) := by
  induction ts with
  | nil => rfl
  | cons x xs ih => simp only [mkUpdates, List.map_cons, sumOf_cons] at ih ⊢; rw [ih]

/-- `insert_tuples_into` on the abstract state (no persist error can occur under `PInv`). -/
theorem insertCore_char {c : Codec} {G} (hc : CodecOk c G) (e : Engine) (rel : String) (ts : List Tuple)
    (hP : PInv G e) (hg : ∀ t ∈ ts, G rel t) :
    PInv G (insertCore c e rel ts).1 ∧ (insertCore c e rel ts).1.cfg = e.cfg ∧
    (insertCore c e rel ts).1.live = (if insAcc e.arity rel ts then insLive e.live rel ts else e.live) ∧
    (insertCore c e rel ts).1.arity = (if insAcc e.arity rel ts then aset e.arity rel (firstLen ts) else e.arity) ∧
    (∀ r t, sumOf t (logOf (insertCore c e rel ts).1 r) =
      sumOf t (logOf e r) + (if insAcc e.arity rel ts ∧ r = rel then sumOf t (mkUpdates ts 0 1) else 0)) := by
  unfold insertCore
  cases ts with
  | nil => simp [insAcc, hP]
  | cons first rest =>
    simp only
    by_cases h1 : (!(first :: rest).all (fun t => t.length == first.length)) = true
    · have hacc : insAcc e.arity rel (first :: rest) = false := by
        simp only [insAcc]; simp only [Bool.not_eq_true'] at h1; simp [h1]
      simp only [h1, if_true, hacc]
      exact ⟨hP, trivial, by simp, by simp, by simp⟩
    · simp only [h1]
      by_cases h2 : arityMismatch e rel first.length = true
      · have hacc : insAcc e.arity rel (first :: rest) = false := by
          rw [arityMismatch_eq] at h2
          simp only [insAcc, h2, Bool.not_true, Bool.and_false]
        simp only [h2, if_true, hacc]
        exact ⟨hP, by simp, by simp, by simp, by simp⟩
      · have hacc : insAcc e.arity rel (first :: rest) = true := by
          simp only [Bool.not_eq_true, Bool.not_eq_false'] at h1
          simp only [Bool.not_eq_true] at h2
          rw [arityMismatch_eq] at h2
          simp only [insAcc, h1, h2, Bool.not_false, Bool.and_self]
        simp only [h2, hacc]
        have hP0 : PInv G { e with time := e.time + 1 } := PInv_congr hP rfl rfl rfl rfl rfl
        obtain ⟨e1P, e1M, _, e1L⟩ := ensureShard_spec (G := G) { e with time := e.time + 1 } rel hP0
        have hgu : ∀ u ∈ mkUpdates (first :: rest) e.time 1, G rel u.data := by
          intro u hu
          simp only [mkUpdates, List.mem_map] at hu
          obtain ⟨t, ht, rfl⟩ := hu
          exact hg t ht
        obtain ⟨a1, a2, a3, a4, a5, _, a7, _⟩ := append_spec hc (ensureShard { e with time := e.time + 1 } rel) rel
          (mkUpdates (first :: rest) e.time 1) e1P hgu
        have happ : append c (ensureShard { e with time := e.time + 1 } rel) rel (mkUpdates (first :: rest) e.time 1)
            = ((append c (ensureShard { e with time := e.time + 1 } rel) rel (mkUpdates (first :: rest) e.time 1)).1, none) := by
          rw [← a1]
        rw [happ]
        simp only [Bool.false_eq_true, if_false, if_true]
        generalize (append c (ensureShard { e with time := e.time + 1 } rel) rel (mkUpdates (first :: rest) e.time 1)).1 = e2
          at a2 a3 a4 a5 a7
        have hlive2 : e2.live = e.live := by rw [a4, e1M.live]
        have har2 : e2.arity = e.arity := by rw [a5, e1M.arity]
        refine ⟨PInv_congr a2 rfl rfl rfl rfl rfl, by simpa using a3.trans e1M.cfg, ?_, ?_, ?_⟩
        · simp [insLive, hlive2]
        · simp [firstLen, har2]
        · intro r t
          change sumOf t (logOf e2 r) = _
          rw [a7 r]
          by_cases hr : r = rel
          · subst hr
            simp only [if_true, sumOf_append, and_self]
            rw [e1L r, sumOf_mkUpdates_time t 1 e.time 0]; rfl
          · simp only [hr, if_false, and_false]
            rw [e1L r]; simp; rfl

def delLive (live : List (String × List Tuple)) (rel : String) (ts : List Tuple) : List (String × List Tuple) :=
  match ts, aget live rel with
  | [], _ => live
  | _ :: _, none => live
  | _ :: _, some ex => aset live rel (deleteLive ex ts)

def delArity (live : List (String × List Tuple)) (arity : List (String × Nat)) (rel : String) (ts : List Tuple) :
    List (String × Nat) :=
  match ts, aget live rel with
  | [], _ => arity
  | _ :: _, none => arity
  | _ :: _, some ex =>
    if ex.length - (deleteLive ex ts).length > 0 then aset arity rel ((aget arity rel).getD 2) else arity

/-- `delete_tuples_from` on the abstract state. -/
theorem deleteCoreRaw_char {c : Codec} {G} (hc : CodecOk c G) (e : Engine) (rel : String) (ts : List Tuple)
    (hP : PInv G e) (hg : ∀ t ∈ ts, G rel t) :
    PInv G (deleteCoreRaw c e rel ts).1 ∧ (deleteCoreRaw c e rel ts).1.cfg = e.cfg ∧
    (deleteCoreRaw c e rel ts).1.live = delLive e.live rel ts ∧
    (deleteCoreRaw c e rel ts).1.arity = delArity e.live e.arity rel ts ∧
    (∀ r t, sumOf t (logOf (deleteCoreRaw c e rel ts).1 r) =
      sumOf t (logOf e r) + (if r = rel then sumOf t (mkUpdates ts 0 (-1)) else 0)) := by
  unfold deleteCoreRaw
  cases ts with
  | nil => simp [delLive, delArity, hP, mkUpdates]
  | cons first rest =>
    simp only
    have hP0 : PInv G { e with time := e.time + 1 } := PInv_congr hP rfl rfl rfl rfl rfl
    obtain ⟨e1P, e1M, _, e1L⟩ := ensureShard_spec (G := G) { e with time := e.time + 1 } rel hP0
    have hgu : ∀ u ∈ mkUpdates (first :: rest) e.time (-1), G rel u.data := by
      intro u hu
      simp only [mkUpdates, List.mem_map] at hu
      obtain ⟨t, ht, rfl⟩ := hu
      exact hg t ht
    obtain ⟨a1, a2, a3, a4, a5, _, a7, _⟩ := append_spec hc (ensureShard { e with time := e.time + 1 } rel) rel
      (mkUpdates (first :: rest) e.time (-1)) e1P hgu
    have happ : append c (ensureShard { e with time := e.time + 1 } rel) rel (mkUpdates (first :: rest) e.time (-1))
        = ((append c (ensureShard { e with time := e.time + 1 } rel) rel (mkUpdates (first :: rest) e.time (-1))).1, none) := by
      rw [← a1]
    rw [happ]
    simp only
    generalize (append c (ensureShard { e with time := e.time + 1 } rel) rel (mkUpdates (first :: rest) e.time (-1))).1 = e2
      at a2 a3 a4 a5 a7
    have hlive2 : e2.live = e.live := by rw [a4, e1M.live]
    have har2 : e2.arity = e.arity := by rw [a5, e1M.arity]
    have hsum : ∀ (e3 : Engine), e3.shards = e2.shards → ∀ r t, sumOf t (logOf e3 r) =
        sumOf t (logOf e r) + (if r = rel then sumOf t (mkUpdates (first :: rest) 0 (-1)) else 0) := by
      intro e3 h3 r t
      rw [logOf_congr h3, a7 r]
      by_cases hr : r = rel
      · subst hr
        simp only [if_true, sumOf_append]
        rw [e1L r, sumOf_mkUpdates_time t (-1) e.time 0]; rfl
      · simp only [hr, if_false]
        rw [e1L r]; simp; rfl
    have hcfg : e2.cfg = e.cfg := by simpa using a3.trans e1M.cfg
    cases hgl : aget e2.live rel with
    | none =>
      have hgl' : aget e.live rel = none := by rw [← hlive2]; exact hgl
      simp only
      exact ⟨a2, hcfg, by simp [delLive, hgl', hlive2], by simp [delArity, hgl', har2], hsum e2 rfl⟩
    | some ex =>
      have hgl' : aget e.live rel = some ex := by rw [← hlive2]; exact hgl
      simp only
      split
      · rename_i hn
        refine ⟨PInv_congr a2 rfl rfl rfl rfl rfl, hcfg, by simp [delLive, hgl', hlive2], ?_, hsum _ rfl⟩
        simp [delArity, hgl', har2, hn]
      · rename_i hn
        refine ⟨PInv_congr a2 rfl rfl rfl rfl rfl, hcfg, by simp [delLive, hgl', hlive2], ?_, hsum _ rfl⟩
        simp [delArity, hgl', har2, hn]

theorem mem_deletable {arity : List (String × Nat)} {rel : String} {ts : List Tuple} {t : Tuple}
    (h : t ∈ deletable arity rel ts) : t ∈ ts := by
  unfold deletable at h
  cases ha : aget arity rel with
  | none => rw [ha] at h; simp at h
  | some a => rw [ha] at h; exact (List.mem_filter.1 h).1

/-- `delete_tuples_from` (with its arity filter) on the abstract state. -/
theorem deleteCore_char {c : Codec} {G} (hc : CodecOk c G) (e : Engine) (rel : String) (ts : List Tuple)
    (hP : PInv G e) (hg : ∀ t ∈ ts, G rel t) :
    PInv G (deleteCore c e rel ts).1 ∧ (deleteCore c e rel ts).1.cfg = e.cfg ∧
    (deleteCore c e rel ts).1.live = delLive e.live rel (deletable e.arity rel ts) ∧
    (deleteCore c e rel ts).1.arity = delArity e.live e.arity rel (deletable e.arity rel ts) ∧
    (∀ r t, sumOf t (logOf (deleteCore c e rel ts).1 r) =
      sumOf t (logOf e r) + (if r = rel then sumOf t (mkUpdates (deletable e.arity rel ts) 0 (-1)) else 0)) :=
  deleteCoreRaw_char hc e rel _ hP (fun t ht => hg t (mem_deletable ht))

/-- the operations of a C14 history: writes, maintenance, observations (no restart inside). -/
def isWrite : Op → Bool
  | .ins _ _ | .del _ _ => true
  | _ => false

def isRestart : Op → Bool
  | .restart | .shutdown => true
  | _ => false

def opGood (G : String → Tuple → Prop) : Op → Prop
  | .ins r ts => ∀ t ∈ ts, G r t
  | .del r ts => ∀ t ∈ ts, G r t
  | _ => True

/-- a non-write, non-restart step changes nothing of the abstract state. -/
theorem step_maint {c : Codec} {G} (hc : CodecOk c G) (e : Engine) (o : Op) (hP : PInv G e)
    (hw : isWrite o = false) (hr : isRestart o = false) :
    PInv G (step c e o) ∧ AbsEq e (step c e o) ∧ (step c e o).cfg = e.cfg := by
  unfold step
  simp only [hP.notDead, Bool.false_eq_true, if_false]
  cases o with
  | ins r ts => simp [isWrite] at hw
  | del r ts => simp [isWrite] at hw
  | restart => simp [isRestart] at hr
  | shutdown => simp [isRestart] at hr
  | save => obtain ⟨_, a, m, _⟩ := saveAll_spec hc e hP; exact ⟨a, AbsEq_of_maint m, m.cfg⟩
  | savekg => obtain ⟨_, a, m, _⟩ := saveAll_spec hc e hP; exact ⟨a, AbsEq_of_maint m, m.cfg⟩
  | compact => obtain ⟨_, a, m⟩ := compactAll_spec hc e hP; exact ⟨a, AbsEq_of_maint m, m.cfg⟩
  | compactIf n => obtain ⟨_, a, m⟩ := compactIf_spec hc e n hP; exact ⟨a, AbsEq_of_maint m, m.cfg⟩
  | obs => exact ⟨hP, AbsEq.refl e, rfl⟩
  | files => exact ⟨hP, AbsEq.refl e, rfl⟩
  | q => exact ⟨hP, AbsEq.refl e, rfl⟩
  | bad => exact ⟨hP, AbsEq.refl e, rfl⟩

/-- a write acts on the abstract state only: equal abstract states before, equal after — the two
    engines may have different configurations and differently arranged logs. -/
theorem step_write {c : Codec} {G} (hc : CodecOk c G) (e1 e2 : Engine) (o : Op) (h1 : PInv G e1) (h2 : PInv G e2)
    (ha : AbsEq e1 e2) (hw : isWrite o = true) (hg : opGood G o) :
    PInv G (step c e1 o) ∧ PInv G (step c e2 o) ∧ AbsEq (step c e1 o) (step c e2 o) ∧
    (step c e1 o).cfg = e1.cfg ∧ (step c e2 o).cfg = e2.cfg := by
  unfold step
  simp only [h1.notDead, h2.notDead, Bool.false_eq_true, if_false]
  cases o with
  | ins r ts =>
    obtain ⟨p1, c1, l1, r1, s1⟩ := insertCore_char hc e1 r ts h1 hg
    obtain ⟨p2, c2, l2, r2, s2⟩ := insertCore_char hc e2 r ts h2 hg
    refine ⟨p1, p2, ⟨?_, ?_, ?_⟩, c1, c2⟩
    · show (insertCore c e1 r ts).1.live = (insertCore c e2 r ts).1.live
      rw [l1, l2, ha.live, ha.arity]
    · show (insertCore c e1 r ts).1.arity = (insertCore c e2 r ts).1.arity
      rw [r1, r2, ha.arity]
    · intro r' t
      show sumOf t (logOf (insertCore c e1 r ts).1 r') = sumOf t (logOf (insertCore c e2 r ts).1 r')
      rw [s1, s2, ha.sums, ha.arity]
  | del r ts =>
    obtain ⟨p1, c1, l1, r1, s1⟩ := deleteCore_char hc e1 r ts h1 hg
    obtain ⟨p2, c2, l2, r2, s2⟩ := deleteCore_char hc e2 r ts h2 hg
    refine ⟨p1, p2, ⟨?_, ?_, ?_⟩, c1, c2⟩
    · show (deleteCore c e1 r ts).1.live = (deleteCore c e2 r ts).1.live
      rw [l1, l2, ha.live, ha.arity]
    · show (deleteCore c e1 r ts).1.arity = (deleteCore c e2 r ts).1.arity
      rw [r1, r2, ha.live, ha.arity]
    · intro r' t
      show sumOf t (logOf (deleteCore c e1 r ts).1 r') = sumOf t (logOf (deleteCore c e2 r ts).1 r')
      rw [s1, s2, ha.sums, ha.arity]
  | save | savekg | compact | compactIf _ | restart | shutdown | obs | files | q | bad => simp [isWrite] at hw

/-- the write projection of a history. -/
def writesOf (h : List Op) : List Op := h.filter isWrite

/-- a history with maintenance steps anywhere and its write projection, started from engines with equal
    abstract states (possibly different configurations), end in equal abstract states. -/
theorem run_vs_writes {c : Codec} {G} (hc : CodecOk c G) : ∀ (h : List Op) (e1 e2 : Engine),
    PInv G e1 → PInv G e2 → AbsEq e1 e2 → (∀ o ∈ h, isRestart o = false) → (∀ o ∈ h, opGood G o) →
    PInv G (h.foldl (step c) e1) ∧ PInv G ((writesOf h).foldl (step c) e2) ∧
    AbsEq (h.foldl (step c) e1) ((writesOf h).foldl (step c) e2) ∧
    (h.foldl (step c) e1).cfg = e1.cfg := by
  intro h
  induction h with
  | nil => intro e1 e2 h1 h2 ha _ _; exact ⟨h1, h2, ha, rfl⟩
  | cons o os ih =>
    intro e1 e2 h1 h2 ha hr hg
    have hro := hr o (by simp)
    have hgo := hg o (by simp)
    have hr' : ∀ x ∈ os, isRestart x = false := fun x hx => hr x (by simp [hx])
    have hg' : ∀ x ∈ os, opGood G x := fun x hx => hg x (by simp [hx])
    by_cases hw : isWrite o = true
    · obtain ⟨p1, p2, a, c1, _⟩ := step_write hc e1 e2 o h1 h2 ha hw hgo
      have : writesOf (o :: os) = o :: writesOf os := by simp [writesOf, hw]
      rw [this]
      simp only [List.foldl_cons]
      obtain ⟨q1, q2, q3, q4⟩ := ih (step c e1 o) (step c e2 o) p1 p2 a hr' hg'
      exact ⟨q1, q2, q3, q4.trans c1⟩
    · have hw' : isWrite o = false := by simpa using hw
      obtain ⟨p1, a, c1⟩ := step_maint hc e1 o h1 hw' hro
      have : writesOf (o :: os) = writesOf os := by simp [writesOf, hw']
      rw [this]
      simp only [List.foldl_cons]
      obtain ⟨q1, q2, q3, q4⟩ := ih (step c e1 o) e2 p1 h2 (a.symm.trans ha) hr' hg'
      exact ⟨q1, q2, q3, q4.trans c1⟩

/-- what a clean shutdown + reopen serves is a function of the abstract state. -/
theorem shutdown_live {c : Codec} {G} (hc : CodecOk c G) (hwf : ∀ r t, G r t → TupleWF t) (e : Engine) (hP : PInv G e)
    (r : String) (t : Tuple) :
    (restart c (saveAll c e).1).2 = none ∧
    (t ∈ liveOf (restart c (saveAll c e).1).1 r ↔ 0 < sumOf t (logOf e r)) := by
  obtain ⟨_, a, m, hb⟩ := saveAll_spec hc e hP
  obtain ⟨r1, _, _, _, r5⟩ := restart_spec hc (saveAll c e).1 a (hB_of_empty a hb)
  refine ⟨r1, ?_⟩
  rw [r5, mem_recover_iff _ (fun u hu => hwf r _ (a.good r u hu)), m.sums]

end ILV.Store
