/-
  Helper lemmas for C36 (hash index part): the association-list map, `removeFirst`, and the
  refinement invariant between `HIndex` and the multiset machine `specStep`.
  Relative to C31: key equality of the map is `Tuple`'s `==`, which is `=` (Props.C31.tuple_eq_iff_eq).
-/
import ILV.Lemmas.Bloom
import ILV.Props.C31
namespace ILV

theorem teq (a b : Tuple) : Tuple.eq a b = decide (a = b) := by
  by_cases h : a = b
  · simp [h, (Props.C31.tuple_eq_iff_eq b b).2 rfl]
  · have : Tuple.eq a b ≠ true := fun e => h ((Props.C31.tuple_eq_iff_eq a b).1 e)
    simp [h]
    cases hq : Tuple.eq a b with
    | true => exact absurd hq this
    | false => rfl

def TMap.keys (m : TMap) : List Tuple := m.map Prod.fst

/-! ### map operations -/

theorem TMap.get_none_iff (m : TMap) (k : Tuple) : TMap.get m k = none ↔ k ∉ m.keys := by
  induction m with
  | nil => simp [TMap.get, TMap.keys]
  | cons e m ih =>
    obtain ⟨k', v⟩ := e
    rw [show TMap.keys ((k', v) :: m) = k' :: TMap.keys m from rfl]
    by_cases e : k' = k
    · subst e; simp [TMap.get, teq]
    · have e' : ¬ k = k' := fun h => e h.symm
      simp only [TMap.get, teq, e, decide_false, Bool.false_eq_true, if_false, List.mem_cons, e', false_or]
      exact ih

theorem TMap.get_push_same (m : TMap) (k t : Tuple) :
    TMap.get (TMap.push m k t).1 k = some ((TMap.get m k).getD [] ++ [t]) := by
  induction m with
  | nil => simp [TMap.push, TMap.get, teq]
  | cons e m ih =>
    obtain ⟨k', v⟩ := e
    simp only [TMap.push, teq]
    by_cases e : k' = k
    · simp [e, TMap.get, teq]
    · simp [e, TMap.get, teq, ih]

theorem TMap.get_push_other (m : TMap) (k k2 t : Tuple) (hne : k2 ≠ k) :
    TMap.get (TMap.push m k t).1 k2 = TMap.get m k2 := by
  induction m with
  | nil => simp [TMap.push, TMap.get, teq, hne.symm]
  | cons e m ih =>
    obtain ⟨k', v⟩ := e
    simp only [TMap.push, teq]
    by_cases e : k' = k
    · subst e; simp [TMap.get, teq, hne.symm]
    · by_cases e2 : k' = k2
      · subst e2; simp [e, TMap.get, teq]
      · simp [e, e2, TMap.get, teq, ih]

theorem TMap.push_snd (m : TMap) (k t : Tuple) :
    (TMap.push m k t).2 = ((TMap.get m k).getD []).length + 1 := by
  induction m with
  | nil => simp [TMap.push, TMap.get]
  | cons e m ih =>
    obtain ⟨k', v⟩ := e
    simp only [TMap.push, teq]
    by_cases e : k' = k
    · simp [e, TMap.get, teq]
    · simp [e, TMap.get, teq, ih]

theorem TMap.keys_push (m : TMap) (k t : Tuple) :
    (TMap.push m k t).1.keys = if k ∈ m.keys then m.keys else m.keys ++ [k] := by
  induction m with
  | nil => simp [TMap.push, TMap.keys]
  | cons e m ih =>
    obtain ⟨k', v⟩ := e
    simp only [TMap.push, teq]
    by_cases e : k' = k
    · simp [e, TMap.keys]
    · have e' : ¬ k = k' := fun h => e h.symm
      simp only [TMap.keys, List.map_cons, List.mem_cons, e, e', decide_false, false_or] at ih ⊢
      simp only [Bool.false_eq_true, if_false, List.map_cons]
      rw [ih]
      split <;> simp_all

theorem TMap.get_setKey_same (m : TMap) (k : Tuple) (nv : List Tuple) (h : k ∈ m.keys) :
    TMap.get (TMap.setKey m k nv) k = some nv := by
  induction m with
  | nil => simp [TMap.keys] at h
  | cons e m ih =>
    obtain ⟨k', v⟩ := e
    simp only [TMap.setKey, teq]
    by_cases e : k' = k
    · simp [e, TMap.get, teq]
    · have : k ∈ TMap.keys m := by
        simp only [TMap.keys, List.map_cons, List.mem_cons] at h ⊢
        rcases h with h | h
        · exact absurd h.symm e
        · exact h
      simp [e, TMap.get, teq, ih this]

theorem TMap.get_setKey_other (m : TMap) (k k2 : Tuple) (nv : List Tuple) (hne : k2 ≠ k) :
    TMap.get (TMap.setKey m k nv) k2 = TMap.get m k2 := by
  induction m with
  | nil => simp [TMap.setKey, TMap.get]
  | cons e m ih =>
    obtain ⟨k', v⟩ := e
    simp only [TMap.setKey, teq]
    by_cases e : k' = k
    · subst e; simp [TMap.get, teq, hne.symm]
    · by_cases e2 : k' = k2
      · subst e2; simp [e, TMap.get, teq]
      · simp [e, e2, TMap.get, teq, ih]

theorem TMap.keys_setKey (m : TMap) (k : Tuple) (nv : List Tuple) : (TMap.setKey m k nv).keys = m.keys := by
  induction m with
  | nil => rfl
  | cons e m ih =>
    obtain ⟨k', v⟩ := e
    simp only [TMap.setKey, teq]
    by_cases e : k' = k
    · simp [e, TMap.keys]
    · simp only [TMap.keys, List.map_cons] at ih ⊢
      simp [e, ih]

theorem TMap.keys_removeKey (m : TMap) (k : Tuple) : (TMap.removeKey m k).keys = m.keys.erase k := by
  induction m with
  | nil => rfl
  | cons e m ih =>
    obtain ⟨k', v⟩ := e
    simp only [TMap.removeKey, teq]
    by_cases e : k' = k
    · simp [e, TMap.keys]
    · simp only [TMap.keys, List.map_cons] at ih ⊢
      simp [e, ih]

theorem TMap.get_removeKey_other (m : TMap) (k k2 : Tuple) (hne : k2 ≠ k) :
    TMap.get (TMap.removeKey m k) k2 = TMap.get m k2 := by
  induction m with
  | nil => rfl
  | cons e m ih =>
    obtain ⟨k', v⟩ := e
    simp only [TMap.removeKey, teq]
    by_cases e : k' = k
    · subst e; simp [TMap.get, teq, hne.symm]
    · by_cases e2 : k' = k2
      · subst e2; simp [e, TMap.get, teq]
      · simp [e, e2, TMap.get, teq, ih]

theorem TMap.get_removeKey_same (m : TMap) (k : Tuple) (nd : m.keys.Nodup) :
    TMap.get (TMap.removeKey m k) k = none := by
  rw [TMap.get_none_iff, TMap.keys_removeKey]
  intro h
  exact (List.Nodup.mem_erase_iff nd).1 h |>.1 rfl

theorem TMap.length_keys (m : TMap) : m.keys.length = m.length := by simp [TMap.keys]

/-! ### `removeFirst` -/

theorem removeFirst_none_iff (t : Tuple) (l : List Tuple) : removeFirst t l = none ↔ t ∉ l := by
  induction l with
  | nil => simp [removeFirst]
  | cons x xs ih =>
    simp only [removeFirst, teq]
    by_cases e : x = t
    · simp [e]
    · have e' : ¬ t = x := fun h => e h.symm
      simp [e, e', ih]

theorem removeFirst_length (t : Tuple) : ∀ (l l' : List Tuple), removeFirst t l = some l' → l'.length + 1 = l.length := by
  intro l
  induction l with
  | nil => intro l' h; simp [removeFirst] at h
  | cons x xs ih =>
    intro l' h
    simp only [removeFirst, teq] at h
    by_cases e : x = t
    · simp [e] at h; subst h; rfl
    · simp only [e, decide_false, Bool.false_eq_true, if_false] at h
      cases hr : removeFirst t xs with
      | none => simp [hr] at h
      | some ys =>
        simp [hr] at h; subst h
        simp [ih ys hr]

/-- removing one occurrence of `t` commutes with a filter that keeps `t`. -/
theorem removeFirst_filter_keep (p : Tuple → Bool) (t : Tuple) (hp : p t = true) :
    ∀ (l l' : List Tuple), removeFirst t l = some l' → removeFirst t (l.filter p) = some (l'.filter p) := by
  intro l
  induction l with
  | nil => intro l' h; simp [removeFirst] at h
  | cons x xs ih =>
    intro l' h
    simp only [removeFirst, teq] at h
    by_cases e : x = t
    · simp [e] at h; subst h; subst e
      simp [hp, removeFirst, teq]
    · simp only [e, decide_false, Bool.false_eq_true, if_false] at h
      cases hr : removeFirst t xs with
      | none => simp [hr] at h
      | some ys =>
        simp [hr] at h; subst h
        have := ih ys hr
        by_cases hx : p x = true
        · simp [hx, removeFirst, teq, e, this]
        · simp [hx, this]

/-- … and is invisible to a filter that drops `t`. -/
theorem removeFirst_filter_drop (p : Tuple → Bool) (t : Tuple) (hp : p t = false) :
    ∀ (l l' : List Tuple), removeFirst t l = some l' → l'.filter p = l.filter p := by
  intro l
  induction l with
  | nil => intro l' h; simp [removeFirst] at h
  | cons x xs ih =>
    intro l' h
    simp only [removeFirst, teq] at h
    by_cases e : x = t
    · simp [e] at h; subst h; subst e
      simp [hp]
    · simp only [e, decide_false, Bool.false_eq_true, if_false] at h
      cases hr : removeFirst t xs with
      | none => simp [hr] at h
      | some ys =>
        simp [hr] at h; subst h
        simp [List.filter_cons, ih ys hr]

/-! ### the refinement invariant -/

/-- what ties the concrete map + bloom to the abstract stored multiset `st`. -/
structure MapInv (h : Tuple → Nat × Nat) (cols : List Nat) (m : TMap) (b : Bloom) (st : List Tuple) : Prop where
  nodup : m.keys.Nodup
  lookup : ∀ k, (TMap.get m k).getD [] = specLookup cols st k
  nonempty : ∀ k v, TMap.get m k = some v → v ≠ []
  bloomWF : b.WF
  covers : ∀ k v, TMap.get m k = some v → b.mightContain (h k).1 (h k).2 = true

theorem specLookup_append (cols : List Nat) (st : List Tuple) (t k : Tuple) :
    specLookup cols (st ++ [t]) k = specLookup cols st k ++ (if projectT cols t = k then [t] else []) := by
  simp only [specLookup, List.filter_append, teq]
  by_cases e : projectT cols t = k <;> simp [e]

theorem MapInv.empty (h : Tuple → Nat × Nat) (cols : List Nat) (b : Bloom) (w : b.WF) : MapInv h cols [] b [] where
  nodup := by simp [TMap.keys]
  lookup := by intro k; simp [TMap.get, specLookup]
  nonempty := by intro k v e; simp [TMap.get] at e
  bloomWF := w
  covers := by intro k v e; simp [TMap.get] at e

theorem MapInv.get_eq {h cols m b st} (inv : MapInv h cols m b st) (k : Tuple) :
    TMap.get m k = optRows (specLookup cols st k) := by
  have hl := inv.lookup k
  cases hg : TMap.get m k with
  | none => simp [hg] at hl; simp [optRows, ← hl]
  | some v =>
    have hne := inv.nonempty k v hg
    simp [hg] at hl
    rw [← hl]
    cases v with
    | nil => exact absurd rfl hne
    | cons x xs => simp [optRows]

/-- one `bloom.insert(key); entry(key).or_default().push(t)` step. -/
theorem MapInv.push {h cols m b st} (inv : MapInv h cols m b st) (t : Tuple) :
    MapInv h cols (TMap.push m (projectT cols t) t).1
      (b.insert (h (projectT cols t)).1 (h (projectT cols t)).2) (st ++ [t]) where
  nodup := by
    rw [TMap.keys_push]
    split
    · exact inv.nodup
    · rename_i hn
      exact List.nodup_append.2 ⟨inv.nodup, by simp, by
        intro a ha c hc
        simp at hc; subst hc
        intro e; subst e; exact hn ha⟩
  lookup := by
    intro k
    rw [specLookup_append]
    by_cases e : projectT cols t = k
    · subst e
      rw [TMap.get_push_same]; simp [inv.lookup]
    · have e' : k ≠ projectT cols t := fun h => e h.symm
      rw [TMap.get_push_other _ _ _ _ e']; simp [e, inv.lookup]
  nonempty := by
    intro k v hg
    by_cases e : projectT cols t = k
    · subst e
      rw [TMap.get_push_same] at hg
      simp at hg; subst hg; simp
    · have e' : k ≠ projectT cols t := fun h => e h.symm
      rw [TMap.get_push_other _ _ _ _ e'] at hg
      exact inv.nonempty k v hg
  bloomWF := inv.bloomWF.insert _ _
  covers := by
    intro k v hg
    by_cases e : projectT cols t = k
    · subst e
      exact mightContain_insert_self inv.bloomWF _ _
    · have e' : k ≠ projectT cols t := fun h => e h.symm
      rw [TMap.get_push_other _ _ _ _ e'] at hg
      exact mightContain_insert_mono _ _ _ _ _ (inv.covers k v hg)

/-- full invariant including the counters. -/
structure IxInv (h : Tuple → Nat × Nat) (ix : HIndex) (st : List Tuple) : Prop where
  map : MapInv h ix.cols ix.index ix.bloom st
  ntuples : ix.numTuples = st.length
  nkeys : ix.numKeys = ix.index.length

theorem IxInv.new (h : Tuple → Nat × Nat) (cols : List Nat) (b : Bloom) (w : b.WF) : IxInv h (HIndex.new cols b) [] where
  map := MapInv.empty h cols b w
  ntuples := rfl
  nkeys := rfl

theorem push_length (m : TMap) (k t : Tuple) :
    (TMap.push m k t).1.length = if (TMap.get m k).isNone then m.length + 1 else m.length := by
  rw [← TMap.length_keys, TMap.keys_push]
  by_cases hk : k ∈ m.keys
  · have : TMap.get m k ≠ none := fun e => (TMap.get_none_iff m k).1 e hk
    cases hg : TMap.get m k with
    | none => exact absurd hg this
    | some v => simp [hk, TMap.length_keys]
  · have := (TMap.get_none_iff m k).2 hk
    simp [hk, this, TMap.length_keys]

theorem IxInv.insert {h ix st} (inv : IxInv h ix st) (t : Tuple) : IxInv h (ix.insert h t) (st ++ [t]) := by
  have mp := inv.map.push t
  refine ⟨?_, ?_, ?_⟩
  · simpa [HIndex.insert] using mp
  · simp [HIndex.insert, inv.ntuples]
  · simp only [HIndex.insert]
    rw [push_length]
    cases hg : TMap.get ix.index (projectT ix.cols t) with
    | none => simp [inv.nkeys]
    | some v =>
      have hne := inv.map.nonempty _ v hg
      cases v with
      | nil => exact absurd rfl hne
      | cons x xs => simp [inv.nkeys]

theorem buildLoop_inv (h : Tuple → Nat × Nat) (cols : List Nat) :
    ∀ (ts : List Tuple) (m : TMap) (b : Bloom) (mx tot : Nat) (st : List Tuple),
      MapInv h cols m b st → tot = st.length →
      let r := HIndex.buildLoop h cols ts (m, b, mx, tot)
      MapInv h cols r.1 r.2.1 (st ++ ts) ∧ r.2.2.2 = (st ++ ts).length := by
  intro ts
  induction ts with
  | nil => intro m b mx tot st inv ht; simp [HIndex.buildLoop, inv, ht]
  | cons t ts ih =>
    intro m b mx tot st inv ht
    simp only [HIndex.buildLoop]
    have := ih (TMap.push m (projectT cols t) t).1 (b.insert (h (projectT cols t)).1 (h (projectT cols t)).2)
      (max mx (TMap.push m (projectT cols t) t).2) (tot + 1) (st ++ [t]) (inv.push t) (by simp [ht])
    simpa using this

theorem IxInv.build {h ix st} (inv : IxInv h ix st) (ts : List Tuple) : IxInv h (ix.build h ts) ts := by
  have := buildLoop_inv h ix.cols ts [] ix.bloom.clear 0 0 [] (MapInv.empty h ix.cols _ inv.map.bloomWF.clear) rfl
  simp only [List.nil_append] at this
  refine ⟨?_, ?_, ?_⟩
  · simpa [HIndex.build] using this.1
  · simpa [HIndex.build] using this.2
  · simp [HIndex.build]

theorem mem_specLookup {cols st t} (ht : t ∈ st) : t ∈ specLookup cols st (projectT cols t) := by
  simp [specLookup, teq, ht]

theorem IxInv.remove {h ix st} (inv : IxInv h ix st) (t : Tuple) :
    (removeFirst t st = none ∧ ix.remove t = (ix, false)) ∨
    (∃ st', removeFirst t st = some st' ∧ (ix.remove t).2 = true ∧ IxInv h (ix.remove t).1 st') := by
  have hget := inv.map.get_eq (projectT ix.cols t)
  cases hrf : removeFirst t st with
  | none =>
    left
    refine ⟨rfl, ?_⟩
    have hnm : t ∉ st := (removeFirst_none_iff t st).1 hrf
    cases hg : TMap.get ix.index (projectT ix.cols t) with
    | none => simp only [HIndex.remove, hg]
    | some ts =>
      have hl := inv.map.lookup (projectT ix.cols t)
      simp [hg] at hl
      have : removeFirst t ts = none := by
        rw [removeFirst_none_iff, hl]
        intro hm; exact hnm (List.mem_filter.1 hm).1
      simp only [HIndex.remove, hg, this]
  | some st' =>
    right
    refine ⟨st', rfl, ?_⟩
    have hmem : t ∈ st := by
      by_cases hm : t ∈ st
      · exact hm
      · rw [(removeFirst_none_iff t st).2 hm] at hrf; cases hrf
    have hrf' := removeFirst_filter_keep (fun u => Tuple.eq (projectT ix.cols u) (projectT ix.cols t)) t
      (by simp [teq]) st st' hrf
    have hl := inv.map.lookup (projectT ix.cols t)
    have hlen := removeFirst_length t st st' hrf
    cases hg : TMap.get ix.index (projectT ix.cols t) with
    | none =>
      exfalso
      simp [hg] at hl
      have := mem_specLookup (cols := ix.cols) hmem
      rw [hl] at this; cases this
    | some ts =>
      simp [hg] at hl
      have hts : removeFirst t ts = some (specLookup ix.cols st' (projectT ix.cols t)) := by
        rw [hl]; exact hrf'
      have hkey : projectT ix.cols t ∈ TMap.keys ix.index := by
        by_cases hk : projectT ix.cols t ∈ TMap.keys ix.index
        · exact hk
        · rw [(TMap.get_none_iff _ _).2 hk] at hg; cases hg
      have hother : ∀ k, k ≠ projectT ix.cols t → specLookup ix.cols st' k = specLookup ix.cols st k := by
        intro k hk
        apply removeFirst_filter_drop _ t _ st st' hrf
        simp [teq]; exact fun e => hk e.symm
      have hpos : 0 < ix.index.length := by
        rw [← TMap.length_keys]; exact List.length_pos_of_mem hkey
      simp only [HIndex.remove, hg, hts]
      by_cases hemp : (specLookup ix.cols st' (projectT ix.cols t)).isEmpty = true
      · simp only [hemp, if_true]
        refine ⟨trivial, ⟨?_, ?_, ?_, ?_, ?_⟩, ?_, ?_⟩
        · simp only; rw [TMap.keys_removeKey]; exact inv.map.nodup.erase _
        · intro k
          by_cases e : k = projectT ix.cols t
          · subst e
            simp only
            rw [TMap.get_removeKey_same _ _ inv.map.nodup]
            have : specLookup ix.cols st' (projectT ix.cols t) = [] := by simpa using hemp
            simp [this]
          · simp only
            rw [TMap.get_removeKey_other _ _ _ e, hother k e]; exact inv.map.lookup k
        · intro k v hgk
          by_cases e : k = projectT ix.cols t
          · subst e
            simp only at hgk
            rw [TMap.get_removeKey_same _ _ inv.map.nodup] at hgk; cases hgk
          · simp only at hgk
            rw [TMap.get_removeKey_other _ _ _ e] at hgk; exact inv.map.nonempty k v hgk
        · exact inv.map.bloomWF
        · intro k v hgk
          by_cases e : k = projectT ix.cols t
          · subst e
            simp only at hgk
            rw [TMap.get_removeKey_same _ _ inv.map.nodup] at hgk; cases hgk
          · simp only at hgk
            rw [TMap.get_removeKey_other _ _ _ e] at hgk; exact inv.map.covers k v hgk
        · simp only; rw [inv.ntuples]; omega
        · simp only
          rw [← TMap.length_keys, TMap.keys_removeKey, List.length_erase_of_mem hkey, TMap.length_keys, inv.nkeys]
      · simp only [hemp, Bool.false_eq_true, if_false]
        refine ⟨trivial, ⟨?_, ?_, ?_, ?_, ?_⟩, ?_, ?_⟩
        · simp only; rw [TMap.keys_setKey]; exact inv.map.nodup
        · intro k
          by_cases e : k = projectT ix.cols t
          · subst e
            simp only
            rw [TMap.get_setKey_same _ _ _ hkey]; rfl
          · simp only
            rw [TMap.get_setKey_other _ _ _ _ e, hother k e]; exact inv.map.lookup k
        · intro k v hgk
          by_cases e : k = projectT ix.cols t
          · subst e
            simp only at hgk
            rw [TMap.get_setKey_same _ _ _ hkey] at hgk
            injection hgk with hgk; subst hgk
            intro hnil; rw [hnil] at hemp; exact hemp rfl
          · simp only at hgk
            rw [TMap.get_setKey_other _ _ _ _ e] at hgk; exact inv.map.nonempty k v hgk
        · exact inv.map.bloomWF
        · intro k v hgk
          by_cases e : k = projectT ix.cols t
          · subst e
            exact inv.map.covers _ ts hg
          · simp only at hgk
            rw [TMap.get_setKey_other _ _ _ _ e] at hgk; exact inv.map.covers k v hgk
        · simp only; rw [inv.ntuples]; omega
        · simp only
          rw [← TMap.length_keys, TMap.keys_setKey, TMap.length_keys, inv.nkeys]

theorem HIndex.remove_cols (ix : HIndex) (t : Tuple) : (ix.remove t).1.cols = ix.cols := by
  simp only [HIndex.remove]
  split
  · rfl
  · split
    · rfl
    · split <;> rfl

/-- in every state satisfying the invariant the bloom pre-check is invisible. -/
theorem IxInv.getWithBloom_eq {h ix st} (inv : IxInv h ix st) (k : Tuple) :
    ix.getWithBloom h k = ix.get k := by
  unfold HIndex.getWithBloom HIndex.mightContainKey HIndex.get
  cases hg : TMap.get ix.index k with
  | none => simp
  | some v => simp [inv.map.covers k v hg]

/-- an output of the model is what the Spec allows: equal, except that `might_contain_key` may also
    answer `true` where the Spec's lower bound is `false` (false positives are permitted). -/
def outOk : IxOp → IxOut → IxOut → Prop
  | .mc _, m, s => s = .bool true → m = .bool true
  | _, m, s => m = s

def outsOk : List IxOp → List IxOut → List IxOut → Prop
  | [], [], [] => True
  | op :: ops, m :: ms, s :: ss => outOk op m s ∧ outsOk ops ms ss
  | _, _, _ => False

theorem step_refines (h : Tuple → Nat × Nat) (ix : HIndex) (st : List Tuple) (inv : IxInv h ix st) (op : IxOp) :
    outOk op (ix.step h op).2 (specStep ix.cols st op).2 ∧
    IxInv h (ix.step h op).1 (specStep ix.cols st op).1 ∧ (ix.step h op).1.cols = ix.cols := by
  cases op with
  | ins t => exact ⟨rfl, inv.insert t, rfl⟩
  | rem t =>
    have hcols := HIndex.remove_cols ix t
    rcases inv.remove t with ⟨hs, hm⟩ | ⟨st', hs, hb, hinv⟩
    · refine ⟨?_, ?_, ?_⟩
      · simp [HIndex.step, specStep, hs, hm, outOk]
      · simpa [HIndex.step, specStep, hs, hm] using inv
      · simp [HIndex.step, hm]
    · refine ⟨?_, ?_, ?_⟩
      · simp [HIndex.step, specStep, hs, outOk, hb]
      · simpa [HIndex.step, specStep, hs] using hinv
      · simpa [HIndex.step] using hcols
  | build ts => exact ⟨rfl, inv.build ts, rfl⟩
  | get k =>
    refine ⟨?_, inv, rfl⟩
    simp only [HIndex.step, specStep, outOk, HIndex.get, inv.map.get_eq k]
  | getB k =>
    refine ⟨?_, inv, rfl⟩
    simp only [HIndex.step, specStep, outOk, inv.getWithBloom_eq k, HIndex.get, inv.map.get_eq k]
  | mc k =>
    refine ⟨?_, inv, rfl⟩
    simp only [HIndex.step, specStep, outOk]
    intro hs
    have hne : (specLookup ix.cols st k).isEmpty = false := by simpa using hs
    have hg := inv.map.get_eq k
    simp only [optRows, hne, Bool.false_eq_true, if_false] at hg
    simp [HIndex.mightContainKey, inv.map.covers k _ hg]
  | probe k =>
    refine ⟨?_, inv, rfl⟩
    simp only [HIndex.step, specStep, outOk, HIndex.probe, inv.getWithBloom_eq k, HIndex.get, inv.map.get_eq k]
    unfold optRows
    cases hq : specLookup ix.cols st k <;> simp
  | len => exact ⟨by simp [HIndex.step, specStep, outOk, inv.ntuples], inv, rfl⟩

theorem run_refines (h : Tuple → Nat × Nat) (ops : List IxOp) :
    ∀ (ix : HIndex) (st : List Tuple), IxInv h ix st →
      outsOk ops (HIndex.run h ix ops).2 (specRun ix.cols st ops) ∧
      ∃ st', IxInv h (HIndex.run h ix ops).1 st' := by
  induction ops with
  | nil => intro ix st inv; exact ⟨trivial, st, inv⟩
  | cons op ops ih =>
    intro ix st inv
    obtain ⟨ho, hinv, hc⟩ := step_refines h ix st inv op
    obtain ⟨hos, hex⟩ := ih _ _ hinv
    simp only [HIndex.run, specRun]
    rw [hc] at hos
    exact ⟨⟨ho, hos⟩, hex⟩

end ILV
