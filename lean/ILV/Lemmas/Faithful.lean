/-
  A larger decidable fragment on which the engine's clause evaluation coincides with the Spec's:
  rules whose comparison literals are pure *filters* over variables bound by positive atoms
  (no assignment, no arithmetic on both sides), with negation, constants, wildcards, repeated
  variables. (After the push-down and wildcard repairs the only clause-level deviation left in the
  model is the equality dropped by the builder's pass 2, which needs an assignment.)
-/
import ILV.Lemmas.Engine
import ILV.Lemmas.Spec
namespace ILV.Engine
open ILV ILV.DL

def notBinBin (c : Cmp) : Bool :=
  match c.2.1, c.2.2 with
  | .bin .., .bin .. => false
  | _, _ => true

/-- no aggregate; every comparison literal only mentions variables of positive atoms and has at most
    one arithmetic side. -/
def filterRule (r : Rule) : Bool :=
  !r.hasAgg && r.cmps.all (fun c => (Cmp.vars c).all r.posVars.contains && notBinBin c)

theorem filter_eq_self_of_all {α} (p : α → Bool) : ∀ (l : List α), (∀ x, x ∈ l → p x = true) → l.filter p = l
  | [], _ => rfl
  | x :: xs, h => by
    simp only [List.filter, h x (List.mem_cons_self ..)]
    rw [filter_eq_self_of_all p xs (fun y hy => h y (List.mem_cons_of_mem _ hy))]

theorem pass1_filters (pre : List String) : ∀ (cs : List Cmp), (∀ c, c ∈ cs → (Cmp.vars c).all pre.contains = true) →
    pass1 cs pre = some []
  | [], _ => rfl
  | c :: cs, h => by
    have hc := h c (List.mem_cons_self ..)
    have ih := pass1_filters pre cs (fun x hx => h x (List.mem_cons_of_mem _ hx))
    obtain ⟨op, l, r⟩ := c
    simp only [Cmp.vars, List.all_append, Bool.and_eq_true, List.all_eq_true] at hc
    unfold pass1
    have hskip : pass1Of pre (op, l, r) = .skip := by
      cases op <;> cases l <;> cases r <;> simp_all [pass1Of, Expr.vars]
    rw [hskip]
    exact ih

theorem skipped_false (pre : List String) (c : Cmp) (hc : (Cmp.vars c).all pre.contains = true) : skippedInPass2 pre c = false := by
  obtain ⟨op, l, r⟩ := c
  simp only [Cmp.vars, List.all_append, Bool.and_eq_true, List.all_eq_true] at hc
  cases op <;> cases l <;> cases r <;> simp_all [skippedInPass2, Expr.vars]

theorem buildCmps_filters (r : Rule) (h : filterRule r = true) : buildCmps r.posVars r.cmps = some ([], r.cmps) := by
  simp only [filterRule, Bool.and_eq_true, List.all_eq_true] at h
  have hv : ∀ c, c ∈ r.cmps → (Cmp.vars c).all r.posVars.contains = true := fun c hc => List.all_eq_true.2 (h.2 c hc).1
  unfold buildCmps
  rw [pass1_filters r.posVars r.cmps hv]
  simp only [List.map_nil, List.nil_append]
  have hf : r.cmps.filter (fun c => !skippedInPass2 r.posVars c) = r.cmps :=
    filter_eq_self_of_all _ _ (fun c hc => by simp [skipped_false r.posVars c (hv c hc)])
  rw [hf]
  have hb : r.cmps.all (filterBuildable r.posVars) = true := by
    rw [List.all_eq_true]
    intro c hc
    have := h.2 c hc
    unfold filterBuildable
    simp only [Bool.and_eq_true]
    refine ⟨List.all_eq_true.2 this.1, ?_⟩
    have hn := this.2
    unfold notBinBin at hn
    exact hn
  simp [hb]

/-! ### valuations produced by the positive atoms bind every positive variable -/

theorem matches_binds : ∀ (args : List Term) (t : List Value) (env : Env), Matches args t env →
    ∀ x, Term.var x ∈ args → ∃ v, env.lookup x = some v
  | [], [], _, _, x, hx => by cases hx
  | .var y :: as, v :: vs, env, h, x, hx => by
    rcases List.mem_cons.1 hx with he | hx
    · cases he; exact ⟨v, h.1⟩
    · exact matches_binds as vs env h.2 x hx
  | .const c :: as, v :: vs, env, h, x, hx => by
    rcases List.mem_cons.1 hx with he | hx
    · cases he
    · exact matches_binds as vs env h.2 x hx
  | .wild :: as, _ :: vs, env, h, x, hx => by
    rcases List.mem_cons.1 hx with he | hx
    · cases he
    · exact matches_binds as vs env h x hx
  | [], _ :: _, _, h, _, _ => h.elim
  | .var _ :: _, [], _, h, _, _ => h.elim
  | .const _ :: _, [], _, h, _, _ => h.elim
  | .wild :: _, [], _, h, _, _ => h.elim

theorem mem_posVars {r : Rule} {x : String} (hx : x ∈ r.posVars) : ∃ a, a ∈ r.posAtoms ∧ Term.var x ∈ a.args := by
  unfold Rule.posVars at hx
  rw [mem_dedupS, List.mem_flatMap] at hx
  obtain ⟨a, ha, hxa⟩ := hx
  obtain ⟨t, ht, he⟩ := List.mem_filterMap.1 hxa
  refine ⟨a, ha, ?_⟩
  cases t <;> simp at he
  subst he; exact ht

theorem evalPos_binds (lk : String → List Tuple) (r : Rule) (env : Env) (he : env ∈ evalPos lk r.posAtoms [[]])
    (x : String) (hx : x ∈ r.posVars) : bound env x = true := by
  obtain ⟨_, _, _, hsat⟩ := evalPos_sound lk r.posAtoms [[]] env he
  obtain ⟨a, ha, hxa⟩ := mem_posVars hx
  obtain ⟨t, _, hm⟩ := hsat a ha
  obtain ⟨v, hv⟩ := matches_binds a.args t env hm x hxa
  simp [bound, hv]

theorem lookup_isSome_keys : ∀ (env : Env) (x : String), bound env x = true → (env.map (·.1)).contains x = true
  | [], x, h => by simp [bound, List.lookup] at h
  | (y, v) :: env, x, h => by
    by_cases hxy : x = y
    · subst hxy; simp
    · have : (x == y) = false := by simpa using hxy
      have h' : bound env x = true := by simpa [bound, List.lookup, this] using h
      have := lookup_isSome_keys env x h'
      simp only [List.map_cons, List.contains_cons, Bool.or_eq_true]
      exact Or.inr this

theorem defines_none (bnd : List String) (c : Cmp) (h : (Cmp.vars c).all bnd.contains = true) : defines bnd c = none := by
  obtain ⟨op, l, r⟩ := c
  simp only [Cmp.vars, List.all_append, Bool.and_eq_true, List.all_eq_true] at h
  cases op <;> cases l <;> cases r <;> simp_all [defines, Expr.vars]

theorem bindRound_id (cs : List Cmp) (env : Env) (h : ∀ c, c ∈ cs → (Cmp.vars c).all (bound env) = true) : bindRound cs env = env := by
  unfold bindRound
  induction cs with
  | nil => rfl
  | cons c cs ih =>
    simp only [List.foldl_cons]
    have hc : (Cmp.vars c).all (env.map (·.1)).contains = true := by
      rw [List.all_eq_true]
      intro x hx
      exact lookup_isSome_keys env x (List.all_eq_true.1 (h c (List.mem_cons_self ..)) x hx)
    rw [defines_none _ c hc]
    exact ih (fun d hd => h d (List.mem_cons_of_mem _ hd))

theorem iter_id {α} (f : α → α) (a : α) (h : f a = a) : ∀ n, iter f n a = a
  | 0 => rfl
  | n + 1 => by simp only [iter, h]; exact iter_id f a h n

/-- for filter rules the Spec's reading of the comparison literals is a plain filter. -/
theorem specCmps_filters (lk : String → List Tuple) (r : Rule) (h : filterRule r = true) :
    specCmps r.cmps (evalPos lk r.posAtoms [[]]) =
      (evalPos lk r.posAtoms [[]]).filter (fun env => r.cmps.all (Cmp.holds env)) := by
  simp only [filterRule, Bool.and_eq_true, List.all_eq_true] at h
  have hb : ∀ env, env ∈ evalPos lk r.posAtoms [[]] → ∀ c, c ∈ r.cmps → (Cmp.vars c).all (bound env) = true := by
    intro env he c hc
    rw [List.all_eq_true]
    intro x hx
    exact evalPos_binds lk r env he x (List.contains_iff_mem.1 ((h.2 c hc).1 x hx))
  unfold specCmps
  rw [map_eq_self _ _ (fun env he => iter_id _ env (bindRound_id r.cmps env (hb env he)) _)]
  have h2 : (evalPos lk r.posAtoms [[]]).filter (fun env => r.cmps.all (fun c => (Cmp.vars c).all (bound env))) =
      evalPos lk r.posAtoms [[]] :=
    filter_eq_self_of_all _ _ (fun env he => by
      rw [List.all_eq_true]; intro c hc; exact hb env he c hc)
  rw [h2]

/-- **filter rules are evaluated faithfully.** -/
theorem evalRuleM_eq_of_filter (r : Rule) (h : filterRule r = true) (lk : String → List Tuple) :
    evalRuleM true lk r = evalRuleLk lk r := by
  have hna : r.hasAgg = false := by
    simp only [filterRule, Bool.and_eq_true, Bool.not_eq_true'] at h; exact h.1
  unfold evalRuleM bodyEnvsM evalRuleLk bodyEnvs headOf headOfSpec
  rw [buildCmps_filters r h, specCmps_filters lk r h]
  simp only [List.any_nil, Bool.false_eq_true, if_false, applyCols_nil, optMapM_some_id, hna]

theorem clauseFaithful_of_filter (p : Program) (h : p.all filterRule = true) : ClauseFaithful p := by
  intro r hr lk
  exact evalRuleM_eq_of_filter r (List.all_eq_true.1 h r hr) lk

end ILV.Engine

/-! ### completeness of the Spec's clause evaluator -/
namespace ILV.Engine
open ILV ILV.DL

theorem optMapM_congr {α β} (f g : α → Option β) : ∀ (l : List α), (∀ a, a ∈ l → f a = g a) → optMapM f l = optMapM g l
  | [], _ => rfl
  | a :: as, h => by
    unfold optMapM
    rw [h a (List.mem_cons_self ..), optMapM_congr f g as (fun x hx => h x (List.mem_cons_of_mem _ hx))]

/-- **Completeness of the Spec's clause evaluator** (aggregate-free rule without comparison
    literals, range-restricted: head variables and variables of negated atoms occur in positive
    atoms): every head instance of a valuation that satisfies the body declaratively is derived. -/
theorem evalRuleLk_complete (lk : String → List Tuple) (r : Rule) (hagg : r.hasAgg = false) (hc : r.cmps = [])
    (hsafeH : ∀ x, x ∈ r.hargs.flatMap HTerm.vars → x ∈ r.posVars)
    (hsafeN : ∀ a, a ∈ r.negAtoms → ∀ x, Term.var x ∈ a.args → x ∈ r.posVars)
    (ts : List Tuple) (hev : evalRuleLk lk r = some ts)
    (env : Env) (hsat : BodySat lk r env) (t : Tuple) (hhead : HeadInst r env t) : t ∈ ts := by
  obtain ⟨e', he', hag⟩ := evalPos_complete lk env r.posAtoms [[]] [] hsat.pos (List.mem_singleton.2 rfl)
    (fun x v h => by simp [List.lookup] at h)
  have hbound : ∀ x, x ∈ r.posVars → ∃ v, e'.lookup x = some v := by
    intro x hx
    have := evalPos_binds lk r e' he' x hx
    unfold bound at this
    exact Option.isSome_iff_exists.1 this
  unfold evalRuleLk headOfSpec at hev
  simp only [hagg, Bool.false_eq_true, if_false] at hev
  unfold headRows at hev
  refine (optMapM_some_mem _ _ _ hev t).2 ⟨e', ?_, ?_⟩
  · -- e' is a body valuation of the evaluator
    unfold bodyEnvs evalNegs
    refine List.mem_filter.2 ⟨?_, ?_⟩
    · rw [hc]
      unfold specCmps
      simp only [List.length_nil, List.all_nil]
      refine List.mem_filter.2 ⟨List.mem_filter.2 ⟨List.mem_map.2 ⟨e', he', rfl⟩, rfl⟩, rfl⟩
    · rw [List.all_eq_true]
      intro a ha
      unfold negHolds
      rw [List.all_eq_true]
      intro t' ht'
      have hn := hsat.neg a ha t' ht'
      have := matchArgs_none_of_agree a.args t' env e' (fun x hx => hbound x (hsafeN a ha x hx)) hag hn
      simp [this]
  · -- the head instance is the same under e'
    unfold HeadInst at hhead
    rw [← hhead]
    apply optMapM_congr
    intro h hh
    cases h with
    | var x =>
      have hx : x ∈ r.hargs.flatMap HTerm.vars := List.mem_flatMap.2 ⟨.var x, hh, by simp [HTerm.vars]⟩
      obtain ⟨v, hv⟩ := hbound x (hsafeH x hx)
      simp only [HTerm.plain, hv, hag x v hv]
    | const c => rfl
    | agg f x => rfl

end ILV.Engine
