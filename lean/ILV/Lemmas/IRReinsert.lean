/-
  Re-inserting the sorted excluded key positions inverts `Tuple::excluding_indices`:
  `(excluding b rk)[j]? = b[reinsert (sortNat rk) j]?` (used by the filter push-down into the right
  join input and by the Join+Map fusion).
-/
import ILV.Lemmas.IRBasic
namespace ILV.IR
open ILV

/-! ### `remap_projection_for_join_flatmap`: re-inserting the excluded key positions -/

theorem mem_insertBy {le : Nat → Nat → Bool} {a x : Nat} {l : List Nat} : x ∈ insertBy le a l ↔ x = a ∨ x ∈ l := by
  induction l with
  | nil => simp [insertBy]
  | cons y ys ih =>
    simp only [insertBy]
    split
    · simp
    · simp only [List.mem_cons, ih]
      constructor
      · rintro (h | h | h) <;> simp [h]
      · rintro (h | h | h) <;> simp [h]

theorem mem_sortNat0 {x : Nat} {l : List Nat} : x ∈ sortNat0 l ↔ x ∈ l := by
  unfold sortNat0 sortBy
  induction l with
  | nil => simp
  | cons a l ih => simp only [List.foldr_cons, mem_insertBy, ih, List.mem_cons]

theorem pairwise_insertBy {a : Nat} {l : List Nat} (hl : l.Pairwise (· < ·)) (ha : a ∉ l) :
    (insertBy (fun (x y : Nat) => decide (x ≤ y)) a l).Pairwise (· < ·) := by
  induction l with
  | nil => simp [insertBy]
  | cons y ys ih =>
    simp only [insertBy]
    have hy := List.pairwise_cons.1 hl
    simp only [List.mem_cons, not_or] at ha
    split
    · rename_i hle
      have hle : a ≤ y := by simpa using hle
      have hay : a < y := by omega
      refine List.pairwise_cons.2 ⟨?_, hl⟩
      intro z hz
      rcases List.mem_cons.1 hz with rfl | hz
      · exact hay
      · exact Nat.lt_trans hay (hy.1 z hz)
    · rename_i hle
      have hle : ¬ a ≤ y := by simpa using hle
      refine List.pairwise_cons.2 ⟨?_, ih hy.2 ha.2⟩
      intro z hz
      rcases mem_insertBy.1 hz with rfl | hz
      · omega
      · exact hy.1 z hz

theorem sortNat0_strict {l : List Nat} (h : nodupNat l = true) : (sortNat0 l).Pairwise (· < ·) := by
  induction l with
  | nil => simp [sortNat0, sortBy]
  | cons a l ih =>
    simp only [nodupNat, Bool.and_eq_true, Bool.not_eq_true', List.contains_eq_mem, decide_eq_false_iff_not] at h
    have := pairwise_insertBy (a := a) (ih h.2) (by rw [mem_sortNat0]; exact h.1)
    simpa [sortNat0, sortBy] using this

theorem dedupAdj_of_strict : ∀ (l : List Nat), l.Pairwise (· < ·) → dedupAdj l = l
  | [], _ => rfl
  | [_], _ => rfl
  | x :: y :: rest, h => by
    have hp := List.pairwise_cons.1 h
    have hxy : x < y := hp.1 y (by simp)
    have hne : (x == y) = false := by simp; omega
    simp only [dedupAdj, hne, Bool.false_eq_true, if_false, dedupAdj_of_strict (y :: rest) hp.2]

theorem sortNat_eq {l : List Nat} (h : nodupNat l = true) : sortNat l = sortNat0 l :=
  dedupAdj_of_strict _ (sortNat0_strict h)

theorem mem_sortNat {x : Nat} {l : List Nat} (h : nodupNat l = true) : x ∈ sortNat l ↔ x ∈ l := by
  rw [sortNat_eq h]; exact mem_sortNat0

theorem sortNat_strict {l : List Nat} (h : nodupNat l = true) : (sortNat l).Pairwise (· < ·) := by
  rw [sortNat_eq h]; exact sortNat0_strict h

theorem excludingAux_congr {ex ex' : List Nat} (h : ∀ x, x ∈ ex ↔ x ∈ ex') (i : Nat) (vs : Tuple) :
    excludingAux ex i vs = excludingAux ex' i vs := by
  induction vs generalizing i with
  | nil => rfl
  | cons v vs ih =>
    have : ex.contains i = ex'.contains i := by
      rw [Bool.eq_iff_iff]; simp [h i]
    simp only [excludingAux, this, ih]

theorem excludingAux_skip {k : Nat} {ks : List Nat} (i : Nat) (vs : Tuple) (h : k < i) :
    excludingAux (k :: ks) i vs = excludingAux ks i vs := by
  induction vs generalizing i with
  | nil => rfl
  | cons v vs ih =>
    have : (k :: ks).contains i = ks.contains i := by
      have : i ≠ k := by omega
      simp [List.contains_cons, this]
    simp only [excludingAux, this, ih (i + 1) (by omega)]

theorem excludingAux_cons {k : Nat} {ks : List Nat} (hk : ∀ k' ∈ ks, k < k') (i : Nat) (vs : Tuple) (hi : i ≤ k) :
    excludingAux (k :: ks) i vs = (excludingAux ks i vs).eraseIdx (k - i) := by
  induction vs generalizing i with
  | nil => simp [excludingAux]
  | cons v vs ih =>
    have hnk : ks.contains i = false := by
      cases hc : ks.contains i with
      | false => rfl
      | true => have := hk i (by simpa using hc); omega
    by_cases hik : i = k
    · subst hik
      simp only [excludingAux, List.contains_cons, beq_self_eq_true, Bool.true_or, ↓reduceIte, hnk,
        Bool.false_eq_true, Nat.sub_self, List.eraseIdx_cons_zero]
      exact excludingAux_skip (i + 1) vs (by omega)
    · have hlt : i < k := by omega
      have : (k :: ks).contains i = false := by
        have h1 : i ≠ k := hik
        have h2 : i ∉ ks := by simpa using hnk
        simp [h1, h2]
      simp only [excludingAux, this, hnk, Bool.false_eq_true, ↓reduceIte]
      have e : k - i = (k - (i + 1)) + 1 := by omega
      rw [e, List.eraseIdx_cons_succ, ih (i + 1) (by omega)]

theorem excluding_reinsert_sorted (b : Tuple) : ∀ (ks : List Nat), ks.Pairwise (· < ·) → ∀ j,
    (excludingAux ks 0 b)[j]? = b[reinsert ks j]?
  | [], _, j => by
    have : excludingAux [] 0 b = b := by
      have : ∀ i (vs : Tuple), excludingAux [] i vs = vs := by
        intro i vs; induction vs generalizing i with
        | nil => rfl
        | cons v vs ih => simp [excludingAux, ih]
      exact this 0 b
    simp [this, reinsert]
  | k :: ks, h, j => by
    have hp := List.pairwise_cons.1 h
    rw [excludingAux_cons hp.1 0 b (Nat.zero_le _), Nat.sub_zero, List.getElem?_eraseIdx]
    simp only [reinsert]
    by_cases hjk : j < k
    · have : ¬ k ≤ j := by omega
      simp only [hjk, ↓reduceIte, this]
      exact excluding_reinsert_sorted b ks hp.2 j
    · have : k ≤ j := by omega
      simp only [hjk, ↓reduceIte, this]
      exact excluding_reinsert_sorted b ks hp.2 (j + 1)

theorem excluding_reinsert (b : Tuple) (rk : List Nat) (h : nodupNat rk = true) (j : Nat) :
    (excluding b rk)[j]? = b[reinsert (sortNat rk) j]? := by
  unfold excluding
  rw [excludingAux_congr (ex' := sortNat rk) (fun x => (mem_sortNat h).symm) 0 b]
  exact excluding_reinsert_sorted b _ (sortNat_strict h) j

end ILV.IR
