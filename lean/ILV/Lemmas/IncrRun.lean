/-
  C18: the invariant holds after every safe history.
-/
import ILV.Lemmas.IncrStep
namespace ILV.C18

theorem mapInc_id (s : St) : mapInc s (fun i => i) = s := by
  cases s with
  | mk f a c inc sn => cases inc <;> rfl

theorem match_inc_eq (s1 : St) (g : Inc → Inc) :
    (match s1.inc with
      | some i => { s1 with inc := some (g i) }
      | none => s1) = mapInc s1 g := by
  cases s1 with
  | mk f a c inc sn => cases inc <;> rfl

theorem inv_init (B : List Name) : Inv B init := by
  refine ⟨⟨?_, ?_, ?_, ?_, ?_, ?_⟩, rfl⟩
  · intro r _; rfl
  · intro k cs h; simp [init] at h
  · simp [init, akeys]
  · intro i h; simp [init] at h
  · intro i h; simp [init] at h
  · intro i n m h; simp [init] at h

theorem contains_iff {l : List Name} {x : Name} : l.contains x = true ↔ x ∈ l := List.contains_iff_mem

/-! ### one lemma per step kind -/

theorem inv_ins {B : List Name} {s : St} (hI : Inv B s) (r : Name) (ts : List Tup) (hs : r ∈ B) :
    Inv B (step codeAutoMat s (.ins r ts)).1 := by
  simp only [step]
  split
  · exact hI
  split
  · exact hI
  unfold insApply
  simp only
  split
  · apply inv_publish
    refine core_facts_notify hI.core _ _ [r] ?_ ?_
    · intro r' hr'
      have : r ≠ r' := fun e => hr' (by simp [e])
      rw [aget_aset_ne _ _ _ _ this]; rfl
    · intro r' hr'
      simp at hr'; subst hr'; exact hs
  · exact hI

theorem inv_del {B : List Name} {s : St} (hI : Inv B s) (r : Name) (ts : List Tup) :
    Inv B (step codeAutoMat s (.del r ts)).1 := by
  simp only [step]
  split
  · exact hI
  · next old hold =>
    split
    · next hpos =>
      apply inv_publish
      refine core_facts_notify hI.core _ s.arity [r] ?_ ?_
      · intro r' hr'
        have : r ≠ r' := fun e => hr' (by simp [e])
        rw [aget_aset_ne _ _ _ _ this]; rfl
      · intro r' hr'
        simp at hr'; subst hr'
        by_cases hb : r' ∈ B
        · exact hb
        · have h0 := hI.core.stored r' hb
          simp only [factsDb, hold, Option.getD_some] at h0
          subst h0
          simp at hpos
    · exact hI

theorem inv_clrp {B : List Name} {s : St} (hI : Inv B s) (pre : Name) :
    Inv B (step codeAutoMat s (.clrp pre)).1 := by
  simp only [step]
  split
  · exact hI
  · apply inv_publish
    refine core_facts_notify hI.core _ s.arity _ ?_ ?_
    · intro r' hr'
      have hc : (akeys (clrpHit s pre)).contains r' = false := by
        cases hcc : (akeys (clrpHit s pre)).contains r' with
        | false => rfl
        | true => exact absurd (contains_iff.mp hcc) hr'
      unfold clrpFacts
      rw [aget_map_val s.facts (fun k v => if (akeys (clrpHit s pre)).contains k = true then ([] : List Tup) else v)]
      simp only [hc, Bool.false_eq_true, if_false, factsDb]
      cases aget s.facts r' <;> rfl
    · intro r' hr'
      obtain ⟨⟨a, c⟩, hm, rfl⟩ := List.mem_map.mp hr'
      obtain ⟨k, _, hk⟩ := List.mem_filterMap.mp hm
      by_cases hb : a ∈ B
      · exact hb
      · by_cases hz : ((aget s.facts k).getD []).length = 0
        · simp [hz] at hk
        · simp only [hz, if_false, Option.some.injEq, Prod.mk.injEq] at hk
          have h0 := hI.core.stored a hb
          rw [← hk.1] at h0
          simp only [factsDb] at h0
          rw [h0] at hz
          simp at hz

theorem inv_reg {B : List Name} {s : St} (hI : Inv B s) (c : Clause)
    (h1 : c.head.rel ∉ B) (h2 : ∀ r ∈ bodyRels c, r ∈ B) (h3 : notValid s c.head.rel = true) :
    Inv B (step codeAutoMat s (.reg c)).1 := by
  simp only [step]
  split
  · exact hI
  unfold regApply
  simp only
  apply inv_publish
  have hcl : ∀ c' ∈ regCls s c, c'.head.rel = c.head.rel ∧ ∀ r ∈ bodyRels c', r ∈ B := by
    intro c' hc'
    unfold regCls at hc'
    cases hg : aget s.catalog c.head.rel with
    | none =>
      simp only [hg, List.mem_singleton] at hc'
      subst hc'; exact ⟨rfl, h2⟩
    | some cs =>
      have hold := (hI.core.cat _ cs (aget_some_mem hg)).2
      simp only [hg] at hc'
      split at hc'
      · exact hold c' hc'
      · rcases List.mem_append.mp hc' with e | e
        · exact hold c' e
        · simp only [List.mem_singleton] at e
          subst e; exact ⟨rfl, h2⟩
  refine core_catalog_at hI.core c.head.rel _ _ h3 ?_ ?_ (nodup_aset _ _ hI.core.catNodup) ?_ ?_ ?_
  · intro n' hn'
    exact aget_aset_ne _ _ _ _ (fun e => hn' e.symm)
  · intro k cs hm
    rcases mem_aset hm with ⟨hk, hcs⟩ | hm'
    · right
      subst hcs
      exact ⟨hk, h1, hcl⟩
    · exact Or.inl hm'
  · intro i; rfl
  · intro i; rfl
  · intro i x r hx
    show x ∈ (aget (regB2d i.b2d (clauseDeps c) c.head.rel) r).getD []
    exact regB2d_mono _ _ _ _ _ hx

theorem inv_rmc {B : List Name} {s : St} (hI : Inv B s) (n : Name) (k : Nat) (h3 : notValid s n = true) :
    Inv B (step codeAutoMat s (.rmc n k)).1 := by
  simp only [step]
  split
  · exact hI
  · next cs hcs =>
    have hold := hI.core.cat n cs (aget_some_mem hcs)
    split
    · exact hI
    · split
      · apply inv_publish
        rw [← mapInc_id { s with catalog := aerase s.catalog n }]
        refine core_catalog_at hI.core n _ _ h3 ?_ ?_ (nodup_aerase _ hI.core.catNodup) (fun _ => rfl) (fun _ => rfl) (fun _ _ _ h => h)
        · intro n' hn'; exact aget_aerase_ne _ _ _ (fun e => hn' e.symm)
        · intro k' cs' hm; exact Or.inl (mem_aerase hm).1
      · apply inv_publish
        rw [← mapInc_id { s with catalog := aset s.catalog n (removeAt cs k) }]
        refine core_catalog_at hI.core n _ _ h3 ?_ ?_ (nodup_aset _ _ hI.core.catNodup) (fun _ => rfl) (fun _ => rfl) (fun _ _ _ h => h)
        · intro n' hn'; exact aget_aset_ne _ _ _ _ (fun e => hn' e.symm)
        · intro k' cs' hm
          rcases mem_aset hm with ⟨hk, hcs'⟩ | hm'
          · right
            subst hcs'
            exact ⟨hk, hold.1, fun c' hc' => hold.2 c' (mem_removeAt _ _ _ hc')⟩
          · exact Or.inl hm'

theorem inv_rep {B : List Name} {s : St} (hI : Inv B s) (n : Name) (k : Nat) (c : Clause)
    (h0 : c.head.rel = n) (h1 : n ∉ B) (h2 : ∀ r ∈ bodyRels c, r ∈ B) (h3 : notValid s n = true) :
    Inv B (step codeAutoMat s (.rep n k c)).1 := by
  simp only [step]
  split
  · exact hI
  · next cs hcs =>
    have hold := hI.core.cat n cs (aget_some_mem hcs)
    split
    · exact hI
    · simp only
      apply inv_publish
      rw [← mapInc_id { s with catalog := aset s.catalog n (replaceAt cs k c) }]
      refine core_catalog_at hI.core n _ _ h3 ?_ ?_ (nodup_aset _ _ hI.core.catNodup) (fun _ => rfl) (fun _ => rfl) (fun _ _ _ h => h)
      · intro n' hn'; exact aget_aset_ne _ _ _ _ (fun e => hn' e.symm)
      · intro k' cs' hm
        rcases mem_aset hm with ⟨hk, hcs'⟩ | hm'
        · right
          subst hcs'
          refine ⟨hk, h1, ?_⟩
          intro c' hc'
          rcases mem_replaceAt _ _ _ _ hc' with e | e
          · subst e; exact ⟨h0, h2⟩
          · exact hold.2 c' e
        · exact Or.inl hm'

theorem inv_clr {B : List Name} {s : St} (hI : Inv B s) (n : Name) (h3 : notValid s n = true) :
    Inv B (step codeAutoMat s (.clr n)).1 := by
  simp only [step]
  split
  · exact hI
  · next cs hcs =>
    have hold := hI.core.cat n cs (aget_some_mem hcs)
    simp only
    apply inv_publish
    rw [← mapInc_id { s with catalog := aset s.catalog n [] }]
    refine core_catalog_at hI.core n _ _ h3 ?_ ?_ (nodup_aset _ _ hI.core.catNodup) (fun _ => rfl) (fun _ => rfl) (fun _ _ _ h => h)
    · intro n' hn'; exact aget_aset_ne _ _ _ _ (fun e => hn' e.symm)
    · intro k' cs' hm
      rcases mem_aset hm with ⟨hk, hcs'⟩ | hm'
      · right
        subst hcs'
        exact ⟨hk, hold.1, by simp⟩
      · exact Or.inl hm'

theorem inv_drop {B : List Name} {s : St} (hI : Inv B s) (n : Name) :
    Inv B (step codeAutoMat s (.drop n)).1 := by
  simp only [step]
  split
  · exact hI
  · simp only
    apply inv_publish
    refine core_remove hI.core [n] s.facts s.arity _ hI.core.stored ?_ ?_ (nodup_aerase _ hI.core.catNodup) ?_
    · intro i n' m _ _ _ _ c _ r _; rfl
    · intro k cs hm; exact (mem_aerase hm).1
    · intro n' hn'
      exact aget_aerase_ne _ _ _ (fun e => hn' (by simp [e]))

theorem inv_dropp {B : List Name} {s : St} (hI : Inv B s) (pre : Name) :
    Inv B (step codeAutoMat s (.dropp pre)).1 := by
  simp only [step]
  split
  · exact hI
  · simp only
    apply inv_publish
    refine core_remove hI.core _ s.facts s.arity _ hI.core.stored ?_ ?_ (nodup_filter_key _ hI.core.catNodup) ?_
    · intro i n' m _ _ _ _ c _ r _; rfl
    · intro k cs hm; exact (List.mem_filter.mp hm).1
    · intro n' hn'
      rw [aget_filter_key s.catalog (fun k => !(pre.isPrefixOf k)) n']
      cases hp : pre.isPrefixOf n' with
      | false => simp
      | true =>
        simp only [Bool.not_true, Bool.false_eq_true, if_false]
        symm
        apply aget_none_of_not_key
        intro hk
        apply hn'
        rw [mem_sortNames]
        exact List.mem_filter.mpr ⟨hk, hp⟩

theorem inv_drel {B : List Name} {s : St} (hI : Inv B s) (r : Name) (h3 : noValidReads s r = true) :
    Inv B (step codeAutoMat s (.drel r)).1 := by
  simp only [step]
  split
  · exact hI
  · simp only
    apply inv_publish
    refine core_remove hI.core [r] _ _ _ ?_ ?_ ?_ (nodup_aerase _ hI.core.catNodup) ?_
    · intro r' hr'
      by_cases e : r = r'
      · subst e; rw [aget_aerase_eq]; rfl
      · rw [aget_aerase_ne _ _ _ e]; exact hI.core.stored r' hr'
    · intro i n m hi hm hv _ c hc r' hr'
      have hne : r ≠ r' := by
        intro e; subst e
        simp only [noValidReads, hi, List.all_eq_true] at h3
        have := h3 (n, m.tuples) ((mem_validMats_iff i (hI.core.matsNodup i hi) n m.tuples).mpr ⟨m, hm, hv, rfl⟩)
        simp only [Bool.not_eq_eq_eq_not, Bool.not_true, List.contains_eq_mem, decide_eq_false_iff_not] at this
        exact this (List.mem_flatMap.mpr ⟨c, hc, hr'⟩)
      rw [aget_aerase_ne _ _ _ hne]; rfl
    · intro k cs hm; exact (mem_aerase hm).1
    · intro n' hn'
      exact aget_aerase_ne _ _ _ (fun e => hn' (by simp [e]))

theorem mkSnap_hasIndex (s : St) (i : Inc) (b : Bool) (hi : s.inc = some i) :
    mkSnap { s with inc := some { i with hasIndex := b } } = mkSnap s := by
  simp [mkSnap, hi, validMats, isValid]

theorem core_hasIndex {B : List Name} {s : St} (hI : InvCore B s) (i : Inc) (b : Bool) (hi : s.inc = some i) :
    InvCore B { s with inc := some { i with hasIndex := b } } := by
  refine ⟨hI.stored, hI.cat, hI.catNodup, ?_, ?_, ?_⟩
  · intro i' hi'
    simp only [Option.some.injEq] at hi'; subst hi'
    exact hI.matsNodup i hi
  · intro i' hi'
    simp only [Option.some.injEq] at hi'; subst hi'
    exact hI.d2d i hi
  · intro i' n m hi' hm hv
    simp only [Option.some.injEq] at hi'; subst hi'
    exact hI.mats i n m hi hm hv

theorem inv_idx {B : List Name} {s : St} (hI : Inv B s) : Inv B (step codeAutoMat s .idx).1 := by
  simp only [step]
  split
  · next hnone =>
    refine ⟨⟨hI.core.stored, hI.core.cat, hI.core.catNodup, ?_, ?_, ?_⟩, ?_⟩
    · intro i' hi'
      simp only [Option.some.injEq] at hi'; subst hi'; simp [akeys]
    · intro i' hi'
      simp only [Option.some.injEq] at hi'; subst hi'; rfl
    · intro i' n m hi' hm
      simp only [Option.some.injEq] at hi'; subst hi'
      simp [aget] at hm
    · show s.snap = _
      rw [hI.snap]
      simp only [mkSnap, hnone, validMats, isValid, aget, mergeMats, List.filterMap_nil, Bool.not_false]
      rw [List.filter_eq_self.mpr (fun _ _ => rfl)]
  · next i hi =>
    split
    · exact hI
    · refine ⟨core_hasIndex hI.core i true hi, ?_⟩
      show s.snap = _
      rw [mkSnap_hasIndex s i true hi]; exact hI.snap

theorem inv_idxdrop {B : List Name} {s : St} (hI : Inv B s) : Inv B (step codeAutoMat s .idxdrop).1 := by
  simp only [step]
  split
  · exact hI
  · next i hi =>
    split
    · refine ⟨core_hasIndex hI.core i false hi, ?_⟩
      show s.snap = _
      rw [mkSnap_hasIndex s i false hi]; exact hI.snap
    · exact hI

theorem inv_mat {B : List Name} {s : St} (hI : Inv B s) (n : Name) (ar : Nat) (h1 : n ∉ B)
    (h2 : stepWellUsed s (.mat n ar) = true)
    (h3 : ∀ i, s.inc = some i → edgesOk s i n = true) :
    Inv B (step codeAutoMat s (.mat n ar)).1 := by
  simp only [step]
  split
  · exact hI
  · next i hi =>
    simp only
    apply inv_publish
    simp only [stepWellUsed, Bool.and_eq_true, Bool.not_eq_eq_eq_not, Bool.not_true] at h2
    have hne : clausesNow s n ≠ [] := by
      intro e; rw [e] at h2; simp at h2
    have hset := (setEqb_iff _ _).mp h2.2
    refine ⟨hI.core.stored, hI.core.cat, hI.core.catNodup, ?_, ?_, ?_⟩
    · intro i' hi'
      simp only [Option.some.injEq] at hi'; subst hi'
      exact nodup_aset _ _ (hI.core.matsNodup i hi)
    · intro i' hi'
      simp only [Option.some.injEq] at hi'; subst hi'
      exact hI.core.d2d i hi
    · intro i' n' m hi' hm hv
      simp only [Option.some.injEq] at hi'; subst hi'
      by_cases e : n = n'
      · subst e
        simp only [Inc.setMat, aget_aset_eq, Option.some.injEq] at hm
        subst hm
        refine ⟨h1, ?_, ?_⟩
        · intro t
          rw [hset t, fresh_iff hI.core]
          unfold sem
          simp only [hne, ne_eq, not_false_eq_true, true_and, false_and, or_false]
          rfl
        · intro c hc r hr
          have := h3 i hi
          simp only [edgesOk, List.all_eq_true] at this
          exact contains_iff.mp (this c hc r hr)
      · simp only [Inc.setMat] at hm
        rw [aget_aset_ne _ _ _ _ e] at hm
        exact hI.core.mats i n' m hi hm hv

/-! ### all steps, all histories -/

theorem inv_step {B : List Name} {s : St} (hI : Inv B s) (st : Step) (hs : stepSafe B s st = true) :
    Inv B (step codeAutoMat s st).1 := by
  cases st with
  | ins r ts => exact inv_ins hI r ts (contains_iff.mp (by simpa [stepSafe] using hs))
  | del r ts => exact inv_del hI r ts
  | reg c =>
    simp only [stepSafe, Bool.and_eq_true, Bool.not_eq_eq_eq_not, Bool.not_true, List.all_eq_true] at hs
    refine inv_reg hI c ?_ (fun r hr => contains_iff.mp (hs.1.2 r hr)) hs.2
    intro hb
    have := contains_iff.mpr hb
    rw [this] at hs; simp at hs
  | rmc n k => exact inv_rmc hI n k (by simpa [stepSafe] using hs)
  | rep n k c =>
    simp only [stepSafe, Bool.and_eq_true, Bool.not_eq_eq_eq_not, Bool.not_true, List.all_eq_true, beq_iff_eq] at hs
    refine inv_rep hI n k c hs.1.1.1 ?_ (fun r hr => contains_iff.mp (hs.1.2 r hr)) hs.2
    intro hb
    have := contains_iff.mpr hb
    rw [this] at hs; simp at hs
  | clr n => exact inv_clr hI n (by simpa [stepSafe] using hs)
  | drop n => exact inv_drop hI n
  | dropp pre => exact inv_dropp hI pre
  | drel r => exact inv_drel hI r (by simpa [stepSafe] using hs)
  | clrp pre => exact inv_clrp hI pre
  | idx => exact inv_idx hI
  | idxdrop => exact inv_idxdrop hI
  | mat n ar =>
    simp only [stepSafe, Bool.and_eq_true, Bool.not_eq_eq_eq_not, Bool.not_true] at hs
    refine inv_mat hI n ar ?_ hs.1.2 ?_
    · intro hb
      have := contains_iff.mpr hb
      rw [this] at hs; simp at hs
    · intro i hi
      have := hs.2
      simpa [hi] using this
  | q a => exact hI
  | m => exact hI

theorem inv_runFrom {B : List Name} (h : List Step) {s : St} (hI : Inv B s) (hs : safe B s h = true) :
    Inv B (runFrom codeAutoMat s h) := by
  induction h generalizing s with
  | nil => exact hI
  | cons st l ih =>
    simp only [safe, Bool.and_eq_true] at hs
    exact ih (inv_step hI st hs.1) hs.2

theorem inv_run {B : List Name} (h : List Step) (hs : safe B init h = true) : Inv B (run h) :=
  inv_runFrom h (inv_init B) hs

end ILV.C18
