/-
  Correctness of the consolidation loop relative to a lawful tuple order
  (the order law is exactly what C31 establishes).
-/
import ILV.Lemmas.Order
import ILV.Model.Consolidate
namespace ILV

theorem sumFor_append (t : Tuple) (a b : List Upd) : sumFor t (a ++ b) = sumFor t a + sumFor t b := by
  induction a with
  | nil => simp [sumFor]
  | cons x xs ih => simp [sumFor, ih]; omega

theorem sumFor_insertLe (le : Upd → Upd → Bool) (t : Tuple) (x : Upd) (l : List Upd) :
    sumFor t (insertLe le x l) = sumFor t (x :: l) := by
  induction l with
  | nil => simp [insertLe]
  | cons y ys ih =>
    simp only [insertLe]
    split
    · rfl
    · simp only [sumFor] at ih ⊢; rw [ih]; omega

theorem sumFor_stableSort (le : Upd → Upd → Bool) (t : Tuple) (l : List Upd) :
    sumFor t (stableSort le l) = sumFor t l := by
  induction l with
  | nil => rfl
  | cons x xs ih =>
    simp only [stableSort, List.foldr] at ih ⊢
    rw [sumFor_insertLe]; simp only [sumFor]; rw [ih]

theorem mem_insertLe {α} (le : α → α → Bool) (x z : α) (l : List α) :
    z ∈ insertLe le x l ↔ z = x ∨ z ∈ l := by
  induction l with
  | nil => simp [insertLe]
  | cons y ys ih =>
    simp only [insertLe]
    split
    · simp
    · simp [ih]; constructor
      · rintro (h | h | h) <;> simp [h]
      · rintro (h | h | h) <;> simp [h]

theorem mem_stableSort {α} (le : α → α → Bool) (z : α) (l : List α) :
    z ∈ stableSort le l ↔ z ∈ l := by
  induction l with
  | nil => simp [stableSort]
  | cons x xs ih =>
    simp only [stableSort, List.foldr] at ih ⊢
    rw [mem_insertLe, ih]; simp

/-- insertion keeps a list sorted when `le` is total and transitive on the carrier. -/
theorem pairwise_insertLe {α} (le : α → α → Bool) (Q : α → Prop)
    (total : ∀ a b, Q a → Q b → le a b = false → le b a = true)
    (trans : ∀ a b c, Q a → Q b → Q c → le a b = true → le b c = true → le a c = true)
    (x : α) (l : List α) (hx : Q x) (hl : ∀ y ∈ l, Q y)
    (h : l.Pairwise (fun a b => le a b = true)) :
    (insertLe le x l).Pairwise (fun a b => le a b = true) := by
  induction l with
  | nil => simp [insertLe]
  | cons y ys ih =>
    have hy : Q y := hl y (by simp)
    have hys : ∀ z ∈ ys, Q z := fun z hz => hl z (by simp [hz])
    rw [List.pairwise_cons] at h
    simp only [insertLe]
    split
    · rename_i hle
      rw [List.pairwise_cons]
      refine ⟨?_, List.pairwise_cons.2 h⟩
      intro z hz
      rcases List.mem_cons.1 hz with e | hz'
      · subst e; exact hle
      · exact trans x y z hx hy (hys z hz') hle (h.1 z hz')
    · rename_i hnle
      have hyx : le y x = true := total x y hx hy (by simpa using hnle)
      rw [List.pairwise_cons]
      refine ⟨?_, ih hys h.2⟩
      intro z hz
      rcases (mem_insertLe le x z ys).1 hz with e | hz'
      · subst e; exact hyx
      · exact h.1 z hz'

theorem pairwise_stableSort {α} (le : α → α → Bool) (Q : α → Prop)
    (total : ∀ a b, Q a → Q b → le a b = false → le b a = true)
    (trans : ∀ a b c, Q a → Q b → Q c → le a b = true → le b c = true → le a c = true)
    (l : List α) (hl : ∀ y ∈ l, Q y) :
    (stableSort le l).Pairwise (fun a b => le a b = true) := by
  induction l with
  | nil => simp [stableSort]
  | cons x xs ih =>
    have hxs : ∀ z ∈ xs, Q z := fun z hz => hl z (by simp [hz])
    simp only [stableSort, List.foldr] at ih ⊢
    exact pairwise_insertLe le Q total trans x _ (hl x (by simp))
      (fun y hy => hxs y ((mem_stableSort le y xs).1 hy)) (ih hxs)

/-! ### the merge loop on a list sorted by data -/

section merge
variable {P : Tuple → Prop} (L : LawfulOn P Tuple.cmp)
include L

def WFU (P : Tuple → Prop) (l : List Upd) : Prop := ∀ u ∈ l, P u.data

theorem leData_total (a b : Upd) (ha : P a.data) (hb : P b.data) (h : leData a b = false) : leData b a = true := by
  simp only [leData, bne_iff_ne, ne_eq, bne_eq_false_iff_eq] at *
  rw [L.swap a.data b.data ha hb, h]; decide

theorem leData_trans (a b c : Upd) (ha : P a.data) (hb : P b.data) (hc : P c.data)
    (h1 : leData a b = true) (h2 : leData b c = true) : leData a c = true := by
  simp only [leData, bne_iff_ne, ne_eq] at *
  exact L.trans _ _ _ ha hb hc h1 h2

omit L in
theorem sameData_iff (a b : Upd) : sameData a b = true ↔ a.data = b.data := by
  unfold sameData Tuple.eq
  have : ∀ x y : Tuple, listAll2 Value.eq x y = true ↔ x = y := by
    intro x
    induction x with
    | nil => intro y; cases y <;> simp [listAll2]
    | cons v vs ih =>
      intro y
      cases y with
      | nil => simp [listAll2]
      | cons w ws =>
        have hv : Value.eq v w = true ↔ v = w := by cases v <;> cases w <;> simp [Value.eq]
        simp [listAll2, hv, ih ws]
  exact this _ _

/-- if `cur ≤` everything in `rest` (sorted) and `cur.data ≠` the head's data, `cur.data` does not occur in `rest`. -/
theorem sumFor_zero_of_lt (cur : Upd) (rest : List Upd) (hc : P cur.data) (hr : WFU P rest)
    (hlt : ∀ u ∈ rest, Tuple.cmp cur.data u.data = .lt) : sumFor cur.data rest = 0 := by
  induction rest with
  | nil => rfl
  | cons u us ih =>
    have hu : P u.data := hr u (by simp)
    have hne : u.data ≠ cur.data := by
      intro e
      have := hlt u (by simp)
      rw [e, L.refl _ hc] at this; cases this
    simp only [sumFor, hne, if_false]
    rw [ih (fun w hw => hr w (by simp [hw])) (fun w hw => hlt w (by simp [hw]))]; rfl

theorem mergeRun_spec : ∀ (rest : List Upd) (cur : Upd), P cur.data → WFU P rest →
    (cur :: rest).Pairwise (fun a b => leData a b = true) →
    (∀ t, sumFor t (mergeRun sameData cur rest) = sumFor t (cur :: rest)) ∧
    (∀ u ∈ mergeRun sameData cur rest, u.diff ≠ 0 ∧ (u.data = cur.data ∨ ∃ v ∈ rest, u.data = v.data)) ∧
    (mergeRun sameData cur rest).Pairwise (fun a b => Tuple.cmp a.data b.data = .lt) := by
  intro rest
  induction rest with
  | nil =>
    intro cur _ _ _
    simp only [mergeRun]
    split <;> rename_i h
    · refine ⟨fun t => rfl, ?_, by simp⟩
      intro u hu; simp at hu; subst hu; simp at h; exact ⟨h, Or.inl rfl⟩
    · refine ⟨?_, by simp, by simp⟩
      intro t; simp at h; simp [sumFor, h]
  | cons u us ih =>
    intro cur hc hr hs
    have hu : P u.data := hr u (by simp)
    have hus : WFU P us := fun w hw => hr w (by simp [hw])
    rw [List.pairwise_cons] at hs
    obtain ⟨hcur, hs'⟩ := hs
    simp only [mergeRun]
    by_cases hsame : sameData cur u = true
    · -- same data: accumulate
      simp only [hsame, if_true]
      have hd : cur.data = u.data := (sameData_iff cur u).1 hsame
      have hs'' : (({ cur with diff := cur.diff + u.diff } : Upd) :: us).Pairwise (fun a b => leData a b = true) := by
        rw [List.pairwise_cons]
        refine ⟨?_, (List.pairwise_cons.1 hs').2⟩
        intro w hw
        have := hcur w (by simp [hw])
        simpa [leData] using this
      obtain ⟨i1, i2, i3⟩ := ih { cur with diff := cur.diff + u.diff } hc hus hs''
      refine ⟨?_, ?_, i3⟩
      · intro t
        rw [i1 t]
        simp only [sumFor]
        rw [← hd]
        split <;> omega
      · intro w hw
        obtain ⟨a, b⟩ := i2 w hw
        refine ⟨a, ?_⟩
        rcases b with b | ⟨v, hv, b⟩
        · exact Or.inl b
        · exact Or.inr ⟨v, by simp [hv], b⟩
    · -- different data: emit cur (if non-zero) and restart at u
      have hsf : sameData cur u = false := by simpa using hsame
      simp only [hsf, Bool.false_eq_true, ↓reduceIte]
      have hne : cur.data ≠ u.data := fun e => hsame ((sameData_iff cur u).2 e)
      have hltu : Tuple.cmp cur.data u.data = .lt := by
        have hle := hcur u (by simp)
        simp only [leData, bne_iff_ne, ne_eq] at hle
        cases hcmp : Tuple.cmp cur.data u.data with
        | lt => rfl
        | gt => exact absurd hcmp hle
        | eq => exact absurd ((L.eq_iff _ _ hc hu).1 hcmp) hne
      have hlt_all : ∀ w ∈ u :: us, Tuple.cmp cur.data w.data = .lt := by
        intro w hw
        rcases List.mem_cons.1 hw with e | hw'
        · subst e; exact hltu
        · have huw := (List.pairwise_cons.1 hs').1 w hw'
          simp only [leData, bne_iff_ne, ne_eq] at huw
          exact L.lt_of_lt_of_le hc hu (hus w hw') hltu huw
      obtain ⟨i1, i2, i3⟩ := ih u hu hus hs'
      have hz : sumFor cur.data (u :: us) = 0 := sumFor_zero_of_lt L cur (u :: us) hc hr hlt_all
      have hout_lt : ∀ w ∈ mergeRun sameData u us, Tuple.cmp cur.data w.data = .lt := by
        intro w hw
        rcases (i2 w hw).2 with e | ⟨v, hv, e⟩
        · rw [e]; exact hltu
        · rw [e]; exact hlt_all v (by simp [hv])
      refine ⟨?_, ?_, ?_⟩
      · intro t
        rw [sumFor_append, i1 t]
        by_cases hd0 : cur.diff = 0
        · simp [hd0, sumFor]
        · simp [hd0, sumFor]
      · intro w hw
        rcases List.mem_append.1 hw with h | h
        · split at h
          · simp at h; subst h; rename_i hnz; simp at hnz; exact ⟨hnz, Or.inl rfl⟩
          · simp at h
        · obtain ⟨a, b⟩ := i2 w h
          refine ⟨a, Or.inr ?_⟩
          rcases b with b | ⟨v, hv, b⟩
          · exact ⟨u, by simp, b⟩
          · exact ⟨v, by simp [hv], b⟩
      · rw [List.pairwise_append]
        refine ⟨by split <;> simp, i3, ?_⟩
        intro a ha b hb
        split at ha
        · simp at ha; subst ha; exact hout_lt b hb
        · simp at ha

end merge

end ILV
