/-
  The builder invariant for C21_partial: every node of the DAG is locally valid (`NodeOK`), the memo
  table points at nodes with the right conclusion; monotonicity under appending nodes; the bridge from
  the DAG invariant to `valid` on the unfolded tree.
-/
import ILV.Lemmas.ProvBuild
namespace ILV.Prov
open ILV

def NodeKind.isNeg : NodeKind → Bool
  | .neg _ => true
  | _ => false

/-- children (node ids) against the child-owning literals, in the node table `ns`. -/
def KidsOK (base M : DB) (ns : List Node) (β : Bindings) : List Lit → List Nat → Prop
  | [], [] => True
  | .pos a :: ls, k :: ks =>
    (∃ kn, ns[k]? = some kn ∧ kn.pred = a.rel ∧ argsMatch β a.args kn.args = true ∧ kn.kind.isNeg = false) ∧
    KidsOK base M ns β ls ks
  | .neg a :: ls, k :: ks =>
    (∃ kn, ns[k]? = some kn ∧ kn.kind = .neg (substituteAtom a β) ∧ kn.pred = a.rel ∧
      kn.args = concPart (substituteAtom a β) ∧ AtomClosed β a ∧
      (world base M a.rel).all (fun t => !negBlockedBy β a t) = true) ∧
    KidsOK base M ns β ls ks
  | _, _ => False

def NodeOK (prog : Program) (base M : DB) (ns : List Node) (i : Nat) (n : Node) : Prop :=
  (∀ k ∈ n.children, k < i) ∧
  match n.kind with
  | .fact .edb => memL n.args (base.get n.pred) = true ∧ n.children = []
  | .fact .derived => memL n.args (world base M n.pred) = true ∧ n.children = []
  | .trunc _ => n.children = []
  | .neg _ => n.children = []
  | .rule idx β => ∃ r, prog[idx]? = some r ∧ r.head.rel = n.pred ∧ headMatches β r.head.args n.args = true ∧
      cmpsHold β r.body = true ∧ KidsOK base M ns β (r.body.filter Lit.needsChild) n.children

structure BInv (prog : Program) (base M : DB) (b : Builder) : Prop where
  nodes : ∀ i n, b.nodes[i]? = some n → NodeOK prog base M b.nodes i n
  seen : ∀ key id, (key, id) ∈ b.seen → ∃ n, b.nodes[id]? = some n ∧ n.pred = key.1 ∧ n.args = key.2 ∧ n.kind.isNeg = false

def Pre (b b' : Builder) : Prop := b.nodes <+: b'.nodes

theorem Pre.refl (b : Builder) : Pre b b := List.prefix_refl _
theorem Pre.trans {a b c : Builder} (h1 : Pre a b) (h2 : Pre b c) : Pre a c := List.IsPrefix.trans h1 h2

theorem prefix_getElem? {α} {l l' : List α} (h : l <+: l') (i : Nat) (x : α) (hx : l[i]? = some x) : l'[i]? = some x := by
  obtain ⟨t, rfl⟩ := h
  have hi : i < l.length := by
    rcases Nat.lt_or_ge i l.length with h | h
    · exact h
    · rw [List.getElem?_eq_none h] at hx; cases hx
  rw [List.getElem?_append_left hi]; exact hx

theorem KidsOK_mono (base M : DB) (ns ns' : List Node) (h : ns <+: ns') (β : Bindings) :
    ∀ (ls : List Lit) (ks : List Nat), KidsOK base M ns β ls ks → KidsOK base M ns' β ls ks
  | [], [], _ => trivial
  | [], _ :: _, hk => by simp [KidsOK] at hk
  | .pos a :: ls, [], hk => by simp [KidsOK] at hk
  | .neg a :: ls, [], hk => by simp [KidsOK] at hk
  | .cmp _ _ _ :: ls, ks, hk => by cases ks <;> simp [KidsOK] at hk
  | .other :: ls, ks, hk => by cases ks <;> simp [KidsOK] at hk
  | .pos a :: ls, k :: ks, hk => by
    simp only [KidsOK] at hk ⊢
    obtain ⟨⟨kn, h1, h2⟩, hr⟩ := hk
    exact ⟨⟨kn, prefix_getElem? h k kn h1, h2⟩, KidsOK_mono base M ns ns' h β ls ks hr⟩
  | .neg a :: ls, k :: ks, hk => by
    simp only [KidsOK] at hk ⊢
    obtain ⟨⟨kn, h1, h2⟩, hr⟩ := hk
    exact ⟨⟨kn, prefix_getElem? h k kn h1, h2⟩, KidsOK_mono base M ns ns' h β ls ks hr⟩

theorem NodeOK_mono (prog : Program) (base M : DB) (ns ns' : List Node) (h : ns <+: ns') (i : Nat) (n : Node)
    (hn : NodeOK prog base M ns i n) : NodeOK prog base M ns' i n := by
  unfold NodeOK at hn ⊢
  refine ⟨hn.1, ?_⟩
  have h2 := hn.2
  split at h2 <;> simp_all
  obtain ⟨r, h1, h2, h3, h4, h5⟩ := h2
  exact ⟨r, h1, h2, h3, h4, KidsOK_mono base M ns ns' h _ _ _ h5⟩

/-- a kid list transfers along an extension of the bindings. -/
theorem KidsOK_ext (base M : DB) (ns : List Node) (β β' : Bindings) (h : Ext β β') :
    ∀ (ls : List Lit) (ks : List Nat), KidsOK base M ns β ls ks → KidsOK base M ns β' ls ks
  | [], [], _ => trivial
  | [], _ :: _, hk => by simp [KidsOK] at hk
  | .pos a :: ls, [], hk => by simp [KidsOK] at hk
  | .neg a :: ls, [], hk => by simp [KidsOK] at hk
  | .cmp _ _ _ :: ls, ks, hk => by cases ks <;> simp [KidsOK] at hk
  | .other :: ls, ks, hk => by cases ks <;> simp [KidsOK] at hk
  | .pos a :: ls, k :: ks, hk => by
    simp only [KidsOK] at hk ⊢
    obtain ⟨⟨kn, h1, h2, h3, h4⟩, hr⟩ := hk
    exact ⟨⟨kn, h1, h2, argsMatch_ext β β' h a.args kn.args h3, h4⟩, KidsOK_ext base M ns β β' h ls ks hr⟩
  | .neg a :: ls, k :: ks, hk => by
    simp only [KidsOK] at hk ⊢
    obtain ⟨⟨kn, h1, h2, h3, h4, h5, h6⟩, hr⟩ := hk
    have hs := substituteAtom_ext β β' h a h5
    refine ⟨⟨kn, h1, by rw [hs]; exact h2, h3, by rw [hs]; exact h4, AtomClosed_ext β β' h a h5, ?_⟩,
      KidsOK_ext base M ns β β' h ls ks hr⟩
    simpa only [negBlockedBy, hs] using h6

theorem KidsOK_append (base M : DB) (ns : List Node) (β : Bindings) :
    ∀ (ls : List Lit) (ks : List Nat) (l : Lit) (k : Nat), KidsOK base M ns β ls ks → KidsOK base M ns β [l] [k] →
      KidsOK base M ns β (ls ++ [l]) (ks ++ [k])
  | [], [], l, k, _, h2 => h2
  | [], _ :: _, _, _, hk, _ => by simp [KidsOK] at hk
  | .pos a :: ls, [], _, _, hk, _ => by simp [KidsOK] at hk
  | .neg a :: ls, [], _, _, hk, _ => by simp [KidsOK] at hk
  | .cmp _ _ _ :: ls, ks, _, _, hk, _ => by cases ks <;> simp [KidsOK] at hk
  | .other :: ls, ks, _, _, hk, _ => by cases ks <;> simp [KidsOK] at hk
  | .pos a :: ls, k0 :: ks, l, k, hk, h2 => by
    simp only [List.cons_append, KidsOK] at hk ⊢
    exact ⟨hk.1, KidsOK_append base M ns β ls ks l k hk.2 h2⟩
  | .neg a :: ls, k0 :: ks, l, k, hk, h2 => by
    simp only [List.cons_append, KidsOK] at hk ⊢
    exact ⟨hk.1, KidsOK_append base M ns β ls ks l k hk.2 h2⟩

/-! ### builder operations -/

theorem BInv_empty (prog : Program) (base M : DB) : BInv prog base M {} :=
  ⟨fun i n h => by simp at h, fun k id h => by simp at h⟩

theorem getElem?_append_new {α} (l : List α) (x : α) : (l ++ [x])[l.length]? = some x := by simp

/-- appending a locally valid node keeps the invariant (memo table unchanged). -/
theorem BInv_insertUnique (prog : Program) (base M : DB) (b : Builder) (n : Node) (hb : BInv prog base M b)
    (hn : NodeOK prog base M b.nodes b.nodes.length n) :
    BInv prog base M (b.insertUnique n).2 ∧ Pre b (b.insertUnique n).2 ∧
      (b.insertUnique n).2.nodes[(b.insertUnique n).1]? = some n := by
  have hp : b.nodes <+: b.nodes ++ [n] := List.prefix_append _ _
  refine ⟨⟨?_, ?_⟩, hp, by simp [Builder.insertUnique]⟩
  · intro i m hi
    simp only [Builder.insertUnique] at hi ⊢
    by_cases hlt : i < b.nodes.length
    · rw [List.getElem?_append_left hlt] at hi
      exact NodeOK_mono prog base M _ _ hp i m (hb.nodes i m hi)
    · have : i = b.nodes.length := by
        rcases Nat.lt_or_ge b.nodes.length i with h | h
        · rw [List.getElem?_eq_none (by simp; omega)] at hi; cases hi
        · omega
      subst this
      simp at hi; subst hi
      exact NodeOK_mono prog base M _ _ hp _ _ hn
  · intro key id hk
    obtain ⟨m, h1, h2⟩ := hb.seen key id hk
    exact ⟨m, prefix_getElem? hp id m h1, h2⟩

theorem BInv_insertIncomplete (prog : Program) (base M : DB) (b : Builder) (n : Node) (hb : BInv prog base M b)
    (hn : NodeOK prog base M b.nodes b.nodes.length n) :
    BInv prog base M (b.insertIncomplete n).2 ∧ Pre b (b.insertIncomplete n).2 ∧
      (b.insertIncomplete n).2.nodes[(b.insertIncomplete n).1]? = some n := by
  obtain ⟨⟨h1, h2⟩, h3, h4⟩ := BInv_insertUnique prog base M b n hb hn
  exact ⟨⟨h1, h2⟩, h3, h4⟩

theorem BInv_insert (prog : Program) (base M : DB) (b : Builder) (n : Node) (hb : BInv prog base M b)
    (hn : NodeOK prog base M b.nodes b.nodes.length n) (hneg : n.kind.isNeg = false) :
    BInv prog base M (b.insert n).2 ∧ Pre b (b.insert n).2 ∧
      ∃ m, (b.insert n).2.nodes[(b.insert n).1]? = some m ∧ m.pred = n.pred ∧ m.args = n.args ∧ m.kind.isNeg = false := by
  unfold Builder.insert
  split
  · rename_i id hid
    refine ⟨hb, Pre.refl b, ?_⟩
    split at hid
    · obtain ⟨m, h1, h2, h3, h4⟩ := hb.seen (n.pred, n.args) id (lookup_mem _ _ _ hid)
      exact ⟨m, h1, h2, h3, h4⟩
    · cases hid
  · have hp : b.nodes <+: b.nodes ++ [n] := List.prefix_append _ _
    refine ⟨⟨?_, ?_⟩, hp, n, by simp, rfl, rfl, hneg⟩
    · intro i m hi
      simp only at hi ⊢
      by_cases hlt : i < b.nodes.length
      · rw [List.getElem?_append_left hlt] at hi
        exact NodeOK_mono prog base M _ _ hp i m (hb.nodes i m hi)
      · have : i = b.nodes.length := by
          rcases Nat.lt_or_ge b.nodes.length i with h | h
          · rw [List.getElem?_eq_none (by simp; omega)] at hi; cases hi
          · omega
        subst this
        simp at hi; subst hi
        exact NodeOK_mono prog base M _ _ hp _ _ hn
    · intro key id hk
      simp only [List.mem_cons] at hk
      rcases hk with hk | hk
      · cases hk
        exact ⟨n, by simp, rfl, rfl, hneg⟩
      · obtain ⟨m, h1, h2⟩ := hb.seen key id hk
        exact ⟨m, prefix_getElem? hp id m h1, h2⟩

theorem BInv_insertRule (prog : Program) (base M : DB) (b : Builder) (n : Node) (hb : BInv prog base M b)
    (hn : NodeOK prog base M b.nodes b.nodes.length n) (hneg : n.kind.isNeg = false) :
    BInv prog base M (b.insertRule n).2 ∧ Pre b (b.insertRule n).2 ∧
      ∃ m, (b.insertRule n).2.nodes[(b.insertRule n).1]? = some m ∧ m.pred = n.pred ∧ m.args = n.args ∧ m.kind.isNeg = false := by
  unfold Builder.insertRule
  split
  · obtain ⟨h1, h2, h3⟩ := BInv_insertIncomplete prog base M b n hb hn
    exact ⟨h1, h2, n, h3, rfl, rfl, hneg⟩
  · exact BInv_insert prog base M b n hb hn hneg

end ILV.Prov
