/-
  Invariants of the storage model (ILV.Model.Store) under every operation, for a codec that is the
  identity on the tuples in use:

  * `PInv`  — persist-level consistency (meta file = memory, WAL ↔ buffers, everything stored is "good");
  * `Maint` — what a maintenance step (flush / save / compact / WAL-size flush) may change: nothing but
    the arrangement of the log; per-tuple sums, live state, arities and the clock are untouched.
-/
import ILV.Lemmas.Consolidate
namespace ILV.Store
open ILV ILV.Batch ILV.Props.C31

/-! ### association lists -/

theorem aget_aset {β} (m : List (String × β)) (k k' : String) (v : β) :
    aget (aset m k v) k' = if k' = k then some v else aget m k' := by
  induction m with
  | nil =>
    simp only [aset, aget]
    by_cases h : k' = k
    · simp [h]
    · have : k ≠ k' := fun e => h e.symm
      simp [h, this]
  | cons p m ih =>
    obtain ⟨a, b⟩ := p
    simp only [aset]
    by_cases hak : a = k
    · subst hak
      simp only [if_true, aget]
      by_cases h : k' = a
      · simp [h]
      · have : a ≠ k' := fun e => h e.symm
        simp [h, this]
    · simp only [hak, if_false, aget]
      by_cases hak' : a = k'
      · subst hak'
        simp [hak]
      · simp [hak', ih]

def keys {β} (m : List (String × β)) : List String := m.map (·.1)

theorem aget_none_of_not_mem {β} (m : List (String × β)) (k : String) (h : k ∉ keys m) : aget m k = none := by
  induction m with
  | nil => rfl
  | cons p m ih =>
    obtain ⟨a, b⟩ := p
    simp only [keys, List.map_cons, List.mem_cons, not_or] at h
    have : a ≠ k := fun e => h.1 e.symm
    simp only [aget, this, if_false]
    exact ih h.2

theorem aget_some_mem {β} (m : List (String × β)) (k : String) (v : β) (h : aget m k = some v) : (k, v) ∈ m := by
  induction m with
  | nil => simp [aget] at h
  | cons p m ih =>
    obtain ⟨a, b⟩ := p
    simp only [aget] at h
    by_cases hak : a = k
    · simp only [hak, if_true, Option.some.injEq] at h; simp [hak, h]
    · simp only [hak, if_false] at h; simp [ih h]

theorem mem_keys_aset {β} (m : List (String × β)) (k k' : String) (v : β) :
    k' ∈ keys (aset m k v) ↔ k' = k ∨ k' ∈ keys m := by
  induction m with
  | nil => simp [aset, keys]
  | cons p m ih =>
    obtain ⟨a, b⟩ := p
    simp only [aset]
    by_cases hak : a = k
    · subst hak; simp [keys]
    · simp only [hak, if_false]
      simp only [keys, List.map_cons, List.mem_cons] at ih ⊢
      rw [ih]
      constructor
      · rintro (h | h | h) <;> simp [h]
      · rintro (h | h | h) <;> simp [h]

theorem keys_nodup_aset {β} (m : List (String × β)) (k : String) (v : β) (h : (keys m).Nodup) :
    (keys (aset m k v)).Nodup := by
  induction m with
  | nil => simp [aset, keys]
  | cons p m ih =>
    obtain ⟨a, b⟩ := p
    simp only [keys, List.map_cons, List.nodup_cons] at h
    simp only [aset]
    by_cases hak : a = k
    · subst hak; simp only [if_true, keys, List.map_cons, List.nodup_cons]; exact h
    · simp only [hak, if_false, keys, List.map_cons, List.nodup_cons]
      refine ⟨?_, ih h.2⟩
      intro hm
      have := (mem_keys_aset m k a v).1 hm
      rcases this with e | e
      · exact hak e
      · exact h.1 e

theorem aget_map {β γ} (m : List (String × β)) (f : β → γ) (k : String) :
    aget (m.map (fun p => (p.1, f p.2))) k = (aget m k).map f := by
  induction m with
  | nil => rfl
  | cons p m ih =>
    obtain ⟨a, b⟩ := p
    simp only [List.map_cons, aget]
    by_cases hak : a = k <;> simp [hak, ih]

theorem keys_map {β γ} (m : List (String × β)) (f : β → γ) : keys (m.map (fun p => (p.1, f p.2))) = keys m := by
  simp [keys, List.map_map, Function.comp_def]

theorem aget_filter {β} (m : List (String × β)) (q : β → Bool) (k : String) (h : (keys m).Nodup) :
    aget (m.filter (fun p => q p.2)) k = (aget m k).filter q := by
  induction m with
  | nil => rfl
  | cons p m ih =>
    obtain ⟨a, b⟩ := p
    simp only [keys, List.map_cons, List.nodup_cons] at h
    by_cases hak : a = k
    · subst hak
      have hn : aget m a = none := aget_none_of_not_mem m a h.1
      by_cases hq : q b = true
      · simp [List.filter, hq, aget, Option.filter]
      · simp only [Bool.not_eq_true] at hq
        simp [List.filter, hq, aget, Option.filter, ih h.2, hn]
    · by_cases hq : q b = true
      · simp [List.filter, hq, aget, hak, ih h.2]
      · simp only [Bool.not_eq_true] at hq
        simp [List.filter, hq, aget, hak, ih h.2]

/-! ### views of the engine state -/

def shardOf (e : Engine) (r : String) : Shard := (aget e.shards r).getD {}
def logOf (e : Engine) (r : String) : List Update := readShard (shardOf e r)
def bufferOf (e : Engine) (r : String) : List Update := (shardOf e r).buffer
def walFor (w : List (String × Update)) (r : String) : List Update := (w.filter (fun p => p.1 = r)).map (·.2)

theorem walFor_append (a b : List (String × Update)) (r : String) : walFor (a ++ b) r = walFor a r ++ walFor b r := by
  simp [walFor]

theorem walFor_ents_same (s : String) (us : List Update) : walFor (us.map (fun u => (s, u))) s = us := by
  induction us with
  | nil => rfl
  | cons u us ih => simp only [walFor, List.map_cons, List.filter] at ih ⊢; simp [ih]

theorem walFor_ents_other (s r : String) (us : List Update) (h : r ≠ s) : walFor (us.map (fun u => (s, u))) r = [] := by
  induction us with
  | nil => rfl
  | cons u us ih =>
    have : s ≠ r := fun e => h e.symm
    simp only [walFor, List.map_cons, List.filter] at ih ⊢; simp [this, ih]

theorem eq_nil_of_walFor_nil (w : List (String × Update)) (h : ∀ r, walFor w r = []) : w = [] := by
  cases w with
  | nil => rfl
  | cons p ps =>
    have := h p.1
    simp [walFor, List.filter] at this

theorem shardOf_setShard (e : Engine) (s r : String) (sh : Shard) :
    shardOf (setShard e s sh) r = if r = s then sh else shardOf e r := by
  unfold shardOf setShard
  simp only [aget_aset]
  by_cases h : r = s <;> simp [h]

/-! ### the invariants -/

/-- the codec is the identity on the tuples a predicate `G` (per relation) allows. -/
structure CodecOk (c : Codec) (G : String → Tuple → Prop) : Prop where
  wal : ∀ r u, G r u.data → c.wal u = some u
  batch : ∀ r us, (∀ u ∈ us, G r u.data) → c.batch us = .ok us

structure PInv (G : String → Tuple → Prop) (e : Engine) : Prop where
  notDead : e.dead = false
  keysNodup : (keys e.shards).Nodup
  disk : ∀ r, (shardOf e r).diskBatches = (shardOf e r).batches
  good : ∀ r, ∀ u ∈ logOf e r, G r u.data
  walGood : ∀ p ∈ e.wal ++ e.walBuf, G p.1 p.2.data
  walEmpty : ∀ r, bufferOf e r = [] → walFor (e.wal ++ e.walBuf) r = []
  walImm : e.cfg.mode = .immediate → e.walBuf = [] ∧ ∀ r, walFor e.wal r = bufferOf e r

structure Maint (e e' : Engine) : Prop where
  cfg : e'.cfg = e.cfg
  live : e'.live = e.live
  arity : e'.arity = e.arity
  time : e'.time = e.time
  sums : ∀ r t, sumOf t (logOf e' r) = sumOf t (logOf e r)
  keysMono : ∀ k, (aget e.shards k).isSome → (aget e'.shards k).isSome

theorem Maint.refl (e : Engine) : Maint e e := ⟨rfl, rfl, rfl, rfl, fun _ _ => rfl, fun _ h => h⟩

theorem Maint.trans {a b d : Engine} (h1 : Maint a b) (h2 : Maint b d) : Maint a d :=
  ⟨h2.cfg.trans h1.cfg, h2.live.trans h1.live, h2.arity.trans h1.arity, h2.time.trans h1.time,
   fun r t => (h2.sums r t).trans (h1.sums r t), fun k h => h2.keysMono k (h1.keysMono k h)⟩

theorem walRead_id {c : Codec} {G} (hc : CodecOk c G) (w : List (String × Update))
    (hw : ∀ p ∈ w, G p.1 p.2.data) : walRead c w = w := by
  induction w with
  | nil => rfl
  | cons p ps ih =>
    have h1 := hc.wal p.1 p.2 (hw p (by simp))
    have h2 := ih (fun q hq => hw q (by simp [hq]))
    unfold walRead at h2 ⊢
    simp [h1, h2]

theorem walFor_filter_ne (w : List (String × Update)) (s r : String) :
    walFor (w.filter (fun p => p.1 != s)) r = if r = s then [] else walFor w r := by
  induction w with
  | nil => simp [walFor]
  | cons p ps ih =>
    by_cases hps : p.1 = s
    · have : (p.1 != s) = false := by simp [hps]
      simp only [List.filter, this]
      rw [ih]
      by_cases hrs : r = s
      · simp [hrs]
      · have : p.1 ≠ r := by rw [hps]; exact fun e => hrs e.symm
        simp [hrs, walFor, List.filter, this]
    · have : (p.1 != s) = true := by simp [hps]
      simp only [List.filter, this]
      by_cases hrs : r = s
      · subst hrs
        have hh : walFor (p :: List.filter (fun p => p.1 != r) ps) r = walFor (List.filter (fun p => p.1 != r) ps) r := by
          simp [walFor, List.filter, hps]
        rw [hh, ih]; simp
      · by_cases hpr : p.1 = r
        · have e1 : walFor (p :: List.filter (fun p => p.1 != s) ps) r = p.2 :: walFor (List.filter (fun p => p.1 != s) ps) r := by
            simp [walFor, List.filter, hpr]
          have e2 : walFor (p :: ps) r = p.2 :: walFor ps r := by simp [walFor, List.filter, hpr]
          rw [e1, e2, ih]; simp [hrs]
        · have e1 : walFor (p :: List.filter (fun p => p.1 != s) ps) r = walFor (List.filter (fun p => p.1 != s) ps) r := by
            simp [walFor, List.filter, hpr]
          have e2 : walFor (p :: ps) r = walFor ps r := by simp [walFor, List.filter, hpr]
          rw [e1, e2, ih]

theorem shardOf_of_aget {e : Engine} {s : String} {sh : Shard} (h : aget e.shards s = some sh) : shardOf e s = sh := by
  simp [shardOf, h]

/-- `flush` of an existing shard: no error, invariant kept, the log of every relation is literally the same list. -/
theorem flush_spec {c : Codec} {G} (hc : CodecOk c G) (e : Engine) (s : String) (h : PInv G e)
    (hs : (aget e.shards s).isSome) :
    (flush c e s).2 = none ∧ PInv G (flush c e s).1 ∧ Maint e (flush c e s).1 ∧
    (∀ r, logOf (flush c e s).1 r = logOf e r) ∧
    (∀ r, bufferOf (flush c e s).1 r = if r = s then [] else bufferOf e r) := by
  unfold flush
  cases hsh : aget e.shards s with
  | none => rw [hsh] at hs; simp at hs
  | some sh =>
    have hshard : shardOf e s = sh := shardOf_of_aget hsh
    simp only
    by_cases hb : sh.buffer.isEmpty = true
    · simp only [hb, if_true]
      refine ⟨trivial, h, Maint.refl e, fun _ => trivial, ?_⟩
      intro r
      by_cases hr : r = s
      · subst hr; simp only [if_true, bufferOf, hshard]; simpa using hb
      · simp [hr]
    · simp only [hb]
      have hgoodbuf : ∀ u ∈ sh.buffer, G s u.data := by
        intro u hu
        apply h.good s u
        simp only [logOf, readShard, hshard, List.mem_append]; right; exact hu
      rw [hc.batch s sh.buffer hgoodbuf]
      simp only [Bool.false_eq_true, if_false]
      have hwalid : walRead c e.wal = e.wal := walRead_id hc e.wal (fun p hp => h.walGood p (by simp [hp]))
      generalize he' : ({ e with shards := aset e.shards s (flushedShard sh sh.buffer), wal := walRemove c e.wal s, walBuf := [] } : Engine) = e'
      have hsh' : e'.shards = aset e.shards s (flushedShard sh sh.buffer) := by rw [← he']
      have hwal' : e'.wal = (e.wal).filter (fun p => p.1 != s) := by rw [← he']; simp [walRemove, hwalid]
      have hwb' : e'.walBuf = [] := by rw [← he']
      have hshardOf : ∀ r, shardOf e' r = if r = s then flushedShard sh sh.buffer else shardOf e r := by
        intro r
        simp only [shardOf, hsh', aget_aset]
        by_cases hr : r = s <;> simp [hr]
      have hlog : ∀ r, logOf e' r = logOf e r := by
        intro r
        simp only [logOf, hshardOf]
        by_cases hr : r = s
        · subst hr; simp [readShard, hshard, flushedShard]
        · simp [hr]
      have hbuf : ∀ r, bufferOf e' r = if r = s then [] else bufferOf e r := by
        intro r
        simp only [bufferOf, hshardOf]
        by_cases hr : r = s <;> simp [hr, flushedShard]
      refine ⟨trivial, ?_, ?_, hlog, hbuf⟩
      · refine ⟨by rw [← he']; exact h.notDead, by rw [hsh']; exact keys_nodup_aset _ _ _ h.keysNodup, ?_, ?_, ?_, ?_, ?_⟩
        · intro r
          rw [hshardOf]
          by_cases hr : r = s
          · simp [hr, flushedShard]
          · simp only [hr, if_false]; exact h.disk r
        · intro r u hu; rw [hlog] at hu; exact h.good r u hu
        · intro p hp
          rw [hwal', hwb', List.append_nil, List.mem_filter] at hp
          exact h.walGood p (by simp [hp.1])
        · intro r hr
          rw [hwal', hwb', List.append_nil, walFor_filter_ne]
          by_cases hrs : r = s
          · simp [hrs]
          · simp only [hrs, if_false]
            rw [hbuf] at hr
            simp only [hrs, if_false] at hr
            have := h.walEmpty r hr
            rw [walFor_append] at this
            exact (List.append_eq_nil_iff.1 this).1
        · intro hm
          have hcfg : e'.cfg = e.cfg := by rw [← he']
          rw [hcfg] at hm
          have := h.walImm hm
          refine ⟨hwb', ?_⟩
          intro r
          rw [hwal', walFor_filter_ne, hbuf]
          by_cases hrs : r = s
          · simp [hrs]
          · simp only [hrs, if_false]; exact this.2 r
      · refine ⟨by rw [← he'], by rw [← he'], by rw [← he'], by rw [← he'], fun r t => by rw [hlog], ?_⟩
        intro k hk
        rw [hsh']
        simp only [aget_aset]
        by_cases hks : k = s <;> simp [hks, hk]

theorem flushMany_spec {c : Codec} {G} (hc : CodecOk c G) : ∀ (names : List String) (e : Engine), PInv G e →
    (∀ s ∈ names, (aget e.shards s).isSome) →
    (flushMany c e names).2 = none ∧ PInv G (flushMany c e names).1 ∧ Maint e (flushMany c e names).1 ∧
    (∀ r, logOf (flushMany c e names).1 r = logOf e r) ∧
    (∀ r, bufferOf (flushMany c e names).1 r = if r ∈ names then [] else bufferOf e r) := by
  intro names
  induction names with
  | nil => intro e h _; exact ⟨rfl, h, Maint.refl e, fun _ => rfl, fun r => by simp [flushMany]⟩
  | cons s ss ih =>
    intro e h hs
    obtain ⟨f1, f2, f3, f4, f5⟩ := flush_spec hc e s h (hs s (by simp))
    have hfl : flush c e s = ((flush c e s).1, none) := by rw [← f1]
    have hs' : ∀ x ∈ ss, (aget (flush c e s).1.shards x).isSome := fun x hx => f3.keysMono x (hs x (by simp [hx]))
    obtain ⟨g1, g2, g3, g4, g5⟩ := ih (flush c e s).1 f2 hs'
    have hdef : flushMany c e (s :: ss) = flushMany c (flush c e s).1 ss := by
      conv => lhs; unfold flushMany
      rw [hfl]
    rw [hdef]
    refine ⟨g1, g2, f3.trans g3, fun r => (g4 r).trans (f4 r), ?_⟩
    intro r
    rw [g5, f5]
    by_cases h1 : r ∈ ss
    · simp [h1]
    · by_cases h2 : r = s <;> simp [h1, h2]

theorem aget_isSome_of_mem_keys {β} (m : List (String × β)) (k : String) (h : k ∈ keys m) : (aget m k).isSome := by
  induction m with
  | nil => simp [keys] at h
  | cons q m ih =>
    simp only [aget]
    by_cases hq : q.1 = k
    · simp [hq]
    · simp only [hq, if_false]
      simp only [keys, List.map_cons, List.mem_cons] at h
      rcases h with e1 | e1
      · exact absurd e1.symm hq
      · exact ih e1

theorem mem_dirty_isSome (e : Engine) (s : String) (h : s ∈ dirty e) : (aget e.shards s).isSome := by
  apply aget_isSome_of_mem_keys
  unfold dirty at h
  rw [List.mem_map] at h
  obtain ⟨p, hp, rfl⟩ := h
  rw [List.mem_filter] at hp
  exact List.mem_map.2 ⟨p, hp.1, rfl⟩

theorem mem_shardNames_isSome (e : Engine) (s : String) (h : s ∈ shardNames e) : (aget e.shards s).isSome :=
  aget_isSome_of_mem_keys _ _ h

/-! ### `append` -/

theorem appendCore_spec {G} (e : Engine) (s : String) (us : List Update) (h : PInv G e)
    (hg : ∀ u ∈ us, G s u.data) :
    PInv G (appendCore e s us) ∧ (appendCore e s us).cfg = e.cfg ∧ (appendCore e s us).live = e.live ∧
    (appendCore e s us).arity = e.arity ∧ (appendCore e s us).time = e.time ∧
    (∀ r, logOf (appendCore e s us) r = if r = s then logOf e s ++ us else logOf e r) ∧
    (∀ k, (aget e.shards k).isSome → (aget (appendCore e s us).shards k).isSome) ∧
    (aget (appendCore e s us).shards s).isSome := by
  have hshardOf : ∀ r, shardOf (appendCore e s us) r =
      if r = s then { shardOf e s with buffer := (shardOf e s).buffer ++ us, upper := max (shardOf e s).upper (upperOf us) } else shardOf e r := by
    intro r
    simp only [shardOf, appendCore, aget_aset]
    by_cases hr : r = s <;> simp [hr]
  have hlog : ∀ r, logOf (appendCore e s us) r = if r = s then logOf e s ++ us else logOf e r := by
    intro r
    simp only [logOf, hshardOf]
    by_cases hr : r = s
    · simp [hr, readShard]
    · simp [hr]
  have hbuf : ∀ r, bufferOf (appendCore e s us) r = if r = s then bufferOf e s ++ us else bufferOf e r := by
    intro r
    simp only [bufferOf, hshardOf]
    by_cases hr : r = s <;> simp [hr]
  have hwal : (appendCore e s us).wal = (walAppend e (us.map (fun u => (s, u)))).1 := rfl
  have hwb : (appendCore e s us).walBuf = (walAppend e (us.map (fun u => (s, u)))).2 := rfl
  have hcfg : (appendCore e s us).cfg = e.cfg := rfl
  refine ⟨?_, rfl, rfl, rfl, rfl, hlog, ?_, ?_⟩
  · refine ⟨h.notDead, keys_nodup_aset _ _ _ h.keysNodup, ?_, ?_, ?_, ?_, ?_⟩
    · intro r
      rw [hshardOf]
      by_cases hr : r = s
      · subst hr; simp only [if_true]; exact h.disk r
      · simp only [hr, if_false]; exact h.disk r
    · intro r u hu
      rw [hlog] at hu
      by_cases hr : r = s
      · subst hr
        simp only [if_true, List.mem_append] at hu
        rcases hu with hu | hu
        · exact h.good r u hu
        · exact hg u hu
      · simp only [hr, if_false] at hu; exact h.good r u hu
    · intro p hp
      rw [hwal, hwb] at hp
      have hold : ∀ q ∈ e.wal ++ e.walBuf, G q.1 q.2.data := h.walGood
      have hents : ∀ q ∈ us.map (fun u => (s, u)), G q.1 q.2.data := by
        intro q hq; rw [List.mem_map] at hq; obtain ⟨u, hu, rfl⟩ := hq; exact hg u hu
      unfold walAppend at hp
      cases hm : e.cfg.mode <;> simp only [hm, List.mem_append] at hp
      · rcases hp with (hp | hp) | hp
        · exact hold p (by simp [hp])
        · exact hents p hp
        · exact hold p (by simp [hp])
      · rcases hp with hp | hp | hp
        · exact hold p (by simp [hp])
        · exact hold p (by simp [hp])
        · exact hents p hp
      · rcases hp with hp | hp
        · exact hold p (by simp [hp])
        · exact hold p (by simp [hp])
    · intro r hr
      rw [hbuf] at hr
      by_cases hrs : r = s
      · subst hrs
        simp only [if_true, List.append_eq_nil_iff] at hr
        have hus : us = [] := hr.2
        have := h.walEmpty r hr.1
        rw [hwal, hwb]; unfold walAppend
        subst hus
        cases hm : e.cfg.mode <;> simp only [List.map_nil, List.append_nil] <;> exact this
      · simp only [hrs, if_false] at hr
        have := h.walEmpty r hr
        rw [walFor_append] at this
        have h1 := (List.append_eq_nil_iff.1 this).1
        have h2 := (List.append_eq_nil_iff.1 this).2
        rw [hwal, hwb]; unfold walAppend
        cases hm : e.cfg.mode <;> simp only [walFor_append, h1, h2, walFor_ents_other s r us hrs, List.append_nil]
    · intro hm
      rw [hcfg] at hm
      have := h.walImm hm
      rw [hwal, hwb]; unfold walAppend
      simp only [hm]
      refine ⟨this.1, ?_⟩
      intro r
      rw [walFor_append, hbuf, this.2 r]
      by_cases hrs : r = s
      · subst hrs; simp [walFor_ents_same]
      · simp [hrs, walFor_ents_other s r us hrs]
  · intro k hk
    simp only [appendCore, aget_aset]
    by_cases hks : k = s <;> simp [hks, hk]
  · simp [appendCore, aget_aset]

/-- the effect of `append` on the log: the new updates are added, possibly followed by flushes. -/
theorem append_spec {c : Codec} {G} (hc : CodecOk c G) (e : Engine) (s : String) (us : List Update) (h : PInv G e)
    (hg : ∀ u ∈ us, G s u.data) :
    (append c e s us).2 = none ∧ PInv G (append c e s us).1 ∧
    (append c e s us).1.cfg = e.cfg ∧ (append c e s us).1.live = e.live ∧
    (append c e s us).1.arity = e.arity ∧ (append c e s us).1.time = e.time ∧
    (∀ r, logOf (append c e s us).1 r = if r = s then logOf e s ++ us else logOf e r) ∧
    (∀ k, (aget e.shards k).isSome → (aget (append c e s us).1.shards k).isSome) := by
  unfold append
  by_cases hemp : us.isEmpty = true
  · simp only [hemp, if_true]
    have : us = [] := by simpa using hemp
    subst this
    exact ⟨trivial, h, trivial, trivial, trivial, trivial, fun r => by by_cases hr : r = s <;> simp [hr], fun _ hk => hk⟩
  · simp only [hemp]
    obtain ⟨a1, a2, a3, a4, a5, a6, a7, a8⟩ := appendCore_spec e s us h hg
    simp only [Bool.false_eq_true, if_false]
    split
    · obtain ⟨f1, f2, f3, f4, _⟩ := flush_spec hc (appendCore e s us) s a1 a8
      exact ⟨f1, f2, f3.cfg.trans a2, f3.live.trans a3, f3.arity.trans a4, f3.time.trans a5,
        fun r => (f4 r).trans (a6 r), fun k hk => f3.keysMono k (a7 k hk)⟩
    · split
      · obtain ⟨f1, f2, f3, f4, _⟩ := flushMany_spec hc (dirty (appendCore e s us)) (appendCore e s us) a1
          (fun x hx => mem_dirty_isSome _ x hx)
        exact ⟨f1, f2, f3.cfg.trans a2, f3.live.trans a3, f3.arity.trans a4, f3.time.trans a5,
          fun r => (f4 r).trans (a6 r), fun k hk => f3.keysMono k (a7 k hk)⟩
      · exact ⟨rfl, a1, a2, a3, a4, a5, a6, a7⟩

/-! ### shard replacement, `ensure_shard`, compaction, sync -/

theorem PInv_setShard {G} {e : Engine} (h : PInv G e) (s : String) (sh' : Shard)
    (hb : sh'.buffer = bufferOf e s) (hd : sh'.diskBatches = sh'.batches)
    (hg : ∀ u ∈ readShard sh', G s u.data) : PInv G (setShard e s sh') := by
  have hbuf : ∀ r, bufferOf (setShard e s sh') r = bufferOf e r := by
    intro r
    simp only [bufferOf, shardOf_setShard]
    by_cases hr : r = s
    · subst hr; simp [hb, bufferOf]
    · simp [hr]
  refine ⟨h.notDead, keys_nodup_aset _ _ _ h.keysNodup, ?_, ?_, h.walGood, ?_, ?_⟩
  · intro r
    rw [shardOf_setShard]
    by_cases hr : r = s
    · simp [hr, hd]
    · simp only [hr, if_false]; exact h.disk r
  · intro r u hu
    simp only [logOf, shardOf_setShard] at hu
    by_cases hr : r = s
    · subst hr; simp only [if_true] at hu; exact hg u hu
    · simp only [hr, if_false] at hu; exact h.good r u hu
  · intro r hr; rw [hbuf] at hr; exact h.walEmpty r hr
  · intro hm
    have := h.walImm hm
    exact ⟨this.1, fun r => by rw [hbuf]; exact this.2 r⟩

theorem ensureShard_spec {G} (e : Engine) (s : String) (h : PInv G e) :
    PInv G (ensureShard e s) ∧ Maint e (ensureShard e s) ∧ (aget (ensureShard e s).shards s).isSome ∧
    (∀ r, logOf (ensureShard e s) r = logOf e r) := by
  unfold ensureShard
  cases hs : aget e.shards s with
  | some sh => exact ⟨h, Maint.refl e, by simp [hs], fun _ => rfl⟩
  | none =>
    have hsh : shardOf e s = {} := by simp [shardOf, hs]
    have hshardOf : ∀ r, shardOf (setShard e s {}) r = shardOf e r := by
      intro r
      rw [shardOf_setShard]
      by_cases hr : r = s
      · subst hr; simp [hsh]
      · simp [hr]
    have hlog : ∀ r, logOf (setShard e s {}) r = logOf e r := fun r => by simp only [logOf, hshardOf]
    refine ⟨?_, ⟨rfl, rfl, rfl, rfl, fun r t => by rw [hlog], ?_⟩, ?_, hlog⟩
    · refine PInv_setShard h s {} ?_ rfl ?_
      · simp [bufferOf, hsh]
      · intro u hu; simp [readShard] at hu
    · intro k hk
      simp only [setShard, aget_aset]
      by_cases hks : k = s <;> simp [hks, hk]
    · simp [setShard, aget_aset]

theorem compactShard_spec {c : Codec} {G} (hc : CodecOk c G) (e : Engine) (s : String) (h : PInv G e)
    (hs : (aget e.shards s).isSome) :
    (compactShard c e s).2 = none ∧ PInv G (compactShard c e s).1 ∧ Maint e (compactShard c e s).1 ∧
    (∀ r, bufferOf (compactShard c e s).1 r = if r = s then [] else bufferOf e r) := by
  obtain ⟨f1, f2, f3, f4, f5⟩ := flush_spec hc e s h hs
  have hfl : flush c e s = ((flush c e s).1, none) := by rw [← f1]
  unfold compactShard
  rw [hfl]
  simp only
  generalize (flush c e s).1 = e1 at f2 f3 f4 f5
  have hs1 := f3.keysMono s hs
  cases hsh : aget e1.shards s with
  | none => rw [hsh] at hs1; simp at hs1
  | some sh =>
    have hshard : shardOf e1 s = sh := shardOf_of_aget hsh
    simp only
    have hgoodF : ∀ u ∈ consolidate sh.batches.flatten, G s u.data := by
      intro u hu
      obtain ⟨y, hy, e'⟩ := consolidate_data_mem _ u hu
      rw [← e']
      apply f2.good s y
      simp only [logOf, readShard, hshard, List.mem_append]; left; exact hy
    have hbufsh : sh.buffer = bufferOf e1 s := by simp [bufferOf, hshard]
    have hgoodB : ∀ u ∈ sh.buffer, G s u.data := by
      intro u hu; apply f2.good s u
      simp only [logOf, readShard, hshard, List.mem_append]; right; exact hu
    by_cases hemp : (consolidate sh.batches.flatten).isEmpty = true
    · simp only [hemp, if_true]
      have hnil : consolidate sh.batches.flatten = [] := by simpa using hemp
      refine ⟨trivial, ?_, ?_, ?_⟩
      · refine PInv_setShard f2 s _ hbufsh rfl ?_
        intro u hu; simp only [readShard, List.flatten_nil, List.nil_append] at hu; exact hgoodB u hu
      · refine f3.trans ⟨rfl, rfl, rfl, rfl, ?_, ?_⟩
        · intro r t
          simp only [logOf, shardOf_setShard]
          by_cases hr : r = s
          · subst hr
            simp only [if_true, readShard, hshard, List.flatten_nil, List.nil_append, sumOf_append]
            have := sumOf_consolidate t sh.batches.flatten
            rw [hnil] at this
            simp only [sumOf_nil] at this
            omega
          · simp [hr]
        · intro k hk
          simp only [setShard, aget_aset]
          by_cases hks : k = s <;> simp [hks, hk]
      · intro r
        simp only [bufferOf, shardOf_setShard]
        by_cases hr : r = s
        · subst hr
          have := f5 r; simp only [if_true, bufferOf, hshard] at this
          simp [this]
        · have := f5 r; simp only [hr, if_false, bufferOf] at this
          simp [hr, this]
    · simp only [hemp]
      rw [hc.batch s _ hgoodF]
      simp only [Bool.false_eq_true, if_false]
      refine ⟨trivial, ?_, ?_, ?_⟩
      · refine PInv_setShard f2 s _ hbufsh rfl ?_
        intro u hu
        simp only [readShard, List.flatten_cons, List.flatten_nil, List.append_nil, List.mem_append] at hu
        rcases hu with hu | hu
        · exact hgoodF u hu
        · exact hgoodB u hu
      · refine f3.trans ⟨rfl, rfl, rfl, rfl, ?_, ?_⟩
        · intro r t
          simp only [logOf, shardOf_setShard]
          by_cases hr : r = s
          · subst hr
            simp only [if_true, readShard, hshard, List.flatten_cons, List.flatten_nil, List.append_nil, sumOf_append,
              sumOf_consolidate]
          · simp [hr]
        · intro k hk
          simp only [setShard, aget_aset]
          by_cases hks : k = s <;> simp [hks, hk]
      · intro r
        simp only [bufferOf, shardOf_setShard]
        by_cases hr : r = s
        · subst hr
          have := f5 r; simp only [if_true, bufferOf, hshard] at this
          simp [this]
        · have := f5 r; simp only [hr, if_false, bufferOf] at this
          simp [hr, this]

theorem compactMany_spec {c : Codec} {G} (hc : CodecOk c G) : ∀ (names : List String) (e : Engine), PInv G e →
    (∀ s ∈ names, (aget e.shards s).isSome) →
    (compactMany c e names).2 = none ∧ PInv G (compactMany c e names).1 ∧ Maint e (compactMany c e names).1 ∧
    (∀ r, bufferOf (compactMany c e names).1 r = if r ∈ names then [] else bufferOf e r) := by
  intro names
  induction names with
  | nil => intro e h _; exact ⟨rfl, h, Maint.refl e, fun r => by simp [compactMany]⟩
  | cons s ss ih =>
    intro e h hs
    obtain ⟨f1, f2, f3, f5⟩ := compactShard_spec hc e s h (hs s (by simp))
    have hfl : compactShard c e s = ((compactShard c e s).1, none) := by rw [← f1]
    have hs' : ∀ x ∈ ss, (aget (compactShard c e s).1.shards x).isSome := fun x hx => f3.keysMono x (hs x (by simp [hx]))
    obtain ⟨g1, g2, g3, g5⟩ := ih (compactShard c e s).1 f2 hs'
    have hdef : compactMany c e (s :: ss) = compactMany c (compactShard c e s).1 ss := by
      conv => lhs; unfold compactMany
      rw [hfl]
    rw [hdef]
    refine ⟨g1, g2, f3.trans g3, ?_⟩
    intro r
    rw [g5, f5]
    by_cases h1 : r ∈ ss
    · simp [h1]
    · by_cases h2 : r = s <;> simp [h1, h2]

theorem walSync_spec {G} (e : Engine) (h : PInv G e) :
    PInv G (walSync e) ∧ Maint e (walSync e) ∧ (∀ r, bufferOf (walSync e) r = bufferOf e r) ∧
    (∀ r, logOf (walSync e) r = logOf e r) := by
  refine ⟨⟨h.notDead, h.keysNodup, h.disk, h.good, ?_, ?_, ?_⟩, ⟨rfl, rfl, rfl, rfl, fun _ _ => rfl, fun _ hk => hk⟩,
    fun _ => rfl, fun _ => rfl⟩
  · intro p hp; simp only [walSync, List.append_nil] at hp; exact h.walGood p hp
  · intro r hr; simp only [walSync, List.append_nil]; exact h.walEmpty r hr
  · intro hm
    have := h.walImm hm
    refine ⟨rfl, fun r => ?_⟩
    simp only [walSync, this.1, List.append_nil]; exact this.2 r

theorem bufferOf_of_not_key (e : Engine) (r : String) (h : r ∉ shardNames e) : bufferOf e r = [] := by
  have : aget e.shards r = none := aget_none_of_not_mem _ _ h
  simp [bufferOf, shardOf, this]

/-- `save_all`: no error, a maintenance step, and afterwards every buffer is empty. -/
theorem saveAll_spec {c : Codec} {G} (hc : CodecOk c G) (e : Engine) (h : PInv G e) :
    (saveAll c e).2 = none ∧ PInv G (saveAll c e).1 ∧ Maint e (saveAll c e).1 ∧
    (∀ r, bufferOf (saveAll c e).1 r = []) := by
  obtain ⟨f1, f2, f3, _, f5⟩ := flushMany_spec hc (shardNames e) e h (fun s hs => mem_shardNames_isSome e s hs)
  have hfl : flushMany c e (shardNames e) = ((flushMany c e (shardNames e)).1, none) := by rw [← f1]
  unfold saveAll
  rw [hfl]
  simp only
  obtain ⟨w1, w2, w3, _⟩ := walSync_spec (flushMany c e (shardNames e)).1 f2
  refine ⟨trivial, w1, f3.trans w2, ?_⟩
  intro r
  rw [w3, f5]
  by_cases hr : r ∈ shardNames e
  · simp [hr]
  · simp [hr, bufferOf_of_not_key e r hr]

theorem compactAll_spec {c : Codec} {G} (hc : CodecOk c G) (e : Engine) (h : PInv G e) :
    (compactAll c e).2 = none ∧ PInv G (compactAll c e).1 ∧ Maint e (compactAll c e).1 := by
  obtain ⟨f1, f2, f3, _⟩ := compactMany_spec hc (shardNames e) e h (fun s hs => mem_shardNames_isSome e s hs)
  have hfl : compactMany c e (shardNames e) = ((compactMany c e (shardNames e)).1, none) := by rw [← f1]
  unfold compactAll
  rw [hfl]
  simp only
  obtain ⟨w1, w2, _, _⟩ := walSync_spec (compactMany c e (shardNames e)).1 f2
  exact ⟨trivial, w1, f3.trans w2⟩

theorem compactIf_spec {c : Codec} {G} (hc : CodecOk c G) (e : Engine) (n : Nat) (h : PInv G e) :
    (compactIf c e n).1.2 = none ∧ PInv G (compactIf c e n).1.1 ∧ Maint e (compactIf c e n).1.1 := by
  unfold compactIf
  by_cases hn : (n == 0) = true
  · simp only [hn, if_true]; exact ⟨trivial, h, Maint.refl e⟩
  · simp only [hn]
    have hnames : ∀ s ∈ (e.shards.filter (fun p => p.2.batches.length ≥ n)).map (·.1), (aget e.shards s).isSome := by
      intro s hs
      apply aget_isSome_of_mem_keys
      rw [List.mem_map] at hs
      obtain ⟨p, hp, rfl⟩ := hs
      rw [List.mem_filter] at hp
      exact List.mem_map.2 ⟨p, hp.1, rfl⟩
    obtain ⟨f1, f2, f3, _⟩ := compactMany_spec hc _ e h hnames
    generalize hN : (e.shards.filter (fun p => decide (p.2.batches.length ≥ n))).map (·.1) = names at f1 f2 f3
    have hfl : compactMany c e names = ((compactMany c e names).1, none) := by rw [← f1]
    simp only [Bool.false_eq_true, if_false]
    rw [hfl]
    simp only
    by_cases hne : names.isEmpty = true
    · simp only [hne, if_true]; exact ⟨trivial, f2, f3⟩
    · simp only [hne]
      obtain ⟨w1, w2, _, _⟩ := walSync_spec (compactMany c e names).1 f2
      exact ⟨trivial, w1, f3.trans w2⟩

/-! ### restart -/

theorem keys_nodup_replay : ∀ (es : List (String × Update)) (m : List (String × Shard)), (keys m).Nodup → (keys (replay m es)).Nodup := by
  intro es
  induction es with
  | nil => intro m h; exact h
  | cons p es ih =>
    intro m h
    obtain ⟨s, u⟩ := p
    simp only [replay]
    exact ih _ (keys_nodup_aset _ _ _ h)

theorem shardOf_replay : ∀ (es : List (String × Update)) (m : List (String × Shard)) (r : String),
    (aget (replay m es) r).getD {} =
      { (aget m r).getD {} with buffer := ((aget m r).getD {}).buffer ++ walFor es r } := by
  intro es
  induction es with
  | nil => intro m r; simp [replay, walFor]
  | cons p es ih =>
    intro m r
    obtain ⟨s, u⟩ := p
    simp only [replay]
    rw [ih]
    simp only [aget_aset]
    by_cases hr : r = s
    · subst hr
      have : walFor ((r, u) :: es) r = u :: walFor es r := by simp [walFor, List.filter]
      simp [this]
    · have hsr : s ≠ r := fun e => hr e.symm
      have : walFor ((s, u) :: es) r = walFor es r := by simp [walFor, List.filter, hsr]
      simp [hr, this]

theorem loadShard_default : loadShard {} = {} := rfl

/-- the engine right after `FilePersist::new`: same log, list by list. -/
theorem reopenPersist_spec {c : Codec} {G} (hc : CodecOk c G) (e : Engine) (h : PInv G e)
    (hB : ∀ r, walFor (e.wal ++ e.walBuf) r = bufferOf e r) :
    (reopenPersist c e).2 = none ∧ PInv G (reopenPersist c e).1 ∧ (reopenPersist c e).1.cfg = e.cfg ∧
    (∀ r, logOf (reopenPersist c e).1 r = logOf e r) := by
  have hwalid : walRead c (e.wal ++ e.walBuf) = e.wal ++ e.walBuf := walRead_id hc _ h.walGood
  unfold reopenPersist
  simp only [hwalid]
  generalize he1 : ({ cfg := e.cfg, shards := replay (e.shards.map (fun p => (p.1, loadShard p.2))) (e.wal ++ e.walBuf), wal := e.wal ++ e.walBuf } : Engine) = e1
  have hshards : e1.shards = replay (e.shards.map (fun p => (p.1, loadShard p.2))) (e.wal ++ e.walBuf) := by rw [← he1]
  have hwal : e1.wal = e.wal ++ e.walBuf := by rw [← he1]
  have hwb : e1.walBuf = [] := by rw [← he1]
  have hcfg : e1.cfg = e.cfg := by rw [← he1]
  have hdead : e1.dead = false := by rw [← he1]
  have hshardOf : ∀ r, shardOf e1 r = { loadShard (shardOf e r) with buffer := bufferOf e r } := by
    intro r
    simp only [shardOf, hshards, shardOf_replay, aget_map]
    cases hg : aget e.shards r with
    | none =>
      have : bufferOf e r = [] := by simp [bufferOf, shardOf, hg]
      simp [hB, this, loadShard]
    | some sh =>
      have : bufferOf e r = sh.buffer := by simp [bufferOf, shardOf, hg]
      simp [hB, this, loadShard]
  have hlog1 : ∀ r, logOf e1 r = logOf e r := by
    intro r
    simp only [logOf, hshardOf, readShard, loadShard, bufferOf]
    rw [h.disk r]
  have hbuf1 : ∀ r, bufferOf e1 r = bufferOf e r := by
    intro r; simp only [bufferOf, hshardOf]
  have hP1 : PInv G e1 := by
    refine ⟨hdead, ?_, ?_, ?_, ?_, ?_, ?_⟩
    · rw [hshards]; apply keys_nodup_replay; rw [keys_map]; exact h.keysNodup
    · intro r; simp only [hshardOf, loadShard]
    · intro r u hu; rw [hlog1] at hu; exact h.good r u hu
    · intro p hp; rw [hwal, hwb, List.append_nil] at hp; exact h.walGood p hp
    · intro r hr; rw [hwal, hwb, List.append_nil, hB, ← hbuf1]; exact hr
    · intro _; refine ⟨hwb, fun r => ?_⟩; rw [hwal, hB, hbuf1]
  by_cases hemp : (e.wal ++ e.walBuf).isEmpty = true
  · simp only [hemp, if_true]
    exact ⟨trivial, hP1, hcfg, hlog1⟩
  · simp only [hemp]
    obtain ⟨f1, f2, f3, f4, _⟩ := flushMany_spec hc (dirty e1) e1 hP1 (fun x hx => mem_dirty_isSome _ x hx)
    exact ⟨f1, f2, f3.cfg.trans hcfg, fun r => (f4 r).trans (hlog1 r)⟩

theorem recoverRel_default : recoverRel {} = [] := by
  simp [recoverRel, readShard, consolidateToCurrent, sortBy, toTuples]

theorem liveOf_loadKgs (e : Engine) (hk : (keys e.shards).Nodup) (r : String) :
    liveOf (loadKgs e) r = toTuples (consolidateToCurrent (logOf e r)) := by
  have hk' : (keys (e.shards.map (fun p => (p.1, recoverRel p.2)))).Nodup := by rw [keys_map]; exact hk
  simp only [liveOf, loadKgs]
  rw [aget_filter (e.shards.map (fun p => (p.1, recoverRel p.2))) (fun l => !l.isEmpty) r hk', aget_map]
  cases hg : aget e.shards r with
  | none =>
    simp only [Option.map_none, Option.filter, Option.getD_none, logOf, shardOf, hg]
    have := recoverRel_default
    simp only [recoverRel] at this
    exact this.symm
  | some sh =>
    simp only [Option.map_some, logOf, shardOf, hg, Option.getD_some]
    have hrr : toTuples (consolidateToCurrent (readShard sh)) = recoverRel sh := rfl
    rw [hrr]
    by_cases hne : (recoverRel sh).isEmpty = true
    · have : recoverRel sh = [] := by simpa using hne
      simp [Option.filter, this]
    · have hne' : recoverRel sh ≠ [] := by simpa using hne
      simp [Option.filter, hne']

theorem restart_spec {c : Codec} {G} (hc : CodecOk c G) (e : Engine) (h : PInv G e)
    (hB : ∀ r, walFor (e.wal ++ e.walBuf) r = bufferOf e r) :
    (restart c e).2 = none ∧ PInv G (restart c e).1 ∧ (restart c e).1.cfg = e.cfg ∧
    (∀ r, logOf (restart c e).1 r = logOf e r) ∧
    (∀ r, liveOf (restart c e).1 r = toTuples (consolidateToCurrent (logOf e r))) := by
  obtain ⟨f1, f2, f3, f4⟩ := reopenPersist_spec hc e h hB
  have hfl : reopenPersist c e = ((reopenPersist c e).1, none) := by rw [← f1]
  unfold restart
  rw [hfl]
  simp only
  refine ⟨trivial, ⟨f2.notDead, f2.keysNodup, f2.disk, f2.good, f2.walGood, f2.walEmpty, f2.walImm⟩, f3, f4, ?_⟩
  intro r
  rw [liveOf_loadKgs _ f2.keysNodup, f4]

end ILV.Store
